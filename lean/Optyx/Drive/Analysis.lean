/-
  Optyx.Drive.Analysis — line-protocol commands for analysis.py (C04, C05).

    deg T K EXPR                      all degree observations of one expression, one line:
        (rec D) (iter D) (compute D) (depth N) (reads D…) (lin B) (quad B)
        rec = Py.degree, iter = Py.degreeIter (3·size), compute = Py.computeDegree T,
        depth = Py.estimateDepth, reads = K successive reads of the cached property starting
        from the slot state a fresh object has (`None` for a Variable, missing otherwise)
    coeffs EXPR (NAME…)               Py.extractAll              → (ok q…) | (err kind)
    coeffs_general EXPR (NAME…)       Py.coeffsGeneral (is_linear guard, then the walker only)
    path EXPR (NAME…)                 which branch of extract_all_linear_coefficients the model takes (evidence)
    const EXPR                        Py.extractConstantTerm     → (ok q) | (err kind)
    coeff1 EXPR NAME                  Py.extractLinearCoefficient
    lp OBJ|none min|max ((EXPR <=|>=|==)…) ((NAME lb|none ub|none)…)   Py.extractLP
        → (lp (c q…) (c0 q) (sense min|max) (aub (q…)…) (bub q…) (aeq (q…)…) (beq q…)
              (bounds (lb ub)…) (vars NAME…)) | (err kind)
-/
import Optyx.Sexp
import Optyx.Py.Degree
import Optyx.Py.Coeffs

namespace Optyx.Drive.AnalysisNs
open Optyx Optyx.Py

def showDeg : Deg → String
  | none => "none"
  | some d => toString d

def showMach : Except MachErr Deg → String
  | .ok d => showDeg d
  | .error .outOfFuel => "err:outOfFuel"
  | .error .popEmpty => "err:popEmpty"

def showErr : Err → String
  | .nonLinear => "(err NonLinearError)"
  | .zeroDiv => "(err ZeroDivisionError)"
  | .noObjective => "(err NoObjectiveError)"
  | .index => "(err IndexError)"
  | .unsupported => "(err unsupported)"

def showRatList (qs : List Rat) : String := " ".intercalate (qs.map showRat)

def showExceptRats : Except Err (List Rat) → String
  | .ok qs => "(ok " ++ showRatList qs ++ ")"
  | .error e => showErr e

def showExceptRat : Except Err Rat → String
  | .ok q => "(ok " ++ showRat q ++ ")"
  | .error e => showErr e

def showOptRat : Option Rat → String
  | none => "none"
  | some q => showRat q

def showLP : Except Err LPData → String
  | .error e => showErr e
  | .ok d =>
    "(lp (c " ++ showRatList d.c ++ ") (c0 " ++ showRat d.c0 ++ ") (sense "
      ++ (if d.maximize then "max" else "min") ++ ") (aub "
      ++ " ".intercalate (d.aub.map fun r => "(" ++ showRatList r ++ ")") ++ ") (bub " ++ showRatList d.bub
      ++ ") (aeq " ++ " ".intercalate (d.aeq.map fun r => "(" ++ showRatList r ++ ")") ++ ") (beq "
      ++ showRatList d.beq ++ ") (bounds "
      ++ " ".intercalate (d.bounds.map fun b => "(" ++ showOptRat b.1 ++ " " ++ showOptRat b.2 ++ ")")
      ++ ") (vars " ++ " ".intercalate (d.variables.map fun n => "\"" ++ n ++ "\"") ++ "))"

def toNames (l : List Sexp) : Option (List String) :=
  l.mapM fun | .str n => some n | _ => none

def toOptRat : Sexp → Option (Option Rat)
  | .atom "none" => some none
  | .atom a => (parseRat a).map some
  | _ => none

def toSense : Sexp → Option Sense
  | .atom "<=" => some .le
  | .atom ">=" => some .ge
  | .atom "==" => some .eq
  | _ => none

def toVarDecl : Sexp → Option VarDecl
  | .list [.str n, lb, ub] => do
    let lb ← toOptRat lb
    let ub ← toOptRat ub
    pure ⟨n, lb, ub⟩
  | _ => none

def toConstraint : Sexp → Option (Expr × Sense)
  | .list [e, s] => do
    let e ← e.toExpr
    let s ← toSense s
    pure (e, s)
  | _ => none

def toLPProblem (obj sense : Sexp) (cons vars : List Sexp) : Option LPProblem := do
  let objective ←
    match obj with
    | .atom "none" => some none
    | s => s.toExpr.map some
  let maximize ←
    match sense with
    | .atom "min" => some false
    | .atom "max" => some true
    | _ => none
  let constraints ← cons.mapM toConstraint
  let vars ← vars.mapM toVarDecl
  pure ⟨objective, maximize, constraints, vars⟩

/-- slot state of a freshly constructed object: `Variable.__init__` stores `None`,
    every other class leaves the attribute missing -/
def freshSlot : Expr → Slot
  | .var _ => .pyNone
  | _ => .unset

def showReads : Except MachErr (List Deg) → String
  | .ok ds => " ".intercalate (ds.map showDeg)
  | .error .outOfFuel => "err:outOfFuel"
  | .error .popEmpty => "err:popEmpty"

/-- which branch of `extract_all_linear_coefficients` produces the result (evidence only) -/
def extractPath (e : Expr) (V : List String) : String :=
  if !isLinear e then "nonlinear"
  else
    match e with
    | .vecSum vv =>
      match coversAll V vv with
      | .ok (some true) => "fast:VectorSum"
      | _ => "general:VectorSum"
    | .linComb _ (.vars vv) =>
      match coversAll V vv with
      | .ok (some true) => "fast:LinearCombination"
      | _ => "general:LinearCombination"
    | .bin op l r =>
      match fastBinop V op l r with
      | .ok (some _) => "fast:BinaryOp"
      | _ => "general:BinaryOp"
    | _ => "general"

def handleAnalysis (cmd : String) (args : List Sexp) : Option String :=
  match cmd, args with
  | "deg", [.atom t, .atom k, e] =>
    some <| match t.toNat?, k.toNat?, e.toExpr with
      | some t, some k, some e =>
        "(rec " ++ showDeg (degree e) ++ ") (iter " ++ showMach (degreeIter (3 * e.size) e)
          ++ ") (compute " ++ showMach (computeDegree t e) ++ ") (depth " ++ toString (estimateDepth e)
          ++ ") (reads " ++ showReads (readMany t e k (freshSlot e)) ++ ") (lin "
          ++ toString (isLinear e) ++ ") (quad " ++ toString (isQuadratic e) ++ ")"
      | _, _, _ => "bad-input"
  | "coeffs", [e, .list names] =>
    some <| match e.toExpr, toNames names with
      | some e, some V => showExceptRats (extractAll e V)
      | _, _ => "bad-input"
  | "path", [e, .list names] =>
    some <| match e.toExpr, toNames names with
      | some e, some V => extractPath e V
      | _, _ => "bad-input"
  | "coeffs_general", [e, .list names] =>
    some <| match e.toExpr, toNames names with
      | some e, some V => showExceptRats (if isLinear e then coeffsGeneral e V else .error .nonLinear)
      | _, _ => "bad-input"
  | "const", [e] =>
    some <| match e.toExpr with
      | some e => showExceptRat (extractConstantTerm e)
      | none => "bad-input"
  | "coeff1", [e, .str x] =>
    some <| match e.toExpr with
      | some e => showExceptRat (extractLinearCoefficient e x)
      | none => "bad-input"
  | "lp", [obj, sense, .list cons, .list vars] =>
    some <| match toLPProblem obj sense cons vars with
      | some p => showLP (extractLP p)
      | none => "bad-input"
  | _, _ => none

end Optyx.Drive.AnalysisNs
