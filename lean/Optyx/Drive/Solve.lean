/-
  Optyx.Drive.Solve — line-protocol commands for the solver-glue model (`Py/Solve.lean`).

  commands (one output line each; "bad-input" when the arguments do not decode):
    solve       PROBLEM OPTS WORLD STATE     Problem.solve
    solve-scipy PROBLEM OPTS WORLD STATE     solve_scipy(problem, method=opts.method, …)
    solve-lp    PROBLEM OPTS WORLD STATE     solve_lp(problem, method=opts.method | None, …)
    violation   SENSE q                      Constraint.violation for g(x) = q
    consts                                   tolerances and method sets of the model
    handle      RECIPE                       a Variable / VectorVariable / MatrixVariable built by a route
    getitem     ((name q) ..) RECIPE         Solution(values)[handle]

  PROBLEM = (problem hasObj max objLinear objDeg ((sense linear deg g1 g2) ..) ((name lb ub dom) ..) (c ..) c0)
            g1 / g2 = value of the constraint expression at r1.x / r2.x
  OPTS    = (opts "method" strict useHessian tol x0)   x0 = None | (q ..)
  WORLD   = (world R R LR FAULT)   R = (res success maxIter infeasible posDir (x ..) fun nit)
            LR = (lres success status X fun nit)   FAULT = None | (fault pass STEP baseOnly)
  STATE   = (state CACHE lp lin)   CACHE = None | (key ..)   lin = None | 0 | 1
  booleans are 0/1, optional values are `None` or the value.
-/
import Optyx.Sexp
import Optyx.Py.Solve

namespace Optyx.Drive
open Optyx Optyx.Py.Solve

namespace SolveDec

def bool : Sexp → Option Bool
  | .atom "0" => some false | .atom "1" => some true | _ => none

def rat : Sexp → Option Rat
  | .atom a => parseRat a | _ => none

def nat : Sexp → Option Nat
  | .atom a => a.toNat? | _ => none

def int : Sexp → Option Int
  | .atom a => a.toInt? | _ => none

def opt {α} (f : Sexp → Option α) : Sexp → Option (Option α)
  | .atom "None" => some none
  | s => (f s).map some

def str : Sexp → Option String
  | .str s => some s | _ => none

def rats : Sexp → Option (List Rat)
  | .list l => l.mapM rat | _ => none

def sense : Sexp → Option Sense
  | .atom "<=" => some .le | .atom ">=" => some .ge | .atom "==" => some .eq | _ => none

def domain : Sexp → Option Domain
  | .atom "continuous" => some .continuous | .atom "integer" => some .integer
  | .atom "binary" => some .binary | _ => none

def pvar : Sexp → Option PVar
  | .list [n, lb, ub, d] => do
    pure ⟨← str n, ← opt rat lb, ← opt rat ub, ← domain d⟩
  | _ => none

def result : Sexp → Option ScipyResult
  | .list [.atom "res", s, mi, inf, pd, x, f, nit] => do
    pure ⟨← bool s, ⟨← bool mi, ← bool inf, ← bool pd⟩, ← rats x, ← rat f, ← opt nat nit⟩
  | _ => none

def lresult : Sexp → Option LPResult
  | .list [.atom "lres", s, st, x, f, nit] => do
    pure ⟨← bool s, ← nat st, ← opt rats x, ← opt rat f, ← opt nat nit⟩
  | _ => none

def step : Sexp → Option Step
  | .atom "isLinear" => some .isLinear | .atom "autoSelect" => some .autoSelect
  | .atom "variables" => some .variables | .atom "warn" => some .warn
  | .atom "buildObj" => some .buildObj | .atom "buildGrad" => some .buildGrad
  | .list [.atom "buildCon", k] => (nat k).map .buildCon
  | .list [.atom "buildJac", k] => (nat k).map .buildJac
  | .atom "compileHess" => some .compileHess | .atom "minimize" => some .minimize
  | .list [.atom "postCon", k] => (nat k).map .postCon
  | .atom "retryWarn" => some .retryWarn | .atom "extract" => some .extract
  | .atom "linprog" => some .linprog
  | _ => none

def fault : Sexp → Option (Option Fault)
  | .atom "None" => some none
  | .list [.atom "fault", p, st, b] => do pure (some ⟨← nat p, ← step st, ← bool b⟩)
  | _ => none

def ckey : Sexp → Option CKey
  | .atom "obj_fn" => some .objFn | .atom "grad_fn" => some .gradFn | .atom "bounds" => some .bounds
  | .atom "scipy_constraints" => some .scipyConstraints | .atom "hess_fn" => some .hessFn
  | _ => none

def world : Sexp → Option World
  | .list [.atom "world", r1, r2, lr, f] => do
    pure ⟨← result r1, ← result r2, ← lresult lr, ← fault f⟩
  | _ => none

def state : Sexp → Option PState
  | .list [.atom "state", c, lp, lin] => do
    let c ← opt (fun | .list l => l.mapM ckey | _ => none) c
    pure { hook := 7, reclimit := 1000, solverCache := c, lpCache := ← bool lp, linCache := ← opt bool lin,
           trace := [], fired := false }
  | _ => none

def opts : Sexp → Option Opts
  | .list [.atom "opts", m, s, h, t, x0] => do
    pure { method := ← str m, strict := ← bool s, useHessian := ← bool h, tol := ← opt rat t, x0 := ← opt rats x0 }
  | _ => none

/-- the abstract constraint function, tabulated at the two result points -/
def tabulate (x1 : List Rat) (g1 g2 : Rat) : List Rat → Rat := fun x => if x == x1 then g1 else g2

def pcon (x1 : List Rat) : Sexp → Option PCon
  | .list [s, l, d, g1, g2] => do
    pure ⟨← sense s, ← bool l, ← opt nat d, tabulate x1 (← rat g1) (← rat g2)⟩
  | _ => none

def problem (x1 : List Rat) : Sexp → Option Problem
  | .list [.atom "problem", ho, mx, ol, od, .list cons, .list vars, c, c0] => do
    pure { hasObjective := ← bool ho, maximize := ← bool mx, objLinear := ← bool ol, objDeg := ← opt nat od,
           cons := ← cons.mapM (pcon x1), vars := ← vars.mapM pvar, c := ← rats c, c0 := ← rat c0 }
  | _ => none

def pyslice : Sexp → Option PySlice
  | .list [.atom "sl", a, b, c] => do pure ⟨← opt int a, ← opt int b, ← opt int c⟩
  | _ => none

end SolveDec

namespace SolveShow

def optS {α} (f : α → String) : Option α → String
  | none => "None" | some a => f a

def b01 (b : Bool) : String := if b then "1" else "0"

def values (d : List (String × Rat)) : String :=
  "(" ++ " ".intercalate (d.map fun p => "(\"" ++ p.1 ++ "\" " ++ showRat p.2 ++ ")") ++ ")"

def solution (s : Solution) : String :=
  "sol status=" ++ s.status.name ++ " obj=" ++ optS showRat s.objective ++ " values=" ++ values s.values
    ++ " nit=" ++ optS toString s.iterations

def bnd (b : Bnd) : String := "(" ++ optS showRat b.lb ++ " " ++ optS showRat b.ub ++ ")"

def names (ns : List String) : String := "(" ++ " ".intercalate (ns.map fun n => "\"" ++ n ++ "\"") ++ ")"

def event : Event → String
  | .warnRelax s ns => "(warn-relax " ++ s ++ " " ++ names ns ++ ")"
  | .warnRetry => "(warn-retry)"
  | .minimizeCall a => "(minimize " ++ a.method ++ " x0=" ++ optS showRats a.x0 ++ " jac=" ++ b01 a.useGrad ++ " hess=" ++ b01 a.useHess
      ++ " bounds=" ++ optS (fun l => "(" ++ " ".intercalate (l.map bnd) ++ ")") a.bounds
      ++ " ncons=" ++ toString a.nCons ++ ")"
  | .linprogCall a => "(linprog " ++ a.method ++ " c=" ++ showRats a.cost
      ++ " bounds=(" ++ " ".intercalate (a.bounds.map bnd) ++ "))"

def ckey : CKey → String
  | .objFn => "obj_fn" | .gradFn => "grad_fn" | .bounds => "bounds"
  | .scipyConstraints => "scipy_constraints" | .hessFn => "hess_fn"

def run (r : Res Solution × PState) : String :=
  let out := match r.1 with
    | .ok s => solution s
    | .exc e => e.text
  let s := r.2
  out ++ " | events=(" ++ " ".intercalate (s.trace.map event) ++ ")"
    ++ " | hook=" ++ toString s.hook ++ " reclimit=" ++ toString s.reclimit
    ++ " cache=" ++ optS (fun ks => "(" ++ " ".intercalate (ks.map ckey) ++ ")") s.solverCache
    ++ " lp=" ++ b01 s.lpCache ++ " lin=" ++ optS b01 s.linCache ++ " fired=" ++ b01 s.fired

def pvar (v : PVar) : String :=
  "(\"" ++ v.name ++ "\" " ++ optS showRat v.lb ++ " " ++ optS showRat v.ub ++ " " ++ v.domain.text ++ ")"

def pvars (l : List PVar) : String := "(" ++ " ".intercalate (l.map pvar) ++ ")"

end SolveShow

inductive Handle
  | scalar (v : PVar)
  | vec (v : PVec)
  | mat (m : PMat)

/-- outer `Option` = the recipe does not decode; inner `Except` = the route raises -/
partial def evalRecipe : Sexp → Option (Except Exc Handle)
  | .list [.atom "var", n, lb, ub, d] => do
    let v := mkVariable (← SolveDec.str n) (← SolveDec.opt SolveDec.rat lb) (← SolveDec.opt SolveDec.rat ub) (← SolveDec.domain d)
    pure (.ok (.scalar v))
  | .list [.atom "vec", n, sz, lb, ub, d] => do
    let r := mkVector (← SolveDec.str n) (← SolveDec.int sz) (← SolveDec.opt SolveDec.rat lb)
              (← SolveDec.opt SolveDec.rat ub) (← SolveDec.domain d)
    pure (r.map .vec)
  | .list [.atom "mat", n, r, c, lb, ub, d, sym] => do
    let m := mkMatrix (← SolveDec.str n) (← SolveDec.int r) (← SolveDec.int c) (← SolveDec.opt SolveDec.rat lb)
              (← SolveDec.opt SolveDec.rat ub) (← SolveDec.domain d) (← SolveDec.bool sym)
    pure (m.map .mat)
  | .list [.atom "slice", h, sl] => do
    let sl ← SolveDec.pyslice sl
    match ← evalRecipe h with
    | .ok (.vec v) => pure ((v.slice sl).map .vec)
    | .ok _ => none
    | .error e => pure (.error e)
  | .list [.atom "vget", h, i] => do
    let i ← SolveDec.int i
    match ← evalRecipe h with
    | .ok (.vec v) => pure ((v.get i).map .scalar)
    | .ok _ => none
    | .error e => pure (.error e)
  | .list [.atom "T", h] => do
    match ← evalRecipe h with
    | .ok (.mat m) => pure (.ok (.mat m.T))
    | .ok _ => none
    | .error e => pure (.error e)
  | .list [.atom "mget", h, i, j] => do
    let i ← SolveDec.int i; let j ← SolveDec.int j
    match ← evalRecipe h with
    | .ok (.mat m) => pure ((m.get i j).map .scalar)
    | .ok _ => none
    | .error e => pure (.error e)
  | .list [.atom "row", h, i, sl] => do
    let i ← SolveDec.int i; let sl ← SolveDec.pyslice sl
    match ← evalRecipe h with
    | .ok (.mat m) => pure ((m.row i sl).map .vec)
    | .ok _ => none
    | .error e => pure (.error e)
  | .list [.atom "col", h, sl, j] => do
    let j ← SolveDec.int j; let sl ← SolveDec.pyslice sl
    match ← evalRecipe h with
    | .ok (.mat m) => pure ((m.col sl j).map .vec)
    | .ok _ => none
    | .error e => pure (.error e)
  | .list [.atom "sub", h, rs, cs] => do
    let rs ← SolveDec.pyslice rs; let cs ← SolveDec.pyslice cs
    match ← evalRecipe h with
    | .ok (.mat m) => pure ((m.sub rs cs).map .mat)
    | .ok _ => none
    | .error e => pure (.error e)
  | .list [.atom "diagonal", h] => do
    match ← evalRecipe h with
    | .ok (.mat m) => pure (m.diagonal.map .vec)
    | .ok _ => none
    | .error e => pure (.error e)
  | .list [.atom "diagm", h, lb, ub] => do
    let lb ← SolveDec.opt SolveDec.rat lb; let ub ← SolveDec.opt SolveDec.rat ub
    match ← evalRecipe h with
    | .ok (.vec v) => pure (.ok (.mat (diagMatrix v lb ub)))
    | .ok _ => none
    | .error e => pure (.error e)
  | _ => none

def showHandle : Handle → String
  | .scalar v => "var " ++ SolveShow.pvar v
  | .vec v => "vec \"" ++ v.name ++ "\" " ++ SolveShow.optS showRat v.lb ++ " " ++ SolveShow.optS showRat v.ub
      ++ " " ++ v.domain.text ++ " size=" ++ toString v.vars.length ++ " " ++ SolveShow.pvars v.vars
  | .mat m => "mat \"" ++ m.name ++ "\" " ++ toString m.nrows ++ " " ++ toString m.ncols ++ " "
      ++ SolveShow.optS showRat m.lb ++ " " ++ SolveShow.optS showRat m.ub ++ " " ++ m.domain.text
      ++ " sym=" ++ SolveShow.b01 m.symmetric ++ " tr=" ++ SolveShow.b01 m.isTranspose
      ++ " (" ++ " ".intercalate (m.grid.map SolveShow.pvars) ++ ")"

def decodeSolve (p o w s : Sexp) : Option (Problem × Opts × World × PState) := do
  let w ← SolveDec.world w
  let p ← SolveDec.problem w.r1.x p
  pure (p, ← SolveDec.opts o, w, ← SolveDec.state s)

def handleSolve (cmd : String) (args : List Sexp) : Option String :=
  match cmd, args with
  | "solve", [p, o, w, s] =>
    some <| match decodeSolve p o w s with
      | some (p, o, w, s) => SolveShow.run (solve w p o s)
      | none => "bad-input"
  | "solve-scipy", [p, o, w, s] =>
    some <| match decodeSolve p o w s with
      | some (p, o, w, s) => SolveShow.run (solveScipy w p o o.method s)
      | none => "bad-input"
  | "solve-lp", [p, o, w, s] =>
    some <| match decodeSolve p o w s with
      | some (p, o, w, s) =>
        SolveShow.run (solveLP w p (if o.method == "None" then none else some o.method) o.strict s)
      | none => "bad-input"
  | "violation", [sn, q] =>
    some <| match SolveDec.sense sn, SolveDec.rat q with
      | some sn, some q => showRat (violation ⟨sn, fun _ => q⟩ [])
      | _, _ => "bad-input"
  | "consts", [] =>
    some <| "tol6=" ++ showRat tol6
      ++ " hessian=" ++ SolveShow.names Generated.hessianMethods
      ++ " derivfree=" ++ SolveShow.names Generated.derivativeFreeMethods
      ++ " bounds=" ++ SolveShow.names Generated.boundsMethods
  | "handle", [r] =>
    some <| match evalRecipe r with
      | some (.ok h) => showHandle h
      | some (.error e) => e.text
      | none => "bad-input"
  | "getitem", [.list vals, r] =>
    some <| match vals.mapM (fun | .list [.str n, q] => (SolveDec.rat q).map (fun q => (n, q)) | _ => none),
                  evalRecipe r with
      | some vals, some (.ok h) =>
        (match h with
         | .scalar v => (match lookupValue vals v.name with | .ok q => showRat q | .error e => e.text)
         | .vec v => (match getVector vals v with | .ok l => showRats l | .error e => e.text)
         | .mat m => (match getMatrix vals m with
                      | .ok l => "(" ++ " ".intercalate (l.map showRats) ++ ")" | .error e => e.text))
      | some _, some (.error e) => e.text
      | _, _ => "bad-input"
  | _, _ => none

end Optyx.Drive
