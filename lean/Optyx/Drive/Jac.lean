/-
  Optyx.Drive.Jac — line-protocol commands for the derivative callables (C03 / C17 / C19).

    jacrow  E (V..)                 → none | (e ..)                 E.jacobian_row(V)
    jacrows (E..) (V..)             → ((e ..) ..)                   compute_jacobian
    hessrows E (V..)                → ((e ..) ..)                   compute_hessian
    jacpath (E..) (V..)             → <closure __name__> | raise:KeyError
    gradpath E (V..) / hesspath E (V..)
    jacrun  (E..) (V..) (x..) (store)   → ((f ..) ..) | raise:KeyError      doubles
    gradrun E (V..) (x..) (store)       → (f ..)
    hessrun E (V..) (x..) (store)       → ((f ..) ..)
    jacsv / gradsv / hesssv             same, evaluated over the special-value domain `SV Float`
    evalsv E (x-env) (store)            → f        ⟦E⟧ over `SV Float` (ties the IEEE rule tables)
    san (x..) / sansv (x..)             → (f ..)   _sanitize_derivatives on doubles / on `SV Float`

  numbers in: rationals, `nan`, `inf`, `-inf`, `-0`;  numbers out: `nan` or the IEEE bit pattern.
-/
import Optyx.Sexp
import Optyx.Drive.Core
import Optyx.Py.Jacobian

namespace Optyx.Drive.JacNs
open Optyx Optyx.Py

def parseNum (s : String) : Option Float :=
  match s with
  | "nan" => some (0.0 / 0.0)
  | "inf" => some (1.0 / 0.0)
  | "-inf" => some (-1.0 / 0.0)
  | "-0" => some (-0.0)
  | s => (parseRat s).map ratToFloat

def numsOf (l : List Sexp) : Option (List Float) :=
  l.mapM fun | .atom a => parseNum a | _ => none

def showNum (x : Float) : String := if x.isNaN then "nan" else toString x.toBits
def showNums (xs : List Float) : String := "(" ++ " ".intercalate (xs.map showNum) ++ ")"
def showMat (m : List (List Float)) : String := "(" ++ " ".intercalate (m.map showNums) ++ ")"

def showRow (r : List Expr) : String := "(" ++ " ".intercalate (r.map showExpr) ++ ")"
def showRows (m : List (List Expr)) : String := "(" ++ " ".intercalate (m.map showRow) ++ ")"

def exprsOf (l : List Sexp) : Option (List Expr) := l.mapM Sexp.toExpr

def showErr : JErr → String
  | .keyError => "raise:KeyError"

/-- store with NaN for unknown parameters (as in `Drive.storeOf`), numbers may be special tokens -/
def storeNum (l : List Sexp) : Option (Nat → Float) := do
  let pairs ← l.mapM fun
    | .list [.atom o, .atom q] => do
      let k ← o.toNat?; let r ← parseNum q; pure (k, r)
    | _ => none
  pure fun n => match pairs.find? (·.1 == n) with
    | some p => p.2
    | none => 0.0 / 0.0

def envNum (l : List Sexp) : Option (String → Float) := do
  let pairs ← l.mapM fun
    | .list [.str n, .atom q] => (parseNum q).map fun r => (n, r)
    | _ => none
  pure fun n => match pairs.find? (·.1 == n) with
    | some p => p.2
    | none => 0.0 / 0.0

def handleJac (cmd : String) (args : List Sexp) : Option String :=
  match cmd, args with
  | "jacrow", [e, .list vs] =>
    some <| match e.toExpr, Sexp.toVars vs with
      | some e, some V =>
        match jacRow V e with
        | some row => showRow row
        | none => "none"
      | _, _ => "bad-input"
  | "jacrows", [.list es, .list vs] =>
    some <| match exprsOf es, Sexp.toVars vs with
      | some es, some V => showRows (computeJacobian es V)
      | _, _ => "bad-input"
  | "hessrows", [e, .list vs] =>
    some <| match e.toExpr, Sexp.toVars vs with
      | some e, some V => showRows (computeHessian e V)
      | _, _ => "bad-input"
  | "jacpath", [.list es, .list vs] =>
    some <| match exprsOf es, Sexp.toVars vs with
      | some es, some V =>
        match compileJacobian es V with
        | .ok c => c.name
        | .error err => showErr err
      | _, _ => "bad-input"
  | "gradpath", [e, .list vs] =>
    some <| match e.toExpr, Sexp.toVars vs with
      | some e, some V =>
        match compileGradient e V with
        | .ok c => c.name
        | .error err => showErr err
      | _, _ => "bad-input"
  | "hesspath", [e, .list vs] =>
    some <| match e.toExpr, Sexp.toVars vs with
      | some e, some V =>
        match compileHessian e V with
        | .ok c => c.name
        | .error err => showErr err
      | _, _ => "bad-input"
  | "jacrun", [.list es, .list vs, .list xs, .list st] =>
    some <| match exprsOf es, Sexp.toVars vs, numsOf xs, storeNum st with
      | some es, some V, some x, some σ =>
        if x.length != V.length then "bad-input" else
        match compileJacobian es V with
        | .ok c => showMat (c.run x σ)
        | .error err => showErr err
      | _, _, _, _ => "bad-input"
  | "gradrun", [e, .list vs, .list xs, .list st] =>
    some <| match e.toExpr, Sexp.toVars vs, numsOf xs, storeNum st with
      | some e, some V, some x, some σ =>
        if x.length != V.length then "bad-input" else
        match compileGradient e V with
        | .ok c => showNums (c.run x σ)
        | .error err => showErr err
      | _, _, _, _ => "bad-input"
  | "hessrun", [e, .list vs, .list xs, .list st] =>
    some <| match e.toExpr, Sexp.toVars vs, numsOf xs, storeNum st with
      | some e, some V, some x, some σ =>
        if x.length != V.length then "bad-input" else
        match compileHessian e V with
        | .ok c => showMat (c.run x σ)
        | .error err => showErr err
      | _, _, _, _ => "bad-input"
  | "jacsv", [.list es, .list vs, .list xs, .list st] =>
    some <| match exprsOf es, Sexp.toVars vs, numsOf xs, storeNum st with
      | some es, some V, some x, some σ =>
        if x.length != V.length then "bad-input" else
        match compileJacobian es V with
        | .ok c => showMat ((c.run (x.map SV.ofFloat) (fun k => SV.ofFloat (σ k))).map (·.map SV.toFloat))
        | .error err => showErr err
      | _, _, _, _ => "bad-input"
  | "gradsv", [e, .list vs, .list xs, .list st] =>
    some <| match e.toExpr, Sexp.toVars vs, numsOf xs, storeNum st with
      | some e, some V, some x, some σ =>
        if x.length != V.length then "bad-input" else
        match compileGradient e V with
        | .ok c => showNums ((c.run (x.map SV.ofFloat) (fun k => SV.ofFloat (σ k))).map SV.toFloat)
        | .error err => showErr err
      | _, _, _, _ => "bad-input"
  | "hesssv", [e, .list vs, .list xs, .list st] =>
    some <| match e.toExpr, Sexp.toVars vs, numsOf xs, storeNum st with
      | some e, some V, some x, some σ =>
        if x.length != V.length then "bad-input" else
        match compileHessian e V with
        | .ok c => showMat ((c.run (x.map SV.ofFloat) (fun k => SV.ofFloat (σ k))).map (·.map SV.toFloat))
        | .error err => showErr err
      | _, _, _, _ => "bad-input"
  | "evalsv", [e, .list env, .list st] =>
    some <| match e.toExpr, envNum env, storeNum st with
      | some e, some ρ, some σ =>
        showNum (SV.toFloat (denote (fun n => SV.ofFloat (ρ n)) (fun k => SV.ofFloat (σ k)) e))
      | _, _, _ => "bad-input"
  | "san", [.list xs] =>
    some <| match numsOf xs with
      | some x => showNums (sanitize x)
      | none => "bad-input"
  | "sansv", [.list xs] =>
    some <| match numsOf xs with
      | some x => showNums ((sanitize (x.map SV.ofFloat)).map SV.toFloat)
      | none => "bad-input"
  | _, _ => none

end Optyx.Drive.JacNs
