/-
  Optyx.Syntax — the expression grammar of optyx as a Lean datatype.

  One constructor per scalar `Expression` subclass of /repo/src/optyx/core
  (expressions.py, vectors.py, matrices.py, parameters.py).  Core Lean only
  (no Mathlib) so that the line-protocol driver can import it.

  Modelling conventions (DESIGN.md §2.1):
  * float / int constants are exact rationals (`float.as_integer_ratio`);
    `np.log(2.0)` / `np.log(10.0)` are the symbolic constants `ln2`, `ln10`;
  * Python object identity is an explicit `oid` on the objects whose identity the
    code tests (`Variable`, `Parameter`, `VectorVariable`, `MatrixVariable`);
    `Variable.__eq__`/`__hash__` are by name, so all name-based look-ups use `name`;
  * a `MatrixExpression` under `MatrixSum` is kept as its row-major element list
    (only the flattened elements matter to every consumer of that node).
-/
namespace Optyx

inductive BinOp | add | sub | mul | div | pow
  deriving DecidableEq, Repr, Inhabited

/-- keys of `UnaryOp._OPS` (checked against the regenerated table in `Generated/Tables.lean`). -/
inductive UnOp
  | neg | abs | sin | cos | tan | exp | log | log2 | log10 | sqrt | tanh | sinh | cosh
  | asin | acos | atan | asinh | acosh | atanh
  deriving DecidableEq, Repr, Inhabited

/-- keys of `VectorUnarySum._NUMPY_FUNCS` / `ElementwiseUnary._NUMPY_FUNCS`:
    the constructor of those nodes rejects every other name. -/
inductive VOp | sin | cos | tan | exp | log | abs | sqrt | sinh | cosh | tanh
  deriving DecidableEq, Repr, Inhabited

def VOp.toUn : VOp → UnOp
  | .sin => .sin | .cos => .cos | .tan => .tan | .exp => .exp | .log => .log
  | .abs => .abs | .sqrt => .sqrt | .sinh => .sinh | .cosh => .cosh | .tanh => .tanh

inductive Cst
  | rat (q : Rat)
  | ln2
  | ln10
  deriving DecidableEq, Repr, Inhabited

structure Var where
  name : String
  oid  : Nat := 0
  deriving DecidableEq, Repr, Inhabited

structure Par where
  name : String
  oid  : Nat := 0
  deriving DecidableEq, Repr, Inhabited

/-- `VectorVariable`: a named, identity-carrying list of `Variable`s (views made by
    slicing / rows / columns / diagonals are further `VVar`s sharing element objects). -/
structure VVar where
  name : String
  oid  : Nat := 0
  vars : List Var
  deriving DecidableEq, Repr, Inhabited

/-- `MatrixVariable`: rows of `Variable`s (a symmetric matrix repeats its off-diagonal
    element objects). -/
structure MVar where
  name : String
  oid  : Nat := 0
  rows : List (List Var)
  deriving DecidableEq, Repr, Inhabited

def MVar.flat (m : MVar) : List Var := m.rows.flatten

mutual
inductive Expr
  | const   (c : Cst)
  | var     (v : Var)
  | param   (p : Par)
  | bin     (op : BinOp) (l r : Expr)
  | un      (op : UnOp) (a : Expr)
  | linComb (cs : List Rat) (v : Vec)          -- LinearCombination
  | vecSum  (v : VVar)                         -- VectorSum
  | exprSum (es : ExprList)                    -- VectorExpressionSum
  | dot     (l r : Vec)                        -- DotProduct
  | l2      (v : Vec)                          -- L2Norm
  | l1      (v : Vec)                          -- L1Norm
  | quad    (v : Vec) (q : List (List Rat))    -- QuadraticForm
  | powSum  (v : VVar) (k : Rat)               -- VectorPowerSum
  | unSum   (v : VVar) (op : VOp)              -- VectorUnarySum
  | matSumV (m : MVar)                         -- MatrixSum over a MatrixVariable
  | matSumE (es : ExprList)                    -- MatrixSum over a MatrixExpression (row-major)
  | frob    (m : MVar)                         -- FrobeniusNorm
inductive Vec
  | vars  (v : VVar)                           -- VectorVariable operand
  | exprs (es : ExprList)                      -- VectorExpression operand
inductive ExprList
  | nil
  | cons (e : Expr) (t : ExprList)
end

instance : Inhabited Expr := ⟨.const (.rat 0)⟩
instance : Inhabited ExprList := ⟨.nil⟩

def ExprList.toList : ExprList → List Expr
  | .nil => []
  | .cons e t => e :: t.toList

def ExprList.ofList : List Expr → ExprList
  | [] => .nil
  | e :: t => .cons e (ExprList.ofList t)

@[simp] theorem ExprList.toList_ofList (l : List Expr) : (ExprList.ofList l).toList = l := by
  induction l with
  | nil => rfl
  | cons e t ih => simp [ExprList.ofList, ExprList.toList, ih]

def ExprList.length : ExprList → Nat
  | .nil => 0
  | .cons _ t => t.length + 1

/-- Python-side constructors used all over the model. -/
def Expr.c (q : Rat) : Expr := .const (.rat q)
def Expr.zero : Expr := .const (.rat 0)
def Expr.one  : Expr := .const (.rat 1)

mutual
def Expr.size : Expr → Nat
  | .const _ | .var _ | .param _ | .vecSum _ | .powSum _ _ | .unSum _ _ | .matSumV _ | .frob _ => 1
  | .bin _ l r => l.size + r.size + 1
  | .un _ a => a.size + 1
  | .linComb _ v | .l2 v | .l1 v | .quad v _ => v.size + 1
  | .exprSum es | .matSumE es => es.size + 1
  | .dot l r => l.size + r.size + 1
def Vec.size : Vec → Nat
  | .vars _ => 1
  | .exprs es => es.size + 1
def ExprList.size : ExprList → Nat
  | .nil => 1
  | .cons e t => e.size + t.size + 1
end

end Optyx
