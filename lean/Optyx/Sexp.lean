/-
  Optyx.Sexp — S-expression reader/printer for the line protocol between the Python
  harness and the Lean driver.  Not part of the verified model (it is part of the
  trusted correspondence machinery, like the Python serialiser).

  Concrete syntax of expressions (produced by harness/ser.py):
    (c 3/4) (c ln2) (c ln10)
    (v "x[0]" 17)            variable: name, object id
    (p "rate" 3)             parameter: name, object id
    (b + L R)  (u sin A)     ops: + - * / **
    (lc (q1 q2 ..) VEC) (vs VVAR) (es (E ..)) (dot VEC VEC) (l2 VEC) (l1 VEC)
    (qf VEC ((q ..) ..)) (ps VVAR q) (us VVAR op) (msv MVAR) (mse (E ..)) (fro MVAR)
    VEC  = (vv "name" oid (VAR ..)) | (ve (E ..))
    VVAR = (vv "name" oid (VAR ..))
    MVAR = (mv "name" oid ((VAR ..) ..))
-/
import Optyx.Syntax

namespace Optyx

inductive Sexp
  | atom (s : String)
  | str (s : String)
  | list (l : List Sexp)
  deriving Repr, Inhabited

namespace Sexp

inductive Tok | lp | rp | atom (s : String) | str (s : String)
  deriving Repr, Inhabited

partial def tokenize (s : String) : List Tok :=
  let rec go (cs : List Char) (acc : List Tok) : List Tok :=
    match cs with
    | [] => acc.reverse
    | '(' :: t => go t (.lp :: acc)
    | ')' :: t => go t (.rp :: acc)
    | '"' :: t =>
      let rec strLoop (cs : List Char) (buf : List Char) : List Char × List Char :=
        match cs with
        | [] => (buf.reverse, [])
        | '"' :: t => (buf.reverse, t)
        | c :: t => strLoop t (c :: buf)
      let (body, rest) := strLoop t []
      go rest (.str (String.ofList body) :: acc)
    | c :: t =>
      if c == ' ' || c == '\t' || c == '\n' || c == '\r' then go t acc
      else
        let rec atomLoop (cs : List Char) (buf : List Char) : List Char × List Char :=
          match cs with
          | [] => (buf.reverse, [])
          | c :: t =>
            if c == ' ' || c == '(' || c == ')' || c == '\t' || c == '\n' || c == '\r' || c == '"' then (buf.reverse, c :: t)
            else atomLoop t (c :: buf)
        let (body, rest) := atomLoop (c :: t) []
        go rest (.atom (String.ofList body) :: acc)
  go s.toList []

/-- parse a sequence of S-expressions -/
partial def parseMany (ts : List Tok) : Option (List Sexp × List Tok) :=
  match ts with
  | [] => some ([], [])
  | .rp :: _ => some ([], ts)
  | .lp :: t =>
    match parseMany t with
    | some (inner, .rp :: rest) =>
      match parseMany rest with
      | some (more, rest') => some (.list inner :: more, rest')
      | none => none
    | _ => none
  | .atom a :: t =>
    match parseMany t with
    | some (more, rest) => some (.atom a :: more, rest)
    | none => none
  | .str a :: t =>
    match parseMany t with
    | some (more, rest) => some (.str a :: more, rest)
    | none => none

def parseLine (s : String) : Option (List Sexp) :=
  match parseMany (tokenize s) with
  | some (xs, []) => some xs
  | _ => none

end Sexp

/-! ### decoding -/

def parseRat (s : String) : Option Rat :=
  match s.splitOn "/" with
  | [n] => n.toInt?.map fun i => (i : Rat)
  | [n, d] =>
    match n.toInt?, d.toNat? with
    | some i, some k => if k == 0 then none else some ((i : Rat) / (k : Rat))
    | _, _ => none
  | _ => none

def parseBinOp : String → Option BinOp
  | "+" => some .add | "-" => some .sub | "*" => some .mul | "/" => some .div | "**" => some .pow
  | _ => none

def parseUnOp : String → Option UnOp
  | "neg" => some .neg | "abs" => some .abs | "sin" => some .sin | "cos" => some .cos
  | "tan" => some .tan | "exp" => some .exp | "log" => some .log | "log2" => some .log2
  | "log10" => some .log10 | "sqrt" => some .sqrt | "tanh" => some .tanh | "sinh" => some .sinh
  | "cosh" => some .cosh | "asin" => some .asin | "acos" => some .acos | "atan" => some .atan
  | "asinh" => some .asinh | "acosh" => some .acosh | "atanh" => some .atanh
  | _ => none

def parseVOp : String → Option VOp
  | "sin" => some .sin | "cos" => some .cos | "tan" => some .tan | "exp" => some .exp
  | "log" => some .log | "abs" => some .abs | "sqrt" => some .sqrt | "sinh" => some .sinh
  | "cosh" => some .cosh | "tanh" => some .tanh
  | _ => none

def Sexp.toVar : Sexp → Option Var
  | .list [.atom "v", .str n, .atom o] => o.toNat?.map fun k => ⟨n, k⟩
  | .list [.atom "v", .str n] => some ⟨n, 0⟩
  | _ => none

def Sexp.toVars (l : List Sexp) : Option (List Var) := l.mapM Sexp.toVar

def Sexp.toRats (l : List Sexp) : Option (List Rat) :=
  l.mapM fun | .atom a => parseRat a | _ => none

def Sexp.toVVar : Sexp → Option VVar
  | .list [.atom "vv", .str n, .atom o, .list vs] => do
    let k ← o.toNat?
    let vs ← Sexp.toVars vs
    pure ⟨n, k, vs⟩
  | _ => none

def Sexp.toMVar : Sexp → Option MVar
  | .list [.atom "mv", .str n, .atom o, .list rows] => do
    let k ← o.toNat?
    let rows ← rows.mapM fun | .list r => Sexp.toVars r | _ => none
    pure ⟨n, k, rows⟩
  | _ => none

mutual
partial def Sexp.toExpr : Sexp → Option Expr
  | .list [.atom "c", .atom "ln2"] => some (.const .ln2)
  | .list [.atom "c", .atom "ln10"] => some (.const .ln10)
  | .list [.atom "c", .atom q] => (parseRat q).map fun r => .const (.rat r)
  | .list [.atom "v", .str n, .atom o] => o.toNat?.map fun k => .var ⟨n, k⟩
  | .list [.atom "v", .str n] => some (.var ⟨n, 0⟩)
  | .list [.atom "p", .str n, .atom o] => o.toNat?.map fun k => .param ⟨n, k⟩
  | .list [.atom "b", .atom op, l, r] => do
    let op ← parseBinOp op; let l ← l.toExpr; let r ← r.toExpr; pure (.bin op l r)
  | .list [.atom "u", .atom op, a] => do
    let op ← parseUnOp op; let a ← a.toExpr; pure (.un op a)
  | .list [.atom "lc", .list cs, v] => do
    let cs ← Sexp.toRats cs; let v ← v.toVec; pure (.linComb cs v)
  | .list [.atom "vs", v] => do let v ← v.toVVar; pure (.vecSum v)
  | .list [.atom "es", .list es] => do let es ← Sexp.toExprList es; pure (.exprSum es)
  | .list [.atom "dot", l, r] => do let l ← l.toVec; let r ← r.toVec; pure (.dot l r)
  | .list [.atom "l2", v] => do let v ← v.toVec; pure (.l2 v)
  | .list [.atom "l1", v] => do let v ← v.toVec; pure (.l1 v)
  | .list [.atom "qf", v, .list rows] => do
    let v ← v.toVec
    let q ← rows.mapM fun | .list r => Sexp.toRats r | _ => none
    pure (.quad v q)
  | .list [.atom "ps", v, .atom k] => do let v ← v.toVVar; let k ← parseRat k; pure (.powSum v k)
  | .list [.atom "us", v, .atom op] => do let v ← v.toVVar; let op ← parseVOp op; pure (.unSum v op)
  | .list [.atom "msv", m] => do let m ← m.toMVar; pure (.matSumV m)
  | .list [.atom "mse", .list es] => do let es ← Sexp.toExprList es; pure (.matSumE es)
  | .list [.atom "fro", m] => do let m ← m.toMVar; pure (.frob m)
  | _ => none
partial def Sexp.toVec : Sexp → Option Vec
  | .list [.atom "ve", .list es] => do let es ← Sexp.toExprList es; pure (.exprs es)
  | s => do let v ← s.toVVar; pure (.vars v)
partial def Sexp.toExprList : List Sexp → Option ExprList
  | [] => some .nil
  | e :: t => do let e ← e.toExpr; let t ← Sexp.toExprList t; pure (.cons e t)
end

/-! ### printing (the same concrete syntax; object ids are not printed) -/

def showRat (q : Rat) : String :=
  if q.den == 1 then toString q.num else toString q.num ++ "/" ++ toString q.den

def showBinOp : BinOp → String
  | .add => "+" | .sub => "-" | .mul => "*" | .div => "/" | .pow => "**"

def showUnOp : UnOp → String
  | .neg => "neg" | .abs => "abs" | .sin => "sin" | .cos => "cos" | .tan => "tan" | .exp => "exp"
  | .log => "log" | .log2 => "log2" | .log10 => "log10" | .sqrt => "sqrt" | .tanh => "tanh"
  | .sinh => "sinh" | .cosh => "cosh" | .asin => "asin" | .acos => "acos" | .atan => "atan"
  | .asinh => "asinh" | .acosh => "acosh" | .atanh => "atanh"

def showVar (v : Var) : String := "(v \"" ++ v.name ++ "\")"
def showVars (vs : List Var) : String := "(" ++ " ".intercalate (vs.map showVar) ++ ")"
def showRats (qs : List Rat) : String := "(" ++ " ".intercalate (qs.map showRat) ++ ")"
def showVVar (v : VVar) : String := "(vv \"" ++ v.name ++ "\" " ++ showVars v.vars ++ ")"
def showMVar (m : MVar) : String :=
  "(mv \"" ++ m.name ++ "\" (" ++ " ".intercalate (m.rows.map showVars) ++ "))"

mutual
partial def showExpr : Expr → String
  | .const (.rat q) => "(c " ++ showRat q ++ ")"
  | .const .ln2 => "(c ln2)"
  | .const .ln10 => "(c ln10)"
  | .var v => showVar v
  | .param p => "(p \"" ++ p.name ++ "\")"
  | .bin op l r => "(b " ++ showBinOp op ++ " " ++ showExpr l ++ " " ++ showExpr r ++ ")"
  | .un op a => "(u " ++ showUnOp op ++ " " ++ showExpr a ++ ")"
  | .linComb cs v => "(lc " ++ showRats cs ++ " " ++ showVec v ++ ")"
  | .vecSum v => "(vs " ++ showVVar v ++ ")"
  | .exprSum es => "(es " ++ showExprList es ++ ")"
  | .dot l r => "(dot " ++ showVec l ++ " " ++ showVec r ++ ")"
  | .l2 v => "(l2 " ++ showVec v ++ ")"
  | .l1 v => "(l1 " ++ showVec v ++ ")"
  | .quad v q => "(qf " ++ showVec v ++ " (" ++ " ".intercalate (q.map showRats) ++ "))"
  | .powSum v k => "(ps " ++ showVVar v ++ " " ++ showRat k ++ ")"
  | .unSum v op => "(us " ++ showVVar v ++ " " ++ showUnOp op.toUn ++ ")"
  | .matSumV m => "(msv " ++ showMVar m ++ ")"
  | .matSumE es => "(mse " ++ showExprList es ++ ")"
  | .frob m => "(fro " ++ showMVar m ++ ")"
partial def showVec : Vec → String
  | .vars v => showVVar v
  | .exprs es => "(ve " ++ showExprList es ++ ")"
partial def showExprList (es : ExprList) : String :=
  "(" ++ " ".intercalate (es.toList.map showExpr) ++ ")"
end

end Optyx
