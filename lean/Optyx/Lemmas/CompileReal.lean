/-
  Optyx.Lemmas.CompileReal — the real numbers satisfy the additive-monoid laws that identify
  Python's `sum` with the spec sum, so the C01 theorems hold over ℝ without side conditions.
-/
import Optyx.Lemmas.Real
import Optyx.Lemmas.CompileBasic

namespace Optyx.Py
open Optyx

instance : AddLaws ℝ where
  add_assoc a b c := by simp [add_assoc]
  zero_add a := by simp
  add_zero a := by simp

end Optyx.Py
