/-
  Optyx.Lemmas.SmoothOpen — regularity is an open condition along any smooth family of
  environments: `Regular (env x0) σ e → ∀ᶠ x in 𝓝 x0, Regular (env x) σ e`.
  (The one-variable instance is `Lemmas/RegularOpen.lean`; this is the same argument with
  continuity supplied by `Lemmas/Smooth.lean` instead of by the derivative theorem.)
-/
import Optyx.Lemmas.Smooth
import Optyx.Lemmas.RegularOpen

namespace Optyx
open NumAlg Filter Topology

variable {X : Type*} [NormedAddCommGroup X] [NormedSpace ℝ X]

theorem unReg_openX (op : UnOp) (f : X → ℝ) (a : X) (hf : ContinuousAt f a) (h : unReg op (f a)) :
    ∀ᶠ t in 𝓝 a, unReg op (f t) := by
  cases op <;> simp only [unReg] at h ⊢ <;> try exact Filter.Eventually.of_forall (fun _ => trivial)
  · exact hf.eventually_ne h
  · exact (Real.continuous_cos.continuousAt.comp hf).eventually_ne h
  · exact continuousAt_const.eventually_lt hf h
  · exact continuousAt_const.eventually_lt hf h
  · exact continuousAt_const.eventually_lt hf h
  · exact continuousAt_const.eventually_lt hf h
  · exact (continuousAt_const.eventually_lt hf h.1).and (hf.eventually_lt continuousAt_const h.2)
  · exact (continuousAt_const.eventually_lt hf h.1).and (hf.eventually_lt continuousAt_const h.2)
  · exact continuousAt_const.eventually_lt hf h
  · exact (continuousAt_const.eventually_lt hf h.1).and (hf.eventually_lt continuousAt_const h.2)

theorem powReg_openX (k : Rat) (f : X → ℝ) (a : X) (hf : ContinuousAt f a) (h : powReg k (f a)) :
    ∀ᶠ t in 𝓝 a, powReg k (f t) := by
  by_cases hd : k.den = 1
  · rcases h.1 hd with hne | hk
    · filter_upwards [hf.eventually_ne hne] with t ht
      exact ⟨fun _ => Or.inl ht, fun h' => absurd hd h'⟩
    · exact Filter.Eventually.of_forall (fun t => ⟨fun _ => Or.inr hk, fun h' => absurd hd h'⟩)
  · filter_upwards [continuousAt_const.eventually_lt hf (h.2 hd)] with t ht
    exact ⟨fun h' => absurd h' hd, fun _ => ht⟩

theorem powCond_openX (r : Expr) (f : X → ℝ) (a : X) (hf : ContinuousAt f a) (h : powCond r (f a)) :
    ∀ᶠ t in 𝓝 a, powCond r (f t) := by
  have general : (0 < f a) → ∀ᶠ t in 𝓝 a, 0 < f t := fun h => continuousAt_const.eventually_lt hf h
  cases r with
  | const c =>
    cases c with
    | rat k =>
      simp only [powCond] at h ⊢
      rcases h with h | h | h
      · exact Filter.Eventually.of_forall (fun _ => Or.inl h)
      · exact Filter.Eventually.of_forall (fun _ => Or.inr (Or.inl h))
      · filter_upwards [powReg_openX k f a hf h] with t ht
        exact Or.inr (Or.inr ht)
    | ln2 => exact general h
    | ln10 => exact general h
  | _ => exact general h

/-- finitely many continuous functions that satisfy a pointwise open condition at `x0` satisfy it nearby -/
theorem cdl_eventually {x0 : X} (P : ℝ → Prop)
    (hP : ∀ (f : X → ℝ), ContinuousAt f x0 → P (f x0) → ∀ᶠ x in 𝓝 x0, P (f x))
    {fs : List (X → ℝ)} (h : CDL x0 fs) (h0 : ∀ v ∈ atX fs x0, P v) :
    ∀ᶠ x in 𝓝 x0, ∀ v ∈ atX fs x, P v := by
  induction fs with
  | nil => exact Filter.Eventually.of_forall (fun x v hv => by simp at hv)
  | cons f fs ih =>
    have h1 := hP f h.head.continuousAt (h0 (f x0) (by simp))
    have h2 := ih h.tail (fun v hv => h0 v (by simp [hv]))
    filter_upwards [h1, h2] with x a b
    intro v hv
    simp only [atX_cons, List.mem_cons] at hv
    rcases hv with rfl | hv
    · exact a
    · exact b v hv

section family
variable (env : X → String → ℝ) (σ : Nat → ℝ) (x0 : X)
variable (hc : ∀ name, ContDiffAt ℝ 2 (fun x => env x name) x0)
include hc

private theorem regular_bin3 {ρ' : String → ℝ} {op : BinOp} {l r : Expr} (h : Regular ρ' σ (.bin op l r)) :
    Regular ρ' σ l ∧ Regular ρ' σ r := by
  cases op
  · exact h
  · exact h
  · exact h
  · exact ⟨h.1, h.2.1⟩
  · exact ⟨h.1, h.2.1⟩

/-- a pointwise open condition on the coordinates of a list of variables -/
theorem vars_openX (P : ℝ → Prop)
    (hP : ∀ (f : X → ℝ), ContinuousAt f x0 → P (f x0) → ∀ᶠ x in 𝓝 x0, P (f x))
    (vs : List Var) (h : ∀ y ∈ vs, P (env x0 y.name)) :
    ∀ᶠ x in 𝓝 x0, ∀ y ∈ vs, P (env x y.name) := by
  induction vs with
  | nil => exact Filter.Eventually.of_forall (fun x y hy => by simp at hy)
  | cons y l ih =>
    have h1 := hP (fun x => env x y.name) (hc y.name).continuousAt (h y (by simp))
    have h2 := ih (fun z hz => h z (by simp [hz]))
    filter_upwards [h1, h2] with x a b
    intro z hz
    simp only [List.mem_cons] at hz
    rcases hz with rfl | hz
    · exact a
    · exact b z hz

mutual
theorem regular_openX : (e : Expr) → Regular (env x0) σ e → ∀ᶠ x in 𝓝 x0, Regular (env x) σ e
  | .const _, _ => Filter.Eventually.of_forall (fun _ => trivial)
  | .param _, _ => Filter.Eventually.of_forall (fun _ => trivial)
  | .var _, _ => Filter.Eventually.of_forall (fun _ => trivial)
  | .bin op l r, hreg => by
    have hl := regular_openX l (regular_bin3 env σ x0 hc hreg).1
    have hr := regular_openX r (regular_bin3 env σ x0 hc hreg).2
    have cl := (smooth env σ x0 hc l (regular_bin3 env σ x0 hc hreg).1).continuousAt
    have cr := (smooth env σ x0 hc r (regular_bin3 env σ x0 hc hreg).2).continuousAt
    cases op with
    | add => filter_upwards [hl, hr] with t a b; exact ⟨a, b⟩
    | sub => filter_upwards [hl, hr] with t a b; exact ⟨a, b⟩
    | mul => filter_upwards [hl, hr] with t a b; exact ⟨a, b⟩
    | div =>
      filter_upwards [hl, hr, cr.eventually_ne hreg.2.2] with t a b c
      exact ⟨a, b, c⟩
    | pow =>
      have hp := ((Regular_pow_iff σ (env x0) l r).mp hreg).2.2
      filter_upwards [hl, hr, powCond_openX r _ _ cl hp] with t a b c
      exact (Regular_pow_iff σ _ l r).mpr ⟨a, b, c⟩
  | .un op a, hreg => by
    have ha := regular_openX a hreg.1
    have ca := (smooth env σ x0 hc a hreg.1).continuousAt
    filter_upwards [ha, unReg_openX op _ _ ca hreg.2] with t x y
    exact ⟨x, y⟩
  | .linComb _ v, hreg => by
    filter_upwards [regularVec_openX v hreg] with t h; exact h
  | .vecSum _, _ => Filter.Eventually.of_forall (fun _ => trivial)
  | .exprSum es, hreg => by
    filter_upwards [regularList_openX es hreg] with t h; exact h
  | .dot l r, hreg => by
    filter_upwards [regularVec_openX l hreg.1, regularVec_openX r hreg.2] with t a b
    exact ⟨a, b⟩
  | .l2 v, hreg => by
    have hv := smoothVec env σ x0 hc v hreg.1
    have hcd := (hv.dotp hv).continuousAt
    have hpos : 0 < NumAlg.dotp (atX (GVecX env σ v) x0) (atX (GVecX env σ v) x0) := by
      rw [← denoteVec_env]; exact hreg.2
    filter_upwards [regularVec_openX v hreg.1, continuousAt_const.eventually_lt hcd hpos] with t a b
    refine ⟨a, ?_⟩
    rw [denoteVec_env]; exact b
  | .l1 v, hreg => by
    have hv := smoothVec env σ x0 hc v hreg.1
    have hne : ∀ a ∈ atX (GVecX env σ v) x0, a ≠ 0 := by rw [← denoteVec_env]; exact hreg.2
    have := cdl_eventually (fun a => a ≠ 0) (fun f hf h => hf.eventually_ne h) hv hne
    filter_upwards [regularVec_openX v hreg.1, this] with t a b
    refine ⟨a, ?_⟩
    rw [denoteVec_env]; exact b
  | .quad v _, hreg => by
    filter_upwards [regularVec_openX v hreg] with t h; exact h
  | .powSum v k, hreg => by
    rcases hreg with h | h | h
    · exact Filter.Eventually.of_forall (fun _ => Or.inl h)
    · exact Filter.Eventually.of_forall (fun _ => Or.inr (Or.inl h))
    · filter_upwards [vars_openX env x0 hc (powReg k) (fun f hf h => powReg_openX k f x0 hf h) v.vars h] with t ht
      exact Or.inr (Or.inr ht)
  | .unSum v op, hreg => by
    filter_upwards [vars_openX env x0 hc (unReg op.toUn) (fun f hf h => unReg_openX op.toUn f x0 hf h) v.vars hreg]
      with t ht
    exact ht
  | .matSumV _, _ => Filter.Eventually.of_forall (fun _ => trivial)
  | .matSumE es, hreg => by
    filter_upwards [regularList_openX es hreg] with t h; exact h
  | .frob m, hreg => by
    have hv := varFnsX_smooth env x0 hc m.flat
    have hcd := (hv.dotp hv).continuousAt
    have hpos : 0 < NumAlg.dotp (atX (varFnsX env m.flat) x0) (atX (varFnsX env m.flat) x0) := by
      rw [← valsOf_env]; exact hreg
    filter_upwards [continuousAt_const.eventually_lt hcd hpos] with t b
    show 0 < NumAlg.dotp (valsOf (env t) m.flat) (valsOf (env t) m.flat)
    rw [valsOf_env]; exact b
theorem regularVec_openX : (v : Vec) → RegularVec (env x0) σ v → ∀ᶠ x in 𝓝 x0, RegularVec (env x) σ v
  | .vars _, _ => Filter.Eventually.of_forall (fun _ => trivial)
  | .exprs es, hreg => by
    filter_upwards [regularList_openX es hreg] with t h; exact h
theorem regularList_openX : (es : ExprList) → RegularList (env x0) σ es →
    ∀ᶠ x in 𝓝 x0, RegularList (env x) σ es
  | .nil, _ => Filter.Eventually.of_forall (fun _ => trivial)
  | .cons e t', hreg => by
    filter_upwards [regular_openX e hreg.1, regularList_openX t' hreg.2] with t a b
    exact ⟨a, b⟩
end

end family

end Optyx
