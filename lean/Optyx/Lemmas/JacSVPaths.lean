/-
  Optyx.Lemmas.JacSVPaths — on every finite input (±0 and the non-zero reals, singular points
  included) the vectorised first-derivative closure bodies produce the same special value as the
  expression the general path compiles (`jacobian_row` / gradient-rule form):
  exactly (before sanitising) for every operator except `abs`, where `np.sign(±0) = 0` meets
  `0/0 = NaN` and the two agree after sanitising.
-/
import Optyx.Lemmas.JacSV

namespace Optyx.Py.Jac
open Optyx Optyx.Py NumAlg Optyx.Generated
open Classical

theorem input_mk (a : ℝ) : Input (SV.mk a) := by
  rw [mk_real]; split
  · trivial
  · rename_i h; exact h

theorem ofRat_sv (q : Rat) : (NumAlg.ofRat q : R) = SV.mk ((q : ℝ)) := rfl

theorem ofRat_of_ne {q : Rat} (h : q ≠ 0) : (NumAlg.ofRat q : R) = SV.fin (q : ℝ) := by
  rw [ofRat_sv, mk_of_ne]; exact_mod_cast h

theorem bne_true (s : Bool) : (true != s) = !s := by cases s <;> rfl
theorem bne_false (s : Bool) : (false != s) = s := by cases s <;> rfl

/-- `-y = (-1) * y` on finite values, signed zeros included -/
theorem neg_eq_mul_neg_one {y : R} (hy : Input y) : NumAlg.neg y = NumAlg.mul (NumAlg.ofRat (-1)) y := by
  rw [ofRat_of_ne (by norm_num)]
  cases y with
  | nan => exact absurd hy (by simp [Input])
  | inf s => exact absurd hy (by simp [Input])
  | zero s =>
    show SV.neg (SV.zero s) = SV.mul (SV.fin _) (SV.zero s)
    simp [SV.neg, SV.mul, isNeg_real, bne_true]
  | fin b =>
    have hb : b ≠ 0 := hy
    show SV.neg (SV.fin b) = SV.mul (SV.fin _) (SV.fin b)
    simp only [SV.neg, SV.mul]
    show SV.fin (-b) = SV.mk (((-1:ℚ):ℝ) * b)
    rw [mk_of_ne (by simp [hb])]
    congr 1; simp

theorem input_unop_sin {x : R} (hx : Input x) : Input (NumAlg.unop .sin x) := by
  cases x with
  | nan => exact absurd hx (by simp [Input])
  | inf s => exact absurd hx (by simp [Input])
  | zero s => trivial
  | fin a => exact input_mk _

/-- `0.5 / y = 1 / (2 * y)` for every value `np.sqrt` can return on a finite input -/
theorem half_div_eq {y : R} (hy : y = SV.nan ∨ (∃ s, y = SV.zero s) ∨ (∃ b, 0 < b ∧ y = SV.fin b)) :
    NumAlg.div (NumAlg.ofRat (1/2)) y = NumAlg.div (NumAlg.ofRat 1) (NumAlg.mul (NumAlg.ofRat 2) y) := by
  rw [ofRat_of_ne (by norm_num : (1/2 : ℚ) ≠ 0), ofRat_of_ne (by norm_num : (1 : ℚ) ≠ 0),
    ofRat_of_ne (by norm_num : (2 : ℚ) ≠ 0)]
  rcases hy with rfl | ⟨s, rfl⟩ | ⟨b, hb, rfl⟩
  · rfl
  · show SV.div (SV.fin _) (SV.zero s) = SV.div (SV.fin _) (SV.mul (SV.fin _) (SV.zero s))
    simp [SV.div, SV.mul, isNeg_real, bne_false]
    norm_num
  · show SV.div (SV.fin _) (SV.fin b) = SV.div (SV.fin _) (SV.mul (SV.fin _) (SV.fin b))
    simp only [SV.div, SV.mul]
    show SV.mk (((1/2:ℚ):ℝ) / b) = SV.div (SV.fin _) (SV.mk (((2:ℚ):ℝ) * b))
    have h2b : ((2:ℚ):ℝ) * b ≠ 0 := by positivity
    rw [mk_of_ne h2b]
    show _ = SV.mk (((1:ℚ):ℝ) / (((2:ℚ):ℝ) * b))
    congr 1
    push_cast
    rw [div_div]

theorem sqrt_values (x : R) (hx : Input x) :
    NumAlg.unop .sqrt x = SV.nan ∨ (∃ s, NumAlg.unop .sqrt x = SV.zero s) ∨
      (∃ b, 0 < b ∧ NumAlg.unop .sqrt x = SV.fin b) := by
  cases x with
  | nan => exact absurd hx (by simp [Input])
  | inf s => exact absurd hx (by simp [Input])
  | zero s => exact Or.inr (Or.inl ⟨s, rfl⟩)
  | fin a =>
    have ha : a ≠ 0 := hx
    show SV.fn .sqrt (SV.fin a) = _ ∨ _
    simp only [SV.fn]
    rcases lt_or_gt_of_ne ha with h | h
    · left
      rw [isNeg_real]; simp [h]
    · right; right
      have hs : 0 < Real.sqrt a := Real.sqrt_pos.mpr h
      refine ⟨Real.sqrt a, hs, ?_⟩
      show SV.fn .sqrt (SV.fin a) = _
      simp only [SV.fn]
      rw [isNeg_real]
      simp only [not_lt.mpr h.le, decide_false, Bool.false_eq_true, ite_false]
      exact mk_of_ne (ne_of_gt hs)

/-- `np.sign(x)` against `x / |x|`, after sanitising -/
theorem sign_agree {x : R} (hx : Input x) :
    DerivAlg.nanToNum (DerivAlg.sign x) =
      DerivAlg.nanToNum (NumAlg.div x (NumAlg.unop .abs x)) := by
  cases x with
  | nan => exact absurd hx (by simp [Input])
  | inf s => exact absurd hx (by simp [Input])
  | zero s => rfl
  | fin a =>
    have ha : a ≠ 0 := hx
    show DerivAlg.nanToNum (SV.sign (SV.fin a)) = DerivAlg.nanToNum (SV.div (SV.fin a) (SV.fn .abs (SV.fin a)))
    simp only [SV.sign, SV.fn, SV.div]
    show _ = DerivAlg.nanToNum (SV.mk (a / |a|))
    have hne : a / |a| ≠ 0 := div_ne_zero ha (abs_ne_zero.mpr ha)
    rw [mk_of_ne hne]
    congr 2
    rw [isNeg_real]
    rcases lt_or_gt_of_ne ha with h | h
    · simp [h, abs_of_neg h, ha]
    · simp [not_lt.mpr h.le, abs_of_pos h, ha]

variable (σ : Nat → R)

/-- the unary table: vectorised body against the expression of `VectorUnarySum.jacobian_row`
    (= the gradient-rule form, `denote_unSumDeriv_eq_jac`) -/
theorem unary_paths_agree (ρ : String → R) (op : VOp) (w : Var) (hx : Input (ρ w.name)) :
    DerivAlg.nanToNum (vecUnBody op (ρ w.name)) =
        DerivAlg.nanToNum (denote ρ σ (unSumJacRow op (.var w))) ∧
    (op ≠ .abs → vecUnBody op (ρ w.name) = denote ρ σ (unSumJacRow op (.var w))) := by
  cases op
  case abs =>
    refine ⟨?_, fun h => absurd rfl h⟩
    exact sign_agree hx
  case cos =>
    have : vecUnBody .cos (ρ w.name) = denote ρ σ (unSumJacRow .cos (.var w)) := by
      simp only [vecUnBody, unSumJacRow, denote, binop, Expr.c, cst]
      exact neg_eq_mul_neg_one (input_unop_sin hx)
    exact ⟨by rw [this], fun _ => this⟩
  case sqrt =>
    have : vecUnBody .sqrt (ρ w.name) = denote ρ σ (unSumJacRow .sqrt (.var w)) := by
      simp only [vecUnBody, unSumJacRow, denote, binop, Expr.c, cst]
      exact half_div_eq (sqrt_values _ hx)
    exact ⟨by rw [this], fun _ => this⟩
  all_goals
    exact ⟨rfl, fun _ => rfl⟩

/-- the gradient-rule table (`gradient_vector_unary_sum`, used by `symbolic_gradient`) and the
    `jacobian_row` table build the same expression up to the identity of the variable object:
    same value in every number algebra -/
theorem denote_unSumDeriv_eq_jac {α : Type} [NumAlg α] (ρ : String → α) (σ : Nat → α) (op : VOp)
    (a b : Var) (h : a.name = b.name) :
    denote ρ σ (unSumDeriv op (.var a)) = denote ρ σ (unSumJacRow op (.var b)) := by
  cases op <;> simp [unSumDeriv, unSumJacRow, denote, h]

/-! ### powers -/

theorem pow_one_input {x : R} (hx : Input x) : NumAlg.pow x (NumAlg.ofRat 1) = x := by
  rw [ofRat_of_ne (by norm_num : (1:ℚ) ≠ 0), Rat.cast_one]
  have hodd : Carrier.isOddInt (1:ℝ) = true := by
    simp only [Carrier.isOddInt, decide_eq_true_eq]
    exact ⟨1, by decide, by norm_num⟩
  have hint : Carrier.isInt (1:ℝ) = true := by
    simp only [Carrier.isInt, decide_eq_true_eq]
    exact ⟨1, by norm_num⟩
  have hneg : (SV.fin (1:ℝ) : R).isNegative = false := by
    simp [SV.isNegative, isNeg_real]
  cases x with
  | nan => exact absurd hx (by simp [Input])
  | inf s => exact absurd hx (by simp [Input])
  | zero s =>
    show SV.pow (SV.zero s) (SV.fin 1) = _
    unfold SV.pow
    simp only [SV.isOddIntSV, hodd, hneg, ite_true, Bool.false_eq_true, ite_false]
  | fin a =>
    have ha : a ≠ 0 := hx
    show SV.pow (SV.fin a) (SV.fin 1) = _
    unfold SV.pow
    simp only [hint, Bool.not_true, Bool.and_false, Bool.false_eq_true, ite_false]
    split
    · rename_i h1
      have : a = 1 := by
        unfold SV.isOne at h1
        simp only [beq_iff_eq] at h1
        by_contra hne
        have hsub : a - ((1:ℚ):ℝ) ≠ 0 := by
          simp only [Rat.cast_one]; exact sub_ne_zero.mpr hne
        rcases lt_or_gt_of_ne hsub with h | h
        · rw [show NumAlg.sub a (NumAlg.ofRat 1) = a - ((1:ℚ):ℝ) from rfl, cls_neg h] at h1; cases h1
        · rw [show NumAlg.sub a (NumAlg.ofRat 1) = a - ((1:ℚ):ℝ) from rfl, cls_pos h] at h1; cases h1
      subst this
      show SV.mk (((1:ℚ):ℝ)) = SV.fin 1
      rw [mk_of_ne (by norm_num)]; norm_num
    · show SV.mk (a ^ (1:ℝ)) = SV.fin a
      rw [Real.rpow_one, mk_of_ne ha]

/-- `k * x**(k-1)` (the closure body, also used for k = 1, 2 on the sparse path) against the entry
    `VectorPowerSum.jacobian_row` / the gradient rule builds (`1`, `2*x`, `k * x**(k-1)`) -/
theorem power_paths_agree (ρ : String → R) (k : Rat) (w : Var) (hx : Input (ρ w.name)) :
    powBody k (ρ w.name) = denote ρ σ (powRowEntry k w) := by
  unfold powRowEntry powBody
  by_cases h1 : k = 1
  · subst h1
    simp only [beq_self_eq_true, ite_true, Expr.c, denote, cst]
    have h0 : (NumAlg.ofRat (1 - 1) : R) = SV.zero false := by
      rw [ofRat_sv]; norm_num
    rw [h0]
    show SV.mul (NumAlg.ofRat 1) (SV.pow (ρ w.name) (SV.zero false)) = NumAlg.ofRat 1
    have hp : SV.pow (ρ w.name) (SV.zero false) = (SV.one : R) := by
      unfold SV.pow; cases ρ w.name <;> rfl
    rw [hp, ofRat_of_ne (by norm_num : (1:ℚ) ≠ 0)]
    show SV.mul (SV.fin _) (SV.mk _) = _
    rw [show (NumAlg.ofRat 1 : ℝ) = ((1:ℚ):ℝ) from rfl, mk_of_ne (by norm_num)]
    show SV.mk (((1:ℚ):ℝ) * ((1:ℚ):ℝ)) = _
    rw [mk_of_ne (by norm_num)]; norm_num
  · by_cases h2 : k = 2
    · subst h2
      have e1 : ((2:Rat) == 1) = false := by decide
      simp only [e1, Bool.false_eq_true, ite_false, beq_self_eq_true, ite_true, Expr.c, denote, cst, binop]
      have : ((2:ℚ) - 1) = 1 := by norm_num
      rw [this, pow_one_input hx]
    · have e1 : (k == 1) = false := by simpa using h1
      have e2 : (k == 2) = false := by simpa using h2
      simp only [e1, e2, Bool.false_eq_true, ite_false, Expr.c, denote, cst, binop]

end Optyx.Py.Jac
