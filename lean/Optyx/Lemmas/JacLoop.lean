/-
  Optyx.Lemmas.JacLoop — the assignment loops of `hessian_fn` (`Py.hessLoop`: upper triangle computed,
  `result[i, j] = result[j, i] = val`) produce exactly the table `Py.mirrorUpper`, entry by entry.
-/
import Optyx.Lemmas.JacLookup

namespace Optyx.Py.Jac
open Optyx Optyx.Py

/-- all cells of the leading n×n block exist -/
def Full {α : Type} (n : Nat) (M : List (List α)) : Prop :=
  ∀ a b, a < n → b < n → (entry? M a b).isSome = true

theorem entry?_set2 {α : Type} (M : List (List α)) (i j : Nat) (v : α) (a b : Nat) :
    entry? (set2 M i j v) a b =
      if a = i ∧ b = j ∧ (entry? M i j).isSome then some v else entry? M a b := by
  unfold entry? set2
  rw [List.getElem?_set]
  by_cases ha : i = a
  · subst ha
    by_cases hi : i < M.length
    · simp only [hi, ite_true, Option.bind_some, true_and]
      rw [List.getElem?_set]
      have hM : M[i]? = some M[i] := List.getElem?_eq_getElem hi
      have hD : M.getD i [] = M[i] := by simp [List.getD, hM]
      rw [hD, hM]
      by_cases hb : j = b
      · subst hb
        by_cases hl : j < (M[i]).length
        · simp [hl]
        · simp [hl]
      · have hb' : ¬ b = j := fun e => hb e.symm
        simp [hb, hb']
    · have hM : M[i]? = none := by simp; omega
      simp [hi, hM]
  · have ha' : ¬ a = i := fun e => ha e.symm
    simp [ha, ha']

theorem full_set2 {α : Type} {n : Nat} {M : List (List α)} (h : Full n M) (i j : Nat) (v : α) :
    Full n (set2 M i j v) := by
  intro a b ha hb
  rw [entry?_set2]
  split
  · rfl
  · exact h a b ha hb

theorem entry?_hessStep {α : Type} {n : Nat} (f : Nat → Nat → α) {res : List (List α)} (hres : Full n res)
    {i j : Nat} (hi : i < n) (hj : j < n) (a b : Nat) :
    entry? (hessStep f i res j) a b =
      if (a = i ∧ b = j) ∨ (a = j ∧ b = i) then some (f i j) else entry? res a b := by
  unfold hessStep
  by_cases hij : i = j
  · subst hij
    simp only [bne_self_eq_false, Bool.false_eq_true, ite_false]
    rw [entry?_set2]
    simp [hres i i hi hi]
  · have hne : (i != j) = true := by simpa using hij
    simp only [hne, ite_true]
    have h1 : (entry? res i j).isSome = true := hres i j hi hj
    have h2 : (entry? (set2 res i j (f i j)) j i).isSome = true := full_set2 hres i j _ j i hj hi
    have e1 := entry?_set2 (set2 res i j (f i j)) j i (f i j) a b
    have e2 := entry?_set2 res i j (f i j) a b
    rw [e1, e2]
    simp only [h1, h2, and_true]
    split_ifs <;> first | rfl | (exfalso; tauto)

theorem full_hessStep {α : Type} {n : Nat} (f : Nat → Nat → α) {res : List (List α)} (hres : Full n res)
    (i j : Nat) : Full n (hessStep f i res j) := by
  unfold hessStep
  dsimp only
  split
  · exact full_set2 (full_set2 hres _ _ _) _ _ _
  · exact full_set2 hres _ _ _

theorem full_inner {α : Type} {n : Nat} (f : Nat → Nat → α) (i : Nat) (js : List Nat)
    {res : List (List α)} (hres : Full n res) : Full n (js.foldl (hessStep f i) res) := by
  induction js generalizing res with
  | nil => exact hres
  | cons j js ih => exact ih (full_hessStep f hres i j)

/-- the inner loop over any list of column indices -/
theorem entry?_inner {α : Type} {n : Nat} (f : Nat → Nat → α) {i : Nat} (hi : i < n) (js : List Nat)
    (hjs : ∀ j ∈ js, j < n) {res : List (List α)} (hres : Full n res) (a b : Nat) :
    entry? (js.foldl (hessStep f i) res) a b =
      if a = i ∧ b ∈ js then some (f i b)
      else if b = i ∧ a ∈ js then some (f i a)
      else entry? res a b := by
  induction js generalizing res with
  | nil => simp
  | cons j js ih =>
    have hj : j < n := hjs j (by simp)
    have hjs' : ∀ j ∈ js, j < n := fun k hk => hjs k (by simp [hk])
    simp only [List.foldl_cons]
    rw [ih hjs' (full_hessStep f hres i j), entry?_hessStep f hres hi hj]
    simp only [List.mem_cons]
    split_ifs <;> first | rfl | (exfalso; tauto) | (simp_all; done) | (exfalso; simp_all; tauto)

/-- one iteration of the outer loop (`for j in range(i, n)`) -/
theorem entry?_outer {α : Type} {n : Nat} (f : Nat → Nat → α) {i : Nat} (hi : i < n)
    {res : List (List α)} (hres : Full n res) (a b : Nat) :
    entry? ((List.range' i (n - i)).foldl (hessStep f i) res) a b =
      if a = i ∧ i ≤ b ∧ b < n then some (f i b)
      else if b = i ∧ i ≤ a ∧ a < n then some (f i a)
      else entry? res a b := by
  have hmem : ∀ m, m ∈ List.range' i (n - i) ↔ i ≤ m ∧ m < n := by
    intro m; rw [List.mem_range'_1]; omega
  rw [entry?_inner f hi _ (fun j hj => ((hmem j).mp hj).2) hres]
  simp only [hmem]

theorem entry?_outerLoop {α : Type} {n : Nat} (f : Nat → Nat → α) (is : List Nat) (his : ∀ i ∈ is, i < n)
    {res : List (List α)} (hres : Full n res) (a b : Nat) :
    entry? (is.foldl (fun res i => (List.range' i (n - i)).foldl (hessStep f i) res) res) a b =
      if a < n ∧ b < n ∧ min a b ∈ is then some (if a ≤ b then f a b else f b a)
      else entry? res a b := by
  induction is generalizing res with
  | nil => simp
  | cons i is ih =>
    have hi : i < n := his i (by simp)
    have his' : ∀ i ∈ is, i < n := fun k hk => his k (by simp [hk])
    simp only [List.foldl_cons]
    rw [ih his' (full_inner f i _ hres), entry?_outer f hi hres]
    by_cases c1 : a < n ∧ b < n ∧ min a b ∈ is
    · have : a < n ∧ b < n ∧ min a b ∈ i :: is := ⟨c1.1, c1.2.1, by simp [c1.2.2]⟩
      simp [c1, this]
    · simp only [c1, ite_false]
      by_cases c2 : a < n ∧ b < n ∧ min a b = i
      · obtain ⟨han, hbn, hmin⟩ := c2
        have : a < n ∧ b < n ∧ min a b ∈ i :: is := ⟨han, hbn, by simp [hmin]⟩
        simp only [this, and_self, ite_true]
        by_cases hab : a ≤ b
        · have hai : a = i := by rw [Nat.min_eq_left hab] at hmin; exact hmin
          subst hai
          simp [hab, hbn]
        · have hba : b ≤ a := by omega
          have hbi : b = i := by rw [Nat.min_eq_right hba] at hmin; exact hmin
          subst hbi
          have hne : ¬ a = b := by omega
          simp [hab, hne, hba, han]
      · have n0 : ¬ (a < n ∧ b < n ∧ min a b ∈ i :: is) := by
          rintro ⟨h1, h2, h3⟩
          simp only [List.mem_cons] at h3
          rcases h3 with h3 | h3
          · exact c2 ⟨h1, h2, h3⟩
          · exact c1 ⟨h1, h2, h3⟩
        have n1 : ¬ (a = i ∧ i ≤ b ∧ b < n) := by
          rintro ⟨rfl, h2, h3⟩
          exact c2 ⟨hi, h3, Nat.min_eq_left h2⟩
        have n2 : ¬ (b = i ∧ i ≤ a ∧ a < n) := by
          rintro ⟨rfl, h2, h3⟩
          exact c2 ⟨h3, hi, Nat.min_eq_right h2⟩
        rw [if_neg n0, if_neg n1, if_neg n2]

theorem full_zeros2 {α : Type} [NumAlg α] (n : Nat) : Full n (zeros2 n : List (List α)) := by
  intro a b ha hb
  rw [entry?_zeros2]; simp [ha, hb]

/-- **the loops of `hessian_fn` fill exactly the mirrored table** -/
theorem entry?_hessLoop {α : Type} [NumAlg α] (n : Nat) (f : Nat → Nat → α) (a b : Nat) :
    entry? (hessLoop n f) a b = entry? (mirrorUpper n f) a b := by
  unfold hessLoop
  rw [entry?_outerLoop f (List.range n) (fun i hi => List.mem_range.mp hi) (full_zeros2 n),
    entry?_mirrorUpper, entry?_zeros2]
  by_cases h : a < n ∧ b < n
  · have hm : min a b ∈ List.range n := by
      rw [List.mem_range]; exact lt_of_le_of_lt (Nat.min_le_left _ _) h.1
    have : a < n ∧ b < n ∧ min a b ∈ List.range n := ⟨h.1, h.2, hm⟩
    simp [h, this]
  · have : ¬ (a < n ∧ b < n ∧ min a b ∈ List.range n) := fun hh => h ⟨hh.1, hh.2.1⟩
    rw [if_neg this, if_neg h, if_neg h]

theorem isSymm_hessLoop {α : Type} [NumAlg α] (n : Nat) (f : Nat → Nat → α) : IsSymm (hessLoop n f) := by
  intro i j
  rw [entry?_hessLoop, entry?_hessLoop]
  exact isSymm_mirrorUpper n f i j

end Optyx.Py.Jac
