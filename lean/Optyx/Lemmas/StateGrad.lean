/-
  Optyx.Lemmas.StateGrad — over ℝ, the meaning of `Py.grad` is stable under
    * replacing Parameter leaves by leaves of the same meaning (`mapPar τ`: constants for C12,
      the identity for C14), and
    * replacing `wrt` by another Variable object of the same *name* (C14).
  `grad_mapPar` is the single induction both properties use.  The only side condition is at a
  power whose exponent is a Parameter that becomes a constant: there the base must be non-zero
  (the general power rule divides by the base).
-/
import Optyx.Lemmas.Simplify
import Optyx.Lemmas.StateSubst

namespace Optyx.Py.State
open Optyx Optyx.Py Optyx.Generated NumAlg

/-! ### scalar rules -/

section rules
variable (ρ : String → ℝ) (σ₁ σ₂ : Nat → ℝ)

theorem unaryRule_congr (op : UnOp) {a a' da da' s s' : Expr}
    (ha : denote ρ σ₁ a = denote ρ σ₂ a') (hda : denote ρ σ₁ da = denote ρ σ₂ da')
    (hs : denote ρ σ₁ s = denote ρ σ₂ s') :
    denote ρ σ₁ (unaryRule op a da s) = denote ρ σ₂ (unaryRule op a' da' s') := by
  cases op <;> simp [unaryRule, denote, ha, hda, hs]

/-- the test `isinstance(right, Constant)` (numeric value) of the power rule -/
def isRatConst : Expr → Option Rat
  | .const (.rat n) => some n
  | _ => none

def powGeneral (l r dl dr s : Expr) : Expr :=
  sMul s (sAdd (sMul dr (Expr.un .log l)) (sDiv (sMul r dl) l))

def powConst (n : Rat) (l dl : Expr) : Expr :=
  if n == (0 : Rat) then Expr.c 0 else if n == (1 : Rat) then dl
  else sMul (sMul (Expr.c n) (sPow l (Expr.c (n - 1)))) dl

theorem binaryRule_pow_eq (l r dl dr s : Expr) :
    binaryRule .pow l r dl dr s =
      match isRatConst r with
      | some n => powConst n l dl
      | none => powGeneral l r dl dr s := by
  cases r with
  | const c => cases c <;> rfl
  | _ => rfl

theorem binaryRule_congr_nonpow (op : BinOp) (hop : op ≠ .pow) {l l' r r' dl dl' dr dr' s s' : Expr}
    (hl : denote ρ σ₁ l = denote ρ σ₂ l') (hr : denote ρ σ₁ r = denote ρ σ₂ r')
    (hdl : denote ρ σ₁ dl = denote ρ σ₂ dl') (hdr : denote ρ σ₁ dr = denote ρ σ₂ dr') :
    denote ρ σ₁ (binaryRule op l r dl dr s) = denote ρ σ₂ (binaryRule op l' r' dl' dr' s') := by
  cases op <;> first | exact absurd rfl hop | simp [binaryRule, hl, hr, hdl, hdr]

theorem powGeneral_congr {l l' r r' dl dl' dr dr' s s' : Expr}
    (hl : denote ρ σ₁ l = denote ρ σ₂ l') (hr : denote ρ σ₁ r = denote ρ σ₂ r')
    (hdl : denote ρ σ₁ dl = denote ρ σ₂ dl') (hdr : denote ρ σ₁ dr = denote ρ σ₂ dr')
    (hs : denote ρ σ₁ s = denote ρ σ₂ s') :
    denote ρ σ₁ (powGeneral l r dl dr s) = denote ρ σ₂ (powGeneral l' r' dl' dr' s') := by
  simp [powGeneral, denote, hl, hr, hdl, hdr, hs]

theorem powConst_congr (n : Rat) {l l' dl dl' : Expr}
    (hl : denote ρ σ₁ l = denote ρ σ₂ l') (hdl : denote ρ σ₁ dl = denote ρ σ₂ dl') :
    denote ρ σ₁ (powConst n l dl) = denote ρ σ₂ (powConst n l' dl') := by
  unfold powConst
  split
  · simp
  · split
    · exact hdl
    · simp [denote_sPow_lit, hl, hdl]

/-- the one place where the parametric and the constant model take *different* rules:
    `x ** p` is differentiated by the general rule `x**p * (p' log x + p x'/x)`, `x ** Constant(q)`
    by `q x**(q-1) x'`; they agree where the base is non-zero -/
theorem pow_param_to_const (q : Rat) (p : Par) {l l' dl dl' : Expr} (hp : σ₁ p.oid = (q : ℝ))
    (hl : denote ρ σ₁ l = denote ρ σ₂ l') (hdl : denote ρ σ₁ dl = denote ρ σ₂ dl')
    (hx : denote ρ σ₁ l ≠ 0) :
    denote ρ σ₁ (powGeneral l (.param p) dl (Expr.c 0) (.bin .pow l (.param p))) =
      denote ρ σ₂ (powConst q l' dl') := by
  have hx' : denote ρ σ₂ l' ≠ 0 := hl ▸ hx
  unfold powConst
  split
  · rename_i h0
    have : q = 0 := by simpa using h0
    subst this
    simp [powGeneral, denote, hp]
  · split
    · rename_i h0 h1
      have : q = 1 := by simpa using h1
      subst this
      simp [powGeneral, denote, hp, hl, hdl]
      field_simp
    · simp [powGeneral, denote, hp, hl, hdl, denote_sPow_lit]
      rw [Real.rpow_sub_one hx']
      field_simp

end rules

/-! ### folds and the vector rules -/

section folds
variable (ρ : String → ℝ) (σ : Nat → ℝ)

theorem denote_foldl_sAdd {β : Type} (f : β → Expr) (l : List β) (init : Expr) :
    denote ρ σ (l.foldl (fun acc b => sAdd acc (f b)) init) =
      denote ρ σ init + (l.map fun b => denote ρ σ (f b)).sum := by
  induction l generalizing init with
  | nil => simp
  | cons a t ih => simp [List.foldl, ih, add_assoc]

theorem denote_foldl_sAdd_if {β : Type} (c : β → Bool) (f : β → Expr) (l : List β) (init : Expr) :
    denote ρ σ (l.foldl (fun acc b => if c b then sAdd acc (f b) else acc) init) =
      denote ρ σ init + (l.map fun b => if c b then denote ρ σ (f b) else 0).sum := by
  induction l generalizing init with
  | nil => simp
  | cons a t ih =>
    simp only [List.foldl, List.map_cons, List.sum_cons]
    rw [ih]
    split <;> simp [add_assoc]

theorem denote_linCombRule_exprs (w : Var) (cs : List Rat) (es : ExprList) (dv : List Expr) :
    denote ρ σ (linCombRule w cs (.exprs es) dv) =
      ((cs.zip (dv.map (denote ρ σ))).map fun p => (p.1 : ℝ) * p.2).sum := by
  simp only [linCombRule]
  rw [denote_foldl_sAdd ρ σ (fun cd : Rat × Expr => sMul (Expr.c cd.1) cd.2)]
  simp [List.zip_map_right, Function.comp_def]

theorem denote_exprSumRule (dv : List Expr) :
    denote ρ σ (exprSumRule dv) = (dv.map (denote ρ σ)).sum := by
  simp only [exprSumRule]
  rw [denote_foldl_sAdd ρ σ (fun d : Expr => d)]
  simp

theorem denote_dotFold (le re dl dr : List Expr) :
    denote ρ σ (((le.zip re).zip (dl.zip dr)).foldl
      (fun acc (p : (Expr × Expr) × (Expr × Expr)) =>
        sAdd acc (sAdd (sMul p.1.1 p.2.2) (sMul p.1.2 p.2.1))) (Expr.c 0)) =
    ((((le.map (denote ρ σ)).zip (re.map (denote ρ σ))).zip
        ((dl.map (denote ρ σ)).zip (dr.map (denote ρ σ)))).map
      fun p => p.1.1 * p.2.2 + p.1.2 * p.2.1).sum := by
  rw [denote_foldl_sAdd ρ σ (fun p : (Expr × Expr) × (Expr × Expr) => sAdd (sMul p.1.1 p.2.2) (sMul p.1.2 p.2.1))]
  simp [List.zip_map, Function.comp_def]

theorem denote_l2Fold (es dv : List Expr) (self : Expr) :
    denote ρ σ ((es.zip dv).foldl
      (fun acc (p : Expr × Expr) => sAdd acc (sMul (sDiv p.1 self) p.2)) (Expr.c 0)) =
    (((es.map (denote ρ σ)).zip (dv.map (denote ρ σ))).map
      fun p => p.1 / denote ρ σ self * p.2).sum := by
  rw [denote_foldl_sAdd ρ σ (fun p : Expr × Expr => sMul (sDiv p.1 self) p.2)]
  simp [List.zip_map, Function.comp_def]

theorem denote_l1Fold (es dv : List Expr) :
    denote ρ σ ((es.zip dv).foldl
      (fun acc (p : Expr × Expr) => sAdd acc (sMul (sDiv p.1 (.un .abs p.1)) p.2)) (Expr.c 0)) =
    (((es.map (denote ρ σ)).zip (dv.map (denote ρ σ))).map
      fun p => p.1 / |p.1| * p.2).sum := by
  rw [denote_foldl_sAdd ρ σ (fun p : Expr × Expr => sMul (sDiv p.1 (.un .abs p.1)) p.2)]
  simp [List.zip_map, Function.comp_def, denote]

theorem denote_quadInner (row : List Rat) (elems : List Expr) :
    denote ρ σ (quadInner row elems) =
      ((row.zip (elems.map (denote ρ σ))).map fun p => if p.1 != 0 then (p.1 : ℝ) * p.2 else 0).sum := by
  simp only [quadInner]
  rw [denote_foldl_sAdd_if ρ σ (fun p : Rat × Expr => p.1 != 0) (fun p : Rat × Expr => sMul (Expr.c p.1) p.2)]
  simp [List.zip_map_right, Function.comp_def]

theorem denote_quadFold (qs : List (List Rat)) (elems dv : List Expr) :
    denote ρ σ ((qs.zip dv).foldl
      (fun acc (p : List Rat × Expr) => sAdd acc (sMul (quadInner p.1 elems) p.2)) (Expr.c 0)) =
    ((qs.zip (dv.map (denote ρ σ))).map fun p =>
      ((p.1.zip (elems.map (denote ρ σ))).map fun r => if r.1 != 0 then (r.1 : ℝ) * r.2 else 0).sum * p.2).sum := by
  rw [denote_foldl_sAdd ρ σ (fun p : List Rat × Expr => sMul (quadInner p.1 elems) p.2)]
  simp [List.zip_map_right, Function.comp_def, denote_quadInner]

/-- elements of a vector of variables mean the same under every store -/
theorem denote_getD_vars (σ' : Nat → ℝ) (vs : List Var) (i : Nat) :
    denote ρ σ ((vs.map Expr.var).getD i (Expr.c 0)) = denote ρ σ' ((vs.map Expr.var).getD i (Expr.c 0)) := by
  induction vs generalizing i with
  | nil => simp
  | cons v t ih =>
    cases i with
    | zero => simp [denote]
    | succ k => simpa using ih k

theorem toList_map_denote : (es : ExprList) → es.toList.map (denote ρ σ) = denoteList ρ σ es
  | .nil => by simp [ExprList.toList, denoteList]
  | .cons e t => by simp [ExprList.toList, denoteList, toList_map_denote t]

theorem elems_map_denote (v : Vec) : (Vec.elems v).map (denote ρ σ) = denoteVec ρ σ v := by
  cases v with
  | vars vv => simp [Vec.elems, denoteVec, valsOf, Function.comp_def, denote]
  | exprs es => simp [Vec.elems, denoteVec, toList_map_denote]

end folds


/-! ### the induction -/

section main
variable (ρ : String → ℝ) (σ₁ σ₂ : Nat → ℝ) (τ : Par → Expr)

/-- `τ` sends every Parameter to a Parameter or to a numeric Constant with the same meaning -/
structure LeafMap : Prop where
  val : ∀ p, denote ρ σ₂ (τ p) = σ₁ p.oid
  leaf : ∀ p, (∃ p', τ p = .param p') ∨ (∃ q, τ p = .const (.rat q))

/-- side condition at `l ** Parameter` when the Parameter becomes a Constant: base ≠ 0 -/
def powOk (op : BinOp) (l r : Expr) : Prop :=
  match op, r with
  | .pow, .param p => (∃ q, τ p = .const (.rat q)) → denote ρ σ₁ l ≠ 0
  | _, _ => True

mutual
def ExpReg : Expr → Prop
  | .bin op l r => powOk ρ σ₁ τ op l r ∧ ExpReg l ∧ ExpReg r
  | .un _ a => ExpReg a
  | .linComb _ v | .l2 v | .l1 v | .quad v _ => ExpRegVec v
  | .exprSum es | .matSumE es => ExpRegList es
  | .dot l r => ExpRegVec l ∧ ExpRegVec r
  | .const _ | .var _ | .param _ | .vecSum _ | .powSum _ _ | .unSum _ _ | .matSumV _ | .frob _ => True
def ExpRegVec : Vec → Prop
  | .vars _ => True
  | .exprs es => ExpRegList es
def ExpRegList : ExprList → Prop
  | .nil => True
  | .cons e t => ExpReg e ∧ ExpRegList t
end

theorem isRatConst_mapPar (r : Expr) (h : ∀ p, r ≠ .param p) : isRatConst (mapPar τ r) = isRatConst r := by
  cases r <;> first | rfl | exact absurd rfl (h _)

variable {ρ σ₁ σ₂ τ}

theorem LeafMap.expr (H : LeafMap ρ σ₁ σ₂ τ) (e : Expr) : denote ρ σ₁ e = denote ρ σ₂ (mapPar τ e) :=
  (denote_mapPar ρ σ₁ σ₂ τ H.val e).symm

theorem LeafMap.vec (H : LeafMap ρ σ₁ σ₂ τ) (v : Vec) : denoteVec ρ σ₁ v = denoteVec ρ σ₂ (mapParVec τ v) :=
  (denoteVec_mapPar ρ σ₁ σ₂ τ H.val v).symm

theorem LeafMap.elems (H : LeafMap ρ σ₁ σ₂ τ) (v : Vec) :
    (Vec.elems v).map (denote ρ σ₁) = (Vec.elems (mapParVec τ v)).map (denote ρ σ₂) := by
  rw [elems_map_denote, elems_map_denote, H.vec]

theorem LeafMap.list (H : LeafMap ρ σ₁ σ₂ τ) (es : ExprList) :
    es.toList.map (denote ρ σ₁) = (mapParList τ es).toList.map (denote ρ σ₂) := by
  rw [toList_map_denote, toList_map_denote, denoteList_mapPar ρ σ₁ σ₂ τ H.val es]

/-- the power rule across `mapPar` -/
theorem pow_case (H : LeafMap ρ σ₁ σ₂ τ) {l r dl dl' dr dr' : Expr}
    (hpow : powOk ρ σ₁ τ .pow l r)
    (hdl : denote ρ σ₁ dl = denote ρ σ₂ dl') (hdr : denote ρ σ₁ dr = denote ρ σ₂ dr')
    (hdr0 : ∀ p, r = .param p → dr = Expr.c 0) :
    denote ρ σ₁ (binaryRule .pow l r dl dr (.bin .pow l r)) =
      denote ρ σ₂ (binaryRule .pow (mapPar τ l) (mapPar τ r) dl' dr' (.bin .pow (mapPar τ l) (mapPar τ r))) := by
  have hl := H.expr l
  have hr := H.expr r
  have hs : denote ρ σ₁ (.bin .pow l r) = denote ρ σ₂ (.bin .pow (mapPar τ l) (mapPar τ r)) := by
    have := H.expr (.bin .pow l r); simpa [mapPar] using this
  rw [binaryRule_pow_eq, binaryRule_pow_eq]
  by_cases hp : ∃ p, r = .param p
  · obtain ⟨p, rfl⟩ := hp
    have hd0 := hdr0 p rfl
    subst hd0
    rcases H.leaf p with ⟨p', hp'⟩ | ⟨q, hq⟩
    · simp only [mapPar, hp', isRatConst]
      exact powGeneral_congr ρ σ₁ σ₂ hl (by simpa [mapPar, hp'] using hr) hdl hdr
        (by simpa [mapPar, hp'] using hs)
    · simp only [mapPar, hq, isRatConst]
      have hval : σ₁ p.oid = (q : ℝ) := by
        have := H.val p; rw [hq] at this; simpa [denote] using this.symm
      have hx : denote ρ σ₁ l ≠ 0 := hpow ⟨q, hq⟩
      exact pow_param_to_const ρ σ₁ σ₂ q p hval hl hdl hx
  · have hnp : ∀ p, r ≠ .param p := fun p h => hp ⟨p, h⟩
    rw [isRatConst_mapPar τ r hnp]
    cases isRatConst r with
    | some n => exact powConst_congr ρ σ₁ σ₂ n hl hdl
    | none => exact powGeneral_congr ρ σ₁ σ₂ hl hr hdl hdr hs

variable {w w' : Var}

mutual
theorem grad_mapPar (H : LeafMap ρ σ₁ σ₂ τ) (hw : w'.name = w.name) :
    (e : Expr) → ExpReg ρ σ₁ τ e → denote ρ σ₁ (grad w e) = denote ρ σ₂ (grad w' (mapPar τ e))
  | .const _, _ => by simp [grad, mapPar]
  | .var v, _ => by
    simp only [grad, mapPar, hw]
    split <;> simp
  | .param p, _ => by
    rcases H.leaf p with ⟨p', hp'⟩ | ⟨q, hq⟩
    · simp [grad, mapPar, hp']
    · simp [grad, mapPar, hq]
  | .bin op l r, hreg => by
    simp only [ExpReg] at hreg
    obtain ⟨hpow, hl, hr⟩ := hreg
    have ihl := grad_mapPar H hw l hl
    have ihr := grad_mapPar H hw r hr
    simp only [grad, mapPar]
    by_cases hop : op = .pow
    · subst hop
      exact pow_case H hpow ihl ihr (by intro p hp; subst hp; simp [grad])
    · exact binaryRule_congr_nonpow ρ σ₁ σ₂ op hop (H.expr l) (H.expr r) ihl ihr
  | .un op a, hreg => by
    simp only [ExpReg] at hreg
    simp only [grad, mapPar]
    exact unaryRule_congr ρ σ₁ σ₂ op (H.expr a) (grad_mapPar H hw a hreg)
      (by have := H.expr (.un op a); simpa [mapPar] using this)
  | .linComb cs (.vars vv), _ => by
    simp only [grad, mapPar, mapParVec, linCombRule, hw]
    cases findName w.name vv.vars <;> simp
  | .linComb cs (.exprs es), hreg => by
    simp only [ExpReg, ExpRegVec] at hreg
    simp only [grad, mapPar, mapParVec, gradVec]
    rw [denote_linCombRule_exprs, denote_linCombRule_exprs, gradList_mapPar H hw es hreg]
  | .vecSum v, _ => by
    simp only [grad, mapPar, vecSumRule, hw]
    split <;> simp
  | .exprSum es, hreg => by
    simp only [ExpReg] at hreg
    simp only [grad, mapPar]
    rw [denote_exprSumRule, denote_exprSumRule, gradList_mapPar H hw es hreg]
  | .matSumE es, hreg => by
    simp only [ExpReg] at hreg
    simp only [grad, mapPar]
    rw [denote_exprSumRule, denote_exprSumRule, gradList_mapPar H hw es hreg]
  | .dot (.vars lv) (.vars rv), _ => by
    simp only [grad, mapPar, mapParVec, dotRule, hw, Vec.elems]
    cases findName w.name lv.vars <;> cases findName w.name rv.vars <;> simp only []
    · simp
    · exact denote_getD_vars ρ σ₁ σ₂ _ _
    · exact denote_getD_vars ρ σ₁ σ₂ _ _
    · split
      · simp [denote, hw]
      · simp only [denote_sAdd]
        rw [denote_getD_vars ρ σ₁ σ₂, denote_getD_vars ρ σ₁ σ₂]
  | .dot (.vars lv) (.exprs res), hreg => by
    simp only [ExpReg, ExpRegVec] at hreg
    simp only [grad, mapPar, mapParVec, dotRule]
    rw [denote_dotFold, denote_dotFold, H.elems (.vars lv), H.elems (.exprs res),
      gradVec_mapPar H hw (.vars lv) trivial, gradVec_mapPar H hw (.exprs res) hreg.2]
    simp only [mapParVec]
  | .dot (.exprs les) (.vars rv), hreg => by
    simp only [ExpReg, ExpRegVec] at hreg
    simp only [grad, mapPar, mapParVec, dotRule]
    rw [denote_dotFold, denote_dotFold, H.elems (.exprs les), H.elems (.vars rv),
      gradVec_mapPar H hw (.exprs les) hreg.1, gradVec_mapPar H hw (.vars rv) trivial]
    simp only [mapParVec]
  | .dot (.exprs les) (.exprs res), hreg => by
    simp only [ExpReg, ExpRegVec] at hreg
    simp only [grad, mapPar, mapParVec, dotRule]
    rw [denote_dotFold, denote_dotFold, H.elems (.exprs les), H.elems (.exprs res),
      gradVec_mapPar H hw (.exprs les) hreg.1, gradVec_mapPar H hw (.exprs res) hreg.2]
    simp only [mapParVec]
  | .l2 (.vars vv), _ => by
    simp only [grad, mapPar, mapParVec, l2Rule, hw]
    split
    · simp [denote, denoteVec, hw]
    · simp
  | .l2 (.exprs es), hreg => by
    simp only [ExpReg, ExpRegVec] at hreg
    have hs := H.expr (.l2 (.exprs es))
    simp only [mapPar, mapParVec] at hs
    simp only [grad, mapPar, mapParVec, l2Rule, gradVec]
    rw [denote_l2Fold, denote_l2Fold, H.list es, gradList_mapPar H hw es hreg, hs]
  | .l1 (.vars vv), _ => by
    simp only [grad, mapPar, mapParVec, l1Rule, hw]
    split
    · simp [denote, hw]
    · simp
  | .l1 (.exprs es), hreg => by
    simp only [ExpReg, ExpRegVec] at hreg
    simp only [grad, mapPar, mapParVec, l1Rule, gradVec]
    rw [denote_l1Fold, denote_l1Fold, H.list es, gradList_mapPar H hw es hreg]
  | .quad (.vars vv) q, _ => by
    simp only [grad, mapPar, mapParVec, quadRule, hw]
    cases findName w.name vv.vars <;> simp [denote, denoteVec]
  | .quad (.exprs es) q, hreg => by
    simp only [ExpReg, ExpRegVec] at hreg
    simp only [grad, mapPar, mapParVec, quadRule, gradVec]
    rw [denote_quadFold, denote_quadFold, H.list es, gradList_mapPar H hw es hreg]
  | .powSum v k, _ => by
    simp only [grad, mapPar, powSumRule, hw]
    cases v.vars.find? (fun x => x.name == w.name) with
    | none => simp
    | some x =>
      simp only []
      split
      · simp
      · split <;> simp [denote]
  | .unSum v op, _ => by
    simp only [grad, mapPar, unSumRule, hw]
    cases v.vars.find? (fun x => x.name == w.name) with
    | none => simp
    | some x => cases op <;> simp [unSumDeriv, denote]
  | .matSumV m, _ => by simp [grad, mapPar, matSumVRule, hw]
  | .frob m, _ => by
    simp only [grad, mapPar, frobRule, hw]
    split
    · simp
    · simp [denote, hw]
theorem gradVec_mapPar (H : LeafMap ρ σ₁ σ₂ τ) (hw : w'.name = w.name) :
    (v : Vec) → ExpRegVec ρ σ₁ τ v →
      (gradVec w v).map (denote ρ σ₁) = (gradVec w' (mapParVec τ v)).map (denote ρ σ₂)
  | .vars vv, _ => by
    simp only [gradVec, mapParVec, List.map_map, hw]
    apply List.map_congr_left
    intro y _
    simp only [Function.comp]
    split <;> simp
  | .exprs es, hreg => by
    simp only [ExpRegVec] at hreg
    simp only [gradVec, mapParVec]
    exact gradList_mapPar H hw es hreg
theorem gradList_mapPar (H : LeafMap ρ σ₁ σ₂ τ) (hw : w'.name = w.name) :
    (es : ExprList) → ExpRegList ρ σ₁ τ es →
      (gradList w es).map (denote ρ σ₁) = (gradList w' (mapParList τ es)).map (denote ρ σ₂)
  | .nil, _ => by simp [gradList, mapParList]
  | .cons e t, hreg => by
    simp only [ExpRegList] at hreg
    simp only [gradList, mapParList, List.map_cons]
    rw [grad_mapPar H hw e hreg.1, gradList_mapPar H hw t hreg.2]
end

end main

end Optyx.Py.State
