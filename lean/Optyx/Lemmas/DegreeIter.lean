/-
  Optyx.Lemmas.DegreeIter — the explicit-stack machine of `_compute_degree_iterative`
  computes `Py.degree`: running it on `(e, phase 0) :: stk` pushes `degree e` and leaves
  `stk`, within `3 * size e` steps, never popping an empty result stack.  Core Lean only.
-/
import Optyx.Py.Degree

namespace Optyx.Py
open Optyx

theorem run_succ (n : Nat) (f : Frame) (stk : List Frame) (rs : List Deg) :
    run (n + 1) ⟨f :: stk, rs⟩ =
      match step f stk rs with
      | .ok s => run n s
      | .error err => .error err := by
  rw [run]
  cases step f stk rs <;> rfl

theorem run_nil (n : Nat) (rs : List Deg) : run n ⟨[], rs⟩ = .ok ⟨[], rs⟩ := by
  cases n <;> simp [run]

theorem degree_un_other {op : UnOp} (h : op ≠ .neg) (a : Expr) : degree (.un op a) = none := by
  cases op <;> simp [degree] at *

/-- the specification of one node visit -/
def Visits (e : Expr) : Prop :=
  ∀ (stk : List Frame) (rs : List Deg), ∃ k, k ≤ 3 * e.size ∧
    ∀ n, run (n + k) ⟨⟨e, 0, none⟩ :: stk, rs⟩ = run n ⟨stk, degree e :: rs⟩

theorem visits_leaf (e : Expr)
    (h : ∀ (stk : List Frame) (rs : List Deg), step ⟨e, 0, none⟩ stk rs = .ok ⟨stk, degree e :: rs⟩) :
    Visits e := by
  intro stk rs
  refine ⟨1, by have := Expr.size_pos e; omega, fun n => ?_⟩
  rw [run_succ, h]

theorem run_node : (e : Expr) → Visits e
  | .const c => visits_leaf _ (fun _ _ => by simp [step, degree])
  | .var v => visits_leaf _ (fun _ _ => by simp [step, degree])
  | .param p => visits_leaf _ (fun _ _ => by simp [step])
  | .linComb cs v => visits_leaf _ (fun _ _ => by simp [step])
  | .vecSum v => visits_leaf _ (fun _ _ => by simp [step])
  | .exprSum es => visits_leaf _ (fun _ _ => by simp [step])
  | .dot l r => visits_leaf _ (fun _ _ => by simp [step])
  | .l2 v => visits_leaf _ (fun _ _ => by simp [step])
  | .l1 v => visits_leaf _ (fun _ _ => by simp [step])
  | .quad v q => visits_leaf _ (fun _ _ => by simp [step])
  | .powSum v k => visits_leaf _ (fun _ _ => by simp [step])
  | .unSum v op => visits_leaf _ (fun _ _ => by simp [step])
  | .matSumV m => visits_leaf _ (fun _ _ => by simp [step])
  | .matSumE es => visits_leaf _ (fun _ _ => by simp [step])
  | .frob m => visits_leaf _ (fun _ _ => by simp [step])
  | .un op a => by
    by_cases hop : op = .neg
    · subst hop
      intro stk rs
      obtain ⟨k, hk, ih⟩ := run_node a (⟨.un .neg a, 1, none⟩ :: stk) rs
      refine ⟨k + 2, by simp only [Expr.size]; omega, fun n => ?_⟩
      have e1 : n + (k + 2) = ((n + 1) + k) + 1 := by omega
      rw [e1, run_succ]
      simp only [step, beq_self_eq_true, if_true]
      rw [ih (n + 1), run_succ]
      simp [step, degree]
    · refine visits_leaf _ (fun stk rs => ?_)
      have : (op == UnOp.neg) = false := by simpa using hop
      simp [step, this, degree_un_other hop]
  | .bin op l r => by
    intro stk rs
    obtain ⟨kl, hkl, ihl⟩ := run_node l (⟨.bin op l r, 1, none⟩ :: stk) rs
    -- after the first visit and the left child
    have start : ∀ m, run ((m + 1) + kl + 1) ⟨⟨.bin op l r, 0, none⟩ :: stk, rs⟩ =
        run (m + 1) ⟨⟨.bin op l r, 1, none⟩ :: stk, degree l :: rs⟩ := by
      intro m
      rw [run_succ]
      simp only [step, beq_self_eq_true, if_true]
      exact ihl (m + 1)
    cases op with
    | pow =>
      refine ⟨kl + 2, by simp only [Expr.size]; omega, fun n => ?_⟩
      have e1 : n + (kl + 2) = (n + 1) + kl + 1 := by omega
      rw [e1, start, run_succ]
      simp only [step, degree]
      cases expNat r <;> cases degree l <;> simp
    | div =>
      refine ⟨kl + 2, by simp only [Expr.size]; omega, fun n => ?_⟩
      have e1 : n + (kl + 2) = (n + 1) + kl + 1 := by omega
      rw [e1, start, run_succ]
      simp only [step, degree]
      cases isConstNode r <;> simp
    | add =>
      cases hl : degree l with
      | none =>
        refine ⟨kl + 2, by simp only [Expr.size]; omega, fun n => ?_⟩
        have e1 : n + (kl + 2) = (n + 1) + kl + 1 := by omega
        rw [e1, start, run_succ]
        simp [step, degree, hl]
      | some a =>
        obtain ⟨kr, hkr, ihr⟩ := run_node r (⟨.bin .add l r, 2, some a⟩ :: stk) rs
        refine ⟨kl + kr + 3, by simp only [Expr.size]; omega, fun n => ?_⟩
        have e1 : n + (kl + kr + 3) = ((n + 1 + kr) + 1) + kl + 1 := by omega
        rw [e1, start, run_succ]
        simp only [step, hl]
        simp only [show (BinOp.add == BinOp.pow) = false from rfl, show (BinOp.add == BinOp.div) = false from rfl]
        simp only [show ((1 : Nat) == 0) = false from rfl,
          show ((1 : Nat) == 1) = true from rfl, if_true, Bool.false_eq_true, if_false]
        rw [ihr (n + 1), run_succ]
        simp only [step, degree, hl]
        cases degree r <;> simp
    | sub =>
      cases hl : degree l with
      | none =>
        refine ⟨kl + 2, by simp only [Expr.size]; omega, fun n => ?_⟩
        have e1 : n + (kl + 2) = (n + 1) + kl + 1 := by omega
        rw [e1, start, run_succ]
        simp [step, degree, hl]
      | some a =>
        obtain ⟨kr, hkr, ihr⟩ := run_node r (⟨.bin .sub l r, 2, some a⟩ :: stk) rs
        refine ⟨kl + kr + 3, by simp only [Expr.size]; omega, fun n => ?_⟩
        have e1 : n + (kl + kr + 3) = ((n + 1 + kr) + 1) + kl + 1 := by omega
        rw [e1, start, run_succ]
        simp only [step, hl]
        simp only [show (BinOp.sub == BinOp.pow) = false from rfl, show (BinOp.sub == BinOp.div) = false from rfl]
        simp only [show ((1 : Nat) == 0) = false from rfl,
          show ((1 : Nat) == 1) = true from rfl, if_true, Bool.false_eq_true, if_false]
        rw [ihr (n + 1), run_succ]
        simp only [step, degree, hl]
        cases degree r <;> simp
    | mul =>
      cases hl : degree l with
      | none =>
        refine ⟨kl + 2, by simp only [Expr.size]; omega, fun n => ?_⟩
        have e1 : n + (kl + 2) = (n + 1) + kl + 1 := by omega
        rw [e1, start, run_succ]
        simp [step, degree, hl]
      | some a =>
        obtain ⟨kr, hkr, ihr⟩ := run_node r (⟨.bin .mul l r, 2, some a⟩ :: stk) rs
        refine ⟨kl + kr + 3, by simp only [Expr.size]; omega, fun n => ?_⟩
        have e1 : n + (kl + kr + 3) = ((n + 1 + kr) + 1) + kl + 1 := by omega
        rw [e1, start, run_succ]
        simp only [step, hl]
        simp only [show (BinOp.mul == BinOp.pow) = false from rfl, show (BinOp.mul == BinOp.div) = false from rfl]
        simp only [show ((1 : Nat) == 0) = false from rfl,
          show ((1 : Nat) == 1) = true from rfl, if_true, Bool.false_eq_true, if_false]
        rw [ihr (n + 1), run_succ]
        simp only [step, degree, hl]
        cases hr : degree r with
        | none => simp
        | some b =>
          by_cases hab : 0 < a ∧ 0 < b <;> simp [hab]

/-- `_compute_degree_iterative` returns what `_compute_degree_impl` returns -/
theorem degreeIter_eq_of_le (e : Expr) (fuel : Nat) (h : 3 * e.size ≤ fuel) :
    degreeIter fuel e = .ok (degree e) := by
  obtain ⟨k, hk, hrun⟩ := run_node e [] []
  have : fuel = (fuel - k) + k := by omega
  unfold degreeIter
  rw [this, hrun, run_nil]

end Optyx.Py
