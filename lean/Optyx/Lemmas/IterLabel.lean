/-
  Optyx.Lemmas.IterLabel — the labelling `label n e` (every position its own identity) erases
  to `e`, has `skel e` nodes, pairwise distinct identities, hence consistent identities.
-/
import Optyx.Lemmas.IterGrad

namespace Optyx.Py
open Optyx ITree

theorem label_erase (n : Nat) (e : Expr) : (label n e).erase = e := by
  induction e using Expr.rec (motive_2 := fun _ => True) (motive_3 := fun _ => True) generalizing n <;>
    first
      | trivial
      | simp_all [label, erase]

theorem label_nodes (n : Nat) (e : Expr) : (label n e).nodes = skel e := by
  induction e using Expr.rec (motive_2 := fun _ => True) (motive_3 := fun _ => True) generalizing n <;>
    first
      | trivial
      | simp_all [label, nodes, skel]

theorem label_ids (n : Nat) (e : Expr) : (label n e).ids = List.range' n (skel e) := by
  induction e using Expr.rec (motive_2 := fun _ => True) (motive_3 := fun _ => True) generalizing n with
  | bin op l r ihl ihr =>
    simp only [label, ids, skel, ihl, ihr]
    rw [show skel l + skel r + 1 = 1 + (skel l + skel r) by omega, ← List.range'_append_1,
      ← List.range'_append_1]
    simp [Nat.add_assoc]
  | un op a iha =>
    simp only [label, ids, skel, iha]
    rw [show skel a + 1 = 1 + skel a by omega, ← List.range'_append_1]
    simp
  | vars _ => trivial
  | exprs _ _ => trivial
  | nil => trivial
  | cons _ _ _ _ => trivial
  | _ => simp [label, ids, skel]

theorem label_nodup (n : Nat) (e : Expr) : (label n e).ids.Nodup := by
  rw [label_ids]; exact List.nodup_range'

theorem subs_id_mem {s t : ITree} (h : s ∈ t.subs) : s.id ∈ t.ids := by
  induction t with
  | leaf i a => simp [subs] at h; subst h; simp [ids]
  | un i op a ih =>
    simp only [subs, List.mem_cons] at h
    rcases h with rfl | h
    · simp [ids]
    · simp [ids, ih h]
  | bin i op l r ihl ihr =>
    simp only [subs, List.mem_cons, List.mem_append] at h
    rcases h with rfl | h | h
    · simp [ids]
    · simp [ids, ihl h]
    · simp [ids, ihr h]

theorem mem_of_id_eq {s t : ITree} (h : s ∈ t.subs) {i : Nat} (hid : i = s.id) : i ∈ t.ids :=
  hid ▸ subs_id_mem h

/-- pairwise distinct identities (a tree without sharing) are consistent -/
theorem consistent_of_nodup (t : ITree) (h : t.ids.Nodup) : Consistent t := by
  induction t with
  | leaf i a =>
    intro s₁ h₁ s₂ h₂ _
    simp [subs] at h₁ h₂; rw [h₁, h₂]
  | un i op a ih =>
    simp only [ids, List.nodup_cons] at h
    intro s₁ h₁ s₂ h₂ hid
    simp only [subs, List.mem_cons] at h₁ h₂
    rcases h₁ with rfl | h₁ <;> rcases h₂ with rfl | h₂
    · rfl
    · exact absurd (mem_of_id_eq h₂ hid) h.1
    · exact absurd (mem_of_id_eq h₁ hid.symm) h.1
    · exact ih h.2 s₁ h₁ s₂ h₂ hid
  | bin i op l r ihl ihr =>
    simp only [ids, List.nodup_cons, List.nodup_append, List.mem_append] at h
    obtain ⟨hi, hl, hr, hdis⟩ := h
    intro s₁ h₁ s₂ h₂ hid
    simp only [subs, List.mem_cons, List.mem_append] at h₁ h₂
    rcases h₁ with rfl | h₁ | h₁ <;> rcases h₂ with rfl | h₂ | h₂
    · rfl
    · exact absurd (Or.inl (mem_of_id_eq h₂ hid)) hi
    · exact absurd (Or.inr (mem_of_id_eq h₂ hid)) hi
    · exact absurd (Or.inl (mem_of_id_eq h₁ hid.symm)) hi
    · exact ihl hl s₁ h₁ s₂ h₂ hid
    · exact absurd hid (hdis _ (subs_id_mem h₁) _ (subs_id_mem h₂))
    · exact absurd (Or.inr (mem_of_id_eq h₁ hid.symm)) hi
    · exact absurd hid.symm (hdis _ (subs_id_mem h₂) _ (subs_id_mem h₁))
    · exact ihr hr s₁ h₁ s₂ h₂ hid

theorem label_consistent (n : Nat) (e : Expr) : Consistent (label n e) :=
  consistent_of_nodup _ (label_nodup n e)

end Optyx.Py
