/-
  Optyx.Lemmas.IterVars — the explicit-stack variable traversal (stack + `seen` ids) visits
  every node of a tree with pairwise distinct identities exactly once, in `nodes t` loop
  iterations, and collects exactly the variables of the recursive `get_variables`.
-/
import Optyx.Lemmas.IterLabel

namespace Optyx.Py
open Optyx ITree

/-- the variables in the order the loop adds them (right operand first: it is on top) -/
def varsT : ITree → List Var
  | leaf _ a => atomVars a
  | un _ _ a => varsT a
  | bin _ _ l r => varsT r ++ varsT l

theorem atomVars_eq (a : Atom) : atomVars a = getVars a.toExpr := by
  cases a <;> simp [atomVars, Atom.toExpr, getVars]

theorem mem_varsT (t : ITree) (v : Var) : v ∈ varsT t ↔ v ∈ getVars t.erase := by
  induction t with
  | leaf i a => simp [varsT, erase, atomVars_eq]
  | un i op a ih => simp [varsT, erase, getVars, ih]
  | bin i op l r ihl ihr => simp [varsT, erase, getVars, ihl, ihr, or_comm]

theorem vrun_add (m n : Nat) (s : VSt) : vrun (m + n) s = vrun n (vrun m s) := by
  induction m generalizing s with
  | zero => simp [vrun]
  | succ m ih => rw [Nat.succ_add]; simp [vrun, ih]

theorem vrun_done (n : Nat) (S : List Nat) (A : List Var) : vrun n ⟨[], S, A⟩ = ⟨[], S, A⟩ := by
  induction n with
  | zero => rfl
  | succ n ih => simp [vrun, vstep, ih]

theorem vrun_node : ∀ (t : ITree) (rest : List ITree) (S : List Nat) (A : List Var),
    t.ids.Nodup → (∀ i ∈ t.ids, i ∉ S) →
    ∃ S', vrun t.nodes ⟨t :: rest, S, A⟩ = ⟨rest, S', A ++ varsT t⟩ ∧
      (∀ i, i ∈ S' ↔ i ∈ S ∨ i ∈ t.ids) := by
  intro t
  induction t with
  | leaf i a =>
    intro rest S A _ hS
    have hi : i ∉ S := hS i (by simp [ids])
    exact ⟨i :: S, by simp [nodes, vrun, vstep, hi, varsT], by intro j; simp [ids, or_comm]⟩
  | un i op a iha =>
    intro rest S A hnd hS
    simp only [ids, List.nodup_cons] at hnd
    have hi : i ∉ S := hS i (by simp [ids])
    obtain ⟨S', hrun, hS'⟩ := iha rest (i :: S) A hnd.2 (by
      intro j hj
      simp only [List.mem_cons, not_or]
      exact ⟨fun h => hnd.1 (h ▸ hj), hS j (by simp [ids, hj])⟩)
    refine ⟨S', ?_, ?_⟩
    · rw [show (un i op a).nodes = 1 + a.nodes by simp [nodes]; omega, vrun_add]
      simpa [vrun, vstep, hi, varsT] using hrun
    · intro j; rw [hS']; simp only [ids, List.mem_cons, List.mem_append]; grind
  | bin i op l r ihl ihr =>
    intro rest S A hnd hS
    simp only [ids, List.nodup_cons, List.nodup_append, List.mem_append, not_or] at hnd
    obtain ⟨⟨hil, hir⟩, hl, hr, hdis⟩ := hnd
    have hi : i ∉ S := hS i (by simp [ids])
    obtain ⟨S₁, hrun₁, hS₁⟩ := ihr (l :: rest) (i :: S) A hr (by
      intro j hj
      simp only [List.mem_cons, not_or]
      exact ⟨fun h => hir (h ▸ hj), hS j (by simp [ids, hj])⟩)
    obtain ⟨S₂, hrun₂, hS₂⟩ := ihl rest S₁ (A ++ varsT r) hl (by
      intro j hj
      rw [hS₁]
      simp only [List.mem_cons, not_or]
      exact ⟨⟨fun h => hil (h ▸ hj), hS j (by simp [ids, hj])⟩, fun h => hdis j hj j h rfl⟩)
    refine ⟨S₂, ?_, ?_⟩
    · rw [show (bin i op l r).nodes = 1 + (r.nodes + l.nodes) by simp [nodes]; omega, vrun_add, vrun_add]
      have h0 : vrun 1 ⟨bin i op l r :: rest, S, A⟩ = ⟨r :: l :: rest, i :: S, A⟩ := by
        simp [vrun, vstep, hi]
      rw [h0, hrun₁, hrun₂]
      simp [varsT]
    · intro j; rw [hS₂, hS₁]; simp only [ids, List.mem_cons, List.mem_append]; grind

theorem varsIter_spec (t : ITree) (hnd : t.ids.Nodup) (fuel : Nat) (hf : fuel ≥ t.nodes) :
    varsIter fuel t = some (varsT t) := by
  obtain ⟨S', hrun, _⟩ := vrun_node t [] [] [] hnd (by simp)
  obtain ⟨k, rfl⟩ : ∃ k, fuel = t.nodes + k := ⟨fuel - t.nodes, by omega⟩
  simp [varsIter, vrun_add, hrun, vrun_done]

theorem depthE_eq_depthC (e : Expr) : depthE e = depthC e := by
  induction e using Expr.rec (motive_2 := fun _ => True) (motive_3 := fun _ => True) <;>
    first
      | trivial
      | simp_all [depthE, depthC]

end Optyx.Py
