/-
  Optyx.Lemmas.ApiVec — helper lemmas for property C11 (vector / matrix API ≙ NumPy).
  Part 1: what the element lists built by the API denote (generic in the number algebra).
-/
import Optyx.Py.VecApi
import Optyx.Denote

namespace Optyx.Py.Api
open Optyx NumAlg

section Generic
variable {α : Type} [NumAlg α] (ρ : String → α) (σ : Nat → α)

/-- values of a list of expressions -/
def dvals (es : List Expr) : List α := es.map (denote ρ σ)

theorem denoteList_eq_map : (es : ExprList) → denoteList ρ σ es = es.toList.map (denote ρ σ)
  | .nil => by simp [denoteList, ExprList.toList]
  | .cons e t => by simp [denoteList, ExprList.toList, denoteList_eq_map t]

theorem denoteList_ofList (es : List Expr) :
    denoteList ρ σ (ExprList.ofList es) = dvals ρ σ es := by
  rw [denoteList_eq_map, ExprList.toList_ofList]; rfl

theorem denoteVec_vecOf (es : List Expr) : denoteVec ρ σ (vecOf es) = dvals ρ σ es := by
  simp [vecOf, denoteVec, denoteList_ofList]

theorem dvals_VVar_elems (v : VVar) : dvals ρ σ (VVar.elems v) = valsOf ρ v.vars := by
  simp [dvals, VVar.elems, valsOf, denote, Function.comp_def]

theorem dvals_vec_elems (v : Vec) : dvals ρ σ (Vec.elems' v) = denoteVec ρ σ v := by
  cases v with
  | vars v => simp [Vec.elems', dvals_VVar_elems, denoteVec]
  | exprs es => simp [Vec.elems', dvals, denoteVec, denoteList_eq_map]

theorem size'_eq (v : Vec) : Vec.size' v = (denoteVec ρ σ v).length := by
  rw [← dvals_vec_elems]; simp [Vec.size', dvals]

theorem dvals_length (es : List Expr) : (dvals ρ σ es).length = es.length := by simp [dvals]

/-- `x ** k` element-wise -/
def powVals (xs : List α) (k : Rat) : List α := xs.map fun x => NumAlg.pow x (ofRat k)

theorem dvals_epowElems (v : VVar) (k : Rat) :
    dvals ρ σ (epowElems v k) = powVals (valsOf ρ v.vars) k := by
  simp [dvals, epowElems, powVals, valsOf, denote, binop, NumAlg.cst, cst, Function.comp_def]

/-- `A @ x` for a constant matrix -/
def matVec (q : List (List Rat)) (xs : List α) : List α := q.map fun row => wsum row xs

theorem dvals_mvpElems (q : List (List Rat)) (v : Vec) :
    dvals ρ σ (mvpElems q v) = matVec q (denoteVec ρ σ v) := by
  simp [dvals, mvpElems, matVec, denote, Function.comp_def]

theorem dvals_zipWith_bin (op : BinOp) (ls rs : List Expr) :
    dvals ρ σ (List.zipWith (fun l r => Expr.bin op l r) ls rs)
      = List.zipWith (binop op) (dvals ρ σ ls) (dvals ρ σ rs) := by
  simp [dvals, List.map_zipWith, List.zipWith_map, denote]

theorem dvals_replicate (n : Nat) (e : Expr) :
    dvals ρ σ (List.replicate n e) = List.replicate n (denote ρ σ e) := by simp [dvals]

theorem dvals_map_cst (xs : List Rat) : dvals ρ σ (xs.map cst) = xs.map (ofRat : Rat → α) := by
  simp [dvals, cst, denote, NumAlg.cst, Function.comp_def]

@[simp] theorem VVar.elems_length (v : VVar) : (VVar.elems v).length = v.vars.length := by simp [VVar.elems]
@[simp] theorem mvpElems_length (q : List (List Rat)) (v : Vec) : (mvpElems q v).length = q.length := by
  simp [mvpElems]
@[simp] theorem epowElems_length (v : VVar) (k : Rat) : (epowElems v k).length = v.vars.length := by
  simp [epowElems]

theorem mkVExpr_ok {es es' : List Expr} (h : mkVExpr es = .ok es') : es' = es ∧ es ≠ [] := by
  unfold mkVExpr at h
  split at h
  · cases h
  · rename_i hne
    exact ⟨(Except.ok.inj h).symm, by intro h0; simp [h0] at hne⟩

/-- values a vector-like *left* operand contributes -/
def VecLike.vals (l : VecLike) : List α := dvals ρ σ l.elems

theorem VecLike.vals_vvar (v : VVar) : (VecLike.vvar v).vals ρ σ = valsOf ρ v.vars := dvals_VVar_elems ρ σ v
theorem VecLike.vals_epow (v : VVar) (k : Rat) :
    (VecLike.epow v k).vals ρ σ = powVals (valsOf ρ v.vars) k := dvals_epowElems ρ σ v k

/-- NumPy's view of the *right* operand of an element-wise vector operation of length `n`:
    a scalar is broadcast, a vector / 1-d array / list must have length `n` -/
def vecOperandVals (n : Nat) : Operand → Option (List α)
  | .pyNum q => some (List.replicate n (ofRat q))
  | .vvar w => if w.vars.length = n then some (valsOf ρ w.vars) else none
  | .vexpr es => if es.length = n then some (dvals ρ σ es) else none
  | .mvp q v => if q.length = n then some (matVec q (denoteVec ρ σ v)) else none
  | .epow w k => if w.vars.length = n then some (powVals (valsOf ρ w.vars) k) else none
  | .arr1 xs | .list1 xs => if xs.length = n then some (xs.map ofRat) else none
  | _ => none

theorem vbinRight_vals {n : Nat} {right : Operand} {rs : List Expr} (h : vbinRight n right = .ok rs) :
    vecOperandVals ρ σ n right = some (dvals ρ σ rs) ∧ rs.length = n := by
  cases right <;> simp only [vbinRight] at h
  case pyNum q => cases h; simp [vecOperandVals, dvals_replicate, cst, denote, NumAlg.cst]
  case vvar w =>
    split at h
    · cases h
    · rename_i hl; have hl' : w.vars.length = n := by simpa using hl
      cases h; simp [vecOperandVals, hl', dvals_VVar_elems]
  case vexpr es =>
    split at h
    · cases h
    · rename_i hl; have hl' : es.length = n := by simpa using hl
      cases h; simp [vecOperandVals, hl']
  case mvp q v =>
    split at h
    · cases h
    · rename_i hl; have hl' : q.length = n := by simpa using hl
      cases h; simp [vecOperandVals, hl', dvals_mvpElems]
  case epow w k =>
    split at h
    · cases h
    · rename_i hl; have hl' : w.vars.length = n := by simpa using hl
      cases h; simp [vecOperandVals, hl', dvals_epowElems]
  case arr1 xs =>
    split at h
    · cases h
    · rename_i hl; have hl' : xs.length = n := by simpa using hl
      cases h; simp [vecOperandVals, hl', dvals_map_cst]
  case list1 xs =>
    split at h
    · cases h
    · rename_i hl; have hl' : xs.length = n := by simpa using hl
      cases h; simp [vecOperandVals, hl', dvals_map_cst]
  all_goals cases h

theorem vectorBinaryOp_vals (left : VecLike) (right : Operand) (op : BinOp) (es : List Expr)
    (h : vectorBinaryOp left right op = .ok es) :
    ∃ rv, vecOperandVals ρ σ left.elems.length right = some rv ∧ rv.length = left.elems.length ∧
      dvals ρ σ es = List.zipWith (binop op) (left.vals ρ σ) rv := by
  unfold vectorBinaryOp at h
  simp only [] at h
  cases hr : vbinRight left.elems.length right with
  | error e => rw [hr] at h; cases h
  | ok rs =>
    rw [hr] at h
    obtain ⟨he, _⟩ := mkVExpr_ok h
    obtain ⟨hv, hl⟩ := vbinRight_vals ρ σ hr
    refine ⟨dvals ρ σ rs, hv, by simp [dvals, hl], ?_⟩
    rw [he, dvals_zipWith_bin]; rfl

/-- the *left* operand of a reflected element-wise operation (`other op vector`) -/
def reflOperandVals (n : Nat) : Operand → Option (List α)
  | .arr1 xs | .list1 xs => if xs.length = n then some (xs.map ofRat) else none
  | .pyNum q | .npNum q | .arr0 q => some (List.replicate n (ofRat q))
  | .scalar e => some (List.replicate n (denote ρ σ e))
  | _ => none

theorem vectorReflectedOp_vals (vector : VecLike) (other : Operand) (op : BinOp) (es : List Expr)
    (h : vectorReflectedOp vector other op = .ok es) :
    ∃ lv, reflOperandVals ρ σ vector.elems.length other = some lv ∧ lv.length = vector.elems.length ∧
      dvals ρ σ es = List.zipWith (binop op) lv (vector.vals ρ σ) := by
  unfold vectorReflectedOp at h
  simp only [] at h
  cases other <;> simp only [] at h
  case arr1 xs =>
    split at h
    · cases h
    · rename_i hl; have hl' : xs.length = vector.elems.length := by simpa using hl
      obtain ⟨he, _⟩ := mkVExpr_ok h
      refine ⟨xs.map ofRat, by simp [reflOperandVals, hl'], by simp [hl'], ?_⟩
      rw [he, dvals_zipWith_bin, dvals_map_cst]; rfl
  case list1 xs =>
    split at h
    · cases h
    · rename_i hl; have hl' : xs.length = vector.elems.length := by simpa using hl
      obtain ⟨he, _⟩ := mkVExpr_ok h
      refine ⟨xs.map ofRat, by simp [reflOperandVals, hl'], by simp [hl'], ?_⟩
      rw [he, dvals_zipWith_bin, dvals_map_cst]; rfl
  case pyNum q =>
    obtain ⟨he, _⟩ := mkVExpr_ok h
    refine ⟨_, rfl, by simp, ?_⟩
    rw [he, dvals_zipWith_bin, dvals_replicate]; rfl
  case npNum q =>
    obtain ⟨he, _⟩ := mkVExpr_ok h
    refine ⟨_, rfl, by simp, ?_⟩
    rw [he, dvals_zipWith_bin, dvals_replicate]; rfl
  case arr0 q =>
    obtain ⟨he, _⟩ := mkVExpr_ok h
    refine ⟨_, rfl, by simp, ?_⟩
    rw [he, dvals_zipWith_bin, dvals_replicate]; rfl
  case scalar e =>
    obtain ⟨he, _⟩ := mkVExpr_ok h
    refine ⟨_, rfl, by simp, ?_⟩
    rw [he, dvals_zipWith_bin, dvals_replicate]; rfl
  all_goals cases h

theorem vectorNeg_vals (v : VecLike) (es : List Expr) (h : vectorNeg v = .ok es) :
    dvals ρ σ es = (v.vals ρ σ).map (unop .neg) := by
  obtain ⟨he, _⟩ := mkVExpr_ok h
  rw [he]; simp [dvals, VecLike.vals, denote, Function.comp_def]

/-! ### reductions and products -/

theorem vectorSum_vvar (v : VVar) : denote ρ σ (vectorSum (.vvar v)) = NumAlg.sum (valsOf ρ v.vars) := rfl
theorem vectorSum_vexpr (es : List Expr) :
    denote ρ σ (vectorSum (.vexpr es)) = NumAlg.sum (dvals ρ σ es) := by
  simp [vectorSum, denote, denoteList_ofList]
theorem vectorSum_epow (v : VVar) (k : Rat) :
    denote ρ σ (vectorSum (.epow v k)) = NumAlg.sum (powVals (valsOf ρ v.vars) k) := rfl
theorem vectorSum_eun (v : VVar) (op : VOp) :
    denote ρ σ (vectorSum (.eun v op)) = NumAlg.sum ((valsOf ρ v.vars).map (unop op.toUn)) := rfl

theorem toVec?_len {o : Operand} {r : Vec} (h : o.toVec? = some r) : o.len? = some (Vec.size' r) := by
  cases o <;> simp [Operand.toVec?] at h <;> subst h <;>
    simp [Operand.len?, Vec.size', Vec.elems', vecOf, VVar.elems]

theorem mkDot_vals (left : Vec) (right : Operand) (e : Expr) (h : mkDot left right = .ok e) :
    ∃ r, right.toVec? = some r ∧ (denoteVec ρ σ r).length = (denoteVec ρ σ left).length ∧
      denote ρ σ e = dotp (denoteVec ρ σ left) (denoteVec ρ σ r) := by
  unfold mkDot at h
  cases hl : right.len? with
  | none => rw [hl] at h; cases h
  | some m =>
    rw [hl] at h
    simp only [] at h
    split at h
    · cases h
    · rename_i hne
      cases hv : right.toVec? with
      | none => rw [hv] at h; cases h
      | some r =>
        rw [hv] at h
        cases h
        have hm := toVec?_len hv
        rw [hl] at hm
        have : Vec.size' left = Vec.size' r := by
          have : Vec.size' left = m := by simpa using hne
          rw [this]; exact Option.some.inj hm
        exact ⟨r, rfl, by rw [← size'_eq, ← size'_eq, this], rfl⟩

omit [NumAlg α] in
/-- same elements (by identity) ⇒ same values, provided identity determines the object -/
theorem sameElements_vals (self u : VVar) (hs : sameElements self u = true)
    (H1 : u.oid = self.oid → u.vars = self.vars)
    (H2 : ∀ a ∈ u.vars, ∀ b ∈ self.vars, a.oid = b.oid → a.name = b.name) :
    valsOf ρ u.vars = valsOf ρ self.vars := by
  unfold sameElements at hs
  rcases Bool.or_eq_true_iff.mp hs with h | h
  · rw [H1 (by simpa using h)]
  · obtain ⟨hlen, hall⟩ := Bool.and_eq_true_iff.mp h
    have hlen' : u.vars.length = self.vars.length := by simpa using hlen
    clear hs h hlen H1
    generalize u.vars = us at *
    generalize self.vars = ss at *
    induction us generalizing ss with
    | nil => cases ss <;> simp_all [valsOf]
    | cons a us ih =>
      cases ss with
      | nil => simp at hlen'
      | cons b ss =>
        simp only [List.zipWith_cons_cons, List.all_cons, Bool.and_eq_true, beq_iff_eq, id] at hall
        have hn := H2 a (List.mem_cons_self) b (List.mem_cons_self) hall.1
        have := ih ss (fun x hx y hy => H2 x (List.mem_cons_of_mem _ hx) y (List.mem_cons_of_mem _ hy))
          hall.2 (by simpa using hlen')
        simp only [valsOf, List.map_cons] at this ⊢
        rw [hn, this]

theorem quad_denote (v : Vec) (q : List (List Rat)) :
    denote ρ σ (.quad v q) = dotp (denoteVec ρ σ v) (matVec q (denoteVec ρ σ v)) := rfl

theorem mkQuadArr_ok {v : Vec} {q : List (List Rat)} {e : Expr} (h : mkQuadArr v q = .ok e) :
    e = .quad v q ∧ q.length = (q.head?.map List.length).getD 0 ∧ q.length = Vec.size' v := by
  unfold mkQuadArr at h
  simp only [] at h
  split at h
  · cases h
  · split at h
    · cases h
    · rename_i h1 h2
      exact ⟨(Except.ok.inj h).symm, by simpa using h1, by simpa using h2⟩

theorem mkLinComb_ok {cs : List Rat} {v : Vec} {e : Expr} (h : mkLinComb cs v = .ok e) :
    e = .linComb cs v ∧ cs.length = Vec.size' v := by
  unfold mkLinComb at h
  split at h
  · cases h
  · rename_i h1; exact ⟨(Except.ok.inj h).symm, by simpa using h1⟩

theorem mkMVP_ok {q : List (List Rat)} {v : Vec} {p : List (List Rat) × Vec} (h : mkMVP q v = .ok p) :
    p = (q, v) ∧ (q.head?.map List.length).getD 0 = Vec.size' v := by
  unfold mkMVP at h
  simp only [] at h
  split at h
  · cases h
  · rename_i h1; exact ⟨(Except.ok.inj h).symm, by simpa using h1⟩

/-! ### matrices (element-wise) -/

def gvals (g : List (List Expr)) : List (List α) := g.map (dvals ρ σ)

def MatLike.vals (m : MatLike) : List (List α) := gvals ρ σ m.elems

theorem MatLike.vals_mvar (m : MatV) : (MatLike.mvar m).vals ρ σ = m.rows.map (valsOf ρ) := by
  simp [MatLike.vals, gvals, MatLike.elems, Function.comp_def]
  intro row _
  simpa [VVar.elems] using dvals_VVar_elems ρ σ ⟨"", 0, row⟩

theorem mkMExpr_ok {g g' : List (List Expr)} (h : mkMExpr g = .ok g') : g' = g := by
  unfold mkMExpr at h
  split at h
  · cases h
  · exact (Except.ok.inj h).symm

theorem gvals_zipGrid (op : BinOp) (l r : List (List Expr)) :
    gvals ρ σ (zipGrid op l r) = List.zipWith (List.zipWith (binop op)) (gvals ρ σ l) (gvals ρ σ r) := by
  simp [gvals, zipGrid, List.map_zipWith, List.zipWith_map, dvals_zipWith_bin]

/-- NumPy's view of the right operand of an element-wise matrix operation on a grid of shape `shape` -/
def matOperandVals (shape : Nat × Nat) : Operand → Option (List (List α))
  | .pyNum q => some (List.replicate shape.1 (List.replicate shape.2 (ofRat q)))
  | .mvar w => if (w.nrows, w.ncols) = shape then some (w.rows.map (valsOf ρ)) else none
  | .mexpr g => if gridShape g = shape then some (gvals ρ σ g) else none
  | .arr2 g | .list2 g => if gridShape g = shape then some (g.map fun row => row.map ofRat) else none
  | _ => none

theorem mbinRight_vals {shape : Nat × Nat} {right : Operand} {rs : List (List Expr)}
    (h : mbinRight shape right = .ok rs) : matOperandVals ρ σ shape right = some (gvals ρ σ rs) := by
  cases right <;> simp only [mbinRight] at h
  case pyNum q => cases h; simp [matOperandVals, gvals, dvals_replicate, cst, denote, NumAlg.cst]
  case mvar w =>
    split at h
    · cases h
    · rename_i hs; have hs' : (w.nrows, w.ncols) = shape := by simpa using hs
      cases h
      rw [matOperandVals, if_pos hs']
      exact congrArg some (MatLike.vals_mvar ρ σ w).symm
  case mexpr g =>
    split at h
    · cases h
    · rename_i hs; have hs' : gridShape g = shape := by simpa using hs
      cases h; simp [matOperandVals, hs']
  case arr2 g =>
    split at h
    · cases h
    · rename_i hs; have hs' : gridShape g = shape := by simpa using hs
      cases h; simp [matOperandVals, hs', gvals, dvals_map_cst]
  case list2 g =>
    split at h
    · cases h
    · rename_i hs; have hs' : gridShape g = shape := by simpa using hs
      cases h; simp [matOperandVals, hs', gvals, dvals_map_cst]
  all_goals cases h

theorem matrixBinaryOp_vals (left : MatLike) (right : Operand) (op : BinOp) (g : List (List Expr))
    (h : matrixBinaryOp left right op = .ok g) :
    ∃ rv, matOperandVals ρ σ (gridShape left.elems) right = some rv ∧
      gvals ρ σ g = List.zipWith (List.zipWith (binop op)) (left.vals ρ σ) rv := by
  unfold matrixBinaryOp at h
  simp only [] at h
  cases hr : mbinRight (gridShape left.elems) right with
  | error e => rw [hr] at h; cases h
  | ok rs =>
    rw [hr] at h
    rw [mkMExpr_ok h]
    exact ⟨gvals ρ σ rs, mbinRight_vals ρ σ hr, gvals_zipGrid ρ σ op _ _⟩

/-- left operand of `other - M`, `other / M` -/
def matReflOperandVals (shape : Nat × Nat) : Operand → Option (List (List α))
  | .pyNum q | .npNum q | .arr0 q => some (List.replicate shape.1 (List.replicate shape.2 (ofRat q)))
  | .arr2 g | .list2 g => if gridShape g = shape then some (g.map fun row => row.map ofRat) else none
  | _ => none

theorem gvals_map_const (op : BinOp) (q : Rat) (es : List (List Expr)) :
    gvals ρ σ (es.map fun row => row.map fun e => Expr.bin op (cst q) e)
      = (gvals ρ σ es).map fun row => row.map fun x => binop op (ofRat q) x := by
  simp [gvals, dvals, denote, cst, NumAlg.cst, Function.comp_def]

theorem matrixRsub_vals (self : MatLike) (other : Operand) (g : List (List Expr))
    (h : matrixRsub self other = .ok g) :
    (∃ q, (other = .pyNum q) ∧
      gvals ρ σ g = (self.vals ρ σ).map fun row => row.map fun x => binop .sub (ofRat q) x) ∨
    (∃ a, other = .arr2 a ∧ gridShape a = gridShape self.elems ∧
      gvals ρ σ g = List.zipWith (List.zipWith (binop .sub)) (a.map fun row => row.map ofRat) (self.vals ρ σ)) := by
  unfold matrixRsub at h
  simp only [] at h
  cases other <;> simp only [] at h
  case pyNum q =>
    left; refine ⟨q, rfl, ?_⟩
    rw [mkMExpr_ok h]; exact gvals_map_const ρ σ .sub q _
  case arr2 a =>
    split at h
    · cases h
    · rename_i hs
      right; refine ⟨a, rfl, by simpa using hs, ?_⟩
      rw [mkMExpr_ok h, gvals_zipGrid]
      simp [gvals, dvals_map_cst, MatLike.vals]
  all_goals cases h

theorem matrixRdiv_vals (self : MatLike) (other : Operand) (g : List (List Expr))
    (h : matrixRdiv self other = .ok g) :
    (∃ q, (other = .pyNum q ∨ other = .npNum q ∨ other = .arr0 q) ∧
      gvals ρ σ g = (self.vals ρ σ).map fun row => row.map fun x => binop .div (ofRat q) x) ∨
    (∃ a, (other = .arr2 a ∨ other = .list2 a) ∧ gridShape a = gridShape self.elems ∧
      gvals ρ σ g = List.zipWith (List.zipWith (binop .div)) (a.map fun row => row.map ofRat) (self.vals ρ σ)) := by
  unfold matrixRdiv at h
  simp only [] at h
  cases other <;> simp only [] at h
  case pyNum q =>
    left; refine ⟨q, Or.inl rfl, ?_⟩
    rw [mkMExpr_ok h]; exact gvals_map_const ρ σ .div q _
  case npNum q =>
    left; refine ⟨q, Or.inr (Or.inl rfl), ?_⟩
    rw [mkMExpr_ok h]; exact gvals_map_const ρ σ .div q _
  case arr0 q =>
    left; refine ⟨q, Or.inr (Or.inr rfl), ?_⟩
    rw [mkMExpr_ok h]; exact gvals_map_const ρ σ .div q _
  case arr2 a =>
    split at h
    · cases h
    · rename_i hs
      right; refine ⟨a, Or.inl rfl, by simpa using hs, ?_⟩
      rw [mkMExpr_ok h, gvals_zipGrid]
      simp [gvals, dvals_map_cst, MatLike.vals]
  case list2 a =>
    split at h
    · cases h
    · rename_i hs
      right; refine ⟨a, Or.inr rfl, by simpa using hs, ?_⟩
      rw [mkMExpr_ok h, gvals_zipGrid]
      simp [gvals, dvals_map_cst, MatLike.vals]
  all_goals cases h

theorem matrixNeg_vals (self : MatLike) (g : List (List Expr)) (h : matrixNeg self = .ok g) :
    gvals ρ σ g = (self.vals ρ σ).map fun row => row.map (unop .neg) := by
  rw [mkMExpr_ok h]
  simp [gvals, dvals, MatLike.vals, denote, Function.comp_def]

theorem matrixSum_mvar (m : MatV) :
    denote ρ σ (matrixSum (.mvar m)) = NumAlg.sum (valsOf ρ m.rows.flatten) := rfl

theorem matrixSum_mexpr (g : List (List Expr)) :
    denote ρ σ (matrixSum (.mexpr g)) = NumAlg.sum (gvals ρ σ g).flatten := by
  simp only [matrixSum, denote, denoteList_ofList, gvals, dvals, List.map_flatten]
  rfl

end Generic
end Optyx.Py.Api
