/-
  Optyx.Lemmas.StateLRU — the generic cache-transparency argument (helper lemmas of C14).
  Core Lean only.
-/
import Optyx.Py.LRU

namespace Optyx.Py.LRU

variable {K V : Type}

/-- a policy is sound when it never invents entries: after a hit it keeps a selection of what was
    there, after a miss a selection of the old entries and the new one (any order, any eviction) -/
structure Policy.Sound (pol : Policy K V) : Prop where
  hit : ∀ e c, ∀ x ∈ pol.onHit e c, x = e ∨ x ∈ c
  miss : ∀ e c, ∀ x ∈ pol.onMiss e c, x = e ∨ x ∈ c

/-- every entry holds, for each admissible key equal to its own, a value equivalent to the freshly
    computed one -/
def Valid (keyEq : K → K → Bool) (P : K → Prop) (f : K → V) (R : V → V → Prop) (c : List (K × V)) : Prop :=
  ∀ e ∈ c, P e.1 ∧ ∀ k', P k' → keyEq e.1 k' = true → R e.2 (f k')

theorem find_some {keyEq : K → K → Bool} {k : K} {c : List (K × V)} {e : K × V}
    (h : find keyEq k c = some e) : e ∈ c ∧ keyEq e.1 k = true := by
  induction c with
  | nil => simp [find] at h
  | cons a t ih =>
    unfold find at h
    split at h
    · rename_i hk
      injection h with h
      subst h
      exact ⟨List.mem_cons_self, hk⟩
    · have := ih h
      exact ⟨List.mem_cons_of_mem _ this.1, this.2⟩

theorem valid_nil (keyEq : K → K → Bool) (P : K → Prop) (f : K → V) (R : V → V → Prop) :
    Valid keyEq P f R ([] : List (K × V)) := by
  intro e he; cases he

theorem removeKey_subset (keyEq : K → K → Bool) (k : K) (c : List (K × V)) :
    ∀ x ∈ removeKey keyEq k c, x ∈ c := by
  induction c with
  | nil => intro x hx; simp [removeKey] at hx
  | cons a t ih =>
    intro x hx
    unfold removeKey at hx
    split at hx
    · exact List.mem_cons_of_mem _ hx
    · rcases List.mem_cons.mp hx with h | h
      · subst h; exact List.mem_cons_self
      · exact List.mem_cons_of_mem _ (ih x h)

theorem lru_sound (keyEq : K → K → Bool) (cap : Nat) : (lru keyEq cap : Policy K V).Sound where
  hit e c x hx := by
    simp only [lru] at hx
    rcases List.mem_cons.mp hx with h | h
    · exact Or.inl h
    · exact Or.inr (removeKey_subset keyEq e.1 c x h)
  miss e c x hx := by
    simp only [lru] at hx
    have := List.mem_of_mem_take hx
    rcases List.mem_cons.mp this with h | h
    · exact Or.inl h
    · exact Or.inr h

/-- one request: the value handed out is equivalent to the fresh one, validity is kept -/
theorem lookup_valid (keyEq : K → K → Bool) (pol : Policy K V) (hpol : pol.Sound) (P : K → Prop)
    (f : K → V) (R : V → V → Prop) (hrefl : ∀ k, P k → R (f k) (f k))
    (respects : ∀ k k', P k → P k' → keyEq k k' = true → R (f k) (f k'))
    (c : List (K × V)) (hc : Valid keyEq P f R c) (k : K) (hk : P k) :
    R (lookupOrCompute keyEq pol f c k).1 (f k) ∧ Valid keyEq P f R (lookupOrCompute keyEq pol f c k).2 := by
  unfold lookupOrCompute
  cases hf : find keyEq k c with
  | some e =>
    obtain ⟨hmem, hkey⟩ := find_some hf
    refine ⟨(hc e hmem).2 k hk hkey, ?_⟩
    intro x hx
    rcases hpol.hit e c x hx with h | h
    · subst h; exact hc x hmem
    · exact hc x h
  | none =>
    refine ⟨hrefl k hk, ?_⟩
    intro x hx
    rcases hpol.miss (k, f k) c x hx with h | h
    · subst h
      exact ⟨hk, fun k' hk' hkk => respects k k' hk hk' hkk⟩
    · exact hc x h


/-- element-wise relation between two lists of the same length -/
def AllRel (R : V → V → Prop) : List V → List V → Prop
  | [], [] => True
  | a :: as, b :: bs => R a b ∧ AllRel R as bs
  | _, _ => False

/-- a whole history of requests -/
theorem run_valid (keyEq : K → K → Bool) (pol : Policy K V) (hpol : pol.Sound) (P : K → Prop)
    (f : K → V) (R : V → V → Prop) (hrefl : ∀ k, P k → R (f k) (f k))
    (respects : ∀ k k', P k → P k' → keyEq k k' = true → R (f k) (f k')) :
    ∀ (ks : List K) (c : List (K × V)), Valid keyEq P f R c → (∀ k ∈ ks, P k) →
      AllRel R (runRequests keyEq pol f c ks).1 (ks.map f) ∧
      Valid keyEq P f R (runRequests keyEq pol f c ks).2
  | [], c, hc, _ => ⟨trivial, hc⟩
  | k :: ks, c, hc, hP => by
    have h1 := lookup_valid keyEq pol hpol P f R hrefl respects c hc k (hP k List.mem_cons_self)
    have h2 := run_valid keyEq pol hpol P f R hrefl respects ks _ h1.2
      (fun k' hk' => hP k' (List.mem_cons_of_mem _ hk'))
    exact ⟨⟨h1.1, h2.1⟩, h2.2⟩

end Optyx.Py.LRU
