/-
  Optyx.Lemmas.State — the cache invariant of `Py.State.step` and the cache-free specification
  of every observation (helper lemmas of C13).  Core Lean only.
-/
import Optyx.Py.State

namespace Optyx.Py.State

variable {E : Type}

/-- every populated cache was computed from the current (objective, sense, constraints) -/
def CacheInv (s : PState E) : Prop :=
  (∀ m, s.variables = some m → m = s.model) ∧
  (∀ sc, s.solverCache = some sc → sc.src = s.model ∧ ∀ h, sc.hess = some h → h = s.model) ∧
  (∀ lc, s.lpCache = some lc → lc.src = s.model) ∧
  (∀ m, s.isLinear = some m → m = s.model)

/-- `t` is `s` with some caches (re)filled: same model, same bounds, invariant holds -/
structure Refill (s t : PState E) : Prop where
  inv : CacheInv t
  model : t.model = s.model
  bnd : t.bnd = s.bnd

theorem Refill.refl {s : PState E} (h : CacheInv s) : Refill s s := ⟨h, rfl, rfl⟩

theorem Refill.trans {s t u : PState E} (a : Refill s t) (b : Refill t u) : Refill s u :=
  ⟨b.inv, b.model.trans a.model, b.bnd.trans a.bnd⟩

theorem inv_fresh (m : Model E) (bnd : Nat → Bnd) : CacheInv (fresh m bnd) := by
  simp [CacheInv, fresh]

theorem inv_invalidate (s : PState E) : CacheInv (invalidate s) := by
  simp [CacheInv, invalidate]

/-! ### the getters under the invariant -/

theorem getVars_spec (ctx : Ctx E) {s : PState E} (h : CacheInv s) :
    (getVars ctx s).2 = s.model.vars ctx ∧ Refill s (getVars ctx s).1 := by
  obtain ⟨hv, hs, hl, hi⟩ := h
  unfold getVars
  cases hvar : s.variables with
  | some src =>
    have := hv src hvar
    subst this
    exact ⟨rfl, ⟨⟨hv, hs, hl, hi⟩, rfl, rfl⟩⟩
  | none =>
    refine ⟨rfl, ⟨⟨?_, hs, hl, hi⟩, rfl, rfl⟩⟩
    intro m hm
    simp at hm
    exact hm.symm

theorem getIsLinear_spec (ctx : Ctx E) {s : PState E} (h : CacheInv s) :
    (getIsLinear ctx s).2 = s.model.isLinear ctx ∧ Refill s (getIsLinear ctx s).1 := by
  obtain ⟨hv, hs, hl, hi⟩ := h
  unfold getIsLinear
  cases hlin : s.isLinear with
  | some src =>
    have := hi src hlin
    subst this
    exact ⟨rfl, ⟨⟨hv, hs, hl, hi⟩, rfl, rfl⟩⟩
  | none =>
    refine ⟨rfl, ⟨⟨hv, hs, hl, ?_⟩, rfl, rfl⟩⟩
    intro m hm
    simp at hm
    exact hm.symm

/-! ### cache-free specification of the observations -/

/-- what `solve_lp` hands to `linprog` when nothing is cached -/
def specLP (ctx : Ctx E) (m : Model E) (bnd : Nat → Bnd) (method : String) : Obs E :=
  if !(m.isLinear ctx) then .raised .nonLinear
  else .solved [.linprog method m (m.vars ctx) ((m.vars ctx).map bnd)]

def specCall (ctx : Ctx E) (m : Model E) (bnd : Nat → Bnd) (method : String) : Call E :=
  .minimize method m (if isHessianMethod method then some m else none) (m.vars ctx)
    ((m.vars ctx).map bnd) (isBoundsMethod method)

def specScipy (ctx : Ctx E) (m : Model E) (bnd : Nat → Bnd) (method : String) (viol : Bool) : Obs E :=
  if (m.vars ctx).isEmpty then .failedNoVars
  else if viol && method == "SLSQP" then
    .solved [specCall ctx m bnd method, specCall ctx m bnd "trust-constr"]
  else .solved [specCall ctx m bnd method]

def specSolve (ctx : Ctx E) (m : Model E) (bnd : Nat → Bnd) (method : String) (viol : Bool) : Obs E :=
  match m.obj with
  | none => .raised .noObjective
  | some _ =>
    if method == "auto" then
      if m.isLinear ctx then specLP ctx m bnd "highs"
      else specScipy ctx m bnd (autoSelect ctx m) viol
    else if method == "linprog" then specLP ctx m bnd "highs"
    else if method == "highs" || method == "highs-ds" || method == "highs-ipm" then specLP ctx m bnd method
    else specScipy ctx m bnd method viol

/-- the observation of every operation as a function of the current model and bounds only -/
def specObs (ctx : Ctx E) (m : Model E) (bnd : Nat → Bnd) : Op E → Obs E
  | .minimize _ | .maximize _ | .subjectTo _ | .subjectToList _ | .setLb _ _ | .setUb _ _ => .unit
  | .subjectToBad _ => .raised .constraintError
  | .solve method viol => specSolve ctx m bnd method viol
  | .readVariables => .vars (m.vars ctx)
  | .readNVariables => .nvars (m.vars ctx).length
  | .getBounds => .bounds ((m.vars ctx).map bnd)

theorem solveLP_spec (ctx : Ctx E) {s : PState E} (h : CacheInv s) (method : String) :
    (solveLP ctx s method).2 = specLP ctx s.model s.bnd method ∧ Refill s (solveLP ctx s method).1 := by
  unfold solveLP specLP
  by_cases hlin : s.model.isLinear ctx
  · simp only [hlin, Bool.not_true, Bool.false_eq_true, ↓reduceIte]
    obtain ⟨hvs, hr⟩ := getVars_spec ctx h
    generalize getVars ctx s = r at hvs hr ⊢
    obtain ⟨t, vs⟩ := r
    simp only at hvs hr ⊢
    subst hvs
    obtain ⟨⟨hv, hs, hl, hi⟩, hm, hb⟩ := hr
    rcases t with ⟨tm, tb, tv, tsc, tlc, til⟩
    simp only at hm hb hv hs hl hi ⊢
    subst hm hb
    cases tlc with
    | some lc =>
      have hsrc := hl lc rfl
      simp only [hsrc, true_and]
      refine ⟨⟨hv, hs, ?_, hi⟩, rfl, rfl⟩
      intro lc' hlc'
      simp at hlc'
      subst hlc'
      rfl
    | none =>
      simp only [true_and]
      refine ⟨⟨hv, hs, ?_, hi⟩, rfl, rfl⟩
      intro lc' hlc'
      simp at hlc'
      subst hlc'
      rfl
  · simp only [hlin, Bool.not_false, ↓reduceIte, true_and]
    exact Refill.refl h

theorem scipyOnce_spec (ctx : Ctx E) {s : PState E} (h : CacheInv s) (method : String) :
    (scipyOnce s (s.model.vars ctx) method).2 = specCall ctx s.model s.bnd method ∧
    Refill s (scipyOnce s (s.model.vars ctx) method).1 := by
  obtain ⟨hv, hs, hl, hi⟩ := h
  unfold scipyOnce specCall
  cases hsc : s.solverCache with
  | none =>
    by_cases hh : isHessianMethod method
    · simp only [hh, ↓reduceIte]
      refine ⟨by first | rfl | trivial, ⟨⟨hv, ?_, hl, hi⟩, rfl, rfl⟩⟩
      intro sc hsc'
      simp at hsc'
      subst hsc'
      simp
    · simp only [hh, Bool.false_eq_true, ↓reduceIte]
      refine ⟨by first | rfl | trivial, ⟨⟨hv, ?_, hl, hi⟩, rfl, rfl⟩⟩
      intro sc hsc'
      simp at hsc'
      subst hsc'
      simp
  | some sc =>
    obtain ⟨hsrc, hhess⟩ := hs sc hsc
    by_cases hh : isHessianMethod method
    · simp only [hh, ↓reduceIte]
      cases hhe : sc.hess with
      | none =>
        simp only [hsrc]
        refine ⟨by first | rfl | trivial, ⟨⟨hv, ?_, hl, hi⟩, rfl, rfl⟩⟩
        intro sc' hsc'
        simp at hsc'
        subst hsc'
        simp
      | some hm =>
        have := hhess hm hhe
        subst this
        simp only [hsrc]
        refine ⟨by first | rfl | trivial, ⟨⟨hv, ?_, hl, hi⟩, rfl, rfl⟩⟩
        intro sc' hsc'
        simp at hsc'
        subst hsc'
        simp
    · simp only [hh, Bool.false_eq_true, ↓reduceIte, hsrc]
      refine ⟨by first | rfl | trivial, ⟨⟨hv, ?_, hl, hi⟩, rfl, rfl⟩⟩
      intro sc' hsc'
      simp at hsc'
      subst hsc'
      simp only [true_and]
      exact hhess

theorem solveScipy_spec (ctx : Ctx E) {s : PState E} (h : CacheInv s) (method : String) (viol : Bool) :
    (solveScipy ctx s method viol).2 = specScipy ctx s.model s.bnd method viol ∧
    Refill s (solveScipy ctx s method viol).1 := by
  unfold solveScipy specScipy
  obtain ⟨hvs, hr⟩ := getVars_spec ctx h
  have hm := hr.model
  have hb := hr.bnd
  simp only [hvs]
  by_cases hemp : (s.model.vars ctx).isEmpty
  · simp only [hemp, ↓reduceIte, true_and]
    exact hr
  · simp only [hemp, Bool.false_eq_true, ↓reduceIte]
    have h1 := scipyOnce_spec ctx hr.inv method
    rw [hm, hb] at h1
    obtain ⟨hc1, hr1⟩ := h1
    by_cases hretry : (viol && method == "SLSQP") = true
    · simp only [hretry, ↓reduceIte]
      obtain ⟨hvs2, hr2⟩ := getVars_spec ctx hr1.inv
      have hm1 := hr1.model
      have hb1 := hr1.bnd
      rw [hvs2, hm1, hm]
      have h2 := scipyOnce_spec ctx hr1.inv "trust-constr"
      rw [hm1, hm, hb1, hb] at h2
      obtain ⟨hc2, hr3⟩ := h2
      refine ⟨by rw [hc1, hc2], ?_⟩
      exact (hr.trans hr1).trans ⟨hr3.inv, by rw [hr3.model], by rw [hr3.bnd]⟩
    · simp only [hretry, Bool.false_eq_true, ↓reduceIte]
      exact ⟨by rw [hc1], hr.trans hr1⟩

theorem solve_spec (ctx : Ctx E) {s : PState E} (h : CacheInv s) (method : String) (viol : Bool) :
    (solve ctx s method viol).2 = specSolve ctx s.model s.bnd method viol ∧
    Refill s (solve ctx s method viol).1 := by
  unfold solve specSolve
  cases hobj : s.model.obj with
  | none => exact ⟨rfl, Refill.refl h⟩
  | some o =>
    simp only
    by_cases hauto : (method == "auto") = true
    · simp only [hauto, ↓reduceIte]
      obtain ⟨hl, hr⟩ := getIsLinear_spec ctx h
      rw [hl]
      by_cases hlin : s.model.isLinear ctx
      · simp only [hlin, ↓reduceIte]
        have := solveLP_spec ctx hr.inv "highs"
        rw [hr.model, hr.bnd] at this
        exact ⟨this.1, hr.trans this.2⟩
      · simp only [hlin, Bool.false_eq_true, ↓reduceIte]
        rw [hr.model]
        have := solveScipy_spec ctx hr.inv (autoSelect ctx s.model) viol
        rw [hr.model, hr.bnd] at this
        exact ⟨this.1, hr.trans this.2⟩
    · simp only [hauto, Bool.false_eq_true, ↓reduceIte]
      by_cases hlp : (method == "linprog") = true
      · simp only [hlp, ↓reduceIte]
        exact solveLP_spec ctx h "highs"
      · simp only [hlp, Bool.false_eq_true, ↓reduceIte]
        by_cases hhi : (method == "highs" || method == "highs-ds" || method == "highs-ipm") = true
        · simp only [hhi, ↓reduceIte]
          exact solveLP_spec ctx h method
        · simp only [hhi, Bool.false_eq_true, ↓reduceIte]
          exact solveScipy_spec ctx h method viol

/-- the model and bounds after an operation, as a function of the model and bounds before it -/
def nextModel (m : Model E) : Op E → Model E
  | .minimize e => { m with obj := some e, sense := .minimize }
  | .maximize e => { m with obj := some e, sense := .maximize }
  | .subjectTo c => { m with cons := m.cons ++ [c] }
  | .subjectToList cs => { m with cons := m.cons ++ cs }
  | _ => m

def nextBnd (bnd : Nat → Bnd) : Op E → (Nat → Bnd)
  | .setLb v b => setLbF bnd v b
  | .setUb v b => setUbF bnd v b
  | _ => bnd

/-- one step under the invariant: observation = cache-free specification; the invariant is kept;
    model and bounds evolve independently of the caches -/
theorem step_spec (ctx : Ctx E) {s : PState E} (h : CacheInv s) (op : Op E) :
    (step ctx s op).2 = specObs ctx s.model s.bnd op ∧
    CacheInv (step ctx s op).1 ∧
    (step ctx s op).1.model = nextModel s.model op ∧
    (step ctx s op).1.bnd = nextBnd s.bnd op := by
  cases op with
  | minimize e => exact ⟨rfl, inv_invalidate _, rfl, rfl⟩
  | maximize e => exact ⟨rfl, inv_invalidate _, rfl, rfl⟩
  | subjectTo c => exact ⟨rfl, inv_invalidate _, rfl, rfl⟩
  | subjectToList cs => exact ⟨rfl, inv_invalidate _, rfl, rfl⟩
  | subjectToBad cs => exact ⟨rfl, h, rfl, rfl⟩
  | setLb v b => exact ⟨rfl, h, rfl, rfl⟩
  | setUb v b => exact ⟨rfl, h, rfl, rfl⟩
  | solve method viol =>
    obtain ⟨ho, hr⟩ := solve_spec ctx h method viol
    exact ⟨ho, hr.inv, hr.model, hr.bnd⟩
  | readVariables =>
    obtain ⟨hvs, hr⟩ := getVars_spec ctx h
    exact ⟨by simp [step, specObs, hvs], hr.inv, hr.model, hr.bnd⟩
  | readNVariables =>
    obtain ⟨hvs, hr⟩ := getVars_spec ctx h
    exact ⟨by simp [step, specObs, hvs], hr.inv, hr.model, hr.bnd⟩
  | getBounds =>
    obtain ⟨hvs, hr⟩ := getVars_spec ctx h
    exact ⟨by simp [step, specObs, hvs, hr.bnd], hr.inv, hr.model, hr.bnd⟩

theorem run_inv (ctx : Ctx E) (ops : List (Op E)) {s : PState E} (h : CacheInv s) : CacheInv (run ctx s ops).1 := by
  induction ops generalizing s with
  | nil => exact h
  | cons op ops ih => exact ih (step_spec ctx h op).2.1

end Optyx.Py.State
