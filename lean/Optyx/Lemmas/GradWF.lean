/-
  Optyx.Lemmas.GradWF — symbolic differentiation preserves API well-formedness:
  `WF e → WF (Py.grad v e)`  (needed to differentiate a second time, C17).
-/
import Optyx.Lemmas.Regular
import Optyx.Py.Grad

namespace Optyx
open Optyx.Generated Optyx.Py

theorem WF_c (q : Rat) : WF (Expr.c q) := by simp [Expr.c, WF]

theorem WF_sNeg {e : Expr} (h : WF e) : WF (sNeg e) := by
  unfold sNeg
  split
  · exact WF_c 0
  · split
    · simpa [WF] using h
    · simpa [WF] using h

theorem WF_sAdd {a b : Expr} (ha : WF a) (hb : WF b) : WF (sAdd a b) := by
  unfold sAdd; split
  · exact hb
  · split
    · exact ha
    · exact ⟨ha, hb⟩

theorem WF_sSub {a b : Expr} (ha : WF a) (hb : WF b) : WF (sSub a b) := by
  unfold sSub; split
  · exact ha
  · split
    · exact WF_sNeg hb
    · exact ⟨ha, hb⟩

theorem WF_sMul {a b : Expr} (ha : WF a) (hb : WF b) : WF (sMul a b) := by
  unfold sMul; split
  · exact WF_c 0
  · split
    · exact hb
    · split
      · exact ha
      · exact ⟨ha, hb⟩

theorem WF_sDiv {a b : Expr} (ha : WF a) (hb : WF b) : WF (sDiv a b) := by
  unfold sDiv; split
  · exact WF_c 0
  · split
    · exact ha
    · exact ⟨ha, hb⟩

theorem WF_sPow {a b : Expr} (ha : WF a) (hb : WF b) : WF (sPow a b) := by
  unfold sPow; split
  · exact WF_c 1
  · split
    · exact ha
    · split
      · exact WF_c 0
      · split
        · exact WF_c 1
        · exact ⟨ha, hb⟩

theorem WF_un {op : UnOp} {a : Expr} (h : WF a) : WF (.un op a) := h
theorem WF_bin {op : BinOp} {a b : Expr} (ha : WF a) (hb : WF b) : WF (.bin op a b) := ⟨ha, hb⟩

theorem WF_binaryRule (op : BinOp) {l r dl dr : Expr} (hl : WF l) (hr : WF r) (hdl : WF dl) (hdr : WF dr) :
    WF (binaryRule op l r dl dr (.bin op l r)) := by
  have hself : WF (.bin op l r) := ⟨hl, hr⟩
  cases op with
  | add => exact WF_sAdd hdl hdr
  | sub => exact WF_sSub hdl hdr
  | mul => exact WF_sAdd (WF_sMul hl hdr) (WF_sMul hr hdl)
  | div => exact WF_sDiv (WF_sSub (WF_sMul hr hdl) (WF_sMul hl hdr)) (WF_sMul hr hr)
  | pow =>
    simp only [binaryRule]
    split
    · split
      · exact WF_c 0
      · split
        · exact hdl
        · exact WF_sMul (WF_sMul (WF_c _) (WF_sPow hl (WF_c _))) hdl
    · exact WF_sMul hself (WF_sAdd (WF_sMul hdr (WF_un hl)) (WF_sDiv (WF_sMul hr hdl) hl))

theorem WF_unaryRule (op : UnOp) {a da : Expr} (ha : WF a) (hda : WF da) :
    WF (unaryRule op a da (.un op a)) := by
  have hself : WF (.un op a) := ha
  have h1 : WF (Expr.c 1) := WF_c 1
  have h2 : WF (Expr.c 2) := WF_c 2
  cases op <;> simp only [unaryRule]
  · exact WF_sNeg hda
  · exact WF_sMul (WF_sDiv ha hself) hda
  · exact WF_sMul (WF_un ha) hda
  · exact WF_sMul (WF_sNeg (WF_un ha)) hda
  · exact WF_sMul (WF_sDiv h1 (WF_sMul (WF_un ha) (WF_un ha))) hda
  · exact WF_sMul hself hda
  · exact WF_sMul (WF_sDiv h1 ha) hda
  · exact WF_sMul (WF_sDiv h1 (WF_sMul ha (by simp [WF]))) hda
  · exact WF_sMul (WF_sDiv h1 (WF_sMul ha (by simp [WF]))) hda
  · exact WF_sMul (WF_sDiv h1 (WF_sMul h2 hself)) hda
  · exact WF_sMul (WF_sSub h1 (WF_sMul hself hself)) hda
  · exact WF_sMul (WF_un ha) hda
  · exact WF_sMul (WF_un ha) hda
  · exact WF_sMul (WF_sDiv h1 (WF_un (WF_sSub h1 (WF_sMul ha ha)))) hda
  · exact WF_sMul (WF_sNeg (WF_sDiv h1 (WF_un (WF_sSub h1 (WF_sMul ha ha))))) hda
  · exact WF_sMul (WF_sDiv h1 (WF_sAdd h1 (WF_sMul ha ha))) hda
  · exact WF_sMul (WF_sDiv h1 (WF_un (WF_sAdd h1 (WF_sMul ha ha)))) hda
  · exact WF_sMul (WF_sDiv h1 (WF_un (WF_sSub (WF_sMul ha ha) h1))) hda
  · exact WF_sMul (WF_sDiv h1 (WF_sSub h1 (WF_sMul ha ha))) hda

/-- every element of a list is well-formed -/
def AllWF (l : List Expr) : Prop := ∀ e ∈ l, WF e

theorem AllWF_toList : (es : ExprList) → WFList es → AllWF es.toList
  | .nil, _ => by intro e he; simp [ExprList.toList] at he
  | .cons e t, h => by
    intro e' he'
    simp only [ExprList.toList, List.mem_cons] at he'
    rcases he' with rfl | he'
    · exact h.1
    · exact AllWF_toList t h.2 e' he'

theorem AllWF_elems {v : Vec} (h : WFVec v) : AllWF (Vec.elems v) := by
  cases v with
  | vars vv => intro e he; simp only [Vec.elems, List.mem_map] at he; obtain ⟨y, _, rfl⟩ := he; simp [WF]
  | exprs es => exact AllWF_toList es h

theorem WF_foldl {α : Type} (f : Expr → α → Expr) (l : List α) (acc : Expr) (hacc : WF acc)
    (hf : ∀ a x, WF a → x ∈ l → WF (f a x)) : WF (l.foldl f acc) := by
  induction l generalizing acc with
  | nil => exact hacc
  | cons x t ih =>
    exact ih (f acc x) (hf acc x hacc (by simp)) (fun a y ha hy => hf a y ha (by simp [hy]))

theorem WF_getD {l : List Expr} (h : AllWF l) (i : Nat) : WF (l.getD i (Expr.c 0)) := by
  by_cases hi : i < l.length
  · have : l.getD i (Expr.c 0) = l[i] := by simp [List.getD_eq_getElem?_getD, hi]
    rw [this]; exact h _ (List.getElem_mem hi)
  · have : l.getD i (Expr.c 0) = Expr.c 0 := by simp [List.getD_eq_getElem?_getD, hi]
    rw [this]; exact WF_c 0

/-! ### vector rules -/

theorem mem_zip_snd {α β : Type} {a : List α} {b : List β} {p : α × β} (h : p ∈ a.zip b) : p.2 ∈ b :=
  (List.of_mem_zip h).2
theorem mem_zip_fst {α β : Type} {a : List α} {b : List β} {p : α × β} (h : p ∈ a.zip b) : p.1 ∈ a :=
  (List.of_mem_zip h).1

theorem WF_linCombRule (wrt : Var) (cs : List Rat) (v : Vec) (dv : List Expr) (hd : AllWF dv) :
    WF (linCombRule wrt cs v dv) := by
  cases v with
  | vars vv =>
    simp only [linCombRule]
    cases findName wrt.name vv.vars <;> exact WF_c _
  | exprs es =>
    simp only [linCombRule]
    exact WF_foldl _ _ _ (WF_c 0) (fun a x ha hx => WF_sAdd ha (WF_sMul (WF_c _) (hd _ (mem_zip_snd hx))))

theorem WF_exprSumRule (dv : List Expr) (hd : AllWF dv) : WF (exprSumRule dv) :=
  WF_foldl _ _ _ (WF_c 0) (fun a x ha hx => WF_sAdd ha (hd _ hx))

theorem WF_dotRule (wrt : Var) (l r : Vec) (dl dr : List Expr) (hl : WFVec l) (hr : WFVec r)
    (hdl : AllWF dl) (hdr : AllWF dr) : WF (dotRule wrt l r dl dr) := by
  have hel := AllWF_elems hl
  have her := AllWF_elems hr
  have general : WF ((((Vec.elems l).zip (Vec.elems r)).zip (dl.zip dr)).foldl
      (fun acc (p : (Expr × Expr) × (Expr × Expr)) =>
        sAdd acc (sAdd (sMul p.1.1 p.2.2) (sMul p.1.2 p.2.1))) (Expr.c 0)) := by
    refine WF_foldl _ _ _ (WF_c 0) ?_
    intro a p ha hp
    have h1 := mem_zip_fst hp
    have h2 := mem_zip_snd hp
    exact WF_sAdd ha (WF_sAdd (WF_sMul (hel _ (mem_zip_fst h1)) (hdr _ (mem_zip_snd h2)))
      (WF_sMul (her _ (mem_zip_snd h1)) (hdl _ (mem_zip_fst h2))))
  cases l with
  | exprs les => cases r <;> simpa only [dotRule] using general
  | vars lv =>
    cases r with
    | exprs res => simpa only [dotRule] using general
    | vars rv =>
      simp only [dotRule]
      cases findName wrt.name lv.vars <;> cases findName wrt.name rv.vars <;> simp only
      · exact WF_c 0
      · exact WF_getD hel _
      · exact WF_getD her _
      · split
        · exact WF_sMul (WF_c 2) (by simp [WF])
        · exact WF_sAdd (WF_getD her _) (WF_getD hel _)

theorem WF_l2Rule (wrt : Var) (v : Vec) (dv : List Expr) (hv : WFVec v) (hd : AllWF dv) :
    WF (l2Rule wrt v dv (.l2 v)) := by
  have hself : WF (.l2 v) := hv
  cases v with
  | vars vv =>
    simp only [l2Rule]; split
    · exact WF_sDiv (by simp [WF]) hself
    · exact WF_c 0
  | exprs es =>
    simp only [l2Rule]
    exact WF_foldl _ _ _ (WF_c 0) (fun a p ha hp =>
      WF_sAdd ha (WF_sMul (WF_sDiv (AllWF_toList es hv _ (mem_zip_fst hp)) hself) (hd _ (mem_zip_snd hp))))

theorem WF_l1Rule (wrt : Var) (v : Vec) (dv : List Expr) (hv : WFVec v) (hd : AllWF dv) :
    WF (l1Rule wrt v dv) := by
  cases v with
  | vars vv =>
    simp only [l1Rule]; split
    · exact WF_sDiv (by simp [WF]) (by simp [WF])
    · exact WF_c 0
  | exprs es =>
    simp only [l1Rule]
    exact WF_foldl _ _ _ (WF_c 0) (fun a p ha hp =>
      have he := AllWF_toList es hv _ (mem_zip_fst hp)
      WF_sAdd ha (WF_sMul (WF_sDiv he (WF_un he)) (hd _ (mem_zip_snd hp))))

theorem WF_quadInner (row : List Rat) (elems : List Expr) (he : AllWF elems) : WF (quadInner row elems) := by
  unfold quadInner
  refine WF_foldl _ _ _ (WF_c 0) ?_
  intro a p ha hp
  split
  · exact WF_sAdd ha (WF_sMul (WF_c _) (he _ (mem_zip_snd hp)))
  · exact ha

theorem qsym_rows (q : List (List Rat)) : (qsym q).length = q.length ∧ ∀ row ∈ qsym q, row.length = q.length := by
  constructor
  · simp [qsym]
  · intro row hr
    simp only [qsym, List.mem_map, List.mem_range] at hr
    obtain ⟨i, _, rfl⟩ := hr
    simp

theorem findName_lt' {x : String} {vs : List Var} {i : Nat} (h : findName x vs = some i) :
    i < vs.length := by
  induction vs generalizing i with
  | nil => simp [findName] at h
  | cons y t ih =>
    unfold findName at h
    by_cases hy : (y.name == x) = true
    · simp [hy] at h; subst h; simp
    · simp only [hy, Bool.false_eq_true, ite_false, Option.map_eq_some_iff] at h
      obtain ⟨j, hj, rfl⟩ := h
      simpa using ih hj

theorem WF_quadRule (wrt : Var) (v : Vec) (q : List (List Rat)) (dv : List Expr)
    (hwf : WF (.quad v q)) (hd : AllWF dv) : WF (quadRule wrt v q dv) := by
  obtain ⟨hv, hql, _⟩ := hwf
  cases v with
  | vars vv =>
    simp only [quadRule]
    cases hf : findName wrt.name vv.vars with
    | none => exact WF_c 0
    | some i =>
      simp only
      refine ⟨hv, ?_⟩
      have hi : i < (qsym q).length := by
        rw [(qsym_rows q).1, hql]
        exact findName_lt' hf
      have : (qsym q).getD i [] ∈ qsym q := by
        simp [List.getD_eq_getElem?_getD, List.getElem?_eq_getElem hi]
      rw [(qsym_rows q).2 _ this, hql]
  | exprs es =>
    simp only [quadRule]
    exact WF_foldl _ _ _ (WF_c 0) (fun a p ha hp =>
      WF_sAdd ha (WF_sMul (WF_quadInner _ _ (AllWF_toList es hv)) (hd _ (mem_zip_snd hp))))

theorem WF_powSumRule (wrt : Var) (v : VVar) (k : Rat) : WF (powSumRule wrt v k) := by
  unfold powSumRule
  split
  · split
    · exact WF_c 1
    · split <;> simp [WF, Expr.c]
  · exact WF_c 0

theorem WF_unSumRule (wrt : Var) (v : VVar) (op : VOp) : WF (unSumRule wrt v op) := by
  unfold unSumRule
  split
  · cases op <;> simp [unSumDeriv, WF, Expr.c]
  · exact WF_c 0

theorem WF_frobRule (wrt : Var) (m : MVar) : WF (frobRule wrt m (.frob m)) := by
  unfold frobRule
  simp only
  split
  · exact WF_c 0
  · exact WF_sDiv (WF_sMul (WF_c _) (by simp [WF])) (by simp [WF])

mutual
theorem grad_wf (wrt : Var) : (e : Expr) → WF e → WF (grad wrt e)
  | .const _, _ => WF_c 0
  | .param _, _ => WF_c 0
  | .var v, _ => by simp only [grad]; split <;> exact WF_c _
  | .bin op l r, h => by
    simp only [grad]; exact WF_binaryRule op h.1 h.2 (grad_wf wrt l h.1) (grad_wf wrt r h.2)
  | .un op a, h => by simp only [grad]; exact WF_unaryRule op h (grad_wf wrt a h)
  | .linComb cs v, h => by simp only [grad]; exact WF_linCombRule wrt cs v _ (gradVec_wf wrt v h.1)
  | .vecSum v, _ => by simp only [grad, vecSumRule]; split <;> exact WF_c _
  | .exprSum es, h => by simp only [grad]; exact WF_exprSumRule _ (gradList_wf wrt es h)
  | .dot l r, h => by
    simp only [grad]
    exact WF_dotRule wrt l r _ _ h.1 h.2.1 (gradVec_wf wrt l h.1) (gradVec_wf wrt r h.2.1)
  | .l2 v, h => by simp only [grad]; exact WF_l2Rule wrt v _ h (gradVec_wf wrt v h)
  | .l1 v, h => by simp only [grad]; exact WF_l1Rule wrt v _ h (gradVec_wf wrt v h)
  | .quad v q, h => by simp only [grad]; exact WF_quadRule wrt v q _ h (gradVec_wf wrt v h.1)
  | .powSum v k, _ => by simp only [grad]; exact WF_powSumRule wrt v k
  | .unSum v op, _ => by simp only [grad]; exact WF_unSumRule wrt v op
  | .matSumV m, _ => by simp only [grad, matSumVRule]; exact WF_c _
  | .matSumE es, h => by simp only [grad]; exact WF_exprSumRule _ (gradList_wf wrt es h)
  | .frob m, _ => by simp only [grad]; exact WF_frobRule wrt m
theorem gradVec_wf (wrt : Var) : (v : Vec) → WFVec v → AllWF (gradVec wrt v)
  | .vars vv, _ => by
    intro e he
    simp only [gradVec, List.mem_map] at he
    obtain ⟨y, _, rfl⟩ := he
    split <;> exact WF_c _
  | .exprs es, h => by simpa [gradVec] using gradList_wf wrt es h
theorem gradList_wf (wrt : Var) : (es : ExprList) → WFList es → AllWF (gradList wrt es)
  | .nil, _ => by intro e he; simp [gradList] at he
  | .cons e t, h => by
    intro e' he'
    simp only [gradList, List.mem_cons] at he'
    rcases he' with rfl | he'
    · exact grad_wf wrt e h.1
    · exact gradList_wf wrt t h.2 e' he'
end

end Optyx
