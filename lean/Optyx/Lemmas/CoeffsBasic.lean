/-
  Optyx.Lemmas.CoeffsBasic — list-level facts used by the C05 proofs: the name → index map,
  in-place accumulation into the coefficient array, the two vector-variable loops, and the
  spec predicate `VarsIn` (every variable of the expression is a problem variable).
-/
import Optyx.Lemmas.Real
import Optyx.Py.Coeffs

namespace Optyx
open NumAlg Optyx.Py

/-! ### spec predicates -/

def namesIn (V : List String) (vs : List Var) : Bool := vs.all fun v => V.contains v.name

mutual
/-- every variable name occurring in the expression is a member of `V` -/
def varsIn (V : List String) : Expr → Bool
  | .const _ => true
  | .var v => V.contains v.name
  | .param _ => true
  | .bin _ l r => varsIn V l && varsIn V r
  | .un _ a => varsIn V a
  | .linComb _ v => varsInVec V v
  | .vecSum vv => namesIn V vv.vars
  | .exprSum es => varsInList V es
  | .dot l r => varsInVec V l && varsInVec V r
  | .l2 v => varsInVec V v
  | .l1 v => varsInVec V v
  | .quad v _ => varsInVec V v
  | .powSum vv _ => namesIn V vv.vars
  | .unSum vv _ => namesIn V vv.vars
  | .matSumV m => namesIn V m.flat
  | .matSumE es => varsInList V es
  | .frob m => namesIn V m.flat
def varsInVec (V : List String) : Vec → Bool
  | .vars vv => namesIn V vv.vars
  | .exprs es => varsInList V es
def varsInList (V : List String) : ExprList → Bool
  | .nil => true
  | .cons e t => varsIn V e && varsInList V t
end

def VarsIn (V : List String) (e : Expr) : Prop := varsIn V e = true

/-! ### `Except` plumbing -/

theorem bind_ok {ε α β : Type} {x : Except ε α} {f : α → Except ε β} {b : β} :
    (x >>= f) = .ok b ↔ ∃ a, x = .ok a ∧ f a = .ok b := by
  cases x <;> simp [bind, Except.bind]

theorem pure_ok {ε α : Type} {a b : α} : (pure a : Except ε α) = .ok b ↔ a = b := by
  simp [pure, Except.pure]

theorem ratDiv_ok {x q y : Rat} (h : ratDiv x q = .ok y) : q ≠ 0 ∧ y = x / q := by
  unfold ratDiv at h
  split at h
  · simp at h
  · rename_i hq
    simp only [Except.ok.injEq] at h
    exact ⟨by simpa using hq, h.symm⟩

/-! ### the name → index dictionary -/

theorem varIndexFrom_some (x : String) : ∀ (t : List String) (i : Nat) (acc : Option Nat) (j : Nat),
    varIndexFrom t i acc x = some j → acc = some j ∨ (i ≤ j ∧ t[j - i]? = some x)
  | [], i, acc, j, h => by simp [varIndexFrom] at h; exact Or.inl h
  | v :: t, i, acc, j, h => by
    simp only [varIndexFrom] at h
    rcases varIndexFrom_some x t (i + 1) _ j h with h1 | ⟨h1, h2⟩
    · by_cases hv : (v == x) = true
      · simp only [hv, if_true, Option.some.injEq] at h1
        subst h1
        right
        have : v = x := by simpa using hv
        simp [this]
      · simp only [hv] at h1
        exact Or.inl (by simpa using h1)
    · right
      refine ⟨by omega, ?_⟩
      have : j - i = (j - (i + 1)) + 1 := by omega
      rw [this]
      simpa using h2

theorem varIndex_some {V : List String} {x : String} {j : Nat} (h : varIndex V x = some j) :
    V[j]? = some x := by
  rcases varIndexFrom_some x V 0 none j h with h1 | ⟨_, h2⟩
  · simp at h1
  · simpa using h2

theorem varIndexFrom_isSome (x : String) : ∀ (t : List String) (i : Nat) (acc : Option Nat),
    (x ∈ t ∨ acc.isSome = true) → (varIndexFrom t i acc x).isSome = true
  | [], i, acc, h => by
    rcases h with h | h
    · simp at h
    · simpa [varIndexFrom] using h
  | v :: t, i, acc, h => by
    simp only [varIndexFrom]
    apply varIndexFrom_isSome x t (i + 1)
    by_cases hv : v = x
    · right; simp [hv]
    · rcases h with h | h
      · left
        rcases List.mem_cons.mp h with h | h
        · exact absurd h.symm hv
        · exact h
      · right
        have : (v == x) = false := by simpa using hv
        simpa [this] using h

theorem varIndex_of_mem {V : List String} {x : String} (h : x ∈ V) : ∃ j, varIndex V x = some j := by
  have := varIndexFrom_isSome x V 0 none (Or.inl h)
  exact Option.isSome_iff_exists.mp this

/-! ### `result[i] += q` -/

theorem addAt_length : ∀ (r : List Rat) (i : Nat) (q : Rat), (addAt r i q).length = r.length
  | [], _, _ => rfl
  | _ :: _, 0, _ => rfl
  | a :: t, i + 1, q => by simp [addAt, addAt_length t i q]

theorem wsum_addAt : ∀ (r : List Rat) (xs : List ℝ) (i : Nat) (q : Rat) (x : ℝ),
    r.length = xs.length → xs[i]? = some x →
    wsum (addAt r i q) xs = wsum r xs + (q : ℝ) * x
  | [], [], i, q, x, _, h => by simp at h
  | [], _ :: _, _, _, _, hl, _ => by simp at hl
  | _ :: _, [], _, _, _, hl, _ => by simp at hl
  | a :: t, y :: ys, 0, q, x, _, h => by
    have : y = x := by simpa using h
    subst this
    simp only [addAt, wsum_cons]; push_cast; ring
  | a :: t, y :: ys, i + 1, q, x, hl, h => by
    have hl' : t.length = ys.length := by simpa using hl
    have h' : ys[i]? = some x := by simpa using h
    simp only [addAt, wsum_cons, wsum_addAt t ys i q x hl' h']; ring

theorem mem_of_contains {V : List String} {x : String} (h : V.contains x = true) : x ∈ V := by
  simpa using h

theorem addName_length (V : List String) (r : List Rat) (x : String) (q : Rat) :
    (addName V r x q).length = r.length := by
  unfold addName
  split
  · exact addAt_length _ _ _
  · rfl

theorem wsum_addName {V : List String} {r : List Rat} {x : String} (q : Rat) (ρ : String → ℝ)
    (hx : x ∈ V) (hl : r.length = V.length) :
    wsum (addName V r x q) (V.map ρ) = wsum r (V.map ρ) + (q : ℝ) * ρ x := by
  obtain ⟨j, hj⟩ := varIndex_of_mem hx
  have hv := varIndex_some hj
  unfold addName
  rw [hj]
  exact wsum_addAt r (V.map ρ) j q (ρ x) (by simpa using hl) (by simp [hv])

/-! ### the two loops over a `VectorVariable` -/

theorem walkVars_spec (V : List String) (ρ : String → ℝ) : ∀ (vs : List Var) (r : List Rat) (m : Rat),
    namesIn V vs = true → r.length = V.length →
    (walkVars V vs r m).length = V.length ∧
    wsum (walkVars V vs r m) (V.map ρ) = wsum r (V.map ρ) + (m : ℝ) * NumAlg.sum (valsOf ρ vs)
  | [], r, m, _, hl => by simp [walkVars, valsOf, hl]
  | v :: vs, r, m, hn, hl => by
    simp only [namesIn, List.all_cons, Bool.and_eq_true] at hn
    have hx := mem_of_contains hn.1
    have hl1 : (addName V r v.name m).length = V.length := by rw [addName_length]; exact hl
    obtain ⟨h1, h2⟩ := walkVars_spec V ρ vs (addName V r v.name m) m (by simpa [namesIn] using hn.2) hl1
    refine ⟨by simpa [walkVars] using h1, ?_⟩
    simp only [walkVars, h2, wsum_addName m ρ hx hl, valsOf, List.map_cons, sum_cons]
    ring

theorem walkLcVars_spec (V : List String) (ρ : String → ℝ) :
    ∀ (vs : List Var) (cs : List Rat) (r : List Rat) (m : Rat) (r' : List Rat),
    namesIn V vs = true → r.length = V.length → walkLcVars V vs cs r m = .ok r' →
    r'.length = V.length ∧
    wsum r' (V.map ρ) = wsum r (V.map ρ) + (m : ℝ) * wsum cs (valsOf ρ vs)
  | [], cs, r, m, r', _, hl, h => by
    simp only [walkLcVars, Except.ok.injEq] at h; subst h
    simp [valsOf, hl]
  | v :: vs, cs, r, m, r', hn, hl, h => by
    simp only [namesIn, List.all_cons, Bool.and_eq_true] at hn
    have hx := mem_of_contains hn.1
    obtain ⟨j, hj⟩ := varIndex_of_mem hx
    have hv := varIndex_some hj
    simp only [walkLcVars, hj] at h
    cases cs with
    | nil => simp at h
    | cons c cs' =>
      simp only at h
      have hl1 : (addAt r j (c * m)).length = V.length := by rw [addAt_length]; exact hl
      obtain ⟨h1, h2⟩ := walkLcVars_spec V ρ vs cs' (addAt r j (c * m)) m r' (by simpa [namesIn] using hn.2) hl1 h
      refine ⟨h1, ?_⟩
      rw [h2, wsum_addAt r (V.map ρ) j (c * m) (ρ v.name) (by simpa using hl) (by simp [hv])]
      simp only [valsOf, List.map_cons, wsum_cons]
      push_cast; ring

/-! ### zero row -/

theorem wsum_replicate_zero (n : Nat) : ∀ (xs : List ℝ), wsum (List.replicate n (0 : Rat)) xs = 0 := by
  induction n with
  | zero => intro xs; simp
  | succ n ih =>
    intro xs
    cases xs with
    | nil => simp
    | cons x xs => simp [List.replicate_succ, ih xs]

end Optyx
