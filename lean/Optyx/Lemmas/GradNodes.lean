/-
  Optyx.Lemmas.GradNodes — one lemma per node kind: given the derivatives of the children
  (induction hypotheses), the node's regenerated / modelled rule denotes the derivative of
  the node.  `Props/C02.lean` glues them by mutual structural induction.
-/
import Optyx.Lemmas.GradVars

namespace Optyx
open NumAlg Optyx.Generated Optyx.Py

variable (ρ : String → ℝ) (σ : Nat → ℝ) (x : String)

/-- the expression as a function of the coordinate `x` (all other coordinates fixed by `ρ`) -/
noncomputable def F (e : Expr) : ℝ → ℝ := fun t => denote (upd ρ x t) σ e

noncomputable def FList : ExprList → List (ℝ → ℝ)
  | .nil => []
  | .cons e t => F ρ σ x e :: FList t

noncomputable def FVec : Vec → List (ℝ → ℝ)
  | .vars v => varFns ρ x v.vars
  | .exprs es => FList ρ σ x es

local notation "⟪" e "⟫" => denote ρ σ e

theorem F_at (e : Expr) : F ρ σ x e (ρ x) = ⟪e⟫ := by simp [F]

theorem at_FList : (es : ExprList) → (t : ℝ) →
    at_ (FList ρ σ x es) t = denoteList (upd ρ x t) σ es
  | .nil, t => by simp [FList, denoteList]
  | .cons e t', t => by simp [FList, denoteList, F, at_FList t' t]

theorem at_FVec (v : Vec) (t : ℝ) : at_ (FVec ρ σ x v) t = denoteVec (upd ρ x t) σ v := by
  cases v with
  | vars vv => simp [FVec, denoteVec, at_varFns]
  | exprs es => simp [FVec, denoteVec, at_FList]

theorem at_FVec_self (v : Vec) : at_ (FVec ρ σ x v) (ρ x) = denoteVec ρ σ v := by
  rw [at_FVec]; simp

/-! ### leaves -/

theorem const_case (c : Cst) : HasDerivAt (F ρ σ x (.const c)) ⟪Expr.c 0⟫ (ρ x) := by
  unfold F; simpa [denote] using hasDerivAt_const (ρ x) (cst c : ℝ)

theorem param_case (p : Par) : HasDerivAt (F ρ σ x (.param p)) ⟪Expr.c 0⟫ (ρ x) := by
  unfold F; simpa [denote] using hasDerivAt_const (ρ x) (σ p.oid)

theorem var_case (v : Var) :
    HasDerivAt (F ρ σ x (.var v)) ⟪if v.name == x then Expr.c 1 else Expr.c 0⟫ (ρ x) := by
  have := hasDerivAt_coord ρ x v.name
  unfold F
  by_cases h : v.name = x <;> simpa [denote, h] using this

/-! ### binary operators (rule templates regenerated from `_gradient_cached`) -/

theorem bin_case (op : BinOp) (l r dl dr : Expr)
    (hl : HasDerivAt (F ρ σ x l) ⟪dl⟫ (ρ x)) (hr : HasDerivAt (F ρ σ x r) ⟪dr⟫ (ρ x))
    (hreg : Regular ρ σ (.bin op l r)) :
    HasDerivAt (F ρ σ x (.bin op l r)) ⟪binaryRule op l r dl dr (.bin op l r)⟫ (ρ x) := by
  have el := F_at ρ σ x l
  have er := F_at ρ σ x r
  cases op with
  | add =>
    refine (hl.fun_add hr).congr_deriv ?_
    simp [binaryRule]
  | sub =>
    refine (hl.fun_sub hr).congr_deriv ?_
    simp [binaryRule]
  | mul =>
    refine (hl.fun_mul hr).congr_deriv ?_
    simp [binaryRule, el, er]; ring
  | div =>
    obtain ⟨_, _, hne⟩ := hreg
    refine (hl.fun_div hr (by rw [er]; exact hne)).congr_deriv ?_
    simp [binaryRule, el, er]; ring
  | pow =>
    obtain ⟨_, _, hp⟩ := hreg
    simp only [binaryRule]
    split
    next _ n _ =>
      -- literal exponent
      have hF : F ρ σ x (.bin .pow l (.const (.rat n))) = fun t => (F ρ σ x l t) ^ (n:ℝ) := by
        funext t; simp [F, denote]
      rw [hF]
      simp only at hp
      by_cases h0 : n = 0
      · subst h0
        simpa using hasDerivAt_const (ρ x) (1:ℝ)
      · by_cases h1 : n = 1
        · subst h1
          simpa using hl
        · have hpr : powReg n ⟪l⟫ := by
            rcases hp with h | h | h
            · exact absurd h h0
            · exact absurd h h1
            · exact h
          have hcond : ⟪l⟫ ≠ 0 ∨ (1:ℝ) ≤ (n:ℝ) := by
            by_cases hd : n.den = 1
            · rcases hpr.1 hd with h | h
              · exact Or.inl h
              · exact Or.inr (by exact_mod_cast h)
            · exact Or.inl (hpr.2 hd).ne'
          have := (Real.hasDerivAt_rpow_const (p := (n:ℝ)) (x := F ρ σ x l (ρ x))
            (by rw [el]; exact hcond)).comp (ρ x) hl
          refine this.congr_deriv ?_
          simp [h0, h1, denote_sPow_lit, el]
    next hnot =>
      -- general exponent: a^b * (b' * ln a + b * a' / a)
      have hpos : 0 < ⟪l⟫ := by
        cases r with
        | const c =>
          cases c with
          | rat k => exact (hnot k rfl).elim
          | _ => exact hp
        | _ => exact hp
      have hF : F ρ σ x (.bin .pow l r) = fun t => (F ρ σ x l t) ^ (F ρ σ x r t) := by
        funext t; simp [F, denote]
      rw [hF]
      have := hl.rpow hr (by rw [el]; exact hpos)
      refine this.congr_deriv ?_
      simp only [el, er, denote_sMul, denote_sAdd, denote_sDiv, denote, binop_pow, unop_log]
      rw [Real.rpow_sub_one hpos.ne']
      field_simp
      ring

/-! ### unary functions (rule templates regenerated from `_gradient_cached`) -/

theorem un_case (op : UnOp) (a da : Expr)
    (ha : HasDerivAt (F ρ σ x a) ⟪da⟫ (ρ x)) (hreg : Regular ρ σ (.un op a)) :
    HasDerivAt (F ρ σ x (.un op a)) ⟪unaryRule op a da (.un op a)⟫ (ρ x) := by
  have ea := F_at ρ σ x a
  obtain ⟨_, hc⟩ := hreg
  have hF : F ρ σ x (.un op a) = fun t => unop op (F ρ σ x a t) := by
    funext t; simp [F, denote]
  rw [hF]
  rw [← ea] at hc
  cases op with
  | neg =>
    refine ha.fun_neg.congr_deriv ?_
    simp [unaryRule]
  | abs =>
    have := (Deriv.d_abs (x := F ρ σ x a (ρ x)) hc).comp (ρ x) ha
    refine this.congr_deriv ?_
    simp [unaryRule, ea, denote]
  | sin =>
    have := (Real.hasDerivAt_sin (F ρ σ x a (ρ x))).comp (ρ x) ha
    refine this.congr_deriv ?_
    simp [unaryRule, ea, denote]
  | cos =>
    have := (Real.hasDerivAt_cos (F ρ σ x a (ρ x))).comp (ρ x) ha
    refine this.congr_deriv ?_
    simp [unaryRule, ea, denote]
  | tan =>
    have := (Deriv.d_tan (x := F ρ σ x a (ρ x)) hc).comp (ρ x) ha
    refine this.congr_deriv ?_
    simp [unaryRule, ea, denote]
  | exp =>
    have := (Real.hasDerivAt_exp (F ρ σ x a (ρ x))).comp (ρ x) ha
    refine this.congr_deriv ?_
    simp [unaryRule, ea, denote]
  | log =>
    have := (Deriv.d_log (x := F ρ σ x a (ρ x)) hc).comp (ρ x) ha
    refine this.congr_deriv ?_
    simp [unaryRule, ea, denote]
  | log2 =>
    have := (Deriv.d_logb (b := 2) (x := F ρ σ x a (ρ x)) (by norm_num) hc).comp (ρ x) ha
    refine this.congr_deriv ?_
    simp [unaryRule, ea, denote]
  | log10 =>
    have := (Deriv.d_logb (b := 10) (x := F ρ σ x a (ρ x)) (by norm_num) hc).comp (ρ x) ha
    refine this.congr_deriv ?_
    simp [unaryRule, ea, denote]
  | sqrt =>
    have := (Deriv.d_sqrt (x := F ρ σ x a (ρ x)) hc).comp (ρ x) ha
    refine this.congr_deriv ?_
    simp [unaryRule, ea, denote]
  | tanh =>
    have := (Deriv.d_tanh (F ρ σ x a (ρ x))).comp (ρ x) ha
    refine this.congr_deriv ?_
    simp [unaryRule, ea, denote]
  | sinh =>
    have := (Real.hasDerivAt_sinh (F ρ σ x a (ρ x))).comp (ρ x) ha
    refine this.congr_deriv ?_
    simp [unaryRule, ea, denote]
  | cosh =>
    have := (Real.hasDerivAt_cosh (F ρ σ x a (ρ x))).comp (ρ x) ha
    refine this.congr_deriv ?_
    simp [unaryRule, ea, denote]
  | asin =>
    have := (Deriv.d_asin (x := F ρ σ x a (ρ x)) hc.1 hc.2).comp (ρ x) ha
    refine this.congr_deriv ?_
    simp [unaryRule, ea, denote]
  | acos =>
    have := (Deriv.d_acos (x := F ρ σ x a (ρ x)) hc.1 hc.2).comp (ρ x) ha
    refine this.congr_deriv ?_
    simp [unaryRule, ea, denote]
  | atan =>
    have := (Deriv.d_atan (F ρ σ x a (ρ x))).comp (ρ x) ha
    refine this.congr_deriv ?_
    simp [unaryRule, ea, denote]
  | asinh =>
    have := (Deriv.d_asinh (F ρ σ x a (ρ x))).comp (ρ x) ha
    refine this.congr_deriv ?_
    simp [unaryRule, ea, denote]
  | acosh =>
    have := (Deriv.d_acosh (x := F ρ σ x a (ρ x)) hc).comp (ρ x) ha
    refine this.congr_deriv ?_
    simp [unaryRule, ea, denote]
  | atanh =>
    have := (Deriv.d_atanh (x := F ρ σ x a (ρ x)) hc.1 hc.2).comp (ρ x) ha
    refine this.congr_deriv ?_
    simp [unaryRule, ea, denote]

end Optyx
