/-
  Optyx.Lemmas.StateSubst — replacing Parameter leaves commutes with the meaning of an
  expression, for every number algebra (helper lemmas of C12 / C14).  Core Lean only.
-/
import Optyx.Py.State

namespace Optyx.Py.State
open Optyx NumAlg

section
variable {α : Type} [NumAlg α]

mutual
/-- if every replaced leaf `τ p` means (under `σ₂`) what `p` means under `σ₁`, the whole
    expression keeps its meaning -/
theorem denote_mapPar (ρ : String → α) (σ₁ σ₂ : Nat → α) (τ : Par → Expr)
    (hτ : ∀ p, denote ρ σ₂ (τ p) = σ₁ p.oid) :
    (e : Expr) → denote ρ σ₂ (mapPar τ e) = denote ρ σ₁ e
  | .const _ => by simp [mapPar, denote]
  | .var _ => by simp [mapPar, denote]
  | .param p => by simp [mapPar, denote, hτ p]
  | .bin op l r => by
    simp [mapPar, denote, denote_mapPar ρ σ₁ σ₂ τ hτ l, denote_mapPar ρ σ₁ σ₂ τ hτ r]
  | .un op a => by simp [mapPar, denote, denote_mapPar ρ σ₁ σ₂ τ hτ a]
  | .linComb cs v => by simp [mapPar, denote, denoteVec_mapPar ρ σ₁ σ₂ τ hτ v]
  | .vecSum _ => by simp [mapPar, denote]
  | .exprSum es => by simp [mapPar, denote, denoteList_mapPar ρ σ₁ σ₂ τ hτ es]
  | .dot l r => by
    simp [mapPar, denote, denoteVec_mapPar ρ σ₁ σ₂ τ hτ l, denoteVec_mapPar ρ σ₁ σ₂ τ hτ r]
  | .l2 v => by simp [mapPar, denote, denoteVec_mapPar ρ σ₁ σ₂ τ hτ v]
  | .l1 v => by simp [mapPar, denote, denoteVec_mapPar ρ σ₁ σ₂ τ hτ v]
  | .quad v q => by simp [mapPar, denote, denoteVec_mapPar ρ σ₁ σ₂ τ hτ v]
  | .powSum _ _ => by simp [mapPar, denote]
  | .unSum _ _ => by simp [mapPar, denote]
  | .matSumV _ => by simp [mapPar, denote]
  | .matSumE es => by simp [mapPar, denote, denoteList_mapPar ρ σ₁ σ₂ τ hτ es]
  | .frob _ => by simp [mapPar, denote]
theorem denoteVec_mapPar (ρ : String → α) (σ₁ σ₂ : Nat → α) (τ : Par → Expr)
    (hτ : ∀ p, denote ρ σ₂ (τ p) = σ₁ p.oid) :
    (v : Vec) → denoteVec ρ σ₂ (mapParVec τ v) = denoteVec ρ σ₁ v
  | .vars _ => by simp [mapParVec, denoteVec]
  | .exprs es => by simp [mapParVec, denoteVec, denoteList_mapPar ρ σ₁ σ₂ τ hτ es]
theorem denoteList_mapPar (ρ : String → α) (σ₁ σ₂ : Nat → α) (τ : Par → Expr)
    (hτ : ∀ p, denote ρ σ₂ (τ p) = σ₁ p.oid) :
    (es : ExprList) → denoteList ρ σ₂ (mapParList τ es) = denoteList ρ σ₁ es
  | .nil => by simp [mapParList, denoteList]
  | .cons e t => by
    simp [mapParList, denoteList, denote_mapPar ρ σ₁ σ₂ τ hτ e, denoteList_mapPar ρ σ₁ σ₂ τ hτ t]
end

/-- `denote ρ σ e = denote ρ σ' (substParams σ e)`: the constant model means, under *any* store,
    what the parametric model means under the current store -/
theorem denote_substParams' (ρ : String → α) (σ : Nat → Rat) (σ' : Nat → α) (e : Expr) :
    denote ρ σ' (substParams σ e) = denote ρ (storeOf σ) e :=
  denote_mapPar ρ (storeOf σ) σ' _ (by intro p; simp [denote, NumAlg.cst, storeOf]) e

mutual
theorem mapPar_param : (e : Expr) → mapPar .param e = e
  | .const _ | .var _ | .param _ | .vecSum _ | .powSum _ _ | .unSum _ _ | .matSumV _ | .frob _ => by simp [mapPar]
  | .bin _ l r => by simp [mapPar, mapPar_param l, mapPar_param r]
  | .un _ a => by simp [mapPar, mapPar_param a]
  | .linComb _ v | .l2 v | .l1 v | .quad v _ => by simp [mapPar, mapParVec_param v]
  | .exprSum es | .matSumE es => by simp [mapPar, mapParList_param es]
  | .dot l r => by simp [mapPar, mapParVec_param l, mapParVec_param r]
theorem mapParVec_param : (v : Vec) → mapParVec .param v = v
  | .vars _ => by simp [mapParVec]
  | .exprs es => by simp [mapParVec, mapParList_param es]
theorem mapParList_param : (es : ExprList) → mapParList .param es = es
  | .nil => by simp [mapParList]
  | .cons e t => by simp [mapParList, mapPar_param e, mapParList_param t]
end

end

end Optyx.Py.State
