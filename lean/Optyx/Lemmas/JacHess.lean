/-
  Optyx.Lemmas.JacHess — `compute_hessian` / `compile_hessian`: shape of the general closure,
  symmetry of every closure, and the diagonal fast paths against gradient-of-gradient (over ℝ).
-/
import Optyx.Lemmas.JacCompile
import Optyx.Lemmas.JacLoop

namespace Optyx.Py.Jac
open Optyx Optyx.Py Optyx.Generated NumAlg

/-! ### `compute_hessian` -/

theorem entry?_computeHessian (e : Expr) (V : List Var) {i j : Nat} (hi : i < V.length) (hj : j < V.length) :
    entry? (computeHessian e V) i j = some (hessEntry e V[i] V[j]) := by
  unfold entry? computeHessian hessEntry
  simp [hi, hj]

theorem computeHessian_getD (e : Expr) (V : List Var) {i j : Nat} (hi : i < V.length) (hj : j < V.length) :
    ((computeHessian e V).getD i []).getD j (Expr.c 0) = hessEntry e V[i] V[j] := by
  unfold computeHessian hessEntry
  simp [List.getD_eq_getElem?_getD, hi, hj]

/-! ### symmetry (any number algebra) -/

theorem hessClo_symm {α : Type} [NumAlg α] [DerivAlg α] (clo : HessClo) (x : List α) (σ : Nat → α) :
    IsSymm (clo.run x σ) := by
  cases clo with
  | powK1 n => exact isSymm_zeros2 n
  | powK2 n full idx =>
    simp only [HessClo.run]
    split
    · exact isSymm_diagM _
    · exact isSymm_scatterDiag (isSymm_zeros2 n) _ _
  | powGeneral n coeff exp => exact isSymm_diagM _
  | powSparse n idx coeff exp => exact isSymm_sanitize2 (isSymm_scatterDiag (isSymm_zeros2 n) _ _)
  | unFull n op => exact isSymm_diagM _
  | unSparse n idx op =>
    simp only [HessClo.run]
    split
    · exact isSymm_sanitize2 (isSymm_scatterDiag (isSymm_zeros2 n) _ _)
    · exact isSymm_scatterDiag (isSymm_zeros2 n) _ _
  | general V H => exact isSymm_sanitize2 (isSymm_hessLoop _ _)

/-! ### the general path -/

theorem compileHessian_general_inv {e : Expr} {V V' : List Var} {H : List (List Expr)}
    (h : compileHessian e V = .ok (.general V' H)) : V' = V ∧ H = computeHessian e V := by
  unfold compileHessian at h
  dsimp only at h
  split at h
  · split at h
    · cases h
    · split at h
      · cases h
      · split at h
        · cases h
        · split at h <;> cases h
  · split at h
    · cases h
    · split at h
      · split at h <;> cases h
      · split at h
        · simp only [Except.ok.injEq, HessClo.general.injEq] at h
          exact ⟨h.1.symm, h.2.symm⟩
        · cases h
  · split at h
    · simp only [Except.ok.injEq, HessClo.general.injEq] at h
      exact ⟨h.1.symm, h.2.symm⟩
    · cases h

theorem general_run_entry (σ : Nat → ℝ) (e : Expr) (V : List Var) (x : List ℝ)
    {i j : Nat} (hi : i < V.length) (hj : j < V.length) :
    entry? ((HessClo.general V (computeHessian e V)).run x σ) i j =
      some (if i ≤ j then denote (envOf V x) σ (hessEntry e V[i] V[j])
            else denote (envOf V x) σ (hessEntry e V[j] V[i])) := by
  simp only [HessClo.run, sanitize2_real]
  rw [entry?_hessLoop, entry?_mirrorUpper]
  simp only [hi, hj, and_self, ite_true]
  rw [computeHessian_getD e V hi hj, computeHessian_getD e V hj hi]

/-! ### gradient-of-gradient of the vectorised sums -/

variable (ρ : String → ℝ) (σ : Nat → ℝ)

theorem denote_sPow_lit' (b : Expr) (q : Rat) :
    denote ρ σ (sPow b (.const (.rat q))) = (denote ρ σ b) ^ (q : ℝ) :=
  denote_sPow_lit ρ σ b q

/-- value of `d/dw₂` of the first-derivative entry `k·x^(k-1)` -/
noncomputable def powSecond (k : Rat) (a : ℝ) : ℝ :=
  if k = 1 then 0 else if k = 2 then 2 else hessPowBody (k * (k - 1)) (k - 2) a

@[simp] theorem grad_c (w : Var) (q : Rat) : grad w (Expr.c q) = Expr.c 0 := rfl

theorem denote_ite_c (b : Bool) (p q : Rat) :
    denote ρ σ (if b then Expr.c p else Expr.c q) = if b then (p : ℝ) else (q : ℝ) := by
  cases b <;> simp

theorem hess_powSum (v : VVar) (k : Rat) (w1 w2 : Var) :
    denote ρ σ (grad w2 (grad w1 (.powSum v k))) =
      if hasName w1.name v.vars ∧ w1.name = w2.name then powSecond k (ρ w1.name) else 0 := by
  simp only [grad, powSumRule]
  by_cases hh : hasName w1.name v.vars = true
  · obtain ⟨xv, h1, h2, _⟩ := find?_some_of hh
    rw [h1]
    simp only [hh, true_and]
    by_cases hk1 : k = 1
    · subst hk1
      simp [grad, powSecond]
    · by_cases hk2 : k = 2
      · subst hk2
        have e1 : ((2:Rat) == 1) = false := by decide
        simp only [e1, Bool.false_eq_true, ite_false, beq_self_eq_true, ite_true, powSecond]
        by_cases hn : w1.name = w2.name
        · simp [grad, binaryRule, h2, hn, denote_ite_c]
        · simp [grad, binaryRule, h2, hn, denote_ite_c]
      · have e1 : (k == 1) = false := by simpa using hk1
        have e2 : (k == 2) = false := by simpa using hk2
        have e3 : (k - 1 == 0) = false := by
          simp only [beq_eq_false_iff_ne, ne_eq]; intro h; apply hk1; linarith
        have e4 : (k - 1 == 1) = false := by
          simp only [beq_eq_false_iff_ne, ne_eq]; intro h; apply hk2; linarith
        have e5 : (k - 1 - 1 : Rat) = k - 2 := by ring
        simp only [e1, e2, Bool.false_eq_true, ite_false, powSecond, hk1, hk2, hessPowBody]
        by_cases hn : w1.name = w2.name
        · simp [grad, binaryRule, Expr.c, e3, e4, e5, h2, hn, denote, denote_sPow_lit']
          ring
        · simp [grad, binaryRule, Expr.c, e3, e4, h2, hn, denote]
  · have hh' : hasName w1.name v.vars = false := by simpa using hh
    rw [find?_eq_none_of hh']
    simp [hh', grad]

theorem hess_unSum (v : VVar) (op : VOp) (hop : hessFastOp op = true) (w1 w2 : Var) :
    denote ρ σ (grad w2 (grad w1 (.unSum v op))) =
      if hasName w1.name v.vars ∧ w1.name = w2.name then hessUnBody op (ρ w1.name) else 0 := by
  simp only [grad, unSumRule]
  by_cases hh : hasName w1.name v.vars = true
  · obtain ⟨xv, h1, h2, _⟩ := find?_some_of hh
    rw [h1]
    simp only [hh, true_and]
    by_cases hn : w1.name = w2.name
    · cases op <;> simp [hessFastOp] at hop <;>
        simp [unSumDeriv, grad, binaryRule, unaryRule, Expr.c, h2, hn, denote, hessUnBody]
      -- log
      rw [sq]
    · cases op <;> simp [hessFastOp] at hop <;>
        simp [unSumDeriv, grad, binaryRule, unaryRule, Expr.c, h2, hn, denote, hessUnBody]
  · have hh' : hasName w1.name v.vars = false := by simpa using hh
    rw [find?_eq_none_of hh']
    simp [hh', grad]

/-! ### the diagonal fast paths -/

theorem names_eq_iff {V : List Var} (hnd : (names V).Nodup) {i j : Nat} (hi : i < V.length) (hj : j < V.length) :
    V[i].name = V[j].name ↔ i = j := by
  constructor
  · intro h
    have h1 := nameIdx_nodup hnd hi
    have h2 := nameIdx_nodup hnd hj
    rw [h] at h1
    rw [h1] at h2
    exact Option.some.inj h2
  · intro h; subst h; rfl

theorem entry?_diag_map (x : List ℝ) (f : ℝ → ℝ) {n i j : Nat} (hx : x.length = n) (hi : i < n) (hj : j < n) :
    entry? (diagM (x.map f)) i j = some (if i = j then f (x.getD i 0) else 0) := by
  rw [entry?_diagM]
  simp only [List.length_map, hx, hi, hj, and_self, ite_true]
  by_cases h : i = j
  · simp [h, List.getD_eq_getElem?_getD, hx, hj]
  · simp [h]

theorem zeros2_isSome (n : Nat) : ∀ a b, a < n → b < n → (entry? (zeros2 n : List (List ℝ)) a b).isSome := by
  intro a b ha hb
  rw [entry?_zeros2]; simp [ha, hb]

/-- one statement for all diagonal closures: entry `(i, j)` is `f x[i]` on the diagonal at the
    positions of the vector's variables and `0` elsewhere -/
theorem diag_full_entry {V vs : List Var} {idx : List Nat} (hrel : List.Forall₂ (IdxRel V) vs idx)
    (hf : isFull idx V.length = true) (x : List ℝ) (hx : x.length = V.length) (f : ℝ → ℝ)
    {i j : Nat} (hi : i < V.length) (hj : j < V.length) :
    entry? (diagM (x.map f)) i j =
      some (if i = j ∧ hasName V[i].name vs then f (x.getD i 0) else 0) := by
  rw [entry?_diag_map x f hx hi hj, isFull_hasName hrel hf hi]
  simp

theorem diag_sparse_entry {V vs : List Var} {idx : List Nat} (hnd : (names V).Nodup)
    (hrel : List.Forall₂ (IdxRel V) vs idx) (x : List ℝ) (f : ℝ → ℝ)
    {i j : Nat} (hi : i < V.length) (hj : j < V.length) :
    entry? (scatterDiag (zeros2 V.length) idx ((gather x idx).map f)) i j =
      some (if i = j ∧ hasName V[i].name vs then f (x.getD i 0) else 0) := by
  rw [scatterDiag_gather hnd x f hrel (zeros2 V.length) (zeros2_isSome _) i j hi hj, entry?_zeros2]
  by_cases h : i = j ∧ hasName V[i].name vs = true
  · obtain ⟨rfl, h2⟩ := h
    simp [h2]
  · simp [h, hi, hj]

theorem replicate_eq_gather_map (x : List ℝ) (idx : List Nat) (c : ℝ) :
    List.replicate idx.length c = (gather x idx).map (fun _ => c) := by
  induction idx with
  | nil => rfl
  | cons i is ih => simp [gather, List.replicate_succ] at ih ⊢; exact ih

/-- **the diagonal fast paths compute gradient-of-gradient**, entry by entry (all `(i, j)`, both triangles) -/
theorem hessFast_entries {V : List Var} (hnd : (names V).Nodup) (x : List ℝ) (hx : x.length = V.length)
    (e : Expr) (hfast : (∃ v k, e = .powSum v k) ∨ (∃ v op, e = .unSum v op ∧ hessFastOp op = true))
    {clo : HessClo} (h : compileHessian e V = .ok clo) {i j : Nat} (hi : i < V.length) (hj : j < V.length) :
    entry? (clo.run x σ) i j = some (denote (envOf V x) σ (hessEntry e V[i] V[j])) := by
  have hname := names_eq_iff hnd hi hj
  rcases hfast with ⟨v, k, rfl⟩ | ⟨v, op, rfl, hop⟩
  · -- VectorPowerSum
    unfold hessEntry
    rw [hess_powSum, envOf_self hnd x hi]
    unfold compileHessian at h
    dsimp only at h
    cases hidx : indicesOf V v.vars with
    | none => simp [hidx] at h
    | some idx =>
      have hrel := indicesOf_forall₂ hidx
      simp only [hidx] at h
      by_cases hk1 : k = 1
      · subst hk1
        simp only [beq_self_eq_true, ite_true, Except.ok.injEq] at h
        subst h
        simp only [HessClo.run]
        rw [entry?_zeros2]
        simp [hi, hj, powSecond]
      · have e1 : (k == 1) = false := by simpa using hk1
        by_cases hk2 : k = 2
        · subst hk2
          simp only [e1, Bool.false_eq_true, ite_false, beq_self_eq_true, ite_true, Except.ok.injEq] at h
          subst h
          simp only [HessClo.run, ofRat_real, Rat.cast_ofNat]
          by_cases hf : isFull idx V.length = true
          · simp only [hf, ite_true]
            have : List.replicate V.length (2:ℝ) = x.map (fun _ => (2:ℝ)) := by
              rw [← hx]; clear hx hrel hf hidx; induction x with
              | nil => rfl
              | cons a t ih => simp [List.replicate_succ] at ih ⊢
            rw [this, diag_full_entry hrel hf x hx _ hi hj]
            simp [powSecond, hname, and_comm]
          · have hf' : isFull idx V.length = false := by simpa using hf
            simp only [hf', Bool.false_eq_true, ite_false]
            rw [replicate_eq_gather_map x idx 2, diag_sparse_entry hnd hrel x _ hi hj]
            simp [powSecond, hname, and_comm]
        · have e2 : (k == 2) = false := by simpa using hk2
          simp only [e1, e2, Bool.false_eq_true, ite_false] at h
          by_cases hf : isFull idx V.length = true
          · simp only [hf, ite_true, Except.ok.injEq] at h
            subst h
            simp only [HessClo.run, sanitize_real]
            rw [diag_full_entry hrel hf x hx _ hi hj]
            simp [powSecond, hk1, hk2, hname, and_comm]
          · have hf' : isFull idx V.length = false := by simpa using hf
            simp only [hf', Bool.false_eq_true, ite_false, Except.ok.injEq] at h
            subst h
            simp only [HessClo.run, sanitize2_real]
            rw [diag_sparse_entry hnd hrel x _ hi hj]
            simp [powSecond, hk1, hk2, hname, and_comm]
  · -- VectorUnarySum with a fast path
    unfold hessEntry
    rw [hess_unSum _ _ v op hop, envOf_self hnd x hi]
    unfold compileHessian at h
    dsimp only at h
    cases hidx : indicesOf V v.vars with
    | none => simp [hidx] at h
    | some idx =>
      have hrel := indicesOf_forall₂ hidx
      simp only [hidx, hop, ite_true] at h
      by_cases hf : isFull idx V.length = true
      · simp only [hf, ite_true, Except.ok.injEq] at h
        subst h
        simp only [HessClo.run, sanitize_real, ite_self]
        rw [diag_full_entry hrel hf x hx _ hi hj]
        simp [hname, and_comm]
      · have hf' : isFull idx V.length = false := by simpa using hf
        simp only [hf', Bool.false_eq_true, ite_false, Except.ok.injEq] at h
        subst h
        simp only [HessClo.run, sanitize2_real, ite_self]
        rw [diag_sparse_entry hnd hrel x _ hi hj]
        simp [hname, and_comm]

end Optyx.Py.Jac
