/-
  Optyx.Lemmas.GradRegular — a regular point of `e` is a regular point of its symbolic
  derivative: `Regular ρ σ e → Regular ρ σ (Py.grad v e)` (needed to differentiate twice, C17).
-/
import Optyx.Lemmas.GradNodesVec
import Optyx.Lemmas.GradWF

namespace Optyx
open NumAlg Optyx.Generated Optyx.Py

variable (ρ : String → ℝ) (σ : Nat → ℝ)

local notation "⟪" e "⟫" => denote ρ σ e
local notation "Reg" => Regular ρ σ

theorem Regular_c (q : Rat) : Reg (Expr.c q) := by simp [Expr.c, Regular]

theorem Regular_un {op : UnOp} {a : Expr} (ha : Reg a) (h : unReg op ⟪a⟫) : Reg (.un op a) := ⟨ha, h⟩

theorem Regular_sNeg {e : Expr} (h : Reg e) : Reg (sNeg e) := by
  unfold sNeg
  split
  · exact Regular_c ρ σ 0
  · split
    · exact h.1
    · exact ⟨h, trivial⟩

theorem Regular_add {a b : Expr} (ha : Reg a) (hb : Reg b) : Reg (.bin .add a b) := ⟨ha, hb⟩
theorem Regular_sub {a b : Expr} (ha : Reg a) (hb : Reg b) : Reg (.bin .sub a b) := ⟨ha, hb⟩
theorem Regular_mul {a b : Expr} (ha : Reg a) (hb : Reg b) : Reg (.bin .mul a b) := ⟨ha, hb⟩
theorem Regular_div {a b : Expr} (ha : Reg a) (hb : Reg b) (h : ⟪b⟫ ≠ 0) : Reg (.bin .div a b) :=
  ⟨ha, hb, h⟩

theorem Regular_sAdd {a b : Expr} (ha : Reg a) (hb : Reg b) : Reg (sAdd a b) := by
  unfold sAdd; split
  · exact hb
  · split
    · exact ha
    · exact ⟨ha, hb⟩

theorem Regular_sSub {a b : Expr} (ha : Reg a) (hb : Reg b) : Reg (sSub a b) := by
  unfold sSub; split
  · exact ha
  · split
    · exact Regular_sNeg ρ σ hb
    · exact ⟨ha, hb⟩

theorem Regular_sMul {a b : Expr} (ha : Reg a) (hb : Reg b) : Reg (sMul a b) := by
  unfold sMul; split
  · exact Regular_c ρ σ 0
  · split
    · exact hb
    · split
      · exact ha
      · exact ⟨ha, hb⟩

theorem Regular_sDiv {a b : Expr} (ha : Reg a) (hb : Reg b) (h : ⟪b⟫ ≠ 0) : Reg (sDiv a b) := by
  unfold sDiv; split
  · exact Regular_c ρ σ 0
  · split
    · exact ha
    · exact ⟨ha, hb, h⟩

theorem Regular_pow_lit {l : Expr} {k : Rat} (hl : Reg l) (h : k = 0 ∨ k = 1 ∨ powReg k ⟪l⟫) :
    Reg (.bin .pow l (Expr.c k)) := ⟨hl, Regular_c ρ σ k, h⟩

theorem Regular_sPow_lit {l : Expr} {k : Rat} (hl : Reg l) (h : k = 0 ∨ k = 1 ∨ powReg k ⟪l⟫) :
    Reg (sPow l (Expr.c k)) := by
  unfold sPow; split
  · exact Regular_c ρ σ 1
  · split
    · exact hl
    · split
      · exact Regular_c ρ σ 0
      · split
        · exact Regular_c ρ σ 1
        · exact Regular_pow_lit ρ σ hl h

/-- the exponent `k − 1` of the power rule is regular wherever `k` is (for `k ≠ 1`) -/
theorem powReg_pred {k : Rat} {b : ℝ} (hk1 : k ≠ 1) (h : powReg k b) : powReg (k - 1) b := by
  have hden : (k - 1).den = k.den := by
    have := Rat.sub_intCast_den k 1
    simpa using this
  constructor
  · intro hd
    rw [hden] at hd
    rcases h.1 hd with hb | h1
    · exact Or.inl hb
    · right
      -- k is an integer ≥ 1 and ≠ 1, hence ≥ 2
      have hki : ((k.num : ℤ) : ℚ) = k := Rat.den_eq_one_iff k |>.mp hd
      have h1' : (1:ℚ) ≤ ((k.num : ℤ) : ℚ) := by rw [hki]; exact_mod_cast h1
      have hnum1 : (1:ℤ) ≤ k.num := by exact_mod_cast h1'
      have hne : k.num ≠ 1 := by
        intro e; apply hk1; rw [← hki, e]; simp
      have h2 : (2:ℤ) ≤ k.num := by omega
      have : (2:ℚ) ≤ k := by rw [← hki]; exact_mod_cast h2
      have : (1:ℚ) ≤ k - 1 := by linarith
      exact_mod_cast this
  · intro hd
    rw [hden] at hd
    exact h.2 hd

theorem Regular_binaryRule (op : BinOp) {l r dl dr : Expr} (hreg : Reg (.bin op l r))
    (hdl : Reg dl) (hdr : Reg dr) : Reg (binaryRule op l r dl dr (.bin op l r)) := by
  cases op with
  | add => exact Regular_sAdd ρ σ hdl hdr
  | sub => exact Regular_sSub ρ σ hdl hdr
  | mul => exact Regular_sAdd ρ σ (Regular_sMul ρ σ hreg.1 hdr) (Regular_sMul ρ σ hreg.2 hdl)
  | div =>
    obtain ⟨hl, hr, hne⟩ := hreg
    refine Regular_sDiv ρ σ (Regular_sSub ρ σ (Regular_sMul ρ σ hr hdl) (Regular_sMul ρ σ hl hdr))
      (Regular_sMul ρ σ hr hr) ?_
    simp [hne]
  | pow =>
    have hself := hreg
    obtain ⟨hl, hr, hp⟩ := hreg
    simp only [binaryRule]
    split
    next _ n =>
      simp only at hp
      split
      · exact Regular_c ρ σ 0
      · rename_i h0
        split
        · exact hdl
        · rename_i h1
          have hn0 : n ≠ 0 := by simpa using h0
          have hn1 : n ≠ 1 := by simpa using h1
          have hpr : powReg n ⟪l⟫ := by
            rcases hp with h | h | h
            · exact absurd h hn0
            · exact absurd h hn1
            · exact h
          exact Regular_sMul ρ σ (Regular_sMul ρ σ (Regular_c ρ σ n)
            (Regular_sPow_lit ρ σ hl (Or.inr (Or.inr (powReg_pred hn1 hpr))))) hdl
    next hnot =>
      have hpos : 0 < ⟪l⟫ := by
        cases r with
        | const c =>
          cases c with
          | rat k => exact (hnot k rfl).elim
          | _ => exact hp
        | _ => exact hp
      refine Regular_sMul ρ σ hself (Regular_sAdd ρ σ
        (Regular_sMul ρ σ hdr (Regular_un ρ σ hl (by simpa [unReg] using hpos)))
        (Regular_sDiv ρ σ (Regular_sMul ρ σ hr hdl) hl hpos.ne'))

theorem Regular_unaryRule (op : UnOp) {a da : Expr} (hreg : Reg (.un op a)) (hda : Reg da) :
    Reg (unaryRule op a da (.un op a)) := by
  have hself := hreg
  obtain ⟨ha, hc⟩ := hreg
  have h1 : Reg (Expr.c 1) := Regular_c ρ σ 1
  have h2 : Reg (Expr.c 2) := Regular_c ρ σ 2
  have sq_reg : Reg (sMul a a) := Regular_sMul ρ σ ha ha
  cases op <;> simp only [unaryRule]
  · -- neg
    exact Regular_sNeg ρ σ hda
  · -- abs
    refine Regular_sMul ρ σ (Regular_sDiv ρ σ ha hself ?_) hda
    simpa [denote, unReg] using hc
  · exact Regular_sMul ρ σ (Regular_un ρ σ ha trivial) hda
  · exact Regular_sMul ρ σ (Regular_sNeg ρ σ (Regular_un ρ σ ha trivial)) hda
  · -- tan
    have hcos : Reg (.un .cos a) := Regular_un ρ σ ha trivial
    refine Regular_sMul ρ σ (Regular_sDiv ρ σ h1 (Regular_sMul ρ σ hcos hcos) ?_) hda
    have : Real.cos ⟪a⟫ ≠ 0 := hc
    simp [denote, this]
  · exact Regular_sMul ρ σ hself hda
  · -- log
    have : (0:ℝ) < ⟪a⟫ := hc
    exact Regular_sMul ρ σ (Regular_sDiv ρ σ h1 ha this.ne') hda
  · -- log2
    have : (0:ℝ) < ⟪a⟫ := hc
    have hl2 : Real.log 2 ≠ 0 := (Real.log_pos (by norm_num)).ne'
    refine Regular_sMul ρ σ (Regular_sDiv ρ σ h1 (Regular_sMul ρ σ ha (by simp [Regular])) ?_) hda
    simp [denote, this.ne', hl2]
  · -- log10
    have : (0:ℝ) < ⟪a⟫ := hc
    have hl10 : Real.log 10 ≠ 0 := (Real.log_pos (by norm_num)).ne'
    refine Regular_sMul ρ σ (Regular_sDiv ρ σ h1 (Regular_sMul ρ σ ha (by simp [Regular])) ?_) hda
    simp [denote, this.ne', hl10]
  · -- sqrt
    have : (0:ℝ) < ⟪a⟫ := hc
    refine Regular_sMul ρ σ (Regular_sDiv ρ σ h1 (Regular_sMul ρ σ h2 hself) ?_) hda
    have hs : Real.sqrt ⟪a⟫ ≠ 0 := (Real.sqrt_pos.mpr this).ne'
    simp [denote, hs]
  · exact Regular_sMul ρ σ (Regular_sSub ρ σ h1 (Regular_sMul ρ σ hself hself)) hda
  · exact Regular_sMul ρ σ (Regular_un ρ σ ha trivial) hda
  · exact Regular_sMul ρ σ (Regular_un ρ σ ha trivial) hda
  · -- asin
    have hc' : -1 < ⟪a⟫ ∧ ⟪a⟫ < 1 := hc
    have hpos : 0 < 1 - ⟪a⟫ * ⟪a⟫ := by nlinarith [hc'.1, hc'.2]
    have hin : Reg (sSub (Expr.c 1) (sMul a a)) := Regular_sSub ρ σ h1 sq_reg
    have hsq : Reg (.un .sqrt (sSub (Expr.c 1) (sMul a a))) :=
      Regular_un ρ σ hin (by simpa [unReg] using hpos)
    refine Regular_sMul ρ σ (Regular_sDiv ρ σ h1 hsq ?_) hda
    simpa [denote] using (Real.sqrt_pos.mpr hpos).ne'
  · -- acos
    have hc' : -1 < ⟪a⟫ ∧ ⟪a⟫ < 1 := hc
    have hpos : 0 < 1 - ⟪a⟫ * ⟪a⟫ := by nlinarith [hc'.1, hc'.2]
    have hin : Reg (sSub (Expr.c 1) (sMul a a)) := Regular_sSub ρ σ h1 sq_reg
    have hsq : Reg (.un .sqrt (sSub (Expr.c 1) (sMul a a))) :=
      Regular_un ρ σ hin (by simpa [unReg] using hpos)
    refine Regular_sMul ρ σ (Regular_sNeg ρ σ (Regular_sDiv ρ σ h1 hsq ?_)) hda
    simpa [denote] using (Real.sqrt_pos.mpr hpos).ne'
  · -- atan
    have hpos : 0 < 1 + ⟪a⟫ * ⟪a⟫ := by nlinarith [mul_self_nonneg ⟪a⟫]
    refine Regular_sMul ρ σ (Regular_sDiv ρ σ h1 (Regular_sAdd ρ σ h1 sq_reg) ?_) hda
    simpa using hpos.ne'
  · -- asinh
    have hpos : 0 < 1 + ⟪a⟫ * ⟪a⟫ := by nlinarith [mul_self_nonneg ⟪a⟫]
    have hin : Reg (sAdd (Expr.c 1) (sMul a a)) := Regular_sAdd ρ σ h1 sq_reg
    have hsq : Reg (.un .sqrt (sAdd (Expr.c 1) (sMul a a))) :=
      Regular_un ρ σ hin (by simpa [unReg] using hpos)
    refine Regular_sMul ρ σ (Regular_sDiv ρ σ h1 hsq ?_) hda
    simpa [denote] using (Real.sqrt_pos.mpr hpos).ne'
  · -- acosh
    have hc' : 1 < ⟪a⟫ := hc
    have hpos : 0 < ⟪a⟫ * ⟪a⟫ - 1 := by nlinarith
    have hin : Reg (sSub (sMul a a) (Expr.c 1)) := Regular_sSub ρ σ sq_reg h1
    have hsq : Reg (.un .sqrt (sSub (sMul a a) (Expr.c 1))) :=
      Regular_un ρ σ hin (by simpa [unReg] using hpos)
    refine Regular_sMul ρ σ (Regular_sDiv ρ σ h1 hsq ?_) hda
    simpa [denote] using (Real.sqrt_pos.mpr hpos).ne'
  · -- atanh
    have hc' : -1 < ⟪a⟫ ∧ ⟪a⟫ < 1 := hc
    have hpos : 0 < 1 - ⟪a⟫ * ⟪a⟫ := by nlinarith [hc'.1, hc'.2]
    refine Regular_sMul ρ σ (Regular_sDiv ρ σ h1 (Regular_sSub ρ σ h1 sq_reg) ?_) hda
    simpa using hpos.ne'

/-! ### vector rules -/

def AllReg (l : List Expr) : Prop := ∀ e ∈ l, Reg e

theorem AllReg_toList : (es : ExprList) → RegularList ρ σ es → AllReg ρ σ es.toList
  | .nil, _ => by intro e he; simp [ExprList.toList] at he
  | .cons e t, h => by
    intro e' he'
    simp only [ExprList.toList, List.mem_cons] at he'
    rcases he' with rfl | he'
    · exact h.1
    · exact AllReg_toList t h.2 e' he'

theorem AllReg_elems {v : Vec} (h : RegularVec ρ σ v) : AllReg ρ σ (Vec.elems v) := by
  cases v with
  | vars vv =>
    intro e he; simp only [Vec.elems, List.mem_map] at he; obtain ⟨y, _, rfl⟩ := he; simp [Regular]
  | exprs es => exact AllReg_toList ρ σ es h

theorem Regular_foldl {α : Type} (f : Expr → α → Expr) (l : List α) (acc : Expr) (hacc : Reg acc)
    (hf : ∀ a x, Reg a → x ∈ l → Reg (f a x)) : Reg (l.foldl f acc) := by
  induction l generalizing acc with
  | nil => exact hacc
  | cons x t ih =>
    exact ih (f acc x) (hf acc x hacc (by simp)) (fun a y ha hy => hf a y ha (by simp [hy]))

theorem Regular_getD {l : List Expr} (h : AllReg ρ σ l) (i : Nat) : Reg (l.getD i (Expr.c 0)) := by
  by_cases hi : i < l.length
  · have : l.getD i (Expr.c 0) = l[i] := by simp [List.getD_eq_getElem?_getD, hi]
    rw [this]; exact h _ (List.getElem_mem hi)
  · have : l.getD i (Expr.c 0) = Expr.c 0 := by simp [List.getD_eq_getElem?_getD, hi]
    rw [this]; exact Regular_c ρ σ 0

theorem Regular_linCombRule (wrt : Var) (cs : List Rat) (v : Vec) (dv : List Expr)
    (hd : AllReg ρ σ dv) : Reg (linCombRule wrt cs v dv) := by
  cases v with
  | vars vv =>
    simp only [linCombRule]
    cases findName wrt.name vv.vars <;> exact Regular_c ρ σ _
  | exprs es =>
    simp only [linCombRule]
    exact Regular_foldl ρ σ _ _ _ (Regular_c ρ σ 0)
      (fun a x ha hx => Regular_sAdd ρ σ ha (Regular_sMul ρ σ (Regular_c ρ σ _) (hd _ (mem_zip_snd hx))))

theorem Regular_exprSumRule (dv : List Expr) (hd : AllReg ρ σ dv) : Reg (exprSumRule dv) :=
  Regular_foldl ρ σ _ _ _ (Regular_c ρ σ 0) (fun a x ha hx => Regular_sAdd ρ σ ha (hd _ hx))

theorem Regular_dotRule (wrt : Var) (l r : Vec) (dl dr : List Expr)
    (hl : RegularVec ρ σ l) (hr : RegularVec ρ σ r) (hdl : AllReg ρ σ dl) (hdr : AllReg ρ σ dr) :
    Reg (dotRule wrt l r dl dr) := by
  have hel := AllReg_elems ρ σ hl
  have her := AllReg_elems ρ σ hr
  have general : Reg ((((Vec.elems l).zip (Vec.elems r)).zip (dl.zip dr)).foldl
      (fun acc (p : (Expr × Expr) × (Expr × Expr)) =>
        sAdd acc (sAdd (sMul p.1.1 p.2.2) (sMul p.1.2 p.2.1))) (Expr.c 0)) := by
    refine Regular_foldl ρ σ _ _ _ (Regular_c ρ σ 0) ?_
    intro a p ha hp
    have h1 := mem_zip_fst hp
    have h2 := mem_zip_snd hp
    exact Regular_sAdd ρ σ ha (Regular_sAdd ρ σ
      (Regular_sMul ρ σ (hel _ (mem_zip_fst h1)) (hdr _ (mem_zip_snd h2)))
      (Regular_sMul ρ σ (her _ (mem_zip_snd h1)) (hdl _ (mem_zip_fst h2))))
  cases l with
  | exprs les => cases r <;> simpa only [dotRule] using general
  | vars lv =>
    cases r with
    | exprs res => simpa only [dotRule] using general
    | vars rv =>
      simp only [dotRule]
      cases findName wrt.name lv.vars <;> cases findName wrt.name rv.vars <;> simp only
      · exact Regular_c ρ σ 0
      · exact Regular_getD ρ σ hel _
      · exact Regular_getD ρ σ her _
      · split
        · exact Regular_sMul ρ σ (Regular_c ρ σ 2) (by simp [Regular])
        · exact Regular_sAdd ρ σ (Regular_getD ρ σ her _) (Regular_getD ρ σ hel _)

theorem Regular_l2Rule (wrt : Var) (v : Vec) (dv : List Expr) (hreg : Reg (.l2 v))
    (hd : AllReg ρ σ dv) : Reg (l2Rule wrt v dv (.l2 v)) := by
  have hself := hreg
  obtain ⟨hv, hpos⟩ := hreg
  have hne : ⟪Expr.l2 v⟫ ≠ 0 := by
    simpa [denote] using (Real.sqrt_pos.mpr hpos).ne'
  cases v with
  | vars vv =>
    simp only [l2Rule]; split
    · exact Regular_sDiv ρ σ (by simp [Regular]) hself hne
    · exact Regular_c ρ σ 0
  | exprs es =>
    simp only [l2Rule]
    exact Regular_foldl ρ σ _ _ _ (Regular_c ρ σ 0) (fun a p ha hp =>
      Regular_sAdd ρ σ ha (Regular_sMul ρ σ
        (Regular_sDiv ρ σ (AllReg_toList ρ σ es hv _ (mem_zip_fst hp)) hself hne) (hd _ (mem_zip_snd hp))))

theorem Regular_l1Rule (wrt : Var) (v : Vec) (dv : List Expr) (hreg : Reg (.l1 v))
    (hd : AllReg ρ σ dv) : Reg (l1Rule wrt v dv) := by
  obtain ⟨hv, hne⟩ := hreg
  cases v with
  | vars vv =>
    simp only [l1Rule]; split
    · rename_i hh
      have hmem : wrt.name ∈ names vv.vars := hasName_iff.mp hh
      simp only [names, List.mem_map] at hmem
      obtain ⟨y, hy, hyn⟩ := hmem
      have hval : ρ wrt.name ≠ 0 := by
        apply hne
        simp only [denoteVec, valsOf, List.mem_map]
        exact ⟨y, hy, by rw [hyn]⟩
      have habs : Reg (.un .abs (.var wrt)) := ⟨trivial, by simpa [unReg, denote] using hval⟩
      refine Regular_sDiv ρ σ (by simp [Regular]) habs ?_
      simpa [denote] using hval
    · exact Regular_c ρ σ 0
  | exprs es =>
    simp only [l1Rule]
    refine Regular_foldl ρ σ _ _ _ (Regular_c ρ σ 0) ?_
    intro a p ha hp
    have hmem := mem_zip_fst hp
    have he := AllReg_toList ρ σ es hv _ hmem
    have hval : ⟪p.1⟫ ≠ 0 := by
      apply hne
      simp only [denoteVec, ← toList_denote, List.mem_map]
      exact ⟨p.1, hmem, rfl⟩
    have habs : Reg (.un .abs p.1) := ⟨he, by simpa [unReg] using hval⟩
    exact Regular_sAdd ρ σ ha (Regular_sMul ρ σ
      (Regular_sDiv ρ σ he habs (by simpa [denote] using hval)) (hd _ (mem_zip_snd hp)))

theorem Regular_quadInner (row : List Rat) (elems : List Expr) (he : AllReg ρ σ elems) :
    Reg (quadInner row elems) := by
  unfold quadInner
  refine Regular_foldl ρ σ _ _ _ (Regular_c ρ σ 0) ?_
  intro a p ha hp
  split
  · exact Regular_sAdd ρ σ ha (Regular_sMul ρ σ (Regular_c ρ σ _) (he _ (mem_zip_snd hp)))
  · exact ha

theorem Regular_quadRule (wrt : Var) (v : Vec) (q : List (List Rat)) (dv : List Expr)
    (hv : RegularVec ρ σ v) (hd : AllReg ρ σ dv) : Reg (quadRule wrt v q dv) := by
  cases v with
  | vars vv =>
    simp only [quadRule]
    cases findName wrt.name vv.vars with
    | none => exact Regular_c ρ σ 0
    | some i => simp [Regular, RegularVec]
  | exprs es =>
    simp only [quadRule]
    exact Regular_foldl ρ σ _ _ _ (Regular_c ρ σ 0) (fun a p ha hp =>
      Regular_sAdd ρ σ ha (Regular_sMul ρ σ (Regular_quadInner ρ σ _ _ (AllReg_toList ρ σ es hv))
        (hd _ (mem_zip_snd hp))))

theorem find?_mem {x : String} {vs : List Var} {xv : Var} (h : vs.find? (·.name == x) = some xv) :
    xv ∈ vs ∧ xv.name = x := by
  have h1 := List.mem_of_find?_eq_some h
  have h2 := List.find?_some h
  exact ⟨h1, by simpa using h2⟩

theorem Regular_powSumRule (wrt : Var) (v : VVar) (k : Rat) (hreg : Reg (.powSum v k)) :
    Reg (powSumRule wrt v k) := by
  unfold powSumRule
  split
  · rename_i xv hf
    obtain ⟨hmem, _⟩ := find?_mem hf
    split
    · exact Regular_c ρ σ 1
    · rename_i h1
      split
      · simp [Regular, Expr.c]
      · rename_i h2
        have hk1 : k ≠ 1 := by simpa using h1
        have hk2 : k ≠ 2 := by simpa using h2
        have hp : powReg k (ρ xv.name) := by
          rcases hreg with h | h | h
          · exact absurd h hk1
          · exact absurd h hk2
          · exact h xv hmem
        refine ⟨Regular_c ρ σ k, ?_⟩
        exact Regular_pow_lit ρ σ (by simp [Regular]) (Or.inr (Or.inr (by simpa [denote] using powReg_pred hk1 hp)))
  · exact Regular_c ρ σ 0

theorem Regular_unSumRule (wrt : Var) (v : VVar) (op : VOp) (hreg : Reg (.unSum v op)) :
    Reg (unSumRule wrt v op) := by
  unfold unSumRule
  split
  · rename_i xv hf
    obtain ⟨hmem, _⟩ := find?_mem hf
    have hc := hreg xv hmem
    have hx : Reg (.var xv) := by simp [Regular]
    have h1 : Reg (Expr.c 1) := Regular_c ρ σ 1
    have h2 : Reg (Expr.c 2) := Regular_c ρ σ 2
    cases op <;> simp only [unSumDeriv]
    · exact Regular_un ρ σ hx trivial
    · exact Regular_mul ρ σ (Regular_c ρ σ _) (Regular_un ρ σ hx trivial)
    · -- tan: 1 / cos(x)^2
      have hcos : Real.cos (ρ xv.name) ≠ 0 := hc
      refine Regular_div ρ σ h1 (Regular_pow_lit ρ σ (Regular_un ρ σ hx trivial)
        (Or.inr (Or.inr ⟨fun _ => Or.inr (by norm_num), fun h => absurd rfl h⟩))) ?_
      simp [denote, hcos]
    · exact Regular_un ρ σ hx trivial
    · -- log: 1 / x
      have : (0:ℝ) < ρ xv.name := hc
      exact Regular_div ρ σ h1 hx (by simpa [denote] using this.ne')
    · -- abs: x / |x|
      have : ρ xv.name ≠ 0 := hc
      exact Regular_div ρ σ hx (Regular_un ρ σ hx (by simpa [unReg, denote] using this))
        (by simpa [denote] using this)
    · -- sqrt: 1 / (2 sqrt x)
      have : (0:ℝ) < ρ xv.name := hc
      have hs : Real.sqrt (ρ xv.name) ≠ 0 := (Real.sqrt_pos.mpr this).ne'
      refine Regular_div ρ σ h1 (Regular_mul ρ σ h2 (Regular_un ρ σ hx (by simpa [unReg, denote] using this))) ?_
      simp [denote, hs]
    · exact Regular_un ρ σ hx trivial
    · exact Regular_un ρ σ hx trivial
    · -- tanh: 1 - tanh(x)^2
      exact Regular_sub ρ σ h1 (Regular_pow_lit ρ σ (Regular_un ρ σ hx trivial)
        (Or.inr (Or.inr ⟨fun _ => Or.inr (by norm_num), fun h => absurd rfl h⟩)))
  · exact Regular_c ρ σ 0

theorem Regular_frobRule (wrt : Var) (m : MVar) (hreg : Reg (.frob m)) :
    Reg (frobRule wrt m (.frob m)) := by
  unfold frobRule
  simp only
  split
  · exact Regular_c ρ σ 0
  · have hpos : 0 < NumAlg.dotp (valsOf ρ m.flat) (valsOf ρ m.flat) := hreg
    refine Regular_sDiv ρ σ (Regular_sMul ρ σ (Regular_c ρ σ _) (by simp [Regular])) hreg ?_
    simpa [denote] using (Real.sqrt_pos.mpr hpos).ne'

private theorem regular_bin' {op : BinOp} {l r : Expr} (h : Reg (.bin op l r)) : Reg l ∧ Reg r := by
  cases op
  · exact h
  · exact h
  · exact h
  · exact ⟨h.1, h.2.1⟩
  · exact ⟨h.1, h.2.1⟩

mutual
theorem grad_regular (wrt : Var) : (e : Expr) → Reg e → Reg (grad wrt e)
  | .const _, _ => Regular_c ρ σ 0
  | .param _, _ => Regular_c ρ σ 0
  | .var v, _ => by simp only [grad]; split <;> exact Regular_c ρ σ _
  | .bin op l r, h => by
    simp only [grad]
    exact Regular_binaryRule ρ σ op h (grad_regular wrt l (regular_bin' ρ σ h).1)
      (grad_regular wrt r (regular_bin' ρ σ h).2)
  | .un op a, h => by simp only [grad]; exact Regular_unaryRule ρ σ op h (grad_regular wrt a h.1)
  | .linComb cs v, h => by
    simp only [grad]; exact Regular_linCombRule ρ σ wrt cs v _ (gradVec_regular wrt v h)
  | .vecSum v, _ => by simp only [grad, vecSumRule]; split <;> exact Regular_c ρ σ _
  | .exprSum es, h => by simp only [grad]; exact Regular_exprSumRule ρ σ _ (gradList_regular wrt es h)
  | .dot l r, h => by
    simp only [grad]
    exact Regular_dotRule ρ σ wrt l r _ _ h.1 h.2 (gradVec_regular wrt l h.1) (gradVec_regular wrt r h.2)
  | .l2 v, h => by simp only [grad]; exact Regular_l2Rule ρ σ wrt v _ h (gradVec_regular wrt v h.1)
  | .l1 v, h => by simp only [grad]; exact Regular_l1Rule ρ σ wrt v _ h (gradVec_regular wrt v h.1)
  | .quad v q, h => by simp only [grad]; exact Regular_quadRule ρ σ wrt v q _ h (gradVec_regular wrt v h)
  | .powSum v k, h => by simp only [grad]; exact Regular_powSumRule ρ σ wrt v k h
  | .unSum v op, h => by simp only [grad]; exact Regular_unSumRule ρ σ wrt v op h
  | .matSumV m, _ => by simp only [grad, matSumVRule]; exact Regular_c ρ σ _
  | .matSumE es, h => by simp only [grad]; exact Regular_exprSumRule ρ σ _ (gradList_regular wrt es h)
  | .frob m, h => by simp only [grad]; exact Regular_frobRule ρ σ wrt m h
theorem gradVec_regular (wrt : Var) : (v : Vec) → RegularVec ρ σ v → AllReg ρ σ (gradVec wrt v)
  | .vars vv, _ => by
    intro e he
    simp only [gradVec, List.mem_map] at he
    obtain ⟨y, _, rfl⟩ := he
    split <;> exact Regular_c ρ σ _
  | .exprs es, h => by simpa [gradVec] using gradList_regular wrt es h
theorem gradList_regular (wrt : Var) : (es : ExprList) → RegularList ρ σ es → AllReg ρ σ (gradList wrt es)
  | .nil, _ => by intro e he; simp [gradList] at he
  | .cons e t, h => by
    intro e' he'
    simp only [gradList, List.mem_cons] at he'
    rcases he' with rfl | he'
    · exact grad_regular wrt e h.1
    · exact gradList_regular wrt t h.2 e' he'
end

end Optyx
