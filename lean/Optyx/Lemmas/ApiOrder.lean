/-
  Optyx.Lemmas.ApiOrder — helper lemmas for property C16: the natural sort key is a strict total
  order on names and CPython's tuple comparison never meets a `str` next to an `int`.  Core Lean.
-/
import Optyx.Py.ProblemVars

namespace Optyx.Py.Api
open Optyx

/-! ### strict total orders given by a Boolean `lt` -/

structure STO {α : Type} (lt : α → α → Bool) : Prop where
  irrefl : ∀ a, lt a a = false
  trans : ∀ a b c, lt a b = true → lt b c = true → lt a c = true
  tri : ∀ a b, a ≠ b → lt a b = true ∨ lt b a = true

theorem STO.asymm {α : Type} {lt : α → α → Bool} (h : STO lt) {a b : α} (hab : lt a b = true) :
    lt b a = false := by
  cases hba : lt b a with
  | false => rfl
  | true => have := h.trans a b a hab hba; rw [h.irrefl] at this; cases this

/-- negative transitivity: `c < a → c < b ∨ b < a` -/
theorem STO.negTrans {α : Type} [DecidableEq α] {lt : α → α → Bool} (h : STO lt) {a b c : α}
    (hca : lt c a = true) : lt c b = true ∨ lt b a = true := by
  by_cases hbc : b = c
  · subst hbc; exact Or.inr hca
  · rcases h.tri b c hbc with h1 | h1
    · exact Or.inr (h.trans b c a h1 hca)
    · exact Or.inl h1

theorem lexLt_nil_left {α : Type} [DecidableEq α] (lt : α → α → Bool) (l : List α) :
    lexLt lt [] l = !l.isEmpty := by cases l <;> rfl

theorem lexLt_nil_right {α : Type} [DecidableEq α] (lt : α → α → Bool) (l : List α) :
    lexLt lt l [] = false := by cases l <;> rfl

theorem lexLt_sto {α : Type} [DecidableEq α] {lt : α → α → Bool} (h : STO lt) : STO (lexLt lt) where
  irrefl := by
    intro l
    induction l with
    | nil => rfl
    | cons a as ih => simp [lexLt, ih]
  tri := by
    intro l₁
    induction l₁ with
    | nil =>
      intro l₂ hne
      cases l₂ with
      | nil => exact absurd rfl hne
      | cons b bs => exact Or.inl rfl
    | cons a as ih =>
      intro l₂ hne
      cases l₂ with
      | nil => exact Or.inr rfl
      | cons b bs =>
        by_cases hab : a = b
        · subst hab
          have : as ≠ bs := fun h' => hne (by rw [h'])
          simpa [lexLt] using ih bs this
        · have hba : ¬ b = a := fun h' => hab h'.symm
          simpa [lexLt, hab, hba] using h.tri a b hab
  trans := by
    intro l₁
    induction l₁ with
    | nil =>
      intro l₂ l₃ h12 h23
      cases l₃ with
      | nil => rw [lexLt_nil_right] at h23; cases h23
      | cons c cs => rfl
    | cons a as ih =>
      intro l₂ l₃ h12 h23
      cases l₂ with
      | nil => cases h12
      | cons b bs =>
        cases l₃ with
        | nil => cases h23
        | cons c cs =>
          by_cases hab : a = b
          · subst hab
            by_cases hac : a = c
            · subst hac
              simp only [lexLt, if_true] at h12 h23 ⊢
              exact ih bs cs h12 h23
            · simp only [lexLt, if_true, hac, if_false] at h12 h23 ⊢
              exact h23
          · by_cases hbc : b = c
            · subst hbc
              simp only [lexLt, hab, if_false] at h12 ⊢
              exact h12
            · simp only [lexLt, hab, hbc, if_false] at h12 h23
              have hac' := h.trans a b c h12 h23
              have hac : a ≠ c := by
                intro hEq; subst hEq
                have := h.asymm h12; rw [this] at h23; cases h23
              simp only [lexLt, hac, if_false]
              exact hac'

/-- lexicographic order on pairs, as CPython compares 2-tuples -/
def pairLt {α β : Type} [DecidableEq α] (lt1 : α → α → Bool) (lt2 : β → β → Bool) (a b : α × β) : Bool :=
  if a.1 = b.1 then lt2 a.2 b.2 else lt1 a.1 b.1

theorem pairLt_sto {α β : Type} [DecidableEq α] {lt1 : α → α → Bool} {lt2 : β → β → Bool}
    (h1 : STO lt1) (h2 : STO lt2) : STO (pairLt lt1 lt2) where
  irrefl := by intro a; simp [pairLt, h2.irrefl]
  tri := by
    intro ⟨a1, a2⟩ ⟨b1, b2⟩ hne
    simp only [pairLt]
    by_cases h : a1 = b1
    · subst h
      have : a2 ≠ b2 := fun h' => hne (by rw [h'])
      simp only [if_true]
      exact h2.tri a2 b2 this
    · have h' : ¬ b1 = a1 := fun e => h e.symm
      simp only [h, h', if_false]
      exact h1.tri a1 b1 h
  trans := by
    intro ⟨a1, a2⟩ ⟨b1, b2⟩ ⟨c1, c2⟩ hab hbc
    simp only [pairLt] at hab hbc ⊢
    by_cases e1 : a1 = b1
    · subst e1
      by_cases e2 : a1 = c1
      · subst e2
        simp only [if_true] at hab hbc ⊢
        exact h2.trans _ _ _ hab hbc
      · simp only [if_true, e2, if_false] at hab hbc ⊢
        exact hbc
    · by_cases e2 : b1 = c1
      · subst e2
        simp only [e1, if_false] at hab ⊢
        exact hab
      · simp only [e1, e2, if_false] at hab hbc
        have hac := h1.trans _ _ _ hab hbc
        have e3 : ¬ a1 = c1 := by
          intro e; subst e
          have := h1.asymm hab; rw [this] at hbc; cases hbc
        simp only [e3, if_false]
        exact hac

def natLt (a b : Nat) : Bool := decide (a < b)

theorem natLt_sto : STO natLt where
  irrefl := by intro a; simp [natLt]
  trans := by intro a b c h1 h2; simp [natLt] at *; omega
  tri := by intro a b h; simp [natLt]; omega

/-- a total extension of `partLt?` (`str` before `int`); it agrees with `partLt?` whenever that is defined -/
def partLtT : KeyPart → KeyPart → Bool
  | .s a, .s b => lexLt natLt a b
  | .n a, .n b => natLt a b
  | .s _, .n _ => true
  | .n _, .s _ => false

theorem partLtT_sto : STO partLtT where
  irrefl := by
    intro a; cases a
    · exact (lexLt_sto natLt_sto).irrefl _
    · exact natLt_sto.irrefl _
  trans := by
    intro a b c h1 h2
    cases a <;> cases b <;> cases c <;> simp only [partLtT] at h1 h2 ⊢ <;> first
      | exact (lexLt_sto natLt_sto).trans _ _ _ h1 h2
      | exact natLt_sto.trans _ _ _ h1 h2
      | rfl
      | contradiction
  tri := by
    intro a b hne
    cases a with
    | s x =>
      cases b with
      | s y => exact (lexLt_sto natLt_sto).tri x y (fun e => hne (by rw [e]))
      | n y => exact Or.inl rfl
    | n x =>
      cases b with
      | s y => exact Or.inr rfl
      | n y => exact natLt_sto.tri x y (fun e => hne (by rw [e]))

theorem partLt?_eq {a b : KeyPart} {r : Bool} (h : partLt? a b = some r) : r = partLtT a b := by
  cases a <;> cases b <;> simp [partLt?] at h <;> subst h <;> rfl

def KeyPart.isS : KeyPart → Bool
  | .s _ => true
  | .n _ => false

/-- the two tuples have elements of the same type at every common position -/
def Compat (l₁ l₂ : List KeyPart) : Prop :=
  ∀ (i : Nat) (x y : KeyPart), l₁[i]? = some x → l₂[i]? = some y → x.isS = y.isS

theorem partLt?_some_of_isS {a b : KeyPart} (h : a.isS = b.isS) : partLt? a b = some (partLtT a b) := by
  cases a <;> cases b <;> simp [KeyPart.isS] at h <;> rfl

/-- on type-compatible tuples CPython's comparison is defined and is the lexicographic order -/
theorem tupleLt?_eq : ∀ (l₁ l₂ : List KeyPart), Compat l₁ l₂ → tupleLt? l₁ l₂ = some (lexLt partLtT l₁ l₂)
  | [], [], _ => rfl
  | [], _ :: _, _ => rfl
  | _ :: _, [], _ => rfl
  | a :: as, b :: bs, hc => by
    have h0 : a.isS = b.isS := hc 0 a b rfl rfl
    have ht : Compat as bs := fun i x y hx hy => hc (i + 1) x y (by simpa using hx) (by simpa using hy)
    by_cases hab : a = b
    · simp only [tupleLt?, lexLt, hab, if_true]; exact tupleLt?_eq as bs ht
    · simp only [tupleLt?, lexLt, hab, if_false]; exact partLt?_some_of_isS h0

/-! ### the shape of `re.split(r"(\d+)", name)` -/

def noDigit (p : List Char) : Prop := ∀ c ∈ p, isAsciiDigit c = false

/-- text, digits, text, …, text -/
def AltT : List (List Char) → Prop
  | [] => False
  | [t] => noDigit t
  | t :: d :: rest => noDigit t ∧ isDigitPart d = true ∧ AltT rest

theorem isDigitPart_reverse {cur : List Char} (hne : cur ≠ []) (hd : ∀ c ∈ cur, isAsciiDigit c = true) :
    isDigitPart cur.reverse = true := by
  simp only [isDigitPart, Bool.and_eq_true, Bool.not_eq_true', List.isEmpty_eq_false_iff, ne_eq,
    List.reverse_eq_nil_iff, List.all_eq_true, List.mem_reverse]
  exact ⟨hne, hd⟩

theorem noDigit_reverse {cur : List Char} (h : ∀ c ∈ cur, isAsciiDigit c = false) : noDigit cur.reverse := by
  intro c hc; exact h c (List.mem_reverse.mp hc)

theorem splitAux_alt : ∀ (cs cur : List Char),
    ((∀ c ∈ cur, isAsciiDigit c = false) → AltT (splitAux cs cur false)) ∧
    (cur ≠ [] → (∀ c ∈ cur, isAsciiDigit c = true) →
      ∃ d rest, splitAux cs cur true = d :: rest ∧ isDigitPart d = true ∧ AltT rest)
  | [], cur => by
    constructor
    · intro h; simpa [splitAux, AltT] using noDigit_reverse h
    · intro hne hd
      exact ⟨cur.reverse, [[]], by simp [splitAux], isDigitPart_reverse hne hd, by simp [AltT, noDigit]⟩
  | c :: t, cur => by
    constructor
    · intro h
      by_cases hc : isAsciiDigit c = true
      · simp only [splitAux, hc, if_true, Bool.false_eq_true, if_false]
        obtain ⟨d, rest, he, hd, hr⟩ := (splitAux_alt t [c]).2 (by simp) (by simpa using hc)
        rw [he]
        exact ⟨noDigit_reverse h, hd, hr⟩
      · have hc' : isAsciiDigit c = false := by simpa using hc
        simp only [splitAux, hc', Bool.false_eq_true, if_false]
        exact (splitAux_alt t (c :: cur)).1 (by
          intro x hx; rcases List.mem_cons.mp hx with rfl | hx
          · exact hc'
          · exact h x hx)
    · intro hne hd
      by_cases hc : isAsciiDigit c = true
      · simp only [splitAux, hc, if_true]
        exact (splitAux_alt t (c :: cur)).2 (by simp) (by
          intro x hx; rcases List.mem_cons.mp hx with rfl | hx
          · exact hc
          · exact hd x hx)
      · have hc' : isAsciiDigit c = false := by simpa using hc
        simp only [splitAux, hc', Bool.false_eq_true, if_false, if_true]
        exact ⟨cur.reverse, _, rfl, isDigitPart_reverse hne hd,
          (splitAux_alt t [c]).1 (by simpa using hc')⟩

theorem isDigitPart_of_noDigit {t : List Char} (h : noDigit t) : isDigitPart t = false := by
  cases t with
  | nil => rfl
  | cons c t =>
    have := h c (List.mem_cons_self)
    simp [isDigitPart, this]

/-- element `i` of the key is a `str` exactly at the even positions -/
theorem sortKey_kind_aux : ∀ (parts : List (List Char)), AltT parts → ∀ i x,
    (parts.map fun p => if isDigitPart p then KeyPart.n (digitsToNat p) else KeyPart.s (p.map Char.toNat))[i]? = some x →
    x.isS = decide (i % 2 = 0)
  | [], h, _, _, _ => by cases h
  | [t], h, i, x, hx => by
    have ht := isDigitPart_of_noDigit h
    cases i with
    | zero => simp [ht] at hx; subst hx; rfl
    | succ i => simp at hx
  | t :: d :: rest, h, i, x, hx => by
    obtain ⟨h1, h2, h3⟩ := h
    have ht := isDigitPart_of_noDigit h1
    match i with
    | 0 => simp [ht] at hx; subst hx; rfl
    | 1 => simp [h2] at hx; subst hx; rfl
    | i + 2 =>
      have := sortKey_kind_aux rest h3 i x (by simpa using hx)
      rw [this]; simp

theorem sortKey_kind (name : String) (i : Nat) (x : KeyPart) (h : (sortKey name)[i]? = some x) :
    x.isS = decide (i % 2 = 0) :=
  sortKey_kind_aux _ ((splitAux_alt name.toList []).1 (by simp)) i x h

theorem sortKey_compat (a b : String) : Compat (sortKey a) (sortKey b) := by
  intro i x y hx hy
  rw [sortKey_kind a i x hx, sortKey_kind b i y hy]

/-! ### the order on names -/

/-- the key `(sort_key, name)` as a pair -/
def fullKey (name : String) : List KeyPart × List Nat := (sortKey name, codes name)

def keyLtT (a b : String) : Bool := pairLt (lexLt partLtT) (lexLt natLt) (fullKey a) (fullKey b)

theorem keyLt?_eq (a b : String) : keyLt? a b = some (keyLtT a b) := by
  unfold keyLt? keyLtT pairLt fullKey
  by_cases h : sortKey a = sortKey b
  · simp only [h, if_true]; rfl
  · simp only [h, if_false]; exact tupleLt?_eq _ _ (sortKey_compat a b)

theorem codes_injective {a b : String} (h : codes a = codes b) : a = b := by
  unfold codes at h
  exact String.ext ((List.map_inj_right (fun x y hxy => Char.toNat_inj.mp hxy)).mp h)

theorem fullKey_injective {a b : String} (h : fullKey a = fullKey b) : a = b :=
  codes_injective (congrArg Prod.snd h)

theorem keyLtT_sto : STO keyLtT where
  irrefl := fun a => (pairLt_sto (lexLt_sto partLtT_sto) (lexLt_sto natLt_sto)).irrefl _
  trans := fun a b c => (pairLt_sto (lexLt_sto partLtT_sto) (lexLt_sto natLt_sto)).trans _ _ _
  tri := fun a b hne => (pairLt_sto (lexLt_sto partLtT_sto) (lexLt_sto natLt_sto)).tri _ _
    (fun e => hne (fullKey_injective e))

theorem varLe_eq (a b : Var) : varLe a b = !keyLtT b.name a.name := by
  unfold varLe
  rw [keyLt?_eq]
  cases keyLtT b.name a.name <;> rfl

theorem varLe_total (a b : Var) : (varLe a b || varLe b a) = true := by
  rw [varLe_eq, varLe_eq]
  cases h : keyLtT b.name a.name with
  | false => rfl
  | true => rw [keyLtT_sto.asymm h]; rfl

theorem varLe_trans (a b c : Var) (h1 : varLe a b = true) (h2 : varLe b c = true) : varLe a c = true := by
  rw [varLe_eq] at *
  cases h : keyLtT c.name a.name with
  | false => rfl
  | true =>
    rcases keyLtT_sto.negTrans (b := b.name) h with h' | h'
    · rw [h'] at h2; cases h2
    · rw [h'] at h1; cases h1

theorem varLe_antisymm (a b : Var) (h1 : varLe a b = true) (h2 : varLe b a = true) : a.name = b.name := by
  rw [varLe_eq] at *
  by_cases h : a.name = b.name
  · exact h
  · rcases keyLtT_sto.tri a.name b.name h with h' | h'
    · rw [h'] at h2; cases h2
    · rw [h'] at h1; cases h1

end Optyx.Py.Api
