/-
  Optyx.Lemmas.Simplify — meaning of the (regenerated) algebraic simplifiers over ℝ:
  each `_simplify_X(a, b)` denotes `a X b`.  These are the facts every derivative proof uses.
-/
import Optyx.Lemmas.Real
import Optyx.Generated.GradRules

namespace Optyx
open NumAlg Optyx.Generated

variable (ρ : String → ℝ) (σ : Nat → ℝ)

@[simp] theorem denote_c (q : Rat) : denote ρ σ (Expr.c q) = (q : ℝ) := by
  simp [Expr.c, denote]

theorem isZero_denote {e : Expr} (h : isZero e = true) : denote ρ σ e = 0 := by
  unfold isZero at h
  split at h
  · rename_i q
    have : q = 0 := by simpa using h
    subst this; simp [denote]
  · simp at h

theorem isOne_denote {e : Expr} (h : isOne e = true) : denote ρ σ e = 1 := by
  unfold isOne at h
  split at h
  · rename_i q
    have : q = 1 := by simpa using h
    subst this; simp [denote]
  · simp at h

@[simp] theorem denote_sNeg (e : Expr) : denote ρ σ (sNeg e) = - denote ρ σ e := by
  unfold sNeg
  split
  · rename_i h; simp [isZero_denote ρ σ h]
  · split
    · simp [denote]
    · simp [denote]

@[simp] theorem denote_sAdd (a b : Expr) : denote ρ σ (sAdd a b) = denote ρ σ a + denote ρ σ b := by
  unfold sAdd
  split
  · rename_i h; simp [isZero_denote ρ σ h]
  · split
    · rename_i h; simp [isZero_denote ρ σ h]
    · simp [denote]

@[simp] theorem denote_sSub (a b : Expr) : denote ρ σ (sSub a b) = denote ρ σ a - denote ρ σ b := by
  unfold sSub
  split
  · rename_i h; simp [isZero_denote ρ σ h]
  · split
    · rename_i h; simp [isZero_denote ρ σ h]
    · simp [denote]

@[simp] theorem denote_sMul (a b : Expr) : denote ρ σ (sMul a b) = denote ρ σ a * denote ρ σ b := by
  unfold sMul
  split
  · rename_i h
    rcases Bool.or_eq_true _ _ |>.mp h with h | h <;> simp [isZero_denote ρ σ h]
  · split
    · rename_i h; simp [isOne_denote ρ σ h]
    · split
      · rename_i h; simp [isOne_denote ρ σ h]
      · simp [denote]

@[simp] theorem denote_sDiv (a b : Expr) : denote ρ σ (sDiv a b) = denote ρ σ a / denote ρ σ b := by
  unfold sDiv
  split
  · rename_i h; simp [isZero_denote ρ σ h]
  · split
    · rename_i h; simp [isOne_denote ρ σ h]
    · simp [denote]

/-- `_simplify_pow` is only ever called with a literal exponent (`Constant(n - 1)`). -/
theorem denote_sPow_lit (b : Expr) (q : Rat) :
    denote ρ σ (sPow b (Expr.c q)) = (denote ρ σ b) ^ (q : ℝ) := by
  unfold sPow
  split
  · rename_i h
    have hq : q = 0 := by simpa [isZero, Expr.c] using h
    subst hq; simp
  · rename_i h0
    have hq0 : q ≠ 0 := by
      intro hq; apply h0; subst hq; simp [isZero, Expr.c]
    split
    · rename_i h
      have hq : q = 1 := by simpa [isOne, Expr.c] using h
      subst hq; simp
    · split
      · rename_i h
        rw [isZero_denote ρ σ h, denote_c]
        have : (q : ℝ) ≠ 0 := by exact_mod_cast hq0
        simp [Real.zero_rpow this]
      · split
        · rename_i h
          rw [isOne_denote ρ σ h]; simp
        · simp [denote]

end Optyx
