/-
  Optyx.Lemmas.IterGrad — the explicit-stack differentiator with its id-keyed memo refines the
  recursive differentiator on every DAG whose identities are consistent (equal id ⇒ equal
  subtree), in at most `2 · nodes` loop iterations.  Core Lean only.
-/
import Optyx.Lemmas.CompileBasic
import Optyx.Py.GradIter

namespace Optyx.Py
open Optyx Optyx.Generated

namespace ITree

/-- all sub-DAG nodes (with repetition along shared paths) -/
def subs : ITree → List ITree
  | leaf i a => [leaf i a]
  | un i op a => un i op a :: a.subs
  | bin i op l r => bin i op l r :: (l.subs ++ r.subs)

theorem self_mem_subs (t : ITree) : t ∈ t.subs := by cases t <;> simp [subs]

theorem subs_trans {s t u : ITree} (h1 : s ∈ t.subs) (h2 : t ∈ u.subs) : s ∈ u.subs := by
  induction u with
  | leaf i a => simp [subs] at h2; subst h2; exact h1
  | un i op a ih =>
    simp only [subs, List.mem_cons] at h2 ⊢
    rcases h2 with rfl | h2
    · simpa [subs] using h1
    · exact Or.inr (ih h2)
  | bin i op l r ihl ihr =>
    simp only [subs, List.mem_cons, List.mem_append] at h2 ⊢
    rcases h2 with rfl | h2 | h2
    · simpa [subs] using h1
    · exact Or.inr (Or.inl (ihl h2))
    · exact Or.inr (Or.inr (ihr h2))

@[simp] theorem id_leaf (i : Nat) (a : Atom) : (leaf i a).id = i := rfl
@[simp] theorem id_un (i : Nat) (op : UnOp) (a : ITree) : (un i op a).id = i := rfl
@[simp] theorem id_bin (i : Nat) (op : BinOp) (l r : ITree) : (bin i op l r).id = i := rfl

end ITree
open ITree

/-- identities are consistent inside `root`: one id, one object, hence one subtree -/
def Consistent (root : ITree) : Prop :=
  ∀ s₁ ∈ root.subs, ∀ s₂ ∈ root.subs, s₁.id = s₂.id → s₁ = s₂

theorem atomGrad_eq (wrt : Var) (a : Atom) : atomGrad wrt a = grad wrt a.toExpr := by
  cases a <;> simp [atomGrad, Atom.toExpr, grad]

theorem binaryRuleIter_eq (op : BinOp) (l r dl dr s : Expr) :
    binaryRuleIter op l r dl dr s = binaryRule op l r dl dr s := by cases op <;> rfl
theorem unaryRuleIter_eq (op : UnOp) (a da s : Expr) :
    unaryRuleIter op a da s = unaryRule op a da s := by cases op <;> rfl

theorem grun_add (wrt : Var) (m n : Nat) (s : GSt) :
    grun wrt (m + n) s = (grun wrt m s >>= grun wrt n) := by
  induction m generalizing s with
  | zero => simp [grun]
  | succ m ih =>
    rw [Nat.succ_add]
    simp only [grun]
    cases gstep wrt s with
    | error e => simp
    | ok s' => simp [ih]

theorem grun_one (wrt : Var) (s : GSt) : grun wrt 1 s = gstep wrt s := by
  simp only [grun]
  cases gstep wrt s <;> rfl

theorem grun_done (wrt : Var) (n : Nat) (R : GRes) : grun wrt n ⟨[], R⟩ = .ok ⟨[], R⟩ := by
  induction n with
  | zero => rfl
  | succ n ih => simp [grun, gstep, ih]

/-- memo invariant: every stored value is the recursive gradient of the node with that id -/
def RInv (wrt : Var) (root : ITree) (R : GRes) : Prop :=
  ∀ s ∈ root.subs, ∀ o, glook R s.id = some o → o = grad wrt s.erase

def Ext (R R' : GRes) : Prop := ∀ i o, glook R i = some o → glook R' i = some o

theorem glook_cons_self (R : GRes) (i : Nat) (o : Expr) : glook ((i, o) :: R) i = some o := by
  simp [glook]
theorem glook_cons_ne (R : GRes) {i j : Nat} (o : Expr) (h : i ≠ j) :
    glook ((i, o) :: R) j = glook R j := by
  simp [glook, h]

theorem RInv_insert {wrt : Var} {root : ITree} (hc : Consistent root) {R : GRes}
    (hR : RInv wrt root R) {t : ITree} (ht : t ∈ root.subs) :
    RInv wrt root ((t.id, grad wrt t.erase) :: R) := by
  intro s hs o ho
  by_cases h : t.id = s.id
  · have : t = s := hc t ht s hs h
    subst this
    rw [glook_cons_self] at ho; exact (Option.some.inj ho).symm
  · rw [glook_cons_ne R _ h] at ho; exact hR s hs o ho

theorem Ext_insert {R : GRes} {i : Nat} (o : Expr) (h : glook R i = none) : Ext R ((i, o) :: R) := by
  intro j o' hj
  by_cases hij : i = j
  · subst hij; rw [h] at hj; cases hj
  · rw [glook_cons_ne R o hij]; exact hj

theorem Ext_refl (R : GRes) : Ext R R := fun _ _ h => h
theorem Ext_trans {R₁ R₂ R₃ : GRes} (h₁ : Ext R₁ R₂) (h₂ : Ext R₂ R₃) : Ext R₁ R₃ :=
  fun i o h => h₂ i o (h₁ i o h)

/-- main lemma: the frame `(t, 0)` is finished within `2·nodes t` iterations with `t`'s gradient
    memoised, the memo still correct and only extended, the rest of the stack untouched -/
theorem grun_node (wrt : Var) (root : ITree) (hc : Consistent root) :
    ∀ t ∈ root.subs, ∀ (rest : List (ITree × Nat)) (R : GRes), RInv wrt root R →
      ∃ n R', n ≤ 2 * t.nodes ∧ grun wrt n ⟨(t, 0) :: rest, R⟩ = .ok ⟨rest, R'⟩ ∧
        RInv wrt root R' ∧ Ext R R' ∧ glook R' t.id = some (grad wrt t.erase) := by
  intro t
  induction t with
  | leaf i a =>
    intro ht rest R hR
    cases hl : glook R i with
    | some o =>
      refine ⟨1, R, by (simp [nodes]; try omega), ?_, hR, Ext_refl R, ?_⟩
      · simp [grun_one, gstep, hl]
      · have := hR _ ht o (by simpa using hl); simpa [this] using hl
    | none =>
      refine ⟨1, (i, grad wrt (leaf i a).erase) :: R, by (simp [nodes]; try omega), ?_, ?_, Ext_insert _ hl, ?_⟩
      · simp [grun_one, gstep, hl, atomGrad_eq, erase]
      · simpa using RInv_insert hc hR ht
      · simpa using glook_cons_self R i _
  | un i op a iha =>
    intro ht rest R hR
    have hat : a ∈ root.subs := subs_trans (by simp [subs, self_mem_subs]) ht
    have hspec : ∀ d, d = grad wrt a.erase →
        unaryRuleIter op a.erase d (Expr.un op a.erase) = grad wrt (un i op a).erase := by
      intro d hd; subst hd; simp [erase, grad, unaryRuleIter_eq]
    cases hl : glook R i with
    | some o =>
      refine ⟨1, R, by (simp [nodes]; try omega), ?_, hR, Ext_refl R, ?_⟩
      · simp [grun_one, gstep, hl]
      · have := hR _ ht o (by simpa using hl); simpa [this] using hl
    | none =>
      cases hla : glook R a.id with
      | some d =>
        have hd : d = grad wrt a.erase := hR a hat d hla
        refine ⟨1, (i, grad wrt (un i op a).erase) :: R, by (simp [nodes]; try omega), ?_, ?_, Ext_insert _ hl, ?_⟩
        · simp [grun_one, gstep, hl, hla, hspec d hd]
        · simpa using RInv_insert hc hR ht
        · simpa using glook_cons_self R i _
      | none =>
        obtain ⟨n, R₁, hn, hrun, hR₁, hext, hlook⟩ := iha hat ((un i op a, 1) :: rest) R hR
        have h0 : grun wrt 1 ⟨(un i op a, 0) :: rest, R⟩ = .ok ⟨(a, 0) :: (un i op a, 1) :: rest, R⟩ := by
          simp [grun_one, gstep, hl, hla]
        cases hl₁ : glook R₁ i with
        | some o =>
          refine ⟨1 + (n + 1), R₁, by (simp [nodes]; omega), ?_, hR₁, hext, ?_⟩
          · rw [grun_add, h0, ok_bind, grun_add, hrun, ok_bind]; simp [grun_one, gstep, hl₁]
          · have := hR₁ _ ht o (by simpa using hl₁); simpa [this] using hl₁
        | none =>
          refine ⟨1 + (n + 1), (i, grad wrt (un i op a).erase) :: R₁, by (simp [nodes]; omega), ?_, ?_,
            Ext_trans hext (Ext_insert _ hl₁), ?_⟩
          · rw [grun_add, h0, ok_bind, grun_add, hrun, ok_bind]
            simp [grun_one, gstep, hl₁, gget, hlook, hspec _ rfl]
          · simpa using RInv_insert hc hR₁ ht
          · simpa using glook_cons_self R₁ i _
  | bin i op l r ihl ihr =>
    intro ht rest R hR
    have hlt : l ∈ root.subs := subs_trans (by simp [subs, self_mem_subs]) ht
    have hrt : r ∈ root.subs := subs_trans (by simp [subs, self_mem_subs]) ht
    have hspec : ∀ dl dr, dl = grad wrt l.erase → dr = grad wrt r.erase →
        binaryRuleIter op l.erase r.erase dl dr (Expr.bin op l.erase r.erase) =
          grad wrt (bin i op l r).erase := by
      intro dl dr h1 h2; subst h1; subst h2; simp [erase, grad, binaryRuleIter_eq]
    cases hl : glook R i with
    | some o =>
      refine ⟨1, R, by (simp [nodes]; try omega), ?_, hR, Ext_refl R, ?_⟩
      · simp [grun_one, gstep, hl]
      · have := hR _ ht o (by simpa using hl); simpa [this] using hl
    | none =>
      -- the finishing step shared by all sub-cases: both children memoised, frame (t, 1) on top
      have finish : ∀ (R₁ : GRes), RInv wrt root R₁ → Ext R R₁ →
          glook R₁ l.id = some (grad wrt l.erase) → glook R₁ r.id = some (grad wrt r.erase) →
          ∃ R', grun wrt 1 ⟨(bin i op l r, 1) :: rest, R₁⟩ = .ok ⟨rest, R'⟩ ∧ RInv wrt root R' ∧
            Ext R R' ∧ glook R' i = some (grad wrt (bin i op l r).erase) := by
        intro R₁ hR₁ hext h1 h2
        cases hl₁ : glook R₁ i with
        | some o =>
          refine ⟨R₁, ?_, hR₁, hext, ?_⟩
          · simp [grun_one, gstep, hl₁]
          · have := hR₁ _ ht o (by simpa using hl₁); simpa [this] using hl₁
        | none =>
          refine ⟨(i, grad wrt (bin i op l r).erase) :: R₁, ?_, ?_, Ext_trans hext (Ext_insert _ hl₁), ?_⟩
          · simp [grun_one, gstep, hl₁, gget, h1, h2, hspec _ _ rfl rfl]
          · simpa using RInv_insert hc hR₁ ht
          · exact glook_cons_self R₁ i _
      cases hll : glook R l.id with
      | some dl =>
        have hdl : dl = grad wrt l.erase := hR l hlt dl hll
        cases hlr : glook R r.id with
        | some dr =>
          have hdr : dr = grad wrt r.erase := hR r hrt dr hlr
          refine ⟨1, (i, grad wrt (bin i op l r).erase) :: R, by (simp [nodes]; try omega), ?_, ?_, Ext_insert _ hl, ?_⟩
          · simp [grun_one, gstep, hl, hll, hlr, hspec dl dr hdl hdr]
          · simpa using RInv_insert hc hR ht
          · simpa using glook_cons_self R i _
        | none =>
          obtain ⟨n, R₁, hn, hrun, hR₁, hext, hlook⟩ := ihr hrt ((bin i op l r, 1) :: rest) R hR
          obtain ⟨R', hfin, hR', hext', hlook'⟩ :=
            finish R₁ hR₁ hext (hext _ _ (by rw [hll, hdl])) hlook
          have h0 : grun wrt 1 ⟨(bin i op l r, 0) :: rest, R⟩ =
              .ok ⟨(r, 0) :: (bin i op l r, 1) :: rest, R⟩ := by
            simp [grun_one, gstep, hl, hll, hlr]
          refine ⟨1 + (n + 1), R', by (simp [nodes]; omega), ?_, hR', hext', by simpa using hlook'⟩
          rw [grun_add, h0, ok_bind, grun_add, hrun, ok_bind, hfin]
      | none =>
        cases hlr : glook R r.id with
        | some dr =>
          have hdr : dr = grad wrt r.erase := hR r hrt dr hlr
          obtain ⟨n, R₁, hn, hrun, hR₁, hext, hlook⟩ := ihl hlt ((bin i op l r, 1) :: rest) R hR
          obtain ⟨R', hfin, hR', hext', hlook'⟩ :=
            finish R₁ hR₁ hext hlook (hext _ _ (by rw [hlr, hdr]))
          have h0 : grun wrt 1 ⟨(bin i op l r, 0) :: rest, R⟩ =
              .ok ⟨(l, 0) :: (bin i op l r, 1) :: rest, R⟩ := by
            simp [grun_one, gstep, hl, hll, hlr]
          refine ⟨1 + (n + 1), R', by (simp [nodes]; omega), ?_, hR', hext', by simpa using hlook'⟩
          rw [grun_add, h0, ok_bind, grun_add, hrun, ok_bind, hfin]
        | none =>
          obtain ⟨n₁, R₁, hn₁, hrun₁, hR₁, hext₁, hlook₁⟩ :=
            ihl hlt ((r, 0) :: (bin i op l r, 1) :: rest) R hR
          obtain ⟨n₂, R₂, hn₂, hrun₂, hR₂, hext₂, hlook₂⟩ := ihr hrt ((bin i op l r, 1) :: rest) R₁ hR₁
          obtain ⟨R', hfin, hR', hext', hlook'⟩ :=
            finish R₂ hR₂ (Ext_trans hext₁ hext₂) (hext₂ _ _ hlook₁) hlook₂
          have h0 : grun wrt 1 ⟨(bin i op l r, 0) :: rest, R⟩ =
              .ok ⟨(l, 0) :: (r, 0) :: (bin i op l r, 1) :: rest, R⟩ := by
            simp [grun_one, gstep, hl, hll, hlr]
          refine ⟨1 + (n₁ + (n₂ + 1)), R', by (simp [nodes]; omega), ?_, hR', hext', by simpa using hlook'⟩
          rw [grun_add, h0, ok_bind, grun_add, hrun₁, ok_bind, grun_add, hrun₂, ok_bind, hfin]

/-- the loop returns the recursive gradient -/
theorem gradLoop_eq (wrt : Var) (t : ITree) (hc : Consistent t) (fuel : Nat) (hf : fuel ≥ 2 * t.nodes) :
    gradLoop fuel wrt t = .ok (grad wrt t.erase) := by
  obtain ⟨n, R, hn, hrun, _, _, hl⟩ := grun_node wrt t hc t (self_mem_subs t) [] []
    (by intro s _ o ho; simp [glook] at ho)
  obtain ⟨k, rfl⟩ : ∃ k, fuel = n + k := ⟨fuel - n, by omega⟩
  unfold gradLoop
  rw [grun_add, hrun, ok_bind, grun_done]
  simp [hl]

theorem gradIter_eq_grad (wrt : Var) (t : ITree) (hc : Consistent t) (fuel : Nat)
    (hf : fuel ≥ 2 * t.nodes) : gradIter fuel wrt t = .ok (grad wrt t.erase) := by
  unfold gradIter
  cases h : t.rootRule with
  | none => exact gradLoop_eq wrt t hc fuel hf
  | some a =>
    cases t with
    | leaf i b =>
      simp only [rootRule] at h
      split at h
      · simp only [Option.some.injEq] at h; subst h; simp [erase]
      · cases h
    | un i op b => simp [rootRule] at h
    | bin i op l r => simp [rootRule] at h

end Optyx.Py
