/-
  Optyx.Lemmas.ParamHess — the Hessian observation of the parameter refinement (C12).

  `substParams σ e` (every Parameter replaced by the Constant holding its current value) and `e`
  mean the same function of the variables; hence — by the derivative theorem of C02 used at every
  nearby regular point, not by a syntactic argument — their symbolic first and second derivatives
  mean the same too:
      ⟦hessEntry (substParams σ e) vi vj⟧ ρ σ' = ⟦hessEntry e vi vj⟧ ρ (storeOf σ)
  at every regular point of a well-formed `e`.
-/
import Optyx.Lemmas.HessSecond
import Optyx.Lemmas.StateSubst
import Optyx.Lemmas.StateParam

namespace Optyx.Py.State
open Optyx Optyx.Py NumAlg Filter Topology

section wf
variable (τ : Par → Expr)

theorem length_mapParList : (es : ExprList) → (mapParList τ es).length = es.length
  | .nil => by simp [mapParList, ExprList.length]
  | .cons e t => by simp [mapParList, ExprList.length, length_mapParList t]

theorem len_mapParVec (v : Vec) : (mapParVec τ v).len = v.len := by
  cases v <;> simp [mapParVec, Vec.len, length_mapParList]

variable (hτ : ∀ p, WF (τ p))
include hτ

mutual
theorem wf_mapPar : (e : Expr) → WF e → WF (mapPar τ e)
  | .const _, _ => by simp [mapPar, WF]
  | .var _, _ => by simp [mapPar, WF]
  | .param p, _ => by simpa [mapPar] using hτ p
  | .bin _ l r, h => by
    simp only [WF] at h
    simp only [mapPar, WF]; exact ⟨wf_mapPar l h.1, wf_mapPar r h.2⟩
  | .un _ a, h => by
    simp only [WF] at h
    simp only [mapPar, WF]; exact wf_mapPar a h
  | .linComb cs v, h => by
    simp only [WF] at h
    simp only [mapPar, WF]; exact ⟨wfVec_mapPar v h.1, by rw [len_mapParVec]; exact h.2⟩
  | .vecSum _, h => by simpa [mapPar] using h
  | .exprSum es, h => by
    simp only [WF] at h
    simp only [mapPar, WF]; exact wfList_mapPar es h
  | .dot l r, h => by
    simp only [WF] at h
    simp only [mapPar, WF]
    refine ⟨wfVec_mapPar l h.1, wfVec_mapPar r h.2.1, by rw [len_mapParVec, len_mapParVec]; exact h.2.2.1, ?_⟩
    cases l <;> cases r <;> simp only [mapParVec] <;> first | exact h.2.2.2 | trivial
  | .l2 v, h => by
    simp only [WF] at h
    simp only [mapPar, WF]; exact wfVec_mapPar v h
  | .l1 v, h => by
    simp only [WF] at h
    simp only [mapPar, WF]; exact wfVec_mapPar v h
  | .quad v q, h => by
    simp only [WF] at h
    simp only [mapPar, WF]
    exact ⟨wfVec_mapPar v h.1, by rw [len_mapParVec]; exact h.2.1, by rw [len_mapParVec]; exact h.2.2⟩
  | .powSum _ _, h => by simpa [mapPar] using h
  | .unSum _ _, h => by simpa [mapPar] using h
  | .matSumV _, h => by simpa [mapPar] using h
  | .matSumE es, h => by
    simp only [WF] at h
    simp only [mapPar, WF]; exact wfList_mapPar es h
  | .frob _, h => by simpa [mapPar] using h
theorem wfVec_mapPar : (v : Vec) → WFVec v → WFVec (mapParVec τ v)
  | .vars _, h => by simpa [mapParVec] using h
  | .exprs es, h => by
    simp only [WFVec] at h
    simp only [mapParVec, WFVec]; exact wfList_mapPar es h
theorem wfList_mapPar : (es : ExprList) → WFList es → WFList (mapParList τ es)
  | .nil, _ => by simp [mapParList, WFList]
  | .cons e t, h => by
    simp only [WFList] at h
    simp only [mapParList, WFList]; exact ⟨wf_mapPar e h.1, wfList_mapPar t h.2⟩
end

end wf

section regular
variable (ρ : String → ℝ) (σ : Nat → Rat) (σ' : Nat → ℝ)

/-- the substitution of `substParams σ` -/
def constOf (σ : Nat → Rat) : Par → Expr := fun p => .const (.rat (σ p.oid))

theorem substParams_eq (e : Expr) : substParams σ e = mapPar (constOf σ) e := rfl

theorem constOf_means (p : Par) : denote ρ σ' (constOf σ p) = (storeOf σ : Nat → ℝ) p.oid := by
  simp [constOf, denote, storeOf]

theorem powCond_mapPar (r : Expr) (b : ℝ) (h : powCond r b) : powCond (mapPar (constOf σ) r) b := by
  cases r with
  | const c => simpa [mapPar] using h
  | param p =>
    have hpos : 0 < b := h
    simp only [mapPar, constOf, powCond]
    exact Or.inr (Or.inr ⟨fun _ => Or.inl hpos.ne', fun _ => hpos⟩)
  | _ => simpa [mapPar, powCond] using h

private theorem regular_bin4 {ρ' : String → ℝ} {σ'' : Nat → ℝ} {op : BinOp} {l r : Expr}
    (h : Regular ρ' σ'' (.bin op l r)) : Regular ρ' σ'' l ∧ Regular ρ' σ'' r := by
  cases op
  · exact h
  · exact h
  · exact h
  · exact ⟨h.1, h.2.1⟩
  · exact ⟨h.1, h.2.1⟩

mutual
theorem regular_mapPar : (e : Expr) → Regular ρ (storeOf σ) e → Regular ρ σ' (mapPar (constOf σ) e)
  | .const _, _ => by simp [mapPar, Regular]
  | .var _, _ => by simp [mapPar, Regular]
  | .param _, _ => by simp [mapPar, constOf, Regular]
  | .bin op l r, h => by
    have hl := regular_mapPar l (regular_bin4 h).1
    have hr := regular_mapPar r (regular_bin4 h).2
    have dl := denote_mapPar ρ (storeOf σ) σ' (constOf σ) (constOf_means ρ σ σ') l
    have dr := denote_mapPar ρ (storeOf σ) σ' (constOf σ) (constOf_means ρ σ σ') r
    cases op with
    | add => exact ⟨hl, hr⟩
    | sub => exact ⟨hl, hr⟩
    | mul => exact ⟨hl, hr⟩
    | div => exact ⟨hl, hr, by rw [dr]; exact h.2.2⟩
    | pow =>
      have hp := ((Regular_pow_iff (storeOf σ) ρ l r).mp h).2.2
      simp only [mapPar]
      exact (Regular_pow_iff σ' ρ _ _).mpr ⟨hl, hr, by rw [dl]; exact powCond_mapPar σ r _ hp⟩
  | .un op a, h => by
    have da := denote_mapPar ρ (storeOf σ) σ' (constOf σ) (constOf_means ρ σ σ') a
    exact ⟨regular_mapPar a h.1, by rw [da]; exact h.2⟩
  | .linComb _ v, h => regularVec_mapPar v h
  | .vecSum _, _ => trivial
  | .exprSum es, h => regularList_mapPar es h
  | .dot l r, h => ⟨regularVec_mapPar l h.1, regularVec_mapPar r h.2⟩
  | .l2 v, h => by
    have dv := denoteVec_mapPar ρ (storeOf σ) σ' (constOf σ) (constOf_means ρ σ σ') v
    exact ⟨regularVec_mapPar v h.1, by rw [dv]; exact h.2⟩
  | .l1 v, h => by
    have dv := denoteVec_mapPar ρ (storeOf σ) σ' (constOf σ) (constOf_means ρ σ σ') v
    exact ⟨regularVec_mapPar v h.1, by rw [dv]; exact h.2⟩
  | .quad v _, h => regularVec_mapPar v h
  | .powSum _ _, h => h
  | .unSum _ _, h => h
  | .matSumV _, _ => trivial
  | .matSumE es, h => regularList_mapPar es h
  | .frob _, h => h
theorem regularVec_mapPar : (v : Vec) → RegularVec ρ (storeOf σ) v → RegularVec ρ σ' (mapParVec (constOf σ) v)
  | .vars _, _ => trivial
  | .exprs es, h => regularList_mapPar es h
theorem regularList_mapPar : (es : ExprList) → RegularList ρ (storeOf σ) es →
    RegularList ρ σ' (mapParList (constOf σ) es)
  | .nil, _ => trivial
  | .cons e t, h => ⟨regular_mapPar e h.1, regularList_mapPar t h.2⟩
end

end regular

section second
variable (σ : Nat → Rat) (σ' : Nat → ℝ)

theorem wf_substParams (e : Expr) (h : WF e) : WF (substParams σ e) :=
  wf_mapPar (constOf σ) (fun p => by simp [constOf, WF]) e h

theorem regular_substParams (ρ : String → ℝ) (e : Expr) (h : Regular ρ (storeOf σ) e) :
    Regular ρ σ' (substParams σ e) :=
  regular_mapPar ρ σ σ' e h

/-- first derivatives: same meaning at every regular point (derivative of the same function) -/
theorem grad_substParams_regular (ρ : String → ℝ) (w : Var) (e : Expr) (hwf : WF e)
    (hreg : Regular ρ (storeOf σ) e) :
    denote ρ σ' (grad w (substParams σ e)) = denote ρ (storeOf σ) (grad w e) := by
  have h1 := grad_D ρ σ' w (substParams σ e) (wf_substParams σ e hwf) (regular_substParams σ σ' ρ e hreg)
  have h2 := grad_D ρ (storeOf σ) w e hwf hreg
  have hF : F ρ σ' w.name (substParams σ e) = F ρ (storeOf σ) w.name e := by
    funext t; simp only [F]; exact denote_substParams' _ σ σ' e
  rw [hF] at h1
  exact h1.unique h2

/-- second derivatives: same meaning at every regular point -/
theorem hessEntry_substParams (ρ : String → ℝ) (vi vj : Var) (e : Expr) (hwf : WF e)
    (hreg : Regular ρ (storeOf σ) e) :
    denote ρ σ' (hessEntry (substParams σ e) vi vj) = denote ρ (storeOf σ) (hessEntry e vi vj) := by
  have hwf' := wf_substParams σ e hwf
  have hreg' := regular_substParams σ σ' ρ e hreg
  have h1 := grad_D ρ σ' vj (grad vi (substParams σ e)) (grad_wf vi _ hwf') (grad_regular ρ σ' vi _ hreg')
  have h2 := grad_D ρ (storeOf σ) vj (grad vi e) (grad_wf vi e hwf) (grad_regular ρ (storeOf σ) vi e hreg)
  have hopen := regular_open ρ (storeOf σ) vj e hwf hreg
  have hEq : F ρ σ' vj.name (grad vi (substParams σ e)) =ᶠ[𝓝 (ρ vj.name)] F ρ (storeOf σ) vj.name (grad vi e) := by
    filter_upwards [hopen] with t ht
    simp only [F]
    exact grad_substParams_regular σ σ' _ vi e hwf ht
  exact h1.unique (h2.congr_of_eventuallyEq hEq)

end second

end Optyx.Py.State
