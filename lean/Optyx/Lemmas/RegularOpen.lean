/-
  Optyx.Lemmas.RegularOpen — regularity is an open condition along every coordinate line:
  `WF e → Regular ρ σ e → ∀ᶠ t in 𝓝 (ρ x), Regular (ρ[x ↦ t]) σ e`.
  Every side condition of `Regular` is a strict inequality / non-vanishing of a sub-expression
  that is differentiable (hence continuous) at the point by `grad_D`.
-/
import Optyx.Lemmas.GradMain

namespace Optyx
open NumAlg Optyx.Generated Optyx.Py Filter Topology

variable (ρ : String → ℝ) (σ : Nat → ℝ) (wrt : Var)

local notation "a₀" => ρ wrt.name
local notation "ρₜ" t => upd ρ wrt.name t

theorem F_continuousAt (e : Expr) (hwf : WF e) (hreg : Regular ρ σ e) :
    ContinuousAt (F ρ σ wrt.name e) a₀ :=
  (grad_D ρ σ wrt e hwf hreg).continuousAt

theorem unReg_open (op : UnOp) (f : ℝ → ℝ) (a : ℝ) (hf : ContinuousAt f a) (h : unReg op (f a)) :
    ∀ᶠ t in 𝓝 a, unReg op (f t) := by
  cases op <;> simp only [unReg] at h ⊢ <;> try exact Filter.Eventually.of_forall (fun _ => trivial)
  · exact hf.eventually_ne h
  · exact (Real.continuous_cos.continuousAt.comp hf).eventually_ne h
  · exact continuousAt_const.eventually_lt hf h
  · exact continuousAt_const.eventually_lt hf h
  · exact continuousAt_const.eventually_lt hf h
  · exact continuousAt_const.eventually_lt hf h
  · exact (continuousAt_const.eventually_lt hf h.1).and (hf.eventually_lt continuousAt_const h.2)
  · exact (continuousAt_const.eventually_lt hf h.1).and (hf.eventually_lt continuousAt_const h.2)
  · exact continuousAt_const.eventually_lt hf h
  · exact (continuousAt_const.eventually_lt hf h.1).and (hf.eventually_lt continuousAt_const h.2)

theorem powReg_open (k : Rat) (f : ℝ → ℝ) (a : ℝ) (hf : ContinuousAt f a) (h : powReg k (f a)) :
    ∀ᶠ t in 𝓝 a, powReg k (f t) := by
  by_cases hd : k.den = 1
  · rcases h.1 hd with hne | hk
    · filter_upwards [hf.eventually_ne hne] with t ht
      exact ⟨fun _ => Or.inl ht, fun h' => absurd hd h'⟩
    · exact Filter.Eventually.of_forall (fun t => ⟨fun _ => Or.inr hk, fun h' => absurd hd h'⟩)
  · filter_upwards [continuousAt_const.eventually_lt hf (h.2 hd)] with t ht
    exact ⟨fun h' => absurd h' hd, fun _ => ht⟩

/-- the side condition of `base ** exponent` as a predicate of the base value -/
def powCond (r : Expr) (b : ℝ) : Prop :=
  match r with
  | .const (.rat k) => k = 0 ∨ k = 1 ∨ powReg k b
  | _ => 0 < b

theorem Regular_pow_iff (ρ' : String → ℝ) (l r : Expr) :
    Regular ρ' σ (.bin .pow l r) ↔ Regular ρ' σ l ∧ Regular ρ' σ r ∧ powCond r (denote ρ' σ l) := by
  cases r with
  | const c => cases c <;> exact Iff.rfl
  | _ => exact Iff.rfl

theorem powCond_open (r : Expr) (f : ℝ → ℝ) (a : ℝ) (hf : ContinuousAt f a) (h : powCond r (f a)) :
    ∀ᶠ t in 𝓝 a, powCond r (f t) := by
  have general : (0 < f a) → ∀ᶠ t in 𝓝 a, 0 < f t := fun h => continuousAt_const.eventually_lt hf h
  cases r with
  | const c =>
    cases c with
    | rat k =>
      simp only [powCond] at h ⊢
      rcases h with h | h | h
      · exact Filter.Eventually.of_forall (fun _ => Or.inl h)
      · exact Filter.Eventually.of_forall (fun _ => Or.inr (Or.inl h))
      · filter_upwards [powReg_open k f a hf h] with t ht
        exact Or.inr (Or.inr ht)
    | ln2 => exact general h
    | ln10 => exact general h
  | _ => exact general h

/-- finitely many continuous functions that avoid 0 at `a` avoid it nearby -/
theorem hd_eventually_ne {a : ℝ} {fs : List (ℝ → ℝ)} {ds : List ℝ} (h : HD a fs ds)
    (hne : ∀ v ∈ at_ fs a, v ≠ 0) : ∀ᶠ t in 𝓝 a, ∀ v ∈ at_ fs t, v ≠ 0 := by
  induction h with
  | nil => exact Filter.Eventually.of_forall (fun t v hv => by simp at hv)
  | @cons f d fs ds hf _ ih =>
    have h1 : ∀ᶠ t in 𝓝 a, f t ≠ 0 := hf.continuousAt.eventually_ne (hne (f a) (by simp))
    have h2 := ih (fun v hv => hne v (by simp [hv]))
    filter_upwards [h1, h2] with t ht1 ht2
    intro v hv
    simp only [at_cons, List.mem_cons] at hv
    rcases hv with rfl | hv
    · exact ht1
    · exact ht2 v hv

/-- a pointwise open condition on every coordinate of a list of variables -/
theorem vars_open (P : ℝ → Prop) (hP : ∀ (f : ℝ → ℝ) (a : ℝ), ContinuousAt f a → P (f a) → ∀ᶠ t in 𝓝 a, P (f t))
    (vs : List Var) (h : ∀ y ∈ vs, P (ρ y.name)) :
    ∀ᶠ t in 𝓝 a₀, ∀ y ∈ vs, P ((ρₜ t) y.name) := by
  induction vs with
  | nil => exact Filter.Eventually.of_forall (fun t y hy => by simp at hy)
  | cons y l ih =>
    have hc : ContinuousAt (fun t => (ρₜ t) y.name) a₀ := (hasDerivAt_coord ρ wrt.name y.name).continuousAt
    have h1 := hP (fun t => (ρₜ t) y.name) a₀ hc (by simpa using h y (by simp))
    have h2 := ih (fun z hz => h z (by simp [hz]))
    filter_upwards [h1, h2] with t ht1 ht2
    intro z hz
    simp only [List.mem_cons] at hz
    rcases hz with rfl | hz
    · exact ht1
    · exact ht2 z hz

private theorem regular_bin'' {ρ' : String → ℝ} {op : BinOp} {l r : Expr} (h : Regular ρ' σ (.bin op l r)) :
    Regular ρ' σ l ∧ Regular ρ' σ r := by
  cases op
  · exact h
  · exact h
  · exact h
  · exact ⟨h.1, h.2.1⟩
  · exact ⟨h.1, h.2.1⟩

mutual
theorem regular_open : (e : Expr) → WF e → Regular ρ σ e → ∀ᶠ t in 𝓝 a₀, Regular (ρₜ t) σ e
  | .const _, _, _ => Filter.Eventually.of_forall (fun _ => trivial)
  | .param _, _, _ => Filter.Eventually.of_forall (fun _ => trivial)
  | .var _, _, _ => Filter.Eventually.of_forall (fun _ => trivial)
  | .bin op l r, hwf, hreg => by
    have hl := regular_open l hwf.1 (regular_bin'' σ hreg).1
    have hr := regular_open r hwf.2 (regular_bin'' σ hreg).2
    have cl := F_continuousAt ρ σ wrt l hwf.1 (regular_bin'' σ hreg).1
    have cr := F_continuousAt ρ σ wrt r hwf.2 (regular_bin'' σ hreg).2
    cases op with
    | add => filter_upwards [hl, hr] with t a b; exact ⟨a, b⟩
    | sub => filter_upwards [hl, hr] with t a b; exact ⟨a, b⟩
    | mul => filter_upwards [hl, hr] with t a b; exact ⟨a, b⟩
    | div =>
      have hne : F ρ σ wrt.name r a₀ ≠ 0 := by rw [F_at]; exact hreg.2.2
      filter_upwards [hl, hr, cr.eventually_ne hne] with t a b c
      exact ⟨a, b, c⟩
    | pow =>
      have hp := ((Regular_pow_iff σ ρ l r).mp hreg).2.2
      have hp' : powCond r (F ρ σ wrt.name l a₀) := by rw [F_at]; exact hp
      filter_upwards [hl, hr, powCond_open r _ _ cl hp'] with t a b c
      exact (Regular_pow_iff σ _ l r).mpr ⟨a, b, c⟩
  | .un op a, hwf, hreg => by
    have ha := regular_open a hwf hreg.1
    have ca := F_continuousAt ρ σ wrt a hwf hreg.1
    have hc : unReg op (F ρ σ wrt.name a a₀) := by rw [F_at]; exact hreg.2
    filter_upwards [ha, unReg_open op _ _ ca hc] with t x y
    exact ⟨x, y⟩
  | .linComb _ v, hwf, hreg => by
    filter_upwards [regularVec_open v hwf.1 hreg] with t h; exact h
  | .vecSum _, _, _ => Filter.Eventually.of_forall (fun _ => trivial)
  | .exprSum es, hwf, hreg => by
    filter_upwards [regularList_open es hwf hreg] with t h; exact h
  | .dot l r, hwf, hreg => by
    filter_upwards [regularVec_open l hwf.1 hreg.1, regularVec_open r hwf.2.1 hreg.2] with t a b
    exact ⟨a, b⟩
  | .l2 v, hwf, hreg => by
    have hv := gradVec_D ρ σ wrt v hwf hreg.1
    have hc := (hv.dotp hv).continuousAt
    have hpos : 0 < NumAlg.dotp (at_ (FVec ρ σ wrt.name v) a₀) (at_ (FVec ρ σ wrt.name v) a₀) := by
      rw [at_FVec_self]; exact hreg.2
    filter_upwards [regularVec_open v hwf hreg.1, continuousAt_const.eventually_lt hc hpos] with t a b
    refine ⟨a, ?_⟩
    simpa [at_FVec] using b
  | .l1 v, hwf, hreg => by
    have hv := gradVec_D ρ σ wrt v hwf hreg.1
    have hne : ∀ x ∈ at_ (FVec ρ σ wrt.name v) a₀, x ≠ 0 := by rw [at_FVec_self]; exact hreg.2
    filter_upwards [regularVec_open v hwf hreg.1, hd_eventually_ne hv hne] with t a b
    refine ⟨a, ?_⟩
    simpa [at_FVec] using b
  | .quad v _, hwf, hreg => by
    filter_upwards [regularVec_open v hwf.1 hreg] with t h; exact h
  | .powSum v k, _, hreg => by
    rcases hreg with h | h | h
    · exact Filter.Eventually.of_forall (fun _ => Or.inl h)
    · exact Filter.Eventually.of_forall (fun _ => Or.inr (Or.inl h))
    · filter_upwards [vars_open ρ wrt (powReg k) (powReg_open k) v.vars h] with t ht
      exact Or.inr (Or.inr ht)
  | .unSum v op, _, hreg => by
    filter_upwards [vars_open ρ wrt (unReg op.toUn) (unReg_open op.toUn) v.vars hreg] with t ht
    exact ht
  | .matSumV _, _, _ => Filter.Eventually.of_forall (fun _ => trivial)
  | .matSumE es, hwf, hreg => by
    filter_upwards [regularList_open es hwf hreg] with t h; exact h
  | .frob m, _, hreg => by
    have hv := hd_vars ρ wrt.name m.flat
    have hc := (hv.dotp hv).continuousAt
    have hat : at_ (varFns ρ wrt.name m.flat) a₀ = valsOf ρ m.flat := by rw [at_varFns]; simp
    have hpos : 0 < NumAlg.dotp (at_ (varFns ρ wrt.name m.flat) a₀) (at_ (varFns ρ wrt.name m.flat) a₀) := by
      rw [hat]; exact hreg
    filter_upwards [continuousAt_const.eventually_lt hc hpos] with t b
    show 0 < NumAlg.dotp (valsOf (ρₜ t) m.flat) (valsOf (ρₜ t) m.flat)
    simpa [at_varFns] using b
theorem regularVec_open : (v : Vec) → WFVec v → RegularVec ρ σ v → ∀ᶠ t in 𝓝 a₀, RegularVec (ρₜ t) σ v
  | .vars _, _, _ => Filter.Eventually.of_forall (fun _ => trivial)
  | .exprs es, hwf, hreg => by
    filter_upwards [regularList_open es hwf hreg] with t h; exact h
theorem regularList_open : (es : ExprList) → WFList es → RegularList ρ σ es →
    ∀ᶠ t in 𝓝 a₀, RegularList (ρₜ t) σ es
  | .nil, _, _ => Filter.Eventually.of_forall (fun _ => trivial)
  | .cons e t', hwf, hreg => by
    filter_upwards [regular_open e hwf.1 hreg.1, regularList_open t' hwf.2 hreg.2] with t a b
    exact ⟨a, b⟩
end

end Optyx
