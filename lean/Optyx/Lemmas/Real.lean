/-
  Optyx.Lemmas.Real — the interpretation of the number algebra in ℝ (Mathlib).

  `pow` is `Real.rpow` uniformly: `Real.rpow_natCast` / `Real.rpow_intCast` make it agree with
  NumPy's integer powers also for negative bases; for non-integer exponents NumPy's real
  power is finite exactly for positive bases, which `Regular` demands.
  `log2`/`log10` are `Real.logb 2`/`Real.logb 10`; `ln2`/`ln10` are `Real.log 2`/`Real.log 10`.
-/
import Optyx.Denote
import Mathlib.Analysis.SpecialFunctions.Trigonometric.Deriv
import Mathlib.Analysis.SpecialFunctions.Trigonometric.ArctanDeriv
import Mathlib.Analysis.SpecialFunctions.Trigonometric.InverseDeriv
import Mathlib.Analysis.SpecialFunctions.Trigonometric.DerivHyp
import Mathlib.Analysis.SpecialFunctions.Log.Deriv
import Mathlib.Analysis.SpecialFunctions.Log.Base
import Mathlib.Analysis.SpecialFunctions.Sqrt
import Mathlib.Analysis.SpecialFunctions.Arsinh
import Mathlib.Analysis.SpecialFunctions.Arcosh
import Mathlib.Analysis.SpecialFunctions.Artanh
import Mathlib.Analysis.SpecialFunctions.Pow.Deriv
import Mathlib.Analysis.Calculus.Deriv.Abs

namespace Optyx
open NumAlg

noncomputable def realFn : UnOp → ℝ → ℝ
  | .neg => fun x => -x
  | .abs => fun x => |x|
  | .sin => Real.sin
  | .cos => Real.cos
  | .tan => Real.tan
  | .exp => Real.exp
  | .log => Real.log
  | .log2 => Real.logb 2
  | .log10 => Real.logb 10
  | .sqrt => Real.sqrt
  | .tanh => Real.tanh
  | .sinh => Real.sinh
  | .cosh => Real.cosh
  | .asin => Real.arcsin
  | .acos => Real.arccos
  | .atan => Real.arctan
  | .asinh => Real.arsinh
  | .acosh => Real.arcosh
  | .atanh => Real.artanh

noncomputable instance : NumAlg ℝ where
  zero := 0
  add a b := a + b
  sub a b := a - b
  mul a b := a * b
  div a b := a / b
  neg a := -a
  ofRat q := (q : ℝ)
  ln2 := Real.log 2
  ln10 := Real.log 10
  pow := Real.rpow
  fn := realFn

@[simp] theorem zero_real : (NumAlg.zero : ℝ) = 0 := rfl
@[simp] theorem add_real (a b : ℝ) : NumAlg.add a b = a + b := rfl
@[simp] theorem sub_real (a b : ℝ) : NumAlg.sub a b = a - b := rfl
@[simp] theorem mul_real (a b : ℝ) : NumAlg.mul a b = a * b := rfl
@[simp] theorem div_real (a b : ℝ) : NumAlg.div a b = a / b := rfl
@[simp] theorem neg_real (a : ℝ) : NumAlg.neg a = -a := rfl
@[simp] theorem ofRat_real (q : Rat) : (NumAlg.ofRat q : ℝ) = (q : ℝ) := rfl
@[simp] theorem ln2_real : (NumAlg.ln2 : ℝ) = Real.log 2 := rfl
@[simp] theorem ln10_real : (NumAlg.ln10 : ℝ) = Real.log 10 := rfl
@[simp] theorem pow_real (a b : ℝ) : NumAlg.pow a b = a ^ b := rfl

@[simp] theorem binop_add (a b : ℝ) : binop .add a b = a + b := rfl
@[simp] theorem binop_sub (a b : ℝ) : binop .sub a b = a - b := rfl
@[simp] theorem binop_mul (a b : ℝ) : binop .mul a b = a * b := rfl
@[simp] theorem binop_div (a b : ℝ) : binop .div a b = a / b := rfl
@[simp] theorem binop_pow (a b : ℝ) : binop .pow a b = a ^ b := rfl

@[simp] theorem unop_neg (a : ℝ) : unop .neg a = -a := rfl
@[simp] theorem unop_abs (a : ℝ) : unop .abs a = |a| := rfl
@[simp] theorem unop_sin (a : ℝ) : unop .sin a = Real.sin a := rfl
@[simp] theorem unop_cos (a : ℝ) : unop .cos a = Real.cos a := rfl
@[simp] theorem unop_tan (a : ℝ) : unop .tan a = Real.tan a := rfl
@[simp] theorem unop_exp (a : ℝ) : unop .exp a = Real.exp a := rfl
@[simp] theorem unop_log (a : ℝ) : unop .log a = Real.log a := rfl
@[simp] theorem unop_log2 (a : ℝ) : unop .log2 a = Real.logb 2 a := rfl
@[simp] theorem unop_log10 (a : ℝ) : unop .log10 a = Real.logb 10 a := rfl
@[simp] theorem unop_sqrt (a : ℝ) : unop .sqrt a = Real.sqrt a := rfl
@[simp] theorem unop_tanh (a : ℝ) : unop .tanh a = Real.tanh a := rfl
@[simp] theorem unop_sinh (a : ℝ) : unop .sinh a = Real.sinh a := rfl
@[simp] theorem unop_cosh (a : ℝ) : unop .cosh a = Real.cosh a := rfl
@[simp] theorem unop_asin (a : ℝ) : unop .asin a = Real.arcsin a := rfl
@[simp] theorem unop_acos (a : ℝ) : unop .acos a = Real.arccos a := rfl
@[simp] theorem unop_atan (a : ℝ) : unop .atan a = Real.arctan a := rfl
@[simp] theorem unop_asinh (a : ℝ) : unop .asinh a = Real.arsinh a := rfl
@[simp] theorem unop_acosh (a : ℝ) : unop .acosh a = Real.arcosh a := rfl
@[simp] theorem unop_atanh (a : ℝ) : unop .atanh a = Real.artanh a := rfl

@[simp] theorem cst_rat (q : Rat) : (cst (.rat q) : ℝ) = (q : ℝ) := rfl
@[simp] theorem cst_ln2 : (cst .ln2 : ℝ) = Real.log 2 := rfl
@[simp] theorem cst_ln10 : (cst .ln10 : ℝ) = Real.log 10 := rfl

@[simp] theorem sum_nil : (NumAlg.sum ([] : List ℝ)) = 0 := rfl
@[simp] theorem sum_cons (a : ℝ) (t : List ℝ) : NumAlg.sum (a :: t) = a + NumAlg.sum t := rfl

@[simp] theorem wsum_cons (c : Rat) (cs : List Rat) (a : ℝ) (t : List ℝ) :
    NumAlg.wsum (c :: cs) (a :: t) = (c : ℝ) * a + NumAlg.wsum cs t := rfl
@[simp] theorem wsum_nil_left (t : List ℝ) : NumAlg.wsum [] t = 0 := by cases t <;> rfl
@[simp] theorem wsum_nil_right (cs : List Rat) : NumAlg.wsum cs ([] : List ℝ) = 0 := by cases cs <;> rfl
@[simp] theorem dotp_cons (a b : ℝ) (t u : List ℝ) :
    NumAlg.dotp (a :: t) (b :: u) = a * b + NumAlg.dotp t u := rfl
@[simp] theorem dotp_nil_left (u : List ℝ) : NumAlg.dotp [] u = 0 := by cases u <;> rfl
@[simp] theorem dotp_nil_right (t : List ℝ) : NumAlg.dotp t ([] : List ℝ) = 0 := by cases t <;> rfl

theorem sum_eq_listSum (l : List ℝ) : NumAlg.sum l = l.sum := by
  induction l with
  | nil => rfl
  | cons a t ih => simp [ih]

end Optyx
