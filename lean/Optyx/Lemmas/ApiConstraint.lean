/-
  Optyx.Lemmas.ApiConstraint — helper lemmas for property C10 (constraint construction).
  Structural facts are generic in the number algebra; order facts are over ℝ.
-/
import Optyx.Py.Constraint
import Optyx.Lemmas.ApiViews
import Optyx.Lemmas.Real

namespace Optyx.Py.Api
open Optyx NumAlg

/-- the constraint `l - r ⋈ 0` -/
def subC (s : Sense) (l r : Expr) : Constraint := ⟨.bin .sub l r, s⟩

theorem mkConstraint_of_rhsExpr {lhs : Expr} {s : Sense} {rhs : Operand} {r : Expr}
    (h : rhsExpr rhs = some r) : mkConstraint lhs s rhs = .ok (subC s lhs r) := by
  cases rhs <;> simp [rhsExpr] at h <;> subst h <;> rfl

theorem mkConstraint_ok_iff (lhs : Expr) (s : Sense) (rhs : Operand) :
    (∃ c, mkConstraint lhs s rhs = .ok c) ↔ ∃ r, rhsExpr rhs = some r := by
  cases rhs <;> simp [rhsExpr, mkConstraint]

/-- spec: right-hand sides broadcast against `n` left elements -/
def vecRhsSpec (n : Nat) : Operand → Option (List Expr)
  | .pyNum q => some (List.replicate n (cst q))
  | .vvar w => if w.vars.length = n then some (VVar.elems w) else none
  | .vexpr es => if es.length = n then some es else none
  | .mvp q v => if q.length = n then some (mvpElems q v) else none
  | .arr1 xs | .list1 xs => if xs.length = n then some (xs.map cst) else none
  | _ => none

theorem mapM_mk_ok (s : Sense) : ∀ (ls rs : List Expr) (ops : List Operand),
    ops.map rhsExpr = rs.map some →
    mapM_mk s ls ops = .ok (List.zipWith (subC s) ls rs)
  | [], rs, ops, _ => by cases ops <;> simp [mapM_mk]
  | _ :: _, [], ops, h => by
    cases ops with
    | nil => simp [mapM_mk]
    | cons o ops => simp at h
  | l :: ls, r :: rs, [], h => by simp at h
  | l :: ls, r :: rs, o :: ops, h => by
    simp only [List.map_cons, List.cons.injEq] at h
    have ih := mapM_mk_ok s ls rs ops h.2
    simp [mapM_mk, mkConstraint_of_rhsExpr h.1, ih, Except.map]

theorem vecRhsSpec_length {n : Nat} {o : Operand} {rs : List Expr} (h : vecRhsSpec n o = some rs) :
    rs.length = n := by
  cases o <;> simp [vecRhsSpec] at h
  all_goals first
    | (obtain ⟨h1, h2⟩ := h; subst h2; simp [VVar.elems, mvpElems, h1])
    | (subst h; simp)

theorem vectorConstraint_spec (left : VecLike) (right : Operand) (s : Sense) (cs : List Constraint)
    (h : vectorConstraint left right s = .ok cs) :
    ∃ rs, vecRhsSpec left.elems.length right = some rs ∧ cs = List.zipWith (subC s) left.elems rs := by
  unfold vectorConstraint at h
  cases right <;> simp only [] at h
  case pyNum q =>
    refine ⟨List.replicate left.elems.length (cst q), rfl, ?_⟩
    rw [mapM_mk_ok s left.elems (List.replicate left.elems.length (cst q))] at h
    · exact (Except.ok.inj h).symm
    · simp [rhsExpr]
  case vvar w =>
    split at h
    · cases h
    · rename_i hlen
      have hlen' : w.vars.length = left.elems.length := by simpa using hlen
      refine ⟨VVar.elems w, by simp [vecRhsSpec, hlen'], ?_⟩
      rw [mapM_mk_ok s left.elems (VVar.elems w)] at h
      · exact (Except.ok.inj h).symm
      · simp [rhsExpr, VVar.elems, Function.comp_def]
  case vexpr es =>
    split at h
    · cases h
    · rename_i hlen
      have hlen' : es.length = left.elems.length := by simpa using hlen
      refine ⟨es, by simp [vecRhsSpec, hlen'], ?_⟩
      rw [mapM_mk_ok s left.elems es] at h
      · exact (Except.ok.inj h).symm
      · simp [rhsExpr, Function.comp_def]
  case mvp q v =>
    split at h
    · cases h
    · rename_i hlen
      have hlen' : q.length = left.elems.length := by simpa using hlen
      refine ⟨mvpElems q v, by simp [vecRhsSpec, hlen'], ?_⟩
      rw [mapM_mk_ok s left.elems (mvpElems q v)] at h
      · exact (Except.ok.inj h).symm
      · simp [rhsExpr, Function.comp_def]
  case arr1 xs =>
    split at h
    · cases h
    · rename_i hlen
      have hlen' : xs.length = left.elems.length := by simpa using hlen
      refine ⟨xs.map cst, by simp [vecRhsSpec, hlen'], ?_⟩
      rw [mapM_mk_ok s left.elems (xs.map cst)] at h
      · exact (Except.ok.inj h).symm
      · simp [rhsExpr, Function.comp_def]
  case list1 xs =>
    split at h
    · cases h
    · rename_i hlen
      have hlen' : xs.length = left.elems.length := by simpa using hlen
      refine ⟨xs.map cst, by simp [vecRhsSpec, hlen'], ?_⟩
      rw [mapM_mk_ok s left.elems (xs.map cst)] at h
      · exact (Except.ok.inj h).symm
      · simp [rhsExpr, Function.comp_def]
  all_goals cases h

/-! ### matrices -/

/-- spec: the right operand's elements, row-major, for a left grid `g` -/
def matRhsSpec (g : List (List Expr)) : Operand → Option (List Expr)
  | .pyNum q => some (List.replicate g.flatten.length (cst q))
  | .arr2 r => if gridShape r = gridShape g then some (r.flatten.map cst) else none
  | .mvar w => if (w.nrows, w.ncols) = gridShape g then some (w.rows.flatten.map Expr.var) else none
  | .mexpr r => if gridShape r = gridShape g then some r.flatten else none
  | _ => none

theorem matrixConstraint_spec (left : MatLike) (right : Operand) (s : Sense) (cs : List Constraint)
    (h : matrixConstraint left right s = .ok cs) :
    ∃ rs, matRhsSpec left.elems right = some rs ∧ cs = List.zipWith (subC s) left.elems.flatten rs := by
  unfold matrixConstraint at h
  cases right <;> simp only [] at h
  case pyNum q =>
    refine ⟨_, rfl, ?_⟩
    rw [mapM_mk_ok s left.elems.flatten (List.replicate left.elems.flatten.length (cst q))] at h
    · exact (Except.ok.inj h).symm
    · simp [rhsExpr]
  case arr2 r =>
    split at h
    · cases h
    · rename_i hs
      have hs' : gridShape r = gridShape left.elems := by simpa using hs
      refine ⟨r.flatten.map cst, by simp [matRhsSpec, hs'], ?_⟩
      rw [mapM_mk_ok s left.elems.flatten (r.flatten.map cst)] at h
      · exact (Except.ok.inj h).symm
      · simp [rhsExpr, Function.comp_def]
  case mvar w =>
    split at h
    · cases h
    · rename_i hs
      have hs' : (w.nrows, w.ncols) = gridShape left.elems := by simpa using hs
      refine ⟨w.rows.flatten.map Expr.var, by simp [matRhsSpec, hs'], ?_⟩
      rw [mapM_mk_ok s left.elems.flatten (w.rows.flatten.map Expr.var)] at h
      · exact (Except.ok.inj h).symm
      · simp [rhsExpr, Function.comp_def]
  case mexpr r =>
    split at h
    · cases h
    · rename_i hs
      have hs' : gridShape r = gridShape left.elems := by simpa using hs
      refine ⟨r.flatten, by simp [matRhsSpec, hs'], ?_⟩
      rw [mapM_mk_ok s left.elems.flatten r.flatten] at h
      · exact (Except.ok.inj h).symm
      · simp [rhsExpr, Function.comp_def]
  all_goals cases h

/-! ### order facts over ℝ -/

theorem pyMax0_eq_max (v : ℝ) : pyMax0 v = max 0 v := by
  unfold pyMax0
  split
  · rename_i h; exact (max_eq_right (le_of_lt h)).symm
  · rename_i h; exact (max_eq_left (not_lt.mp h)).symm

theorem violationOf_le (v : ℝ) : violationOf .le v = max 0 v := pyMax0_eq_max v
theorem violationOf_ge (v : ℝ) : violationOf .ge v = max 0 (-v) := pyMax0_eq_max (-v)
theorem violationOf_eq (v : ℝ) : violationOf .eq v = |v| := rfl

theorem violationOf_nonneg (s : Sense) (v : ℝ) : 0 ≤ violationOf s v := by
  cases s
  · rw [violationOf_le]; exact le_max_left _ _
  · rw [violationOf_ge]; exact le_max_left _ _
  · rw [violationOf_eq]; exact abs_nonneg v

/-- the relation a sense stands for, on the normalised value `v = lhs - rhs` -/
def Sense.holds (s : Sense) (v : ℝ) : Prop :=
  match s with
  | .le => v ≤ 0
  | .ge => 0 ≤ v
  | .eq => v = 0

theorem violationOf_le_tol_iff (s : Sense) (v tol : ℝ) (ht : 0 ≤ tol) :
    violationOf s v ≤ tol ↔
      match s with
      | .le => v ≤ tol
      | .ge => -v ≤ tol
      | .eq => |v| ≤ tol := by
  cases s
  · rw [violationOf_le]; simp [ht]
  · rw [violationOf_ge]; simp [ht]
  · rw [violationOf_eq]

theorem violationOf_zero_iff (s : Sense) (v : ℝ) : violationOf s v ≤ 0 ↔ s.holds v := by
  have := violationOf_le_tol_iff s v 0 le_rfl
  cases s
  · simpa [Sense.holds] using this
  · simpa [Sense.holds] using this
  · simpa [Sense.holds] using this

end Optyx.Py.Api

namespace Optyx.Py.Api
open Optyx NumAlg

/-! ### what a comparison means, element by element -/

/-- the `i`-th element (row-major) of an operand as an expression; scalar operands broadcast -/
def Operand.elemAt (o : Operand) (i : Nat) : Option Expr :=
  match o with
  | .pyNum q | .npNum q | .arr0 q => some (cst q)
  | .scalar e => some e
  | .arr1 xs | .list1 xs => xs[i]?.map cst
  | .arr2 g | .list2 g => g.flatten[i]?.map cst
  | .vvar v => v.vars[i]?.map Expr.var
  | .vexpr es => es[i]?
  | .mvp q v => (mvpElems q v)[i]?
  | .mvar m => m.rows.flatten[i]?.map Expr.var
  | .mexpr g => g.flatten[i]?
  | _ => none

/-- the relation as written, on two real values -/
def Rel.holds (rel : Rel) (a b : ℝ) : Prop :=
  match rel with
  | .le => a ≤ b
  | .ge => b ≤ a
  | .eq => a = b

theorem rhsExpr_elemAt {o : Operand} {r : Expr} (h : rhsExpr o = some r) (i : Nat) :
    o.elemAt i = some r := by
  cases o <;> simp [rhsExpr] at h <;> subst h <;> rfl

theorem vecRhsSpec_elemAt {n : Nat} {o : Operand} {rs : List Expr} (h : vecRhsSpec n o = some rs)
    (i : Nat) (hi : i < n) : o.elemAt i = rs[i]? := by
  cases o <;> simp [vecRhsSpec] at h
  case pyNum q => subst h; simp [Operand.elemAt, hi]
  case vvar w => obtain ⟨_, h2⟩ := h; subst h2; simp [Operand.elemAt, VVar.elems]
  case vexpr es => obtain ⟨_, h2⟩ := h; subst h2; simp [Operand.elemAt]
  case mvp q v => obtain ⟨_, h2⟩ := h; subst h2; simp [Operand.elemAt]
  case arr1 xs => obtain ⟨_, h2⟩ := h; subst h2; simp [Operand.elemAt]
  case list1 xs => obtain ⟨_, h2⟩ := h; subst h2; simp [Operand.elemAt]

theorem matRhsSpec_elemAt {g : List (List Expr)} {o : Operand} {rs : List Expr}
    (h : matRhsSpec g o = some rs) (i : Nat) (hi : i < g.flatten.length) : o.elemAt i = rs[i]? := by
  cases o <;> simp only [matRhsSpec, Option.some.injEq, reduceCtorEq] at h
  case pyNum q => subst h; simp only [Operand.elemAt, List.getElem?_replicate, hi, if_true]
  case arr2 r =>
    split at h <;> simp only [Option.some.injEq, reduceCtorEq] at h
    subst h; simp only [Operand.elemAt, List.getElem?_map]
  case mvar w =>
    split at h <;> simp only [Option.some.injEq, reduceCtorEq] at h
    subst h; simp only [Operand.elemAt, List.getElem?_map]
  case mexpr r =>
    split at h <;> simp only [Option.some.injEq, reduceCtorEq] at h
    subst h; simp only [Operand.elemAt]

theorem zipWith_subC_getElem (s : Sense) (ls rs : List Expr) (i : Nat)
    (hi : i < (List.zipWith (subC s) ls rs).length) :
    ∃ a b, ls[i]? = some a ∧ rs[i]? = some b ∧ (List.zipWith (subC s) ls rs)[i] = subC s a b := by
  have hl : i < ls.length := by simp at hi; omega
  have hr : i < rs.length := by simp at hi; omega
  exact ⟨ls[i], rs[i], by simp [hl], by simp [hr], by simp⟩

theorem vecLike_elemAt_vvar (v : VVar) (i : Nat) : (VecLike.vvar v).elems[i]? = (Operand.vvar v).elemAt i := by
  simp [VecLike.elems, VVar.elems, Operand.elemAt]

/-- what the receiver's constraint builder returns: `recv_i - other_i ⋈ 0`, element by element -/
theorem build_meaning (recv other : Operand) (s : Sense) :
    (∀ c, build recv other s = .single c →
      ∃ a b, recv.elemAt 0 = some a ∧ other.elemAt 0 = some b ∧ c = subC s a b) ∧
    (∀ cs, build recv other s = .many cs → ∀ i (hi : i < cs.length),
      ∃ a b, recv.elemAt i = some a ∧ other.elemAt i = some b ∧ cs[i] = subC s a b) := by
  have vec : ∀ (left : VecLike) (recv' : Operand), (∀ i, left.elems[i]? = recv'.elemAt i) →
      ∀ cs, vectorConstraint left other s = .ok cs → ∀ i (hi : i < cs.length),
      ∃ a b, recv'.elemAt i = some a ∧ other.elemAt i = some b ∧ cs[i] = subC s a b := by
    intro left recv' hel cs h i hi
    obtain ⟨rs, hrs, hcs⟩ := vectorConstraint_spec left other s cs h
    subst hcs
    obtain ⟨a, b, ha, hb, hc⟩ := zipWith_subC_getElem s left.elems rs i hi
    have hin : i < left.elems.length := by
      have := hi; simp at this; omega
    exact ⟨a, b, by rw [← hel]; exact ha, by rw [vecRhsSpec_elemAt hrs i hin]; exact hb, hc⟩
  have mat : ∀ (left : MatLike) (recv' : Operand), (∀ i, left.elems.flatten[i]? = recv'.elemAt i) →
      ∀ cs, matrixConstraint left other s = .ok cs → ∀ i (hi : i < cs.length),
      ∃ a b, recv'.elemAt i = some a ∧ other.elemAt i = some b ∧ cs[i] = subC s a b := by
    intro left recv' hel cs h i hi
    obtain ⟨rs, hrs, hcs⟩ := matrixConstraint_spec left other s cs h
    subst hcs
    obtain ⟨a, b, ha, hb, hc⟩ := zipWith_subC_getElem s left.elems.flatten rs i hi
    have hin : i < left.elems.flatten.length := by
      have := hi; rw [List.length_zipWith] at this; omega
    exact ⟨a, b, by rw [← hel]; exact ha, by rw [matRhsSpec_elemAt hrs i hin]; exact hb, hc⟩
  constructor
  · intro c h
    cases recv <;> simp only [build] at h
    case scalar e =>
      cases hm : mkConstraint e s other with
      | error err => rw [hm] at h; cases h
      | ok c' =>
        rw [hm] at h
        obtain ⟨r, hr⟩ := (mkConstraint_ok_iff e s other).mp ⟨c', hm⟩
        rw [mkConstraint_of_rhsExpr hr] at hm
        cases hm; cases h
        exact ⟨e, r, rfl, rhsExpr_elemAt hr 0, rfl⟩
    all_goals first | (split at h <;> cases h) | cases h
  · intro cs h i hi
    cases recv <;> simp only [build] at h
    case scalar e => split at h <;> cases h
    case vvar v =>
      cases hm : vectorConstraint (.vvar v) other s with
      | error err => rw [hm] at h; cases h
      | ok cs' =>
        rw [hm] at h; cases h
        exact vec (.vvar v) (.vvar v) (fun i => by simp [VecLike.elems, VVar.elems, Operand.elemAt]) cs hm i hi
    case vexpr es =>
      cases hm : vectorConstraint (.vexpr es) other s with
      | error err => rw [hm] at h; cases h
      | ok cs' =>
        rw [hm] at h; cases h
        exact vec (.vexpr es) (.vexpr es) (fun i => by simp [VecLike.elems, Operand.elemAt]) cs hm i hi
    case mvp q v =>
      cases hm : vectorConstraint (.vexpr (mvpElems q v)) other s with
      | error err => rw [hm] at h; cases h
      | ok cs' =>
        rw [hm] at h; cases h
        exact vec (.vexpr (mvpElems q v)) (.mvp q v) (fun i => by simp [VecLike.elems, Operand.elemAt]) cs hm i hi
    case mvar m =>
      cases hm : matrixConstraint (.mvar m) other s with
      | error err => rw [hm] at h; cases h
      | ok cs' =>
        rw [hm] at h; cases h
        exact mat (.mvar m) (.mvar m) (fun i => by simp only [MatLike.elems, Operand.elemAt, ← List.map_flatten, List.getElem?_map]) cs hm i hi
    case mexpr g =>
      cases hm : matrixConstraint (.mexpr g) other s with
      | error err => rw [hm] at h; cases h
      | ok cs' =>
        rw [hm] at h; cases h
        exact mat (.mexpr g) (.mexpr g) (fun i => by simp [MatLike.elems, Operand.elemAt]) cs hm i hi
    all_goals first | (split at h <;> cases h) | cases h

theorem dispatch_sense (l r : OKind) (rel : Rel) (recvLeft : Bool) (s : Sense)
    (h : dispatch l r rel = .call recvLeft s) :
    (recvLeft = true → s = rel.sense) ∧ (recvLeft = false → s = rel.flipped) := by
  cases l <;> cases r <;> cases rel <;> simp [dispatch, OKind.isOptyx, OKind.arrayUfuncNone] at h <;>
    (obtain ⟨h1, h2⟩ := h; subst h1; subst h2; simp [Rel.sense, Rel.flipped])

/-- `a - b ⋈ 0` with the direct sense, `b - a ⋈' 0` with the flipped sense: both say `a rel b` -/
theorem holds_direct (rel : Rel) (a b : ℝ) : rel.sense.holds (a - b) ↔ rel.holds a b := by
  cases rel <;> simp [Rel.sense, Sense.holds, Rel.holds, sub_nonneg, sub_eq_zero]

theorem holds_flipped (rel : Rel) (a b : ℝ) : rel.flipped.holds (b - a) ↔ rel.holds a b := by
  cases rel <;> simp [Rel.flipped, Sense.holds, Rel.holds, sub_nonneg, sub_eq_zero, eq_comm]

end Optyx.Py.Api
