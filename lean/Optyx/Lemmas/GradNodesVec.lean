/-
  Optyx.Lemmas.GradNodesVec — node lemmas for the registered vector / matrix rules.
-/
import Optyx.Lemmas.GradNodes

namespace Optyx
open NumAlg Optyx.Generated Optyx.Py

variable (ρ : String → ℝ) (σ : Nat → ℝ)

local notation "⟪" e "⟫" => denote ρ σ e

/-! ### small list facts -/

theorem map_denote_gradVec_vars (wrt : Var) (vv : VVar) :
    (gradVec wrt (.vars vv)).map (denote ρ σ) = ind wrt.name vv.vars := by
  simp only [gradVec, ind, List.map_map]
  apply List.map_congr_left
  intro y _
  by_cases h : y.name = wrt.name <;> simp [h]

theorem toList_denote : (es : ExprList) → es.toList.map (denote ρ σ) = denoteList ρ σ es
  | .nil => by simp [ExprList.toList, denoteList]
  | .cons e t => by simp [ExprList.toList, denoteList, toList_denote t]

theorem elems_denote (v : Vec) : (Vec.elems v).map (denote ρ σ) = denoteVec ρ σ v := by
  cases v with
  | vars vv => simp [Vec.elems, denoteVec, valsOf, denote]
  | exprs es => simp [Vec.elems, denoteVec, toList_denote]

theorem getD_denote (l : List Expr) (i : Nat) :
    ⟪l.getD i (Expr.c 0)⟫ = (l.map (denote ρ σ)).getD i 0 := by
  induction l generalizing i with
  | nil => simp
  | cons a t ih =>
    cases i with
    | zero => simp
    | succ i => simpa using ih i

theorem sum_zip_mul (f : ℝ → ℝ) (a b : List ℝ) :
    NumAlg.sum ((a.zip b).map fun p => f p.1 * p.2) = NumAlg.dotp (a.map f) b := by
  induction a generalizing b with
  | nil => simp
  | cons x a ih => cases b <;> simp [ih]

theorem dotp_div (a b : List ℝ) (n : ℝ) :
    NumAlg.dotp (a.map fun v => v / n) b = NumAlg.dotp a b / n := by
  induction a generalizing b with
  | nil => simp
  | cons x a ih => cases b with
    | nil => simp
    | cons y b => simp [ih]; ring

theorem dotD_self (v d : List ℝ) (h : v.length = d.length) :
    dotD v v d d = 2 * NumAlg.dotp v d := by
  rw [dotD_eq v v d d rfl h h]; ring

theorem dotp_valsOf_ind (x : String) (vs : List Var) :
    NumAlg.dotp (valsOf ρ vs) (ind x vs) = (countName x vs : ℝ) * ρ x := by
  induction vs with
  | nil => simp [valsOf, ind, countName]
  | cons y t ih =>
    simp only [valsOf, ind, List.map_cons, dotp_cons] at ih ⊢
    by_cases h : y.name = x
    · simp [h, countName, List.filter_cons] at ih ⊢
      rw [ih]; ring
    · simp [h, countName, List.filter_cons] at ih ⊢
      rw [ih]

theorem sum_ind_count (x : String) (vs : List Var) :
    NumAlg.sum (ind x vs) = (countName x vs : ℝ) := by
  induction vs with
  | nil => simp [ind, countName]
  | cons y t ih =>
    simp only [ind, List.map_cons, sum_cons] at ih ⊢
    by_cases h : y.name = x
    · simp [h, countName, List.filter_cons] at ih ⊢
      rw [ih]; ring
    · simp [h, countName, List.filter_cons] at ih ⊢
      rw [ih]

theorem findName_isSome_iff {x : String} {vs : List Var} :
    (findName x vs).isSome = hasName x vs := by
  cases h : findName x vs with
  | none =>
    have := findName_eq_none.mp h
    have h2 : ¬ (hasName x vs = true) := fun e => this (hasName_iff.mp e)
    simp [Bool.eq_false_iff.mpr h2]
  | some i =>
    have : x ∈ names vs := by
      by_contra hn
      rw [findName_eq_none.mpr hn] at h; cases h
    simp [hasName_iff.mpr this]

theorem findName_lt {x : String} {vs : List Var} {i : Nat} (h : findName x vs = some i) :
    i < vs.length := by
  induction vs generalizing i with
  | nil => simp [findName] at h
  | cons y t ih =>
    unfold findName at h
    by_cases hy : y.name = x
    · simp [hy] at h; subst h; simp
    · simp only [hy, beq_iff_eq, ite_false, Option.map_eq_some_iff] at h
      obtain ⟨j, hj, rfl⟩ := h
      simpa using ih hj

theorem find?_name {x : String} {vs : List Var} :
    (vs.find? (·.name == x)).map (·.name) = if hasName x vs then some x else none := by
  induction vs with
  | nil => simp [hasName]
  | cons y t ih =>
    by_cases h : y.name = x
    · simp [List.find?_cons, h, hasName]
    · simp [List.find?_cons, h, hasName] at ih ⊢
      exact ih

theorem valsOf_upd_of_not_mem {x : String} {vs : List Var} (h : x ∉ names vs) (t : ℝ) :
    valsOf (upd ρ x t) vs = valsOf ρ vs := by
  induction vs with
  | nil => rfl
  | cons y l ih =>
    simp only [names, List.map_cons, List.mem_cons, not_or] at h
    have hy : y.name ≠ x := fun e => h.1 e.symm
    have := ih h.2
    simp only [valsOf, List.map_cons] at this ⊢
    rw [this]; simp [upd_apply, hy]

/-- Σ g(yᵢ) over distinct variables: only the coordinate named `x` moves -/
theorem sum_vars_comp (x : String) (g : ℝ → ℝ) (g' : ℝ) (vs : List Var) (hnd : (names vs).Nodup)
    (hg : hasName x vs = true → HasDerivAt g g' (ρ x)) :
    HasDerivAt (fun t => NumAlg.sum ((valsOf (upd ρ x t) vs).map g))
      (if hasName x vs then g' else 0) (ρ x) := by
  induction vs with
  | nil => simpa [valsOf, hasName] using hasDerivAt_const (ρ x) (0:ℝ)
  | cons y l ih =>
    simp only [names, List.map_cons, List.nodup_cons] at hnd
    by_cases hy : y.name = x
    · have hx : x ∉ names l := by have := hnd.1; simpa [names, ← hy] using this
      have hh : hasName x (y :: l) = true := by simp [hasName, hy]
      have hfun : (fun t => NumAlg.sum ((valsOf (upd ρ x t) (y :: l)).map g))
          = fun t => g t + NumAlg.sum ((valsOf ρ l).map g) := by
        funext t
        have h1 := valsOf_upd_of_not_mem ρ hx t
        simp only [valsOf, List.map_cons, sum_cons] at h1 ⊢
        rw [h1]; simp [upd_apply, hy]
      rw [hfun]
      simpa [hh] using (hg hh).add_const (NumAlg.sum ((valsOf ρ l).map g))
    · have hh : hasName x (y :: l) = hasName x l := by simp [hasName, hy]
      have hfun : (fun t => NumAlg.sum ((valsOf (upd ρ x t) (y :: l)).map g))
          = fun t => g (ρ y.name) + NumAlg.sum ((valsOf (upd ρ x t) l).map g) := by
        funext t
        simp [valsOf, upd_apply, hy]
      rw [hfun, hh]
      simpa using (ih hnd.2 (fun h => hg (by rw [hh]; exact h))).const_add (g (ρ y.name))

theorem find?_eq_none_of {x : String} {vs : List Var} (h : hasName x vs = false) :
    vs.find? (·.name == x) = none := by
  induction vs with
  | nil => rfl
  | cons y t ih =>
    simp only [hasName, List.any_cons, Bool.or_eq_false_iff, beq_eq_false_iff_ne] at h
    simp only [List.find?_cons]
    have : (y.name == x) = false := by simpa using h.1
    rw [this]
    exact ih (by simpa [hasName] using h.2)

theorem find?_some_of {x : String} {vs : List Var} (h : hasName x vs = true) :
    ∃ xv, vs.find? (·.name == x) = some xv ∧ xv.name = x ∧ xv ∈ vs := by
  induction vs with
  | nil => simp [hasName] at h
  | cons y t ih =>
    by_cases hy : y.name = x
    · exact ⟨y, by simp [List.find?_cons, hy], hy, by simp⟩
    · have : hasName x t = true := by simpa [hasName, hy] using h
      obtain ⟨xv, h1, h2, h3⟩ := ih this
      exact ⟨xv, by simp [List.find?_cons, hy, h1], h2, by simp [h3]⟩

/-! ### node lemmas -/

section nodes
variable (wrt : Var)

local notation "a₀" => ρ wrt.name
local notation "FV" => FVec ρ σ wrt.name
local notation "Fx" => F ρ σ wrt.name
local notation "dV" v => List.map (denote ρ σ) (gradVec wrt v)

theorem linComb_case (cs : List Rat) (v : Vec) (hv : HD a₀ (FV v) (dV v)) (hwf : WFVec v) :
    HasDerivAt (Fx (.linComb cs v)) ⟪linCombRule wrt cs v (gradVec wrt v)⟫ a₀ := by
  have hF : Fx (.linComb cs v) = fun t => NumAlg.wsum cs (at_ (FV v) t) := by
    funext t; simp [F, denote, at_FVec]
  rw [hF]
  refine (hv.wsum cs).congr_deriv ?_
  cases v with
  | exprs es => rw [denote_linCombRule_exprs]
  | vars vv =>
    rw [map_denote_gradVec_vars, wsum_ind hwf]
    simp only [linCombRule]
    cases findName wrt.name vv.vars <;> simp

theorem vecSum_case (v : VVar) (hwf : WFVVar v) :
    HasDerivAt (Fx (.vecSum v)) ⟪vecSumRule wrt v⟫ a₀ := by
  have hF : Fx (.vecSum v) = fun t => NumAlg.sum (at_ (varFns ρ wrt.name v.vars) t) := by
    funext t; simp [F, denote, at_varFns]
  rw [hF]
  refine (hd_vars ρ wrt.name v.vars).sum.congr_deriv ?_
  rw [sum_ind hwf]
  simp only [vecSumRule]
  cases hasName wrt.name v.vars <;> simp

theorem exprSum_case (es : ExprList)
    (hv : HD a₀ (FList ρ σ wrt.name es) ((gradList wrt es).map (denote ρ σ))) :
    HasDerivAt (Fx (.exprSum es)) ⟪exprSumRule (gradList wrt es)⟫ a₀ := by
  have hF : Fx (.exprSum es) = fun t => NumAlg.sum (at_ (FList ρ σ wrt.name es) t) := by
    funext t; simp [F, denote, at_FList]
  rw [hF]
  refine hv.sum.congr_deriv ?_
  rw [denote_exprSumRule]

theorem matSumE_case (es : ExprList)
    (hv : HD a₀ (FList ρ σ wrt.name es) ((gradList wrt es).map (denote ρ σ))) :
    HasDerivAt (Fx (.matSumE es)) ⟪exprSumRule (gradList wrt es)⟫ a₀ := by
  have hF : Fx (.matSumE es) = fun t => NumAlg.sum (at_ (FList ρ σ wrt.name es) t) := by
    funext t; simp [F, denote, at_FList]
  rw [hF]
  refine hv.sum.congr_deriv ?_
  rw [denote_exprSumRule]

theorem matSumV_case (m : MVar) :
    HasDerivAt (Fx (.matSumV m)) ⟪matSumVRule wrt m⟫ a₀ := by
  have hF : Fx (.matSumV m) = fun t => NumAlg.sum (at_ (varFns ρ wrt.name m.flat) t) := by
    funext t; simp [F, denote, at_varFns]
  rw [hF]
  refine (hd_vars ρ wrt.name m.flat).sum.congr_deriv ?_
  rw [sum_ind_count]
  simp [matSumVRule]

theorem dot_case (l r : Vec) (hl : HD a₀ (FV l) (dV l)) (hr : HD a₀ (FV r) (dV r))
    (hwf : WF (.dot l r)) :
    HasDerivAt (Fx (.dot l r)) ⟪dotRule wrt l r (gradVec wrt l) (gradVec wrt r)⟫ a₀ := by
  have hF : Fx (.dot l r) = fun t => NumAlg.dotp (at_ (FV l) t) (at_ (FV r) t) := by
    funext t; simp [F, denote, at_FVec]
  rw [hF]
  refine (hl.dotp hr).congr_deriv ?_
  rw [at_FVec_self, at_FVec_self]
  obtain ⟨hwl, hwr, hlen, hid⟩ := hwf
  have general : dotD (denoteVec ρ σ l) (denoteVec ρ σ r) (dV l) (dV r) =
      ⟪(((Vec.elems l).zip (Vec.elems r)).zip ((gradVec wrt l).zip (gradVec wrt r))).foldl
        (fun acc (p : (Expr × Expr) × (Expr × Expr)) =>
          sAdd acc (sAdd (sMul p.1.1 p.2.2) (sMul p.1.2 p.2.1))) (Expr.c 0)⟫ := by
    rw [denote_foldl_dot, dotD_zip, elems_denote, elems_denote]; simp
  cases l with
  | exprs les => cases r <;> simpa only [dotRule] using general
  | vars lv =>
    cases r with
    | exprs res => simpa only [dotRule] using general
    | vars rv =>
      simp only [Vec.len] at hlen
      simp only at hid
      have hnl : (names lv.vars).Nodup := hwl
      have hnr : (names rv.vars).Nodup := hwr
      rw [map_denote_gradVec_vars, map_denote_gradVec_vars]
      simp only [denoteVec]
      rw [dotD_eq _ _ _ _ (by simp [valsOf, hlen]) (by simp [valsOf, ind]) (by simp [valsOf, ind]),
        dotp_ind hnr, dotp_ind hnl]
      simp only [dotRule]
      cases hfl : findName wrt.name lv.vars with
      | none =>
        cases hfr : findName wrt.name rv.vars with
        | none => simp
        | some ri =>
          simp only [zero_add, add_zero]
          rw [getD_denote, elems_denote]; simp [denoteVec]
      | some li =>
        cases hfr : findName wrt.name rv.vars with
        | none =>
          simp only [zero_add, add_zero]
          rw [getD_denote, elems_denote]; simp [denoteVec]
        | some ri =>
          simp only
          by_cases hoid : lv.oid = rv.oid
          · have hvars := hid hoid
            have hri : findName wrt.name lv.vars = some ri := by rw [hvars]; exact hfr
            rw [valsOf_getD_findName hri]
            rw [← hvars] at hfr
            have : li = ri := by rw [hfl] at hfr; exact Option.some.inj hfr
            subst this
            rw [show valsOf ρ rv.vars = valsOf ρ lv.vars by rw [hvars], valsOf_getD_findName hfl]
            simp [hoid, denote]; ring
          · simp only [beq_iff_eq, hoid, ite_false, denote_sAdd]
            rw [getD_denote, getD_denote, elems_denote, elems_denote]
            simp [denoteVec, add_comm]

theorem l2_case (v : Vec) (hv : HD a₀ (FV v) (dV v)) (hwf : WFVec v)
    (hpos : 0 < NumAlg.dotp (denoteVec ρ σ v) (denoteVec ρ σ v)) :
    HasDerivAt (Fx (.l2 v)) ⟪l2Rule wrt v (gradVec wrt v) (.l2 v)⟫ a₀ := by
  have hF : Fx (.l2 v) = fun t => Real.sqrt (NumAlg.dotp (at_ (FV v) t) (at_ (FV v) t)) := by
    funext t; simp [F, denote, at_FVec]
  rw [hF]
  have hd := hv.dotp hv
  have hs := (Deriv.d_sqrt (x := NumAlg.dotp (at_ (FV v) a₀) (at_ (FV v) a₀))
    (by rw [at_FVec_self]; exact hpos)).comp a₀ hd
  refine hs.congr_deriv ?_
  rw [at_FVec_self, dotD_self _ _ (by rw [← at_FVec_self ρ σ wrt.name v]; simpa [at_] using hv.length)]
  have hN : Real.sqrt (NumAlg.dotp (denoteVec ρ σ v) (denoteVec ρ σ v)) ≠ 0 :=
    (Real.sqrt_pos.mpr hpos).ne'
  have hself : ⟪Expr.l2 v⟫ = Real.sqrt (NumAlg.dotp (denoteVec ρ σ v) (denoteVec ρ σ v)) := by
    simp [denote]
  cases v with
  | exprs es =>
    simp only [l2Rule]
    rw [denote_foldl_scaled ρ σ (fun e => sDiv e (Expr.l2 (Vec.exprs es)))]
    have : (es.toList.zip (gradVec wrt (Vec.exprs es))).map
        (fun p => ⟪sDiv p.1 (Expr.l2 (Vec.exprs es))⟫ * ⟪p.2⟫)
        = ((es.toList.map (denote ρ σ)).zip ((gradVec wrt (Vec.exprs es)).map (denote ρ σ))).map
          (fun p => p.1 / ⟪Expr.l2 (Vec.exprs es)⟫ * p.2) := by
      rw [List.zip_map, List.map_map]; apply List.map_congr_left; intro p _; simp
    rw [this, sum_zip_mul (fun v => v / ⟪Expr.l2 (Vec.exprs es)⟫), dotp_div, toList_denote, hself]
    simp only [denoteVec, denote_c, Rat.cast_zero, zero_add]
    field_simp
  | vars vv =>
    rw [map_denote_gradVec_vars]
    simp only [l2Rule, denoteVec]
    rw [dotp_ind hwf]
    cases hf : findName wrt.name vv.vars with
    | none =>
      have : hasName wrt.name vv.vars = false := by rw [← findName_isSome_iff, hf]; rfl
      simp [this]
    | some i =>
      have : hasName wrt.name vv.vars = true := by rw [← findName_isSome_iff, hf]; rfl
      simp only [this, ite_true, denote_sDiv, hself, denoteVec]
      rw [valsOf_getD_findName hf]
      simp only [denote]
      field_simp

theorem frob_case (m : MVar) (hpos : 0 < NumAlg.dotp (valsOf ρ m.flat) (valsOf ρ m.flat)) :
    HasDerivAt (Fx (.frob m)) ⟪frobRule wrt m (.frob m)⟫ a₀ := by
  have hF : Fx (.frob m) = fun t => Real.sqrt (NumAlg.dotp (at_ (varFns ρ wrt.name m.flat) t)
      (at_ (varFns ρ wrt.name m.flat) t)) := by
    funext t; simp [F, denote, at_varFns]
  rw [hF]
  have hv := hd_vars ρ wrt.name m.flat
  have hat : at_ (varFns ρ wrt.name m.flat) a₀ = valsOf ρ m.flat := by rw [at_varFns]; simp
  have hs := (Deriv.d_sqrt (x := NumAlg.dotp (at_ (varFns ρ wrt.name m.flat) a₀)
    (at_ (varFns ρ wrt.name m.flat) a₀)) (by rw [hat]; exact hpos)).comp a₀ (hv.dotp hv)
  refine hs.congr_deriv ?_
  rw [hat, dotD_self _ _ (by simp [valsOf, ind]), dotp_valsOf_ind]
  have hN : Real.sqrt (NumAlg.dotp (valsOf ρ m.flat) (valsOf ρ m.flat)) ≠ 0 :=
    (Real.sqrt_pos.mpr hpos).ne'
  simp only [frobRule]
  by_cases hc : countName wrt.name m.flat = 0
  · simp [hc]
  · simp only [beq_iff_eq, hc, ite_false, denote_sDiv, denote_sMul, denote_c, denote, unop_sqrt]
    push_cast
    field_simp

theorem l1_case (v : Vec) (hv : HD a₀ (FV v) (dV v)) (hwf : WFVec v)
    (hne : ∀ a ∈ denoteVec ρ σ v, a ≠ 0) :
    HasDerivAt (Fx (.l1 v)) ⟪l1Rule wrt v (gradVec wrt v)⟫ a₀ := by
  have hF : Fx (.l1 v) = fun t => NumAlg.sum ((at_ (FV v) t).map (unop .abs)) := by
    funext t; simp [F, denote, at_FVec]
  rw [hF]
  refine (hv.l1 (by rw [at_FVec_self]; exact hne)).congr_deriv ?_
  rw [at_FVec_self, sum_zip_mul (fun v => v / |v|)]
  cases v with
  | exprs es =>
    simp only [l1Rule]
    rw [denote_foldl_scaled ρ σ (fun e => sDiv e (Expr.un .abs e))]
    have : (es.toList.zip (gradVec wrt (Vec.exprs es))).map
        (fun p => ⟪sDiv p.1 (Expr.un .abs p.1)⟫ * ⟪p.2⟫)
        = ((es.toList.map (denote ρ σ)).zip ((gradVec wrt (Vec.exprs es)).map (denote ρ σ))).map
          (fun p => (fun v => v / |v|) p.1 * p.2) := by
      rw [List.zip_map, List.map_map]; apply List.map_congr_left; intro p _; simp [denote]
    rw [this, sum_zip_mul (fun v => v / |v|), toList_denote]
    simp [denoteVec]
  | vars vv =>
    rw [map_denote_gradVec_vars]
    simp only [l1Rule, denoteVec]
    rw [dotp_ind hwf]
    cases hf : findName wrt.name vv.vars with
    | none =>
      have : hasName wrt.name vv.vars = false := by rw [← findName_isSome_iff, hf]; rfl
      simp [this]
    | some i =>
      have : hasName wrt.name vv.vars = true := by rw [← findName_isSome_iff, hf]; rfl
      simp only [this, ite_true, denote_sDiv, denote, unop_abs]
      have h2 := valsOf_getD_findName (ρ := ρ) hf
      have : ((valsOf ρ vv.vars).map fun v => v / |v|).getD i 0 = ρ wrt.name / |ρ wrt.name| := by
        have hlt : i < (valsOf ρ vv.vars).length := by
          by_contra hge
          have hnone : (valsOf ρ vv.vars)[i]? = none := by simp at hge ⊢; exact hge
          -- the value at the first match is the coordinate itself, so the index is in range
          have hx := findName_lt hf
          simp [valsOf] at hge; omega
        simp only [List.getD_eq_getElem?_getD, List.getElem?_map] at h2 ⊢
        rw [List.getElem?_eq_getElem hlt] at h2 ⊢
        simp at h2 ⊢; rw [h2]
      rw [this]

theorem powSum_case (v : VVar) (k : Rat) (hwf : WFVVar v)
    (hreg : k = 1 ∨ k = 2 ∨ ∀ y ∈ v.vars, powReg k (ρ y.name)) :
    HasDerivAt (Fx (.powSum v k)) ⟪powSumRule wrt v k⟫ a₀ := by
  have hF : Fx (.powSum v k) = fun t =>
      NumAlg.sum ((valsOf (upd ρ wrt.name t) v.vars).map fun y => y ^ (k:ℝ)) := by
    funext t; simp [F, denote]
  rw [hF]
  have hg : hasName wrt.name v.vars = true →
      HasDerivAt (fun y : ℝ => y ^ (k:ℝ)) ((k:ℝ) * a₀ ^ ((k:ℝ) - 1)) a₀ := by
    intro hh
    apply Real.hasDerivAt_rpow_const
    rcases hreg with h | h | h
    · right; rw [h]; norm_num
    · right; rw [h]; norm_num
    · obtain ⟨xv, _, hn, hm⟩ := find?_some_of hh
      have hp := h xv hm
      rw [hn] at hp
      by_cases hd : k.den = 1
      · rcases hp.1 hd with h' | h'
        · exact Or.inl h'
        · exact Or.inr (by exact_mod_cast h')
      · exact Or.inl (hp.2 hd).ne'
  refine (sum_vars_comp ρ wrt.name _ _ v.vars hwf hg).congr_deriv ?_
  simp only [powSumRule]
  cases hh : hasName wrt.name v.vars with
  | false => simp [find?_eq_none_of hh]
  | true =>
    obtain ⟨xv, hf, hn, _⟩ := find?_some_of hh
    rw [hf]
    simp only [ite_true]
    by_cases h1 : k = 1
    · subst h1; simp
    · by_cases h2 : k = 2
      · subst h2; simp [denote, hn]; norm_num
      · simp [h1, h2, denote, hn]

theorem unSum_deriv (op : VOp) (y : ℝ) (xv : Var) (hy : ρ xv.name = y) (h : unReg op.toUn y) :
    HasDerivAt (unop op.toUn) ⟪unSumDeriv op (.var xv)⟫ y := by
  cases op with
  | sin =>
    change HasDerivAt Real.sin _ y
    simpa [unSumDeriv, denote, hy] using Real.hasDerivAt_sin y
  | cos =>
    change HasDerivAt Real.cos _ y
    simpa [unSumDeriv, denote, hy] using Real.hasDerivAt_cos y
  | exp =>
    change HasDerivAt Real.exp _ y
    simpa [unSumDeriv, denote, hy] using Real.hasDerivAt_exp y
  | log =>
    change HasDerivAt Real.log _ y
    simpa [unSumDeriv, denote, hy] using Deriv.d_log (x := y) h
  | sqrt =>
    change HasDerivAt (fun x => √x) _ y
    simpa [unSumDeriv, denote, hy] using Deriv.d_sqrt (x := y) h
  | sinh =>
    change HasDerivAt Real.sinh _ y
    simpa [unSumDeriv, denote, hy] using Real.hasDerivAt_sinh y
  | cosh =>
    change HasDerivAt Real.cosh _ y
    simpa [unSumDeriv, denote, hy] using Real.hasDerivAt_cosh y
  | tanh =>
    change HasDerivAt Real.tanh _ y
    refine (Deriv.d_tanh y).congr_deriv ?_
    simp [unSumDeriv, denote, hy]; ring
  | tan =>
    change HasDerivAt Real.tan _ y
    refine (Deriv.d_tan (x := y) h).congr_deriv ?_
    simp [unSumDeriv, denote, hy]; ring
  | abs =>
    change HasDerivAt (fun x => |x|) _ y
    simpa [unSumDeriv, denote, hy] using Deriv.d_abs (x := y) h

theorem unSum_case (v : VVar) (op : VOp) (hwf : WFVVar v)
    (hreg : ∀ y ∈ v.vars, unReg op.toUn (ρ y.name)) :
    HasDerivAt (Fx (.unSum v op)) ⟪unSumRule wrt v op⟫ a₀ := by
  have hF : Fx (.unSum v op) = fun t =>
      NumAlg.sum ((valsOf (upd ρ wrt.name t) v.vars).map (unop op.toUn)) := by
    funext t; simp [F, denote]
  rw [hF]
  cases hh : hasName wrt.name v.vars with
  | false =>
    have := sum_vars_comp ρ wrt.name (unop op.toUn) 0 v.vars hwf (by simp [hh])
    refine this.congr_deriv ?_
    simp [unSumRule, find?_eq_none_of hh, hh]
  | true =>
    obtain ⟨xv, hf, hn, hm⟩ := find?_some_of hh
    have hd := unSum_deriv ρ σ op a₀ xv (by rw [hn]) (by have := hreg xv hm; rwa [hn] at this)
    have := sum_vars_comp ρ wrt.name (unop op.toUn) _ v.vars hwf (fun _ => hd)
    refine this.congr_deriv ?_
    simp [unSumRule, hf, hh]

end nodes

end Optyx
