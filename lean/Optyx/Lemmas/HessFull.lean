/-
  Optyx.Lemmas.HessFull — every entry of the matrix returned by every closure of `compile_hessian`
  is the symbolic second derivative *in its own order of differentiation*: the mirrored lower
  triangle of the general path is justified by Schwarz' theorem (`Lemmas/Schwarz.lean`).
-/
import Optyx.Lemmas.JacHess
import Optyx.Lemmas.Schwarz

namespace Optyx
open Optyx.Py Optyx.Py.Jac

/-- `compile_hessian` returns a diagonal fast-path closure only for the two vectorised sums, and
    otherwise the general closure over `compute_hessian(e, V)` -/
theorem compileHessian_cases {e : Expr} {V : List Var} {clo : HessClo} (h : compileHessian e V = .ok clo) :
    ((∃ v k, e = .powSum v k) ∨ (∃ v op, e = .unSum v op ∧ hessFastOp op = true)) ∨
    clo = .general V (computeHessian e V) := by
  have gen : ∀ {c : HessClo},
      (if (upperEntries (computeHessian e V)).all (namesOK V) then
        (Except.ok (HessClo.general V (computeHessian e V)) : Except JErr HessClo) else .error .keyError) = .ok c →
      c = .general V (computeHessian e V) := by
    intro c hc
    split at hc
    · cases hc; rfl
    · cases hc
  unfold compileHessian at h
  cases e with
  | powSum v k => exact Or.inl (Or.inl ⟨v, k, rfl⟩)
  | unSum v op =>
    by_cases hop : hessFastOp op = true
    · exact Or.inl (Or.inr ⟨v, op, rfl, hop⟩)
    · right
      simp only [hop] at h
      split at h
      · cases h
      · exact gen h
  | _ => exact Or.inr (gen h)

variable (σ : Nat → ℝ)

theorem compileHessian_entries_all {V : List Var} (hnd : (names V).Nodup) (x : List ℝ) (hx : x.length = V.length)
    (e : Expr) (hwf : WF e) (hreg : Regular (envOf V x) σ e)
    {clo : HessClo} (h : compileHessian e V = .ok clo) {i j : Nat} (hi : i < V.length) (hj : j < V.length) :
    entry? (clo.run x σ) i j = some (denote (envOf V x) σ (hessEntry e V[i] V[j])) := by
  rcases compileHessian_cases h with hfast | rfl
  · exact hessFast_entries σ hnd x hx e hfast h hi hj
  · rw [general_run_entry σ e V x hi hj]
    by_cases hle : i ≤ j
    · simp [hle]
    · simp only [hle, if_false]
      have hne : V[j].name ≠ V[i].name := by
        intro hn
        have := (names_eq_iff hnd hj hi).mp hn
        omega
      rw [hessEntry_symm e V[j] V[i] hne (envOf V x) σ hwf hreg]

end Optyx
