/-
  Optyx.Lemmas.SolveHandles — lemmas about `Solution.__getitem__` and the construction routes of
  VectorVariable / MatrixVariable handles (model: `Py/Solve.lean`): look-ups by position, well-formed
  grids, transposed and symmetric handles, "views are made of the base's elements", binary ⇒ [0, 1].
  Core Lean only.
-/
import Optyx.Lemmas.Solve

namespace Optyx.Py.Solve

/-! ### look-ups -/


theorem mapE_ok {α β} (f : α → Except Exc β) (l : List α) (h : ∀ a ∈ l, ∃ b, f a = .ok b) :
    ∃ bs, mapE f l = .ok bs := by
  induction l with
  | nil => exact ⟨[], rfl⟩
  | cons a t ih =>
    obtain ⟨b, hb⟩ := h a (by simp)
    obtain ⟨bs, hbs⟩ := ih (fun x hx => h x (by simp [hx]))
    exact ⟨b :: bs, by simp [mapE, hb, hbs]⟩

theorem mapE_spec {α β} (f : α → Except Exc β) (l : List α) (bs : List β) (h : mapE f l = .ok bs) :
    bs.length = l.length ∧ ∀ i (h1 : i < l.length) (h2 : i < bs.length), f l[i] = .ok bs[i] := by
  induction l generalizing bs with
  | nil => simp [mapE] at h; subst h; simp
  | cons a t ih =>
    simp only [mapE] at h
    split at h
    · cases h
    · rename_i b hb
      split at h
      · cases h
      · rename_i bs' hbs'
        injection h with h; subst h
        obtain ⟨hl, hi⟩ := ih bs' hbs'
        refine ⟨by simp [hl], ?_⟩
        intro i h1 h2
        cases i with
        | zero => simpa using hb
        | succ j => simpa using hi j (by simpa using h1) (by simpa using h2)

theorem lookupValue_ok {values name q} (h : lookupValue values name = .ok q) : dictGet values name = some q := by
  unfold lookupValue at h
  split at h
  · injection h with h; subst h; assumption
  · cases h

/-- every element of the handle has a value -/
def Covers (values : List (String × Rat)) (vars : List PVar) : Prop :=
  ∀ e ∈ vars, ∃ q, dictGet values e.name = some q

theorem getVector_spec (values : List (String × Rat)) (v : PVec) (hc : Covers values v.vars) :
    ∃ l, getVector values v = .ok l ∧ l.length = v.vars.length ∧
      ∀ i (h1 : i < v.vars.length) (h2 : i < l.length), dictGet values v.vars[i].name = some l[i] := by
  obtain ⟨l, hl⟩ := mapE_ok (fun e => lookupValue values e.name) v.vars (by
    intro e he
    obtain ⟨q, hq⟩ := hc e he
    exact ⟨q, by simp [lookupValue, hq]⟩)
  obtain ⟨h1, h2⟩ := mapE_spec _ _ _ hl
  exact ⟨l, hl, h1, fun i a b => lookupValue_ok (h2 i a b)⟩

/-- the stored dimensions agree with the grid (established by every constructor) -/
def PMat.WF (m : PMat) : Prop := m.grid.length = m.nrows ∧ ∀ row ∈ m.grid, row.length = m.ncols

theorem gridGet_some (m : PMat) (hw : m.WF) (i j : Nat) (hi : i < m.nrows) (hj : j < m.ncols) :
    ∃ e, gridGet m.grid i j = some e ∧ e ∈ m.elems := by
  obtain ⟨h1, h2⟩ := hw
  have hi' : i < m.grid.length := by omega
  have hrow : m.grid[i] ∈ m.grid := List.getElem_mem _
  have hj' : j < m.grid[i].length := by rw [h2 _ hrow]; exact hj
  refine ⟨m.grid[i][j], ?_, ?_⟩
  · simp [gridGet, List.getElem?_eq_getElem hi', List.getElem?_eq_getElem hj']
  · simp only [PMat.elems, List.mem_flatten]
    exact ⟨m.grid[i], hrow, List.getElem_mem _⟩

theorem getMatrix_spec (values : List (String × Rat)) (m : PMat) (hw : m.WF) (hc : Covers values m.elems) :
    ∃ A, getMatrix values m = .ok A ∧ A.length = m.nrows ∧
      ∀ i (_ : i < m.nrows) (hA : i < A.length), A[i].length = m.ncols ∧
        ∀ j (_ : j < m.ncols) (hAj : j < A[i].length),
          ∃ e, gridGet m.grid i j = some e ∧ dictGet values e.name = some A[i][j] := by
  have hrow : ∀ i ∈ List.range m.nrows, ∃ r, mapE (fun j =>
      match gridGet m.grid i j with
      | some e => lookupValue values e.name
      | none => .error .index) (List.range m.ncols) = .ok r := by
    intro i hi
    apply mapE_ok
    intro j hj
    obtain ⟨e, he, hmem⟩ := gridGet_some m hw i j (by simpa using hi) (by simpa using hj)
    obtain ⟨q, hq⟩ := hc e hmem
    exact ⟨q, by simp [he, lookupValue, hq]⟩
  obtain ⟨A, hA⟩ := mapE_ok _ _ hrow
  refine ⟨A, hA, ?_, ?_⟩
  · have := (mapE_spec _ _ _ hA).1; simpa using this
  · intro i hi hAi
    have hAi' := (mapE_spec _ _ _ hA).2 i (by simpa using hi) hAi
    simp only [List.getElem_range] at hAi'
    obtain ⟨hlen, hent⟩ := mapE_spec _ _ _ hAi'
    refine ⟨by simpa using hlen, ?_⟩
    intro j hj hAj
    have := hent j (by simpa using hj) hAj
    simp only [List.getElem_range] at this
    obtain ⟨e, he, _⟩ := gridGet_some m hw i j hi hj
    rw [he] at this
    exact ⟨e, he, lookupValue_ok this⟩

/-! ### grids -/



theorem filterMap_eq_map_of {α β} (l : List α) (f : α → Option β) (h : α → β) (hf : ∀ a ∈ l, f a = some (h a)) :
    l.filterMap f = l.map h := by
  induction l with
  | nil => rfl
  | cons a t ih =>
    simp only [List.filterMap_cons, hf a (by simp), List.map_cons]
    rw [ih (fun x hx => hf x (by simp [hx]))]

theorem gridGet_mk (r c : Nat) (f : Nat → Nat → PVar) (i j : Nat) (hi : i < r) (hj : j < c) :
    gridGet ((List.range r).map fun i => (List.range c).map fun j => f i j) i j = some (f i j) := by
  simp [gridGet, hi, hj]

theorem wf_mk (name : String) (r c : Nat) (lb ub : Option Rat) (d : Domain) (sym tr : Bool) (f : Nat → Nat → PVar) :
    PMat.WF { name := name, nrows := r, ncols := c, lb := lb, ub := ub, domain := d, symmetric := sym,
              isTranspose := tr, grid := (List.range r).map fun i => (List.range c).map fun j => f i j } := by
  constructor
  · simp
  · intro row hrow
    simp only [List.mem_map, List.mem_range] at hrow
    obtain ⟨i, _, rfl⟩ := hrow
    simp

theorem mkMatrix_wf {name rows cols lb ub d sym m} (h : mkMatrix name rows cols lb ub d sym = .ok m) : m.WF := by
  unfold mkMatrix at h
  split at h
  · cases h
  · split at h
    · cases h
    · split at h
      · cases h
      · injection h with h
        subst h
        exact wf_mk _ _ _ _ _ _ _ _ _

theorem gridGet_wf (m : PMat) (hw : m.WF) (i j : Nat) (hi : i < m.nrows) (hj : j < m.ncols) :
    ∃ e, gridGet m.grid i j = some e := by
  obtain ⟨h1, h2⟩ := hw
  have hi' : i < m.grid.length := by omega
  have hj' : j < m.grid[i].length := by rw [h2 _ (List.getElem_mem _)]; exact hj
  exact ⟨m.grid[i][j], by simp [gridGet, List.getElem?_eq_getElem hi', List.getElem?_eq_getElem hj']⟩

theorem transpose_grid (m : PMat) (hw : m.WF) :
    m.T.WF ∧ ∀ i j, i < m.ncols → j < m.nrows → gridGet m.T.grid i j = gridGet m.grid j i := by
  have hinner : ∀ i, i < m.ncols →
      (List.range m.nrows).filterMap (fun j => gridGet m.grid j i)
        = (List.range m.nrows).map (fun j => (gridGet m.grid j i).getD default) := by
    intro i hi
    apply filterMap_eq_map_of
    intro j hj
    obtain ⟨e, he⟩ := gridGet_wf m hw j i (by simpa using hj) hi
    simp [he]
  constructor
  · constructor
    · simp [PMat.T]
    · intro row hrow
      simp only [PMat.T, List.mem_map, List.mem_range] at hrow
      obtain ⟨i, hi, rfl⟩ := hrow
      rw [hinner i hi]
      simp [PMat.T]
  · intro i j hi hj
    simp only [PMat.T]
    have : (List.range m.ncols).map (fun i => (List.range m.nrows).filterMap fun j => gridGet m.grid j i)
        = (List.range m.ncols).map (fun i => (List.range m.nrows).map fun j => (gridGet m.grid j i).getD default) := by
      apply List.map_congr_left
      intro i hi
      exact hinner i (by simpa using hi)
    rw [this, gridGet_mk _ _ (fun i j => (gridGet m.grid j i).getD default) i j hi hj]
    obtain ⟨e, he⟩ := gridGet_wf m hw j i hj hi
    simp [he]

theorem symmetric_grid {name : String} {n : Int} {lb ub d m} (h : mkMatrix name n n lb ub d true = .ok m) :
    ∀ i j, i < m.nrows → j < m.ncols → gridGet m.grid i j = gridGet m.grid j i := by
  unfold mkMatrix at h
  split at h
  · cases h
  · split at h
    · cases h
    · dsimp only at h
      · injection h with h
        subst h
        intro i j hi hj
        dsimp only at hi hj ⊢
        rw [gridGet_mk _ _ _ i j hi hj, gridGet_mk _ _ _ j i hj hi]
        simp only [Bool.true_and, decide_eq_true_eq]
        by_cases hlt : j < i
        · have : ¬ i < j := by omega
          simp [hlt, this]
        · by_cases hgt : i < j
          · simp [hlt, hgt]
          · have : i = j := by omega
            subst this; rfl

/-! ### construction routes -/


/-- binary ⇒ bounds [0, 1] -/
def ElemOK (e : PVar) : Prop := e.domain = .binary → e.lb = some 0 ∧ e.ub = some 1
/-- every element carries the handle's domain and, if binary, the bounds [0, 1] -/
def VecOK (v : PVec) : Prop := ∀ e ∈ v.vars, ElemOK e ∧ e.domain = v.domain
def MatOK (m : PMat) : Prop := ∀ e ∈ m.elems, ElemOK e ∧ e.domain = m.domain

theorem mkVariable_ok (n : String) (lb ub : Option Rat) (d : Domain) :
    ElemOK (mkVariable n lb ub d) ∧ (mkVariable n lb ub d).domain = d := by
  unfold mkVariable ElemOK
  cases d <;> simp

theorem mkVector_ok {name size lb ub d v} (h : mkVector name size lb ub d = .ok v) : VecOK v ∧ v.domain = d := by
  unfold mkVector at h
  split at h
  · cases h
  · injection h with h
    subst h
    refine ⟨?_, rfl⟩
    intro e he
    simp only [List.mem_map, List.mem_range] at he
    obtain ⟨i, _, rfl⟩ := he
    exact mkVariable_ok _ _ _ _

theorem pySlice_subset {α} {l l' : List α} {k : PySlice} (h : pySlice l k = .ok l') : ∀ e ∈ l', e ∈ l := by
  unfold pySlice at h
  dsimp only at h
  split at h
  · cases h
  · injection h with h
    subst h
    intro e he
    simp only [List.mem_filterMap] at he
    obtain ⟨i, _, hi⟩ := he
    exact List.mem_of_getElem? hi

theorem slice_subset {v v' : PVec} {k} (h : v.slice k = .ok v') :
    (∀ e ∈ v'.vars, e ∈ v.vars) ∧ v'.domain = v.domain ∧ v'.lb = v.lb ∧ v'.ub = v.ub := by
  unfold PVec.slice at h
  cases hs : pySlice v.vars k with
  | error e => rw [hs] at h; cases h
  | ok vs =>
    rw [hs] at h
    simp only [bind, Except.bind] at h
    split at h
    · cases h
    · injection h with h
      subst h
      exact ⟨pySlice_subset hs, rfl, rfl, rfl⟩

theorem VecOK.of_subset {v v' : PVec} (hv : VecOK v) (hs : ∀ e ∈ v'.vars, e ∈ v.vars) (hd : v'.domain = v.domain) :
    VecOK v' := fun e he => by rw [hd]; exact hv e (hs e he)

theorem vget_mem {v : PVec} {i e} (h : v.get i = .ok e) : e ∈ v.vars := by
  unfold PVec.get at h
  cases hn : normIndex i v.vars.length with
  | error _ => rw [hn] at h; cases h
  | ok j =>
    rw [hn] at h
    simp only [bind, Except.bind] at h
    split at h
    · rename_i e' he'
      injection h with h; subst h
      exact List.mem_of_getElem? he'
    · cases h

theorem gridGet_mem {g : List (List PVar)} {i j e} (h : gridGet g i j = some e) : e ∈ g.flatten := by
  unfold gridGet at h
  cases hr : g[i]? with
  | none => simp [hr] at h
  | some row =>
    simp only [hr, Option.bind_some] at h
    exact List.mem_flatten.mpr ⟨row, List.mem_of_getElem? hr, List.mem_of_getElem? h⟩

theorem mkMatrix_ok {name rows cols lb ub d sym m} (h : mkMatrix name rows cols lb ub d sym = .ok m) :
    MatOK m ∧ m.domain = d := by
  unfold mkMatrix at h
  split at h
  · cases h
  · split at h
    · cases h
    · split at h
      · cases h
      · injection h with h
        subst h
        refine ⟨?_, rfl⟩
        intro e he
        simp only [PMat.elems, List.mem_flatten, List.mem_map, List.mem_range] at he
        obtain ⟨row, ⟨i, _, rfl⟩, he⟩ := he
        simp only [List.mem_map, List.mem_range] at he
        obtain ⟨j, _, rfl⟩ := he
        dsimp only
        split <;> exact mkVariable_ok _ _ _ _

theorem transpose_subset (m : PMat) : (∀ e ∈ m.T.elems, e ∈ m.elems) ∧ m.T.domain = m.domain := by
  refine ⟨?_, rfl⟩
  intro e he
  simp only [PMat.T, PMat.elems, List.mem_flatten, List.mem_map, List.mem_range] at he
  obtain ⟨row, ⟨i, _, rfl⟩, he⟩ := he
  simp only [List.mem_filterMap, List.mem_range] at he
  obtain ⟨j, _, hj⟩ := he
  exact gridGet_mem hj

theorem MatOK.of_subset {m m' : PMat} (hm : MatOK m) (hs : ∀ e ∈ m'.elems, e ∈ m.elems) (hd : m'.domain = m.domain) :
    MatOK m' := fun e he => by rw [hd]; exact hm e (hs e he)

theorem mget_mem {m : PMat} {i j e} (h : m.get i j = .ok e) : e ∈ m.elems := by
  unfold PMat.get at h
  cases hi : normIndex i m.nrows with
  | error _ => rw [hi] at h; cases h
  | ok i' =>
    cases hj : normIndex j m.ncols with
    | error _ => rw [hi, hj] at h; cases h
    | ok j' =>
      rw [hi, hj] at h
      simp only [bind, Except.bind] at h
      split at h
      · rename_i e' he'
        injection h with h; subst h
        exact gridGet_mem he'
      · cases h

theorem row_subset {m : PMat} {i cs v} (h : m.row i cs = .ok v) :
    (∀ e ∈ v.vars, e ∈ m.elems) ∧ v.domain = m.domain := by
  unfold PMat.row at h
  cases hi : normIndex i m.nrows with
  | error _ => rw [hi] at h; cases h
  | ok i' =>
    rw [hi] at h
    simp only [bind, Except.bind] at h
    cases hs : pySlice (m.grid[i']?.getD []) cs with
    | error _ => rw [hs] at h; cases h
    | ok vs =>
      rw [hs] at h
      dsimp only at h
      split at h
      · cases h
      · injection h with h
        subst h
        refine ⟨?_, rfl⟩
        intro e he
        have h1 := pySlice_subset hs e he
        cases hr : m.grid[i']? with
        | none => simp [hr] at h1
        | some row =>
          simp only [hr, Option.getD_some] at h1
          exact List.mem_flatten.mpr ⟨row, List.mem_of_getElem? hr, h1⟩

theorem col_subset {m : PMat} {rs j v} (h : m.col rs j = .ok v) :
    (∀ e ∈ v.vars, e ∈ m.elems) ∧ v.domain = m.domain := by
  unfold PMat.col at h
  cases hj : normIndex j m.ncols with
  | error _ => rw [hj] at h; cases h
  | ok j' =>
    rw [hj] at h
    simp only [bind, Except.bind] at h
    cases hs : pySlice m.grid rs with
    | error _ => rw [hs] at h; cases h
    | ok rows =>
      rw [hs] at h
      dsimp only at h
      split at h
      · cases h
      · injection h with h
        subst h
        refine ⟨?_, rfl⟩
        intro e he
        simp only [List.mem_filterMap] at he
        obtain ⟨row, hrow, hje⟩ := he
        exact List.mem_flatten.mpr ⟨row, pySlice_subset hs row hrow, List.mem_of_getElem? hje⟩

theorem mapM_pySlice_subset {rows g : List (List PVar)} {cs : PySlice}
    (h : rows.mapM (fun r => pySlice r cs) = .ok g) : ∀ e ∈ g.flatten, e ∈ rows.flatten := by
  induction rows generalizing g with
  | nil =>
    simp only [List.mapM_nil, pure, Except.pure] at h
    injection h with h; subst h; simp
  | cons r t ih =>
    rw [List.mapM_cons] at h
    cases hr : pySlice r cs with
    | error _ => rw [hr] at h; cases h
    | ok r' =>
      rw [hr] at h
      simp only [bind, Except.bind] at h
      cases ht : t.mapM (fun r => pySlice r cs) with
      | error _ => rw [ht] at h; cases h
      | ok t' =>
        rw [ht] at h
        simp only [pure, Except.pure] at h
        injection h with h; subst h
        intro e he
        simp only [List.flatten_cons, List.mem_append] at he ⊢
        rcases he with he | he
        · exact Or.inl (pySlice_subset hr e he)
        · exact Or.inr (ih ht e he)

theorem sub_subset {m m' : PMat} {rs cs} (h : m.sub rs cs = .ok m') :
    (∀ e ∈ m'.elems, e ∈ m.elems) ∧ m'.domain = m.domain := by
  unfold PMat.sub at h
  cases hs : pySlice m.grid rs with
  | error _ => rw [hs] at h; cases h
  | ok rows =>
    rw [hs] at h
    simp only [bind, Except.bind] at h
    split at h
    · cases h
    · cases hg : rows.mapM (fun r => pySlice r cs) with
      | error _ => rw [hg] at h; cases h
      | ok g =>
        rw [hg] at h
        dsimp only at h
        split at h
        · cases h
        · injection h with h
          subst h
          refine ⟨?_, rfl⟩
          intro e he
          have h1 := mapM_pySlice_subset hg e he
          obtain ⟨row, hrow, herow⟩ := List.mem_flatten.mp h1
          exact List.mem_flatten.mpr ⟨row, pySlice_subset hs row hrow, herow⟩

theorem diagonal_subset {m : PMat} {v} (h : m.diagonal = .ok v) :
    (∀ e ∈ v.vars, e ∈ m.elems) ∧ v.domain = m.domain := by
  unfold PMat.diagonal at h
  split at h
  · cases h
  · injection h with h
    subst h
    refine ⟨?_, rfl⟩
    intro e he
    simp only [List.mem_filterMap, List.mem_range] at he
    obtain ⟨i, _, hi⟩ := he
    exact gridGet_mem hi

theorem diagMatrix_elems (v : PVec) (lb ub : Option Rat) :
    (∀ e ∈ (diagMatrix v lb ub).elems, e ∈ v.vars ∨ ∃ n, e = mkVariable n (some 0) (some 0) v.domain) ∧
    (diagMatrix v lb ub).domain = v.domain := by
  refine ⟨?_, rfl⟩
  intro e he
  simp only [diagMatrix, matFromVariables, PMat.elems, List.mem_flatten, List.mem_map, List.mem_range] at he
  obtain ⟨row, ⟨i, _, rfl⟩, he⟩ := he
  simp only [List.mem_filterMap, List.mem_range] at he
  obtain ⟨j, _, hj⟩ := he
  split at hj
  · exact Or.inl (List.mem_of_getElem? hj)
  · injection hj with hj
    exact Or.inr ⟨_, hj.symm⟩

theorem diagMatrix_ok {v : PVec} (hv : VecOK v) (lb ub : Option Rat) : MatOK (diagMatrix v lb ub) := by
  intro e he
  obtain ⟨h1, h2⟩ := diagMatrix_elems v lb ub
  rw [h2]
  rcases h1 e he with hm | ⟨n, rfl⟩
  · exact hv e hm
  · exact mkVariable_ok _ _ _ _

end Optyx.Py.Solve
