/-
  Optyx.Lemmas.CoeffsSound — meaning of the extraction walkers over ℝ.

  (A) `const_deg0`: a degree-0 expression denotes its extracted constant.
  (B) `walk_sound`: for a linear expression, one successful pass of
      `_extract_all_coefficients_impl` with multiplier `m` adds `m · (⟦e⟧ − constTerm e)` to the
      value `Σ r[i]·ρ(V[i])` of the accumulator array.
-/
import Optyx.Lemmas.CoeffsBasic
import Optyx.Lemmas.DegreeSound

namespace Optyx
open NumAlg Optyx.Py

/-! ### small facts about the scalar helpers -/

theorem cstRat_ok {c : Cst} {q : Rat} (h : cstRat c = .ok q) : c = .rat q := by
  cases c <;> simp [cstRat] at h
  subst h; rfl

theorem cstInt_of_ratNat {q : Rat} {n : ℕ} (h : ratNat q = some n) : cstInt (.rat q) = (n : Int) := by
  unfold ratNat at h
  split at h
  · rename_i hc
    simp only [Bool.and_eq_true, beq_iff_eq, decide_eq_true_eq] at hc
    obtain ⟨hden, hnum⟩ := hc
    have hn : n = q.num.toNat := by simpa using h.symm
    simp only [cstInt, hden, Int.natCast_one, Int.tdiv_one, hn]
    exact (Int.toNat_of_nonneg hnum).symm
  · simp at h

theorem ratPowInt_nat {a k : Rat} {n : ℕ} (h : ratPowInt a (n : Int) = .ok k) : k = a ^ n := by
  unfold ratPowInt at h
  simp only [Int.natCast_nonneg, if_true, Int.toNat_natCast, Except.ok.injEq] at h
  exact h.symm

theorem maxDegList_ge : ∀ (es : ExprList) (acc a : ℕ), maxDegList es acc = some a → acc ≤ a
  | .nil, acc, a, h => by simp only [maxDegList, Option.some.injEq] at h; omega
  | .cons e t, acc, a, h => by
    simp only [maxDegList] at h
    split at h
    · simp at h
    · rename_i d _
      have := maxDegList_ge t (max acc d) a h
      exact (le_max_left acc d).trans this

/-- every form of the `*` case of `_extract_constant_impl` is "product of the factors' constants" -/
theorem constTerm_mul {l r : Expr} {k : Rat} (h : constTerm (.bin .mul l r) = .ok k) :
    ∃ a b, constTerm l = .ok a ∧ constTerm r = .ok b ∧ k = a * b := by
  simp only [constTerm] at h
  split at h
  · simp only [bind_ok, pure_ok] at h
    obtain ⟨q, hq, b, hb, rfl⟩ := h
    exact ⟨q, b, by simpa [constTerm] using hq, hb, rfl⟩
  · split at h
    · simp only [bind_ok, pure_ok] at h
      obtain ⟨a, ha, q, hq, rfl⟩ := h
      exact ⟨a, q, ha, by simpa [constTerm] using hq, rfl⟩
    · simp only [bind_ok, pure_ok] at h
      obtain ⟨a, ha, b, hb, rfl⟩ := h
      exact ⟨a, b, ha, hb, rfl⟩

theorem degree_mul_some {l r : Expr} {d : ℕ} (h : degree (.bin .mul l r) = some d) :
    ∃ a b, degree l = some a ∧ degree r = some b ∧ ¬ (0 < a ∧ 0 < b) ∧ d = a + b := by
  simp only [degree] at h
  split at h
  · simp at h
  · rename_i a ha
    split at h
    · simp at h
    · rename_i b hb
      split at h
      · simp at h
      · rename_i hab
        simp only [Option.some.injEq] at h
        exact ⟨a, b, ha, hb, hab, h.symm⟩

theorem degree_addsub_some {op : BinOp} (hop : op = .add ∨ op = .sub) {l r : Expr} {d : ℕ}
    (h : degree (.bin op l r) = some d) :
    ∃ a b, degree l = some a ∧ degree r = some b ∧ d = max a b := by
  rcases hop with rfl | rfl <;>
  · simp only [degree] at h
    split at h
    · simp at h
    · rename_i a ha
      split at h
      · simp at h
      · rename_i b hb
        simp only [Option.some.injEq] at h
        exact ⟨a, b, ha, hb, h.symm⟩

theorem degree_pow_some {l r : Expr} {d : ℕ} (h : degree (.bin .pow l r) = some d) :
    ∃ q n a, r = .const (.rat q) ∧ ratNat q = some n ∧ degree l = some a ∧ d = a * n := by
  simp only [degree] at h
  split at h
  · simp at h
  · rename_i n hn
    split at h
    · simp at h
    · rename_i a ha
      simp only [Option.some.injEq] at h
      obtain ⟨q, rfl, hq⟩ := expNat_eq hn
      exact ⟨q, n, a, rfl, hq, ha, h.symm⟩

theorem degree_div_some {l r : Expr} {d : ℕ} (h : degree (.bin .div l r) = some d) :
    ∃ c, r = .const c ∧ degree l = some d := by
  simp only [degree] at h
  split at h
  · rename_i hc
    obtain ⟨c, rfl⟩ := isConstNode_eq hc
    exact ⟨c, rfl, h⟩
  · simp at h

theorem ratNat_eq {q : Rat} {n : ℕ} (h : ratNat q = some n) : q = (n : Rat) := by
  have h1 : (q : ℝ) = ((n : Rat) : ℝ) := by rw [ratNat_cast h]; norm_cast
  exact_mod_cast h1

theorem sum_map_pow_zero (ρ : String → ℝ) : ∀ (vs : List Var),
    NumAlg.sum ((valsOf ρ vs).map fun x => NumAlg.pow x (NumAlg.ofRat (0 : Rat))) = (vs.length : ℝ)
  | [] => by simp [valsOf]
  | v :: vs => by
    have ih := sum_map_pow_zero ρ vs
    simp only [valsOf, List.map_cons, sum_cons, List.length_cons] at ih ⊢
    rw [ih]
    simp only [pow_real, ofRat_real, Rat.cast_zero, Real.rpow_zero]
    push_cast; ring

theorem sum_map_pow_one (ρ : String → ℝ) : ∀ (vs : List Var),
    NumAlg.sum ((valsOf ρ vs).map fun x => NumAlg.pow x (NumAlg.ofRat (1 : Rat))) = NumAlg.sum (valsOf ρ vs)
  | [] => by simp [valsOf]
  | v :: vs => by
    have ih := sum_map_pow_one ρ vs
    simp only [valsOf, List.map_cons, sum_cons] at ih ⊢
    rw [ih]
    simp only [pow_real, ofRat_real, Rat.cast_one, Real.rpow_one]

/-! ### (A) degree 0 ⇒ the expression denotes its extracted constant -/

mutual
theorem const_deg0 : (e : Expr) → ∀ (k : Rat), degree e = some 0 →
    constTerm e = .ok k → ∀ (ρ : String → ℝ) (σ : Nat → ℝ), denote ρ σ e = (k : ℝ)
  | .const c, k, _, hk, ρ, σ => by
    simp only [constTerm] at hk
    rw [cstRat_ok hk]; simp [denote]
  | .var _, _, hd, _, _, _ => by simp [degree] at hd
  | .param _, _, hd, _, _, _ => by simp [degree] at hd
  | .vecSum _, _, hd, _, _, _ => by simp [degree] at hd
  | .exprSum _, _, hd, _, _, _ => by simp [degree] at hd
  | .l2 _, _, hd, _, _, _ => by simp [degree] at hd
  | .l1 _, _, hd, _, _, _ => by simp [degree] at hd
  | .unSum _ _, _, hd, _, _, _ => by simp [degree] at hd
  | .matSumV _, _, hd, _, _, _ => by simp [degree] at hd
  | .matSumE _, _, hd, _, _, _ => by simp [degree] at hd
  | .frob _, _, hd, _, _, _ => by simp [degree] at hd
  | .powSum vv q, k, hd, hk, ρ, σ => by
    simp only [degree] at hd
    have hq : q = 0 := by simpa using ratNat_eq hd
    subst hq
    simp only [constTerm, beq_self_eq_true, if_true, Except.ok.injEq] at hk
    subst hk
    simp only [denote, sum_map_pow_zero]
    push_cast; rfl
  | .dot l r, _, hd, _, _, _ => by
    simp only [degree] at hd
    split at hd
    · simp at hd
    · split at hd
      · simp at hd
      · simp only [Option.some.injEq] at hd
        have := le_max_left 2 (‹ℕ› + ‹ℕ›)
        omega
  | .quad v q, _, hd, _, _, _ => by
    simp only [degree] at hd
    split at hd
    · simp at hd
    · simp only [Option.some.injEq] at hd
      have := le_max_left 2 (2 * ‹ℕ›)
      omega
  | .linComb cs v, k, hd, hk, ρ, σ => by
    cases v with
    | vars vv => simp [degree, vecDegree] at hd
    | exprs es =>
      simp only [degree, vecDegree] at hd
      simp only [constTerm] at hk
      have := constLc_deg0 es 0 cs 0 k hd hk ρ σ
      simpa [denote, denoteVec] using this
  | .un op a, k, hd, hk, ρ, σ => by
    cases op <;> simp only [degree] at hd <;> try (simp at hd)
    simp only [constTerm, bind_ok, pure_ok] at hk
    obtain ⟨x, hx, rfl⟩ := hk
    have := const_deg0 a x hd hx ρ σ
    simp [denote, this]
  | .bin .add l r, k, hd, hk, ρ, σ => by
    obtain ⟨a, b, ha, hb, hab⟩ := degree_addsub_some (Or.inl rfl) hd
    have ha0 : a = 0 := by have := le_max_left a b; omega
    have hb0 : b = 0 := by have := le_max_right a b; omega
    subst ha0 hb0
    simp only [constTerm, bind_ok, pure_ok] at hk
    obtain ⟨x, hx, y, hy, rfl⟩ := hk
    simp [denote, const_deg0 l x ha hx ρ σ, const_deg0 r y hb hy ρ σ]
  | .bin .sub l r, k, hd, hk, ρ, σ => by
    obtain ⟨a, b, ha, hb, hab⟩ := degree_addsub_some (Or.inr rfl) hd
    have ha0 : a = 0 := by have := le_max_left a b; omega
    have hb0 : b = 0 := by have := le_max_right a b; omega
    subst ha0 hb0
    simp only [constTerm, bind_ok, pure_ok] at hk
    obtain ⟨x, hx, y, hy, rfl⟩ := hk
    simp [denote, const_deg0 l x ha hx ρ σ, const_deg0 r y hb hy ρ σ]
  | .bin .mul l r, k, hd, hk, ρ, σ => by
    obtain ⟨a, b, ha, hb, _, hab⟩ := degree_mul_some hd
    have ha0 : a = 0 := by omega
    have hb0 : b = 0 := by omega
    subst ha0 hb0
    obtain ⟨x, y, hx, hy, rfl⟩ := constTerm_mul hk
    simp [denote, const_deg0 l x ha hx ρ σ, const_deg0 r y hb hy ρ σ]
  | .bin .div l r, k, hd, hk, ρ, σ => by
    obtain ⟨c, rfl, hl⟩ := degree_div_some hd
    simp only [constTerm, bind_ok] at hk
    obtain ⟨x, hx, q, hq, hk⟩ := hk
    obtain ⟨_, rfl⟩ := ratDiv_ok hk
    rw [cstRat_ok hq]
    simp [denote, const_deg0 l x hl hx ρ σ]
  | .bin .pow l r, k, hd, hk, ρ, σ => by
    obtain ⟨q, n, a, rfl, hq, hl, han⟩ := degree_pow_some hd
    have hcast := ratNat_cast hq
    have hint := cstInt_of_ratNat hq
    simp only [constTerm, hint] at hk
    by_cases hn : n = 0
    · subst hn
      simp only [Int.natCast_zero, beq_self_eq_true, if_true, Except.ok.injEq] at hk
      subst hk
      simp [denote, hcast]
    · have hne : ((n : Int) == 0) = false := by simpa using hn
      simp only [hne, Bool.false_eq_true, if_false, bind_ok] at hk
      obtain ⟨x, hx, hk⟩ := hk
      have hkx := ratPowInt_nat hk
      have ha0 : a = 0 := by
        rcases Nat.eq_zero_or_pos a with h | h
        · exact h
        · have : 0 < a * n := Nat.mul_pos h (Nat.pos_of_ne_zero hn)
          omega
      subst ha0
      have := const_deg0 l x hl hx ρ σ
      simp only [denote, binop_pow, cst_rat, hcast, Real.rpow_natCast, this, hkx]
      push_cast; rfl
theorem constLc_deg0 : (es : ExprList) → ∀ (acc : ℕ) (cs : List Rat) (k0 k : Rat),
    maxDegList es acc = some 0 → constLc es cs k0 = .ok k →
    ∀ (ρ : String → ℝ) (σ : Nat → ℝ), wsum cs (denoteList ρ σ es) = (k : ℝ) - (k0 : ℝ)
  | .nil, _, cs, k0, k, _, hk, ρ, σ => by
    simp only [constLc, Except.ok.injEq] at hk; subst hk
    simp [denoteList]
  | .cons e t, acc, cs, k0, k, hd, hk, ρ, σ => by
    simp only [maxDegList] at hd
    split at hd
    · simp at hd
    · rename_i d hde
      have hge := maxDegList_ge t (max acc d) 0 hd
      have hd0 : d = 0 := by have := le_max_right acc d; omega
      subst hd0
      cases cs with
      | nil => simp [constLc] at hk
      | cons c cs' =>
        simp only [constLc, bind_ok] at hk
        obtain ⟨x, hx, hk⟩ := hk
        have h1 := const_deg0 e x hde hx ρ σ
        have h2 := constLc_deg0 t (max acc 0) cs' (k0 + c * x) k hd hk ρ σ
        simp only [denoteList, wsum_cons, h1, h2]
        push_cast; ring
end

/-! ### (B) one pass of the coefficient walker -/

mutual
theorem walk_sound : (e : Expr) → ∀ (d : ℕ) (V : List String) (r : List Rat) (m : Rat) (r' : List Rat) (k : Rat),
    degree e = some d → d ≤ 1 → varsIn V e = true → r.length = V.length →
    walk V e r m = .ok r' → constTerm e = .ok k →
    r'.length = V.length ∧ ∀ (ρ : String → ℝ) (σ : Nat → ℝ),
      wsum r' (V.map ρ) = wsum r (V.map ρ) + (m : ℝ) * (denote ρ σ e - (k : ℝ))
  | .const c, d, V, r, m, r', k, _, _, _, hl, hw, hk => by
    simp only [walk, Except.ok.injEq] at hw; subst hw
    simp only [constTerm] at hk
    rw [cstRat_ok hk]
    exact ⟨hl, fun ρ σ => by simp [denote]⟩
  | .var v, d, V, r, m, r', k, _, _, hv, hl, hw, hk => by
    simp only [walk, Except.ok.injEq] at hw; subst hw
    simp only [constTerm, Except.ok.injEq] at hk; subst hk
    simp only [varsIn] at hv
    refine ⟨by rw [addName_length]; exact hl, fun ρ σ => ?_⟩
    rw [wsum_addName m ρ (mem_of_contains hv) hl]
    simp [denote]
  | .param _, _, _, _, _, _, _, hd, _, _, _, _, _ => by simp [degree] at hd
  | .exprSum _, _, _, _, _, _, _, hd, _, _, _, _, _ => by simp [degree] at hd
  | .l2 _, _, _, _, _, _, _, hd, _, _, _, _, _ => by simp [degree] at hd
  | .l1 _, _, _, _, _, _, _, hd, _, _, _, _, _ => by simp [degree] at hd
  | .unSum _ _, _, _, _, _, _, _, hd, _, _, _, _, _ => by simp [degree] at hd
  | .matSumV _, _, _, _, _, _, _, hd, _, _, _, _, _ => by simp [degree] at hd
  | .matSumE _, _, _, _, _, _, _, hd, _, _, _, _, _ => by simp [degree] at hd
  | .frob _, _, _, _, _, _, _, hd, _, _, _, _, _ => by simp [degree] at hd
  | .powSum vv q, d, V, r, m, r', k, hd, hd1, hv, hl, hw, hk => by
    simp only [degree] at hd
    have hq : q = (d : Rat) := ratNat_eq hd
    simp only [varsIn] at hv
    have hd01 : d = 0 ∨ d = 1 := by omega
    rcases hd01 with rfl | rfl
    · -- sum(x ** 0): the constant n, no coefficients
      have hq0 : q = 0 := by simpa using hq
      subst hq0
      have h01 : ((0 : Rat) == 1) = false := by decide
      simp only [walk, h01, Bool.false_eq_true, if_false, Except.ok.injEq] at hw
      subst hw
      simp only [constTerm, beq_self_eq_true, if_true, Except.ok.injEq] at hk
      subst hk
      refine ⟨hl, fun ρ σ => ?_⟩
      simp only [denote, sum_map_pow_zero]
      push_cast; ring
    · -- sum(x ** 1): as VectorSum
      have hq1 : q = 1 := by simpa using hq
      subst hq1
      have h10 : ((1 : Rat) == 0) = false := by decide
      simp only [walk, beq_self_eq_true, if_true, Except.ok.injEq] at hw
      subst hw
      simp only [constTerm, h10, Bool.false_eq_true, if_false, Except.ok.injEq] at hk
      subst hk
      refine ⟨(walkVars_spec V (fun _ => 0) vv.vars r m hv hl).1, fun ρ σ => ?_⟩
      rw [(walkVars_spec V ρ vv.vars r m hv hl).2]
      simp only [denote, sum_map_pow_one]
      push_cast; ring
  | .dot l r, d, _, _, _, _, _, hd, hd1, _, _, _, _ => by
    simp only [degree] at hd
    split at hd
    · simp at hd
    · split at hd
      · simp at hd
      · simp only [Option.some.injEq] at hd
        have := le_max_left 2 (‹ℕ› + ‹ℕ›)
        omega
  | .quad v q, d, _, _, _, _, _, hd, hd1, _, _, _, _ => by
    simp only [degree] at hd
    split at hd
    · simp at hd
    · simp only [Option.some.injEq] at hd
      have := le_max_left 2 (2 * ‹ℕ›)
      omega
  | .vecSum vv, d, V, r, m, r', k, _, _, hv, hl, hw, hk => by
    simp only [walk, Except.ok.injEq] at hw; subst hw
    simp only [constTerm, Except.ok.injEq] at hk; subst hk
    simp only [varsIn] at hv
    refine ⟨(walkVars_spec V (fun _ => 0) vv.vars r m hv hl).1, fun ρ σ => ?_⟩
    rw [(walkVars_spec V ρ vv.vars r m hv hl).2]
    simp [denote]
  | .linComb cs v, d, V, r, m, r', k, hd, hd1, hv, hl, hw, hk => by
    cases v with
    | vars vv =>
      simp only [walk] at hw
      simp only [constTerm, Except.ok.injEq] at hk; subst hk
      simp only [varsIn, varsInVec] at hv
      refine ⟨(walkLcVars_spec V (fun _ => 0) vv.vars cs r m r' hv hl hw).1, fun ρ σ => ?_⟩
      rw [(walkLcVars_spec V ρ vv.vars cs r m r' hv hl hw).2]
      simp [denote, denoteVec]
    | exprs es =>
      simp only [walk] at hw
      simp only [constTerm] at hk
      simp only [degree, vecDegree] at hd
      simp only [varsIn, varsInVec] at hv
      obtain ⟨h1, h2⟩ := walkLc_sound es 0 d V cs r m r' 0 k hd hd1 hv hl hw hk
      refine ⟨h1, fun ρ σ => ?_⟩
      rw [h2 ρ σ]
      simp [denote, denoteVec]
  | .un op a, d, V, r, m, r', k, hd, hd1, hv, hl, hw, hk => by
    cases op <;> simp only [degree] at hd <;> try (simp at hd)
    simp only [varsIn] at hv
    simp only [walk] at hw
    simp only [constTerm, bind_ok, pure_ok] at hk
    obtain ⟨x, hx, rfl⟩ := hk
    obtain ⟨h1, h2⟩ := walk_sound a d V r (-m) r' x hd hd1 hv hl hw hx
    refine ⟨h1, fun ρ σ => ?_⟩
    rw [h2 ρ σ]
    simp only [denote, unop_neg]; push_cast; ring
  | .bin .add l rr, d, V, r, m, r', k, hd, hd1, hv, hl, hw, hk => by
    obtain ⟨a, b, ha, hb, hab⟩ := degree_addsub_some (Or.inl rfl) hd
    have ha1 : a ≤ 1 := by have := le_max_left a b; omega
    have hb1 : b ≤ 1 := by have := le_max_right a b; omega
    simp only [varsIn, Bool.and_eq_true] at hv
    simp only [walk, bind_ok] at hw
    obtain ⟨r1, hw1, hw2⟩ := hw
    simp only [constTerm, bind_ok, pure_ok] at hk
    obtain ⟨x, hx, y, hy, rfl⟩ := hk
    obtain ⟨h1, h2⟩ := walk_sound l a V r m r1 x ha ha1 hv.1 hl hw1 hx
    obtain ⟨h3, h4⟩ := walk_sound rr b V r1 m r' y hb hb1 hv.2 h1 hw2 hy
    refine ⟨h3, fun ρ σ => ?_⟩
    rw [h4 ρ σ, h2 ρ σ]
    simp only [denote, binop_add]; push_cast; ring
  | .bin .sub l rr, d, V, r, m, r', k, hd, hd1, hv, hl, hw, hk => by
    obtain ⟨a, b, ha, hb, hab⟩ := degree_addsub_some (Or.inr rfl) hd
    have ha1 : a ≤ 1 := by have := le_max_left a b; omega
    have hb1 : b ≤ 1 := by have := le_max_right a b; omega
    simp only [varsIn, Bool.and_eq_true] at hv
    simp only [walk, bind_ok] at hw
    obtain ⟨r1, hw1, hw2⟩ := hw
    simp only [constTerm, bind_ok, pure_ok] at hk
    obtain ⟨x, hx, y, hy, rfl⟩ := hk
    obtain ⟨h1, h2⟩ := walk_sound l a V r m r1 x ha ha1 hv.1 hl hw1 hx
    obtain ⟨h3, h4⟩ := walk_sound rr b V r1 (-m) r' y hb hb1 hv.2 h1 hw2 hy
    refine ⟨h3, fun ρ σ => ?_⟩
    rw [h4 ρ σ, h2 ρ σ]
    simp only [denote, binop_sub]; push_cast; ring
  | .bin .mul l rr, d, V, r, m, r', k, hd, hd1, hv, hl, hw, hk => by
    obtain ⟨a, b, ha, hb, hnab, hab⟩ := degree_mul_some hd
    simp only [varsIn, Bool.and_eq_true] at hv
    obtain ⟨x, y, hx, hy, rfl⟩ := constTerm_mul hk
    simp only [walk] at hw
    split at hw
    · -- the left factor is a Constant node
      rename_i c
      simp only [bind_ok] at hw
      obtain ⟨q, hq, hw⟩ := hw
      have hcq := cstRat_ok hq
      subst hcq
      have hxq : x = q := by simpa [constTerm, cstRat] using hx.symm
      subst hxq
      have ha0 : a = 0 := by simpa [degree] using ha.symm
      obtain ⟨h1, h2⟩ := walk_sound rr b V r (m * x) r' y hb (by omega) hv.2 hl hw hy
      refine ⟨h1, fun ρ σ => ?_⟩
      rw [h2 ρ σ]
      simp only [denote, binop_mul, cst_rat]; push_cast; ring
    · split at hw
      · -- the right factor is a Constant node
        rename_i c
        simp only [bind_ok] at hw
        obtain ⟨q, hq, hw⟩ := hw
        have hcq := cstRat_ok hq
        subst hcq
        have hyq : y = q := by simpa [constTerm, cstRat] using hy.symm
        subst hyq
        have hb0 : b = 0 := by simpa [degree] using hb.symm
        obtain ⟨h1, h2⟩ := walk_sound l a V r (m * y) r' x ha (by omega) hv.1 hl hw hx
        refine ⟨h1, fun ρ σ => ?_⟩
        rw [h2 ρ σ]
        simp only [denote, binop_mul, cst_rat]; push_cast; ring
      · split at hw
        · -- the left factor is a constant sub-expression
          rename_i hl0
          have ha0 : a = 0 := by
            have : degree l = some 0 := by simpa using hl0
            rw [ha] at this; simpa using this
          subst ha0
          simp only [bind_ok] at hw
          obtain ⟨k1, hk1, hw⟩ := hw
          have : k1 = x := by rw [hx] at hk1; simpa using hk1.symm
          subst this
          obtain ⟨h1, h2⟩ := walk_sound rr b V r (m * k1) r' y hb (by omega) hv.2 hl hw hy
          refine ⟨h1, fun ρ σ => ?_⟩
          rw [h2 ρ σ]
          have hden := const_deg0 l k1 ha hx ρ σ
          simp only [denote, binop_mul, hden]; push_cast; ring
        · split at hw
          · -- the right factor is a constant sub-expression
            rename_i _ hr0
            have hb0 : b = 0 := by
              have : degree rr = some 0 := by simpa using hr0
              rw [hb] at this; simpa using this
            subst hb0
            simp only [bind_ok] at hw
            obtain ⟨k1, hk1, hw⟩ := hw
            have : k1 = y := by rw [hy] at hk1; simpa using hk1.symm
            subst this
            obtain ⟨h1, h2⟩ := walk_sound l a V r (m * k1) r' x ha (by omega) hv.1 hl hw hx
            refine ⟨h1, fun ρ σ => ?_⟩
            rw [h2 ρ σ]
            have hden := const_deg0 rr k1 hb hy ρ σ
            simp only [denote, binop_mul, hden]; push_cast; ring
          · -- neither factor has degree 0: the product is not classified as a polynomial
            rename_i hl0 hr0
            exfalso
            apply hnab
            constructor
            · rcases Nat.eq_zero_or_pos a with h | h
              · subst h; simp [ha] at hl0
              · exact h
            · rcases Nat.eq_zero_or_pos b with h | h
              · subst h; simp [hb] at hr0
              · exact h
  | .bin .div l rr, d, V, r, m, r', k, hd, hd1, hv, hl, hw, hk => by
    obtain ⟨c, rfl, hdl⟩ := degree_div_some hd
    simp only [varsIn, Bool.and_eq_true] at hv
    simp only [walk, bind_ok] at hw
    obtain ⟨q, hq, m', hm', hw⟩ := hw
    obtain ⟨hq0, rfl⟩ := ratDiv_ok hm'
    simp only [constTerm, bind_ok] at hk
    obtain ⟨x, hx, q', hq', hk⟩ := hk
    have : q' = q := by rw [hq] at hq'; simpa using hq'.symm
    subst this
    obtain ⟨_, rfl⟩ := ratDiv_ok hk
    obtain ⟨h1, h2⟩ := walk_sound l d V r (m / q') r' x hdl hd1 hv.1 hl hw hx
    refine ⟨h1, fun ρ σ => ?_⟩
    rw [h2 ρ σ, cstRat_ok hq]
    simp only [denote, binop_div, cst_rat]; push_cast; ring
  | .bin .pow l rr, d, V, r, m, r', k, hd, hd1, hv, hl, hw, hk => by
    obtain ⟨q, n, a, rfl, hq, hdl, han⟩ := degree_pow_some hd
    have hcast := ratNat_cast hq
    have hint := cstInt_of_ratNat hq
    simp only [varsIn, Bool.and_eq_true] at hv
    simp only [walk, hint] at hw
    simp only [constTerm, hint] at hk
    by_cases hn0 : n = 0
    · -- e ** 0: the constant 1, nothing below is visited
      subst hn0
      simp only [Int.natCast_zero, beq_self_eq_true, if_true, Except.ok.injEq] at hk
      subst hk
      have : ((0 : Int) == 1) = false := rfl
      simp only [Int.natCast_zero, this, Bool.false_eq_true, if_false, Except.ok.injEq] at hw
      subst hw
      exact ⟨hl, fun ρ σ => by simp [denote, hcast]⟩
    · have hne : ((n : Int) == 0) = false := by simpa using hn0
      simp only [hne, Bool.false_eq_true, if_false, bind_ok] at hk
      obtain ⟨x, hx, hk⟩ := hk
      have hkx := ratPowInt_nat hk
      by_cases hn1 : n = 1
      · -- e ** 1
        subst hn1
        have : (((1 : ℕ) : Int) == 1) = true := rfl
        simp only [this, if_true] at hw
        obtain ⟨h1, h2⟩ := walk_sound l a V r m r' x hdl (by omega) hv.1 hl hw hx
        refine ⟨h1, fun ρ σ => ?_⟩
        rw [h2 ρ σ]
        simp only [denote, binop_pow, cst_rat, hcast, Real.rpow_natCast, hkx, pow_one]
      · -- exponent ≥ 2: the base has degree 0
        have hne1 : ((n : Int) == 1) = false := by
          simp only [beq_eq_false_iff_ne, ne_eq]; omega
        simp only [hne1, Bool.false_eq_true, if_false, Except.ok.injEq] at hw
        subst hw
        have ha0 : a = 0 := by
          rcases Nat.eq_zero_or_pos a with h | h
          · exact h
          · have : 2 ≤ n := by omega
            have : 2 ≤ a * n := by
              calc 2 ≤ n := this
                _ = 1 * n := (Nat.one_mul n).symm
                _ ≤ a * n := Nat.mul_le_mul_right n h
            omega
        subst ha0
        refine ⟨hl, fun ρ σ => ?_⟩
        have hden := const_deg0 l x hdl hx ρ σ
        simp only [denote, binop_pow, cst_rat, hcast, Real.rpow_natCast, hden, hkx]
        push_cast; ring
theorem walkLc_sound : (es : ExprList) → ∀ (acc a : ℕ) (V : List String) (cs : List Rat) (r : List Rat) (m : Rat)
    (r' : List Rat) (k0 k : Rat),
    maxDegList es acc = some a → a ≤ 1 → varsInList V es = true →
    r.length = V.length → walkLc V es cs r m = .ok r' → constLc es cs k0 = .ok k →
    r'.length = V.length ∧ ∀ (ρ : String → ℝ) (σ : Nat → ℝ),
      wsum r' (V.map ρ) = wsum r (V.map ρ) + (m : ℝ) * (wsum cs (denoteList ρ σ es) - ((k : ℝ) - (k0 : ℝ)))
  | .nil, _, _, V, cs, r, m, r', k0, k, _, _, _, hl, hw, hk => by
    simp only [walkLc, Except.ok.injEq] at hw; subst hw
    simp only [constLc, Except.ok.injEq] at hk; subst hk
    exact ⟨hl, fun ρ σ => by simp [denoteList]⟩
  | .cons e t, acc, a, V, cs, r, m, r', k0, k, hd, ha1, hv, hl, hw, hk => by
    simp only [maxDegList] at hd
    split at hd
    · simp at hd
    · rename_i d hde
      have hge := maxDegList_ge t (max acc d) a hd
      have hd1 : d ≤ 1 := by have := le_max_right acc d; omega
      simp only [varsInList, Bool.and_eq_true] at hv
      cases cs with
      | nil => simp [walkLc] at hw
      | cons c cs' =>
        simp only [walkLc, bind_ok] at hw
        obtain ⟨r1, hw1, hw2⟩ := hw
        simp only [constLc, bind_ok] at hk
        obtain ⟨x, hx, hk⟩ := hk
        obtain ⟨h1, h2⟩ := walk_sound e d V r (c * m) r1 x hde hd1 hv.1 hl hw1 hx
        obtain ⟨h3, h4⟩ := walkLc_sound t (max acc d) a V cs' r1 m r' (k0 + c * x) k hd ha1 hv.2 h1 hw2 hk
        refine ⟨h3, fun ρ σ => ?_⟩
        rw [h4 ρ σ, h2 ρ σ]
        simp only [denoteList, wsum_cons]
        push_cast; ring
end

end Optyx
