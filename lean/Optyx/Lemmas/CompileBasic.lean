/-
  Optyx.Lemmas.CompileBasic — small facts used by the C01 / C15 proofs: `Except` plumbing,
  the additive-monoid laws that relate Python's `sum` (left fold) to the spec sum (right fold),
  variable look-ups, `idxOf`.  Core Lean only.
-/
import Optyx.Py.Eval
import Optyx.Py.Compile
import Optyx.Py.Vars

set_option linter.unusedSectionVars false

namespace Optyx.Py
open Optyx NumAlg

/-! ### Except -/

@[simp] theorem ok_bind {ε β γ : Type} (a : β) (f : β → Except ε γ) :
    ((Except.ok a : Except ε β) >>= f) = f a := rfl
@[simp] theorem error_bind {ε β γ : Type} (e : ε) (f : β → Except ε γ) :
    ((Except.error e : Except ε β) >>= f) = .error e := rfl
@[simp] theorem pure_eq_ok {ε β : Type} (a : β) : (pure a : Except ε β) = .ok a := rfl

/-! ### sums -/

/-- the laws of addition under which Python's left-to-right `sum` from 0 equals the
    (right-fold) spec sum.  They hold in ℝ (and every additive monoid) and fail for IEEE
    doubles (association), where the difference is a tested rounding tolerance. -/
class AddLaws (α : Type) [NumAlg α] : Prop where
  add_assoc : ∀ a b c : α, add (add a b) c = add a (add b c)
  zero_add : ∀ a : α, add zero a = a
  add_zero : ∀ a : α, add a zero = a

variable {α : Type} [NumAlg α]

theorem foldl_add_eq [AddLaws α] (l : List α) (a : α) :
    l.foldl add a = add a (NumAlg.sum l) := by
  induction l generalizing a with
  | nil => simp [NumAlg.sum, AddLaws.add_zero]
  | cons b t ih => simp only [List.foldl_cons, ih, NumAlg.sum, AddLaws.add_assoc]

/-- Python's `sum(xs)` is the spec sum in every additive monoid -/
theorem pySum_eq_sum [AddLaws α] (l : List α) : pySum l = NumAlg.sum l := by
  unfold pySum
  rw [foldl_add_eq, AddLaws.zero_add]

/-- `np.dot(v, v)` = Σ vᵢ·vᵢ (same association: no law needed) -/
theorem dotp_self (l : List α) : dotp l l = NumAlg.sum (l.map fun a => mul a a) := by
  induction l with
  | nil => rfl
  | cons a t ih => simp [dotp, NumAlg.sum, ih]

/-! ### variable look-ups -/

theorem valsOf_length (ρ : String → α) (vs : List Var) : (valsOf ρ vs).length = vs.length := by
  simp [valsOf]

theorem evalVars_ok (values : String → Option α) (ρ : String → α) (vs : List Var)
    (h : ∀ v ∈ vs, values v.name = some (ρ v.name)) : evalVars values vs = .ok (valsOf ρ vs) := by
  induction vs with
  | nil => rfl
  | cons v t ih =>
    have hv := h v (by simp)
    have ht := ih (fun w hw => h w (by simp [hw]))
    simp [evalVars, lookupVal, hv, ht, valsOf]

/-- a sound index map for the ordered variable list `V`: it only answers positions of `V`
    that carry the asked name -/
def IdxSound (idx : String → Option Nat) (V : List Var) : Prop :=
  ∀ n i, idx n = some i → ∃ h : i < V.length, (V[i]'h).name = n

/-- the point `x` lists the values of `ρ` in the order of `V` -/
def Agree (ρ : String → α) (V : List Var) (x : List α) : Prop :=
  ∀ i (h : i < V.length), x[i]? = some (ρ (V[i]'h).name)

theorem getIdx_ok {idx : String → Option Nat} {V : List Var} (hidx : IdxSound idx V)
    {ρ : String → α} {x : List α} (hx : Agree ρ V x) {n : String} {i : Nat} (h : idx n = some i) :
    getIdx x i = .ok (ρ n) := by
  obtain ⟨hi, hn⟩ := hidx n i h
  have := hx i hi
  simp [getIdx, this, hn]

theorem lookupIdxs_ok {idx : String → Option Nat} (vs : List Var)
    (h : ∀ v ∈ vs, (idx v.name).isSome) : ∃ is, lookupIdxs idx vs = .ok is ∧ is.length = vs.length := by
  induction vs with
  | nil => exact ⟨[], rfl, rfl⟩
  | cons v t ih =>
    obtain ⟨is, his, hl⟩ := ih (fun w hw => h w (by simp [hw]))
    have hv := h v (by simp)
    obtain ⟨i, hi⟩ := Option.isSome_iff_exists.mp hv
    exact ⟨i :: is, by simp [lookupIdxs, lookupIdx, hi, his], by simp [hl]⟩

theorem gather_ok {idx : String → Option Nat} {V : List Var} (hidx : IdxSound idx V)
    {ρ : String → α} {x : List α} (hx : Agree ρ V x) (vs : List Var) {is : List Nat}
    (h : lookupIdxs idx vs = .ok is) : gather x is = .ok (valsOf ρ vs) := by
  induction vs generalizing is with
  | nil =>
    simp [lookupIdxs] at h; subst h; rfl
  | cons v t ih =>
    simp only [lookupIdxs, lookupIdx] at h
    cases hv : idx v.name with
    | none => simp [hv] at h
    | some i =>
      simp only [hv, ok_bind] at h
      cases ht : lookupIdxs idx t with
      | error e => simp [ht] at h
      | ok js =>
        simp only [ht, ok_bind, pure_eq_ok, Except.ok.injEq] at h
        subst h
        simp [gather, getIdx_ok hidx hx hv, ih ht, valsOf]

theorem compileVars_ok {idx : String → Option Nat} (vs : List Var)
    (h : ∀ v ∈ vs, (idx v.name).isSome) : ∃ fs, compileVars idx vs = .ok fs := by
  induction vs with
  | nil => exact ⟨.nil, rfl⟩
  | cons v t ih =>
    obtain ⟨fs, hfs⟩ := ih (fun w hw => h w (by simp [hw]))
    obtain ⟨i, hi⟩ := Option.isSome_iff_exists.mp (h v (by simp))
    exact ⟨.cons (.idx i) fs, by simp [compileVars, lookupIdx, hi, hfs]⟩

theorem compileVars_run {idx : String → Option Nat} {V : List Var} (hidx : IdxSound idx V)
    {ρ : String → α} {x : List α} (hx : Agree ρ V x) (σ : Nat → α) (vs : List Var) {fs : CloList}
    (h : compileVars idx vs = .ok fs) : CloList.run x σ fs = .ok (valsOf ρ vs) := by
  induction vs generalizing fs with
  | nil =>
    simp [compileVars] at h; subst h; rfl
  | cons v t ih =>
    simp only [compileVars, lookupIdx] at h
    cases hv : idx v.name with
    | none => simp [hv] at h
    | some i =>
      simp only [hv, ok_bind] at h
      cases ht : compileVars idx t with
      | error e => simp [ht] at h
      | ok gs =>
        simp only [ht, ok_bind, pure_eq_ok, Except.ok.injEq] at h
        subst h
        simp [CloList.run, Clo.run, getIdx_ok hidx hx hv, ih ht, valsOf]

/-! ### `idxOf` (the dict comprehension `{var.name: i for i, var in enumerate(variables)}`) -/

theorem idxOfAux_some (V : List Var) (k : Nat) (n : String) (i : Nat)
    (h : idxOfAux V k n = some i) : ∃ j, i = k + j ∧ ∃ hj : j < V.length, (V[j]'hj).name = n := by
  induction V generalizing k with
  | nil => simp [idxOfAux] at h
  | cons v t ih =>
    simp only [idxOfAux] at h
    cases ht : idxOfAux t (k + 1) n with
    | some j' =>
      simp only [ht, Option.some.injEq] at h
      obtain ⟨j, hj, hlt, hname⟩ := ih (k + 1) (h ▸ ht)
      exact ⟨j + 1, by omega, by simp; omega, by simpa using hname⟩
    | none =>
      simp only [ht] at h
      split at h
      · rename_i hv
        simp only [Option.some.injEq] at h
        exact ⟨0, by omega, by simp, by simpa using hv⟩
      · cases h

theorem idxOf_sound (V : List Var) : IdxSound (idxOf V) V := by
  intro n i h
  obtain ⟨j, hj, hlt, hname⟩ := idxOfAux_some V 0 n i h
  have : i = j := by omega
  subst this
  exact ⟨hlt, hname⟩

theorem idxOfAux_isSome (V : List Var) (k : Nat) (n : String) (h : n ∈ V.map (·.name)) :
    (idxOfAux V k n).isSome := by
  induction V generalizing k with
  | nil => simp at h
  | cons v t ih =>
    simp only [idxOfAux]
    cases ht : idxOfAux t (k + 1) n with
    | some j => simp
    | none =>
      simp only [List.map_cons, List.mem_cons] at h
      rcases h with h | h
      · simp [h]
      · have := ih (k + 1) h
        simp [ht] at this

theorem idxOf_isSome (V : List Var) (n : String) (h : n ∈ V.map (·.name)) : (idxOf V n).isSome :=
  idxOfAux_isSome V 0 n h

/-! ### the environment / the `values` dict that a point `x` in the order `V` stands for -/

/-- `dict(zip([v.name for v in V], x))` (a later duplicate name overwrites, as in `idxOf`) -/
def dictOf (V : List Var) (x : List α) (n : String) : Option α := (idxOf V n).bind (x[·]?)

/-- a total environment extending `dictOf V x` (zero elsewhere; names outside `V` never matter) -/
def envOf (V : List Var) (x : List α) (n : String) : α := (dictOf V x n).getD zero

theorem idxOf_get_of_nodup (V : List Var) (hnd : (V.map (·.name)).Nodup) (i : Nat) (h : i < V.length) :
    idxOf V (V[i]'h).name = some i := by
  have hmem : (V[i]'h).name ∈ V.map (·.name) := List.mem_map.mpr ⟨V[i], List.getElem_mem h, rfl⟩
  obtain ⟨j, hj⟩ := Option.isSome_iff_exists.mp (idxOf_isSome V _ hmem)
  obtain ⟨hjlt, hname⟩ := idxOf_sound V _ _ hj
  have hi' : i < (V.map (·.name)).length := by simpa using h
  have hj' : j < (V.map (·.name)).length := by simpa using hjlt
  have : (V.map (·.name))[j]'hj' = (V.map (·.name))[i]'hi' := by simpa using hname
  have hji : j = i := (List.getElem_inj hnd).mp this
  rw [hj, hji]

/-- with pairwise distinct names the point `x` really is "the values in the order of `V`" -/
theorem agree_envOf (V : List Var) (x : List α) (hnd : (V.map (·.name)).Nodup)
    (hlen : x.length = V.length) : Agree (envOf V x) V x := by
  intro i h
  have hx : i < x.length := by omega
  simp [envOf, dictOf, idxOf_get_of_nodup V hnd i h, List.getElem?_eq_getElem hx]

theorem dictOf_agree {V : List Var} {ρ : String → α} {x : List α} (hx : Agree ρ V x) {n : String}
    (hn : n ∈ V.map (·.name)) : dictOf V x n = some (ρ n) := by
  obtain ⟨i, hi⟩ := Option.isSome_iff_exists.mp (idxOf_isSome V n hn)
  obtain ⟨hlt, hname⟩ := idxOf_sound V n i hi
  simp [dictOf, hi, hx i hlt, hname]

theorem dictArgs_ok (values : String → Option α) (ρ : String → α) (V : List Var)
    (h : ∀ v ∈ V, values v.name = some (ρ v.name)) : dictArgs values V = .ok (valsOf ρ V) := by
  induction V with
  | nil => rfl
  | cons v t ih =>
    have hv := h v (by simp)
    have ht := ih (fun w hw => h w (by simp [hw]))
    simp [dictArgs, hv, ht, valsOf]

theorem agree_valsOf (ρ : String → α) (V : List Var) : Agree ρ V (valsOf ρ V) := by
  intro i h
  simp [valsOf, h]

end Optyx.Py
