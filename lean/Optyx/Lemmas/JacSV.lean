/-
  Optyx.Lemmas.JacSV — the special-value domain over the reals (`SV ℝ`): `_sanitize_derivatives`,
  finiteness of every derivative closure at finite points, and agreement of the vectorised closure
  bodies with the general-path expressions on the special values.

  `SV ℝ` has NaN, ±∞, ±0 and the non-zero reals; there is no overflow (a finite real stays finite),
  which is exactly the scope of C19 ("overflow is not a singular point of the derivative").
-/
import Optyx.Lemmas.JacLookup

namespace Optyx.Py.Jac
open Optyx Optyx.Py NumAlg
open Classical

noncomputable instance : Carrier ℝ where
  cls a := if a < 0 then Cls.neg else if a = 0 then Cls.zero else Cls.pos
  isInt a := decide (∃ n : ℤ, a = n)
  isOddInt a := decide (∃ n : ℤ, Odd n ∧ a = n)

abbrev R := SV ℝ

/-- finite special value (±0 or a non-zero real): what `np.isfinite` accepts -/
def Fin (x : R) : Prop := DerivAlg.isFinite x = true

/-- a well-formed finite input: `fin a` carries a non-zero real -/
def Input : R → Prop
  | .zero _ => True
  | .fin a => a ≠ 0
  | _ => False

theorem cls_neg {a : ℝ} (h : a < 0) : Carrier.cls a = Cls.neg := by simp [Carrier.cls, h]
theorem cls_zero : Carrier.cls (0:ℝ) = Cls.zero := by simp [Carrier.cls]
theorem cls_pos {a : ℝ} (h : 0 < a) : Carrier.cls a = Cls.pos := by
  simp [Carrier.cls, not_lt.mpr h.le, ne_of_gt h]

theorem mk_real (a : ℝ) : (SV.mk a : R) = if a = 0 then SV.zero false else SV.fin a := by
  unfold SV.mk
  rcases lt_trichotomy a 0 with h | h | h
  · rw [cls_neg h]; simp [ne_of_lt h]
  · subst h; rw [cls_zero]; simp
  · rw [cls_pos h]; simp [ne_of_gt h]

theorem mk_of_ne {a : ℝ} (h : a ≠ 0) : (SV.mk a : R) = SV.fin a := by rw [mk_real]; simp [h]
@[simp] theorem mk_zero : (SV.mk (0:ℝ) : R) = SV.zero false := by rw [mk_real]; simp

theorem isNeg_real (a : ℝ) : SV.isNeg a = decide (a < 0) := by
  unfold SV.isNeg
  rcases lt_trichotomy a 0 with h | h | h
  · rw [cls_neg h]; simp [h]
  · subst h; rw [cls_zero]; simp
  · rw [cls_pos h]; simp [not_lt.mpr h.le]

@[simp] theorem fin_mk (a : ℝ) : Fin (SV.mk a) := by
  rw [mk_real]; split <;> rfl

@[simp] theorem fin_zero (s : Bool) : Fin (SV.zero s : R) := rfl
@[simp] theorem fin_fin (a : ℝ) : Fin (SV.fin a : R) := rfl
@[simp] theorem not_fin_nan : ¬ Fin (SV.nan : R) := by simp [Fin, DerivAlg.isFinite]
@[simp] theorem not_fin_inf (s : Bool) : ¬ Fin (SV.inf s : R) := by simp [Fin, DerivAlg.isFinite]

theorem fin_cases {x : R} (h : Fin x) : (∃ s, x = SV.zero s) ∨ (∃ a, x = SV.fin a) := by
  cases x with
  | nan => exact absurd h not_fin_nan
  | inf s => exact absurd h (not_fin_inf s)
  | zero s => exact Or.inl ⟨s, rfl⟩
  | fin a => exact Or.inr ⟨a, rfl⟩

theorem Input.fin {x : R} (h : Input x) : Fin x := by
  cases x <;> simp [Input] at h ⊢

/-! ### `_sanitize_derivatives` -/

/-- `np.nan_to_num(·, nan=0.0, posinf=1e16, neginf=-1e16)` on the five kinds of values -/
theorem nanToNum_table :
    (DerivAlg.nanToNum (SV.nan : R) = SV.zero false) ∧
    (DerivAlg.nanToNum (SV.inf false : R) = SV.fin ((10000000000000000 : ℚ) : ℝ)) ∧
    (DerivAlg.nanToNum (SV.inf true : R) = SV.fin (-((10000000000000000 : ℚ) : ℝ))) ∧
    (∀ s, DerivAlg.nanToNum (SV.zero s : R) = SV.zero s) ∧
    (∀ a, DerivAlg.nanToNum (SV.fin a : R) = SV.fin a) := by
  refine ⟨rfl, rfl, rfl, fun _ => rfl, fun _ => rfl⟩

theorem nanToNum_of_fin {x : R} (h : Fin x) : DerivAlg.nanToNum x = x := by
  rcases fin_cases h with ⟨s, rfl⟩ | ⟨a, rfl⟩ <;> rfl

theorem fin_nanToNum (x : R) : Fin (DerivAlg.nanToNum x) := by
  cases x with
  | nan => rfl
  | inf s => rfl
  | zero s => rfl
  | fin a => rfl

/-- the all-finite short-cut changes nothing: `_sanitize_derivatives` is entrywise `nan_to_num` -/
theorem sanitize_eq_map (arr : List R) : sanitize arr = arr.map DerivAlg.nanToNum := by
  unfold sanitize
  split
  · rename_i h
    rw [List.all_eq_true] at h
    symm
    conv_rhs => rw [← List.map_id arr]
    apply List.map_congr_left
    intro a ha
    exact nanToNum_of_fin (h a ha)
  · rfl

theorem sanitize2_eq_map (m : List (List R)) : sanitize2 m = m.map (fun r => r.map DerivAlg.nanToNum) := by
  unfold sanitize2
  split
  · rename_i h
    rw [List.all_eq_true] at h
    symm
    conv_rhs => rw [← List.map_id m]
    apply List.map_congr_left
    intro r hr
    have hr' := h r hr
    rw [List.all_eq_true] at hr'
    conv_rhs => rw [id, ← List.map_id r]
    apply List.map_congr_left
    intro a ha
    exact nanToNum_of_fin (hr' a ha)
  · rfl

def AllFin (l : List R) : Prop := ∀ a ∈ l, Fin a
def AllFin2 (m : List (List R)) : Prop := ∀ r ∈ m, AllFin r

theorem allFin_sanitize (arr : List R) : AllFin (sanitize arr) := by
  rw [sanitize_eq_map]
  intro a ha
  obtain ⟨b, _, rfl⟩ := List.mem_map.mp ha
  exact fin_nanToNum b

theorem allFin2_sanitize2 (m : List (List R)) : AllFin2 (sanitize2 m) := by
  rw [sanitize2_eq_map]
  intro r hr a ha
  obtain ⟨r', _, rfl⟩ := List.mem_map.mp hr
  obtain ⟨b, _, rfl⟩ := List.mem_map.mp ha
  exact fin_nanToNum b

/-! ### arithmetic that keeps finite values finite -/

theorem fin_neg {x : R} (h : Fin x) : Fin (NumAlg.neg x) := by
  rcases fin_cases h with ⟨s, rfl⟩ | ⟨a, rfl⟩ <;> rfl

theorem fin_mul {x y : R} (hx : Fin x) (hy : Fin y) : Fin (NumAlg.mul x y) := by
  rcases fin_cases hx with ⟨s, rfl⟩ | ⟨a, rfl⟩ <;> rcases fin_cases hy with ⟨t, rfl⟩ | ⟨b, rfl⟩
  · rfl
  · rfl
  · rfl
  · exact fin_mk _

theorem fin_sub {x y : R} (hx : Fin x) (hy : Fin y) : Fin (NumAlg.sub x y) := by
  rcases fin_cases hx with ⟨s, rfl⟩ | ⟨a, rfl⟩ <;> rcases fin_cases hy with ⟨t, rfl⟩ | ⟨b, rfl⟩
  · rfl
  · rfl
  · rfl
  · exact fin_mk _

theorem fin_sign {x : R} (h : Fin x) : Fin (DerivAlg.sign x) := by
  rcases fin_cases h with ⟨s, rfl⟩ | ⟨a, rfl⟩ <;> rfl

theorem fin_ofRat (q : Rat) : Fin (NumAlg.ofRat q : R) := fin_mk _

theorem fin_cst (c : Cst) : Fin (NumAlg.cst c : R) := by
  cases c <;> exact fin_mk _

theorem fin_one : Fin (SV.one : R) := fin_mk _

/-- the elementary functions that are finite on every finite real: sin, cos, exp (no overflow in
    `SV ℝ` — out of the scope of C19), sinh, cosh, tanh -/
def totalOp : UnOp → Bool
  | .sin | .cos | .exp | .sinh | .cosh | .tanh => true
  | _ => false

theorem fin_unop_total {op : UnOp} (hop : totalOp op = true) {x : R} (h : Fin x) :
    Fin (NumAlg.unop op x) := by
  rcases fin_cases h with ⟨s, rfl⟩ | ⟨a, rfl⟩
  · cases op <;> simp [totalOp] at hop <;> first | rfl | exact fin_one
  · cases op <;> simp [totalOp] at hop <;> exact fin_mk _

theorem isInt_two : Carrier.isInt (((2:ℚ):ℝ)) = true := by
  simp only [Carrier.isInt, decide_eq_true_eq]
  exact ⟨2, by norm_num⟩

theorem two_real : (NumAlg.ofRat 2 : R) = SV.fin 2 := by
  show SV.mk ((2:ℚ):ℝ) = _
  rw [mk_of_ne (by norm_num)]; norm_num

/-- `y ** 2` of a finite value is finite -/
theorem fin_pow_two {y : R} (h : Fin y) : Fin (NumAlg.pow y (NumAlg.ofRat 2)) := by
  rw [two_real]
  rcases fin_cases h with ⟨s, rfl⟩ | ⟨a, rfl⟩
  · show Fin (SV.pow (SV.zero s) (SV.fin 2))
    have hn : (SV.fin (2:ℝ) : R).isNegative = false := by
      simp [SV.isNegative, isNeg_real]
    unfold SV.pow
    simp only [hn, Bool.false_eq_true, ite_false]
    split <;> rfl
  · show Fin (SV.pow (SV.fin a) (SV.fin 2))
    unfold SV.pow
    simp only
    have h2 : Carrier.isInt (2:ℝ) = true := by
      have := isInt_two; norm_num at this; exact this
    split
    · exact fin_one
    · simp only [h2, Bool.not_true, Bool.and_false, Bool.false_eq_true, ite_false]
      exact fin_mk _

/-! ### closure bodies -/

theorem fin_vecUnBody {op : VOp} (hop : vecUnSanitized op = false) {x : R} (h : Fin x) :
    Fin (vecUnBody op x) := by
  cases op <;> simp [vecUnSanitized] at hop
  · exact fin_unop_total (op := .cos) rfl h
  · exact fin_neg (fin_unop_total (op := .sin) rfl h)
  · exact fin_unop_total (op := .exp) rfl h
  · exact fin_sign h
  · exact fin_unop_total (op := .cosh) rfl h
  · exact fin_unop_total (op := .sinh) rfl h
  · exact fin_sub (fin_ofRat 1) (fin_pow_two (fin_unop_total (op := .tanh) rfl h))

theorem fin_hessUnBody {op : VOp} (hop : hessUnSanitized op = false) {x : R} (h : Fin x) :
    Fin (hessUnBody op x) := by
  cases op <;> simp [hessUnSanitized] at hop
  · exact fin_neg (fin_unop_total (op := .sin) rfl h)
  · exact fin_neg (fin_unop_total (op := .cos) rfl h)
  all_goals first
    | exact fin_unop_total (op := .exp) rfl h
    | exact fin_zero false

/-! ### arrays -/

theorem allFin_map {l : List R} {f : R → R} (hf : ∀ a, Fin a → Fin (f a)) (h : AllFin l) : AllFin (l.map f) := by
  intro b hb
  obtain ⟨a, ha, rfl⟩ := List.mem_map.mp hb
  exact hf a (h a ha)

theorem allFin_replicate (n : Nat) {a : R} (h : Fin a) : AllFin (List.replicate n a) := by
  intro b hb
  rw [List.mem_replicate] at hb
  rw [hb.2]; exact h

theorem allFin_zeros (n : Nat) : AllFin (zeros n : List R) := allFin_replicate n (fin_zero false)

theorem allFin_gather {x : List R} (hx : AllFin x) (idx : List Nat) : AllFin (gather x idx) := by
  intro b hb
  obtain ⟨i, _, rfl⟩ := List.mem_map.mp hb
  rw [List.getD_eq_getElem?_getD]
  cases h : x[i]? with
  | none => exact fin_zero false
  | some a => exact hx a (List.mem_of_getElem? h)

theorem allFin_scatter {res vals : List R} (hr : AllFin res) (hv : AllFin vals) (idx : List Nat) :
    AllFin (scatter res idx vals) := by
  induction idx generalizing res vals with
  | nil => simpa [scatter] using hr
  | cons i is ih =>
    cases vals with
    | nil => simpa [scatter] using hr
    | cons v vs =>
      simp only [scatter]
      apply ih
      · intro a ha
        rcases List.mem_or_eq_of_mem_set ha with h | h
        · exact hr a h
        · rw [h]; exact hv v (by simp)
      · intro a ha; exact hv a (by simp [ha])

theorem allFin2_zeros2 (n : Nat) : AllFin2 (zeros2 n : List (List R)) := by
  intro r hr
  unfold zeros2 at hr
  rw [List.mem_replicate] at hr
  rw [hr.2]; exact allFin_zeros n

theorem allFin2_diagM {v : List R} (hv : AllFin v) : AllFin2 (diagM v) := by
  intro r hr a ha
  unfold diagM at hr
  obtain ⟨i, _, rfl⟩ := List.mem_map.mp hr
  obtain ⟨j, _, rfl⟩ := List.mem_map.mp ha
  split
  · rw [List.getD_eq_getElem?_getD]
    cases h : v[i]? with
    | none => exact fin_zero false
    | some b => exact hv b (List.mem_of_getElem? h)
  · exact fin_zero false

theorem allFin2_scatterDiag {M : List (List R)} {vals : List R} (hM : AllFin2 M) (hv : AllFin vals)
    (idx : List Nat) : AllFin2 (scatterDiag M idx vals) := by
  induction idx generalizing M vals with
  | nil => simpa [scatterDiag] using hM
  | cons i is ih =>
    cases vals with
    | nil => simpa [scatterDiag] using hM
    | cons v vs =>
      simp only [scatterDiag]
      apply ih
      · intro r hr
        rcases List.mem_or_eq_of_mem_set hr with h | h
        · exact hM r h
        · rw [h]
          intro a ha
          rcases List.mem_or_eq_of_mem_set ha with h' | h'
          · have hrow : AllFin (M.getD i []) := by
              rw [List.getD_eq_getElem?_getD]
              cases hh : M[i]? with
              | none => intro b hb; simp at hb
              | some r' => exact hM r' (List.mem_of_getElem? hh)
            exact hrow a h'
          · rw [h']; exact hv v (by simp)
      · intro a ha; exact hv a (by simp [ha])

/-! ### every derivative closure returns finite entries at finite points -/

theorem gradClo_finite (clo : GradClo) (x : List R) (σ : Nat → R) (hx : AllFin x) : AllFin (clo.run x σ) := by
  cases clo with
  | powK1 n => exact allFin_replicate n (fin_ofRat 1)
  | powK2 n => exact allFin_map (fun a ha => fin_mul (fin_ofRat 2) ha) hx
  | powGeneral n k => exact allFin_sanitize _
  | powSparse n idx k => exact allFin_sanitize _
  | unFull n op =>
    simp only [GradClo.run]
    split
    · exact allFin_sanitize _
    · rename_i h
      exact allFin_map (fun a ha => fin_vecUnBody (by simpa using h) ha) hx
  | unSparse n idx op =>
    simp only [GradClo.run]
    split
    · exact allFin_sanitize _
    · rename_i h
      exact allFin_scatter (allFin_zeros n)
        (allFin_map (fun a ha => fin_vecUnBody (by simpa using h) ha) (allFin_gather hx idx)) idx
  | symbolic V gs => exact allFin_sanitize _

theorem jacClo_finite (clo : JacClo) (x : List R) (σ : Nat → R) (hx : AllFin x) : AllFin2 (clo.run x σ) := by
  cases clo with
  | power g =>
    intro r hr
    simp only [JacClo.run, List.mem_singleton] at hr
    rw [hr]; exact gradClo_finite g x σ hx
  | unary g =>
    intro r hr
    simp only [JacClo.run, List.mem_singleton] at hr
    rw [hr]; exact gradClo_finite g x σ hx
  | constant rows =>
    intro r hr a ha
    simp only [JacClo.run] at hr
    obtain ⟨r', _, rfl⟩ := List.mem_map.mp hr
    obtain ⟨c, _, rfl⟩ := List.mem_map.mp ha
    exact fin_cst c
  | scaled c =>
    intro r hr
    simp only [JacClo.run, List.mem_singleton] at hr
    rw [hr]
    exact allFin_map (fun a ha => fin_mul (fin_cst c) ha) hx
  | general V rows => exact allFin2_sanitize2 _

theorem hessClo_finite (clo : HessClo) (x : List R) (σ : Nat → R) (hx : AllFin x) : AllFin2 (clo.run x σ) := by
  cases clo with
  | powK1 n => exact allFin2_zeros2 n
  | powK2 n full idx =>
    simp only [HessClo.run]
    split
    · exact allFin2_diagM (allFin_replicate n (fin_ofRat 2))
    · exact allFin2_scatterDiag (allFin2_zeros2 n) (allFin_replicate _ (fin_ofRat 2)) idx
  | powGeneral n coeff exp => exact allFin2_diagM (allFin_sanitize _)
  | powSparse n idx coeff exp => exact allFin2_sanitize2 _
  | unFull n op =>
    simp only [HessClo.run]
    apply allFin2_diagM
    split
    · exact allFin_sanitize _
    · rename_i h
      exact allFin_map (fun a ha => fin_hessUnBody (by simpa using h) ha) hx
  | unSparse n idx op =>
    simp only [HessClo.run]
    split
    · exact allFin2_sanitize2 _
    · rename_i h
      exact allFin2_scatterDiag (allFin2_zeros2 n)
        (allFin_map (fun a ha => fin_hessUnBody (by simpa using h) ha) (allFin_gather hx idx)) idx
  | general V H => exact allFin2_sanitize2 _

end Optyx.Py.Jac
