/-
  Optyx.Lemmas.IterCompile — the explicit-stack builder refines the recursive one:
  processing the frame `(e, 0)` takes exactly `csteps e` loop iterations, leaves the rest of the
  stack untouched and pushes the closure `compile idx e` (or aborts with the same error).
-/
import Optyx.Lemmas.CompileSound

namespace Optyx.Py
open Optyx

theorem elemIter_eq (idx : String → Option Nat) (e : Expr) : elemIter idx e = compile idx e := by
  cases e <;> simp [elemIter, compile]

theorem elemsIter_eq (idx : String → Option Nat) : ∀ es : ExprList, elemsIter idx es = compileList idx es
  | .nil => rfl
  | .cons e t => by simp [elemsIter, compileList, elemIter_eq, elemsIter_eq idx t]

/-- loop iterations spent on the frame `(e, 0)` -/
def csteps : Expr → Nat
  | .bin _ l r => csteps l + csteps r + 2
  | .un _ a => csteps a + 2
  | _ => 1

theorem csteps_le (e : Expr) : csteps e ≤ 2 * e.size := by
  induction e using Expr.rec (motive_2 := fun _ => True) (motive_3 := fun _ => True) <;>
    simp [csteps, Expr.size] <;> omega

theorem crun_add (idx : String → Option Nat) (m n : Nat) (s : CSt) :
    crun idx (m + n) s = (crun idx m s >>= crun idx n) := by
  induction m generalizing s with
  | zero => simp [crun]
  | succ m ih =>
    rw [Nat.succ_add]
    simp only [crun]
    cases cstep idx s with
    | error e => simp
    | ok s' => simp [ih]

theorem crun_done (idx : String → Option Nat) (n : Nat) (rs : List Clo) :
    crun idx n ⟨[], rs⟩ = .ok ⟨[], rs⟩ := by
  induction n with
  | zero => rfl
  | succ n ih => simp [crun, cstep, ih]

theorem crun_one (idx : String → Option Nat) (s : CSt) : crun idx 1 s = cstep idx s := by
  simp only [crun]
  cases cstep idx s <;> rfl

/-- main refinement lemma -/
theorem crun_node (idx : String → Option Nat) :
    ∀ (e : Expr) (rest : List (Expr × Nat)) (rs : List Clo),
      crun idx (csteps e) ⟨(e, 0) :: rest, rs⟩ = CSt.push rest rs (compile idx e) := by
  intro e
  induction e using Expr.rec (motive_2 := fun _ => True) (motive_3 := fun _ => True) with
  | bin op l r ihl ihr =>
    intro rest rs
    have hs : csteps (.bin op l r) = 1 + (csteps l + (csteps r + 1)) := by simp [csteps]; omega
    rw [hs, crun_add, crun_one]
    simp only [cstep, beq_self_eq_true, if_true, ok_bind]
    rw [crun_add, ihl]
    cases hl : compile idx l with
    | error err => simp [CSt.push, compile, hl]
    | ok cl =>
      simp only [CSt.push, ok_bind]
      rw [crun_add, ihr]
      cases hr : compile idx r with
      | error err => simp [CSt.push, compile, hl, hr]
      | ok cr => simp [CSt.push, compile, hl, hr, crun_one, cstep]
  | un op a iha =>
    intro rest rs
    have hs : csteps (.un op a) = 1 + (csteps a + 1) := by simp [csteps]; omega
    rw [hs, crun_add, crun_one]
    simp only [cstep, beq_self_eq_true, if_true, ok_bind]
    rw [crun_add, iha]
    cases ha : compile idx a with
    | error err => simp [CSt.push, compile, ha]
    | ok ca => simp [CSt.push, compile, ha, crun_one, cstep]
  | linComb cs v _ =>
    intro rest rs
    cases v with
    | vars vv => simp [csteps, crun_one, cstep, compile, compileVec]
    | exprs es =>
      simp only [csteps, crun_one, cstep, compile, compileVec, elemsIter_eq]
      cases compileList idx es <;> simp
  | const _ => intro rest rs; simp [csteps, crun_one, cstep, compile]
  | var _ => intro rest rs; simp [csteps, crun_one, cstep, compile]
  | param _ => intro rest rs; simp [csteps, crun_one, cstep, compile]
  | vecSum _ => intro rest rs; simp [csteps, crun_one, cstep, compile]
  | exprSum _ _ => intro rest rs; simp [csteps, crun_one, cstep, compile, elemsIter_eq]
  | dot _ _ _ _ => intro rest rs; simp [csteps, crun_one, cstep, compile]
  | l2 _ _ => intro rest rs; simp [csteps, crun_one, cstep, compile]
  | l1 _ _ => intro rest rs; simp [csteps, crun_one, cstep, compile]
  | quad _ _ _ => intro rest rs; simp [csteps, crun_one, cstep, compile]
  | powSum _ _ => intro rest rs; simp [csteps, crun_one, cstep, compile]
  | unSum _ _ => intro rest rs; simp [csteps, crun_one, cstep, compile]
  | matSumV _ => intro rest rs; simp [csteps, crun_one, cstep, compile]
  | matSumE _ _ => intro rest rs; simp [csteps, crun_one, cstep, compile]
  | frob _ => intro rest rs; simp [csteps, crun_one, cstep, compile]
  | vars _ => trivial
  | exprs _ _ => trivial
  | nil => trivial
  | cons _ _ _ _ => trivial

theorem compileIter_eq_compile (idx : String → Option Nat) (e : Expr) (fuel : Nat)
    (h : fuel ≥ 2 * e.size) : compileIter fuel idx e = compile idx e := by
  obtain ⟨k, rfl⟩ : ∃ k, fuel = csteps e + k := ⟨fuel - csteps e, by have := csteps_le e; omega⟩
  unfold compileIter
  rw [crun_add, crun_node]
  cases compile idx e with
  | error err => simp [CSt.push]
  | ok c => simp [CSt.push, crun_done]

end Optyx.Py
