/-
  Optyx.Lemmas.ApiVecReal — helper lemmas for property C11 that need field laws (over ℝ):
  the accumulating loops of `MatrixVariable._matmul_vector` and `MatrixVariable.trace`.
-/
import Optyx.Lemmas.ApiVec
import Optyx.Lemmas.Real

namespace Optyx.Py.Api
open Optyx NumAlg

variable (ρ : String → ℝ) (σ : Nat → ℝ)

theorem denote_foldl_add (ts : List Expr) (init : Expr) :
    denote ρ σ (ts.foldl (fun acc t => Expr.bin .add acc t) init)
      = ts.foldl (fun a t => a + denote ρ σ t) (denote ρ σ init) := by
  induction ts generalizing init with
  | nil => rfl
  | cons t ts ih => simp only [List.foldl_cons]; rw [ih]; rfl

theorem foldl_add_mul (c : ℝ) (as : List Var) (xs : List Expr) :
    (List.zipWith (fun (a : Var) x => Expr.bin .mul (.var a) x) as xs).foldl
        (fun acc t => acc + denote ρ σ t) c
      = c + dotp (valsOf ρ as) (dvals ρ σ xs) := by
  induction as generalizing xs c with
  | nil => simp [valsOf]
  | cons a as ih =>
    cases xs with
    | nil => simp [dvals]
    | cons x xs =>
      simp only [List.zipWith_cons_cons, List.foldl_cons]
      rw [ih]
      simp only [valsOf, dvals, List.map_cons, dotp_cons, denote, binop_mul]
      ring

/-- `MatrixVariable @ vector`: each element denotes the dot product of a matrix row with the vector -/
theorem matmulVector_vals (m : MatV) (v : Vec) (es : List Expr) (h : matmulVector m v = .ok es) :
    m.ncols = (denoteVec ρ σ v).length ∧
    dvals ρ σ es = m.rows.map fun row => dotp (valsOf ρ row) (denoteVec ρ σ v) := by
  unfold matmulVector at h
  simp only [] at h
  split at h
  · cases h
  · rename_i hne
    obtain ⟨he, _⟩ := mkVExpr_ok h
    refine ⟨by rw [← size'_eq]; simpa [Vec.size'] using hne, ?_⟩
    rw [he]
    simp only [dvals, List.map_map, Function.comp_def]
    apply List.map_congr_left
    intro row _
    rw [denote_foldl_add, foldl_add_mul, dvals_vec_elems]
    simp [cst, denote, NumAlg.cst]


theorem denote_foldl_var (ds : List Var) (init : Expr) :
    denote ρ σ (ds.foldl (fun acc v => Expr.bin .add acc (.var v)) init)
      = denote ρ σ init + NumAlg.sum (valsOf ρ ds) := by
  induction ds generalizing init with
  | nil => simp [valsOf]
  | cons d ds ih =>
    simp only [List.foldl_cons]
    rw [ih]
    simp only [valsOf, List.map_cons, sum_cons, denote, binop_add]
    ring

/-- `trace()`: the left-nested sum denotes the sum of the diagonal -/
theorem matTrace_val (m : MatV) (e : Expr) (h : matTrace m = .ok e) :
    m.nrows = m.ncols ∧ denote ρ σ e = NumAlg.sum (valsOf ρ (diagVars m.rows)) := by
  unfold matTrace at h
  split at h
  · cases h
  · rename_i hne
    cases hd : diagVars m.rows with
    | nil => rw [hd] at h; cases h
    | cons d ds =>
      rw [hd] at h
      cases h
      refine ⟨by simpa using hne, ?_⟩
      rw [denote_foldl_var]
      simp [valsOf, denote]

end Optyx.Py.Api
