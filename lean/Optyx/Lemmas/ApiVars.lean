/-
  Optyx.Lemmas.ApiVars — helper lemmas for property C16: Python's set of Variables, sorting by the
  natural key, the single-vector-source traversal.  Core Lean.
-/
import Optyx.Lemmas.ApiOrder

namespace Optyx.Py.Api
open Optyx

/-! ### `set` of Variables -/

theorem dedupByName_sub : ∀ (l : List Var) (x : Var), x ∈ dedupByName l → x ∈ l
  | [], _, h => by cases h
  | v :: t, x, h => by
    rcases List.mem_cons.mp h with rfl | h
    · exact List.mem_cons_self
    · exact List.mem_cons_of_mem _ (dedupByName_sub t x (List.mem_filter.mp h).1)

theorem dedupByName_name_mem : ∀ (l : List Var) (n : String),
    n ∈ (dedupByName l).map (·.name) ↔ n ∈ l.map (·.name)
  | [], _ => by simp [dedupByName]
  | v :: t, n => by
    have ih := dedupByName_name_mem t n
    simp only [dedupByName, List.map_cons, List.mem_cons]
    constructor
    · rintro (h | h)
      · exact Or.inl h
      · obtain ⟨w, hw, rfl⟩ := List.mem_map.mp h
        exact Or.inr (ih.mp (List.mem_map.mpr ⟨w, (List.mem_filter.mp hw).1, rfl⟩))
    · rintro (h | h)
      · exact Or.inl h
      · by_cases hn : n = v.name
        · exact Or.inl hn
        · obtain ⟨w, hw, rfl⟩ := List.mem_map.mp (ih.mpr h)
          exact Or.inr (List.mem_map.mpr ⟨w, List.mem_filter.mpr ⟨hw, by simpa using hn⟩, rfl⟩)

theorem dedupByName_names_nodup : ∀ (l : List Var), ((dedupByName l).map (·.name)).Nodup
  | [] => by simp [dedupByName]
  | v :: t => by
    simp only [dedupByName, List.map_cons, List.nodup_cons]
    constructor
    · intro h
      obtain ⟨w, hw, hwn⟩ := List.mem_map.mp h
      have := (List.mem_filter.mp hw).2
      simp [hwn] at this
    · exact (dedupByName_names_nodup t).sublist ((List.filter_sublist).map _)

theorem nodup_names_inj {l : List Var} (h : (l.map (·.name)).Nodup) {a b : Var}
    (ha : a ∈ l) (hb : b ∈ l) (hn : a.name = b.name) : a = b := by
  induction l with
  | nil => cases ha
  | cons v t ih =>
    simp only [List.map_cons, List.nodup_cons] at h
    rcases List.mem_cons.mp ha with rfl | ha' <;> rcases List.mem_cons.mp hb with rfl | hb'
    · rfl
    · exact absurd (List.mem_map.mpr ⟨b, hb', hn.symm⟩) h.1
    · exact absurd (List.mem_map.mpr ⟨a, ha', hn⟩) h.1
    · exact ih h.2 ha' hb'

theorem nodup_of_names_nodup {l : List Var} (h : (l.map (·.name)).Nodup) : l.Nodup := by
  rw [List.Nodup, List.pairwise_map] at h
  exact h.imp (fun hab e => hab (by rw [e]))

/-! ### sorting -/

theorem sortVars_perm (l : List Var) : (sortVars l).Perm l := List.mergeSort_perm l varLe

theorem sortVars_sorted (l : List Var) : (sortVars l).Pairwise (fun a b => varLe a b = true) :=
  List.pairwise_mergeSort varLe_trans varLe_total l

/-- two sorted permutations of each other are equal when `le` is antisymmetric on the elements -/
theorem perm_sorted_eq {α : Type} {le : α → α → Bool} : ∀ (l₁ l₂ : List α),
    (∀ a b, a ∈ l₁ → b ∈ l₁ → le a b = true → le b a = true → a = b) →
    l₁.Perm l₂ → l₁.Pairwise (fun a b => le a b = true) → l₂.Pairwise (fun a b => le a b = true) → l₁ = l₂
  | [], l₂, _, hp, _, _ => (List.Perm.nil_eq hp)
  | a :: t, [], _, hp, _, _ => by have := hp.length_eq; simp at this
  | a :: t, b :: u, anti, hp, h1, h2 => by
    have hab : a = b := by
      by_cases hab : a = b
      · exact hab
      · have ha : a ∈ b :: u := hp.subset (List.mem_cons_self)
        have hb : b ∈ a :: t := hp.symm.subset (List.mem_cons_self)
        have ha' : a ∈ u := by
          rcases List.mem_cons.mp ha with h | h
          · exact absurd h hab
          · exact h
        have hb' : b ∈ t := by
          rcases List.mem_cons.mp hb with h | h
          · exact absurd h.symm hab
          · exact h
        have l1 : le a b = true := (List.pairwise_cons.mp h1).1 b hb'
        have l2 : le b a = true := (List.pairwise_cons.mp h2).1 a ha'
        exact anti a b (List.mem_cons_self) hb l1 l2
    subst hab
    have hp' : t.Perm u := (List.perm_cons a).mp hp
    have := perm_sorted_eq t u (fun x y hx hy => anti x y (List.mem_cons_of_mem _ hx) (List.mem_cons_of_mem _ hy))
      hp' (List.pairwise_cons.mp h1).2 (List.pairwise_cons.mp h2).2
    rw [this]

/-- the sorted list does not depend on the order the elements arrive in (one object per name) -/
theorem sortVars_perm_invariant {l₁ l₂ : List Var} (hp : l₁.Perm l₂) (hn : (l₁.map (·.name)).Nodup) :
    sortVars l₁ = sortVars l₂ := by
  have hn' : ((sortVars l₁).map (·.name)).Nodup := ((sortVars_perm l₁).map _).nodup_iff.mpr hn
  refine perm_sorted_eq (sortVars l₁) (sortVars l₂) ?_ ?_ (sortVars_sorted l₁) (sortVars_sorted l₂)
  · intro a b ha hb h1 h2
    exact nodup_names_inj hn' ha hb (varLe_antisymm a b h1 h2)
  · exact (sortVars_perm l₁).trans (hp.trans (sortVars_perm l₂).symm)

/-! ### vectors occurring in an expression, and their consistency -/

mutual
/-- the `VectorVariable` objects an expression refers to -/
def vvarsOf : Expr → List VVar
  | .const _ => []
  | .var _ => []
  | .param _ => []
  | .bin _ l r => vvarsOf l ++ vvarsOf r
  | .un _ a => vvarsOf a
  | .linComb _ v => vvarsOfVec v
  | .vecSum v => [v]
  | .exprSum es => vvarsOfList es
  | .dot l r => vvarsOfVec l ++ vvarsOfVec r
  | .l2 v => vvarsOfVec v
  | .l1 v => vvarsOfVec v
  | .quad v _ => vvarsOfVec v
  | .powSum v _ => [v]
  | .unSum v _ => [v]
  | .matSumV _ => []
  | .matSumE es => vvarsOfList es
  | .frob _ => []
def vvarsOfVec : Vec → List VVar
  | .vars v => [v]
  | .exprs es => vvarsOfList es
def vvarsOfList : ExprList → List VVar
  | .nil => []
  | .cons e t => vvarsOf e ++ vvarsOfList t
end

/-- an object id denotes one `VectorVariable` object -/
def Consistent (vs : List VVar) : Prop := ∀ u ∈ vs, ∀ w ∈ vs, u.oid = w.oid → u.vars = w.vars

def fv (found : Option VVar) : List Var :=
  match found with
  | none => []
  | some v => v.vars

theorem mem_listVars : ∀ (es : ExprList) (x : Var), x ∈ listVars es ↔ ∃ s ∈ es.toList, x ∈ exprVars s
  | .nil, x => by simp [listVars, ExprList.toList]
  | .cons e t, x => by
    simp only [listVars, ExprList.toList, List.mem_append, List.mem_cons, mem_listVars t x]
    constructor
    · rintro (h | ⟨s, hs, hx⟩)
      · exact ⟨e, Or.inl rfl, h⟩
      · exact ⟨s, Or.inr hs, hx⟩
    · rintro ⟨s, rfl | hs, hx⟩
      · exact Or.inl hx
      · exact Or.inr ⟨s, hs, hx⟩

theorem vvarsOfList_mem : ∀ (es : ExprList) (s : Expr), s ∈ es.toList → ∀ u ∈ vvarsOf s, u ∈ vvarsOfList es
  | .nil, _, h => by simp [ExprList.toList] at h
  | .cons e t, s, h => by
    intro u hu
    simp only [ExprList.toList, List.mem_cons] at h
    simp only [vvarsOfList, List.mem_append]
    rcases h with rfl | h
    · exact Or.inl hu
    · exact Or.inr (vvarsOfList_mem t s h u hu)

theorem svsCandidate_sound {vs : List VVar} (hC : Consistent vs) {found : Option VVar} {v : VVar}
    {found' : Option VVar} {pushed : List Expr}
    (hf : ∀ f, found = some f → f ∈ vs) (hv : v ∈ vs) (h : svsCandidate found v = some (found', pushed)) :
    pushed = [] ∧ (∀ x, (x ∈ fv found ∨ x ∈ v.vars) ↔ x ∈ fv found') ∧ (∀ f, found' = some f → f ∈ vs) := by
  unfold svsCandidate at h
  cases found with
  | none =>
    simp only [Option.some.injEq, Prod.mk.injEq] at h
    obtain ⟨rfl, rfl⟩ := h
    exact ⟨rfl, fun x => by simp [fv], fun f hf' => by cases hf'; exact hv⟩
  | some f =>
    simp only [] at h
    split at h
    · rename_i ho
      simp only [Option.some.injEq, Prod.mk.injEq] at h
      obtain ⟨rfl, rfl⟩ := h
      have hfv : f.vars = v.vars := hC f (hf f rfl) v hv (by simpa using ho)
      exact ⟨rfl, fun x => by simp [fv, hfv], hf⟩
    · cases h

/-- one loop iteration keeps "variables still to be accounted for" unchanged -/
theorem svsVisit_sound {vs : List VVar} (hC : Consistent vs) {found : Option VVar} {cur : Expr}
    {found' : Option VVar} {pushed : List Expr}
    (hf : ∀ f, found = some f → f ∈ vs) (hcur : ∀ u ∈ vvarsOf cur, u ∈ vs)
    (h : svsVisit found cur = some (found', pushed)) :
    (∀ x, (x ∈ fv found ∨ x ∈ exprVars cur) ↔ (x ∈ fv found' ∨ ∃ s ∈ pushed, x ∈ exprVars s)) ∧
    (∀ f, found' = some f → f ∈ vs) ∧ (∀ s ∈ pushed, ∀ u ∈ vvarsOf s, u ∈ vs) := by
  have cand : ∀ (v : VVar) (vars : List Var), v ∈ vs → (∀ x, x ∈ vars ↔ x ∈ v.vars) →
      svsCandidate found v = some (found', pushed) →
      (∀ x, (x ∈ fv found ∨ x ∈ vars) ↔ (x ∈ fv found' ∨ ∃ s ∈ pushed, x ∈ exprVars s)) ∧
      (∀ f, found' = some f → f ∈ vs) ∧ (∀ s ∈ pushed, ∀ u ∈ vvarsOf s, u ∈ vs) := by
    intro v vars hv hvars hc
    obtain ⟨hp, hx, hf'⟩ := svsCandidate_sound hC hf hv hc
    subst hp
    refine ⟨fun x => ?_, hf', fun s hs => by cases hs⟩
    rw [hvars x, hx x]; simp
  cases cur <;> simp only [svsVisit] at h
  case const c =>
    simp only [Option.some.injEq, Prod.mk.injEq] at h; obtain ⟨rfl, rfl⟩ := h
    exact ⟨fun x => by simp [exprVars], hf, fun s hs => by cases hs⟩
  case param p =>
    simp only [Option.some.injEq, Prod.mk.injEq] at h; obtain ⟨rfl, rfl⟩ := h
    exact ⟨fun x => by simp [exprVars], hf, fun s hs => by cases hs⟩
  case vecSum v =>
    exact cand v _ (hcur v (by simp [vvarsOf])) (fun x => by simp [exprVars]) h
  case powSum v k =>
    exact cand v _ (hcur v (by simp [vvarsOf])) (fun x => by simp [exprVars]) h
  case unSum v op =>
    exact cand v _ (hcur v (by simp [vvarsOf])) (fun x => by simp [exprVars]) h
  case linComb cs vec =>
    cases vec with
    | vars v =>
      simp only [] at h
      exact cand v _ (hcur v (by simp [vvarsOf, vvarsOfVec])) (fun x => by simp [exprVars, vecVars]) h
    | exprs es => cases h
  case dot l r =>
    cases l with
    | exprs es => cases h
    | vars lv =>
      cases r with
      | exprs es => cases h
      | vars rv =>
        simp only [] at h
        split at h
        · rename_i ho
          have hl : lv ∈ vs := hcur lv (by simp [vvarsOf, vvarsOfVec])
          have hr : rv ∈ vs := hcur rv (by simp [vvarsOf, vvarsOfVec])
          have hlr : lv.vars = rv.vars := hC lv hl rv hr (by simpa using ho)
          exact cand lv _ hl (fun x => by simp [exprVars, vecVars, hlr]) h
        · cases h
  case exprSum es =>
    simp only [Option.some.injEq, Prod.mk.injEq] at h; obtain ⟨rfl, rfl⟩ := h
    refine ⟨fun x => by simp [exprVars, mem_listVars], hf, fun s hs u hu => ?_⟩
    exact hcur u (by simpa [vvarsOf] using vvarsOfList_mem es s hs u hu)
  case bin op l r =>
    simp only [Option.some.injEq, Prod.mk.injEq] at h; obtain ⟨rfl, rfl⟩ := h
    refine ⟨fun x => by simp [exprVars], hf, fun s hs u hu => ?_⟩
    simp only [List.mem_cons, List.not_mem_nil, or_false] at hs
    rcases hs with rfl | rfl
    · exact hcur u (by simp [vvarsOf, hu])
    · exact hcur u (by simp [vvarsOf, hu])
  case un op a =>
    simp only [Option.some.injEq, Prod.mk.injEq] at h; obtain ⟨rfl, rfl⟩ := h
    refine ⟨fun x => by simp [exprVars], hf, fun s hs u hu => ?_⟩
    simp only [List.mem_cons, List.not_mem_nil, or_false] at hs
    subst hs
    exact hcur u (by simpa [vvarsOf] using hu)
  all_goals cases h

theorem svsRun_sound {vs : List VVar} (hC : Consistent vs) : ∀ (fuel : Nat) (stack : List Expr)
    (found r : Option VVar), svsRun fuel stack found = .finished r →
    (∀ f, found = some f → f ∈ vs) → (∀ s ∈ stack, ∀ u ∈ vvarsOf s, u ∈ vs) →
    (∀ x, (x ∈ fv found ∨ ∃ s ∈ stack, x ∈ exprVars s) ↔ x ∈ fv r) ∧ (∀ f, r = some f → f ∈ vs)
  | fuel, [], found, r, h, hf, _ => by
    have hr : svsRun fuel [] found = .finished found := by cases fuel <;> rfl
    rw [hr] at h
    cases h
    exact ⟨fun x => by simp, hf⟩
  | 0, _ :: _, _, _, h, _, _ => by cases h
  | fuel + 1, cur :: rest, found, r, h, hf, hs => by
    simp only [svsRun] at h
    cases hv : svsVisit found cur with
    | none => rw [hv] at h; cases h
    | some p =>
      obtain ⟨found', pushed⟩ := p
      rw [hv] at h
      simp only [] at h
      obtain ⟨hx, hf', hp⟩ := svsVisit_sound hC hf (hs cur (List.mem_cons_self)) hv
      have ih := svsRun_sound hC fuel (pushed.reverse ++ rest) found' r h hf' (by
        intro s hs' u hu
        rcases List.mem_append.mp hs' with h1 | h1
        · exact hp s (List.mem_reverse.mp h1) u hu
        · exact hs s (List.mem_cons_of_mem _ h1) u hu)
      refine ⟨fun x => ?_, ih.2⟩
      rw [← ih.1 x]
      constructor
      · rintro (h1 | ⟨s, hs', hxs⟩)
        · rcases (hx x).mp (Or.inl h1) with h2 | ⟨s, hs2, hx2⟩
          · exact Or.inl h2
          · exact Or.inr ⟨s, List.mem_append_left _ (List.mem_reverse.mpr hs2), hx2⟩
        · rcases List.mem_cons.mp hs' with rfl | hs''
          · rcases (hx x).mp (Or.inr hxs) with h2 | ⟨s', hs2, hx2⟩
            · exact Or.inl h2
            · exact Or.inr ⟨s', List.mem_append_left _ (List.mem_reverse.mpr hs2), hx2⟩
          · exact Or.inr ⟨s, List.mem_append_right _ hs'', hxs⟩
      · rintro (h1 | ⟨s, hs', hxs⟩)
        · rcases (hx x).mpr (Or.inl h1) with h2 | h2
          · exact Or.inl h2
          · exact Or.inr ⟨cur, List.mem_cons_self, h2⟩
        · rcases List.mem_append.mp hs' with h1 | h1
          · rcases (hx x).mpr (Or.inr ⟨s, List.mem_reverse.mp h1, hxs⟩) with h2 | h2
            · exact Or.inl h2
            · exact Or.inr ⟨cur, List.mem_cons_self, h2⟩
          · exact Or.inr ⟨s, List.mem_cons_of_mem _ h1, hxs⟩

theorem singleVectorSource_sound_in {vs : List VVar} (hC : Consistent vs) (e : Expr)
    (he : ∀ u ∈ vvarsOf e, u ∈ vs) (v : VVar) (h : singleVectorSource e = some v) :
    (∀ x, x ∈ exprVars e ↔ x ∈ v.vars) ∧ v ∈ vs := by
  unfold singleVectorSource at h
  cases hr : svsRun e.size [e] none with
  | outOfFuel => rw [hr] at h; cases h
  | notSingle => rw [hr] at h; cases h
  | finished f =>
    rw [hr] at h
    simp only [] at h
    subst h
    obtain ⟨h1, h2⟩ := svsRun_sound hC e.size [e] none (some v) hr (fun f hf => by cases hf)
      (fun s hs u hu => by
        simp only [List.mem_cons, List.not_mem_nil, or_false] at hs; subst hs; exact he u hu)
    exact ⟨fun x => by simpa [fv] using h1 x, h2 v rfl⟩

/-! ### fuel -/

def stackSize (st : List Expr) : Nat := (st.map Expr.size).sum

theorem expr_size_pos (e : Expr) : 1 ≤ e.size := by
  cases e <;> simp only [Expr.size] <;> omega

theorem toList_size_le : ∀ (es : ExprList), stackSize es.toList ≤ es.size
  | .nil => by simp [stackSize, ExprList.toList]
  | .cons e t => by
    have := toList_size_le t
    simp only [stackSize, ExprList.toList, List.map_cons, List.sum_cons, ExprList.size] at *
    omega

theorem svsVisit_size {found found' : Option VVar} {cur : Expr} {pushed : List Expr}
    (h : svsVisit found cur = some (found', pushed)) : stackSize pushed + 1 ≤ cur.size := by
  have cand : ∀ v, svsCandidate found v = some (found', pushed) → pushed = [] := by
    intro v hc
    unfold svsCandidate at hc
    cases found with
    | none => simp only [Option.some.injEq, Prod.mk.injEq] at hc; exact hc.2.symm
    | some f =>
      simp only [] at hc
      split at hc
      · simp only [Option.some.injEq, Prod.mk.injEq] at hc; exact hc.2.symm
      · cases hc
  cases cur <;> simp only [svsVisit] at h
  case const c => simp only [Option.some.injEq, Prod.mk.injEq] at h; rw [← h.2]; simp [stackSize, Expr.size]
  case param p => simp only [Option.some.injEq, Prod.mk.injEq] at h; rw [← h.2]; simp [stackSize, Expr.size]
  case vecSum v => rw [cand v h]; simp [stackSize, Expr.size]
  case powSum v k => rw [cand v h]; simp [stackSize, Expr.size]
  case unSum v op => rw [cand v h]; simp [stackSize, Expr.size]
  case linComb cs vec =>
    cases vec with
    | vars v => simp only [] at h; rw [cand v h]; simp [stackSize]; exact expr_size_pos _
    | exprs es => cases h
  case dot l r =>
    cases l with
    | exprs es => cases h
    | vars lv =>
      cases r with
      | exprs es => cases h
      | vars rv =>
        simp only [] at h
        split at h
        · rw [cand lv h]; simp [stackSize]; exact expr_size_pos _
        · cases h
  case exprSum es =>
    simp only [Option.some.injEq, Prod.mk.injEq] at h
    rw [← h.2]
    have := toList_size_le es
    simp only [Expr.size]; omega
  case bin op l r =>
    simp only [Option.some.injEq, Prod.mk.injEq] at h
    rw [← h.2]; simp [stackSize, Expr.size]
  case un op a =>
    simp only [Option.some.injEq, Prod.mk.injEq] at h
    rw [← h.2]; simp [stackSize, Expr.size]
  all_goals cases h

theorem stackSize_append (a b : List Expr) : stackSize (a ++ b) = stackSize a + stackSize b := by
  simp [stackSize]

theorem stackSize_reverse (a : List Expr) : stackSize a.reverse = stackSize a := by
  simp [stackSize, List.sum_reverse]

/-- `size` units of fuel always suffice: the model never reports `outOfFuel` on the real entry point -/
theorem svsRun_fuel : ∀ (fuel : Nat) (stack : List Expr) (found : Option VVar),
    stackSize stack ≤ fuel → svsRun fuel stack found ≠ .outOfFuel
  | fuel, [], found, _ => by
    have hr : svsRun fuel [] found = .finished found := by cases fuel <;> rfl
    rw [hr]; simp
  | 0, e :: rest, _, h => by
    have := expr_size_pos e
    simp [stackSize] at h
    omega
  | fuel + 1, cur :: rest, found, h => by
    simp only [svsRun]
    cases hv : svsVisit found cur with
    | none => simp
    | some p =>
      obtain ⟨found', pushed⟩ := p
      simp only []
      apply svsRun_fuel fuel
      have hs := svsVisit_size hv
      rw [stackSize_append, stackSize_reverse]
      have : stackSize (cur :: rest) = cur.size + stackSize rest := by simp [stackSize]
      omega

end Optyx.Py.Api
