/-
  Optyx.Lemmas.JacLookup — the look-up / index / scatter plumbing of the derivative closures:
  `dictGet` (dict with Variable keys), `nameIdx` (`var_name_to_idx`), `indicesOf`, `scatter`
  (`result[indices] = vals`), `scatterDiag`, `diagM`, `mirrorUpper`, matrix entries.
-/
import Optyx.Py.Jacobian
import Optyx.Lemmas.GradNodesVec

namespace Optyx.Py.Jac
open Optyx Optyx.Py

theorem hasName_cons (x : String) (v : Var) (t : List Var) :
    hasName x (v :: t) = (v.name == x || hasName x t) := by
  simp [hasName]

/-! ### dictGet -/

theorem dictGet_none_iff {β : Type} {x : String} {kvs : List (Var × β)} :
    dictGet x kvs = none ↔ ∀ p ∈ kvs, p.1.name ≠ x := by
  induction kvs with
  | nil => simp [dictGet]
  | cons p t ih =>
    obtain ⟨k, v⟩ := p
    unfold dictGet
    cases h : dictGet x t with
    | some r =>
      have : ¬ ∀ p ∈ t, p.1.name ≠ x := fun hh => by rw [ih.mpr hh] at h; cases h
      simp only [List.mem_cons, forall_eq_or_imp]
      constructor
      · intro hh; cases hh
      · intro hh; exact absurd hh.2 this
    | none =>
      have ht := ih.mp h
      by_cases hk : k.name = x
      · simp [hk]
      · simp only [hk, beq_iff_eq, ite_false, List.mem_cons, forall_eq_or_imp, ne_eq, not_false_eq_true,
          true_and, true_iff]
        exact ht

theorem dictGet_some {β : Type} {x : String} {kvs : List (Var × β)} {r : β}
    (h : dictGet x kvs = some r) : ∃ k, (k, r) ∈ kvs ∧ k.name = x := by
  induction kvs with
  | nil => simp [dictGet] at h
  | cons p t ih =>
    obtain ⟨k, v⟩ := p
    unfold dictGet at h
    cases ht : dictGet x t with
    | some r' =>
      rw [ht] at h
      simp only [Option.some.injEq] at h
      subst h
      obtain ⟨k', hk', hn⟩ := ih ht
      exact ⟨k', List.mem_cons_of_mem _ hk', hn⟩
    | none =>
      rw [ht] at h
      by_cases hk : k.name = x
      · simp [hk] at h; subst h; exact ⟨k, by simp, hk⟩
      · simp [hk] at h

/-- with pairwise distinct key names, the dict look-up is the first-match look-up of the
    gradient rules (`findName`) -/
theorem dictGet_zip {β : Type} {x : String} {vs : List Var} (hnd : (names vs).Nodup) (cs : List β) :
    dictGet x (vs.zip cs) = (match findName x vs with | some i => cs[i]? | none => none) := by
  induction vs generalizing cs with
  | nil => simp [dictGet, findName]
  | cons y t ih =>
    cases cs with
    | nil =>
      simp only [List.zip_nil_right, dictGet]
      cases findName x (y :: t) <;> simp
    | cons c cs' =>
      have hnd' : (names t).Nodup := by
        simp only [names, List.map_cons, List.nodup_cons] at hnd; exact hnd.2
      have hy : y.name ∉ names t := by
        simp only [names, List.map_cons, List.nodup_cons] at hnd; exact hnd.1
      simp only [List.zip_cons_cons]
      unfold dictGet findName
      rw [ih hnd' cs']
      by_cases h : y.name = x
      · subst h
        rw [findName_eq_none.mpr hy]
        simp
      · cases hf : findName x t with
        | none => simp [h]
        | some i =>
          simp only [h, beq_iff_eq, ite_false, Option.map_some, List.getElem?_cons_succ]
          cases cs'[i]? <;> rfl

theorem dictGet_zipIdx {x : String} {vs : List Var} (hnd : (names vs).Nodup) (k : Nat) :
    dictGet x (vs.zipIdx k) = (findName x vs).map (· + k) := by
  induction vs generalizing k with
  | nil => simp [dictGet, findName]
  | cons y t ih =>
    have hnd' : (names t).Nodup := by
      simp only [names, List.map_cons, List.nodup_cons] at hnd; exact hnd.2
    have hy : y.name ∉ names t := by
      simp only [names, List.map_cons, List.nodup_cons] at hnd; exact hnd.1
    simp only [List.zipIdx_cons]
    unfold dictGet findName
    rw [ih hnd' (k + 1)]
    by_cases h : y.name = x
    · subst h
      rw [findName_eq_none.mpr hy]
      simp
    · cases hf : findName x t with
      | none => simp [h]
      | some i => simp [h]; omega

/-! ### nameIdx -/

theorem nameIdx_none_iff {x : String} {V : List Var} : nameIdx x V = none ↔ x ∉ names V := by
  induction V with
  | nil => simp [nameIdx, names]
  | cons y t ih =>
    unfold nameIdx
    cases h : nameIdx x t with
    | some r =>
      have : x ∈ names t := by
        by_contra hn; rw [ih.mpr hn] at h; cases h
      have hx : x ∈ names (y :: t) := by
        simp only [names, List.map_cons, List.mem_cons] at this ⊢
        exact Or.inr this
      constructor
      · intro hh; cases hh
      · intro hh; exact absurd hx hh
    | none =>
      have hn := ih.mp h
      by_cases hy : y.name = x
      · simp [hy, names]
      · have hy' : ¬ x = y.name := fun e => hy e.symm
        simp [hy, names, hy'] at hn ⊢
        exact hn

theorem nameIdx_some {x : String} {V : List Var} {i : Nat} (h : nameIdx x V = some i) :
    ∃ hi : i < V.length, V[i].name = x := by
  induction V generalizing i with
  | nil => simp [nameIdx] at h
  | cons y t ih =>
    unfold nameIdx at h
    cases ht : nameIdx x t with
    | some r =>
      rw [ht] at h
      simp only [Option.some.injEq] at h
      subst h
      obtain ⟨hr, hn⟩ := ih ht
      exact ⟨by simp; omega, by simpa using hn⟩
    | none =>
      rw [ht] at h
      by_cases hy : y.name = x
      · simp [hy] at h; subst h; exact ⟨by simp, by simpa using hy⟩
      · simp [hy] at h

theorem nameIdx_nodup {V : List Var} (hnd : (names V).Nodup) {j : Nat} (hj : j < V.length) :
    nameIdx V[j].name V = some j := by
  induction V generalizing j with
  | nil => simp at hj
  | cons y t ih =>
    have hnd' : (names t).Nodup := by
      simp only [names, List.map_cons, List.nodup_cons] at hnd; exact hnd.2
    have hy : y.name ∉ names t := by
      simp only [names, List.map_cons, List.nodup_cons] at hnd; exact hnd.1
    unfold nameIdx
    cases j with
    | zero =>
      simp only [List.getElem_cons_zero]
      rw [nameIdx_none_iff.mpr hy]
      simp
    | succ j =>
      have hj' : j < t.length := by simpa using hj
      simp only [List.getElem_cons_succ]
      rw [ih hnd' hj']

theorem nameIdx_isSome_iff {x : String} {V : List Var} : (nameIdx x V).isSome = hasName x V := by
  cases h : nameIdx x V with
  | none =>
    have := nameIdx_none_iff.mp h
    have h2 : ¬ (hasName x V = true) := fun e => this (hasName_iff.mp e)
    simp [Bool.eq_false_iff.mpr h2]
  | some i =>
    have : x ∈ names V := by
      by_contra hn
      rw [nameIdx_none_iff.mpr hn] at h; cases h
    simp [hasName_iff.mpr this]

/-- `V[j]` has the name `n` at the (unique) index `nameIdx` returns -/
theorem nameIdx_eq_iff {V : List Var} (hnd : (names V).Nodup) {x : String} {i j : Nat}
    (hj : j < V.length) (h : nameIdx x V = some i) : i = j ↔ x = V[j].name := by
  constructor
  · intro e; subst e
    obtain ⟨_, hn⟩ := nameIdx_some h
    exact hn.symm
  · intro e; subst e
    rw [nameIdx_nodup hnd hj] at h
    exact (Option.some.inj h).symm

/-! ### indicesOf -/

/-- relational reading of `indicesOf` -/
def IdxRel (V : List Var) (v : Var) (i : Nat) : Prop := nameIdx v.name V = some i

theorem indicesOf_forall₂ {V vs : List Var} {idx : List Nat} (h : indicesOf V vs = some idx) :
    List.Forall₂ (IdxRel V) vs idx := by
  induction vs generalizing idx with
  | nil => simp [indicesOf] at h; subst h; exact List.Forall₂.nil
  | cons v t ih =>
    unfold indicesOf at h
    cases h1 : nameIdx v.name V with
    | none => simp [h1] at h
    | some i =>
      cases h2 : indicesOf V t with
      | none => simp [h1, h2] at h
      | some is =>
        simp [h1, h2] at h
        subst h
        exact List.Forall₂.cons h1 (ih h2)

theorem indicesOf_none {V vs : List Var} (h : indicesOf V vs = none) :
    ∃ v ∈ vs, hasName v.name V = false := by
  induction vs with
  | nil => simp [indicesOf] at h
  | cons v t ih =>
    unfold indicesOf at h
    cases h1 : nameIdx v.name V with
    | none =>
      refine ⟨v, by simp, ?_⟩
      rw [← nameIdx_isSome_iff, h1]; rfl
    | some i =>
      cases h2 : indicesOf V t with
      | none =>
        obtain ⟨w, hw, hh⟩ := ih h2
        exact ⟨w, List.mem_cons_of_mem _ hw, hh⟩
      | some is => simp [h1, h2] at h

/-- when the indices are `0..n-1`, the vector's variables carry the names of `V` position by position -/
theorem forall₂_range_names {V vs : List Var} {k : Nat} {idx : List Nat}
    (h : List.Forall₂ (IdxRel V) vs idx) (hidx : idx = List.range' k idx.length) :
    ∀ j (hj : j < vs.length), ∃ hv : k + j < V.length, V[k + j].name = vs[j].name := by
  induction h generalizing k with
  | nil => intro j hj; simp at hj
  | @cons v i vs' idx' hvi _ ih =>
    simp only [List.length_cons, List.range'_succ, List.cons.injEq] at hidx
    obtain ⟨hi, hidx'⟩ := hidx
    intro j hj
    cases j with
    | zero =>
      subst hi
      obtain ⟨hlt, hn⟩ := nameIdx_some hvi
      exact ⟨by simpa using hlt, by simpa using hn⟩
    | succ j =>
      have hj' : j < vs'.length := by simpa using hj
      obtain ⟨hlt, hn⟩ := ih hidx' j hj'
      have e : k + (j + 1) = k + 1 + j := by omega
      exact ⟨by omega, by simpa [e] using hn⟩

/-! ### gather / scatter over ℝ -/

theorem scatter_length {α : Type} (res : List α) (idx : List Nat) (vals : List α) :
    (scatter res idx vals).length = res.length := by
  induction idx generalizing res vals with
  | nil => simp [scatter]
  | cons i is ih =>
    cases vals with
    | nil => simp [scatter]
    | cons v vs => simp [scatter, ih]

/-- the sparse closures: after `result[indices] = f(x[indices])`, entry `j` is `f x[j]` when the
    `j`-th declared variable is one of the vector's variables, and the old entry otherwise -/
theorem scatter_gather {V : List Var} (hnd : (names V).Nodup) (x : List ℝ) (f : ℝ → ℝ)
    {vs : List Var} {idx : List Nat} (h : List.Forall₂ (IdxRel V) vs idx)
    (res : List ℝ) (hres : res.length = V.length) (j : Nat) (hj : j < V.length) :
    (scatter res idx ((gather x idx).map f))[j]? =
      if hasName V[j].name vs then some (f (x.getD j 0)) else res[j]? := by
  induction h generalizing res with
  | nil => simp [scatter, gather, hasName]
  | @cons v i vs' idx' hvi _ ih =>
    simp only [gather, List.map_cons, scatter, zero_real]
    have := ih (res.set i (f (x.getD i 0))) (by simpa using hres)
    simp only [gather, zero_real] at this
    rw [this]
    obtain ⟨hilt, hin⟩ := nameIdx_some hvi
    have hiff := nameIdx_eq_iff hnd hj hvi
    rw [hasName_cons]
    by_cases hh : hasName V[j].name vs' = true
    · rw [hh]; simp
    · have hh' : hasName V[j].name vs' = false := by simpa using hh
      rw [hh']
      simp only [Bool.or_false, Bool.false_eq_true, ite_false]
      rw [List.getElem?_set]
      by_cases hij : i = j
      · subst hij
        have hv : v.name = V[i].name := hiff.mp rfl
        have hlt : i < res.length := by omega
        simp [hv, hlt]
      · have hne : ¬ v.name = V[j].name := fun e => hij (hiff.mpr e)
        simp [hij, hne]

theorem zeros_getElem? (n j : Nat) (hj : j < n) : (zeros n : List ℝ)[j]? = some 0 := by
  simp [zeros, hj]

/-! ### matrices: entries, `diagM`, `scatterDiag`, `mirrorUpper`, `sanitize2` -/

/-- entry `(i, j)` of a list-of-rows matrix -/
def entry? {α : Type} (M : List (List α)) (i j : Nat) : Option α := (M[i]?).bind fun r => r[j]?

def IsSymm {α : Type} (M : List (List α)) : Prop := ∀ i j, entry? M i j = entry? M j i

theorem entry?_map_map {α β : Type} (g : α → β) (M : List (List α)) (i j : Nat) :
    entry? (M.map fun r => r.map g) i j = (entry? M i j).map g := by
  unfold entry?
  cases h : M[i]? with
  | none => simp [h]
  | some r => simp [h]

theorem entry?_mirrorUpper {α : Type} (n : Nat) (f : Nat → Nat → α) (i j : Nat) :
    entry? (mirrorUpper n f) i j =
      if i < n ∧ j < n then some (if i ≤ j then f i j else f j i) else none := by
  unfold entry? mirrorUpper
  by_cases hi : i < n
  · by_cases hj : j < n
    · simp [hi, hj]
    · simp [hi, hj]
  · simp [hi]

theorem isSymm_mirrorUpper {α : Type} (n : Nat) (f : Nat → Nat → α) : IsSymm (mirrorUpper n f) := by
  intro i j
  rw [entry?_mirrorUpper, entry?_mirrorUpper]
  by_cases h : i < n ∧ j < n
  · have h' : j < n ∧ i < n := ⟨h.2, h.1⟩
    simp only [h, h', and_self, ite_true]
    by_cases hij : i ≤ j
    · by_cases hji : j ≤ i
      · have : i = j := Nat.le_antisymm hij hji
        subst this; rfl
      · simp [hij, hji]
    · have hji : j ≤ i := by omega
      simp [hij, hji]
  · have h' : ¬ (j < n ∧ i < n) := fun hh => h ⟨hh.2, hh.1⟩
    simp [h, h']

theorem isSymm_map_map {α β : Type} (g : α → β) {M : List (List α)} (h : IsSymm M) :
    IsSymm (M.map fun r => r.map g) := by
  intro i j
  rw [entry?_map_map, entry?_map_map, h i j]

theorem isSymm_sanitize2 {α : Type} [DerivAlg α] {M : List (List α)} (h : IsSymm M) :
    IsSymm (sanitize2 M) := by
  unfold sanitize2
  split
  · exact h
  · exact isSymm_map_map _ h

theorem entry?_diagM (v : List ℝ) (i j : Nat) :
    entry? (diagM v) i j =
      if i < v.length ∧ j < v.length then some (if i = j then v.getD i 0 else 0) else none := by
  unfold entry? diagM
  by_cases hi : i < v.length
  · by_cases hj : j < v.length
    · simp [hi, hj]
    · simp [hi, hj]
  · simp [hi]

theorem entry?_diagM' {α : Type} [NumAlg α] (v : List α) (i j : Nat) :
    entry? (diagM v) i j =
      if i < v.length ∧ j < v.length then
        some (if i = j then v.getD i NumAlg.zero else NumAlg.zero) else none := by
  unfold entry? diagM
  by_cases hi : i < v.length
  · by_cases hj : j < v.length
    · simp [hi, hj]
    · simp [hi, hj]
  · simp [hi]

theorem isSymm_diagM {α : Type} [NumAlg α] (v : List α) : IsSymm (diagM v) := by
  intro i j
  rw [entry?_diagM', entry?_diagM']
  by_cases h : i < v.length ∧ j < v.length
  · have h' : j < v.length ∧ i < v.length := ⟨h.2, h.1⟩
    simp only [h, h', and_self, ite_true]
    by_cases hij : i = j
    · subst hij; rfl
    · have hji : ¬ j = i := fun e => hij e.symm
      simp [hij, hji]
  · have h' : ¬ (j < v.length ∧ i < v.length) := fun hh => h ⟨hh.2, hh.1⟩
    simp [h, h']

/-- one diagonal assignment `M[i, i] = v` -/
theorem entry?_setDiag {α : Type} (M : List (List α)) (i : Nat) (v : α) (a b : Nat) :
    entry? (M.set i ((M.getD i []).set i v)) a b =
      if a = i ∧ b = i ∧ (entry? M i i).isSome then some v else entry? M a b := by
  unfold entry?
  rw [List.getElem?_set]
  by_cases ha : i = a
  · subst ha
    by_cases hi : i < M.length
    · simp only [hi, ite_true, Option.bind_some, true_and]
      rw [List.getElem?_set]
      have hM : M[i]? = some M[i] := List.getElem?_eq_getElem hi
      have hD : M.getD i [] = M[i] := by simp [List.getD, hM]
      rw [hD, hM]
      by_cases hb : i = b
      · subst hb
        by_cases hl : i < (M[i]).length
        · simp [hl]
        · simp [hl]
      · have hb' : ¬ b = i := fun e => hb e.symm
        simp [hb, hb']
    · have hM : M[i]? = none := by simp; omega
      simp [hi, hM]
  · have ha' : ¬ a = i := fun e => ha e.symm
    simp [ha, ha']

theorem isSymm_setDiag {α : Type} {M : List (List α)} (h : IsSymm M) (i : Nat) (v : α) :
    IsSymm (M.set i ((M.getD i []).set i v)) := by
  intro a b
  rw [entry?_setDiag, entry?_setDiag, h a b]
  by_cases hab : a = i ∧ b = i ∧ (entry? M i i).isSome
  · have hba : b = i ∧ a = i ∧ (entry? M i i).isSome := ⟨hab.2.1, hab.1, hab.2.2⟩
    simp [hab, hba]
  · have hba : ¬ (b = i ∧ a = i ∧ (entry? M i i).isSome) := fun hh => hab ⟨hh.2.1, hh.1, hh.2.2⟩
    simp [hab, hba]

theorem isSymm_scatterDiag {α : Type} {M : List (List α)} (h : IsSymm M) (idx : List Nat) (vals : List α) :
    IsSymm (scatterDiag M idx vals) := by
  induction idx generalizing M vals with
  | nil => simpa [scatterDiag] using h
  | cons i is ih =>
    cases vals with
    | nil => simpa [scatterDiag] using h
    | cons v vs =>
      simp only [scatterDiag]
      exact ih (isSymm_setDiag h i v) vs

theorem entry?_zeros2 {α : Type} [NumAlg α] (n i j : Nat) :
    entry? (zeros2 n : List (List α)) i j = if i < n ∧ j < n then some NumAlg.zero else none := by
  unfold entry? zeros2 zeros
  by_cases hi : i < n
  · by_cases hj : j < n
    · simp [hi, hj]
    · simp [hi, hj]
  · simp [hi]

theorem isSymm_zeros2 {α : Type} [NumAlg α] (n : Nat) : IsSymm (zeros2 n : List (List α)) := by
  intro i j
  rw [entry?_zeros2, entry?_zeros2]
  by_cases h : i < n ∧ j < n
  · have h' : j < n ∧ i < n := ⟨h.2, h.1⟩
    simp [h, h']
  · have h' : ¬ (j < n ∧ i < n) := fun hh => h ⟨hh.2, hh.1⟩
    simp [h, h']

/-- the sparse diagonal closures over ℝ: entry `(a, b)` after `result[indices, indices] = f(x[indices])` -/
theorem scatterDiag_gather {V : List Var} (hnd : (names V).Nodup) (x : List ℝ) (f : ℝ → ℝ)
    {vs : List Var} {idx : List Nat} (h : List.Forall₂ (IdxRel V) vs idx)
    (M : List (List ℝ)) (hM : ∀ a b, a < V.length → b < V.length → (entry? M a b).isSome)
    (a b : Nat) (ha : a < V.length) (hb : b < V.length) :
    entry? (scatterDiag M idx ((gather x idx).map f)) a b =
      if a = b ∧ hasName V[a].name vs then some (f (x.getD a 0)) else entry? M a b := by
  induction h generalizing M with
  | nil => simp [scatterDiag, gather, hasName]
  | @cons v i vs' idx' hvi _ ih =>
    simp only [gather, List.map_cons, scatterDiag, zero_real]
    obtain ⟨hilt, hin⟩ := nameIdx_some hvi
    have hM' : ∀ a b, a < V.length → b < V.length →
        (entry? (M.set i ((M.getD i []).set i (f (x.getD i 0)))) a b).isSome := by
      intro a b ha hb
      rw [entry?_setDiag]
      split
      · rfl
      · exact hM a b ha hb
    have := ih _ hM'
    simp only [gather, zero_real] at this
    rw [this, entry?_setDiag, hasName_cons]
    have hiff := nameIdx_eq_iff hnd ha hvi
    have hsome : (entry? M i i).isSome = true := hM i i hilt hilt
    by_cases hab : a = b
    · subst hab
      by_cases hh : hasName V[a].name vs' = true
      · rw [hh]; simp
      · have hh' : hasName V[a].name vs' = false := by simpa using hh
        rw [hh']
        by_cases hia : i = a
        · subst hia
          have hv : v.name = V[i].name := hiff.mp rfl
          simp [hv, hsome]
        · have hne : ¬ v.name = V[a].name := fun e => hia (hiff.mpr e)
          have hai : ¬ a = i := fun e => hia e.symm
          simp [hne, hai]
    · have hai : ¬ (a = i ∧ b = i ∧ (entry? M i i).isSome = true) :=
        fun hh => hab (hh.1.trans hh.2.1.symm)
      simp [hab, hai]

end Optyx.Py.Jac
