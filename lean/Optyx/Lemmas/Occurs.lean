/-
  Optyx.Lemmas.Occurs — syntactic occurrence of a variable name, and the fact that every rule of
  the differentiator returns the *literal* `Constant(0.0)` when all child derivatives are that
  literal (this is what makes the constant-Jacobian fast path fire for absent variables).
-/
import Optyx.Py.Grad

namespace Optyx
open Optyx.Generated Optyx.Py

mutual
def occurs (x : String) : Expr → Bool
  | .const _ | .param _ => false
  | .var v => v.name == x
  | .bin _ l r => occurs x l || occurs x r
  | .un _ a => occurs x a
  | .linComb _ v | .l2 v | .l1 v | .quad v _ => occursVec x v
  | .vecSum v | .powSum v _ | .unSum v _ => hasName x v.vars
  | .exprSum es | .matSumE es => occursList x es
  | .dot l r => occursVec x l || occursVec x r
  | .matSumV m | .frob m => hasName x m.flat
def occursVec (x : String) : Vec → Bool
  | .vars v => hasName x v.vars
  | .exprs es => occursList x es
def occursList (x : String) : ExprList → Bool
  | .nil => false
  | .cons e t => occurs x e || occursList x t
end

notation "Z0" => Expr.c (0 : Rat)

@[simp] theorem isZero_Z : isZero Z0 = true := by simp [isZero, Expr.c]
@[simp] theorem isOne_Z : isOne Z0 = false := by simp [isOne, Expr.c]

@[simp] theorem sAdd_ZZ : sAdd Z0 Z0 = Z0 := by simp [sAdd]
@[simp] theorem sSub_ZZ : sSub Z0 Z0 = Z0 := by simp [sSub]
@[simp] theorem sMul_Z_right (a : Expr) : sMul a Z0 = Z0 := by simp [sMul]
@[simp] theorem sMul_Z_left (a : Expr) : sMul Z0 a = Z0 := by simp [sMul]
@[simp] theorem sDiv_Z_left (a : Expr) : sDiv Z0 a = Z0 := by simp [sDiv]
@[simp] theorem sNeg_Z : sNeg Z0 = Z0 := by simp [sNeg]

theorem binaryRule_zero (op : BinOp) (l r self : Expr) : binaryRule op l r Z0 Z0 self = Z0 := by
  cases op with
  | add => simp [binaryRule]
  | sub => simp [binaryRule]
  | mul => simp [binaryRule]
  | div => simp [binaryRule]
  | pow =>
    simp only [binaryRule]
    split
    · split
      · rfl
      · split <;> simp
    · simp

theorem unaryRule_zero (op : UnOp) (a self : Expr) : unaryRule op a Z0 self = Z0 := by
  cases op <;> simp [unaryRule]

def allZ (l : List Expr) : Prop := ∀ d ∈ l, d = Z0

theorem foldl_sAdd_zero (l : List Expr) (h : allZ l) :
    l.foldl (fun acc d => sAdd acc d) Z0 = Z0 := by
  induction l with
  | nil => rfl
  | cons d t ih =>
    have hd : d = Z0 := h d (by simp)
    subst hd
    simpa using ih (fun e he => h e (by simp [he]))

theorem foldl_pair_zero {α : Type} (g : α → Expr) (l : List (α × Expr)) (h : ∀ p ∈ l, p.2 = Z0) :
    l.foldl (fun acc (p : α × Expr) => sAdd acc (sMul (g p.1) p.2)) Z0 = Z0 := by
  induction l with
  | nil => rfl
  | cons d t ih =>
    have hd : d.2 = Z0 := h d (by simp)
    simp only [List.foldl_cons, hd, sMul_Z_right, sAdd_ZZ]
    exact ih (fun e he => h e (by simp [he]))

theorem zip_snd_allZ {α : Type} (a : List α) (b : List Expr) (h : allZ b) :
    ∀ p ∈ a.zip b, p.2 = Z0 := by
  intro p hp
  exact h p.2 (List.of_mem_zip hp).2

theorem findName_none_of {x : String} {vs : List Var} (h : hasName x vs = false) :
    findName x vs = none := by
  induction vs with
  | nil => rfl
  | cons y t ih =>
    simp only [hasName, List.any_cons, Bool.or_eq_false_iff] at h
    unfold findName
    simp only [h.1]
    simp [ih (by simpa [hasName] using h.2)]

theorem find?_none_of {x : String} {vs : List Var} (h : hasName x vs = false) :
    vs.find? (·.name == x) = none := by
  induction vs with
  | nil => rfl
  | cons y t ih =>
    simp only [hasName, List.any_cons, Bool.or_eq_false_iff] at h
    simp only [List.find?_cons, h.1]
    exact ih (by simpa [hasName] using h.2)

theorem countName_zero_of {x : String} {vs : List Var} (h : hasName x vs = false) :
    countName x vs = 0 := by
  induction vs with
  | nil => rfl
  | cons y t ih =>
    simp only [hasName, List.any_cons, Bool.or_eq_false_iff] at h
    have := ih (by simpa [hasName] using h.2)
    simp only [countName] at this ⊢
    simp [List.filter_cons, h.1, this]

/-! rules on all-zero child derivatives / absent names -/

theorem linCombRule_zero (wrt : Var) (cs : List Rat) (v : Vec) (dv : List Expr)
    (hv : occursVec wrt.name v = false) (hz : allZ dv) : linCombRule wrt cs v dv = Z0 := by
  cases v with
  | vars vv =>
    simp only [occursVec] at hv
    simp [linCombRule, findName_none_of hv]
  | exprs es =>
    simp only [linCombRule]
    exact foldl_pair_zero (fun c => Expr.c c) _ (zip_snd_allZ _ _ hz)

theorem exprSumRule_zero (dv : List Expr) (hz : allZ dv) : exprSumRule dv = Z0 :=
  foldl_sAdd_zero dv hz

theorem dotRule_zero (wrt : Var) (l r : Vec) (dl dr : List Expr)
    (hl : occursVec wrt.name l = false) (hr : occursVec wrt.name r = false)
    (hzl : allZ dl) (hzr : allZ dr) : dotRule wrt l r dl dr = Z0 := by
  have general : (((Vec.elems l).zip (Vec.elems r)).zip (dl.zip dr)).foldl
      (fun acc (p : (Expr × Expr) × (Expr × Expr)) =>
        sAdd acc (sAdd (sMul p.1.1 p.2.2) (sMul p.1.2 p.2.1))) Z0 = Z0 := by
    have hp : ∀ p ∈ ((Vec.elems l).zip (Vec.elems r)).zip (dl.zip dr), p.2.1 = Z0 ∧ p.2.2 = Z0 := by
      intro p hp
      have := (List.of_mem_zip hp).2
      exact ⟨hzl _ (List.of_mem_zip this).1, hzr _ (List.of_mem_zip this).2⟩
    generalize ((Vec.elems l).zip (Vec.elems r)).zip (dl.zip dr) = L at hp
    induction L with
    | nil => rfl
    | cons d t ih =>
      have := hp d (by simp)
      simp only [List.foldl_cons, this.1, this.2, sMul_Z_right, sAdd_ZZ]
      exact ih (fun e he => hp e (by simp [he]))
  cases l with
  | exprs les => cases r <;> simpa only [dotRule] using general
  | vars lv =>
    cases r with
    | exprs res => simpa only [dotRule] using general
    | vars rv =>
      simp only [occursVec] at hl hr
      simp [dotRule, findName_none_of hl, findName_none_of hr]

theorem l2Rule_zero (wrt : Var) (v : Vec) (dv : List Expr) (self : Expr)
    (hv : occursVec wrt.name v = false) (hz : allZ dv) : l2Rule wrt v dv self = Z0 := by
  cases v with
  | vars vv => simp only [occursVec] at hv; simp [l2Rule, hv]
  | exprs es =>
    simp only [l2Rule]
    exact foldl_pair_zero (fun e => sDiv e self) _ (zip_snd_allZ _ _ hz)

theorem l1Rule_zero (wrt : Var) (v : Vec) (dv : List Expr)
    (hv : occursVec wrt.name v = false) (hz : allZ dv) : l1Rule wrt v dv = Z0 := by
  cases v with
  | vars vv => simp only [occursVec] at hv; simp [l1Rule, hv]
  | exprs es =>
    simp only [l1Rule]
    exact foldl_pair_zero (fun e => sDiv e (.un .abs e)) _ (zip_snd_allZ _ _ hz)

theorem quadRule_zero (wrt : Var) (v : Vec) (q : List (List Rat)) (dv : List Expr)
    (hv : occursVec wrt.name v = false) (hz : allZ dv) : quadRule wrt v q dv = Z0 := by
  cases v with
  | vars vv => simp only [occursVec] at hv; simp [quadRule, findName_none_of hv]
  | exprs es =>
    simp only [quadRule]
    exact foldl_pair_zero (fun row => quadInner row es.toList) _ (zip_snd_allZ _ _ hz)

theorem powSumRule_zero (wrt : Var) (v : VVar) (k : Rat) (h : hasName wrt.name v.vars = false) :
    powSumRule wrt v k = Z0 := by simp [powSumRule, find?_none_of h]

theorem unSumRule_zero (wrt : Var) (v : VVar) (op : VOp) (h : hasName wrt.name v.vars = false) :
    unSumRule wrt v op = Z0 := by simp [unSumRule, find?_none_of h]

theorem vecSumRule_zero (wrt : Var) (v : VVar) (h : hasName wrt.name v.vars = false) :
    vecSumRule wrt v = Z0 := by simp [vecSumRule, h]

theorem matSumVRule_zero (wrt : Var) (m : MVar) (h : hasName wrt.name m.flat = false) :
    matSumVRule wrt m = Z0 := by simp [matSumVRule, countName_zero_of h]

theorem frobRule_zero (wrt : Var) (m : MVar) (self : Expr) (h : hasName wrt.name m.flat = false) :
    frobRule wrt m self = Z0 := by simp [frobRule, countName_zero_of h]

end Optyx
