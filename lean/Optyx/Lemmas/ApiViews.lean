/-
  Optyx.Lemmas.ApiViews — helper lemmas for property C11: indexing, CPython slices, matrix views
  (structure only: which element objects a view holds).  Core Lean.
-/
import Optyx.Py.VecApi

namespace Optyx.Py.Api
open Optyx

/-! ### integer indices -/

theorem normIndex_ok {n : Nat} {k : Int} {i : Nat} (h : normIndex n k = .ok i) :
    i < n ∧ ((0 ≤ k ∧ (i : Int) = k) ∨ (k < 0 ∧ (i : Int) = n + k)) := by
  simp only [normIndex] at h
  by_cases hk : k < 0
  · simp only [hk, if_true] at h
    split at h
    · cases h
    · rename_i hb
      have hi := Except.ok.inj h
      simp only [Bool.or_eq_true, decide_eq_true_eq, not_or, Int.not_le, ge_iff_le] at hb
      exact ⟨by omega, Or.inr ⟨hk, by omega⟩⟩
  · simp only [hk, if_false] at h
    split at h
    · cases h
    · rename_i hb
      have hi := Except.ok.inj h
      simp only [Bool.or_eq_true, decide_eq_true_eq, not_or, Int.not_lt, Int.not_le, ge_iff_le] at hb
      exact ⟨by omega, Or.inl ⟨by omega, by omega⟩⟩

theorem normIndex_error {n : Nat} {k : Int} {e : Err} (h : normIndex n k = .error e) :
    e = .index ∧ ((n : Int) ≤ k ∨ (n : Int) + k < 0) := by
  simp only [normIndex] at h
  by_cases hk : k < 0
  · simp only [hk, if_true] at h
    split at h
    · rename_i hb
      simp only [Bool.or_eq_true, decide_eq_true_eq, ge_iff_le] at hb
      exact ⟨(Except.error.inj h).symm, by omega⟩
    · cases h
  · simp only [hk, if_false] at h
    split at h
    · rename_i hb
      simp at hb
      exact ⟨(Except.error.inj h).symm, by omega⟩
    · cases h

theorem vIndex_ok {v : VVar} {k : Int} {x : Var} (h : vIndex v k = .ok x) :
    ∃ i, normIndex v.vars.length k = .ok i ∧ v.vars[i]? = some x := by
  unfold vIndex at h
  cases hn : normIndex v.vars.length k with
  | error e => rw [hn] at h; cases h
  | ok i =>
    rw [hn] at h
    simp only [] at h
    cases hx : v.vars[i]? with
    | none => rw [hx] at h; cases h
    | some y => rw [hx] at h; cases h; exact ⟨i, rfl, hx⟩

theorem vIndex_error {v : VVar} {k : Int} {e : Err} (h : vIndex v k = .error e) :
    e = .index ∧ ((v.vars.length : Int) ≤ k ∨ (v.vars.length : Int) + k < 0) := by
  unfold vIndex at h
  cases hn : normIndex v.vars.length k with
  | error e' => rw [hn] at h; cases h; exact normIndex_error hn
  | ok i =>
    rw [hn] at h
    simp only [] at h
    have hi := (normIndex_ok hn).1
    rw [List.getElem?_eq_getElem hi] at h
    cases h

/-! ### slices -/

theorem pyGetSlice_map {α β} (f : α → β) (l : List α) (sl : PySlice) :
    pyGetSlice (l.map f) sl = (pyGetSlice l sl).map (List.map f) := by
  unfold pyGetSlice
  rw [List.length_map]
  cases sliceIdx l.length sl with
  | error e => rfl
  | ok idx =>
    simp only [Except.map, List.getElem?_map, List.map_filterMap]

theorem pyGetSlice_mem {α} {l r : List α} {sl : PySlice} (h : pyGetSlice l sl = .ok r) :
    ∀ x ∈ r, x ∈ l := by
  unfold pyGetSlice at h
  cases hs : sliceIdx l.length sl with
  | error e => rw [hs] at h; cases h
  | ok idx =>
    rw [hs] at h
    cases h
    intro x hx
    obtain ⟨i, _, hi⟩ := List.mem_filterMap.mp hx
    exact List.mem_of_getElem? hi

theorem vSlice_ok {v w : VVar} {sl : PySlice} {oid : Nat} (h : vSlice v sl oid = .ok w) :
    pyGetSlice v.vars sl = .ok w.vars ∧ w.vars ≠ [] ∧ w.oid = oid := by
  unfold vSlice at h
  cases hs : pyGetSlice v.vars sl with
  | error e => rw [hs] at h; cases h
  | ok r =>
    rw [hs] at h
    cases r with
    | nil => cases h
    | cons x t => cases h; exact ⟨rfl, by simp, rfl⟩

theorem vSlice_error_empty {v : VVar} {sl : PySlice} {oid : Nat} :
    pyGetSlice v.vars sl = .ok [] → vSlice v sl oid = .error .index := by
  intro h; simp [vSlice, h]

/-- bounds of `PySlice_AdjustIndices` for a positive step -/
theorem sliceAdjust_bounds_pos (n : Nat) (start stop : Option Int) (step : Int) (hp : 0 < step) :
    0 ≤ (sliceAdjust n start stop step).1 ∧ (sliceAdjust n start stop step).1 ≤ n ∧
    0 ≤ (sliceAdjust n start stop step).2 ∧ (sliceAdjust n start stop step).2 ≤ n := by
  have hn : ¬ step < 0 := by omega
  cases start <;> cases stop <;> simp only [sliceAdjust, hn, if_false] <;> (repeat' split) <;> omega

/-- … and for a negative step -/
theorem sliceAdjust_bounds_neg (n : Nat) (start stop : Option Int) (step : Int) (hp : step < 0) :
    -1 ≤ (sliceAdjust n start stop step).1 ∧ (sliceAdjust n start stop step).1 ≤ (n : Int) - 1 ∧
    -1 ≤ (sliceAdjust n start stop step).2 ∧ (sliceAdjust n start stop step).2 ≤ (n : Int) - 1 := by
  cases start <;> cases stop <;> simp only [sliceAdjust, hp, if_true] <;> (repeat' split) <;> omega

theorem prog_bound (x d : Int) (k : Nat) (hd : 0 < d) (hx : 0 ≤ x) (hk : k < ((x / d) + 1).toNat) :
    d * (k : Int) ≤ x := by
  have h0 : 0 ≤ x / d := Int.ediv_nonneg hx (Int.le_of_lt hd)
  have hkq : (k : Int) ≤ x / d := by omega
  have h1 : d * (k : Int) ≤ d * (x / d) := Int.mul_le_mul_of_nonneg_left hkq (Int.le_of_lt hd)
  have h2 : d * (x / d) ≤ x := Int.mul_ediv_self_le (Int.ne_of_gt hd)
  omega

/-- every position a slice reads exists: nothing is dropped by `pyGetSlice` -/
theorem sliceIdx_lt {n : Nat} {sl : PySlice} {idx : List Nat} (h : sliceIdx n sl = .ok idx) :
    ∀ i ∈ idx, i < n := by
  simp only [sliceIdx] at h
  split at h
  · cases h
  · rename_i hz
    have hstep : sl.step.getD 1 ≠ 0 := by simpa using hz
    generalize sl.step.getD 1 = step at *
    cases h
    intro i hi
    obtain ⟨k, hk, rfl⟩ := List.mem_map.mp hi
    have hk' := List.mem_range.mp hk
    rcases Int.lt_or_gt_of_ne hstep with hneg | hpos
    · obtain ⟨b1, b2, b3, b4⟩ := sliceAdjust_bounds_neg n sl.start sl.stop step hneg
      generalize (sliceAdjust n sl.start sl.stop step).1 = s at *
      generalize (sliceAdjust n sl.start sl.stop step).2 = e at *
      have hnp : ¬ step > 0 := by omega
      simp only [sliceLen, hnp, if_false] at hk'
      split at hk'
      · rename_i hes
        have := prog_bound (s - e - 1) (-step) k (by omega) (by omega) hk'
        have hmul : -step * (k : Int) = -(step * k) := by rw [Int.neg_mul]
        have hnn : 0 ≤ -step * (k : Int) := Int.mul_nonneg (by omega) (by omega)
        omega
      · omega
    · obtain ⟨b1, b2, b3, b4⟩ := sliceAdjust_bounds_pos n sl.start sl.stop step hpos
      generalize (sliceAdjust n sl.start sl.stop step).1 = s at *
      generalize (sliceAdjust n sl.start sl.stop step).2 = e at *
      simp only [sliceLen, hpos, if_true] at hk'
      split at hk'
      · rename_i hse
        have := prog_bound (e - s - 1) step k hpos (by omega) hk'
        omega
      · omega

theorem filterMap_getElem?_length {α} (l : List α) : ∀ (idx : List Nat), (∀ i ∈ idx, i < l.length) →
    (idx.filterMap fun i => l[i]?).length = idx.length
  | [], _ => rfl
  | i :: t, h => by
    have hi := h i (List.mem_cons_self)
    simp [List.filterMap_cons, List.getElem?_eq_getElem hi,
      filterMap_getElem?_length l t (fun j hj => h j (List.mem_cons_of_mem _ hj))]

/-- `len(seq[slice])` is the length CPython computes -/
theorem pyGetSlice_length {α} {l r : List α} {sl : PySlice} (h : pyGetSlice l sl = .ok r) :
    ∃ idx, sliceIdx l.length sl = .ok idx ∧ r.length = idx.length ∧
      r = idx.filterMap fun i => l[i]? := by
  unfold pyGetSlice at h
  cases hs : sliceIdx l.length sl with
  | error e => rw [hs] at h; cases h
  | ok idx =>
    rw [hs] at h; cases h
    exact ⟨idx, rfl, filterMap_getElem?_length l idx (sliceIdx_lt hs), rfl⟩

/-- `seq[:]` -/
theorem sliceIdx_full (n : Nat) : sliceIdx n ⟨none, none, none⟩ = .ok (List.range n) := by
  simp only [sliceIdx, Option.getD, sliceAdjust, sliceLen]
  simp only [show ((1 : Int) == 0) = false from rfl, Bool.false_eq_true, if_false,
    show ¬ ((1 : Int) < 0) by omega, show ((1 : Int) > 0) by omega, if_true]
  congr 1
  by_cases hn : (0 : Int) < n
  · simp only [hn, if_true]
    have : (((n : Int) - 0 - 1) / 1 + 1).toNat = n := by
      rw [Int.ediv_one]; omega
    rw [this]
    apply List.ext_getElem
    · simp
    · intro i h1 h2; simp
  · have : n = 0 := by omega
    subst this; simp

/-- the `k`-th position of a slice lies inside the sequence -/
theorem slice_pos_bounds (n : Nat) (sl : PySlice) (step : Int) (hstep : step ≠ 0) (k : Nat)
    (hk : k < sliceLen (sliceAdjust n sl.start sl.stop step).1 (sliceAdjust n sl.start sl.stop step).2 step) :
    0 ≤ (sliceAdjust n sl.start sl.stop step).1 + step * (k : Int) ∧
    (sliceAdjust n sl.start sl.stop step).1 + step * (k : Int) < n := by
  rcases Int.lt_or_gt_of_ne hstep with hneg | hpos
  · obtain ⟨b1, b2, b3, b4⟩ := sliceAdjust_bounds_neg n sl.start sl.stop step hneg
    generalize (sliceAdjust n sl.start sl.stop step).1 = s at *
    generalize (sliceAdjust n sl.start sl.stop step).2 = e at *
    have hnp : ¬ step > 0 := by omega
    simp only [sliceLen, hnp, if_false] at hk
    split at hk
    · rename_i hes
      have := prog_bound (s - e - 1) (-step) k (by omega) (by omega) hk
      have hmul : -step * (k : Int) = -(step * k) := by rw [Int.neg_mul]
      have hnn : 0 ≤ -step * (k : Int) := Int.mul_nonneg (by omega) (by omega)
      omega
    · omega
  · obtain ⟨b1, b2, b3, b4⟩ := sliceAdjust_bounds_pos n sl.start sl.stop step hpos
    generalize (sliceAdjust n sl.start sl.stop step).1 = s at *
    generalize (sliceAdjust n sl.start sl.stop step).2 = e at *
    simp only [sliceLen, hpos, if_true] at hk
    split at hk
    · rename_i hse
      have := prog_bound (e - s - 1) step k hpos (by omega) hk
      have hnn : 0 ≤ step * (k : Int) := Int.mul_nonneg (by omega) (by omega)
      omega
    · omega

/-- a slice never reads a position twice -/
theorem sliceIdx_nodup {n : Nat} {sl : PySlice} {idx : List Nat} (h : sliceIdx n sl = .ok idx) :
    idx.Nodup := by
  simp only [sliceIdx] at h
  split at h
  · cases h
  · rename_i hz
    have hstep : sl.step.getD 1 ≠ 0 := by simpa using hz
    generalize sl.step.getD 1 = step at *
    cases h
    rw [List.Nodup, List.pairwise_map]
    refine List.Pairwise.imp_of_mem ?_ (List.pairwise_lt_range)
    intro a b ha hb hab
    have ha' := slice_pos_bounds n sl step hstep a (List.mem_range.mp ha)
    have hb' := slice_pos_bounds n sl step hstep b (List.mem_range.mp hb)
    intro heq
    have h1 : (sliceAdjust n sl.start sl.stop step).1 + step * (a : Int)
        = (sliceAdjust n sl.start sl.stop step).1 + step * (b : Int) := by omega
    have h2 : step * ((b : Int) - a) = 0 := by rw [Int.mul_sub]; omega
    rcases Int.mul_eq_zero.mp h2 with h3 | h3
    · exact hstep h3
    · omega

theorem filterMap_getElem?_nodup {α} (l : List α) (hl : l.Nodup) : ∀ (idx : List Nat), idx.Nodup →
    (∀ i ∈ idx, i < l.length) → (idx.filterMap fun i => l[i]?).Nodup
  | [], _, _ => by simp
  | i :: t, hn, hlt => by
    have hi := hlt i (List.mem_cons_self)
    have hn' := List.nodup_cons.mp hn
    simp only [List.filterMap_cons, List.getElem?_eq_getElem hi]
    refine List.nodup_cons.mpr ⟨?_, filterMap_getElem?_nodup l hl t hn'.2
      (fun j hj => hlt j (List.mem_cons_of_mem _ hj))⟩
    intro hmem
    obtain ⟨j, hj, hje⟩ := List.mem_filterMap.mp hmem
    have hjl := hlt j (List.mem_cons_of_mem _ hj)
    have : l[i]? = l[j]? := by rw [hje, List.getElem?_eq_getElem hi]
    have hij := (List.getElem?_inj hi hl).mp this
    exact hn'.1 (hij ▸ hj)

/-- distinct elements stay distinct under slicing -/
theorem pyGetSlice_nodup {α} {l r : List α} {sl : PySlice} (hl : l.Nodup) (h : pyGetSlice l sl = .ok r) :
    r.Nodup := by
  obtain ⟨idx, hidx, _, hr⟩ := pyGetSlice_length h
  rw [hr]
  exact filterMap_getElem?_nodup l hl idx (sliceIdx_nodup hidx) (sliceIdx_lt hidx)

/-! ### grids -/

/-- rectangular grid -/
def Rect {α} (g : List (List α)) : Prop := ∀ row ∈ g, row.length = (gridShape g).2

theorem flatten_length_of_rect {α} : ∀ (g : List (List α)) (c : Nat), (∀ row ∈ g, row.length = c) →
    g.flatten.length = g.length * c
  | [], c, _ => by simp
  | row :: g, c, h => by
    have := flatten_length_of_rect g c (fun r hr => h r (List.mem_cons_of_mem _ hr))
    simp [this, h row (List.mem_cons_self), Nat.succ_mul, Nat.add_comm]

theorem rect_flatten_length {α} (g : List (List α)) (h : Rect g) :
    g.flatten.length = (gridShape g).1 * (gridShape g).2 :=
  flatten_length_of_rect g _ h

theorem map_range_getD_f {α β} (l : List α) (d : α) (f : α → β) :
    (List.range l.length).map (fun i => f (l.getD i d)) = l.map f := by
  apply List.ext_getElem
  · simp
  · intro i h1 h2
    have hi : i < l.length := by simpa using h1
    simp [List.getD_eq_getElem?_getD, List.getElem?_eq_getElem hi]

theorem map_range_getD {α} (l : List α) (d : α) : (List.range l.length).map (fun i => l.getD i d) = l := by
  simpa using map_range_getD_f l d id

theorem getD_map_range {β} (f : Nat → β) (n i : Nat) (d : β) (hi : i < n) :
    ((List.range n).map f).getD i d = f i := by
  simp [List.getD_eq_getElem?_getD, List.getElem?_map, List.getElem?_range hi]

theorem transposeGrid_length {α} [Inhabited α] (g : List (List α)) :
    (transposeGrid g).length = (gridShape g).2 := by simp [transposeGrid, gridShape]

theorem transposeGrid_row {α} [Inhabited α] (g : List (List α)) (i : Nat) (hi : i < (gridShape g).2) :
    (transposeGrid g).getD i [] = g.map fun row => row.getD i default := by
  have hi' : i < (g.head?.map List.length).getD 0 := hi
  rw [transposeGrid, getD_map_range _ _ _ _ hi']
  exact map_range_getD_f g [] (fun row => row.getD i default)

/-- `Mᵀ[i][j] = M[j][i]` -/
theorem transposeGrid_entry {α} [Inhabited α] (g : List (List α)) (i j : Nat)
    (hi : i < (gridShape g).2) (hj : j < g.length) :
    ((transposeGrid g).getD i []).getD j default = (g.getD j []).getD i default := by
  rw [transposeGrid_row g i hi]
  simp [List.getD_eq_getElem?_getD, List.getElem?_map, List.getElem?_eq_getElem hj]

theorem gridShape_transpose {α} [Inhabited α] (g : List (List α)) (hc : 0 < (gridShape g).2) :
    gridShape (transposeGrid g) = ((gridShape g).2, g.length) := by
  have h0 := transposeGrid_row g 0 hc
  have hl := transposeGrid_length g
  cases ht : transposeGrid g with
  | nil => rw [ht] at hl; simp at hl; omega
  | cons r t =>
    rw [ht] at h0 hl
    simp only [List.getD_cons_zero] at h0
    have : gridShape (r :: t) = ((r :: t).length, r.length) := rfl
    rw [this, hl, h0]; simp

/-- `(Mᵀ)ᵀ = M` for a rectangular, non-empty grid -/
theorem transposeGrid_involutive {α} [Inhabited α] (g : List (List α)) (hr : Rect g)
    (hc : 0 < (gridShape g).2) (h0 : 0 < g.length) : transposeGrid (transposeGrid g) = g := by
  have hs := gridShape_transpose g hc
  apply List.ext_getElem
  · rw [transposeGrid_length, hs]
  · intro i h1 h2
    have hrow : (transposeGrid (transposeGrid g)).getD i [] = g.getD i [] := by
      rw [transposeGrid_row _ i (by rw [hs]; exact h2)]
      have hlen : (transposeGrid g).length = (g.getD i []).length := by
        rw [transposeGrid_length]
        have : g.getD i [] = g[i] := by simp [List.getD_eq_getElem?_getD, List.getElem?_eq_getElem h2]
        rw [this]; exact (hr _ (List.getElem_mem h2)).symm
      have : (transposeGrid g).map (fun row => row.getD i default)
          = (List.range (transposeGrid g).length).map (fun k => ((transposeGrid g).getD k []).getD i default) :=
        (map_range_getD_f (transposeGrid g) [] (fun row => row.getD i default)).symm
      rw [this, hlen]
      have hcols : (g.getD i []).length = (gridShape g).2 := by rw [← hlen, transposeGrid_length]
      apply List.ext_getElem
      · simp
      · intro k hk1 hk2
        simp only [List.getElem_map, List.getElem_range]
        rw [transposeGrid_entry g k i (by rw [← hcols]; exact hk2) h2]
        rw [List.getD_eq_getElem?_getD, List.getElem?_eq_getElem hk2]; rfl
    simpa [List.getD_eq_getElem?_getD, List.getElem?_eq_getElem h1, List.getElem?_eq_getElem h2] using hrow

/-! ### `MatrixVariable` -/

theorem matT_rows (m : MatV) (oid : Nat) : (matT m oid).rows = transposeGrid m.rows := rfl

theorem matT_entry (m : MatV) (oid i j : Nat) (hi : i < m.ncols) (hj : j < m.nrows) :
    ((matT m oid).rows.getD i []).getD j default = (m.rows.getD j []).getD i default :=
  transposeGrid_entry m.rows i j hi hj

theorem matT_T (m : MatV) (a b : Nat) (hr : Rect m.rows) (hc : 0 < m.ncols) (h0 : 0 < m.nrows) :
    (matT (matT m a) b).rows = m.rows ∧ (matT (matT m a) b).isTranspose = m.isTranspose ∧
    (matT (matT m a) b).symmetric = m.symmetric := by
  refine ⟨transposeGrid_involutive m.rows hr hc h0, by simp [matT], rfl⟩

theorem matEntry_symm (name : String) (c base i j : Nat) :
    matEntry name true c base i j = matEntry name true c base j i := by
  unfold matEntry
  by_cases h1 : j < i
  · have h2 : ¬ i < j := by omega
    simp [h1, h2]
  · by_cases h2 : i < j
    · simp [h1, h2]
    · have : i = j := by omega
      subst this; rfl

theorem freshEntry_oid_inj (name name' : String) (c base i j i' j' : Nat) (hj : j < c) (hj' : j' < c)
    (h : (freshEntry name c base i j).oid = (freshEntry name' c base i' j').oid) : i = i' ∧ j = j' := by
  simp only [freshEntry] at h
  have h' : c * i + j = c * i' + j' := by rw [Nat.mul_comm c i, Nat.mul_comm c i']; omega
  have hc : 0 < c := by omega
  have e1 : (c * i + j) / c = i := by
    rw [Nat.mul_add_div hc, Nat.div_eq_of_lt hj]; rfl
  have e2 : (c * i' + j') / c = i' := by
    rw [Nat.mul_add_div hc, Nat.div_eq_of_lt hj']; rfl
  have e3 : (c * i + j) % c = j := by rw [Nat.mul_add_mod]; exact Nat.mod_eq_of_lt hj
  have e4 : (c * i' + j') % c = j' := by rw [Nat.mul_add_mod]; exact Nat.mod_eq_of_lt hj'
  rw [h'] at e1 e3
  exact ⟨e1.symm.trans e2, e3.symm.trans e4⟩

theorem mkMatrix_ok {name : String} {rows cols : Int} {sym : Bool} {base nx : Nat} {m : MatV}
    (h : mkMatrix name rows cols sym base = .ok (m, nx)) :
    0 < rows ∧ 0 < cols ∧ (sym = true → rows = cols) ∧ m.symmetric = sym ∧ m.isTranspose = false ∧
    m.rows = (List.range rows.toNat).map fun i =>
      (List.range cols.toNat).map fun j => matEntry name sym cols.toNat base i j := by
  unfold mkMatrix at h
  split at h
  · cases h
  · split at h
    · cases h
    · split at h
      · cases h
      · rename_i h1 h2 h3
        simp only [] at h
        cases h
        refine ⟨by omega, by omega, ?_, rfl, rfl, rfl⟩
        intro hs
        simp [hs] at h3
        exact h3

theorem mkMatrix_entry {name : String} {rows cols : Int} {sym : Bool} {base nx : Nat} {m : MatV}
    (h : mkMatrix name rows cols sym base = .ok (m, nx)) (i j : Nat) (hi : i < rows.toNat) (hj : j < cols.toNat) :
    (m.rows.getD i []).getD j default = matEntry name sym cols.toNat base i j := by
  obtain ⟨_, _, _, _, _, hr⟩ := mkMatrix_ok h
  rw [hr, getD_map_range _ _ _ _ hi, getD_map_range _ _ _ _ hj]

theorem matGetItem_int_int {m : MatV} {i j : Int} {oid : Nat} {item : MItem}
    (h : matGetItem m true (.int i) (.int j) oid = .ok item) :
    ∃ i' j', normIndex m.nrows i = .ok i' ∧ normIndex m.ncols j = .ok j' ∧
      item = .var ((m.rows.getD i' []).getD j' default) := by
  simp only [matGetItem, Bool.not_true, Bool.false_eq_true, if_false, normKey] at h
  cases hi : normIndex m.nrows i with
  | error e => rw [hi] at h; cases h
  | ok i' =>
    cases hj : normIndex m.ncols j with
    | error e => rw [hi, hj] at h; cases h
    | ok j' =>
      rw [hi, hj] at h
      cases h
      exact ⟨i', j', rfl, rfl, by simp⟩

theorem matRowsIter_vars (m : MatV) (base : Nat) : (matRowsIter m base).map (·.vars) = m.rows := by
  simp only [matRowsIter, List.map_map, Function.comp_def, MatV.nrows]
  exact map_range_getD m.rows []

theorem matColsIter_vars (m : MatV) (base : Nat) :
    (matColsIter m base).map (·.vars) = transposeGrid m.rows := by
  simp only [matColsIter, List.map_map, Function.comp_def, transposeGrid, MatV.ncols]
  apply List.map_congr_left
  intro j _
  exact (map_range_getD_f m.rows [] (fun row => row.getD j default)).symm

theorem matDiagonal_ok {m : MatV} {oid : Nat} {d : VVar} (h : matDiagonal m oid = .ok d) :
    m.nrows = m.ncols ∧ d.vars = diagVars m.rows := by
  unfold matDiagonal at h
  split at h
  · cases h
  · rename_i hne; cases h; exact ⟨by simpa using hne, rfl⟩

theorem diagVars_getElem? {g : List (List Var)} (i : Nat) (hi : i < g.length) :
    (diagVars g)[i]? = some ((g.getD i []).getD i default) := by
  simp [diagVars, List.getElem?_map, List.getElem?_range hi]

/-- `diag_matrix(x)` has `x` on its diagonal … -/
theorem diagMatrix_diagonal (v : VVar) (base : Nat) : diagVars (diagMatrix v base).1.rows = v.vars := by
  simp only [diagMatrix, matFromVariables, diagVars, List.length_map, List.length_range]
  apply List.ext_getElem
  · simp
  · intro i h1 h2
    have hi : i < v.vars.length := by simpa using h1
    simp only [List.getElem_map, List.getElem_range]
    rw [getD_map_range _ _ _ _ hi, getD_map_range _ _ _ _ hi]
    simp [diagEntry, List.getD_eq_getElem?_getD, List.getElem?_eq_getElem hi]

/-- … and a fresh `_diag_…` variable (bounds (0, 0) in `news`) off the diagonal -/
theorem diagMatrix_entry (v : VVar) (base i j : Nat) (hi : i < v.vars.length) (hj : j < v.vars.length) :
    ((diagMatrix v base).1.rows.getD i []).getD j default = diagEntry v base i j := by
  simp only [diagMatrix, matFromVariables]
  rw [getD_map_range _ _ _ _ hi, getD_map_range _ _ _ _ hj]

theorem diagMatrix_news_bounds (v : VVar) (base : Nat) :
    ∀ nv ∈ (diagMatrix v base).2.1, nv.lb = some 0 ∧ nv.ub = some 0 := by
  intro nv h
  simp only [diagMatrix, List.mem_flatMap, List.mem_map] at h
  obtain ⟨i, _, j, _, rfl⟩ := h
  exact ⟨rfl, rfl⟩

end Optyx.Py.Api
