/-
  Optyx.Lemmas.LPEndToEnd — composition of C05 (`extractLP_sound`: the extracted data denote the
  user's model) with C08 (`lp_pipeline_faithful`: the LP path is faithful for any contract-abiding
  solver): the verdict and value optyx reports are those of the *user's* linear model.
-/
import Optyx.Props.C05
import Optyx.Props.C08

namespace Optyx.LPE
open Optyx Optyx.Py NumAlg
open Optyx.Props.C08 (dot rowsLe rowsEq inBounds feasibleData feasibleArgs WFData LinprogContract)

/-- the valuation that assigns the list `x` to the ordered names `V` -/
noncomputable def envOf (V : List String) (x : List ℝ) : String → ℝ :=
  fun n => x.getD (V.idxOf n) 0

theorem map_envOf : ∀ (V : List String) (x : List ℝ), V.Nodup → x.length = V.length →
    V.map (envOf V x) = x
  | [], x, _, h => by
    have : x = [] := List.length_eq_zero_iff.mp h
    simp [this]
  | v :: V, [], _, h => by simp at h
  | v :: V, a :: x, hn, h => by
    have hn' := List.nodup_cons.mp hn
    simp only [List.length_cons, Nat.add_right_cancel_iff] at h
    have ih := map_envOf V x hn'.2 h
    simp only [List.map_cons]
    congr 1
    · simp [envOf]
    · have hcongr : V.map (envOf (v :: V) (a :: x)) = V.map (envOf V x) := by
        apply List.map_congr_left
        intro n hn2
        have hne' : ¬ (v = n) := fun e => hn'.1 (e ▸ hn2)
        have hb : (v == n) = false := by simpa using hne'
        simp only [envOf, List.idxOf_cons, hb, cond_false, List.getD_cons_succ]
      rw [hcongr, ih]

/-- the cast ℚ → ℝ as a named function (keeps `simp` from re-normalising `List.map` of a coercion) -/
noncomputable def rc (c : Rat) : ℝ := (c : ℝ)

noncomputable def castVec (b : List Rat) : List ℝ := b.map rc
noncomputable def castRows (A : List (List Rat)) : List (List ℝ) := A.map castVec
noncomputable def castBounds (bs : List (Option Rat × Option Rat)) : List (Option ℝ × Option ℝ) :=
  bs.map fun b => (b.1.map rc, b.2.map rc)

theorem dot_cast (cs : List Rat) (x : List ℝ) : dot (castVec cs) x = NumAlg.wsum cs x := by
  induction cs generalizing x with
  | nil => simp [dot, castVec]
  | cons c cs ih => cases x with
    | nil => simp [dot, castVec]
    | cons a x =>
      have := ih x
      simp only [castVec, List.map_cons, dot, wsum_cons] at this ⊢
      rw [this]; rfl

/-- the LP data as handed to the pipeline of C08 (`np.array(rows) if rows else None`) -/
noncomputable def toLPP (lp : Py.LPData) : LPP.LPData ℝ :=
  { c := castVec lp.c, c0 := rc lp.c0, isMax := lp.maximize
    aub := if lp.aub.isEmpty then none else some (castRows lp.aub)
    bub := if lp.bub.isEmpty then none else some (castVec lp.bub)
    aeq := if lp.aeq.isEmpty then none else some (castRows lp.aeq)
    beq := if lp.beq.isEmpty then none else some (castVec lp.beq)
    bounds := castBounds lp.bounds
    names := lp.variables }

/-- the relation a constraint `expr sense 0` states about the value of `expr` -/
def rel : Sense → ℝ → Prop
  | .le, v => v ≤ 0
  | .ge, v => 0 ≤ v
  | .eq, v => v = 0

/-- feasibility for the model the user wrote: declared bounds and every constraint, at the point
    that assigns `x` to the problem variables in order -/
def userFeasible (p : LPProblem) (σ : Nat → ℝ) (x : List ℝ) : Prop :=
  x.length = p.names.length ∧
  inBounds (castBounds (p.vars.map fun v => (v.lb, v.ub))) x ∧
  ∀ c ∈ p.constraints, rel c.2 (denote (envOf p.names x) σ c.1)

theorem rows_iff (V : List String) (σ : Nat → ℝ) (x : List ℝ) (hn : V.Nodup) (hx : x.length = V.length)
    (eqs : Bool) :
    ∀ (A : List (List Rat)) (b : List Rat) (cons : List (Expr × Sense)),
    A.length = b.length → List.Forall₂ (RowOK V) (A.zip b) cons →
    (∀ c ∈ cons, isEq c.2 = eqs) →
    ((if eqs then rowsEq (castRows A) (castVec b) x else rowsLe (castRows A) (castVec b) x) ↔
      ∀ c ∈ cons, rel c.2 (denote (envOf V x) σ c.1))
  | [], [], cons, _, h, _ => by
    cases h
    cases eqs <;> simp [rowsEq, rowsLe, castRows, castVec]
  | [], _ :: _, _, hl, _, _ => by simp at hl
  | _ :: _, [], _, hl, _, _ => by simp at hl
  | r :: A, bi :: b, cons, hl, h, hs => by
    simp only [List.zip_cons_cons] at h
    cases h with
    | @cons _ c _ cons' hrow hrest =>
      have ih := rows_iff V σ x hn hx eqs A b cons' (by simpa using hl) hrest
        (fun c' hc' => hs c' (by simp [hc']))
      have hc := hs c (by simp)
      have hval := hrow.2 (envOf V x) σ
      rw [map_envOf V x hn hx] at hval
      have hd : dot (castVec r) x = NumAlg.wsum r x := dot_cast r x
      have hrc : rc bi = (bi : ℝ) := rfl
      simp only [castRows, List.map_cons, rowsEq, rowsLe, List.forall₂_cons, List.mem_cons,
        forall_eq_or_imp] at ih ⊢
      rw [show castVec (bi :: b) = rc bi :: castVec b from rfl]
      simp only [List.forall₂_cons]
      cases eqs with
      | true =>
        simp only [ite_true] at ih ⊢
        rw [ih]
        refine and_congr_left' ?_
        rw [hd]
        cases hc2 : c.2 <;> simp [isEq, hc2] at hc
        simp only [hc2] at hval
        simp only [rel, hc2]
        constructor <;> intro h' <;> linarith
      | false =>
        simp only [Bool.false_eq_true, ite_false] at ih ⊢
        rw [ih]
        refine and_congr_left' ?_
        rw [hd]
        cases hc2 : c.2 <;> simp [isEq, hc2] at hc
        · simp only [hc2] at hval
          simp only [rel, hc2]
          constructor <;> intro h' <;> linarith
        · simp only [hc2] at hval
          simp only [rel, hc2]
          constructor <;> intro h' <;> linarith

theorem forall_filter_split {α : Type} (l : List α) (q : α → Bool) (P : α → Prop) :
    (∀ c ∈ l, P c) ↔ (∀ c ∈ l.filter (fun c => !q c), P c) ∧ (∀ c ∈ l.filter q, P c) := by
  constructor
  · intro h
    exact ⟨fun c hc => h c (List.mem_of_mem_filter hc), fun c hc => h c (List.mem_of_mem_filter hc)⟩
  · rintro ⟨h1, h2⟩ c hc
    by_cases hq : q c = true
    · exact h2 c (List.mem_filter.mpr ⟨hc, hq⟩)
    · exact h1 c (List.mem_filter.mpr ⟨hc, by simpa using hq⟩)

theorem castRows_length (A : List (List Rat)) : (castRows A).length = A.length := by simp [castRows]
theorem castVec_length (b : List Rat) : (castVec b).length = b.length := by simp [castVec]

/-- feasibility for the extracted data = feasibility for the user's model -/
theorem feasible_iff_user (p : LPProblem) (lp : Py.LPData) (σ : Nat → ℝ) (x : List ℝ)
    (hn : p.names.Nodup)
    (hbounds : lp.bounds = p.vars.map (fun v => (v.lb, v.ub)))
    (hc : lp.c.length = p.names.length)
    (hubl : lp.aub.length = lp.bub.length)
    (hub : List.Forall₂ (RowOK p.names) (lp.aub.zip lp.bub) (p.constraints.filter fun c => !isEq c.2))
    (heql : lp.aeq.length = lp.beq.length)
    (heq : List.Forall₂ (RowOK p.names) (lp.aeq.zip lp.beq) (p.constraints.filter fun c => isEq c.2)) :
    feasibleData (toLPP lp) x ↔ userFeasible p σ x := by
  unfold feasibleData userFeasible
  have hlen : (toLPP lp).c.length = p.names.length := by simp [toLPP, castVec, hc]
  rw [hlen]
  constructor
  · rintro ⟨hx, h1, h2, h3⟩
    refine ⟨hx, ?_, ?_⟩
    · simpa [toLPP, hbounds] using h3
    · rw [forall_filter_split p.constraints (fun c => isEq c.2)]
      constructor
      · have := (rows_iff p.names σ x hn hx false lp.aub lp.bub _ hubl hub
          (by intro c hc'; have := (List.mem_filter.mp hc').2; simpa using this)).mp
        apply this
        simp only [Bool.false_eq_true, ite_false]
        by_cases he : lp.aub.isEmpty
        · have ha : lp.aub = [] := List.isEmpty_iff.mp he
          have hb : lp.bub = [] := by
            have : lp.bub.length = 0 := by rw [← hubl, ha]; rfl
            exact List.length_eq_zero_iff.mp this
          rw [ha, hb]; exact List.Forall₂.nil
        · have hb : ¬ lp.bub.isEmpty := by
            intro hb'
            have : lp.bub = [] := List.isEmpty_iff.mp hb'
            have h0 : lp.aub.length = 0 := by rw [hubl, this]; rfl
            exact he (List.isEmpty_iff.mpr (List.length_eq_zero_iff.mp h0))
          exact h1 _ _ (by simp [toLPP, he]) (by simp [toLPP, hb])
      · have := (rows_iff p.names σ x hn hx true lp.aeq lp.beq _ heql heq
          (by intro c hc'; exact (List.mem_filter.mp hc').2)).mp
        apply this
        simp only [ite_true]
        by_cases he : lp.aeq.isEmpty
        · have ha : lp.aeq = [] := List.isEmpty_iff.mp he
          have hb : lp.beq = [] := by
            have : lp.beq.length = 0 := by rw [← heql, ha]; rfl
            exact List.length_eq_zero_iff.mp this
          rw [ha, hb]; exact List.Forall₂.nil
        · have hb : ¬ lp.beq.isEmpty := by
            intro hb'
            have : lp.beq = [] := List.isEmpty_iff.mp hb'
            have h0 : lp.aeq.length = 0 := by rw [heql, this]; rfl
            exact he (List.isEmpty_iff.mpr (List.length_eq_zero_iff.mp h0))
          exact h2 _ _ (by simp [toLPP, he]) (by simp [toLPP, hb])
  · rintro ⟨hx, hb, hcons⟩
    rw [forall_filter_split p.constraints (fun c => isEq c.2)] at hcons
    refine ⟨hx, ?_, ?_, ?_⟩
    · intro A b hA hB
      have := (rows_iff p.names σ x hn hx false lp.aub lp.bub _ hubl hub
        (by intro c hc'; have := (List.mem_filter.mp hc').2; simpa using this)).mpr hcons.1
      simp only [Bool.false_eq_true, ite_false] at this
      by_cases he : lp.aub.isEmpty
      · simp [toLPP, he] at hA
      · have hb' : ¬ lp.bub.isEmpty := by
          intro hb''
          have : lp.bub = [] := List.isEmpty_iff.mp hb''
          have h0 : lp.aub.length = 0 := by rw [hubl, this]; rfl
          exact he (List.isEmpty_iff.mpr (List.length_eq_zero_iff.mp h0))
        simp only [toLPP, he, hb', Bool.false_eq_true, ite_false, Option.some.injEq] at hA hB
        rw [← hA, ← hB]; exact this
    · intro A b hA hB
      have := (rows_iff p.names σ x hn hx true lp.aeq lp.beq _ heql heq
        (by intro c hc'; exact (List.mem_filter.mp hc').2)).mpr hcons.2
      simp only [ite_true] at this
      by_cases he : lp.aeq.isEmpty
      · simp [toLPP, he] at hA
      · have hb' : ¬ lp.beq.isEmpty := by
          intro hb''
          have : lp.beq = [] := List.isEmpty_iff.mp hb''
          have h0 : lp.aeq.length = 0 := by rw [heql, this]; rfl
          exact he (List.isEmpty_iff.mpr (List.length_eq_zero_iff.mp h0))
        simp only [toLPP, he, hb', Bool.false_eq_true, ite_false, Option.some.injEq] at hA hB
        rw [← hA, ← hB]; exact this
    · simpa [toLPP, hbounds] using hb

/-- objective of the data at `x` = the user's objective at the point assigning `x` to the variables -/
theorem objective_eq_user (p : LPProblem) (lp : Py.LPData) (obj : Expr) (σ : Nat → ℝ) (x : List ℝ)
    (hn : p.names.Nodup) (hx : x.length = p.names.length)
    (hobj : ∀ (ρ : String → ℝ) (σ : Nat → ℝ), NumAlg.wsum lp.c (p.names.map ρ) + (lp.c0 : ℝ) = denote ρ σ obj) :
    dot (toLPP lp).c x + (toLPP lp).c0 = denote (envOf p.names x) σ obj := by
  have := hobj (envOf p.names x) σ
  rw [map_envOf p.names x hn hx] at this
  simp only [toLPP, dot_cast]
  exact this

end Optyx.LPE
