/-
  Optyx.Lemmas.Schwarz — the symbolic Hessian is symmetric *in meaning*: at a regular point,
  for two variables with different names,
      ⟦gradient(gradient(e, va), vb)⟧ = ⟦gradient(gradient(e, vb), va)⟧.

  Proof.  On the two-variable slice `G(s, t) = ⟦e⟧(ρ[a ↦ s][b ↦ t])`:
    * `G` is C² at `(ρ a, ρ b)` (`Lemmas/Smooth.lean`), and regularity holds on a neighbourhood
      (`Lemmas/SmoothOpen.lean`);
    * by the C02 theorem at every point of that neighbourhood, the partial derivatives of `G` are
      the slices of `⟦gradient(e, ·)⟧`, so `fderiv G · (0,1)` and `fderiv G · (1,0)` coincide with them
      near the point;
    * by the C02 theorem again (with `grad_wf`, `grad_regular`) the partial derivatives of those are
      the slices of the two symbolic second derivatives, i.e. `D²G (1,0) (0,1)` and `D²G (0,1) (1,0)`;
    * Mathlib's `ContDiffAt.isSymmSndFDerivAt` (Schwarz / Clairaut) identifies the two.
-/
import Optyx.Lemmas.SmoothOpen
import Optyx.Lemmas.HessSecond
import Mathlib.Analysis.Calculus.FDeriv.Symmetric

namespace Optyx
open Optyx.Py Filter Topology

section
variable (ρ : String → ℝ) (σ : Nat → ℝ) (a b : String)

/-- the two-variable slice of the environment -/
def env2 (p : ℝ × ℝ) : String → ℝ := Function.update (Function.update ρ a p.1) b p.2

theorem env2_base : env2 ρ a b (ρ a, ρ b) = ρ := by
  simp [env2]

theorem env2_smooth (p0 : ℝ × ℝ) (name : String) :
    ContDiffAt ℝ 2 (fun p : ℝ × ℝ => env2 ρ a b p name) p0 := by
  by_cases hb : name = b
  · have : (fun p : ℝ × ℝ => env2 ρ a b p name) = fun p => p.2 := by
      funext p; simp [env2, hb]
    rw [this]; exact contDiffAt_snd
  · by_cases ha : name = a
    · subst ha
      have : (fun p : ℝ × ℝ => env2 ρ name b p name) = fun p => p.1 := by
        funext p; simp [env2, Function.update_of_ne hb]
      rw [this]; exact contDiffAt_fst
    · have : (fun p : ℝ × ℝ => env2 ρ a b p name) = fun _ => ρ name := by
        funext p; simp [env2, Function.update_of_ne hb, Function.update_of_ne ha]
      rw [this]; exact contDiffAt_const

theorem env2_upd_snd (p : ℝ × ℝ) (t : ℝ) : Function.update (env2 ρ a b p) b t = env2 ρ a b (p.1, t) := by
  simp [env2]

theorem env2_upd_fst (hab : a ≠ b) (p : ℝ × ℝ) (s : ℝ) :
    Function.update (env2 ρ a b p) a s = env2 ρ a b (s, p.2) := by
  simp only [env2]
  rw [Function.update_comm hab.symm, Function.update_idem]

theorem env2_at_snd (p : ℝ × ℝ) : env2 ρ a b p b = p.2 := by simp [env2]
theorem env2_at_fst (hab : a ≠ b) (p : ℝ × ℝ) : env2 ρ a b p a = p.1 := by
  simp [env2, Function.update_of_ne hab]

/-- the slice function of an expression -/
noncomputable def G2 (e : Expr) (p : ℝ × ℝ) : ℝ := denote (env2 ρ a b p) σ e

/-- C02 on the slice, second variable -/
theorem slice_snd (e : Expr) (vb : Var) (hvb : vb.name = b) (p : ℝ × ℝ) (hwf : WF e)
    (hreg : Regular (env2 ρ a b p) σ e) :
    HasDerivAt (fun t => G2 ρ σ a b e (p.1, t)) (G2 ρ σ a b (grad vb e) p) p.2 := by
  have h := grad_D (env2 ρ a b p) σ vb e hwf hreg
  have hF : F (env2 ρ a b p) σ vb.name e = fun t => G2 ρ σ a b e (p.1, t) := by
    funext t; simp only [F, upd, G2, hvb, env2_upd_snd]
  rw [hF, hvb, env2_at_snd] at h
  exact h

/-- C02 on the slice, first variable -/
theorem slice_fst (hab : a ≠ b) (e : Expr) (va : Var) (hva : va.name = a) (p : ℝ × ℝ) (hwf : WF e)
    (hreg : Regular (env2 ρ a b p) σ e) :
    HasDerivAt (fun s => G2 ρ σ a b e (s, p.2)) (G2 ρ σ a b (grad va e) p) p.1 := by
  have h := grad_D (env2 ρ a b p) σ va e hwf hreg
  have hF : F (env2 ρ a b p) σ va.name e = fun s => G2 ρ σ a b e (s, p.2) := by
    funext s; simp only [F, upd, G2, hva, env2_upd_fst ρ a b hab]
  rw [hF, hva, env2_at_fst ρ a b hab] at h
  exact h

/-- where `G` is differentiable and the point is regular, the Fréchet derivative in the coordinate
    directions is the slice of the symbolic gradient -/
theorem fderiv_dir_snd (e : Expr) (vb : Var) (hvb : vb.name = b) (p : ℝ × ℝ) (hwf : WF e)
    (hreg : Regular (env2 ρ a b p) σ e) (hd : DifferentiableAt ℝ (G2 ρ σ a b e) p) :
    fderiv ℝ (G2 ρ σ a b e) p (0, 1) = G2 ρ σ a b (grad vb e) p := by
  have hline : HasDerivAt (fun t : ℝ => ((p.1, t) : ℝ × ℝ)) ((0 : ℝ), (1 : ℝ)) p.2 :=
    (hasDerivAt_const p.2 p.1).prodMk (hasDerivAt_id p.2)
  have hcomp := hd.hasFDerivAt.comp_hasDerivAt (x := p.2) (f := fun t : ℝ => ((p.1, t) : ℝ × ℝ)) hline
  exact hcomp.unique (slice_snd ρ σ a b e vb hvb p hwf hreg)

theorem fderiv_dir_fst (hab : a ≠ b) (e : Expr) (va : Var) (hva : va.name = a) (p : ℝ × ℝ) (hwf : WF e)
    (hreg : Regular (env2 ρ a b p) σ e) (hd : DifferentiableAt ℝ (G2 ρ σ a b e) p) :
    fderiv ℝ (G2 ρ σ a b e) p (1, 0) = G2 ρ σ a b (grad va e) p := by
  have hline : HasDerivAt (fun s : ℝ => ((s, p.2) : ℝ × ℝ)) ((1 : ℝ), (0 : ℝ)) p.1 :=
    (hasDerivAt_id p.1).prodMk (hasDerivAt_const p.1 p.2)
  have hcomp := hd.hasFDerivAt.comp_hasDerivAt (x := p.1) (f := fun s : ℝ => ((s, p.2) : ℝ × ℝ)) hline
  exact hcomp.unique (slice_fst ρ σ a b hab e va hva p hwf hreg)

end

/-- **Schwarz for the symbolic Hessian.** -/
theorem hessEntry_symm (e : Expr) (va vb : Var) (hab : va.name ≠ vb.name) (ρ : String → ℝ) (σ : Nat → ℝ)
    (hwf : WF e) (hreg : Regular ρ σ e) :
    denote ρ σ (hessEntry e va vb) = denote ρ σ (hessEntry e vb va) := by
  set a := va.name with ha
  set b := vb.name with hb
  set p0 : ℝ × ℝ := (ρ a, ρ b) with hp0
  have hbase : env2 ρ a b p0 = ρ := env2_base ρ a b
  have hc := env2_smooth ρ a b p0
  have hreg0 : Regular (env2 ρ a b p0) σ e := by rw [hbase]; exact hreg
  -- G is C² at p0, differentiable and regular nearby
  have hG : ContDiffAt ℝ 2 (G2 ρ σ a b e) p0 := smooth (env2 ρ a b) σ p0 hc e hreg0
  have hopen : ∀ᶠ p in 𝓝 p0, Regular (env2 ρ a b p) σ e := regular_openX (env2 ρ a b) σ p0 hc e hreg0
  have hdiff : ∀ᶠ p in 𝓝 p0, DifferentiableAt ℝ (G2 ρ σ a b e) p := by
    filter_upwards [hG.eventually (by simp)] with p hp
    exact hp.differentiableAt (by simp)
  -- the first-order Fréchet derivative in coordinate directions = slices of the symbolic gradients
  have hE2 : ∀ᶠ p in 𝓝 p0, fderiv ℝ (G2 ρ σ a b e) p (0, 1) = G2 ρ σ a b (grad vb e) p := by
    filter_upwards [hopen, hdiff] with p h1 h2
    exact fderiv_dir_snd ρ σ a b e vb rfl p hwf h1 h2
  have hE1 : ∀ᶠ p in 𝓝 p0, fderiv ℝ (G2 ρ σ a b e) p (1, 0) = G2 ρ σ a b (grad va e) p := by
    filter_upwards [hopen, hdiff] with p h1 h2
    exact fderiv_dir_fst ρ σ a b hab e va rfl p hwf h1 h2
  -- second derivative and its symmetry
  have hG' : DifferentiableAt ℝ (fderiv ℝ (G2 ρ σ a b e)) p0 :=
    (hG.fderiv_right (m := 1) (by norm_num)).differentiableAt (by simp)
  have hsymm : IsSymmSndFDerivAt ℝ (G2 ρ σ a b e) p0 := hG.isSymmSndFDerivAt (by simp)
  set G'' := fderiv ℝ (fderiv ℝ (G2 ρ σ a b e)) p0 with hG''
  -- derivative of p ↦ fderiv G p w in a direction v is G'' v w
  have hdir : ∀ w : ℝ × ℝ, HasFDerivAt (fun p => fderiv ℝ (G2 ρ σ a b e) p w)
      ((fderiv ℝ (G2 ρ σ a b e) p0).comp (0 : ℝ × ℝ →L[ℝ] ℝ × ℝ) + G''.flip w) p0 := fun w =>
    hG'.hasFDerivAt.clm_apply (hasFDerivAt_const w p0)
  -- lines through p0
  have line1 : HasDerivAt (fun s : ℝ => ((s, ρ b) : ℝ × ℝ)) ((1 : ℝ), (0 : ℝ)) (ρ a) :=
    (hasDerivAt_id (ρ a)).prodMk (hasDerivAt_const (ρ a) (ρ b))
  have line2 : HasDerivAt (fun t : ℝ => ((ρ a, t) : ℝ × ℝ)) ((0 : ℝ), (1 : ℝ)) (ρ b) :=
    (hasDerivAt_const (ρ b) (ρ a)).prodMk (hasDerivAt_id (ρ b))
  have tend1 : Tendsto (fun s : ℝ => ((s, ρ b) : ℝ × ℝ)) (𝓝 (ρ a)) (𝓝 p0) := line1.continuousAt
  have tend2 : Tendsto (fun t : ℝ => ((ρ a, t) : ℝ × ℝ)) (𝓝 (ρ b)) (𝓝 p0) := line2.continuousAt
  -- ∂/∂a of (∂G/∂b) at p0, computed two ways
  have hwf_b : WF (grad vb e) := grad_wf vb e hwf
  have hreg_b : Regular (env2 ρ a b p0) σ (grad vb e) := by rw [hbase]; exact grad_regular ρ σ vb e hreg
  have hwf_a : WF (grad va e) := grad_wf va e hwf
  have hreg_a : Regular (env2 ρ a b p0) σ (grad va e) := by rw [hbase]; exact grad_regular ρ σ va e hreg
  have A1 : HasDerivAt (fun s : ℝ => fderiv ℝ (G2 ρ σ a b e) (s, ρ b) (0, 1)) (G'' (1, 0) (0, 1)) (ρ a) := by
    have := (hdir (0, 1)).comp_hasDerivAt (x := ρ a) (f := fun s : ℝ => ((s, ρ b) : ℝ × ℝ)) line1
    simpa [Function.comp_def] using this
  have A2 : HasDerivAt (fun s : ℝ => G2 ρ σ a b (grad vb e) (s, ρ b))
      (G2 ρ σ a b (grad va (grad vb e)) p0) (ρ a) :=
    slice_fst ρ σ a b hab (grad vb e) va rfl p0 hwf_b hreg_b
  have A : G'' (1, 0) (0, 1) = G2 ρ σ a b (grad va (grad vb e)) p0 :=
    A1.unique (A2.congr_of_eventuallyEq (tend1.eventually hE2))
  have B1 : HasDerivAt (fun t : ℝ => fderiv ℝ (G2 ρ σ a b e) (ρ a, t) (1, 0)) (G'' (0, 1) (1, 0)) (ρ b) := by
    have := (hdir (1, 0)).comp_hasDerivAt (x := ρ b) (f := fun t : ℝ => ((ρ a, t) : ℝ × ℝ)) line2
    simpa [Function.comp_def] using this
  have B2 : HasDerivAt (fun t : ℝ => G2 ρ σ a b (grad va e) (ρ a, t))
      (G2 ρ σ a b (grad vb (grad va e)) p0) (ρ b) :=
    slice_snd ρ σ a b (grad va e) vb rfl p0 hwf_a hreg_a
  have B : G'' (0, 1) (1, 0) = G2 ρ σ a b (grad vb (grad va e)) p0 :=
    B1.unique (B2.congr_of_eventuallyEq (tend2.eventually hE1))
  have S : G'' (1, 0) (0, 1) = G'' (0, 1) (1, 0) := hsymm (1, 0) (0, 1)
  -- hessEntry e va vb = grad vb (grad va e)
  have : G2 ρ σ a b (grad vb (grad va e)) p0 = G2 ρ σ a b (grad va (grad vb e)) p0 := by
    rw [← A, ← B, S]
  simpa [G2, hbase, hessEntry] using this

end Optyx
