/-
  Optyx.Lemmas.Solve — helper lemmas for the solver-glue model (`Py/Solve.lean`):
    * arithmetic of the scaled tolerance, "not flagged ⇒ within tolerance";
    * the values dict (`valuesOf`) for distinct names;
    * a small calculus for the state+exception monad `M`:
        `Preserves R m`   every step respects a state relation `R` (hook, recursion limit, cache validity, …)
        `Det P Q m r evs` from `P`, `m` returns `r`, appends exactly `evs`, ends in `Q` (fault-free runs);
    * run equations of the individual steps.
  Core Lean only.
-/
import Optyx.Py.Solve

namespace Optyx.Py.Solve

/-! ### numbers, tolerances -/


theorem absQ_neg (a : Rat) : absQ (-a) = absQ a := by
  unfold absQ; split <;> split <;> grind

theorem absQ_nonneg (a : Rat) : 0 ≤ absQ a := by unfold absQ; split <;> grind
theorem le_maxQ_left (a b : Rat) : a ≤ maxQ a b := by unfold maxQ; split <;> grind
theorem le_maxQ_right (a b : Rat) : b ≤ maxQ a b := by unfold maxQ; split <;> grind

def ConOk (atol rtol : Rat) (u : UCon) (x : List Rat) : Prop :=
  match u.sense with
  | .ge => -(u.g x) ≤ scaledTol atol rtol (u.g x)
  | .le => u.g x ≤ scaledTol atol rtol (u.g x)
  | .eq => absQ (u.g x) ≤ scaledTol atol rtol (u.g x)

theorem conOk_of_not_violated (atol rtol : Rat) (u : UCon) (x : List Rat)
    (h : conViolated atol rtol (toScipy u) x = false) : ConOk atol rtol u x := by
  unfold ConOk
  cases u with | mk sense g =>
  cases sense <;> simp only [toScipy, conViolated] at h ⊢
  · -- le
    simp only [scaledTol, absQ_neg] at h ⊢
    grind
  · simp only [scaledTol] at h ⊢
    grind
  · simp only [scaledTol] at h ⊢
    grind


theorem scaledTol_nonneg (atol rtol v : Rat) (ha : 0 ≤ atol) (hr : 0 ≤ rtol) : 0 ≤ scaledTol atol rtol v := by
  unfold scaledTol
  have h1 : (1 : Rat) ≤ maxQ 1 (absQ v) := le_maxQ_left _ _
  have h2 : 0 ≤ rtol * maxQ 1 (absQ v) := Rat.mul_nonneg hr (by grind)
  grind

/-- in the vocabulary of `Constraint.violation` (needs a non-negative tolerance) -/
theorem violation_le_of_conOk (atol rtol : Rat) (ha : 0 ≤ atol) (hr : 0 ≤ rtol) (u : UCon) (x : List Rat)
    (h : ConOk atol rtol u x) : violation u x ≤ scaledTol atol rtol (u.g x) := by
  have ht := scaledTol_nonneg atol rtol (u.g x) ha hr
  cases u with | mk sense g =>
  cases sense <;> simp only [ConOk, violation] at h ⊢
  · unfold maxQ; split <;> grind
  · unfold maxQ; split <;> grind
  · exact h

def BndOk (atol rtol : Rat) (b : Bnd) (xi : Rat) : Prop :=
  (∀ lb, b.lb = some lb → lb - scaledTol atol rtol lb ≤ xi) ∧
  (∀ ub, b.ub = some ub → xi ≤ ub + scaledTol atol rtol ub)

theorem bndOk_of_not_violated (atol rtol : Rat) (b : Bnd) (xi : Rat)
    (h : bndViolated atol rtol b xi = false) : BndOk atol rtol b xi := by
  cases b with | mk lb ub =>
  unfold BndOk
  cases lb <;> cases ub <;> simp [bndViolated, ubViolated] at h ⊢ <;> grind

theorem statusOf_optimal {r : ScipyResult} {v : Bool} (h : statusOf r v = .optimal) :
    accepted r = true ∧ v = false := by
  unfold statusOf at h
  unfold accepted
  cases hs : r.success <;> cases hv : v <;> cases hm : r.msg.maxIter <;> cases hi : r.msg.infeasible <;>
    cases hp : r.msg.posDir <;> simp_all

theorem zip_index {α β} (l : List α) (m : List β) (P : α → β → Prop)
    (h : ∀ p ∈ l.zip m, P p.1 p.2) (i : Nat) (h1 : i < l.length) (h2 : i < m.length) : P l[i] m[i] := by
  have : (l[i], m[i]) ∈ l.zip m := by
    rw [List.mem_iff_getElem]
    refine ⟨i, by simp [List.length_zip]; omega, by simp⟩
  exact h _ this

/-! ### the values dict -/


theorem dictSet_notin (d : List (String × Rat)) (k : String) (v : Rat) (h : k ∉ dictKeys d) :
    dictSet d k v = d ++ [(k, v)] := by
  induction d with
  | nil => rfl
  | cons p t ih =>
    obtain ⟨k', v'⟩ := p
    simp only [dictKeys, List.map_cons, List.mem_cons, not_or] at h
    have hne : (k' == k) = false := by
      simp only [beq_eq_false_iff_ne, ne_eq]; exact fun e => h.1 e.symm
    simp only [dictSet, hne, Bool.false_eq_true, ↓reduceIte, List.cons_append, List.cons.injEq, true_and]
    exact ih h.2

theorem foldl_dictSet (l acc : List (String × Rat)) (hn : (l.map (·.1)).Nodup)
    (hd : ∀ p ∈ l, p.1 ∉ dictKeys acc) :
    l.foldl (fun d p => dictSet d p.1 p.2) acc = acc ++ l := by
  induction l generalizing acc with
  | nil => simp
  | cons p t ih =>
    simp only [List.foldl_cons]
    rw [dictSet_notin _ _ _ (hd p (by simp))]
    simp only [List.map_cons, List.nodup_cons] at hn
    rw [ih _ hn.2]
    · simp
    · intro q hq
      simp only [dictKeys, List.map_append, List.map_cons, List.map_nil, List.mem_append, List.mem_singleton, not_or]
      refine ⟨hd q (by simp [hq]), ?_⟩
      intro e
      exact hn.1 (e ▸ List.mem_map_of_mem hq)

theorem zip_keys_nodup (names : List String) (x : List Rat) (hn : names.Nodup) :
    ((names.zip x).map (·.1)).Nodup := by
  induction names generalizing x with
  | nil => simp
  | cons n ns ih =>
    cases x with
    | nil => simp
    | cons b bs =>
      simp only [List.zip_cons_cons, List.map_cons, List.nodup_cons]
      simp only [List.nodup_cons] at hn
      refine ⟨?_, ih bs hn.2⟩
      intro hmem
      apply hn.1
      obtain ⟨p, hp, rfl⟩ := List.mem_map.mp hmem
      exact (List.of_mem_zip hp).1

theorem valuesOf_nodup (names : List String) (x : List Rat) (hn : names.Nodup) :
    valuesOf names x = names.zip x := by
  unfold valuesOf
  rw [foldl_dictSet _ _ (zip_keys_nodup names x hn) (by intro p _; simp [dictKeys])]
  simp

theorem dictGet_zip (names : List String) (x : List Rat) (hn : names.Nodup) (i : Nat)
    (h1 : i < names.length) (h2 : i < x.length) : dictGet (names.zip x) names[i] = some x[i] := by
  induction names generalizing x i with
  | nil => simp at h1
  | cons n ns ih =>
    cases x with
    | nil => simp at h2
    | cons b bs =>
      simp only [List.nodup_cons] at hn
      cases i with
      | zero => simp [dictGet]
      | succ j =>
        have hj : j < ns.length := by simpa using h1
        simp only [List.zip_cons_cons, dictGet, List.getElem_cons_succ]
        have hne : (n == ns[j]) = false := by
          simp only [beq_eq_false_iff_ne, ne_eq]
          intro e; exact hn.1 (e ▸ List.getElem_mem _)
        simp only [hne, Bool.false_eq_true, ↓reduceIte]
        exact ih bs hn.2 j (by simpa using h1) (by simpa using h2)

theorem affineAt_eq (names : List String) (c x : List Rat) (c0 : Rat) (d : List (String × Rat))
    (h : ∀ i (h1 : i < names.length) (h2 : i < x.length), dictGet d names[i] = some x[i])
    (hl : names.length ≤ x.length) (hc : c.length = names.length) :
    affineAt names c c0 d = some (dot c x + c0) := by
  induction names generalizing c x with
  | nil =>
    cases c with
    | nil => simp [affineAt, dot]; grind
    | cons _ _ => simp at hc
  | cons n ns ih =>
    cases c with
    | nil => simp at hc
    | cons a as =>
      cases x with
      | nil => simp at hl
      | cons b bs =>
        have h0 := h 0 (by simp) (by simp)
        simp only [List.getElem_cons_zero] at h0
        have ht := ih as bs (fun i h1 h2 => by
          have := h (i + 1) (by simpa using h1) (by simpa using h2)
          simpa using this) (by simpa using hl) (by simpa using hc)
        simp only [affineAt, h0, ht, dot]
        simp only [Option.bind_eq_bind, Option.bind_some, Option.pure_def, Option.some.injEq]
        grind

/-! ### the monad -/


theorem bind_apply {α β} (m : M α) (f : α → M β) (s : PState) :
    (m >>= f) s = match m s with | (.ok a, s') => f a s' | (.exc e, s') => (.exc e, s') := rfl

def Preserves {α} (R : PState → PState → Prop) (m : M α) : Prop := ∀ s, R s (m s).2

/-- what a state relation must satisfy to be respected by every step of a solve;
    `pl` = the verdict `_is_linear_problem` caches -/
structure GoodRel (pl : Bool) (R : PState → PState → Prop) : Prop where
  refl : ∀ s, R s s
  trans : ∀ a b c, R a b → R b c → R a c
  emit : ∀ ev s, R s { s with trace := s.trace ++ [ev] }
  fired : ∀ s, R s { s with fired := true }
  lp : ∀ b s, R s { s with lpCache := b }
  lin : ∀ s, R s { s with linCache := some pl }
  cacheBuilt : ∀ s, R s { s with solverCache := some builtKeys }
  cacheAdd : ∀ s ks k, s.solverCache = some ks → R s { s with solverCache := some (ks ++ [k]) }
  hookBlock : ∀ s s2 h, R { s with hook := h } s2 → R s { s2 with hook := s.hook }

variable {pl : Bool} {R : PState → PState → Prop}

theorem Preserves.pure {α} (g : GoodRel pl R) (a : α) : Preserves R (pure a : M α) := fun s => g.refl s
theorem Preserves.raise {α} (g : GoodRel pl R) (e : Exc) : Preserves R (raise e : M α) := fun s => g.refl s
theorem Preserves.bind {α β} (g : GoodRel pl R) {m : M α} {f : α → M β}
    (hm : Preserves R m) (hf : ∀ a, Preserves R (f a)) : Preserves R (m >>= f) := by
  intro s
  have h1 := hm s
  rw [bind_apply]
  cases h : m s with | mk r s' =>
  rw [h] at h1
  cases r with
  | ok a => exact g.trans _ _ _ h1 (hf a s')
  | exc e => exact h1
theorem Preserves.ite {α} {c : Prop} [Decidable c] {a b : M α}
    (ha : Preserves R a) (hb : Preserves R b) : Preserves R (if c then a else b) := by
  split <;> assumption

theorem Preserves.emit (g : GoodRel pl R) (ev : Event) : Preserves R (emit ev) := fun s => g.emit ev s
theorem Preserves.getState (g : GoodRel pl R) : Preserves R getState := fun s => g.refl s
theorem Preserves.fire (g : GoodRel pl R) (f p st) : Preserves R (fire f p st) := by
  intro s
  simp only [Solve.fire]
  cases Fault.hits f p st
  · exact g.refl s
  · exact g.fired s

theorem Preserves.fireAll (g : GoodRel pl R) (f p) (l : List Step) : Preserves R (fireAll f p l) := by
  induction l with
  | nil => exact .pure g _
  | cons a t ih => exact .bind g (.fire g _ _ _) (fun _ => ih)

theorem Preserves.fireEach (g : GoodRel pl R) (f p mk) (l : List Nat) : Preserves R (fireEach f p mk l) := by
  induction l with
  | nil => exact .pure g _
  | cons a t ih =>
    unfold Solve.fireEach
    exact .bind g (.fireAll g _ _ _) (fun _ => ih)

theorem Preserves.tryExcept {α} (g : GoodRel pl R) {body : M α} {h : Exc → M α}
    (hb : Preserves R body) (hh : ∀ e, Preserves R (h e)) : Preserves R (tryExcept body h) := by
  intro s
  have h1 := hb s
  simp only [Solve.tryExcept]
  cases hbs : body s with | mk r s' =>
  rw [hbs] at h1
  cases r with
  | ok a => exact h1
  | exc e =>
    dsimp only
    split
    · exact g.trans _ _ _ h1 (hh e s')
    · exact h1

theorem Preserves.withHook {α} (g : GoodRel pl R) {body : M α} (h : Nat)
    (hb : Preserves R body) : Preserves R (withHook h body) := by
  intro s
  simp only [Solve.withHook]
  exact g.hookBlock s _ h (hb _)

theorem Preserves.guard (g : GoodRel pl R) (w pass solver strict vars) :
    Preserves R (guard w pass solver strict vars) := by
  unfold Solve.guard
  dsimp only
  split
  · exact .pure g _
  · split
    · exact .raise g _
    · exact .bind g (.fire g _ _ _) (fun _ => .emit g _)

theorem Preserves.setBuilt (g : GoodRel pl R) : Preserves R (setSolverCache (some builtKeys)) :=
  fun s => g.cacheBuilt s

theorem Preserves.ensureCache (g : GoodRel pl R) (w pass p) : Preserves R (ensureCache w pass p) := by
  intro s
  unfold Solve.ensureCache
  rw [bind_apply]
  simp only [Solve.getState]
  cases hc : s.solverCache with
  | some ks => exact g.refl s
  | none =>
    dsimp only
    split
    · exact g.refl s
    · exact (Preserves.bind g (.fire g _ _ _) fun _ => .bind g (.fire g _ _ _) fun _ =>
        .bind g (.fireEach g _ _ _ _) fun _ => .setBuilt g) s

theorem Preserves.useCache (g : GoodRel pl R) : Preserves R useCache := by
  intro s
  unfold Solve.useCache
  rw [bind_apply]
  simp only [Solve.getState]
  cases hc : s.solverCache with
  | none => exact g.refl s
  | some ks =>
    dsimp only
    split
    · split
      · exact g.refl s
      · exact g.cacheAdd s ks _ hc
    · exact g.refl s

theorem Preserves.ensureHess (g : GoodRel pl R) (w pass o method) : Preserves R (ensureHess w pass o method) := by
  intro s
  unfold Solve.ensureHess
  split
  · rw [bind_apply]
    simp only [Solve.getState]
    cases hc : s.solverCache with
    | none => exact g.refl s
    | some ks =>
      dsimp only
      split
      · exact g.refl s
      · rw [bind_apply]
        simp only [Solve.fire]
        cases Fault.hits w.fault pass .compileHess with
        | some b => exact g.fired s
        | none => exact g.cacheAdd s ks _ hc
  · exact g.refl s

theorem Preserves.minimizeBlock (g : GoodRel pl R) (w pass a) : Preserves R (minimizeBlock w pass a) := by
  unfold Solve.minimizeBlock
  refine .withHook g _ (.tryExcept g ?_ (fun _ => .pure g _))
  unfold Solve.minimizeCall
  exact .bind g (.emit g _) fun _ => .bind g (.fire g _ _ _) fun _ => .pure g _

theorem Preserves.scipyPass (g : GoodRel pl R) (w p o pass method) : Preserves R (scipyPass w p o pass method) := by
  unfold Solve.scipyPass
  refine .bind g (.fire g _ _ _) fun _ => ?_
  split
  · exact .pure g _
  · refine .bind g (.guard g _ _ _ _ _) fun _ => .bind g (.ensureCache g _ _ _) fun _ =>
      .bind g (.useCache g) fun _ => .bind g (.ensureHess g _ _ _ _) fun _ =>
      .bind g (.minimizeBlock g _ _ _) fun r? => ?_
    cases r? with
    | none => exact .pure g _
    | some r =>
      dsimp only
      refine .bind g ?_ fun _ => ?_
      · split
        · exact .fireEach g _ _ _ _
        · exact .pure g _
      · split
        · exact .raise g _
        · exact .pure g _
        · exact .bind g (.fire g _ _ _) fun _ => .bind g (.emit g _) fun _ => .pure g _

theorem Preserves.solveScipyF (g : GoodRel pl R) (w p o) (k pass : Nat) (method : String) :
    Preserves R (solveScipyF w p o k pass method) := by
  induction k generalizing pass method with
  | zero => exact .raise g _
  | succ k ih =>
    unfold Solve.solveScipyF
    refine .bind g (.scipyPass g _ _ _ _ _) fun r => ?_
    cases r with
    | none => exact ih _ _
    | some s => exact .pure g _

theorem Preserves.linprogBlock (g : GoodRel pl R) (w a) : Preserves R (linprogBlock w a) := by
  unfold Solve.linprogBlock
  exact .tryExcept g (.bind g (.emit g _) fun _ => .bind g (.fire g _ _ _) fun _ => .pure g _) (fun _ => .pure g _)

theorem Preserves.ensureLp (g : GoodRel pl R) (w) : Preserves R (ensureLp w) := by
  unfold Solve.ensureLp
  refine .bind g (.getState g) fun s => ?_
  split
  · exact .pure g _
  · exact .tryExcept g (.bind g (.fire g _ _ _) fun _ => fun s => g.lp true s) (fun _ => .raise g _)

theorem Preserves.solveLP (g : GoodRel pl R) (w p m strict) : Preserves R (solveLP w p m strict) := by
  unfold Solve.solveLP
  split
  · exact .raise g _
  · refine .bind g (.fire g _ _ _) fun _ => ?_
    split
    · exact .raise g _
    · split
      · exact .raise g _
      · refine .bind g (.fire g _ _ _) fun _ => .bind g (.guard g _ _ _ _ _) fun _ =>
          .bind g (.ensureLp g _) fun _ => .bind g (.linprogBlock g _ _) fun r? => ?_
        cases r? with
        | none => exact .pure g _
        | some r =>
          dsimp only
          split
          · exact .pure g _
          · exact .raise g _

theorem Preserves.isLinearProblem (w) (p : Problem) (g : GoodRel p.isLinear R) : Preserves R (isLinearProblem w p) := by
  unfold Solve.isLinearProblem
  refine .bind g (.getState g) fun s => ?_
  split
  · exact .pure g _
  · exact .bind g (.fire g _ _ _) fun _ => .bind g (fun s => g.lin s) fun _ => .pure g _

theorem Preserves.solve (w) (p : Problem) (o) (g : GoodRel p.isLinear R) : Preserves R (solve w p o) := by
  unfold Solve.solve
  split
  · exact .raise g _
  · refine .bind g ?_ fun lin => .bind g ?_ fun _ => ?_
    · split
      · exact .isLinearProblem w p g
      · exact .pure g _
    · split
      · exact .fire g _ _ _
      · exact .pure g _
    · split
      · exact .solveLP g _ _ _ _
      · exact .solveScipyF g _ _ _ _ _ _

/-! instances -/
def hookRel (a b : PState) : Prop := b.hook = a.hook
def reclimitRel (a b : PState) : Prop := b.reclimit = a.reclimit
def validRel (a b : PState) : Prop := CacheValid a → CacheValid b
/-- `_is_linear_cache`, when set, holds the problem's true verdict -/
def LinOk (pl : Bool) (s : PState) : Prop := ∀ b, s.linCache = some b → b = pl
def linRel (pl : Bool) (a b : PState) : Prop := LinOk pl a → LinOk pl b

theorem hookRel_good (pl) : GoodRel pl hookRel := by
  constructor <;> simp [hookRel]
  · intro a b c h1 h2; rw [h2, h1]

theorem reclimitRel_good (pl) : GoodRel pl reclimitRel := by
  constructor <;> simp [reclimitRel]
  · intro a b c h1 h2; rw [h2, h1]

theorem validRel_good (pl) : GoodRel pl validRel := by
  constructor
  · intro s h; exact h
  · intro a b c h1 h2 h; exact h2 (h1 h)
  · intro ev s h; exact h
  · intro s h; exact h
  · intro b s h; exact h
  · intro s h; exact h
  · intro s _; simp [CacheValid, builtKeys]
  · intro s ks k hc h
    simp only [CacheValid, hc] at h
    simp only [CacheValid, List.contains_eq_mem, List.mem_append, decide_eq_true_eq] at h ⊢
    simp_all
  · intro s s2 h hh hv; exact hh hv

theorem linRel_good (pl) : GoodRel pl (linRel pl) := by
  constructor
  · intro s h; exact h
  · intro a b c h1 h2 h; exact h2 (h1 h)
  · intro ev s h; exact h
  · intro s h; exact h
  · intro b s h; exact h
  · intro s _ b hb; simp at hb; exact hb.symm
  · intro s h; exact h
  · intro s ks k _ h; exact h
  · intro s s2 h hh hv; exact hh hv

/-! ### fault-free runs are determined by the pure functional form -/

def Inv (pl : Bool) (s : PState) : Prop := CacheValid s ∧ LinOk pl s
def InvC (pl : Bool) (s : PState) : Prop := Inv pl s ∧ s.solverCache.isSome = true

/-- from any state satisfying `P`, `m` returns `r`, appends exactly `evs`, and ends in `Q` -/
def Det {α} (P Q : PState → Prop) (m : M α) (r : Res α) (evs : List Event) : Prop :=
  ∀ s, P s → (m s).1 = r ∧ (m s).2.trace = s.trace ++ evs ∧ Q (m s).2

theorem Det.pure {α} {P : PState → Prop} (a : α) : Det P P (pure a : M α) (.ok a) [] :=
  fun s h => ⟨rfl, by simp [Pure.pure, M.pure], h⟩
theorem Det.raise {α} {P : PState → Prop} (e : Exc) : Det P P (raise e : M α) (.exc e) [] :=
  fun s h => ⟨rfl, by simp [Solve.raise], h⟩
theorem Det.bind_ok {α β} {P Q T : PState → Prop} {m : M α} {f : α → M β} {a : α} {r : Res β} {e1 e2 : List Event}
    (hm : Det P Q m (.ok a) e1) (hf : Det Q T (f a) r e2) : Det P T (m >>= f) r (e1 ++ e2) := by
  intro s hs
  obtain ⟨h1, h2, h3⟩ := hm s hs
  rw [bind_apply]
  cases hms : m s with | mk r' s' =>
  rw [hms] at h1 h2 h3
  dsimp only at h1 h2 h3
  subst h1
  obtain ⟨g1, g2, g3⟩ := hf s' h3
  exact ⟨g1, by rw [g2, h2, List.append_assoc], g3⟩
theorem Det.bind_exc {α β} {P Q : PState → Prop} {m : M α} {f : α → M β} {e : Exc} {e1 : List Event}
    (hm : Det P Q m (.exc e) e1) : Det P Q (m >>= f) (.exc e) e1 := by
  intro s hs
  obtain ⟨h1, h2, h3⟩ := hm s hs
  rw [bind_apply]
  cases hms : m s with | mk r' s' =>
  rw [hms] at h1 h2 h3
  dsimp only at h1 h2 h3
  subst h1
  exact ⟨rfl, h2, h3⟩
theorem Det.weaken {α} {P P' Q Q' : PState → Prop} {m : M α} {r evs}
    (h : Det P Q m r evs) (hp : ∀ s, P' s → P s) (hq : ∀ s, Q s → Q' s) : Det P' Q' m r evs :=
  fun s hs => let ⟨a, b, c⟩ := h s (hp s hs); ⟨a, b, hq _ c⟩

theorem fire_none (p : Nat) (st : Step) : fire none p st = (pure () : M Unit) := rfl

theorem fireAll_none (p : Nat) (l : List Step) : fireAll none p l = (pure () : M Unit) := by
  induction l with
  | nil => rfl
  | cons a t ih => unfold fireAll; rw [fire_none, ih]; rfl

theorem fireEach_none (p : Nat) (mk : Nat → List Step) (l : List Nat) : fireEach none p mk l = (pure () : M Unit) := by
  induction l with
  | nil => rfl
  | cons a t ih => unfold fireEach; rw [fireAll_none, ih]; rfl

theorem Det.emit {P : PState → Prop} (ev : Event) (hP : ∀ s, P s → P { s with trace := s.trace ++ [ev] }) :
    Det P P (emit ev) (.ok ()) [ev] :=
  fun s h => ⟨rfl, rfl, hP s h⟩

theorem inv_trace {pl s} (t : List Event) (h : Inv pl s) : Inv pl { s with trace := t } := h
theorem invC_trace {pl s} (t : List Event) (h : InvC pl s) : InvC pl { s with trace := t } := h

theorem Det.guard {P : PState → Prop} (hP : ∀ s t, P s → P { s with trace := t })
    (w : World) (hw : w.fault = none) (pass solver strict vars) :
    Det P P (guard w pass solver strict vars)
      (match (guardPure solver strict vars).1 with | some e => .exc e | none => .ok ())
      (guardPure solver strict vars).2 := by
  unfold Solve.guard guardPure
  dsimp only
  split
  · exact .pure _
  · split
    · exact .raise _
    · rw [hw, fire_none]
      exact Det.bind_ok (Det.pure ()) (Det.emit _ (fun s h => hP s _ h))

/-! ### run equations -/

theorem pure_apply {α} (a : α) (s : PState) : (pure a : M α) s = (.ok a, s) := rfl

theorem ensureCache_some (w : World) (pass) (p : Problem) (s : PState) (ks) (hc : s.solverCache = some ks) :
    ensureCache w pass p s = (.ok (), s) := by
  unfold ensureCache
  rw [bind_apply]
  simp only [getState, hc]
  rfl

theorem ensureCache_none (w : World) (hw : w.fault = none) (pass) (p : Problem) (ho : p.hasObjective = true)
    (s : PState) (hc : s.solverCache = none) :
    ensureCache w pass p s = (.ok (), { s with solverCache := some builtKeys }) := by
  unfold ensureCache
  rw [bind_apply]
  simp only [getState, hc, ho, hw, fire_none, fireEach_none]
  rfl

theorem useCache_valid (s : PState) (ks) (hc : s.solverCache = some ks)
    (h1 : ks.contains .objFn = true) (h2 : ks.contains .gradFn = true) (h3 : ks.contains .scipyConstraints = true)
    (h4 : ks.contains .bounds = true) : useCache s = (.ok (), s) := by
  unfold useCache
  rw [bind_apply]
  simp only [getState, hc, h1, h2, h3, h4]
  rfl

theorem ensureHess_off (w : World) (pass o method) (s : PState) (h : hessFlag o method = false) :
    ensureHess w pass o method s = (.ok false, s) := by
  unfold ensureHess
  unfold hessFlag at h
  simp only [h]
  rfl

theorem ensureHess_have (w : World) (pass o method) (s : PState) (h : hessFlag o method = true) (ks)
    (hc : s.solverCache = some ks) (hk : ks.contains .hessFn = true) :
    ensureHess w pass o method s = (.ok true, s) := by
  unfold ensureHess
  unfold hessFlag at h
  simp only [h, if_true]
  rw [bind_apply]
  simp only [getState, hc, hk]
  rfl

theorem ensureHess_add (w : World) (hw : w.fault = none) (pass o method) (s : PState) (h : hessFlag o method = true) (ks)
    (hc : s.solverCache = some ks) (hk : ks.contains .hessFn = false) :
    ensureHess w pass o method s = (.ok true, { s with solverCache := some (ks ++ [.hessFn]) }) := by
  unfold ensureHess
  unfold hessFlag at h
  simp only [h, if_true]
  rw [bind_apply]
  simp only [getState, hc, hk, hw, fire_none]
  rfl

theorem minimizeBlock_none (w : World) (hw : w.fault = none) (pass a) (s : PState) :
    minimizeBlock w pass a s =
      (.ok (some (if pass == 0 then w.r1 else w.r2)), { s with trace := s.trace ++ [.minimizeCall a] }) := by
  unfold minimizeBlock withHook tryExcept minimizeCall
  simp only [hw, fire_none]
  rfl


/-! ### fault-free runs = the pure functional form -/


theorem builtKeys_valid (s : PState) : CacheValid { s with solverCache := some builtKeys } := by
  simp [CacheValid, builtKeys]

theorem Det.congr {α} {P Q : PState → Prop} {m : M α} {r r' : Res α} {evs evs' : List Event}
    (h : Det P Q m r evs) (hr : r = r') (he : evs = evs') : Det P Q m r' evs' := by
  subst hr; subst he; exact h

theorem Det.bind_ok' {α β} {P Q T : PState → Prop} {m : M α} {f : α → M β} {a : α} {r : Res β}
    {e1 e2 evs : List Event} (hm : Det P Q m (.ok a) e1) (hf : Det Q T (f a) r e2) (he : evs = e1 ++ e2) :
    Det P T (m >>= f) r evs := he ▸ Det.bind_ok hm hf

theorem Det.ensureCache (pl) (w : World) (hw : w.fault = none) (pass) (p : Problem) (ho : p.hasObjective = true) :
    Det (Inv pl) (InvC pl) (ensureCache w pass p) (.ok ()) [] := by
  intro s hs
  cases hc : s.solverCache with
  | some ks =>
    rw [ensureCache_some w pass p s ks hc]
    exact ⟨rfl, by simp, hs, by simp [hc]⟩
  | none =>
    rw [ensureCache_none w hw pass p ho s hc]
    exact ⟨rfl, by simp, ⟨builtKeys_valid s, hs.2⟩, rfl⟩

theorem Det.useCache (pl) : Det (InvC pl) (InvC pl) useCache (.ok ()) [] := by
  intro s hs
  obtain ⟨⟨hv, hl⟩, hsome⟩ := hs
  cases hc : s.solverCache with
  | none => simp [hc] at hsome
  | some ks =>
    have hv' := hv
    simp only [CacheValid, hc] at hv'
    rw [useCache_valid s ks hc hv'.1 hv'.2.1 hv'.2.2.1 hv'.2.2.2]
    exact ⟨rfl, by simp, ⟨hv, hl⟩, hsome⟩

theorem Det.ensureHess (pl) (w : World) (hw : w.fault = none) (pass o method) :
    Det (InvC pl) (InvC pl) (ensureHess w pass o method) (.ok (hessFlag o method)) [] := by
  intro s hs
  obtain ⟨⟨hv, hl⟩, hsome⟩ := hs
  cases hflag : hessFlag o method with
  | false =>
    rw [ensureHess_off w pass o method s hflag]
    exact ⟨rfl, by simp, ⟨hv, hl⟩, hsome⟩
  | true =>
    cases hc : s.solverCache with
    | none => simp [hc] at hsome
    | some ks =>
      cases hk : ks.contains CKey.hessFn with
      | true =>
        rw [ensureHess_have w pass o method s hflag ks hc hk]
        exact ⟨rfl, by simp, ⟨hv, hl⟩, hsome⟩
      | false =>
        rw [ensureHess_add w hw pass o method s hflag ks hc hk]
        exact ⟨rfl, by simp, ⟨(validRel_good pl).cacheAdd s ks _ hc hv, hl⟩, rfl⟩

theorem Det.minimizeBlock (pl) (w : World) (hw : w.fault = none) (pass a) :
    Det (InvC pl) (InvC pl) (minimizeBlock w pass a) (.ok (some (if pass == 0 then w.r1 else w.r2)))
      [.minimizeCall a] := by
  intro s hs
  rw [minimizeBlock_none w hw pass a s]
  exact ⟨rfl, rfl, hs⟩

theorem Det.fire_none {P : PState → Prop} (pass st) : Det P P (fire none pass st) (.ok ()) [] := Det.pure ()

/-- a pass of `solve_scipy` without faults, from a valid state: the pure form -/
theorem Det.scipyPass (pl) (w : World) (hw : w.fault = none) (p : Problem) (ho : p.hasObjective = true) (o pass method) :
    Det (Inv pl) (Inv pl) (scipyPass w p o pass method) (passPure w p o pass method).1 (passPure w p o pass method).2 := by
  unfold Solve.scipyPass passPure
  rw [hw]
  refine Det.bind_ok' (Det.fire_none _ _) ?_ (List.nil_append _).symm
  split
  · exact .pure _
  · have hg := Det.guard (P := Inv pl) (fun s t h => h) w hw pass "SciPy" o.strict p.vars
    rw [← hw]
    rcases hgp : guardPure "SciPy" o.strict p.vars with ⟨_ | e, warn⟩
    · -- the guard lets the call through
      rw [hgp] at hg
      dsimp only at hg ⊢
      have toInv : ∀ s, InvC pl s → Inv pl s := fun s h => h.1
      have hpost : ∀ (r : Res (Option Solution)) (evs : List Event),
          Det (InvC pl) (Inv pl)
            (match postPass (p.cfg o) method (if (pass == 0) = true then w.r1 else w.r2) with
              | Pass.raised e => Solve.raise e
              | Pass.done s => Pure.pure (some s)
              | Pass.retry => do
                fire w.fault pass Step.retryWarn
                Solve.emit Event.warnRetry
                Pure.pure none)
            (match postPass (p.cfg o) method (if (pass == 0) = true then w.r1 else w.r2) with
              | Pass.raised e => Res.exc e
              | Pass.done s => Res.ok (some s)
              | Pass.retry => Res.ok none)
            (match postPass (p.cfg o) method (if (pass == 0) = true then w.r1 else w.r2) with
              | Pass.retry => [Event.warnRetry]
              | _ => []) := by
        intro _ _
        cases postPass (p.cfg o) method (if (pass == 0) = true then w.r1 else w.r2) with
        | raised e => exact Det.weaken (Det.raise e) (fun _ h => h) toInv
        | done sol => exact Det.weaken (Det.pure _) (fun _ h => h) toInv
        | retry =>
          dsimp only
          rw [hw]
          refine Det.bind_ok' (Det.fire_none _ _) (Det.bind_ok' (Det.emit _ (fun s h => h)) ?_ rfl) rfl
          exact Det.weaken (Det.pure _) (fun _ h => h) toInv
      have hfire : ∀ r : ScipyResult, Det (InvC pl) (InvC pl)
          (if accepted r = true then fireEach w.fault pass (fun k => [Step.postCon k]) (List.range p.cons.length)
            else Pure.pure ()) (.ok ()) [] := by
        intro r
        rw [hw, fireEach_none]
        split <;> exact Det.pure ()
      refine Det.congr
        (r := match postPass (p.cfg o) method (if (pass == 0) = true then w.r1 else w.r2) with
              | Pass.raised e => Res.exc e
              | Pass.done s => Res.ok (some s)
              | Pass.retry => Res.ok none)
        (evs := warn ++ ([] ++ ([] ++ ([] ++ ([Event.minimizeCall (minArgs p o method (hessFlag o method))] ++ ([] ++
              match postPass (p.cfg o) method (if (pass == 0) = true then w.r1 else w.r2) with
              | Pass.retry => [Event.warnRetry]
              | _ => []))))))
        ?key ?hr ?he
      case key =>
        refine Det.bind_ok hg ?_
        refine Det.bind_ok (Det.ensureCache pl w hw pass p ho) ?_
        refine Det.bind_ok (Det.useCache pl) ?_
        refine Det.bind_ok (Det.ensureHess pl w hw pass o method) ?_
        refine Det.bind_ok (Det.minimizeBlock pl w hw pass _) ?_
        dsimp only
        refine Det.bind_ok (hfire _) ?_
        exact hpost (.ok none) []
      case hr => cases postPass (p.cfg o) method (if (pass == 0) = true then w.r1 else w.r2) <;> rfl
      case he => cases postPass (p.cfg o) method (if (pass == 0) = true then w.r1 else w.r2) <;> simp
    · rw [hgp] at hg
      dsimp only at hg ⊢
      exact Det.bind_exc hg

theorem Det.solveScipyF (pl) (w : World) (hw : w.fault = none) (p : Problem) (ho : p.hasObjective = true) (o)
    (k pass : Nat) (method : String) :
    Det (Inv pl) (Inv pl) (solveScipyF w p o k pass method) (scipyPureF w p o k pass method).1
      (scipyPureF w p o k pass method).2 := by
  induction k generalizing pass method with
  | zero => exact Det.raise _
  | succ k ih =>
    unfold Solve.solveScipyF scipyPureF
    have hp := Det.scipyPass pl w hw p ho o pass method
    rcases hpp : passPure w p o pass method with ⟨_ | e, evs⟩
    · rename_i a
      rw [hpp] at hp
      cases a with
      | none =>
        dsimp only at hp ⊢
        exact Det.bind_ok hp (ih _ _)
      | some sol =>
        dsimp only at hp ⊢
        exact Det.bind_ok' hp (Det.pure _) (List.append_nil _).symm
    · rw [hpp] at hp
      dsimp only at hp ⊢
      exact Det.bind_exc hp

theorem linprogBlock_none (w : World) (hw : w.fault = none) (a) (s : PState) :
    linprogBlock w a s = (.ok (some w.lr), { s with trace := s.trace ++ [.linprogCall a] }) := by
  unfold linprogBlock tryExcept
  simp only [hw, fire_none]
  rfl

theorem ensureLp_none (w : World) (hw : w.fault = none) (s : PState) :
    ensureLp w s = (.ok (), { s with lpCache := true }) ∨ ensureLp w s = (.ok (), s) := by
  unfold ensureLp
  rw [bind_apply]
  simp only [getState]
  cases hl : s.lpCache with
  | true => right; rfl
  | false =>
    left
    simp only [hw, fire_none]
    rfl

theorem Det.ensureLp (pl) (w : World) (hw : w.fault = none) : Det (Inv pl) (Inv pl) (ensureLp w) (.ok ()) [] := by
  intro s hs
  rcases ensureLp_none w hw s with h | h <;> rw [h]
  · exact ⟨rfl, by simp, hs⟩
  · exact ⟨rfl, by simp, hs⟩

theorem Det.linprogBlock (pl) (w : World) (hw : w.fault = none) (a) :
    Det (Inv pl) (Inv pl) (linprogBlock w a) (.ok (some w.lr)) [.linprogCall a] := by
  intro s hs
  rw [linprogBlock_none w hw a s]
  exact ⟨rfl, rfl, hs⟩

theorem Det.solveLP (pl) (w : World) (hw : w.fault = none) (p : Problem) (m strict) :
    Det (Inv pl) (Inv pl) (solveLP w p m strict) (lpPure w p m strict).1 (lpPure w p m strict).2 := by
  unfold Solve.solveLP lpPure
  split
  · exact Det.raise _
  · rw [hw]
    refine Det.bind_ok' (Det.fire_none _ _) ?_ (List.nil_append _).symm
    split
    · exact Det.raise _
    · split
      · exact Det.raise _
      · refine Det.bind_ok' (Det.fire_none _ _) ?_ (List.nil_append _).symm
        have hg := Det.guard (P := Inv pl) (fun s t h => h) w hw 0 "linprog" strict p.vars
        rcases hgp : guardPure "linprog" strict p.vars with ⟨_ | e, warn⟩
        · rw [hgp] at hg
          dsimp only at hg ⊢
          refine Det.congr
            (r := match postSolveLP p.lpInfo w.lr with | .ok s => Res.ok s | .error e => Res.exc e)
            (evs := warn ++ ([] ++ ([Event.linprogCall (linArgs p (m.getD "highs"))] ++ []))) ?key ?hr ?he
          case key =>
            refine Det.bind_ok hg ?_
            refine Det.bind_ok (Det.ensureLp pl w hw) ?_
            refine Det.bind_ok (Det.linprogBlock pl w hw _) ?_
            dsimp only
            cases postSolveLP p.lpInfo w.lr with
            | ok s => exact Det.pure _
            | error e => exact Det.raise _
          case hr => cases postSolveLP p.lpInfo w.lr <;> rfl
          case he => cases postSolveLP p.lpInfo w.lr <;> simp
        · rw [hgp] at hg
          dsimp only at hg ⊢
          exact Det.bind_exc hg

theorem Det.isLinearProblem (w : World) (hw : w.fault = none) (p : Problem) :
    Det (Inv p.isLinear) (Inv p.isLinear) (isLinearProblem w p) (.ok p.isLinear) [] := by
  intro s hs
  unfold Solve.isLinearProblem
  rw [bind_apply]
  simp only [getState]
  cases hl : s.linCache with
  | some b =>
    have : b = p.isLinear := hs.2 b hl
    subst this
    exact ⟨rfl, by simp [pure_apply], hs⟩
  | none =>
    have e : (do fire w.fault 0 Step.isLinear; setLinCache (some p.isLinear); Pure.pure p.isLinear : M Bool) s
        = (.ok p.isLinear, { s with linCache := some p.isLinear }) := by
      rw [hw]; rfl
    dsimp only
    rw [e]
    exact ⟨rfl, by simp, hs.1, (linRel_good p.isLinear).lin s hs.2⟩

/-- **the link**: without faults, from any valid cache state, the monadic model of `Problem.solve`
    returns what the pure functional form says and emits exactly its events -/
theorem solve_det (w : World) (hw : w.fault = none) (p : Problem) (o : Opts) :
    Det (Inv p.isLinear) (Inv p.isLinear) (solve w p o) (solvePure w p o).1 (solvePure w p o).2 := by
  unfold Solve.solve solvePure
  split
  · exact Det.raise _
  · rename_i ho
    simp only [Bool.not_eq_true, Bool.not_eq_false'] at ho
    have ho' : p.hasObjective = true := by cases h : p.hasObjective <;> simp_all
    by_cases hm : o.method = "auto"
    · -- auto: the cached / computed linearity verdict decides
      simp only [hm, beq_self_eq_true, ↓reduceIte, Bool.true_and]
      refine Det.bind_ok' (Det.isLinearProblem w hw p) ?_ (List.nil_append _).symm
      refine Det.bind_ok' (a := ()) (e1 := []) (Q := Inv p.isLinear) ?_ ?_ (List.nil_append _).symm
      · rw [hw]; split <;> exact Det.pure ()
      · cases route "auto" p.isLinear p.objDeg (List.map (fun x => x.deg) p.cons) with
        | lp m => exact Det.solveLP _ w hw p m o.strict
        | scipy m => exact Det.solveScipyF _ w hw p ho' o 2 0 m
    · have hne : (o.method == "auto") = false := by simpa using hm
      simp only [hne, Bool.false_and, Bool.false_eq_true, ↓reduceIte]
      refine Det.bind_ok' (a := false) (e1 := []) (Q := Inv p.isLinear) (Det.pure _) ?_ (List.nil_append _).symm
      refine Det.bind_ok' (a := ()) (e1 := []) (Q := Inv p.isLinear) (Det.pure _) ?_ (List.nil_append _).symm
      have hr : route o.method false p.objDeg (List.map (fun x => x.deg) p.cons)
          = route o.method p.isLinear p.objDeg (List.map (fun x => x.deg) p.cons) := by
        unfold route; simp [hne]
      rw [hr]
      cases route o.method p.isLinear p.objDeg (List.map (fun x => x.deg) p.cons) with
      | lp m => exact Det.solveLP _ w hw p m o.strict
      | scipy m => exact Det.solveScipyF _ w hw p ho' o 2 0 m



/-! ### what happens once the injected fault has fired -/

/-- shape of a result after the fault `f` fired: it propagates, unless it is an `Exception` raised
    inside `minimize` / `linprog` (caught: a value satisfying `caught`) or inside `extract`
    (converted into SolverError) -/
def FiredOutcome {α} (f : Fault) (caught : α → Prop) (r : Res α) : Prop :=
    (r = .exc (.injected f.baseOnly) ∧
      ¬ (f.baseOnly = false ∧ (f.step = .minimize ∨ f.step = .linprog ∨ f.step = .extract)))
  ∨ (r = .exc .solverError ∧ f.step = .extract ∧ f.baseOnly = false)
  ∨ (∃ a, r = .ok a ∧ caught a ∧ (f.step = .minimize ∨ f.step = .linprog) ∧ f.baseOnly = false)

def FiredSpec {α} (fo : Option Fault) (m : M α) (caught : α → Prop) : Prop :=
  ∀ s, s.fired = false → (m s).2.fired = true → ∃ f, fo = some f ∧ FiredOutcome f caught (m s).1

/-- `m` cannot be where the fault fires (it leaves `fired` alone) -/
def Quiet {α} (m : M α) : Prop := ∀ s, (m s).2.fired = s.fired

theorem FiredSpec.of_quiet {α} {fo} {m : M α} {c} (h : Quiet m) : FiredSpec fo m c := by
  intro s h0 h1
  rw [h s, h0] at h1
  cases h1

theorem Quiet.pure {α} (a : α) : Quiet (pure a : M α) := fun _ => rfl
theorem Quiet.raise {α} (e : Exc) : Quiet (raise e : M α) := fun _ => rfl
theorem Quiet.emit (ev) : Quiet (emit ev) := fun _ => rfl

theorem hits_some {fo : Option Fault} {pass st b} (h : Fault.hits fo pass st = some b) :
    ∃ f, fo = some f ∧ f.pass = pass ∧ f.step = st ∧ f.baseOnly = b := by
  unfold Fault.hits at h
  cases fo with
  | none => simp at h
  | some f =>
    simp only at h
    split at h
    · rename_i hc
      simp only [Bool.and_eq_true, beq_iff_eq] at hc
      simp only [Option.some.injEq] at h
      exact ⟨f, rfl, hc.1, hc.2, h⟩
    · simp at h

def Step.plain (st : Step) : Prop := st ≠ .minimize ∧ st ≠ .linprog ∧ st ≠ .extract

theorem FiredSpec.fire {fo pass st} (hst : Step.plain st) {c : Unit → Prop} : FiredSpec fo (fire fo pass st) c := by
  intro s h0 h1
  simp only [Solve.fire] at h1 ⊢
  cases hh : Fault.hits fo pass st with
  | none => simp [hh, h0] at h1
  | some b =>
    obtain ⟨f, hf, _, hs, hb⟩ := hits_some hh
    refine ⟨f, hf, Or.inl ⟨by simp [hb], ?_⟩⟩
    rintro ⟨_, h | h | h⟩
    · exact hst.1 (hs ▸ h)
    · exact hst.2.1 (hs ▸ h)
    · exact hst.2.2 (hs ▸ h)

/-- the bind rule: if `m` was where the fault fired and its result was a *caught* value `a`, the
    continuation must just return (it does: `return Solution(FAILED)`) -/
theorem FiredSpec.bind {α β} {fo} {m : M α} {g : α → M β} {cm : α → Prop} {cg : β → Prop}
    (hm : FiredSpec fo m cm) (hg : ∀ a, FiredSpec fo (g a) cg)
    (hc : ∀ a, cm a → ∀ s, ∃ b, g a s = (.ok b, s) ∧ cg b) : FiredSpec fo (m >>= g) cg := by
  intro s h0 h1
  have hm' := hm s h0
  rw [bind_apply] at h1 ⊢
  generalize m s = ms at h1 hm' ⊢
  obtain ⟨r, s'⟩ := ms
  cases hf : s'.fired with
  | false =>
    cases r with
    | ok a => exact hg a s' hf h1
    | exc e => simp only [hf] at h1; cases h1
  | true =>
    obtain ⟨f, hfo, hout⟩ := hm' hf
    refine ⟨f, hfo, ?_⟩
    rcases hout with ⟨hr, hn⟩ | ⟨hr, h2⟩ | ⟨a, hr, hca, h2⟩
    · simp only at hr; subst hr; exact Or.inl ⟨rfl, hn⟩
    · simp only at hr; subst hr; exact Or.inr (Or.inl ⟨rfl, h2⟩)
    · simp only at hr; subst hr
      obtain ⟨b, hb, hcb⟩ := hc a hca s'
      simp only [hb]
      exact Or.inr (Or.inr ⟨b, rfl, hcb, h2⟩)

/-- version for steps that are never "caught" -/
theorem FiredSpec.seq {α β} {fo} {m : M α} {g : α → M β} {cg : β → Prop}
    (hm : FiredSpec fo m (fun _ => False)) (hg : ∀ a, FiredSpec fo (g a) cg) : FiredSpec fo (m >>= g) cg :=
  FiredSpec.bind hm hg (fun _ h => h.elim)

theorem FiredSpec.ite {α} {fo} {c : Prop} [Decidable c] {a b : M α} {cc}
    (ha : FiredSpec fo a cc) (hb : FiredSpec fo b cc) : FiredSpec fo (if c then a else b) cc := by
  split <;> assumption

theorem FiredSpec.fireAll {fo pass} (l : List Step) (hl : ∀ st ∈ l, Step.plain st) :
    FiredSpec fo (fireAll fo pass l) (fun _ => False) := by
  induction l with
  | nil => exact .of_quiet (.pure _)
  | cons a t ih =>
    unfold Solve.fireAll
    exact .seq (.fire (hl a (by simp))) (fun _ => ih (fun st h => hl st (by simp [h])))

theorem FiredSpec.fireEach {fo pass} (mk : Nat → List Step) (hmk : ∀ k, ∀ st ∈ mk k, Step.plain st) (l : List Nat) :
    FiredSpec fo (fireEach fo pass mk l) (fun _ => False) := by
  induction l with
  | nil => exact .of_quiet (.pure _)
  | cons a t ih =>
    unfold Solve.fireEach
    exact .seq (.fireAll _ (hmk a)) (fun _ => ih)

theorem minimizeBlock_miss (w : World) (pass a) (s : PState) (h : Fault.hits w.fault pass .minimize = none) :
    minimizeBlock w pass a s =
      (.ok (some (if pass == 0 then w.r1 else w.r2)), { s with trace := s.trace ++ [.minimizeCall a] }) := by
  unfold minimizeBlock withHook tryExcept minimizeCall
  simp only [bind_apply, Solve.emit, Solve.fire, h]
  rfl

theorem minimizeBlock_hit (w : World) (pass a) (s : PState) (b) (h : Fault.hits w.fault pass .minimize = some b) :
    minimizeBlock w pass a s =
      (if b then .exc (.injected true) else .ok none,
        { s with trace := s.trace ++ [.minimizeCall a], fired := true }) := by
  unfold minimizeBlock withHook tryExcept minimizeCall
  simp only [bind_apply, Solve.emit, Solve.fire, h]
  cases b <;> rfl

theorem FiredSpec.minimizeBlock (w : World) (pass a) :
    FiredSpec w.fault (minimizeBlock w pass a) (fun r? => r? = none) := by
  intro s h0 h1
  cases hh : Fault.hits w.fault pass .minimize with
  | none => rw [minimizeBlock_miss w pass a s hh] at h1; simp [h0] at h1
  | some b =>
    obtain ⟨f, hf, _, hs, hb⟩ := hits_some hh
    rw [minimizeBlock_hit w pass a s b hh]
    refine ⟨f, hf, ?_⟩
    cases b with
    | true => exact Or.inl ⟨by simp [hb], by simp [hb]⟩
    | false => exact Or.inr (Or.inr ⟨none, rfl, rfl, Or.inl hs, hb⟩)

theorem linprogBlock_miss (w : World) (a) (s : PState) (h : Fault.hits w.fault 0 .linprog = none) :
    linprogBlock w a s = (.ok (some w.lr), { s with trace := s.trace ++ [.linprogCall a] }) := by
  unfold linprogBlock tryExcept
  simp only [bind_apply, Solve.emit, Solve.fire, h]
  rfl

theorem linprogBlock_hit (w : World) (a) (s : PState) (b) (h : Fault.hits w.fault 0 .linprog = some b) :
    linprogBlock w a s =
      (if b then .exc (.injected true) else .ok none,
        { s with trace := s.trace ++ [.linprogCall a], fired := true }) := by
  unfold linprogBlock tryExcept
  simp only [bind_apply, Solve.emit, Solve.fire, h]
  cases b <;> rfl

theorem FiredSpec.linprogBlock (w : World) (a) :
    FiredSpec w.fault (linprogBlock w a) (fun r? => r? = none) := by
  intro s h0 h1
  cases hh : Fault.hits w.fault 0 .linprog with
  | none => rw [linprogBlock_miss w a s hh] at h1; simp [h0] at h1
  | some b =>
    obtain ⟨f, hf, _, hs, hb⟩ := hits_some hh
    rw [linprogBlock_hit w a s b hh]
    refine ⟨f, hf, ?_⟩
    cases b with
    | true => exact Or.inl ⟨by simp [hb], by simp [hb]⟩
    | false => exact Or.inr (Or.inr ⟨none, rfl, rfl, Or.inr hs, hb⟩)

theorem ensureLp_run (w : World) (s : PState) :
    ensureLp w s =
      if s.lpCache then (.ok (), s)
      else match Fault.hits w.fault 0 .extract with
        | none => (.ok (), { s with lpCache := true })
        | some b => (if b then .exc (.injected true) else .exc .solverError, { s with fired := true }) := by
  unfold ensureLp
  rw [bind_apply]
  simp only [getState]
  by_cases hl : s.lpCache = true
  · simp only [hl, ↓reduceIte]; rfl
  · simp only [hl, tryExcept, bind_apply, Solve.fire, Bool.false_eq_true, ↓reduceIte]
    cases Fault.hits w.fault 0 .extract with
    | none => rfl
    | some b => cases b <;> rfl

theorem FiredSpec.ensureLp (w : World) : FiredSpec w.fault (ensureLp w) (fun _ => False) := by
  intro s h0 h1
  rw [ensureLp_run] at h1 ⊢
  cases hl : s.lpCache with
  | true => simp [hl, h0] at h1
  | false =>
    simp only [hl, Bool.false_eq_true, ↓reduceIte] at h1 ⊢
    cases hh : Fault.hits w.fault 0 .extract with
    | none => simp [hh, h0] at h1
    | some b =>
      obtain ⟨f, hf, _, hs, hb⟩ := hits_some hh
      refine ⟨f, hf, ?_⟩
      cases b with
      | true => exact Or.inl ⟨by simp [hb], by simp [hb]⟩
      | false => exact Or.inr (Or.inl ⟨rfl, hs, hb⟩)

theorem Quiet.getState : Quiet getState := fun _ => rfl
theorem Quiet.setSolverCache (c) : Quiet (setSolverCache c) := fun _ => rfl
theorem Quiet.setLinCache (c) : Quiet (setLinCache c) := fun _ => rfl

theorem plain_of_ne {st : Step} (h1 : st ≠ .minimize) (h2 : st ≠ .linprog) (h3 : st ≠ .extract) : Step.plain st :=
  ⟨h1, h2, h3⟩

macro "plain_step" : tactic => `(tactic| (refine plain_of_ne ?_ ?_ ?_ <;> (intro h; cases h)))

theorem FiredSpec.guard (w pass solver strict vars) :
    FiredSpec w.fault (guard w pass solver strict vars) (fun _ => False) := by
  unfold Solve.guard
  dsimp only
  split
  · exact .of_quiet (.pure _)
  · split
    · exact .of_quiet (.raise _)
    · exact .seq (.fire (by plain_step)) (fun _ => .of_quiet (.emit _))

theorem FiredSpec.ensureCache (w pass p) : FiredSpec w.fault (ensureCache w pass p) (fun _ => False) := by
  unfold Solve.ensureCache
  refine .seq (.of_quiet .getState) (fun s => ?_)
  split
  · exact .of_quiet (.pure _)
  · split
    · exact .of_quiet (.raise _)
    · refine .seq (.fire (by plain_step)) fun _ => .seq (.fire (by plain_step)) fun _ =>
        .seq (.fireEach _ ?_ _) fun _ => .of_quiet (.setSolverCache _)
      intro k st hst
      simp only [List.mem_cons, List.mem_nil_iff, or_false] at hst
      rcases hst with rfl | rfl <;> plain_step

theorem FiredSpec.useCache (fo) : FiredSpec fo useCache (fun _ => False) := by
  unfold Solve.useCache
  refine .seq (.of_quiet .getState) (fun s => ?_)
  split
  · exact .of_quiet (.raise _)
  · split
    · split
      · exact .of_quiet (.pure _)
      · exact .of_quiet (.setSolverCache _)
    · exact .of_quiet (.raise _)

theorem FiredSpec.ensureHess (w pass o method) : FiredSpec w.fault (ensureHess w pass o method) (fun _ => False) := by
  unfold Solve.ensureHess
  split
  · refine .seq (.of_quiet .getState) (fun s => ?_)
    split
    · exact .of_quiet (.raise _)
    · split
      · exact .of_quiet (.pure _)
      · exact .seq (.fire (by plain_step)) fun _ => .seq (.of_quiet (.setSolverCache _)) fun _ => .of_quiet (.pure _)
  · exact .of_quiet (.pure _)

theorem FiredSpec.scipyPass (w p o pass method) :
    FiredSpec w.fault (scipyPass w p o pass method) (fun r => r = some failedSolution) := by
  unfold Solve.scipyPass
  refine .seq (.fire (by plain_step)) fun _ => ?_
  split
  · exact .of_quiet (.pure _)
  · refine .seq (.guard _ _ _ _ _) fun _ => .seq (.ensureCache _ _ _) fun _ => .seq (.useCache _) fun _ =>
      .seq (.ensureHess _ _ _ _) fun useHess => .bind (.minimizeBlock _ _ _) (fun r? => ?_) ?_
    · cases r? with
      | none => exact .of_quiet (.pure _)
      | some r =>
        dsimp only
        refine .seq ?_ fun _ => ?_
        · split
          · refine .fireEach _ ?_ _
            intro k st hst
            simp only [List.mem_cons, List.mem_nil_iff, or_false] at hst
            subst hst; plain_step
          · exact .of_quiet (.pure _)
        · split
          · exact .of_quiet (.raise _)
          · exact .of_quiet (.pure _)
          · exact .seq (.fire (by plain_step)) fun _ => .seq (.of_quiet (.emit _)) fun _ => .of_quiet (.pure _)
    · intro a ha s
      subst ha
      exact ⟨_, rfl, rfl⟩

theorem FiredSpec.solveScipyF (w p o) (k pass : Nat) (method : String) :
    FiredSpec w.fault (solveScipyF w p o k pass method) (fun sol => sol = failedSolution) := by
  induction k generalizing pass method with
  | zero => exact .of_quiet (.raise _)
  | succ k ih =>
    unfold Solve.solveScipyF
    refine .bind (.scipyPass _ _ _ _ _) (fun r => ?_) ?_
    · cases r with
      | none => exact ih _ _
      | some sol => exact .of_quiet (.pure _)
    · intro a ha s
      subst ha
      exact ⟨_, rfl, rfl⟩

theorem FiredSpec.solveLP (w p m strict) :
    FiredSpec w.fault (solveLP w p m strict) (fun sol => sol = failedSolution) := by
  unfold Solve.solveLP
  split
  · exact .of_quiet (.raise _)
  · refine .seq (.fire (by plain_step)) fun _ => ?_
    split
    · exact .of_quiet (.raise _)
    · split
      · exact .of_quiet (.raise _)
      · refine .seq (.fire (by plain_step)) fun _ => .seq (.guard _ _ _ _ _) fun _ => .seq (.ensureLp _) fun _ =>
          .bind (.linprogBlock _ _) (fun r? => ?_) ?_
        · cases r? with
          | none => exact .of_quiet (.pure _)
          | some r =>
            dsimp only
            split
            · exact .of_quiet (.pure _)
            · exact .of_quiet (.raise _)
        · intro a ha s
          subst ha
          exact ⟨_, rfl, rfl⟩

theorem FiredSpec.isLinearProblem (w p) : FiredSpec w.fault (isLinearProblem w p) (fun _ => False) := by
  unfold Solve.isLinearProblem
  refine .seq (.of_quiet .getState) (fun s => ?_)
  split
  · exact .of_quiet (.pure _)
  · exact .seq (.fire (by plain_step)) fun _ => .seq (.of_quiet (.setLinCache _)) fun _ => .of_quiet (.pure _)

theorem FiredSpec.solve (w p o) : FiredSpec w.fault (solve w p o) (fun sol => sol = failedSolution) := by
  unfold Solve.solve
  split
  · exact .of_quiet (.raise _)
  · refine .seq ?_ fun lin => .seq ?_ fun _ => ?_
    · split
      · exact .isLinearProblem _ _
      · exact .of_quiet (.pure _)
    · split
      · exact .fire (by plain_step)
      · exact .of_quiet (.pure _)
    · split
      · exact .solveLP _ _ _ _
      · exact .solveScipyF _ _ _ _ _ _


/-! ### reading results off the pure form -/

theorem lookup_mem {α β} [BEq α] (k : α) (l : List (α × β)) (v : β) (h : l.lookup k = some v) :
    ∃ k', (k', v) ∈ l := by
  induction l with
  | nil => simp [List.lookup] at h
  | cons p t ih =>
    obtain ⟨k', v'⟩ := p
    simp only [List.lookup] at h
    split at h
    · injection h with h; subst h; exact ⟨k', by simp⟩
    · obtain ⟨k'', hk⟩ := ih h; exact ⟨k'', by simp [hk]⟩

/-- no entry of the regenerated linprog status table maps to OPTIMAL -/
theorem lpStatusMap_never_optimal :
    ∀ p ∈ Generated.lpStatusMap, (Status.ofName p.2).getD .failed ≠ .optimal := by decide

theorem lpStatus_optimal {r : LPResult} (h : lpStatus r = .optimal) : r.success = true := by
  unfold lpStatus at h
  cases hs : r.success with
  | true => rfl
  | false =>
    simp only [hs, Bool.false_eq_true, ↓reduceIte] at h
    split at h
    · rename_i n hn
      obtain ⟨k, hk⟩ := lookup_mem _ _ _ hn
      exact absurd h (lpStatusMap_never_optimal _ hk)
    · cases h

theorem lpPure_ok (w : World) (p : Problem) (m : Option String) (strict : Bool) (sol : Solution)
    (h : (lpPure w p m strict).1 = .ok sol) : postSolveLP p.lpInfo w.lr = .ok sol := by
  unfold lpPure at h
  split at h
  · cases h
  · split at h
    · cases h
    · split at h
      · cases h
      · split at h
        · cases h
        · dsimp only at h
          split at h
          · rename_i s hs
            injection h with h; subst h; exact hs
          · cases h

theorem passPure_ok (w : World) (p : Problem) (o : Opts) (pass : Nat) (m : String) (a : Option Solution)
    (h : (passPure w p o pass m).1 = .ok a) :
    a = some failedSolution ∨
      (∃ s, a = some s ∧ postPass (p.cfg o) m (if pass == 0 then w.r1 else w.r2) = .done s) ∨
      (a = none ∧ postPass (p.cfg o) m (if pass == 0 then w.r1 else w.r2) = .retry) := by
  unfold passPure at h
  split at h
  · injection h with h; left; exact h.symm
  · split at h
    · cases h
    · dsimp only at h
      split at h
      · cases h
      · rename_i s hs
        injection h with h
        right; left; exact ⟨s, h.symm, hs⟩
      · rename_i hs
        injection h with h
        right; right; exact ⟨h.symm, hs⟩

theorem scipyPure_ok (w : World) (p : Problem) (o : Opts) (m : String) (sol : Solution)
    (h : (scipyPure w p o m).1 = .ok sol) :
    sol = failedSolution ∨ postSolveScipy (p.cfg o) m w.r1 w.r2 = .done sol := by
  unfold scipyPure at h
  simp only [scipyPureF] at h
  rcases hp1 : passPure w p o 0 m with ⟨r1, ev1⟩
  rw [hp1] at h
  cases r1 with
  | exc e => cases h
  | ok a1 =>
    have h1 := passPure_ok w p o 0 m a1 (by rw [hp1])
    simp only [beq_self_eq_true, ↓reduceIte] at h1
    cases a1 with
    | some s1 =>
      dsimp only at h
      injection h with h; subst h
      rcases h1 with h1 | ⟨s, hs, hd⟩ | ⟨hn, _⟩
      · left; injection h1
      · right
        injection hs with hs; subst hs
        unfold postSolveScipy
        simp only [postSolveScipyF, hd]
      · cases hn
    | none =>
      dsimp only at h
      rcases h1 with h1 | ⟨s, hs, _⟩ | ⟨_, hretry⟩
      · cases h1
      · cases hs
      · rcases hp2 : passPure w p o (0 + 1) "trust-constr" with ⟨r2, ev2⟩
        rw [hp2] at h
        cases r2 with
        | exc e => cases h
        | ok a2 =>
          have h2 := passPure_ok w p o (0 + 1) "trust-constr" a2 (by rw [hp2])
          have hb : ((0 + 1 : Nat) == 0) = false := by decide
          simp only [hb, Bool.false_eq_true, ↓reduceIte] at h2
          cases a2 with
          | some s2 =>
            dsimp only at h
            injection h with h; subst h
            rcases h2 with h2 | ⟨s, hs, hd⟩ | ⟨hn, _⟩
            · left; injection h2
            · right
              injection hs with hs; subst hs
              unfold postSolveScipy
              simp only [postSolveScipyF, hretry, hd]
            · cases hn
          | none =>
            dsimp only at h
            cases h

end Optyx.Py.Solve
