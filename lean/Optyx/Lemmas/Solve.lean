/-
  Optyx.Lemmas.Solve — helper lemmas for the solver-glue model (`Py/Solve.lean`):
    * arithmetic of the scaled tolerance, "not flagged ⇒ within tolerance";
    * the values dict (`valuesOf`) for distinct names;
    * a small calculus for the state+exception monad `M`:
        `Preserves R m`   every step respects a state relation `R` (hook, recursion limit, cache validity, …)
        `Det P Q m r evs` from `P`, `m` returns `r`, appends exactly `evs`, ends in `Q` (fault-free runs);
    * run equations of the individual steps.
  Core Lean only.
-/
import Optyx.Py.Solve

namespace Optyx.Py.Solve

/-! ### numbers, tolerances -/


theorem absQ_neg (a : Rat) : absQ (-a) = absQ a := by
  unfold absQ; split <;> split <;> grind

theorem absQ_nonneg (a : Rat) : 0 ≤ absQ a := by unfold absQ; split <;> grind
theorem le_maxQ_left (a b : Rat) : a ≤ maxQ a b := by unfold maxQ; split <;> grind
theorem le_maxQ_right (a b : Rat) : b ≤ maxQ a b := by unfold maxQ; split <;> grind

def ConOk (atol rtol : Rat) (u : UCon) (x : List Rat) : Prop :=
  match u.sense with
  | .ge => -(u.g x) ≤ scaledTol atol rtol (u.g x)
  | .le => u.g x ≤ scaledTol atol rtol (u.g x)
  | .eq => absQ (u.g x) ≤ scaledTol atol rtol (u.g x)

theorem conOk_of_not_violated (atol rtol : Rat) (u : UCon) (x : List Rat)
    (h : conViolated atol rtol (toScipy u) x = false) : ConOk atol rtol u x := by
  unfold ConOk
  cases u with | mk sense g =>
  cases sense <;> simp only [toScipy, conViolated] at h ⊢
  · -- le
    simp only [scaledTol, absQ_neg] at h ⊢
    grind
  · simp only [scaledTol] at h ⊢
    grind
  · simp only [scaledTol] at h ⊢
    grind


def BndOk (atol rtol : Rat) (b : Bnd) (xi : Rat) : Prop :=
  (∀ lb, b.lb = some lb → lb - scaledTol atol rtol lb ≤ xi) ∧
  (∀ ub, b.ub = some ub → xi ≤ ub + scaledTol atol rtol ub)

theorem bndOk_of_not_violated (atol rtol : Rat) (b : Bnd) (xi : Rat)
    (h : bndViolated atol rtol b xi = false) : BndOk atol rtol b xi := by
  cases b with | mk lb ub =>
  unfold BndOk
  cases lb <;> cases ub <;> simp [bndViolated, ubViolated] at h ⊢ <;> grind

theorem statusOf_optimal {r : ScipyResult} {v : Bool} (h : statusOf r v = .optimal) :
    accepted r = true ∧ v = false := by
  unfold statusOf at h
  unfold accepted
  cases hs : r.success <;> cases hv : v <;> cases hm : r.msg.maxIter <;> cases hi : r.msg.infeasible <;>
    cases hp : r.msg.posDir <;> simp_all

theorem zip_index {α β} (l : List α) (m : List β) (P : α → β → Prop)
    (h : ∀ p ∈ l.zip m, P p.1 p.2) (i : Nat) (h1 : i < l.length) (h2 : i < m.length) : P l[i] m[i] := by
  have : (l[i], m[i]) ∈ l.zip m := by
    rw [List.mem_iff_getElem]
    refine ⟨i, by simp [List.length_zip]; omega, by simp⟩
  exact h _ this

/-! ### the values dict -/


theorem dictSet_notin (d : List (String × Rat)) (k : String) (v : Rat) (h : k ∉ dictKeys d) :
    dictSet d k v = d ++ [(k, v)] := by
  induction d with
  | nil => rfl
  | cons p t ih =>
    obtain ⟨k', v'⟩ := p
    simp only [dictKeys, List.map_cons, List.mem_cons, not_or] at h
    have hne : (k' == k) = false := by
      simp only [beq_eq_false_iff_ne, ne_eq]; exact fun e => h.1 e.symm
    simp only [dictSet, hne, Bool.false_eq_true, ↓reduceIte, List.cons_append, List.cons.injEq, true_and]
    exact ih h.2

theorem foldl_dictSet (l acc : List (String × Rat)) (hn : (l.map (·.1)).Nodup)
    (hd : ∀ p ∈ l, p.1 ∉ dictKeys acc) :
    l.foldl (fun d p => dictSet d p.1 p.2) acc = acc ++ l := by
  induction l generalizing acc with
  | nil => simp
  | cons p t ih =>
    simp only [List.foldl_cons]
    rw [dictSet_notin _ _ _ (hd p (by simp))]
    simp only [List.map_cons, List.nodup_cons] at hn
    rw [ih _ hn.2]
    · simp
    · intro q hq
      simp only [dictKeys, List.map_append, List.map_cons, List.map_nil, List.mem_append, List.mem_singleton, not_or]
      refine ⟨hd q (by simp [hq]), ?_⟩
      intro e
      exact hn.1 (e ▸ List.mem_map_of_mem hq)

theorem zip_keys_nodup (names : List String) (x : List Rat) (hn : names.Nodup) :
    ((names.zip x).map (·.1)).Nodup := by
  induction names generalizing x with
  | nil => simp
  | cons n ns ih =>
    cases x with
    | nil => simp
    | cons b bs =>
      simp only [List.zip_cons_cons, List.map_cons, List.nodup_cons]
      simp only [List.nodup_cons] at hn
      refine ⟨?_, ih bs hn.2⟩
      intro hmem
      apply hn.1
      obtain ⟨p, hp, rfl⟩ := List.mem_map.mp hmem
      exact (List.of_mem_zip hp).1

theorem valuesOf_nodup (names : List String) (x : List Rat) (hn : names.Nodup) :
    valuesOf names x = names.zip x := by
  unfold valuesOf
  rw [foldl_dictSet _ _ (zip_keys_nodup names x hn) (by intro p _; simp [dictKeys])]
  simp

theorem dictGet_zip (names : List String) (x : List Rat) (hn : names.Nodup) (i : Nat)
    (h1 : i < names.length) (h2 : i < x.length) : dictGet (names.zip x) names[i] = some x[i] := by
  induction names generalizing x i with
  | nil => simp at h1
  | cons n ns ih =>
    cases x with
    | nil => simp at h2
    | cons b bs =>
      simp only [List.nodup_cons] at hn
      cases i with
      | zero => simp [dictGet]
      | succ j =>
        have hj : j < ns.length := by simpa using h1
        simp only [List.zip_cons_cons, dictGet, List.getElem_cons_succ]
        have hne : (n == ns[j]) = false := by
          simp only [beq_eq_false_iff_ne, ne_eq]
          intro e; exact hn.1 (e ▸ List.getElem_mem _)
        simp only [hne, Bool.false_eq_true, ↓reduceIte]
        exact ih bs hn.2 j (by simpa using h1) (by simpa using h2)

theorem affineAt_eq (names : List String) (c x : List Rat) (c0 : Rat) (d : List (String × Rat))
    (h : ∀ i (h1 : i < names.length) (h2 : i < x.length), dictGet d names[i] = some x[i])
    (hl : names.length ≤ x.length) (hc : c.length = names.length) :
    affineAt names c c0 d = some (dot c x + c0) := by
  induction names generalizing c x with
  | nil =>
    cases c with
    | nil => simp [affineAt, dot]; grind
    | cons _ _ => simp at hc
  | cons n ns ih =>
    cases c with
    | nil => simp at hc
    | cons a as =>
      cases x with
      | nil => simp at hl
      | cons b bs =>
        have h0 := h 0 (by simp) (by simp)
        simp only [List.getElem_cons_zero] at h0
        have ht := ih as bs (fun i h1 h2 => by
          have := h (i + 1) (by simpa using h1) (by simpa using h2)
          simpa using this) (by simpa using hl) (by simpa using hc)
        simp only [affineAt, h0, ht, dot]
        simp only [Option.bind_eq_bind, Option.bind_some, Option.pure_def, Option.some.injEq]
        grind

/-! ### the monad -/


theorem bind_apply {α β} (m : M α) (f : α → M β) (s : PState) :
    (m >>= f) s = match m s with | (.ok a, s') => f a s' | (.exc e, s') => (.exc e, s') := rfl

def Preserves {α} (R : PState → PState → Prop) (m : M α) : Prop := ∀ s, R s (m s).2

/-- what a state relation must satisfy to be respected by every step of a solve;
    `pl` = the verdict `_is_linear_problem` caches -/
structure GoodRel (pl : Bool) (R : PState → PState → Prop) : Prop where
  refl : ∀ s, R s s
  trans : ∀ a b c, R a b → R b c → R a c
  emit : ∀ ev s, R s { s with trace := s.trace ++ [ev] }
  fired : ∀ s, R s { s with fired := true }
  lp : ∀ b s, R s { s with lpCache := b }
  lin : ∀ s, R s { s with linCache := some pl }
  cacheBuilt : ∀ s, R s { s with solverCache := some builtKeys }
  cacheAdd : ∀ s ks k, s.solverCache = some ks → R s { s with solverCache := some (ks ++ [k]) }
  hookBlock : ∀ s s2 h, R { s with hook := h } s2 → R s { s2 with hook := s.hook }

variable {pl : Bool} {R : PState → PState → Prop}

theorem Preserves.pure {α} (g : GoodRel pl R) (a : α) : Preserves R (pure a : M α) := fun s => g.refl s
theorem Preserves.raise {α} (g : GoodRel pl R) (e : Exc) : Preserves R (raise e : M α) := fun s => g.refl s
theorem Preserves.bind {α β} (g : GoodRel pl R) {m : M α} {f : α → M β}
    (hm : Preserves R m) (hf : ∀ a, Preserves R (f a)) : Preserves R (m >>= f) := by
  intro s
  have h1 := hm s
  rw [bind_apply]
  cases h : m s with | mk r s' =>
  rw [h] at h1
  cases r with
  | ok a => exact g.trans _ _ _ h1 (hf a s')
  | exc e => exact h1
theorem Preserves.ite {α} {c : Prop} [Decidable c] {a b : M α}
    (ha : Preserves R a) (hb : Preserves R b) : Preserves R (if c then a else b) := by
  split <;> assumption

theorem Preserves.emit (g : GoodRel pl R) (ev : Event) : Preserves R (emit ev) := fun s => g.emit ev s
theorem Preserves.getState (g : GoodRel pl R) : Preserves R getState := fun s => g.refl s
theorem Preserves.fire (g : GoodRel pl R) (f p st) : Preserves R (fire f p st) := by
  intro s
  simp only [Solve.fire]
  cases Fault.hits f p st
  · exact g.refl s
  · exact g.fired s

theorem Preserves.fireAll (g : GoodRel pl R) (f p) (l : List Step) : Preserves R (fireAll f p l) := by
  induction l with
  | nil => exact .pure g _
  | cons a t ih => exact .bind g (.fire g _ _ _) (fun _ => ih)

theorem Preserves.fireEach (g : GoodRel pl R) (f p mk) (l : List Nat) : Preserves R (fireEach f p mk l) := by
  induction l with
  | nil => exact .pure g _
  | cons a t ih =>
    unfold Solve.fireEach
    exact .bind g (.fireAll g _ _ _) (fun _ => ih)

theorem Preserves.tryExcept {α} (g : GoodRel pl R) {body : M α} {h : Exc → M α}
    (hb : Preserves R body) (hh : ∀ e, Preserves R (h e)) : Preserves R (tryExcept body h) := by
  intro s
  have h1 := hb s
  simp only [Solve.tryExcept]
  cases hbs : body s with | mk r s' =>
  rw [hbs] at h1
  cases r with
  | ok a => exact h1
  | exc e =>
    dsimp only
    split
    · exact g.trans _ _ _ h1 (hh e s')
    · exact h1

theorem Preserves.withHook {α} (g : GoodRel pl R) {body : M α} (h : Nat)
    (hb : Preserves R body) : Preserves R (withHook h body) := by
  intro s
  simp only [Solve.withHook]
  exact g.hookBlock s _ h (hb _)

theorem Preserves.guard (g : GoodRel pl R) (w pass solver strict vars) :
    Preserves R (guard w pass solver strict vars) := by
  unfold Solve.guard
  dsimp only
  split
  · exact .pure g _
  · split
    · exact .raise g _
    · exact .bind g (.fire g _ _ _) (fun _ => .emit g _)

theorem Preserves.setBuilt (g : GoodRel pl R) : Preserves R (setSolverCache (some builtKeys)) :=
  fun s => g.cacheBuilt s

theorem Preserves.ensureCache (g : GoodRel pl R) (w pass p) : Preserves R (ensureCache w pass p) := by
  intro s
  unfold Solve.ensureCache
  rw [bind_apply]
  simp only [Solve.getState]
  cases hc : s.solverCache with
  | some ks => exact g.refl s
  | none =>
    dsimp only
    split
    · exact g.refl s
    · exact (Preserves.bind g (.fire g _ _ _) fun _ => .bind g (.fire g _ _ _) fun _ =>
        .bind g (.fireEach g _ _ _ _) fun _ => .setBuilt g) s

theorem Preserves.useCache (g : GoodRel pl R) : Preserves R useCache := by
  intro s
  unfold Solve.useCache
  rw [bind_apply]
  simp only [Solve.getState]
  cases hc : s.solverCache with
  | none => exact g.refl s
  | some ks =>
    dsimp only
    split
    · split
      · exact g.refl s
      · exact g.cacheAdd s ks _ hc
    · exact g.refl s

theorem Preserves.ensureHess (g : GoodRel pl R) (w pass o method) : Preserves R (ensureHess w pass o method) := by
  intro s
  unfold Solve.ensureHess
  split
  · rw [bind_apply]
    simp only [Solve.getState]
    cases hc : s.solverCache with
    | none => exact g.refl s
    | some ks =>
      dsimp only
      split
      · exact g.refl s
      · rw [bind_apply]
        simp only [Solve.fire]
        cases Fault.hits w.fault pass .compileHess with
        | some b => exact g.fired s
        | none => exact g.cacheAdd s ks _ hc
  · exact g.refl s

theorem Preserves.minimizeBlock (g : GoodRel pl R) (w pass a) : Preserves R (minimizeBlock w pass a) := by
  unfold Solve.minimizeBlock
  refine .withHook g _ (.tryExcept g ?_ (fun _ => .pure g _))
  unfold Solve.minimizeCall
  exact .bind g (.emit g _) fun _ => .bind g (.fire g _ _ _) fun _ => .pure g _

theorem Preserves.scipyPass (g : GoodRel pl R) (w p o pass method) : Preserves R (scipyPass w p o pass method) := by
  unfold Solve.scipyPass
  refine .bind g (.fire g _ _ _) fun _ => ?_
  split
  · exact .pure g _
  · refine .bind g (.guard g _ _ _ _ _) fun _ => .bind g (.ensureCache g _ _ _) fun _ =>
      .bind g (.useCache g) fun _ => .bind g (.ensureHess g _ _ _ _) fun _ =>
      .bind g (.minimizeBlock g _ _ _) fun r? => ?_
    cases r? with
    | none => exact .pure g _
    | some r =>
      dsimp only
      refine .bind g ?_ fun _ => ?_
      · split
        · exact .fireEach g _ _ _ _
        · exact .pure g _
      · split
        · exact .raise g _
        · exact .pure g _
        · exact .bind g (.fire g _ _ _) fun _ => .bind g (.emit g _) fun _ => .pure g _

theorem Preserves.solveScipyF (g : GoodRel pl R) (w p o) (k pass : Nat) (method : String) :
    Preserves R (solveScipyF w p o k pass method) := by
  induction k generalizing pass method with
  | zero => exact .raise g _
  | succ k ih =>
    unfold Solve.solveScipyF
    refine .bind g (.scipyPass g _ _ _ _ _) fun r => ?_
    cases r with
    | none => exact ih _ _
    | some s => exact .pure g _

theorem Preserves.linprogBlock (g : GoodRel pl R) (w a) : Preserves R (linprogBlock w a) := by
  unfold Solve.linprogBlock
  exact .tryExcept g (.bind g (.emit g _) fun _ => .bind g (.fire g _ _ _) fun _ => .pure g _) (fun _ => .pure g _)

theorem Preserves.ensureLp (g : GoodRel pl R) (w) : Preserves R (ensureLp w) := by
  unfold Solve.ensureLp
  refine .bind g (.getState g) fun s => ?_
  split
  · exact .pure g _
  · exact .tryExcept g (.bind g (.fire g _ _ _) fun _ => fun s => g.lp true s) (fun _ => .raise g _)

theorem Preserves.solveLP (g : GoodRel pl R) (w p m strict) : Preserves R (solveLP w p m strict) := by
  unfold Solve.solveLP
  split
  · exact .raise g _
  · refine .bind g (.fire g _ _ _) fun _ => ?_
    split
    · exact .raise g _
    · split
      · exact .raise g _
      · refine .bind g (.fire g _ _ _) fun _ => .bind g (.guard g _ _ _ _ _) fun _ =>
          .bind g (.ensureLp g _) fun _ => .bind g (.linprogBlock g _ _) fun r? => ?_
        cases r? with
        | none => exact .pure g _
        | some r =>
          dsimp only
          split
          · exact .pure g _
          · exact .raise g _

theorem Preserves.isLinearProblem (w) (p : Problem) (g : GoodRel p.isLinear R) : Preserves R (isLinearProblem w p) := by
  unfold Solve.isLinearProblem
  refine .bind g (.getState g) fun s => ?_
  split
  · exact .pure g _
  · exact .bind g (.fire g _ _ _) fun _ => .bind g (fun s => g.lin s) fun _ => .pure g _

theorem Preserves.solve (w) (p : Problem) (o) (g : GoodRel p.isLinear R) : Preserves R (solve w p o) := by
  unfold Solve.solve
  split
  · exact .raise g _
  · refine .bind g ?_ fun lin => .bind g ?_ fun _ => ?_
    · split
      · exact .isLinearProblem w p g
      · exact .pure g _
    · split
      · exact .fire g _ _ _
      · exact .pure g _
    · split
      · exact .solveLP g _ _ _ _
      · exact .solveScipyF g _ _ _ _ _ _

/-! instances -/
def hookRel (a b : PState) : Prop := b.hook = a.hook
def reclimitRel (a b : PState) : Prop := b.reclimit = a.reclimit
def validRel (a b : PState) : Prop := CacheValid a → CacheValid b
/-- `_is_linear_cache`, when set, holds the problem's true verdict -/
def LinOk (pl : Bool) (s : PState) : Prop := ∀ b, s.linCache = some b → b = pl
def linRel (pl : Bool) (a b : PState) : Prop := LinOk pl a → LinOk pl b

theorem hookRel_good (pl) : GoodRel pl hookRel := by
  constructor <;> simp [hookRel]
  · intro a b c h1 h2; rw [h2, h1]

theorem reclimitRel_good (pl) : GoodRel pl reclimitRel := by
  constructor <;> simp [reclimitRel]
  · intro a b c h1 h2; rw [h2, h1]

theorem validRel_good (pl) : GoodRel pl validRel := by
  constructor
  · intro s h; exact h
  · intro a b c h1 h2 h; exact h2 (h1 h)
  · intro ev s h; exact h
  · intro s h; exact h
  · intro b s h; exact h
  · intro s h; exact h
  · intro s _; simp [CacheValid, builtKeys]
  · intro s ks k hc h
    simp only [CacheValid, hc] at h
    simp only [CacheValid, List.contains_eq_mem, List.mem_append, decide_eq_true_eq] at h ⊢
    simp_all
  · intro s s2 h hh hv; exact hh hv

theorem linRel_good (pl) : GoodRel pl (linRel pl) := by
  constructor
  · intro s h; exact h
  · intro a b c h1 h2 h; exact h2 (h1 h)
  · intro ev s h; exact h
  · intro s h; exact h
  · intro b s h; exact h
  · intro s _ b hb; simp at hb; exact hb.symm
  · intro s h; exact h
  · intro s ks k _ h; exact h
  · intro s s2 h hh hv; exact hh hv

/-! ### fault-free runs are determined by the pure functional form -/

def Inv (pl : Bool) (s : PState) : Prop := CacheValid s ∧ LinOk pl s
def InvC (pl : Bool) (s : PState) : Prop := Inv pl s ∧ s.solverCache.isSome = true

/-- from any state satisfying `P`, `m` returns `r`, appends exactly `evs`, and ends in `Q` -/
def Det {α} (P Q : PState → Prop) (m : M α) (r : Res α) (evs : List Event) : Prop :=
  ∀ s, P s → (m s).1 = r ∧ (m s).2.trace = s.trace ++ evs ∧ Q (m s).2

theorem Det.pure {α} {P : PState → Prop} (a : α) : Det P P (pure a : M α) (.ok a) [] :=
  fun s h => ⟨rfl, by simp [Pure.pure, M.pure], h⟩
theorem Det.raise {α} {P : PState → Prop} (e : Exc) : Det P P (raise e : M α) (.exc e) [] :=
  fun s h => ⟨rfl, by simp [Solve.raise], h⟩
theorem Det.bind_ok {α β} {P Q T : PState → Prop} {m : M α} {f : α → M β} {a : α} {r : Res β} {e1 e2 : List Event}
    (hm : Det P Q m (.ok a) e1) (hf : Det Q T (f a) r e2) : Det P T (m >>= f) r (e1 ++ e2) := by
  intro s hs
  obtain ⟨h1, h2, h3⟩ := hm s hs
  rw [bind_apply]
  cases hms : m s with | mk r' s' =>
  rw [hms] at h1 h2 h3
  dsimp only at h1 h2 h3
  subst h1
  obtain ⟨g1, g2, g3⟩ := hf s' h3
  exact ⟨g1, by rw [g2, h2, List.append_assoc], g3⟩
theorem Det.bind_exc {α β} {P Q : PState → Prop} {m : M α} {f : α → M β} {e : Exc} {e1 : List Event}
    (hm : Det P Q m (.exc e) e1) : Det P Q (m >>= f) (.exc e) e1 := by
  intro s hs
  obtain ⟨h1, h2, h3⟩ := hm s hs
  rw [bind_apply]
  cases hms : m s with | mk r' s' =>
  rw [hms] at h1 h2 h3
  dsimp only at h1 h2 h3
  subst h1
  exact ⟨rfl, h2, h3⟩
theorem Det.weaken {α} {P P' Q Q' : PState → Prop} {m : M α} {r evs}
    (h : Det P Q m r evs) (hp : ∀ s, P' s → P s) (hq : ∀ s, Q s → Q' s) : Det P' Q' m r evs :=
  fun s hs => let ⟨a, b, c⟩ := h s (hp s hs); ⟨a, b, hq _ c⟩

theorem fire_none (p : Nat) (st : Step) : fire none p st = (pure () : M Unit) := rfl

theorem fireAll_none (p : Nat) (l : List Step) : fireAll none p l = (pure () : M Unit) := by
  induction l with
  | nil => rfl
  | cons a t ih => unfold fireAll; rw [fire_none, ih]; rfl

theorem fireEach_none (p : Nat) (mk : Nat → List Step) (l : List Nat) : fireEach none p mk l = (pure () : M Unit) := by
  induction l with
  | nil => rfl
  | cons a t ih => unfold fireEach; rw [fireAll_none, ih]; rfl

theorem Det.emit {P : PState → Prop} (ev : Event) (hP : ∀ s, P s → P { s with trace := s.trace ++ [ev] }) :
    Det P P (emit ev) (.ok ()) [ev] :=
  fun s h => ⟨rfl, rfl, hP s h⟩

theorem inv_trace {pl s} (t : List Event) (h : Inv pl s) : Inv pl { s with trace := t } := h
theorem invC_trace {pl s} (t : List Event) (h : InvC pl s) : InvC pl { s with trace := t } := h

theorem Det.guard {P : PState → Prop} (hP : ∀ s t, P s → P { s with trace := t })
    (w : World) (hw : w.fault = none) (pass solver strict vars) :
    Det P P (guard w pass solver strict vars)
      (match (guardPure solver strict vars).1 with | some e => .exc e | none => .ok ())
      (guardPure solver strict vars).2 := by
  unfold Solve.guard guardPure
  dsimp only
  split
  · exact .pure _
  · split
    · exact .raise _
    · rw [hw, fire_none]
      exact Det.bind_ok (Det.pure ()) (Det.emit _ (fun s h => hP s _ h))

/-! ### run equations -/

theorem pure_apply {α} (a : α) (s : PState) : (pure a : M α) s = (.ok a, s) := rfl

theorem ensureCache_some (w : World) (pass) (p : Problem) (s : PState) (ks) (hc : s.solverCache = some ks) :
    ensureCache w pass p s = (.ok (), s) := by
  unfold ensureCache
  rw [bind_apply]
  simp only [getState, hc]
  rfl

theorem ensureCache_none (w : World) (hw : w.fault = none) (pass) (p : Problem) (ho : p.hasObjective = true)
    (s : PState) (hc : s.solverCache = none) :
    ensureCache w pass p s = (.ok (), { s with solverCache := some builtKeys }) := by
  unfold ensureCache
  rw [bind_apply]
  simp only [getState, hc, ho, hw, fire_none, fireEach_none]
  rfl

theorem useCache_valid (s : PState) (ks) (hc : s.solverCache = some ks)
    (h1 : ks.contains .objFn = true) (h2 : ks.contains .gradFn = true) (h3 : ks.contains .scipyConstraints = true)
    (h4 : ks.contains .bounds = true) : useCache s = (.ok (), s) := by
  unfold useCache
  rw [bind_apply]
  simp only [getState, hc, h1, h2, h3, h4]
  rfl

theorem ensureHess_off (w : World) (pass o method) (s : PState) (h : hessFlag o method = false) :
    ensureHess w pass o method s = (.ok false, s) := by
  unfold ensureHess
  unfold hessFlag at h
  simp only [h]
  rfl

theorem ensureHess_have (w : World) (pass o method) (s : PState) (h : hessFlag o method = true) (ks)
    (hc : s.solverCache = some ks) (hk : ks.contains .hessFn = true) :
    ensureHess w pass o method s = (.ok true, s) := by
  unfold ensureHess
  unfold hessFlag at h
  simp only [h, if_true]
  rw [bind_apply]
  simp only [getState, hc, hk]
  rfl

theorem ensureHess_add (w : World) (hw : w.fault = none) (pass o method) (s : PState) (h : hessFlag o method = true) (ks)
    (hc : s.solverCache = some ks) (hk : ks.contains .hessFn = false) :
    ensureHess w pass o method s = (.ok true, { s with solverCache := some (ks ++ [.hessFn]) }) := by
  unfold ensureHess
  unfold hessFlag at h
  simp only [h, if_true]
  rw [bind_apply]
  simp only [getState, hc, hk, hw, fire_none]
  rfl

theorem minimizeBlock_none (w : World) (hw : w.fault = none) (pass a) (s : PState) :
    minimizeBlock w pass a s =
      (.ok (some (if pass == 0 then w.r1 else w.r2)), { s with trace := s.trace ++ [.minimizeCall a] }) := by
  unfold minimizeBlock withHook tryExcept minimizeCall
  simp only [hw, fire_none]
  rfl

end Optyx.Py.Solve
