/-
  Optyx.Lemmas.HessSecond — the symbolic Hessian entry `gradient(gradient(e, vi), vj)` is the
  iterated partial derivative ∂/∂vj (∂⟦e⟧/∂vi) at every regular point, with no hypothesis beyond
  `WF e` and `Regular ρ σ e`:  C02 twice + `grad_wf` + `grad_regular` + `regular_open`.
-/
import Optyx.Lemmas.RegularOpen
import Optyx.Lemmas.GradRegular

namespace Optyx
open Optyx.Py

theorem hessEntry_second_partial (e : Expr) (vi vj : Var) (ρ : String → ℝ) (σ : Nat → ℝ)
    (hwf : WF e) (hreg : Regular ρ σ e) :
    HasDerivAt
      (fun t => deriv (fun s => denote (Function.update (Function.update ρ vj.name t) vi.name s) σ e)
                  ((Function.update ρ vj.name t) vi.name))
      (denote ρ σ (hessEntry e vi vj)) (ρ vj.name) := by
  have h2 := grad_D ρ σ vj (grad vi e) (grad_wf vi e hwf) (grad_regular ρ σ vi e hreg)
  have hopen := regular_open ρ σ vj e hwf hreg
  refine h2.congr_of_eventuallyEq ?_
  filter_upwards [hopen] with t ht
  exact (grad_D (upd ρ vj.name t) σ vi e hwf ht).deriv

end Optyx
