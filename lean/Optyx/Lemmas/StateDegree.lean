/-
  Optyx.Lemmas.StateDegree — "a Parameter has no polynomial degree": every expression that
  contains a Parameter is classified `None` by `_compute_degree_impl` (model: `Py.degree`,
  Optyx/Py/Degree.lean), hence is never linear, hence never reaches LP extraction: no parameter
  value can be frozen into `LPData`.  Core Lean only.
-/
import Optyx.Py.State
import Optyx.Py.Degree

namespace Optyx.Py.State
open Optyx Optyx.Py

theorem expNat_none_of_hasParam (r : Expr) (h : hasParam r = true) : expNat r = none := by
  cases r <;> first | rfl | (simp [hasParam] at h)

theorem isConstNode_false_of_hasParam (r : Expr) (h : hasParam r = true) : isConstNode r = false := by
  cases r <;> first | rfl | (simp [hasParam] at h)

mutual
theorem degree_none_of_hasParam : (e : Expr) → hasParam e = true → degree e = none
  | .param _, _ => by simp [degree]
  | .const _, h | .var _, h | .vecSum _, h | .powSum _ _, h | .unSum _ _, h | .matSumV _, h | .frob _, h => by
    simp [hasParam] at h
  | .bin op l r, h => by
    simp only [hasParam, Bool.or_eq_true] at h
    cases op with
    | add | sub | mul =>
      simp only [degree]
      rcases h with h | h
      · simp [degree_none_of_hasParam l h]
      · cases degree l <;> simp [degree_none_of_hasParam r h]
    | div =>
      simp only [degree]
      rcases h with h | h
      · simp [degree_none_of_hasParam l h]
      · simp [isConstNode_false_of_hasParam r h]
    | pow =>
      simp only [degree]
      rcases h with h | h
      · cases expNat r <;> simp [degree_none_of_hasParam l h]
      · simp [expNat_none_of_hasParam r h]
  | .un op a, h => by
    simp only [hasParam] at h
    cases op <;> simp [degree, degree_none_of_hasParam a h]
  | .linComb _ v, h => by
    simp only [hasParam] at h
    simp [degree, vecDegree_none_of_hasParam v h]
  | .l2 _, _ | .l1 _, _ | .exprSum _, _ | .matSumE _, _ => by simp [degree]
  | .quad v _, h => by
    simp only [hasParam] at h
    simp [degree, vecDegree_none_of_hasParam v h]
  | .dot l r, h => by
    simp only [hasParam, Bool.or_eq_true] at h
    simp only [degree]
    rcases h with h | h
    · simp [vecDegree_none_of_hasParam l h]
    · cases vecDegree l <;> simp [vecDegree_none_of_hasParam r h]
theorem vecDegree_none_of_hasParam : (v : Vec) → hasParamVec v = true → vecDegree v = none
  | .vars _, h => by simp [hasParamVec] at h
  | .exprs es, h => by
    simp only [hasParamVec] at h
    simp [vecDegree, maxDegList_none_of_hasParam es 0 h]
theorem maxDegList_none_of_hasParam : (es : ExprList) → (acc : Nat) → hasParamList es = true →
    maxDegList es acc = none
  | .nil, _, h => by simp [hasParamList] at h
  | .cons e t, acc, h => by
    simp only [hasParamList, Bool.or_eq_true] at h
    simp only [maxDegList]
    rcases h with h | h
    · simp [degree_none_of_hasParam e h]
    · cases degree e with
      | none => rfl
      | some d => simp [maxDegList_none_of_hasParam t (max acc d) h]
end

end Optyx.Py.State
