/-
  Optyx.Lemmas.StateParam — the compiled Jacobian artefact means the gradient row, whichever of
  the three compile paths was taken; the artefacts of a history never depend on the parameter
  store (helper lemmas of C12).
-/
import Optyx.Lemmas.StateGrad

namespace Optyx.Py.State
open Optyx Optyx.Py Optyx.Generated NumAlg

section
variable (ρ : String → ℝ) (σ : Nat → ℝ)

theorem allConst_denote : ∀ (row : List Expr) (cs : List Cst), allConst row = some cs →
    row.map (denote ρ σ) = cs.map (fun c => (cst c : ℝ))
  | [], cs, h => by simp [allConst] at h; subst h; simp
  | e :: t, cs, h => by
    unfold allConst at h
    cases he : asConst e with
    | none => simp [he] at h
    | some c =>
      cases ht : allConst t with
      | none => simp [he, ht] at h
      | some cs' =>
        simp [he, ht] at h
        subst h
        have hc : e = .const c := by
          cases e <;> simp [asConst] at he
          subst he; rfl
        subst hc
        simp [denote, allConst_denote t cs' ht]

/-- only literal `Constant`s reach the pre-computed Jacobian -/
theorem allConst_mem : ∀ (row : List Expr) (cs : List Cst), allConst row = some cs →
    ∀ e ∈ row, ∃ c, e = .const c
  | [], _, _ => by intro e he; cases he
  | e :: t, cs, h => by
    unfold allConst at h
    cases he : asConst e with
    | none => simp [he] at h
    | some c =>
      cases ht : allConst t with
      | none => simp [he, ht] at h
      | some cs' =>
        intro x hx
        rcases List.mem_cons.mp hx with hx | hx
        · subst hx
          cases x <;> simp [asConst] at he
          exact ⟨_, rfl⟩
        · exact allConst_mem t cs' ht x hx

theorem scaledElem_denote {v : Var} {e : Expr} {c : Cst} (h : scaledElem v e = some c) :
    denote ρ σ e = (cst c : ℝ) * ρ v.name := by
  unfold scaledElem at h
  split at h
  · split at h
    · rename_i huv
      injection h with h
      subst h; subst huv
      simp [denote]
    · cases h
  · split at h
    · rename_i huv
      injection h with h
      subst h; subst huv
      simp [denote, mul_comm]
    · cases h
  · cases h

theorem scaledPattern_denote : ∀ (es : List Expr) (vs : List Var) (acc : Option Cst) (c : Cst),
    scaledPattern es vs acc = some c →
      (∀ c0, acc = some c0 → c0 = c) ∧
      es.map (denote ρ σ) = vs.map (fun v => (cst c : ℝ) * ρ v.name)
  | [], [], acc, c, h => by
    simp [scaledPattern] at h
    subst h
    exact ⟨fun c0 h0 => by injection h0 with h0; exact h0.symm, by simp⟩
  | [], _ :: _, _, _, h => by simp [scaledPattern] at h
  | _ :: _, [], _, _, h => by simp [scaledPattern] at h
  | e :: es, v :: vs, acc, c, h => by
    unfold scaledPattern at h
    cases he : scaledElem v e with
    | none => simp [he] at h
    | some c1 =>
      simp only [he] at h
      cases acc with
      | none =>
        simp only [] at h
        obtain ⟨h1, h2⟩ := scaledPattern_denote es vs (some c1) c h
        have hc : c1 = c := h1 c1 rfl
        subst hc
        refine ⟨fun c0 h0 => (by cases h0), ?_⟩
        simp [scaledElem_denote ρ σ he, h2]
      | some c0 =>
        simp only [] at h
        split at h
        · rename_i hcc
          obtain ⟨h1, h2⟩ := scaledPattern_denote es vs (some c0) c h
          have hc : c0 = c := h1 c0 rfl
          subst hc
          subst hcc
          refine ⟨fun c' h' => by injection h' with h'; exact h'.symm, ?_⟩
          simp [scaledElem_denote ρ σ he, h2]
        · cases h

end

/-- whichever path `compile_jacobian` took, calling the artefact yields the meaning of the
    gradient row under the *current* store -/
theorem buildJac_call (ρ : String → ℝ) (σ : Nat → Rat) (e : Expr) (vs : List Var) :
    (buildJac e vs).call σ ρ vs = vs.map fun v => denote ρ (storeOf σ) (grad v e) := by
  unfold buildJac
  cases hc : allConst (vs.map fun v => grad v e) with
  | some cs =>
    simp only [hc, JacArt.call]
    have := allConst_denote ρ (storeOf σ) _ cs hc
    rw [List.map_map] at this
    exact this.symm
  | none =>
    cases hs : scaledPattern (vs.map fun v => grad v e) vs none with
    | some c =>
      simp only [hc, hs, JacArt.call]
      have := (scaledPattern_denote ρ (storeOf σ) _ vs none c hs).2
      rw [List.map_map] at this
      exact this.symm
    | none =>
      simp only [hc, hs, JacArt.call, List.map_map]
      rfl

/-! ### artefacts of a history -/

/-- the artefacts held by a state are the ones built from the model expression — a function of
    `(e, vs)` alone, whatever `set`s happened before or after they were built -/
def ArtInv (e : Expr) (vs : List Var) (s : PSt) : Prop :=
  (s.fn = none ∨ s.fn = some e) ∧
  (s.jac = none ∨ s.jac = some (buildJac e vs)) ∧
  (s.hess = none ∨ s.hess = some (buildHess e vs))

theorem artInv_pinit (e : Expr) (vs : List Var) (σ : Nat → Rat) : ArtInv e vs (pinit σ) := by
  simp [ArtInv, pinit]

theorem artInv_pstep {α : Type} [NumAlg α] (e : Expr) (vs : List Var) (s : PSt) (op : POp α)
    (h : ArtInv e vs s) : ArtInv e vs (pstep e vs s op).1 := by
  obtain ⟨hf, hj, hh⟩ := h
  cases op with
  | set o v => exact ⟨hf, hj, hh⟩
  | evaluate ρ => exact ⟨hf, hj, hh⟩
  | callFn ρ =>
    refine ⟨Or.inr ?_, hj, hh⟩
    rcases hf with hf | hf <;> simp [pstep, hf]
  | callJac ρ =>
    refine ⟨hf, Or.inr ?_, hh⟩
    rcases hj with hj | hj <;> simp [pstep, hj]
  | callHess ρ =>
    refine ⟨hf, hj, Or.inr ?_⟩
    rcases hh with hh | hh <;> simp [pstep, hh]

theorem artInv_prun {α : Type} [NumAlg α] (e : Expr) (vs : List Var) (ops : List (POp α)) (s : PSt)
    (h : ArtInv e vs s) : ArtInv e vs (prun e vs s ops).1 := by
  induction ops generalizing s with
  | nil => exact h
  | cons op ops ih => exact ih _ (artInv_pstep e vs s op h)

/-- under `ArtInv` every observation is the current-store meaning of the model expression /
    of its freshly built artefact -/
theorem pstep_obs {α : Type} [NumAlg α] (e : Expr) (vs : List Var) (s : PSt) (h : ArtInv e vs s) :
    (∀ ρ : String → α, (pstep e vs s (.evaluate ρ)).2 = [denote ρ (storeOf s.σ) e]) ∧
    (∀ ρ : String → α, (pstep e vs s (.callFn ρ)).2 = [denote ρ (storeOf s.σ) e]) ∧
    (∀ ρ : String → α, (pstep e vs s (.callJac ρ)).2 = (buildJac e vs).call s.σ ρ vs) := by
  obtain ⟨hf, hj, _⟩ := h
  refine ⟨fun ρ => rfl, fun ρ => ?_, fun ρ => ?_⟩
  · rcases hf with hf | hf <;> simp [pstep, hf]
  · rcases hj with hj | hj <;> simp [pstep, hj]

end Optyx.Py.State
