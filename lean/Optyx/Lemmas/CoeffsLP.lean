/-
  Optyx.Lemmas.CoeffsLP — the O(1) shortcuts of `extract_all_linear_coefficients` return what the
  general walker returns (under the invariant `shortcutInv`), soundness of `extractAll`, and the
  accumulator invariant of the constraint loop of `LinearProgramExtractor.extract_constraints`.
-/
import Optyx.Lemmas.CoeffsSound
import Mathlib.Data.List.Perm.Subperm

namespace Optyx
open NumAlg Optyx.Py

/-! ### two coefficient rows with the same meaning are equal (distinct variable names) -/

theorem wsum_map_zero : ∀ (r : List Rat) (V : List String) (ρ : String → ℝ),
    (∀ x ∈ V, ρ x = 0) → wsum r (V.map ρ) = 0
  | [], V, ρ, _ => by simp
  | _ :: _, [], ρ, _ => by simp
  | a :: t, x :: V, ρ, h => by
    simp only [List.map_cons, wsum_cons, h x (by simp), mul_zero, zero_add]
    exact wsum_map_zero t V ρ (fun y hy => h y (by simp [hy]))

theorem wsum_ext : ∀ (V : List String) (r r' : List Rat), V.Nodup → r.length = V.length → r'.length = V.length →
    (∀ ρ : String → ℝ, wsum r (V.map ρ) = wsum r' (V.map ρ)) → r = r'
  | [], r, r', _, hl, hl', _ => by
    have h1 : r = [] := List.eq_nil_of_length_eq_zero (by simpa using hl)
    have h2 : r' = [] := List.eq_nil_of_length_eq_zero (by simpa using hl')
    rw [h1, h2]
  | x :: V, [], _, _, hl, _, _ => by simp at hl
  | x :: V, _ :: _, [], _, _, hl', _ => by simp at hl'
  | x :: V, a :: t, a' :: t', hn, hl, hl', h => by
    have hx : x ∉ V := (List.nodup_cons.mp hn).1
    have hnV : V.Nodup := (List.nodup_cons.mp hn).2
    have ha : a = a' := by
      have := h (fun y => if y = x then 1 else 0)
      have hz : ∀ y ∈ V, (fun y => if y = x then (1 : ℝ) else 0) y = 0 := by
        intro y hy
        have : y ≠ x := fun e => hx (e ▸ hy)
        simp [this]
      simp only [List.map_cons, wsum_cons, if_true, mul_one, wsum_map_zero t V _ hz,
        wsum_map_zero t' V _ hz, add_zero] at this
      exact_mod_cast this
    subst ha
    have ht : t = t' := by
      apply wsum_ext V t t' hnV (by simpa using hl) (by simpa using hl')
      intro ρ
      have := h ρ
      simpa using this
    rw [ht]

theorem wsum_replicate (q : Rat) : ∀ (n : Nat) (xs : List ℝ), xs.length = n →
    wsum (List.replicate n q) xs = (q : ℝ) * NumAlg.sum xs
  | 0, xs, h => by
    have : xs = [] := List.eq_nil_of_length_eq_zero h
    subst this; simp
  | n + 1, [], h => by simp at h
  | n + 1, x :: xs, h => by
    simp only [List.replicate_succ, wsum_cons, sum_cons, wsum_replicate q n xs (by simpa using h)]
    ring

theorem valsOf_eq_map {V : List String} {vs : List Var} (ρ : String → ℝ) (h : vs.map (·.name) = V) :
    valsOf ρ vs = V.map ρ := by
  subst h; simp [valsOf, List.map_map, Function.comp_def]

theorem namesIn_of_eq {V : List String} {vs : List Var} (h : vs.map (·.name) = V) : namesIn V vs = true := by
  subst h
  simp only [namesIn, List.all_eq_true]
  intro v hv
  simp only [List.contains_eq_mem, List.mem_map, decide_eq_true_eq]
  exact ⟨v, hv, rfl⟩

/-- `VectorSum` over exactly the variable list: the walker produces `m` in every column -/
theorem walkVars_all {V : List String} {vs : List Var} (hn : V.Nodup) (h : vs.map (·.name) = V) (m : Rat) :
    walkVars V vs (List.replicate V.length 0) m = List.replicate V.length m := by
  have hin := namesIn_of_eq h
  have hl : (List.replicate V.length (0 : Rat)).length = V.length := by simp
  apply wsum_ext V _ _ hn (walkVars_spec V (fun _ => 0) vs _ m hin hl).1 (by simp)
  intro ρ
  rw [(walkVars_spec V ρ vs _ m hin hl).2, wsum_replicate_zero, valsOf_eq_map ρ h,
    wsum_replicate m V.length (V.map ρ) (by simp)]
  ring

theorem walkLcVars_total (V : List String) : ∀ (vs : List Var) (cs r : List Rat) (m : Rat),
    vs.length ≤ cs.length → ∃ r', walkLcVars V vs cs r m = .ok r'
  | [], cs, r, m, _ => ⟨r, rfl⟩
  | v :: vs, [], r, m, h => by simp at h
  | v :: vs, c :: cs, r, m, h => by
    have h' : vs.length ≤ cs.length := by simpa using h
    simp only [walkLcVars]
    split
    · exact walkLcVars_total V vs cs r m h'
    · exact walkLcVars_total V vs cs _ m h'

theorem wsum_mul_right (m : Rat) : ∀ (cs : List Rat) (xs : List ℝ),
    wsum (cs.map (· * m)) xs = (m : ℝ) * wsum cs xs
  | [], xs => by simp
  | _ :: _, [] => by simp
  | c :: cs, x :: xs => by
    simp only [List.map_cons, wsum_cons, wsum_mul_right m cs xs]; push_cast; ring

/-- `LinearCombination` over exactly the variable list: the walker produces `cs · m` -/
theorem walkLcVars_all {V : List String} {vs : List Var} (hn : V.Nodup) (h : vs.map (·.name) = V)
    (cs : List Rat) (hcs : cs.length = vs.length) (m : Rat) :
    walkLcVars V vs cs (List.replicate V.length 0) m = .ok (cs.map (· * m)) := by
  have hin := namesIn_of_eq h
  have hl : (List.replicate V.length (0 : Rat)).length = V.length := by simp
  obtain ⟨r', hr'⟩ := walkLcVars_total V vs cs (List.replicate V.length 0) m (by omega)
  rw [hr']
  congr 1
  have hvl : vs.length = V.length := by rw [← h]; simp
  apply wsum_ext V _ _ hn (walkLcVars_spec V (fun _ => 0) vs cs _ m r' hin hl hr').1 (by simp; omega)
  intro ρ
  rw [(walkLcVars_spec V ρ vs cs _ m r' hin hl hr').2, wsum_replicate_zero, valsOf_eq_map ρ h,
    wsum_mul_right]
  ring

/-! ### the shortcut invariant -/

/-- a vector that passes the two tests of the shortcut (`len == n`, first index `0`) lists
    exactly the problem variables, in order -/
def vecInv (V : List String) (vv : VVar) : Bool :=
  match coversAll V vv with
  | .ok (some true) => vv.vars.map (·.name) == V
  | _ => true

def nodeInv (V : List String) : Expr → Bool
  | .vecSum vv => vecInv V vv
  | .linComb cs (.vars vv) => vecInv V vv && cs.length == vv.vars.length
  | _ => true

/-- the invariant the shortcuts of `extract_all_linear_coefficients` rely on, at the positions
    where they look: the expression itself, or the two operands of a top-level `BinaryOp` -/
def shortcutInv (V : List String) : Expr → Bool
  | .bin _ l r => nodeInv V l && nodeInv V r
  | e => nodeInv V e

theorem vecInv_names {V : List String} {vv : VVar} (hi : vecInv V vv = true)
    {t : Option Bool} (hc : coversAll V vv = .ok t) (ht : (t == some true) = true) :
    vv.vars.map (·.name) = V := by
  have : t = some true := by simpa using ht
  subst this
  simp only [vecInv, hc] at hi
  simpa using hi

/-- the walker on the shapes the shortcuts recognise -/
theorem general_vecSum {V : List String} {vv : VVar} (hn : V.Nodup) (h : vv.vars.map (·.name) = V) :
    coeffsGeneral (.vecSum vv) V = .ok (List.replicate V.length 1) := by
  simp [coeffsGeneral, walk, walkVars_all hn h]

theorem general_linComb {V : List String} {vv : VVar} {cs : List Rat} (hn : V.Nodup)
    (h : vv.vars.map (·.name) = V) (hcs : cs.length = vv.vars.length) :
    coeffsGeneral (.linComb cs (.vars vv)) V = .ok cs := by
  simp [coeffsGeneral, walk, walkLcVars_all hn h cs hcs]

/-- `_try_extract_fast_binop` returns what the general walker returns -/
theorem fastBinop_eq_general {V : List String} {op : BinOp} {l r : Expr} {res : List Rat} (hn : V.Nodup)
    (hl : nodeInv V l = true) (hr : nodeInv V r = true)
    (h : fastBinop V op l r = .ok (some res)) :
    coeffsGeneral (.bin op l r) V = .ok res := by
  unfold fastBinop at h
  split at h
  · -- + / -
    rename_i hop
    have hop' : op = .add ∨ op = .sub := by simpa using hop
    split at h
    · rename_i vv
      simp only [bind_ok] at h
      obtain ⟨t, ht, h⟩ := h
      split at h
      · rename_i hc
        simp only [Bool.and_eq_true] at hc
        simp only [pure_ok, Option.some.injEq] at h
        subst h
        obtain ⟨c, rfl⟩ := isConstNode_eq hc.2
        have hnames := vecInv_names (by simpa [nodeInv] using hl) ht hc.1
        rcases hop' with rfl | rfl <;>
          simp [coeffsGeneral, walk, bind_ok, walkVars_all hn hnames]
      · simp [pure_ok] at h
    · rename_i cs vv
      simp only [bind_ok] at h
      obtain ⟨t, ht, h⟩ := h
      split at h
      · rename_i hc
        simp only [Bool.and_eq_true] at hc
        simp only [pure_ok, Option.some.injEq] at h
        subst h
        obtain ⟨c, rfl⟩ := isConstNode_eq hc.2
        simp only [nodeInv, Bool.and_eq_true, beq_iff_eq] at hl
        have hnames := vecInv_names hl.1 ht hc.1
        rcases hop' with rfl | rfl <;>
          simp [coeffsGeneral, walk, bind_ok, walkLcVars_all hn hnames cs hl.2]
      · simp [pure_ok] at h
    · simp [pure_ok] at h
  · split at h
    · -- *
      rename_i hop
      have hop' : op = .mul := by simpa using hop
      subst hop'
      split at h
      · rename_i c vv
        simp only [bind_ok] at h
        obtain ⟨t, ht, h⟩ := h
        split at h
        · rename_i hc
          simp only [bind_ok, pure_ok, Option.some.injEq] at h
          obtain ⟨q, hq, rfl⟩ := h
          have hnames := vecInv_names (by simpa [nodeInv] using hr) ht hc
          simp [coeffsGeneral, walk, bind_ok, hq, walkVars_all hn hnames]
        · simp [pure_ok] at h
      · rename_i vv c
        simp only [bind_ok] at h
        obtain ⟨t, ht, h⟩ := h
        split at h
        · rename_i hc
          simp only [bind_ok, pure_ok, Option.some.injEq] at h
          obtain ⟨q, hq, rfl⟩ := h
          have hnames := vecInv_names (by simpa [nodeInv] using hl) ht hc
          simp [coeffsGeneral, walk, bind_ok, hq, walkVars_all hn hnames]
        · simp [pure_ok] at h
      · simp [pure_ok] at h
    · simp [pure_ok] at h

/-- every shortcut of `extract_all_linear_coefficients` returns what the general walker returns -/
theorem extractAll_eq_general {V : List String} {e : Expr} {cs : List Rat} (hn : V.Nodup)
    (hinv : shortcutInv V e = true) (h : extractAll e V = .ok cs) :
    isLinear e = true ∧ coeffsGeneral e V = .ok cs := by
  unfold extractAll at h
  split at h
  · simp at h
  · rename_i hlin
    have hlin' : isLinear e = true := by simpa using hlin
    refine ⟨hlin', ?_⟩
    split at h
    · rename_i vv
      simp only [bind_ok] at h
      obtain ⟨t, ht, h⟩ := h
      split at h
      · rename_i hc
        simp only [pure_ok] at h
        subst h
        exact general_vecSum hn (vecInv_names (by simpa [shortcutInv, nodeInv] using hinv) ht hc)
      · exact h
    · rename_i cs' vv
      simp only [bind_ok] at h
      obtain ⟨t, ht, h⟩ := h
      split at h
      · rename_i hc
        simp only [pure_ok] at h
        subst h
        simp only [shortcutInv, nodeInv, Bool.and_eq_true, beq_iff_eq] at hinv
        exact general_linComb hn (vecInv_names hinv.1 ht hc) hinv.2
      · exact h
    · rename_i op l r
      simp only [bind_ok] at h
      obtain ⟨f, hf, h⟩ := h
      simp only [shortcutInv, Bool.and_eq_true] at hinv
      split at h
      · rename_i res
        simp only [pure_ok] at h
        subst h
        exact fastBinop_eq_general hn hinv.1 hinv.2 hf
      · exact h
    · exact h

/-! ### soundness of the complete coefficient extraction -/

theorem coeffsGeneral_sound {V : List String} {e : Expr} {cs : List Rat} {k : Rat}
    (hlin : isLinear e = true) (hv : varsIn V e = true)
    (h : coeffsGeneral e V = .ok cs) (hk : constTerm e = .ok k) :
    cs.length = V.length ∧ ∀ (ρ : String → ℝ) (σ : Nat → ℝ),
      denote ρ σ e = wsum cs (V.map ρ) + (k : ℝ) := by
  unfold isLinear at hlin
  split at hlin
  · rename_i d hd
    have hd1 : d ≤ 1 := by simpa using hlin
    obtain ⟨h1, h2⟩ := walk_sound e d V (List.replicate V.length 0) 1 cs k hd hd1 hv (by simp) h hk
    refine ⟨h1, fun ρ σ => ?_⟩
    have := h2 ρ σ
    rw [wsum_replicate_zero] at this
    rw [this]; push_cast; ring
  · simp at hlin

theorem extractConstantTerm_ok {e : Expr} {k : Rat} (h : extractConstantTerm e = .ok k) :
    isLinear e = true ∧ constTerm e = .ok k := by
  unfold extractConstantTerm at h
  split at h
  · rename_i hl; exact ⟨hl, h⟩
  · simp at h

/-- the per-expression hypotheses of the LP theorems -/
structure ExprOK (V : List String) (e : Expr) : Prop where
  vars : varsIn V e = true
  inv : shortcutInv V e = true

theorem extractAll_sound {V : List String} {e : Expr} {cs : List Rat} {k : Rat} (hn : V.Nodup)
    (hok : ExprOK V e) (h : extractAll e V = .ok cs) (hk : extractConstantTerm e = .ok k) :
    cs.length = V.length ∧ ∀ (ρ : String → ℝ) (σ : Nat → ℝ),
      denote ρ σ e = wsum cs (V.map ρ) + (k : ℝ) := by
  obtain ⟨hlin, hg⟩ := extractAll_eq_general hn hok.inv h
  exact coeffsGeneral_sound hlin hok.vars hg (extractConstantTerm_ok hk).2

/-! ### the constraint loop -/

/-- a (row, rhs) pair represents the user's constraint `e sense 0`:
    `<=`: row·x − rhs = ⟦e⟧;  `>=`: row·x − rhs = −⟦e⟧ (negated into `<=` form);  `==`: row·x − rhs = ⟦e⟧ -/
def RowOK (V : List String) (p : List Rat × Rat) (c : Expr × Sense) : Prop :=
  p.1.length = V.length ∧ ∀ (ρ : String → ℝ) (σ : Nat → ℝ),
    wsum p.1 (V.map ρ) - (p.2 : ℝ) =
      (match c.2 with
       | .ge => - denote ρ σ c.1
       | _ => denote ρ σ c.1)

def isEq : Sense → Bool
  | .eq => true
  | _ => false

theorem wsum_neg : ∀ (cs : List Rat) (xs : List ℝ), wsum (cs.map (- ·)) xs = - wsum cs xs
  | [], xs => by simp
  | _ :: _, [] => by simp
  | c :: cs, x :: xs => by
    simp only [List.map_cons, wsum_cons, wsum_neg cs xs]; push_cast; ring

theorem constraintLoop_sound (V : List String) (hn : V.Nodup) :
    ∀ (cons : List (Expr × Sense)) (acc out : Rows),
    (∀ c ∈ cons, ExprOK V c.1) → constraintLoop V cons acc = .ok out →
    ∃ (ub eq : List (List Rat × Rat)),
      out.ubRows = acc.ubRows ++ ub.map (·.1) ∧ out.ubRhs = acc.ubRhs ++ ub.map (·.2) ∧
      out.eqRows = acc.eqRows ++ eq.map (·.1) ∧ out.eqRhs = acc.eqRhs ++ eq.map (·.2) ∧
      List.Forall₂ (RowOK V) ub (cons.filter fun c => !isEq c.2) ∧
      List.Forall₂ (RowOK V) eq (cons.filter fun c => isEq c.2)
  | [], acc, out, _, h => by
    simp only [constraintLoop, Except.ok.injEq] at h; subst h
    exact ⟨[], [], by simp, by simp, by simp, by simp, by simp, by simp⟩
  | (e, s) :: t, acc, out, hok, h => by
    have hoke := hok (e, s) (by simp)
    have hokt : ∀ c ∈ t, ExprOK V c.1 := fun c hc => hok c (by simp [hc])
    simp only [constraintLoop] at h
    split at h
    · simp at h
    · simp only [bind_ok] at h
      obtain ⟨row, hrow, k, hk, h⟩ := h
      obtain ⟨hlen, hsem⟩ := extractAll_sound hn hoke hrow hk
      cases s with
      | eq =>
        simp only at h
        obtain ⟨ub, eq, h1, h2, h3, h4, h5, h6⟩ := constraintLoop_sound V hn t _ out hokt h
        refine ⟨ub, (row, -k) :: eq, h1, h2, by simpa using h3, by simpa using h4, by simpa [isEq] using h5, ?_⟩
        simp only [isEq, List.filter_cons_of_pos]
        refine List.Forall₂.cons ⟨hlen, fun ρ σ => ?_⟩ h6
        simp only [hsem ρ σ]; push_cast; ring
      | le =>
        simp only at h
        obtain ⟨ub, eq, h1, h2, h3, h4, h5, h6⟩ := constraintLoop_sound V hn t _ out hokt h
        refine ⟨(row, -k) :: ub, eq, by simpa using h1, by simpa using h2, h3, h4, ?_, by simpa [isEq] using h6⟩
        simp only [isEq, Bool.not_false, List.filter_cons_of_pos]
        refine List.Forall₂.cons ⟨hlen, fun ρ σ => ?_⟩ h5
        simp only [hsem ρ σ]; push_cast; ring
      | ge =>
        simp only at h
        obtain ⟨ub, eq, h1, h2, h3, h4, h5, h6⟩ := constraintLoop_sound V hn t _ out hokt h
        refine ⟨(row.map (- ·), - -k) :: ub, eq, by simpa using h1, by simpa using h2, h3, h4, ?_,
          by simpa [isEq] using h6⟩
        simp only [isEq, Bool.not_false, List.filter_cons_of_pos]
        refine List.Forall₂.cons ⟨by simpa using hlen, fun ρ σ => ?_⟩ h5
        simp only [hsem ρ σ, wsum_neg]; push_cast; ring

/-! ### why the half-checked condition of the shortcuts suffices for `Problem.variables` -/

/-- two strictly increasing lists (w.r.t. any irreflexive, asymmetric order) of the same length,
    one contained in the other, are equal: a strictly sorted view of `n` problem variables *is*
    the variable list -/
theorem eq_of_sorted_subset {lt : String → String → Prop}
    (hirr : ∀ a, ¬ lt a a) (hasym : ∀ a b, lt a b → lt b a → False)
    {W V : List String} (hW : W.Pairwise lt) (hV : V.Pairwise lt)
    (hsub : ∀ x ∈ W, x ∈ V) (hlen : W.length = V.length) : W = V := by
  have hnd : W.Nodup := hW.imp (fun {a b} (h : lt a b) (e : a = b) => hirr a (by subst e; exact h))
  have hperm : W.Perm V :=
    (List.subperm_of_subset hnd (fun x hx => hsub x hx)).perm_of_length_le (by omega)
  exact List.Perm.eq_of_pairwise (fun a b _ _ h1 h2 => (hasym a b h1 h2).elim) hW hV hperm

/-- a strictly *decreasing* view (negative-step slice) of `n` problem variables whose first element
    is the first problem variable has `n ≤ 1`, hence is the variable list as well -/
theorem eq_of_desc_subset {lt : String → String → Prop}
    (hirr : ∀ a, ¬ lt a a) (hasym : ∀ a b, lt a b → lt b a → False)
    {W V : List String} (hW : W.Pairwise (fun a b => lt b a)) (hV : V.Pairwise lt)
    (hsub : ∀ x ∈ W, x ∈ V) (hlen : W.length = V.length) (hhead : W.head? = V.head?) : W = V := by
  cases W with
  | nil =>
    have : V = [] := List.eq_nil_of_length_eq_zero (by simpa using hlen.symm)
    rw [this]
  | cons w W' =>
    cases V with
    | nil => simp at hlen
    | cons v V' =>
      have hwv : w = v := by simpa using hhead
      subst hwv
      cases W' with
      | nil =>
        have : V' = [] := List.eq_nil_of_length_eq_zero (by simpa using hlen.symm)
        rw [this]
      | cons w2 W'' =>
        exfalso
        -- w2 is below w in the order, but every other problem variable is above v = w
        have h1 : lt w2 w := (List.pairwise_cons.mp hW).1 w2 (by simp)
        have hmem : w2 ∈ w :: V' := hsub w2 (by simp)
        rcases List.mem_cons.mp hmem with h | h
        · exact hirr w (h ▸ h1)
        · exact hasym w2 w h1 ((List.pairwise_cons.mp hV).1 w2 h)

end Optyx

namespace Optyx
open NumAlg Optyx.Py

/-! ### monotone views satisfy the shortcut invariant -/

theorem alignedFrom_spec {V : List String} : ∀ (l : List Var) (i : Nat), alignedFrom V l i = true →
    ∀ k (hk : k < l.length), V[i + k]? = some (l[k]).name
  | [], _, _, k, hk => by simp at hk
  | v :: t, i, h, k, hk => by
    simp only [alignedFrom, Bool.and_eq_true, beq_iff_eq] at h
    cases k with
    | zero => simpa using varIndex_some h.1
    | succ k =>
      have := alignedFrom_spec t (i + 1) h.2 k (by simpa using hk)
      simpa [Nat.add_assoc, Nat.add_comm 1 k] using this

/-- the repaired guard checks every position: when it passes, the vector *is* the variable list -/
theorem coversAll_names {V : List String} {vv : VVar} (h : coversAll V vv = .ok (some true)) :
    vv.vars.map (·.name) = V := by
  unfold coversAll at h
  split at h
  · rename_i hlen
    have hlen' : vv.vars.length = V.length := by simpa using hlen
    simp only [Except.ok.injEq, Option.some.injEq] at h
    apply List.ext_getElem?
    intro k
    by_cases hk : k < vv.vars.length
    · have := alignedFrom_spec vv.vars 0 h k hk
      simp only [Nat.zero_add] at this
      simp [List.getElem?_map, List.getElem?_eq_getElem hk, this]
    · have h1 : (vv.vars.map (·.name))[k]? = none := by simp [List.getElem?_eq_none_iff]; omega
      have h2 : V[k]? = none := by simp [List.getElem?_eq_none_iff]; omega
      rw [h1, h2]
  · simp at h

theorem coversAll_true {V : List String} {vv : VVar} (h : coversAll V vv = .ok (some true)) :
    vv.vars.length = V.length ∧ (vv.vars.map (·.name)).head? = V.head? := by
  have hn := coversAll_names h
  exact ⟨by rw [← hn]; simp, by rw [hn]⟩

/-- with the repaired guard the invariant of the shortcuts holds for every vector (no monotonicity needed) -/
theorem vecInv_always (V : List String) (vv : VVar) : vecInv V vv = true := by
  unfold vecInv
  split
  · rename_i hc
    simpa using coversAll_names hc
  · rfl

/-- a `VectorVariable` operand whose element names are strictly increasing or strictly decreasing
    in the order that strictly sorts the problem variables, all of them problem variables,
    satisfies the invariant of the shortcuts: passing `len == n` and `first index == 0` then
    implies that it *is* the variable list -/
theorem vecInv_of_monotone {lt : String → String → Prop}
    (hirr : ∀ a, ¬ lt a a) (hasym : ∀ a b, lt a b → lt b a → False)
    {V : List String} (hV : V.Pairwise lt) {vv : VVar}
    (hsub : ∀ x ∈ vv.vars.map (·.name), x ∈ V)
    (hmono : (vv.vars.map (·.name)).Pairwise lt ∨ (vv.vars.map (·.name)).Pairwise (fun a b => lt b a)) :
    vecInv V vv = true := by
  unfold vecInv
  split
  · rename_i hc
    obtain ⟨hlen, hhead⟩ := coversAll_true hc
    have hlen' : (vv.vars.map (·.name)).length = V.length := by simpa using hlen
    rcases hmono with hm | hm
    · simpa using eq_of_sorted_subset hirr hasym hm hV hsub hlen'
    · simpa using eq_of_desc_subset hirr hasym hm hV hsub hlen' hhead
  · rfl

/-! ### the complete extraction -/

theorem zip_map_fst_snd {α β : Type} : ∀ (l : List (α × β)), (l.map (·.1)).zip (l.map (·.2)) = l
  | [] => rfl
  | (a, b) :: t => by simp [zip_map_fst_snd t]

/-- what `LinearProgramExtractor().extract(problem)` guarantees about its result -/
structure LPSpec (p : LPProblem) (lp : LPData) : Prop where
  names : lp.variables = p.names
  bounds : lp.bounds = p.vars.map (fun v => (v.lb, v.ub))
  sense : lp.maximize = p.maximize
  objective : ∃ obj, p.objective = some obj ∧ lp.c.length = p.names.length ∧
    ∀ (ρ : String → ℝ) (σ : Nat → ℝ), wsum lp.c (p.names.map ρ) + (lp.c0 : ℝ) = denote ρ σ obj
  ubLen : lp.aub.length = lp.bub.length
  ub : List.Forall₂ (RowOK p.names) (lp.aub.zip lp.bub) (p.constraints.filter fun c => !isEq c.2)
  eqLen : lp.aeq.length = lp.beq.length
  eq : List.Forall₂ (RowOK p.names) (lp.aeq.zip lp.beq) (p.constraints.filter fun c => isEq c.2)

theorem extractLP_spec (p : LPProblem) (lp : LPData) (hn : p.names.Nodup)
    (hobj : ∀ obj, p.objective = some obj → ExprOK p.names obj)
    (hcons : ∀ c ∈ p.constraints, ExprOK p.names c.1)
    (h : extractLP p = .ok lp) : LPSpec p lp := by
  unfold extractLP at h
  simp only [bind_ok] at h
  obtain ⟨⟨c, sense, vars'⟩, hO, h⟩ := h
  simp only at h
  obtain ⟨rows, hR, h⟩ := h
  -- the objective
  unfold extractObjective at hO
  split at hO
  · simp at hO
  · rename_i obj hobjEq
    simp only [hobjEq, bind_ok, pure_ok] at h
    obtain ⟨c0, hc0, h⟩ := h
    split at hO
    · simp at hO
    · simp only [bind_ok, pure_ok, Prod.mk.injEq] at hO
      obtain ⟨c', hc', rfl, rfl, rfl⟩ := hO
      obtain ⟨hlen, hsem⟩ := extractAll_sound hn (hobj obj hobjEq) hc' hc0
      -- the constraints
      unfold extractConstraints at hR
      obtain ⟨ub, eq, h1, h2, h3, h4, h5, h6⟩ :=
        constraintLoop_sound p.names hn p.constraints ⟨[], [], [], []⟩ rows hcons hR
      simp only [List.nil_append] at h1 h2 h3 h4
      subst h
      refine ⟨rfl, rfl, rfl, ⟨obj, hobjEq, hlen, fun ρ σ => (hsem ρ σ).symm⟩, ?_, ?_, ?_, ?_⟩
      · simp [h1, h2]
      · simp only [h1, h2, zip_map_fst_snd]; exact h5
      · simp [h3, h4]
      · simp only [h3, h4, zip_map_fst_snd]; exact h6

end Optyx
