/-
  Optyx.Lemmas.GlueBridge — glue between the vertical slices, needed to compose them:

  * `wfE_of_WF`: the analytic well-formedness `WF` (C02/C03) implies the size
    well-formedness `wfE` of the compiler theorems (C01);
  * `agree_jacEnv`: the environment `Jac.envOf V x` (C03) lists `x` in the order `V`, i.e. it is an
    environment the compiler theorems of C01 speak about (`Agree`).
-/
import Optyx.Lemmas.Regular
import Optyx.Lemmas.CompileReal
import Optyx.Lemmas.JacCompile

namespace Optyx
open Optyx.Py

theorem vecLen_eq (v : Vec) : vecLen v = v.len := by
  cases v <;> rfl

mutual
theorem wfE_of_WF : ∀ (e : Expr), WF e → wfE e = true
  | .const _, _ | .var _, _ | .param _, _ | .vecSum _, _ | .powSum _ _, _ | .unSum _ _, _
  | .matSumV _, _ | .frob _, _ => by simp [wfE]
  | .bin _ l r, h => by
    simp only [WF] at h
    simp [wfE, wfE_of_WF l h.1, wfE_of_WF r h.2]
  | .un _ a, h => by
    simp only [WF] at h
    simp [wfE, wfE_of_WF a h]
  | .linComb cs v, h => by
    simp only [WF] at h
    simp [wfE, wfV_of_WF v h.1, vecLen_eq, h.2]
  | .exprSum es, h => by
    simp only [WF] at h
    simp [wfE, wfL_of_WF es h]
  | .matSumE es, h => by
    simp only [WF] at h
    simp [wfE, wfL_of_WF es h]
  | .dot l r, h => by
    simp only [WF] at h
    simp [wfE, wfV_of_WF l h.1, wfV_of_WF r h.2.1, vecLen_eq, h.2.2.1]
  | .l2 v, h => by
    simp only [WF] at h
    simp [wfE, wfV_of_WF v h]
  | .l1 v, h => by
    simp only [WF] at h
    simp [wfE, wfV_of_WF v h]
  | .quad v q, h => by
    simp only [WF] at h
    simp only [wfE, vecLen_eq, Bool.and_eq_true, beq_iff_eq, List.all_eq_true]
    exact ⟨⟨h.2.1, h.2.2⟩, wfV_of_WF v h.1⟩
theorem wfV_of_WF : ∀ (v : Vec), WFVec v → wfV v = true
  | .vars _, _ => by simp [wfV]
  | .exprs es, h => by
    simp only [WFVec] at h
    simp [wfV, wfL_of_WF es h]
theorem wfL_of_WF : ∀ (es : ExprList), WFList es → wfL es = true
  | .nil, _ => by simp [wfL]
  | .cons e t, h => by
    simp only [WFList] at h
    simp [wfL, wfE_of_WF e h.1, wfL_of_WF t h.2]
end

/-- the environment of C03 lists the point in the declared order: it is an environment in the
    sense of the compiler theorems of C01 -/
theorem agree_jacEnv {V : List Var} (hnd : (names V).Nodup) (x : List ℝ) (hx : x.length = V.length) :
    Agree (Jac.envOf V x) V x := by
  intro i hi
  rw [Jac.envOf_self hnd x hi]
  have hi' : i < x.length := hx ▸ hi
  simp [List.getD_eq_getElem?_getD, List.getElem?_eq_getElem hi']

end Optyx
