/-
  Optyx.Lemmas.IterAssoc — the meaning of a sum / product does not depend on how its terms
  are parenthesised (over ℝ), and the left-spine depth estimate is exact on term-by-term
  accumulations.
-/
import Optyx.Lemmas.Real
import Optyx.Py.Compile

namespace Optyx
open NumAlg

/-- `e` is *some* parenthesisation with the binary operator `op` of the term list `ts`
    (left-deep, right-deep, balanced, …) -/
inductive Paren (op : BinOp) : List Expr → Expr → Prop
  | single (e : Expr) : Paren op [e] e
  | node {l₁ l₂ : List Expr} {a b : Expr} :
      Paren op l₁ a → Paren op l₂ b → Paren op (l₁ ++ l₂) (.bin op a b)

/-- the term-by-term accumulation `acc = t0; for t in ts: acc = acc <op> t` -/
def leftDeep (op : BinOp) (t0 : Expr) (ts : List Expr) : Expr :=
  ts.foldl (fun acc t => .bin op acc t) t0

theorem leftDeep_paren (op : BinOp) (t0 : Expr) (ts : List Expr) : Paren op (t0 :: ts) (leftDeep op t0 ts) := by
  suffices h : ∀ (pre : List Expr) (acc : Expr), Paren op pre acc →
      Paren op (pre ++ ts) (ts.foldl (fun acc t => .bin op acc t) acc) by
    simpa [leftDeep] using h [t0] t0 (.single t0)
  induction ts with
  | nil => intro pre acc h; simpa using h
  | cons t ts ih =>
    intro pre acc h
    have := ih (pre ++ [t]) (.bin op acc t) (.node h (.single t))
    simpa using this

variable (ρ : String → ℝ) (σ : Nat → ℝ)

theorem paren_add {ts : List Expr} {e : Expr} (h : Paren .add ts e) :
    denote ρ σ e = (ts.map (denote ρ σ)).sum := by
  induction h with
  | single e => simp
  | node _ _ iha ihb => simp [denote, iha, ihb]

theorem paren_mul {ts : List Expr} {e : Expr} (h : Paren .mul ts e) :
    denote ρ σ e = (ts.map (denote ρ σ)).prod := by
  induction h with
  | single e => simp
  | node _ _ iha ihb => simp [denote, iha, ihb]

theorem leftDeep_sub (t0 : Expr) (ts : List Expr) :
    denote ρ σ (leftDeep .sub t0 ts) = denote ρ σ t0 - (ts.map (denote ρ σ)).sum := by
  unfold leftDeep
  induction ts generalizing t0 with
  | nil => simp
  | cons t ts ih => simp [ih, denote]; ring

theorem leftDeep_div (t0 : Expr) (ts : List Expr) :
    denote ρ σ (leftDeep .div t0 ts) = denote ρ σ t0 / (ts.map (denote ρ σ)).prod := by
  unfold leftDeep
  induction ts generalizing t0 with
  | nil => simp
  | cons t ts ih => simp [ih, denote, div_div]

theorem denoteList_ofList (ts : List Expr) :
    denoteList ρ σ (ExprList.ofList ts) = ts.map (denote ρ σ) := by
  induction ts with
  | nil => rfl
  | cons t ts ih => simp [ExprList.ofList, denoteList, ih]

/-- the vectorised build `VectorExpression(ts).sum()` -/
theorem exprSum_ofList (ts : List Expr) :
    denote ρ σ (.exprSum (ExprList.ofList ts)) = (ts.map (denote ρ σ)).sum := by
  simp [denote, denoteList_ofList, sum_eq_listSum]

/-! ### the depth estimate on accumulations -/

/-- recursion depth of the recursive traversals through BinaryOp / UnaryOp nodes -/
def heightBU : Expr → Nat
  | .bin _ l r => max (heightBU l) (heightBU r) + 1
  | .un _ a => heightBU a + 1
  | _ => 0

theorem depthC_leftDeep (op : BinOp) (t0 : Expr) (ts : List Expr) :
    Py.depthC (leftDeep op t0 ts) = ts.length + Py.depthC t0 := by
  unfold leftDeep
  induction ts generalizing t0 with
  | nil => simp
  | cons t ts ih => simp [ih, Py.depthC]; omega

theorem heightBU_leftDeep_le (op : BinOp) (t0 : Expr) (ts : List Expr) (h : Nat)
    (h0 : heightBU t0 ≤ h) (hts : ∀ t ∈ ts, heightBU t ≤ h) :
    heightBU (leftDeep op t0 ts) ≤ ts.length + h := by
  unfold leftDeep
  induction ts generalizing t0 h with
  | nil => simpa using h0
  | cons t ts ih =>
    have ht : heightBU t ≤ h := hts t (by simp)
    have := ih (.bin op t0 t) (h + 1) (by simp [heightBU]; omega)
      (fun u hu => Nat.le_succ_of_le (hts u (by simp [hu])))
    simp only [List.foldl_cons, List.length_cons]
    omega

end Optyx
