/-
  Optyx.Lemmas.Deriv — derivatives of the 19 elementary functions in *exactly* the algebraic
  form optyx's rule templates build (before the chain factor), and of the constant-exponent power.
-/
import Optyx.Lemmas.Real

namespace Optyx.Deriv
open Real

theorem d_abs {x : ℝ} (h : x ≠ 0) : HasDerivAt (fun x => |x|) (x / |x|) x := by
  rcases lt_or_gt_of_ne h with h' | h'
  · refine (hasDerivAt_abs_neg h').congr_deriv ?_
    rw [abs_of_neg h']; field_simp
  · refine (hasDerivAt_abs_pos h').congr_deriv ?_
    rw [abs_of_pos h']; field_simp

theorem d_tan {x : ℝ} (h : cos x ≠ 0) : HasDerivAt tan (1 / (cos x * cos x)) x := by
  simpa [sq] using Real.hasDerivAt_tan h

theorem d_log {x : ℝ} (h : 0 < x) : HasDerivAt log (1 / x) x := by
  simpa using Real.hasDerivAt_log h.ne'

theorem d_sqrt {x : ℝ} (h : 0 < x) : HasDerivAt (fun x => √x) (1 / (2 * √x)) x :=
  Real.hasDerivAt_sqrt h.ne'

theorem d_tanh (x : ℝ) : HasDerivAt tanh (1 - tanh x * tanh x) x := by
  have hc : cosh x ≠ 0 := (cosh_pos x).ne'
  have h := (Real.hasDerivAt_sinh x).div (Real.hasDerivAt_cosh x) hc
  have e : tanh = fun y => sinh y / cosh y := by funext y; exact Real.tanh_eq_sinh_div_cosh y
  rw [e]
  refine h.congr_deriv ?_
  have := Real.cosh_sq x
  field_simp

theorem d_asin {x : ℝ} (h1 : -1 < x) (h2 : x < 1) : HasDerivAt arcsin (1 / √(1 - x * x)) x := by
  simpa [sq] using Real.hasDerivAt_arcsin h1.ne' h2.ne

theorem d_acos {x : ℝ} (h1 : -1 < x) (h2 : x < 1) : HasDerivAt arccos (-(1 / √(1 - x * x))) x := by
  simpa [sq] using Real.hasDerivAt_arccos h1.ne' h2.ne

theorem d_atan (x : ℝ) : HasDerivAt arctan (1 / (1 + x * x)) x := by
  simpa [sq] using Real.hasDerivAt_arctan x

theorem d_asinh (x : ℝ) : HasDerivAt arsinh (1 / √(1 + x * x)) x := by
  simpa [sq, one_div] using Real.hasDerivAt_arsinh x

theorem d_acosh {x : ℝ} (h : 1 < x) : HasDerivAt arcosh (1 / √(x * x - 1)) x := by
  simpa [sq, one_div] using Real.hasDerivAt_arcosh (Set.mem_Ioi.mpr h)

theorem d_atanh {x : ℝ} (h1 : -1 < x) (h2 : x < 1) : HasDerivAt artanh (1 / (1 - x * x)) x := by
  have hev : artanh =ᶠ[nhds x] fun y => 1 / 2 * log ((1 + y) / (1 - y)) := by
    have : Set.Ioo (-1:ℝ) 1 ∈ nhds x := Ioo_mem_nhds h1 h2
    filter_upwards [this] with y hy
    exact Real.artanh_eq_half_log ⟨hy.1.le, hy.2.le⟩
  have hp : 0 < 1 + x := by linarith
  have hm : 0 < 1 - x := by linarith
  have hq : HasDerivAt (fun y : ℝ => (1 + y) / (1 - y)) ((1 * (1 - x) - (1 + x) * (-1)) / (1 - x) ^ 2) x :=
    ((hasDerivAt_id' x).const_add 1).div ((hasDerivAt_id' x).const_sub 1) hm.ne'
  have hl := (hq.log (div_pos hp hm).ne').const_mul (1 / 2 : ℝ)
  refine (hl.congr_of_eventuallyEq hev).congr_deriv ?_
  have h3 : (1 - x * x) = (1 + x) * (1 - x) := by ring
  rw [h3]
  have := hp.ne'; have := hm.ne'
  field_simp
  ring

theorem d_logb {b x : ℝ} (hb : 1 < b) (h : 0 < x) :
    HasDerivAt (fun x => logb b x) (1 / (x * log b)) x := by
  have h2 : log b ≠ 0 := (log_pos hb).ne'
  have := (Real.hasDerivAt_log h.ne').div_const (log b)
  refine this.congr_deriv ?_
  field_simp

theorem d_rpow_const {x : ℝ} (p : ℝ) (h : x ≠ 0 ∨ 1 ≤ p) :
    HasDerivAt (fun x => x ^ p) (p * x ^ (p - 1)) x :=
  Real.hasDerivAt_rpow_const h

end Optyx.Deriv
