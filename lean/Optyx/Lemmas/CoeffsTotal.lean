/-
  Optyx.Lemmas.CoeffsTotal — when the extraction does *not* raise: for a linear expression that
  is well formed in the sense of `extractWF` (rational constants, no division by the literal
  `Constant(0)`, coefficient arrays at least as long as their vectors, non-empty vector variables)
  every walker returns a value.  Together with `CoeffsSound` this gives the soundness statements
  in "for all well-formed inputs" form.  Core reasoning only.
-/
import Optyx.Lemmas.CoeffsLP

namespace Optyx
open Optyx.Py

mutual
/-- the inputs on which the extraction walkers cannot raise (given linearity):
    * every `Constant` holds a rational (model boundary: `ln2`/`ln10` have no exact value),
    * no division by the literal `Constant(0)`  (Python: ZeroDivisionError),
    * a `LinearCombination` has at least as many coefficients as elements (constructor: equal),
    * `VectorVariable`s are non-empty (constructor / slicing raise otherwise). -/
def extractWF : Expr → Bool
  | .const c => match c with
    | .rat _ => true
    | _ => false
  | .var _ => true
  | .bin op l r => extractWF l && extractWF r && !(op == .div && isZeroConst r)
  | .un _ a => extractWF a
  | .linComb cs v => match v with
    | .vars vv => decide (vv.vars.length ≤ cs.length) && !vv.vars.isEmpty
    | .exprs es => decide (es.length ≤ cs.length) && extractWFList es
  | .vecSum vv => !vv.vars.isEmpty
  | .param _ => true
  | .exprSum _ => true
  | .dot _ _ => true
  | .l2 _ => true
  | .l1 _ => true
  | .quad _ _ => true
  | .powSum _ _ => true
  | .unSum _ _ => true
  | .matSumV _ => true
  | .matSumE _ => true
  | .frob _ => true
def extractWFList : ExprList → Bool
  | .nil => true
  | .cons e t => extractWF e && extractWFList t
end

theorem extractWF_const {c : Cst} (h : extractWF (.const c) = true) : ∃ q, c = .rat q := by
  cases c <;> simp [extractWF] at h
  exact ⟨_, rfl⟩

theorem ratPowInt_total (a : Rat) (n : ℕ) : ∃ k, ratPowInt a (n : Int) = .ok k := by
  unfold ratPowInt
  simp

/-! ### the constant walker -/

mutual
theorem constTerm_total : (e : Expr) → ∀ (d : ℕ), degree e = some d → extractWF e = true →
    ∃ k, constTerm e = .ok k
  | .const c, _, _, hw => by
    obtain ⟨q, rfl⟩ := extractWF_const hw
    exact ⟨q, by simp [constTerm, cstRat]⟩
  | .var _, _, _, _ => ⟨0, by simp [constTerm]⟩
  | .param _, _, hd, _ => by simp [degree] at hd
  | .vecSum _, _, _, _ => ⟨0, by simp [constTerm]⟩
  | .exprSum _, _, _, _ => ⟨0, by simp [constTerm]⟩
  | .dot _ _, _, _, _ => ⟨0, by simp [constTerm]⟩
  | .l2 _, _, _, _ => ⟨0, by simp [constTerm]⟩
  | .l1 _, _, _, _ => ⟨0, by simp [constTerm]⟩
  | .quad _ _, _, _, _ => ⟨0, by simp [constTerm]⟩
  | .powSum vv q, _, _, _ => ⟨if q == 0 then (vv.vars.length : Rat) else 0, by simp only [constTerm]⟩
  | .unSum _ _, _, _, _ => ⟨0, by simp [constTerm]⟩
  | .matSumV _, _, _, _ => ⟨0, by simp [constTerm]⟩
  | .matSumE _, _, _, _ => ⟨0, by simp [constTerm]⟩
  | .frob _, _, _, _ => ⟨0, by simp [constTerm]⟩
  | .linComb cs v, d, hd, hw => by
    cases v with
    | vars vv => exact ⟨0, by simp [constTerm]⟩
    | exprs es =>
      simp only [degree, vecDegree] at hd
      simp only [extractWF, Bool.and_eq_true, decide_eq_true_eq] at hw
      simpa [constTerm] using constLc_total es 0 d cs 0 hd hw.2 hw.1
  | .un op a, d, hd, hw => by
    cases op <;> simp only [degree] at hd <;> try (simp at hd)
    all_goals simp only [extractWF] at hw
    obtain ⟨x, hx⟩ := constTerm_total a d hd hw
    exact ⟨-x, by simp [constTerm, hx, bind, Except.bind, pure, Except.pure]⟩
  | .bin .add l r, d, hd, hw => by
    obtain ⟨a, b, ha, hb, _⟩ := degree_addsub_some (Or.inl rfl) hd
    simp only [extractWF, Bool.and_eq_true] at hw
    obtain ⟨x, hx⟩ := constTerm_total l a ha hw.1.1
    obtain ⟨y, hy⟩ := constTerm_total r b hb hw.1.2
    exact ⟨x + y, by simp [constTerm, hx, hy, bind, Except.bind, pure, Except.pure]⟩
  | .bin .sub l r, d, hd, hw => by
    obtain ⟨a, b, ha, hb, _⟩ := degree_addsub_some (Or.inr rfl) hd
    simp only [extractWF, Bool.and_eq_true] at hw
    obtain ⟨x, hx⟩ := constTerm_total l a ha hw.1.1
    obtain ⟨y, hy⟩ := constTerm_total r b hb hw.1.2
    exact ⟨x - y, by simp [constTerm, hx, hy, bind, Except.bind, pure, Except.pure]⟩
  | .bin .mul l r, d, hd, hw => by
    obtain ⟨a, b, ha, hb, _, _⟩ := degree_mul_some hd
    simp only [extractWF, Bool.and_eq_true] at hw
    obtain ⟨x, hx⟩ := constTerm_total l a ha hw.1.1
    obtain ⟨y, hy⟩ := constTerm_total r b hb hw.1.2
    simp only [constTerm]
    split
    · rename_i c
      obtain ⟨q, rfl⟩ := extractWF_const hw.1.1
      exact ⟨q * y, by simp [cstRat, hy, bind, Except.bind, pure, Except.pure]⟩
    · split
      · rename_i c
        obtain ⟨q, rfl⟩ := extractWF_const hw.1.2
        exact ⟨x * q, by simp [cstRat, hx, bind, Except.bind, pure, Except.pure]⟩
      · exact ⟨x * y, by simp [hx, hy, bind, Except.bind, pure, Except.pure]⟩
  | .bin .div l r, d, hd, hw => by
    obtain ⟨c, rfl, hl⟩ := degree_div_some hd
    simp only [extractWF, Bool.and_eq_true] at hw
    obtain ⟨q, rfl⟩ := extractWF_const hw.1.2
    obtain ⟨x, hx⟩ := constTerm_total l d hl hw.1.1
    have hq : (q == 0) = false := by simpa [isZeroConst] using hw.2
    exact ⟨x / q, by simp [constTerm, hx, cstRat, ratDiv, hq, bind, Except.bind]⟩
  | .bin .pow l r, d, hd, hw => by
    obtain ⟨q, n, a, rfl, hq, hl, _⟩ := degree_pow_some hd
    simp only [extractWF, Bool.and_eq_true] at hw
    obtain ⟨x, hx⟩ := constTerm_total l a hl hw.1.1
    have hint := cstInt_of_ratNat hq
    obtain ⟨k, hk⟩ := ratPowInt_total x n
    simp only [constTerm, hint]
    split
    · exact ⟨1, rfl⟩
    · exact ⟨k, by simp [hx, hk, bind, Except.bind]⟩
theorem constLc_total : (es : ExprList) → ∀ (acc a : ℕ) (cs : List Rat) (k0 : Rat),
    maxDegList es acc = some a → extractWFList es = true → es.length ≤ cs.length →
    ∃ k, constLc es cs k0 = .ok k
  | .nil, _, _, _, k0, _, _, _ => ⟨k0, rfl⟩
  | .cons e t, acc, a, cs, k0, hd, hw, hlen => by
    simp only [maxDegList] at hd
    split at hd
    · simp at hd
    · rename_i d hde
      simp only [extractWFList, Bool.and_eq_true] at hw
      cases cs with
      | nil => simp [ExprList.length] at hlen
      | cons c cs' =>
        obtain ⟨x, hx⟩ := constTerm_total e d hde hw.1
        obtain ⟨k, hk⟩ := constLc_total t (max acc d) a cs' (k0 + c * x) hd hw.2
          (by simp only [ExprList.length, List.length_cons] at hlen; omega)
        exact ⟨k, by simp [constLc, hx, hk, bind, Except.bind]⟩
end

/-! ### the coefficient walker -/

theorem walkLcVars_total' (V : List String) (vs : List Var) (cs r : List Rat) (m : Rat)
    (h : vs.length ≤ cs.length) : ∃ r', walkLcVars V vs cs r m = .ok r' :=
  walkLcVars_total V vs cs r m h

mutual
theorem walk_total : (e : Expr) → ∀ (d : ℕ) (V : List String) (r : List Rat) (m : Rat),
    degree e = some d → extractWF e = true → ∃ r', walk V e r m = .ok r'
  | .const _, _, _, r, _, _, _ => ⟨r, by simp [walk]⟩
  | .var v, _, V, r, m, _, _ => ⟨addName V r v.name m, by simp only [walk]⟩
  | .param _, _, _, r, _, _, _ => ⟨r, by simp [walk]⟩
  | .vecSum vv, _, V, r, m, _, _ => ⟨walkVars V vv.vars r m, by simp only [walk]⟩
  | .exprSum _, _, _, r, _, _, _ => ⟨r, by simp [walk]⟩
  | .dot _ _, _, _, r, _, _, _ => ⟨r, by simp [walk]⟩
  | .l2 _, _, _, r, _, _, _ => ⟨r, by simp [walk]⟩
  | .l1 _, _, _, r, _, _, _ => ⟨r, by simp [walk]⟩
  | .quad _ _, _, _, r, _, _, _ => ⟨r, by simp [walk]⟩
  | .powSum vv q, _, V, r, m, _, _ => ⟨if q == 1 then walkVars V vv.vars r m else r, by simp only [walk]⟩
  | .unSum _ _, _, _, r, _, _, _ => ⟨r, by simp [walk]⟩
  | .matSumV _, _, _, r, _, _, _ => ⟨r, by simp [walk]⟩
  | .matSumE _, _, _, r, _, _, _ => ⟨r, by simp [walk]⟩
  | .frob _, _, _, r, _, _, _ => ⟨r, by simp [walk]⟩
  | .linComb cs v, d, V, r, m, hd, hw => by
    cases v with
    | vars vv =>
      simp only [extractWF, Bool.and_eq_true, decide_eq_true_eq] at hw
      simpa [walk] using walkLcVars_total V vv.vars cs r m hw.1
    | exprs es =>
      simp only [degree, vecDegree] at hd
      simp only [extractWF, Bool.and_eq_true, decide_eq_true_eq] at hw
      simpa [walk] using walkLc_total es 0 d V cs r m hd hw.2 hw.1
  | .un op a, d, V, r, m, hd, hw => by
    cases op <;> simp only [degree] at hd <;> try (simp at hd)
    all_goals simp only [extractWF] at hw
    simpa [walk] using walk_total a d V r (-m) hd hw
  | .bin .add l rr, d, V, r, m, hd, hw => by
    obtain ⟨a, b, ha, hb, _⟩ := degree_addsub_some (Or.inl rfl) hd
    simp only [extractWF, Bool.and_eq_true] at hw
    obtain ⟨r1, h1⟩ := walk_total l a V r m ha hw.1.1
    obtain ⟨r2, h2⟩ := walk_total rr b V r1 m hb hw.1.2
    exact ⟨r2, by simp [walk, h1, h2, bind, Except.bind]⟩
  | .bin .sub l rr, d, V, r, m, hd, hw => by
    obtain ⟨a, b, ha, hb, _⟩ := degree_addsub_some (Or.inr rfl) hd
    simp only [extractWF, Bool.and_eq_true] at hw
    obtain ⟨r1, h1⟩ := walk_total l a V r m ha hw.1.1
    obtain ⟨r2, h2⟩ := walk_total rr b V r1 (-m) hb hw.1.2
    exact ⟨r2, by simp [walk, h1, h2, bind, Except.bind]⟩
  | .bin .mul l rr, d, V, r, m, hd, hw => by
    obtain ⟨a, b, ha, hb, _, _⟩ := degree_mul_some hd
    simp only [extractWF, Bool.and_eq_true] at hw
    simp only [walk]
    split
    · rename_i c
      obtain ⟨q, rfl⟩ := extractWF_const hw.1.1
      obtain ⟨r1, h1⟩ := walk_total rr b V r (m * q) hb hw.1.2
      exact ⟨r1, by simp [cstRat, h1, bind, Except.bind]⟩
    · split
      · rename_i c
        obtain ⟨q, rfl⟩ := extractWF_const hw.1.2
        obtain ⟨r1, h1⟩ := walk_total l a V r (m * q) ha hw.1.1
        exact ⟨r1, by simp [cstRat, h1, bind, Except.bind]⟩
      · split
        · obtain ⟨k, hk⟩ := constTerm_total l a ha hw.1.1
          obtain ⟨r1, h1⟩ := walk_total rr b V r (m * k) hb hw.1.2
          exact ⟨r1, by simp [hk, h1, bind, Except.bind]⟩
        · split
          · obtain ⟨k, hk⟩ := constTerm_total rr b hb hw.1.2
            obtain ⟨r1, h1⟩ := walk_total l a V r (m * k) ha hw.1.1
            exact ⟨r1, by simp [hk, h1, bind, Except.bind]⟩
          · exact ⟨r, rfl⟩
  | .bin .div l rr, d, V, r, m, hd, hw => by
    obtain ⟨c, rfl, hl⟩ := degree_div_some hd
    simp only [extractWF, Bool.and_eq_true] at hw
    obtain ⟨q, rfl⟩ := extractWF_const hw.1.2
    have hq : (q == 0) = false := by simpa [isZeroConst] using hw.2
    obtain ⟨r1, h1⟩ := walk_total l d V r (m / q) hl hw.1.1
    exact ⟨r1, by simp [walk, cstRat, ratDiv, hq, h1, bind, Except.bind]⟩
  | .bin .pow l rr, d, V, r, m, hd, hw => by
    obtain ⟨q, n, a, rfl, hq, hl, _⟩ := degree_pow_some hd
    simp only [extractWF, Bool.and_eq_true] at hw
    simp only [walk]
    split
    · exact walk_total l a V r m hl hw.1.1
    · exact ⟨r, rfl⟩
theorem walkLc_total : (es : ExprList) → ∀ (acc a : ℕ) (V : List String) (cs r : List Rat) (m : Rat),
    maxDegList es acc = some a → extractWFList es = true → es.length ≤ cs.length →
    ∃ r', walkLc V es cs r m = .ok r'
  | .nil, _, _, _, _, r, _, _, _, _ => ⟨r, rfl⟩
  | .cons e t, acc, a, V, cs, r, m, hd, hw, hlen => by
    simp only [maxDegList] at hd
    split at hd
    · simp at hd
    · rename_i d hde
      simp only [extractWFList, Bool.and_eq_true] at hw
      cases cs with
      | nil => simp [ExprList.length] at hlen
      | cons c cs' =>
        obtain ⟨r1, h1⟩ := walk_total e d V r (c * m) hde hw.1
        obtain ⟨r2, h2⟩ := walkLc_total t (max acc d) a V cs' r1 m hd hw.2
          (by simp only [ExprList.length, List.length_cons] at hlen; omega)
        exact ⟨r2, by simp [walkLc, h1, h2, bind, Except.bind]⟩
end

/-! ### the public entry points -/

theorem isLinear_degree {e : Expr} (h : isLinear e = true) : ∃ d, degree e = some d ∧ d ≤ 1 := by
  unfold isLinear at h
  split at h
  · rename_i d hd; exact ⟨d, hd, by simpa using h⟩
  · simp at h

theorem coversAll_total {V : List String} {vv : VVar} (_h : vv.vars.isEmpty = false) :
    ∃ t, coversAll V vv = .ok t := by
  unfold coversAll
  split
  · exact ⟨_, rfl⟩
  · exact ⟨_, rfl⟩

theorem extractConstantTerm_total {e : Expr} (hlin : isLinear e = true) (hw : extractWF e = true) :
    ∃ k, extractConstantTerm e = .ok k := by
  obtain ⟨d, hd, _⟩ := isLinear_degree hlin
  obtain ⟨k, hk⟩ := constTerm_total e d hd hw
  exact ⟨k, by simp [extractConstantTerm, hlin, hk]⟩

theorem coeffsGeneral_total {e : Expr} (V : List String) (hlin : isLinear e = true) (hw : extractWF e = true) :
    ∃ cs, coeffsGeneral e V = .ok cs := by
  obtain ⟨d, hd, _⟩ := isLinear_degree hlin
  exact walk_total e d V _ 1 hd hw

theorem nodeCovers_total {V : List String} {e : Expr} (hw : extractWF e = true) :
    ∀ vv, (e = .vecSum vv ∨ ∃ cs, e = .linComb cs (.vars vv)) → ∃ t, coversAll V vv = .ok t := by
  intro vv h
  rcases h with rfl | ⟨cs, rfl⟩
  · exact coversAll_total (by simpa [extractWF] using hw)
  · simp only [extractWF, Bool.and_eq_true, decide_eq_true_eq] at hw
    exact coversAll_total (by simpa using hw.2)

theorem fastBinop_total {V : List String} {op : BinOp} {l r : Expr}
    (hl : extractWF l = true) (hr : extractWF r = true) : ∃ f, fastBinop V op l r = .ok f := by
  unfold fastBinop
  split
  · split
    · rename_i vv
      obtain ⟨t, ht⟩ := nodeCovers_total (V := V) hl vv (Or.inl rfl)
      simp only [ht, bind, Except.bind]
      split <;> exact ⟨_, rfl⟩
    · rename_i cs vv
      obtain ⟨t, ht⟩ := nodeCovers_total (V := V) hl vv (Or.inr ⟨cs, rfl⟩)
      simp only [ht, bind, Except.bind]
      split <;> exact ⟨_, rfl⟩
    · exact ⟨_, rfl⟩
  · split
    · split
      · rename_i c vv
        obtain ⟨t, ht⟩ := nodeCovers_total (V := V) hr vv (Or.inl rfl)
        obtain ⟨q, rfl⟩ := extractWF_const hl
        simp only [ht, bind, Except.bind]
        split <;> exact ⟨_, rfl⟩
      · rename_i vv c
        obtain ⟨t, ht⟩ := nodeCovers_total (V := V) hl vv (Or.inl rfl)
        obtain ⟨q, rfl⟩ := extractWF_const hr
        simp only [ht, bind, Except.bind]
        split <;> exact ⟨_, rfl⟩
      · exact ⟨_, rfl⟩
    · exact ⟨_, rfl⟩

/-- `extract_all_linear_coefficients` does not raise on a well-formed linear expression -/
theorem extractAll_total {e : Expr} (V : List String) (hlin : isLinear e = true) (hw : extractWF e = true) :
    ∃ cs, extractAll e V = .ok cs := by
  obtain ⟨g, hg⟩ := coeffsGeneral_total V hlin hw
  unfold extractAll
  simp only [hlin, Bool.not_true, Bool.false_eq_true, if_false]
  split
  · rename_i vv
    obtain ⟨t, ht⟩ := nodeCovers_total (V := V) hw vv (Or.inl rfl)
    simp only [ht, bind, Except.bind]
    split
    · exact ⟨_, rfl⟩
    · exact ⟨g, hg⟩
  · rename_i cs vv
    obtain ⟨t, ht⟩ := nodeCovers_total (V := V) hw vv (Or.inr ⟨cs, rfl⟩)
    simp only [ht, bind, Except.bind]
    split
    · exact ⟨_, rfl⟩
    · exact ⟨g, hg⟩
  · rename_i op l r
    simp only [extractWF, Bool.and_eq_true] at hw
    obtain ⟨f, hf⟩ := fastBinop_total (V := V) (op := op) hw.1.1 hw.1.2
    simp only [hf, bind, Except.bind]
    split
    · exact ⟨_, rfl⟩
    · exact ⟨g, hg⟩
  · exact ⟨g, hg⟩

/-! ### the LP extractor does not raise on a well-formed linear problem -/

theorem constraintLoop_total (V : List String) : ∀ (cons : List (Expr × Sense)) (acc : Rows),
    (∀ c ∈ cons, isLinear c.1 = true ∧ extractWF c.1 = true) → ∃ out, constraintLoop V cons acc = .ok out
  | [], acc, _ => ⟨acc, rfl⟩
  | (e, s) :: t, acc, h => by
    obtain ⟨hlin, hw⟩ := h (e, s) (by simp)
    have ht : ∀ c ∈ t, isLinear c.1 = true ∧ extractWF c.1 = true := fun c hc => h c (by simp [hc])
    obtain ⟨row, hrow⟩ := extractAll_total V hlin hw
    obtain ⟨k, hk⟩ := extractConstantTerm_total hlin hw
    simp only [constraintLoop, hlin, Bool.not_true, Bool.false_eq_true, if_false, hrow, hk, bind, Except.bind]
    cases s <;> exact constraintLoop_total V t _ ht

theorem extractLP_total (p : LPProblem) (obj : Expr) (ho : p.objective = some obj)
    (hobj : isLinear obj = true ∧ extractWF obj = true)
    (hcons : ∀ c ∈ p.constraints, isLinear c.1 = true ∧ extractWF c.1 = true) :
    ∃ lp, extractLP p = .ok lp := by
  obtain ⟨c, hc⟩ := extractAll_total p.names hobj.1 hobj.2
  obtain ⟨k, hk⟩ := extractConstantTerm_total hobj.1 hobj.2
  obtain ⟨rows, hrows⟩ := constraintLoop_total p.names p.constraints ⟨[], [], [], []⟩ hcons
  have hrows' : extractConstraints p p.vars = .ok rows := by
    simpa [extractConstraints, LPProblem.names] using hrows
  have hO : extractObjective p = .ok (c, p.maximize, p.vars) := by
    simp only [extractObjective, ho, hobj.1, Bool.not_true, Bool.false_eq_true, if_false, hc, bind,
      Except.bind, pure, Except.pure]
  unfold extractLP
  simp only [hO, hrows', ho, hk, bind, Except.bind, pure, Except.pure]
  exact ⟨_, rfl⟩

end Optyx
