/-
  Optyx.Lemmas.Regular — the two side conditions of the analytic theorems.

  `WF e`        API well-formedness: what every constructor of the public API establishes
                (vector variables have pairwise distinct element names, coefficient / matrix
                sizes match, equal object id ⇒ equal element list).  The harness only feeds
                objects built through the real API, and `Py/VecApi` (C11) proves the
                constructors preserve it.
  `Regular ρ σ e`  regular point: every denominator ≠ 0, log/sqrt arguments > 0, |·| argument ≠ 0,
                cos ≠ 0 under tan, |a| < 1 under asin/acos/atanh, a > 1 under acosh, base > 0 for
                non-integer or non-constant exponents, base ≠ 0 for integer exponents < 1, norms
                away from the origin.  Exactly the points where NumPy's value is finite and the
                derivative exists; the excluded points are the subject of C19.
-/
import Optyx.Lemmas.Real

namespace Optyx
open NumAlg

def names (vs : List Var) : List String := vs.map (·.name)

def WFVVar (v : VVar) : Prop := (names v.vars).Nodup

mutual
def Vec.len : Vec → Nat
  | .vars v => v.vars.length
  | .exprs es => es.length
end

mutual
def WF : Expr → Prop
  | .const _ | .var _ | .param _ => True
  | .bin _ l r => WF l ∧ WF r
  | .un _ a => WF a
  | .linComb cs v => WFVec v ∧ cs.length = v.len
  | .vecSum v => WFVVar v
  | .exprSum es => WFList es
  | .dot l r => WFVec l ∧ WFVec r ∧ l.len = r.len ∧
      (match l, r with
        | .vars lv, .vars rv => lv.oid = rv.oid → lv.vars = rv.vars
        | _, _ => True)
  | .l2 v => WFVec v
  | .l1 v => WFVec v
  | .quad v q => WFVec v ∧ q.length = v.len ∧ ∀ row ∈ q, row.length = v.len
  | .powSum v _ => WFVVar v
  | .unSum v _ => WFVVar v
  | .matSumV _ => True
  | .matSumE es => WFList es
  | .frob _ => True
def WFVec : Vec → Prop
  | .vars v => WFVVar v
  | .exprs es => WFList es
def WFList : ExprList → Prop
  | .nil => True
  | .cons e t => WF e ∧ WFList t
end

/-- regular-point condition of one unary function at argument value `a` -/
def unReg : UnOp → ℝ → Prop
  | .abs, a => a ≠ 0
  | .tan, a => Real.cos a ≠ 0
  | .log, a | .log2, a | .log10, a | .sqrt, a => 0 < a
  | .asin, a | .acos, a | .atanh, a => -1 < a ∧ a < 1
  | .acosh, a => 1 < a
  | _, _ => True

/-- regular-point condition of `base ** k` for a literal exponent `k` -/
def powReg (k : Rat) (base : ℝ) : Prop :=
  (k.den = 1 → base ≠ 0 ∨ 1 ≤ k) ∧ (k.den ≠ 1 → 0 < base)

variable (ρ : String → ℝ) (σ : Nat → ℝ)

mutual
def Regular : Expr → Prop
  | .const _ | .var _ | .param _ => True
  | .bin .div l r => Regular l ∧ Regular r ∧ denote ρ σ r ≠ 0
  | .bin .pow l r => Regular l ∧ Regular r ∧
      (match r with
        | .const (.rat k) => k = 0 ∨ k = 1 ∨ powReg k (denote ρ σ l)
        | _ => 0 < denote ρ σ l)
  | .bin _ l r => Regular l ∧ Regular r
  | .un op a => Regular a ∧ unReg op (denote ρ σ a)
  | .linComb _ v => RegularVec v
  | .vecSum _ => True
  | .exprSum es => RegularList es
  | .dot l r => RegularVec l ∧ RegularVec r
  | .l2 v => RegularVec v ∧ 0 < dotp (denoteVec ρ σ v) (denoteVec ρ σ v)
  | .l1 v => RegularVec v ∧ ∀ a ∈ denoteVec ρ σ v, a ≠ 0
  | .quad v _ => RegularVec v
  | .powSum v k => k = 1 ∨ k = 2 ∨ ∀ y ∈ v.vars, powReg k (ρ y.name)
  | .unSum v op => ∀ y ∈ v.vars, unReg op.toUn (ρ y.name)
  | .matSumV _ => True
  | .matSumE es => RegularList es
  | .frob m => 0 < dotp (valsOf ρ m.flat) (valsOf ρ m.flat)
def RegularVec : Vec → Prop
  | .vars _ => True
  | .exprs es => RegularList es
def RegularList : ExprList → Prop
  | .nil => True
  | .cons e t => Regular e ∧ RegularList t
end

end Optyx
