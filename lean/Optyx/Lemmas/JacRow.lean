/-
  Optyx.Lemmas.JacRow — every `jacobian_row` implementation produces, entry by entry, an expression
  with the same meaning as `gradient(e, V[j])` (over ℝ, for every environment).
-/
import Optyx.Lemmas.JacLookup

namespace Optyx.Py.Jac
open Optyx Optyx.Py Optyx.Generated NumAlg

variable (ρ : String → ℝ) (σ : Nat → ℝ)

/-- `row` is, entry by entry, semantically the gradient of `e` w.r.t. the declared variables -/
def RowOK (e : Expr) (row : List Expr) (V : List Var) : Prop :=
  List.Forall₂ (fun r v => denote ρ σ r = denote ρ σ (grad v e)) row V

theorem rowOK_map {e : Expr} {V : List Var} {g : Var → Expr}
    (h : ∀ v, denote ρ σ (g v) = denote ρ σ (grad v e)) : RowOK ρ σ e (V.map g) V := by
  unfold RowOK
  induction V with
  | nil => exact List.Forall₂.nil
  | cons v t ih => exact List.Forall₂.cons (h v) ih

theorem forall₂_map_left {α β γ : Type} {R : β → γ → Prop} {f : α → β} {l : List α} {m : List γ}
    (h : List.Forall₂ (fun a c => R (f a) c) l m) : List.Forall₂ R (l.map f) m := by
  induction h with
  | nil => exact List.Forall₂.nil
  | cons hab _ ih => exact List.Forall₂.cons hab ih

/-! ### leaf-level facts -/

theorem denote_scaleLeft (c : Cst) (a : Expr) :
    denote ρ σ (scaleLeft c a) = (cst c : ℝ) * denote ρ σ a := by
  unfold scaleLeft
  split
  · simp [denote]
  · simp [denote]

theorem denote_scaleRight (c : Cst) (a : Expr) :
    denote ρ σ (scaleRight c a) = (cst c : ℝ) * denote ρ σ a := by
  unfold scaleRight
  split
  · simp [denote]
  · simp [denote]
  · simp [denote, mul_comm]

theorem denote_unSumJacRow (op : VOp) (a b : Var) (h : a.name = b.name) :
    denote ρ σ (unSumJacRow op (.var a)) = denote ρ σ (unSumDeriv op (.var b)) := by
  cases op <;> simp [unSumJacRow, unSumDeriv, denote, h]

theorem powSum_entry (v : VVar) (k : Rat) (w : Var) :
    denote ρ σ (if hasName w.name v.vars then powRowEntry k w else Expr.c 0)
      = denote ρ σ (grad w (.powSum v k)) := by
  simp only [grad, powSumRule]
  by_cases h : hasName w.name v.vars = true
  · obtain ⟨xv, h1, h2, _⟩ := find?_some_of h
    rw [h1]
    simp only [h, ite_true, powRowEntry]
    split
    · rfl
    · split
      · simp [denote, h2]
      · simp [denote, h2]
  · have h' : hasName w.name v.vars = false := by simpa using h
    rw [find?_eq_none_of h']
    simp [h']

theorem unSum_entry (v : VVar) (op : VOp) (w : Var) :
    denote ρ σ (if hasName w.name v.vars then unSumJacRow op (.var w) else Expr.c 0)
      = denote ρ σ (grad w (.unSum v op)) := by
  simp only [grad, unSumRule]
  by_cases h : hasName w.name v.vars = true
  · obtain ⟨xv, h1, h2, _⟩ := find?_some_of h
    rw [h1]
    simp only [h, ite_true]
    exact denote_unSumJacRow ρ σ op w xv h2.symm
  · have h' : hasName w.name v.vars = false := by simpa using h
    rw [find?_eq_none_of h']
    simp [h']

theorem linComb_entry (cs : List Rat) (v : VVar) (hwf : WFVVar v) (w : Var) :
    denote ρ σ (Expr.c ((dictGet w.name (v.vars.zip cs)).getD 0))
      = denote ρ σ (grad w (.linComb cs (.vars v))) := by
  simp only [grad, linCombRule]
  rw [dictGet_zip hwf cs]
  cases h : findName w.name v.vars with
  | none => simp
  | some i => simp [List.getD_eq_getElem?_getD]

theorem quad_entry (v : VVar) (q : List (List Rat)) (hwf : WFVVar v) (w : Var) :
    denote ρ σ (match dictGet w.name v.vars.zipIdx with
        | some i => Expr.linComb ((qsym q).getD i []) (.vars v)
        | none => Expr.c 0)
      = denote ρ σ (grad w (.quad (.vars v) q)) := by
  simp only [grad, quadRule]
  rw [dictGet_zipIdx hwf 0]
  cases h : findName w.name v.vars with
  | none => simp
  | some i => simp

theorem findName_getElem {x : String} {vs : List Var} {i : Nat} (h : findName x vs = some i) :
    ∃ hi : i < vs.length, vs[i].name = x := by
  induction vs generalizing i with
  | nil => simp [findName] at h
  | cons y t ih =>
    unfold findName at h
    by_cases hy : y.name = x
    · simp [hy] at h; subst h; exact ⟨by simp, by simpa using hy⟩
    · simp only [hy, beq_iff_eq, ite_false, Option.map_eq_some_iff] at h
      obtain ⟨j, hj, rfl⟩ := h
      obtain ⟨hj', hn⟩ := ih hj
      exact ⟨by simp; omega, by simpa using hn⟩

theorem dot_entry (l r : VVar) (hl : WFVVar l) (hr : WFVVar r) (hlen : l.vars.length = r.vars.length)
    (hid : l.oid = r.oid → l.vars = r.vars) (V : List Var) :
    RowOK ρ σ (.dot (.vars l) (.vars r)) (dotRow V l r) V := by
  unfold dotRow
  by_cases ho : l.oid = r.oid
  · have hv := hid ho
    simp only [ho, beq_self_eq_true, ite_true]
    apply rowOK_map
    intro w
    simp only [grad, dotRule, ho, beq_self_eq_true, ite_true, ← hv]
    cases hd : dictGet w.name (l.vars.map fun v => (v, Expr.bin .mul (Expr.c 2) (.var v))) with
    | none =>
      have hn : w.name ∉ names l.vars := by
        intro hm
        have := dictGet_none_iff.mp hd
        simp only [names, List.mem_map] at hm
        obtain ⟨y, hy, hyn⟩ := hm
        exact this (y, _) (List.mem_map.mpr ⟨y, hy, rfl⟩) hyn
      rw [findName_eq_none.mpr hn]
      simp
    | some e =>
      obtain ⟨k, hk, hkn⟩ := dictGet_some hd
      simp only [List.mem_map, Prod.mk.injEq] at hk
      obtain ⟨y, hy, hyk, hye⟩ := hk
      subst hyk; subst hye
      have hm : w.name ∈ names l.vars := by
        simp only [names, List.mem_map]; exact ⟨y, hy, hkn⟩
      cases hf : findName w.name l.vars with
      | none => exact absurd hm (findName_eq_none.mp hf)
      | some i => simp [denote, hkn]
  · have ho' : (l.oid == r.oid) = false := by simpa using ho
    simp only [ho', Bool.false_eq_true, ite_false]
    apply rowOK_map
    intro w
    simp only [grad, dotRule, ho', Bool.false_eq_true, ite_false, Vec.elems]
    rw [dictGet_zip hl r.vars, dictGet_zip hr l.vars]
    cases hfl : findName w.name l.vars with
    | none =>
      cases hfr : findName w.name r.vars with
      | none => simp
      | some j =>
        obtain ⟨hj, _⟩ := findName_getElem hfr
        have hj' : j < l.vars.length := by omega
        simp [hj', denote]
    | some i =>
      obtain ⟨hi, _⟩ := findName_getElem hfl
      have hi' : i < r.vars.length := by omega
      cases hfr : findName w.name r.vars with
      | none => simp [hi', denote]
      | some j =>
        obtain ⟨hj, _⟩ := findName_getElem hfr
        have hj' : j < l.vars.length := by omega
        simp [hi', hj', denote]

/-! ### the theorem -/

theorem grad_add_const (w : Var) (l : Expr) (c : Cst) :
    denote ρ σ (grad w (.bin .add l (.const c))) = denote ρ σ (grad w l) := by
  simp [grad, binaryRule]

theorem grad_sub_const (w : Var) (l : Expr) (c : Cst) :
    denote ρ σ (grad w (.bin .sub l (.const c))) = denote ρ σ (grad w l) := by
  simp [grad, binaryRule]

theorem grad_const_add (w : Var) (r : Expr) (c : Cst) :
    denote ρ σ (grad w (.bin .add (.const c) r)) = denote ρ σ (grad w r) := by
  simp [grad, binaryRule]

theorem grad_const_mul (w : Var) (r : Expr) (c : Cst) :
    denote ρ σ (grad w (.bin .mul (.const c) r)) = (cst c : ℝ) * denote ρ σ (grad w r) := by
  simp [grad, binaryRule, denote]

theorem grad_mul_const (w : Var) (l : Expr) (c : Cst) :
    denote ρ σ (grad w (.bin .mul l (.const c))) = (cst c : ℝ) * denote ρ σ (grad w l) := by
  simp [grad, binaryRule, denote]

theorem jacRow_ok (V : List Var) : (e : Expr) → WF e → (row : List Expr) → jacRow V e = some row →
    RowOK ρ σ e row V
  | .bin op l r, hwf, row, h => by
    have hwl : WF l := by unfold WF at hwf; exact hwf.1
    have hwr : WF r := by unfold WF at hwf; exact hwf.2
    -- the chain of cases of the regenerated `BinaryOp.jacobian_row`
    simp only [jacRow, binJacRow] at h
    split at h
    · -- f ± c
      rename_i hc
      simp only [Bool.and_eq_true, Bool.or_eq_true, beq_iff_eq] at hc
      obtain ⟨hop, hcr⟩ := hc
      cases r <;> simp [isConstE] at hcr
      rename_i c
      rcases hop with rfl | rfl
      · exact (jacRow_ok V _ hwl row h).imp fun a b hab => by rw [hab, grad_add_const]
      · exact (jacRow_ok V _ hwl row h).imp fun a b hab => by rw [hab, grad_sub_const]
    · split at h
      · -- c + f
        rename_i _ hc
        simp only [Bool.and_eq_true, beq_iff_eq] at hc
        obtain ⟨rfl, hcl⟩ := hc
        cases l <;> simp [isConstE] at hcl
        exact (jacRow_ok V _ hwr row h).imp fun a b hab => by rw [hab, grad_const_add]
      · split at h
        · -- c * f
          rename_i row' hrow
          split at hrow
          · rename_i hc
            simp only [Bool.and_eq_true, beq_iff_eq] at hc
            obtain ⟨rfl, hcl⟩ := hc
            cases l <;> simp [isConstE] at hcl
            rename_i c
            simp only [Option.some.injEq] at h
            subst h
            exact forall₂_map_left ((jacRow_ok V _ hwr row' hrow).imp fun a b hab => by
              rw [cstOf, denote_scaleLeft, hab, grad_const_mul])
          · cases hrow
        · split at h
          · -- f * c
            rename_i row' hrow
            split at hrow
            · rename_i hc
              simp only [Bool.and_eq_true, beq_iff_eq] at hc
              obtain ⟨rfl, hcr⟩ := hc
              cases r <;> simp [isConstE] at hcr
              rename_i c
              simp only [Option.some.injEq] at h
              subst h
              exact forall₂_map_left ((jacRow_ok V _ hwl row' hrow).imp fun a b hab => by
                rw [cstOf, denote_scaleRight, hab, grad_mul_const])
            · cases hrow
          · cases h
  | .vecSum v, _, row, h => by
    simp only [jacRow, Option.some.injEq] at h
    subst h
    exact rowOK_map ρ σ fun w => rfl
  | .dot (.vars l) (.vars r), hwf, row, h => by
    simp only [jacRow, Option.some.injEq] at h
    subst h
    unfold WF at hwf
    obtain ⟨hl, hr, hlen, hid⟩ := hwf
    exact dot_entry ρ σ l r hl hr hlen hid V
  | .linComb cs (.vars v), hwf, row, h => by
    simp only [jacRow, Option.some.injEq] at h
    subst h
    unfold WF at hwf
    exact rowOK_map ρ σ fun w => linComb_entry ρ σ cs v hwf.1 w
  | .powSum v k, _, row, h => by
    simp only [jacRow, Option.some.injEq] at h
    subst h
    exact rowOK_map ρ σ fun w => powSum_entry ρ σ v k w
  | .unSum v op, _, row, h => by
    simp only [jacRow, Option.some.injEq] at h
    subst h
    exact rowOK_map ρ σ fun w => unSum_entry ρ σ v op w
  | .matSumV m, _, row, h => by
    simp only [jacRow, Option.some.injEq] at h
    subst h
    exact rowOK_map ρ σ fun w => rfl
  | .quad (.vars v) q, hwf, row, h => by
    simp only [jacRow, Option.some.injEq] at h
    subst h
    unfold WF at hwf
    exact rowOK_map ρ σ fun w => quad_entry ρ σ v q hwf.1 w
  | .const _, _, _, h => by simp [jacRow] at h
  | .var _, _, _, h => by simp [jacRow] at h
  | .param _, _, _, h => by simp [jacRow] at h
  | .un _ _, _, _, h => by simp [jacRow] at h
  | .exprSum _, _, _, h => by simp [jacRow] at h
  | .l2 _, _, _, h => by simp [jacRow] at h
  | .l1 _, _, _, h => by simp [jacRow] at h
  | .matSumE _, _, _, h => by simp [jacRow] at h
  | .frob _, _, _, h => by simp [jacRow] at h
  | .dot (.exprs _) _, _, _, h => by simp [jacRow] at h
  | .dot (.vars _) (.exprs _), _, _, h => by simp [jacRow] at h
  | .linComb _ (.exprs _), _, _, h => by simp [jacRow] at h
  | .quad (.exprs _) _, _, _, h => by simp [jacRow] at h

/-- the row `compute_jacobian` uses for one expression (own row, or element-wise gradients) -/
theorem jacobianRow_ok (V : List Var) (e : Expr) (hwf : WF e) : RowOK ρ σ e (jacobianRow V e) V := by
  unfold jacobianRow
  cases h : jacRow V e with
  | some row => exact jacRow_ok ρ σ V e hwf row h
  | none => exact rowOK_map ρ σ fun w => rfl

theorem RowOK.length {e : Expr} {row : List Expr} {V : List Var} (h : RowOK ρ σ e row V) :
    row.length = V.length := List.Forall₂.length_eq h

theorem RowOK.get {e : Expr} {row : List Expr} {V : List Var} (h : RowOK ρ σ e row V)
    (j : Nat) (hj : j < V.length) :
    ∃ hr : j < row.length, denote ρ σ row[j] = denote ρ σ (grad V[j] e) := by
  have hl := h.length
  refine ⟨by omega, ?_⟩
  exact List.Forall₂.get h _ _

end Optyx.Py.Jac
