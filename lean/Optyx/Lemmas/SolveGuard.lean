/-
  Optyx.Lemmas.SolveGuard — lemmas for C18: "the guard raises before anything observable happens"
  (for every world, faults included), the shape of the event list of a fault-free solve, and the frame
  property (no model function reads `domain` except the guard).  Core Lean only.
-/
import Optyx.Lemmas.Solve

namespace Optyx.Py.Solve

/-- `m` appends no event -/
def TraceQuiet {α} (m : M α) : Prop := ∀ s, (m s).2.trace = s.trace
/-- `m` ends in an exception without having appended any event -/
def Blocked {α} (m : M α) : Prop := ∀ s, ∃ e, (m s).1 = .exc e ∧ (m s).2.trace = s.trace

theorem Blocked.raise {α} (e : Exc) : Blocked (raise e : M α) := fun _ => ⟨e, rfl, rfl⟩

theorem Blocked.bind {α β} {m : M α} {f : α → M β} (hm : TraceQuiet m) (hf : ∀ a, Blocked (f a)) :
    Blocked (m >>= f) := by
  intro s
  have h1 := hm s
  rw [bind_apply]
  generalize m s = ms at h1
  obtain ⟨r, s'⟩ := ms
  cases r with
  | ok a =>
    obtain ⟨e, he, ht⟩ := hf a s'
    exact ⟨e, he, by rw [ht]; exact h1⟩
  | exc e => exact ⟨e, rfl, h1⟩

theorem Blocked.bind_left {α β} {m : M α} {f : α → M β} (hm : Blocked m) : Blocked (m >>= f) := by
  intro s
  obtain ⟨e, he, ht⟩ := hm s
  rw [bind_apply]
  generalize m s = ms at he ht
  obtain ⟨r, s'⟩ := ms
  simp only at he
  subst he
  exact ⟨e, rfl, ht⟩

theorem TraceQuiet.fire (f p st) : TraceQuiet (fire f p st) := by
  intro s
  simp only [Solve.fire]
  cases Fault.hits f p st <;> rfl

theorem TraceQuiet.pure {α} (a : α) : TraceQuiet (pure a : M α) := fun _ => rfl

theorem TraceQuiet.isLinearProblem (w p) : TraceQuiet (isLinearProblem w p) := by
  intro s
  unfold Solve.isLinearProblem
  rw [bind_apply]
  simp only [getState]
  cases s.linCache with
  | some b => rfl
  | none =>
    dsimp only
    rw [bind_apply]
    simp only [Solve.fire]
    cases Fault.hits w.fault 0 .isLinear <;> rfl

/-- the non-continuous variables of the problem -/
def Problem.D (p : Problem) : List PVar := nonContinuous p.vars

theorem guard_blocked (w pass solver) (vars : List PVar) (hD : nonContinuous vars ≠ []) :
    Blocked (guard w pass solver true vars) := by
  unfold Solve.guard
  have : (nonContinuous vars).isEmpty = false := by
    cases h : nonContinuous vars with
    | nil => exact absurd h hD
    | cons _ _ => rfl
  simp only [this, Bool.false_eq_true, ↓reduceIte]
  exact .raise _

theorem vars_nonempty_of_D {vars : List PVar} (hD : nonContinuous vars ≠ []) : vars.isEmpty = false := by
  cases vars with
  | nil => simp [nonContinuous] at hD
  | cons _ _ => rfl

theorem scipyPass_blocked (w p) (o : Opts) (pass method) (hs : o.strict = true) (hD : p.D ≠ []) :
    Blocked (scipyPass w p o pass method) := by
  unfold Solve.scipyPass
  refine .bind (.fire _ _ _) fun _ => ?_
  simp only [vars_nonempty_of_D hD, Bool.false_eq_true, ↓reduceIte, hs]
  exact .bind_left (guard_blocked _ _ _ _ hD)

theorem solveScipyF_blocked (w p) (o : Opts) (k pass method) (hs : o.strict = true) (hD : p.D ≠ []) :
    Blocked (solveScipyF w p o k pass method) := by
  cases k with
  | zero => exact .raise _
  | succ k =>
    unfold Solve.solveScipyF
    exact .bind_left (scipyPass_blocked w p o pass method hs hD)

theorem solveLP_blocked (w p m) (hD : p.D ≠ []) : Blocked (solveLP w p m true) := by
  unfold Solve.solveLP
  split
  · exact .raise _
  · refine .bind (.fire _ _ _) fun _ => ?_
    split
    · exact .raise _
    · split
      · exact .raise _
      · exact .bind (.fire _ _ _) fun _ => .bind_left (guard_blocked _ _ _ _ hD)

theorem solve_blocked (w p) (o : Opts) (hs : o.strict = true) (hD : p.D ≠ []) : Blocked (solve w p o) := by
  unfold Solve.solve
  split
  · exact .raise _
  · refine .bind ?_ fun lin => .bind ?_ fun _ => ?_
    · split
      · exact .isLinearProblem _ _
      · exact .pure _
    · split
      · exact .fire _ _ _
      · exact .pure _
    · split
      · rw [hs]; exact solveLP_blocked _ _ _ hD
      · exact solveScipyF_blocked _ _ _ _ _ _ hs hD

/-! ### the event list of a fault-free solve -/

/-- every solver call is immediately preceded by a relaxation warning naming exactly `names`
    (and every such warning is followed by a solver call) -/
def Guarded (names : List String) : List Event → Prop
  | [] => True
  | .warnRelax _ ns :: ev :: rest => ns = names ∧ ev.isSolverCall = true ∧ Guarded names rest
  | ev :: rest => ev.isSolverCall = false ∧ ev.isWarnRelax = false ∧ Guarded names rest

/-- no solver call at all -/
def NoSolverCall (evs : List Event) : Prop := ∀ ev ∈ evs, ev.isSolverCall = false

theorem guardPure_relaxed (solver : String) (vars : List PVar) (hD : nonContinuous vars ≠ []) :
    guardPure solver false vars = (none, [.warnRelax solver ((nonContinuous vars).map (·.name))]) := by
  unfold guardPure
  have : (nonContinuous vars).isEmpty = false := by
    cases h : nonContinuous vars with
    | nil => exact absurd h hD
    | cons _ _ => rfl
  simp [this]

theorem guardPure_strict (solver : String) (vars : List PVar) (hD : nonContinuous vars ≠ []) :
    guardPure solver true vars = (some (.integerVariable solver ((nonContinuous vars).map (·.name))), []) := by
  unfold guardPure
  have : (nonContinuous vars).isEmpty = false := by
    cases h : nonContinuous vars with
    | nil => exact absurd h hD
    | cons _ _ => rfl
  simp [this]

theorem guardPure_continuous (solver : String) (strict : Bool) (vars : List PVar) (hD : nonContinuous vars = []) :
    guardPure solver strict vars = (none, []) := by
  unfold guardPure
  simp [hD]



def isRetry : Res (Option Solution) → Bool
  | .ok none => true
  | _ => false

/-- events of one fault-free pass, given what the guard emits (`warn`) -/
theorem passPure_events (w : World) (p : Problem) (o : Opts) (pass : Nat) (m : String) (warn : List Event)
    (hv : p.vars.isEmpty = false) (hg : guardPure "SciPy" o.strict p.vars = (none, warn)) :
    (passPure w p o pass m).2 =
      warn ++ [.minimizeCall (minArgs p o m (hessFlag o m))] ++ (if isRetry (passPure w p o pass m).1 then [.warnRetry] else []) := by
  unfold passPure
  simp only [hv, Bool.false_eq_true, ↓reduceIte, hg]
  cases postPass (p.cfg o) m (if (pass == 0) = true then w.r1 else w.r2) <;> simp [isRetry]

theorem scipyPure_events (w : World) (p : Problem) (o : Opts) (m : String) (warn : List Event)
    (hv : p.vars.isEmpty = false) (hg : guardPure "SciPy" o.strict p.vars = (none, warn)) :
    let a1 := Event.minimizeCall (minArgs p o m (hessFlag o m))
    let a2 := Event.minimizeCall (minArgs p o "trust-constr" (hessFlag o "trust-constr"))
    (scipyPure w p o m).2 = warn ++ [a1]
    ∨ (scipyPure w p o m).2 = warn ++ [a1] ++ [.warnRetry] ++ (warn ++ [a2])
    ∨ (scipyPure w p o m).2 = warn ++ [a1] ++ [.warnRetry] ++ (warn ++ [a2] ++ [.warnRetry]) := by
  intro a1 a2
  unfold scipyPure
  simp only [scipyPureF]
  have e1 := passPure_events w p o 0 m warn hv hg
  have e2 := passPure_events w p o (0 + 1) "trust-constr" warn hv hg
  rcases h1 : passPure w p o 0 m with ⟨r1, ev1⟩
  rw [h1] at e1
  cases r1 with
  | exc e => left; simpa [isRetry] using e1
  | ok x =>
    cases x with
    | some s => left; simpa [isRetry] using e1
    | none =>
      simp only [isRetry, ↓reduceIte] at e1
      right
      rcases h2 : passPure w p o (0 + 1) "trust-constr" with ⟨r2, ev2⟩
      rw [h2] at e2
      cases r2 with
      | exc e => left; simp only [e1]; simp only [isRetry] at e2; simp [e2, a1, a2]
      | ok y =>
        cases y with
        | some s => left; simp only [e1]; simp only [isRetry] at e2; simp [e2, a1, a2]
        | none => right; simp only [e1]; simp only [isRetry] at e2; simp [e2, a1, a2]

theorem lpPure_events (w : World) (p : Problem) (m : Option String) (strict : Bool) (warn : List Event)
    (hg : guardPure "linprog" strict p.vars = (none, warn)) :
    (lpPure w p m strict).2 = [] ∨ (lpPure w p m strict).2 = warn ++ [.linprogCall (linArgs p (m.getD "highs"))] := by
  unfold lpPure
  split
  · left; rfl
  · split
    · left; rfl
    · split
      · left; rfl
      · right
        simp only [hg]
        cases postSolveLP p.lpInfo w.lr <;> rfl

/-! ### the frame property: only the guard reads `domain` -/

theorem relax_nonContinuous (p : Problem) : nonContinuous p.relax.vars = [] := by
  simp [Problem.relax, nonContinuous, List.filter_eq_nil_iff]

theorem relax_isEmpty (p : Problem) : p.relax.vars.isEmpty = p.vars.isEmpty := by
  simp [Problem.relax]

theorem relax_cfg (p : Problem) (o : Opts) : p.relax.cfg o = p.cfg o := by
  simp [Problem.relax, Problem.cfg, PVar.bnd, Function.comp_def]

theorem relax_bnds (p : Problem) : p.relax.vars.map PVar.bnd = p.vars.map PVar.bnd := by
  simp [Problem.relax, PVar.bnd, Function.comp_def]

theorem relax_minArgs (p : Problem) (o : Opts) (m : String) (h : Bool) : minArgs p.relax o m h = minArgs p o m h := by
  unfold minArgs
  rw [relax_bnds, relax_isEmpty]
  rfl

theorem relax_lpInfo (p : Problem) : p.relax.lpInfo = p.lpInfo := by
  simp [Problem.relax, Problem.lpInfo, Function.comp_def]

theorem relax_linArgs (p : Problem) (m : String) : linArgs p.relax m = linArgs p m := by
  unfold linArgs
  rw [relax_bnds, relax_lpInfo]

theorem relax_isLinear (p : Problem) : p.relax.isLinear = p.isLinear := rfl

def notWarn (ev : Event) : Bool := !ev.isWarnRelax

/-- what a non-strict guard emits: nothing, or one relaxation warning -/
theorem guardPure_nonstrict (solver : String) (vars : List PVar) :
    ∃ warn, guardPure solver false vars = (none, warn) ∧ warn.filter notWarn = [] := by
  by_cases hD : nonContinuous vars = []
  · exact ⟨[], guardPure_continuous _ _ _ hD, rfl⟩
  · exact ⟨_, guardPure_relaxed _ _ hD, rfl⟩

theorem passPure_relax (w : World) (p : Problem) (o : Opts) (pass : Nat) (m : String) (hs : o.strict = false) :
    passPure w p.relax o pass m = ((passPure w p o pass m).1, (passPure w p o pass m).2.filter notWarn) := by
  obtain ⟨warn, hg, hf⟩ := guardPure_nonstrict "SciPy" p.vars
  unfold passPure
  rw [relax_isEmpty, relax_cfg, relax_minArgs, guardPure_continuous _ _ _ (relax_nonContinuous p), hs, hg]
  split
  · rfl
  · dsimp only
    cases postPass (p.cfg o) m (if (pass == 0) = true then w.r1 else w.r2) <;>
      simp [List.filter_append, hf, notWarn, Event.isWarnRelax]

theorem scipyPureF_relax (w : World) (p : Problem) (o : Opts) (hs : o.strict = false) (k pass : Nat) (m : String) :
    scipyPureF w p.relax o k pass m = ((scipyPureF w p o k pass m).1, (scipyPureF w p o k pass m).2.filter notWarn) := by
  induction k generalizing pass m with
  | zero => rfl
  | succ k ih =>
    simp only [scipyPureF]
    rw [passPure_relax w p o pass m hs, ih]
    rcases passPure w p o pass m with ⟨r, evs⟩
    cases r with
    | exc e => rfl
    | ok a =>
      cases a with
      | some s => rfl
      | none => simp [List.filter_append]

theorem lpPure_relax (w : World) (p : Problem) (m : Option String) :
    lpPure w p.relax m false = ((lpPure w p m false).1, (lpPure w p m false).2.filter notWarn) := by
  obtain ⟨warn, hg, hf⟩ := guardPure_nonstrict "linprog" p.vars
  unfold lpPure
  rw [relax_linArgs, relax_lpInfo, guardPure_continuous _ _ _ (relax_nonContinuous p), hg]
  have h1 : p.relax.hasObjective = p.hasObjective := rfl
  have h2 : p.relax.objLinear = p.objLinear := rfl
  have h3 : p.relax.cons = p.cons := rfl
  rw [h1, h2, h3]
  split
  · rfl
  · split
    · rfl
    · split
      · rfl
      · dsimp only
        cases postSolveLP p.lpInfo w.lr <;> simp [List.filter_append, hf, notWarn, Event.isWarnRelax]

/-! ### a non-strict solve never raises the guard's error -/

def Exc.isGuardError : Exc → Bool
  | .integerVariable _ _ => true
  | _ => false

theorem postPass_raised {c m r e} (h : postPass c m r = .raised e) : e = .index := by
  unfold postPass at h
  split at h
  · injection h with h; exact h.symm
  · dsimp only at h
    split at h <;> cases h

theorem passPure_exc (w : World) (p : Problem) (o : Opts) (pass : Nat) (m : String) (hs : o.strict = false) (e : Exc)
    (h : (passPure w p o pass m).1 = .exc e) : e.isGuardError = false := by
  obtain ⟨warn, hg, _⟩ := guardPure_nonstrict "SciPy" p.vars
  unfold passPure at h
  rw [hs, hg] at h
  split at h
  · cases h
  · dsimp only at h
    split at h
    · rename_i e' he'
      injection h with h; subst h
      rw [postPass_raised he']; rfl
    · cases h
    · cases h

theorem scipyPureF_exc (w : World) (p : Problem) (o : Opts) (hs : o.strict = false) (k pass : Nat) (m : String) (e : Exc)
    (h : (scipyPureF w p o k pass m).1 = .exc e) : e.isGuardError = false := by
  induction k generalizing pass m with
  | zero => simp only [scipyPureF] at h; injection h with h; subst h; rfl
  | succ k ih =>
    simp only [scipyPureF] at h
    rcases hp : passPure w p o pass m with ⟨r, evs⟩
    rw [hp] at h
    cases r with
    | exc e' =>
      dsimp only at h
      injection h with h; subst h
      exact passPure_exc w p o pass m hs _ (by rw [hp])
    | ok a =>
      cases a with
      | some s => cases h
      | none => exact ih _ _ h

theorem lpPure_exc (w : World) (p : Problem) (m : Option String) (e : Exc)
    (h : (lpPure w p m false).1 = .exc e) : e.isGuardError = false := by
  obtain ⟨warn, hg, _⟩ := guardPure_nonstrict "linprog" p.vars
  unfold lpPure at h
  rw [hg] at h
  split at h
  · injection h with h; subst h; rfl
  · split at h
    · injection h with h; subst h; rfl
    · split at h
      · injection h with h; subst h; rfl
      · dsimp only at h
        split at h
        · cases h
        · rename_i e' he'
          injection h with h; subst h
          unfold postSolveLP at he'
          split at he'
          · cases he'
          · split at he'
            · injection he' with he'; subst he'; rfl
            · cases he'

theorem solvePure_exc (w : World) (p : Problem) (o : Opts) (hs : o.strict = false) (e : Exc)
    (h : (solvePure w p o).1 = .exc e) : e.isGuardError = false := by
  unfold solvePure at h
  split at h
  · injection h with h; subst h; rfl
  · cases hr : route o.method p.isLinear p.objDeg (p.cons.map (·.deg)) with
    | lp m => rw [hr, hs] at h; exact lpPure_exc w p m e h
    | scipy m => rw [hr] at h; exact scipyPureF_exc w p o hs _ _ _ e h

end Optyx.Py.Solve
