/-
  Optyx.Lemmas.CompileSound — the inductions behind C01: tree evaluation computes the meaning,
  the recursive builder is total and sound.  Mutual structural recursion over Expr/Vec/ExprList.
-/
import Optyx.Lemmas.CompileBasic

set_option linter.unusedSectionVars false

namespace Optyx.Py
open Optyx NumAlg

variable {α : Type} [NumAlg α]

/-! ### lengths -/

mutual
theorem denoteVec_length (ρ : String → α) (σ : Nat → α) : ∀ v : Vec, (denoteVec ρ σ v).length = vecLen v
  | .vars v => by simp [denoteVec, vecLen, valsOf]
  | .exprs es => by simp [denoteVec, vecLen, denoteList_length ρ σ es]
theorem denoteList_length (ρ : String → α) (σ : Nat → α) : ∀ es : ExprList, (denoteList ρ σ es).length = es.length
  | .nil => by simp [denoteList, ExprList.length]
  | .cons e t => by simp [denoteList, ExprList.length, denoteList_length ρ σ t]
end

theorem npDotC_ok (cs : List Rat) (xs : List α) (h : cs.length = xs.length) :
    npDotC cs xs = .ok (wsum cs xs) := by simp [npDotC, h]

theorem npDot_ok (xs ys : List α) (h : xs.length = ys.length) :
    npDot xs ys = .ok (dotp xs ys) := by simp [npDot, h]

theorem npQuad_ok (q : List (List Rat)) (xs : List α) (h1 : q.length = xs.length)
    (h2 : q.all (fun row => row.length == xs.length) = true) : npQuad q xs = .ok (quadForm q xs) := by
  simp only [npQuad]
  rw [if_pos ⟨h1, h2⟩]

/-! ### `evaluate` computes the meaning -/

mutual
theorem evaluate_denote [AddLaws α] (values : String → Option α) (ρ : String → α) (σ : Nat → α) :
    ∀ e : Expr, wfE e = true → (∀ v ∈ getVars e, values v.name = some (ρ v.name)) →
      evaluate values σ e = .ok (denote ρ σ e)
  | .const c, _, _ => by simp [evaluate, denote]
  | .var v, _, h => by simp [evaluate, denote, lookupVal, h v (by simp [getVars])]
  | .param p, _, _ => by simp [evaluate, denote]
  | .bin op l r, hwf, h => by
    simp only [wfE, Bool.and_eq_true] at hwf
    have hl := evaluate_denote values ρ σ l hwf.1 (fun v hv => h v (by simp [getVars, hv]))
    have hr := evaluate_denote values ρ σ r hwf.2 (fun v hv => h v (by simp [getVars, hv]))
    simp [evaluate, denote, hl, hr]
  | .un op a, hwf, h => by
    simp only [wfE] at hwf
    have ha := evaluate_denote values ρ σ a hwf (fun v hv => h v (by simpa [getVars] using hv))
    simp [evaluate, denote, ha]
  | .linComb cs v, hwf, h => by
    simp only [wfE, Bool.and_eq_true, beq_iff_eq] at hwf
    have hv := evaluateVec_denote values ρ σ v hwf.2 (fun w hw => h w (by simpa [getVars] using hw))
    have hlen : cs.length = (denoteVec ρ σ v).length := by rw [denoteVec_length]; exact hwf.1
    simp [evaluate, denote, hv, npDotC_ok cs (denoteVec ρ σ v) hlen]
  | .vecSum v, _, h => by
    simp [evaluate, denote, evalVars_ok values ρ v.vars (fun w hw => h w (by simpa [getVars] using hw))]
  | .exprSum es, hwf, h => by
    simp only [wfE] at hwf
    have hes := evaluateList_denote values ρ σ es hwf (fun w hw => h w (by simpa [getVars] using hw))
    simp [evaluate, denote, hes, pySum_eq_sum]
  | .dot l r, hwf, h => by
    simp only [wfE, Bool.and_eq_true, beq_iff_eq] at hwf
    have hl := evaluateVec_denote values ρ σ l hwf.1.2 (fun w hw => h w (by simp [getVars, hw]))
    have hr := evaluateVec_denote values ρ σ r hwf.2 (fun w hw => h w (by simp [getVars, hw]))
    have hlen : (denoteVec ρ σ l).length = (denoteVec ρ σ r).length := by
      rw [denoteVec_length, denoteVec_length]; exact hwf.1.1
    simp [evaluate, denote, hl, hr, npDot_ok _ _ hlen]
  | .l2 v, hwf, h => by
    simp only [wfE] at hwf
    have hv := evaluateVec_denote values ρ σ v hwf (fun w hw => h w (by simpa [getVars] using hw))
    simp [evaluate, denote, hv, pySum_eq_sum, dotp_self]
  | .l1 v, hwf, h => by
    simp only [wfE] at hwf
    have hv := evaluateVec_denote values ρ σ v hwf (fun w hw => h w (by simpa [getVars] using hw))
    simp [evaluate, denote, hv, pySum_eq_sum]
  | .quad v q, hwf, h => by
    simp only [wfE, Bool.and_eq_true, beq_iff_eq] at hwf
    have hv := evaluateVec_denote values ρ σ v hwf.2 (fun w hw => h w (by simpa [getVars] using hw))
    have h1 : q.length = (denoteVec ρ σ v).length := by rw [denoteVec_length]; exact hwf.1.1
    have h2 : q.all (fun row => row.length == (denoteVec ρ σ v).length) = true := by
      rw [denoteVec_length]; exact hwf.1.2
    simp [evaluate, denote, hv, npQuad_ok q _ h1 h2]
  | .powSum v k, _, h => by
    simp [evaluate, denote, evalVars_ok values ρ v.vars (fun w hw => h w (by simpa [getVars] using hw))]
  | .unSum v op, _, h => by
    simp [evaluate, denote, evalVars_ok values ρ v.vars (fun w hw => h w (by simpa [getVars] using hw))]
  | .matSumV m, _, h => by
    simp [evaluate, denote, pySum_eq_sum,
      evalVars_ok values ρ m.flat (fun w hw => h w (by simpa [getVars] using hw))]
  | .matSumE es, hwf, h => by
    simp only [wfE] at hwf
    have hes := evaluateList_denote values ρ σ es hwf (fun w hw => h w (by simpa [getVars] using hw))
    simp [evaluate, denote, hes]
  | .frob m, _, h => by
    simp [evaluate, denote, pySum_eq_sum, dotp_self,
      evalVars_ok values ρ m.flat (fun w hw => h w (by simpa [getVars] using hw))]
theorem evaluateVec_denote [AddLaws α] (values : String → Option α) (ρ : String → α) (σ : Nat → α) :
    ∀ v : Vec, wfV v = true → (∀ w ∈ getVarsVec v, values w.name = some (ρ w.name)) →
      evaluateVec values σ v = .ok (denoteVec ρ σ v)
  | .vars vv, _, h => by
    simp [evaluateVec, denoteVec, evalVars_ok values ρ vv.vars (fun w hw => h w (by simpa [getVarsVec] using hw))]
  | .exprs es, hwf, h => by
    simp only [wfV] at hwf
    simp [evaluateVec, denoteVec,
      evaluateList_denote values ρ σ es hwf (fun w hw => h w (by simpa [getVarsVec] using hw))]
theorem evaluateList_denote [AddLaws α] (values : String → Option α) (ρ : String → α) (σ : Nat → α) :
    ∀ es : ExprList, wfL es = true → (∀ w ∈ getVarsList es, values w.name = some (ρ w.name)) →
      evaluateList values σ es = .ok (denoteList ρ σ es)
  | .nil, _, _ => by simp [evaluateList, denoteList]
  | .cons e t, hwf, h => by
    simp only [wfL, Bool.and_eq_true] at hwf
    have he := evaluate_denote values ρ σ e hwf.1 (fun w hw => h w (by simp [getVarsList, hw]))
    have ht := evaluateList_denote values ρ σ t hwf.2 (fun w hw => h w (by simp [getVarsList, hw]))
    simp [evaluateList, denoteList, he, ht]
end

/-! ### the recursive builder: totality -/

theorem bind_eq_ok {ε β γ : Type} (x : Except ε β) (f : β → Except ε γ) (b : γ) :
    (x >>= f) = .ok b ↔ ∃ a, x = .ok a ∧ f a = .ok b := by
  cases x <;> simp

mutual
theorem compile_total' (idx : String → Option Nat) :
    ∀ e : Expr, (∀ v ∈ getVars e, (idx v.name).isSome) → ∃ c, compile idx e = .ok c
  | .const c, _ => ⟨_, rfl⟩
  | .param p, _ => ⟨_, rfl⟩
  | .var v, h => by
    obtain ⟨i, hi⟩ := Option.isSome_iff_exists.mp (h v (by simp [getVars]))
    exact ⟨.idx i, by simp [compile, lookupIdx, hi]⟩
  | .bin op l r, h => by
    obtain ⟨cl, hl⟩ := compile_total' idx l (fun v hv => h v (by simp [getVars, hv]))
    obtain ⟨cr, hr⟩ := compile_total' idx r (fun v hv => h v (by simp [getVars, hv]))
    exact ⟨.bin op cl cr, by simp [compile, hl, hr]⟩
  | .un op a, h => by
    obtain ⟨ca, ha⟩ := compile_total' idx a (fun v hv => h v (by simpa [getVars] using hv))
    exact ⟨.un op ca, by simp [compile, ha]⟩
  | .linComb cs v, h => by
    obtain ⟨vf, hv⟩ := compileVec_total' idx v (fun w hw => h w (by simpa [getVars] using hw))
    cases vf with
    | gather is => exact ⟨.dotIdx cs is, by simp [compile, hv]⟩
    | fns fs => exact ⟨.dotFns cs fs, by simp [compile, hv]⟩
  | .vecSum v, h => by
    obtain ⟨is, his, _⟩ := lookupIdxs_ok (idx := idx) v.vars (fun w hw => h w (by simpa [getVars] using hw))
    exact ⟨.sumIdx is, by simp [compile, his]⟩
  | .exprSum es, h => by
    obtain ⟨fs, hfs⟩ := compileList_total' idx es (fun w hw => h w (by simpa [getVars] using hw))
    exact ⟨.sumFns fs, by simp [compile, hfs]⟩
  | .dot l r, h => by
    obtain ⟨lf, hl⟩ := compileVec_total' idx l (fun w hw => h w (by simp [getVars, hw]))
    obtain ⟨rf, hr⟩ := compileVec_total' idx r (fun w hw => h w (by simp [getVars, hw]))
    exact ⟨.dotVV lf rf, by simp [compile, hl, hr]⟩
  | .l2 v, h => by
    obtain ⟨vf, hv⟩ := compileVec_total' idx v (fun w hw => h w (by simpa [getVars] using hw))
    exact ⟨.norm vf, by simp [compile, hv]⟩
  | .l1 v, h => by
    obtain ⟨vf, hv⟩ := compileVec_total' idx v (fun w hw => h w (by simpa [getVars] using hw))
    exact ⟨.sumAbs vf, by simp [compile, hv]⟩
  | .quad v q, h => by
    obtain ⟨vf, hv⟩ := compileVec_total' idx v (fun w hw => h w (by simpa [getVars] using hw))
    exact ⟨.quad vf q, by simp [compile, hv]⟩
  | .powSum v k, h => by
    obtain ⟨is, his, _⟩ := lookupIdxs_ok (idx := idx) v.vars (fun w hw => h w (by simpa [getVars] using hw))
    exact ⟨.powSumIdx is k, by simp [compile, his]⟩
  | .unSum v op, h => by
    obtain ⟨is, his, _⟩ := lookupIdxs_ok (idx := idx) v.vars (fun w hw => h w (by simpa [getVars] using hw))
    exact ⟨.unSumIdx is op, by simp [compile, his]⟩
  | .matSumV m, h => by
    obtain ⟨fs, hfs⟩ := compileVars_ok (idx := idx) m.flat (fun w hw => h w (by simpa [getVars] using hw))
    exact ⟨.sumFns fs, by simp [compile, hfs]⟩
  | .matSumE es, h => by
    obtain ⟨fs, hfs⟩ := compileList_total' idx es (fun w hw => h w (by simpa [getVars] using hw))
    exact ⟨.sumFns fs, by simp [compile, hfs]⟩
  | .frob m, h => by
    obtain ⟨fs, hfs⟩ := compileVars_ok (idx := idx) m.flat (fun w hw => h w (by simpa [getVars] using hw))
    exact ⟨.sqrtSumSq fs, by simp [compile, hfs]⟩
theorem compileVec_total' (idx : String → Option Nat) :
    ∀ v : Vec, (∀ w ∈ getVarsVec v, (idx w.name).isSome) → ∃ vf, compileVec idx v = .ok vf
  | .vars vv, h => by
    obtain ⟨is, his, _⟩ := lookupIdxs_ok (idx := idx) vv.vars (fun w hw => h w (by simpa [getVarsVec] using hw))
    exact ⟨.gather is, by simp [compileVec, his]⟩
  | .exprs es, h => by
    obtain ⟨fs, hfs⟩ := compileList_total' idx es (fun w hw => h w (by simpa [getVarsVec] using hw))
    exact ⟨.fns fs, by simp [compileVec, hfs]⟩
theorem compileList_total' (idx : String → Option Nat) :
    ∀ es : ExprList, (∀ w ∈ getVarsList es, (idx w.name).isSome) → ∃ fs, compileList idx es = .ok fs
  | .nil, _ => ⟨.nil, rfl⟩
  | .cons e t, h => by
    obtain ⟨c, hc⟩ := compile_total' idx e (fun w hw => h w (by simp [getVarsList, hw]))
    obtain ⟨fs, hfs⟩ := compileList_total' idx t (fun w hw => h w (by simp [getVarsList, hw]))
    exact ⟨.cons c fs, by simp [compileList, hc, hfs]⟩
end

/-! ### the recursive builder: soundness of every closure it returns -/

section sound
variable {idx : String → Option Nat} {V : List Var} (hidx : IdxSound idx V)
  {ρ : String → α} {x : List α} (hx : Agree ρ V x) (σ : Nat → α)
include hidx hx

mutual
theorem compile_run [AddLaws α] :
    ∀ (e : Expr) (c : Clo), wfE e = true → compile idx e = .ok c → Clo.run x σ c = .ok (denote ρ σ e)
  | .const k, c, _, hc => by
    simp only [compile, Except.ok.injEq] at hc; subst hc; simp [Clo.run, denote]
  | .param p, c, _, hc => by
    simp only [compile, Except.ok.injEq] at hc; subst hc; simp [Clo.run, denote]
  | .var v, c, _, hc => by
    simp only [compile, lookupIdx] at hc
    cases hv : idx v.name with
    | none => simp [hv] at hc
    | some i =>
      simp only [hv, ok_bind, pure_eq_ok, Except.ok.injEq] at hc; subst hc
      simp [Clo.run, denote, getIdx_ok hidx hx hv]
  | .bin op l r, c, hwf, hc => by
    simp only [wfE, Bool.and_eq_true] at hwf
    simp only [compile, bind_eq_ok, pure_eq_ok, Except.ok.injEq] at hc
    obtain ⟨cl, hl, cr, hr, rfl⟩ := hc
    simp [Clo.run, denote, compile_run l cl hwf.1 hl, compile_run r cr hwf.2 hr]
  | .un op a, c, hwf, hc => by
    simp only [wfE] at hwf
    simp only [compile, bind_eq_ok, pure_eq_ok, Except.ok.injEq] at hc
    obtain ⟨ca, ha, rfl⟩ := hc
    simp [Clo.run, denote, compile_run a ca hwf ha]
  | .linComb cs v, c, hwf, hc => by
    simp only [wfE, Bool.and_eq_true, beq_iff_eq] at hwf
    simp only [compile, bind_eq_ok] at hc
    obtain ⟨vf, hv, hc⟩ := hc
    have hrun := compileVec_run v vf hwf.2 hv
    have hlen : cs.length = (denoteVec ρ σ v).length := by rw [denoteVec_length]; exact hwf.1
    cases vf with
    | gather is =>
      simp only [pure_eq_ok, Except.ok.injEq] at hc; subst hc
      simp only [VClo.run] at hrun
      simp [Clo.run, denote, hrun, npDotC_ok cs (denoteVec ρ σ v) hlen]
    | fns fs =>
      simp only [pure_eq_ok, Except.ok.injEq] at hc; subst hc
      simp only [VClo.run] at hrun
      simp [Clo.run, denote, hrun, npDotC_ok cs (denoteVec ρ σ v) hlen]
  | .vecSum v, c, _, hc => by
    simp only [compile, bind_eq_ok, pure_eq_ok, Except.ok.injEq] at hc
    obtain ⟨is, his, rfl⟩ := hc
    simp [Clo.run, denote, gather_ok hidx hx v.vars his]
  | .exprSum es, c, hwf, hc => by
    simp only [wfE] at hwf
    simp only [compile, bind_eq_ok, pure_eq_ok, Except.ok.injEq] at hc
    obtain ⟨fs, hfs, rfl⟩ := hc
    simp [Clo.run, denote, compileList_run es fs hwf hfs, pySum_eq_sum]
  | .dot l r, c, hwf, hc => by
    simp only [wfE, Bool.and_eq_true, beq_iff_eq] at hwf
    simp only [compile, bind_eq_ok, pure_eq_ok, Except.ok.injEq] at hc
    obtain ⟨lf, hl, rf, hr, rfl⟩ := hc
    have hlen : (denoteVec ρ σ l).length = (denoteVec ρ σ r).length := by
      rw [denoteVec_length, denoteVec_length]; exact hwf.1.1
    simp [Clo.run, denote, compileVec_run l lf hwf.1.2 hl, compileVec_run r rf hwf.2 hr, npDot_ok _ _ hlen]
  | .l2 v, c, hwf, hc => by
    simp only [wfE] at hwf
    simp only [compile, bind_eq_ok, pure_eq_ok, Except.ok.injEq] at hc
    obtain ⟨vf, hv, rfl⟩ := hc
    simp [Clo.run, denote, compileVec_run v vf hwf hv]
  | .l1 v, c, hwf, hc => by
    simp only [wfE] at hwf
    simp only [compile, bind_eq_ok, pure_eq_ok, Except.ok.injEq] at hc
    obtain ⟨vf, hv, rfl⟩ := hc
    simp [Clo.run, denote, compileVec_run v vf hwf hv]
  | .quad v q, c, hwf, hc => by
    simp only [wfE, Bool.and_eq_true, beq_iff_eq] at hwf
    simp only [compile, bind_eq_ok, pure_eq_ok, Except.ok.injEq] at hc
    obtain ⟨vf, hv, rfl⟩ := hc
    have h1 : q.length = (denoteVec ρ σ v).length := by rw [denoteVec_length]; exact hwf.1.1
    have h2 : q.all (fun row => row.length == (denoteVec ρ σ v).length) = true := by
      rw [denoteVec_length]; exact hwf.1.2
    simp [Clo.run, denote, compileVec_run v vf hwf.2 hv, npQuad_ok q _ h1 h2]
  | .powSum v k, c, _, hc => by
    simp only [compile, bind_eq_ok, pure_eq_ok, Except.ok.injEq] at hc
    obtain ⟨is, his, rfl⟩ := hc
    simp [Clo.run, denote, gather_ok hidx hx v.vars his]
  | .unSum v op, c, _, hc => by
    simp only [compile, bind_eq_ok, pure_eq_ok, Except.ok.injEq] at hc
    obtain ⟨is, his, rfl⟩ := hc
    simp [Clo.run, denote, gather_ok hidx hx v.vars his]
  | .matSumV m, c, _, hc => by
    simp only [compile, bind_eq_ok, pure_eq_ok, Except.ok.injEq] at hc
    obtain ⟨fs, hfs, rfl⟩ := hc
    simp [Clo.run, denote, compileVars_run hidx hx σ m.flat hfs, pySum_eq_sum]
  | .matSumE es, c, hwf, hc => by
    simp only [wfE] at hwf
    simp only [compile, bind_eq_ok, pure_eq_ok, Except.ok.injEq] at hc
    obtain ⟨fs, hfs, rfl⟩ := hc
    simp [Clo.run, denote, compileList_run es fs hwf hfs, pySum_eq_sum]
  | .frob m, c, _, hc => by
    simp only [compile, bind_eq_ok, pure_eq_ok, Except.ok.injEq] at hc
    obtain ⟨fs, hfs, rfl⟩ := hc
    simp [Clo.run, denote, compileVars_run hidx hx σ m.flat hfs, pySum_eq_sum, dotp_self]
theorem compileVec_run [AddLaws α] :
    ∀ (v : Vec) (vf : VClo), wfV v = true → compileVec idx v = .ok vf →
      VClo.run x σ vf = .ok (denoteVec ρ σ v)
  | .vars vv, vf, _, hc => by
    simp only [compileVec, bind_eq_ok, pure_eq_ok, Except.ok.injEq] at hc
    obtain ⟨is, his, rfl⟩ := hc
    simp [VClo.run, denoteVec, gather_ok hidx hx vv.vars his]
  | .exprs es, vf, hwf, hc => by
    simp only [wfV] at hwf
    simp only [compileVec, bind_eq_ok, pure_eq_ok, Except.ok.injEq] at hc
    obtain ⟨fs, hfs, rfl⟩ := hc
    simp [VClo.run, denoteVec, compileList_run es fs hwf hfs]
theorem compileList_run [AddLaws α] :
    ∀ (es : ExprList) (fs : CloList), wfL es = true → compileList idx es = .ok fs →
      CloList.run x σ fs = .ok (denoteList ρ σ es)
  | .nil, fs, _, hc => by
    simp only [compileList, Except.ok.injEq] at hc; subst hc; simp [CloList.run, denoteList]
  | .cons e t, fs, hwf, hc => by
    simp only [wfL, Bool.and_eq_true] at hwf
    simp only [compileList, bind_eq_ok, pure_eq_ok, Except.ok.injEq] at hc
    obtain ⟨c, he, gs, ht, rfl⟩ := hc
    simp [CloList.run, denoteList, compile_run e c hwf.1 he, compileList_run t gs hwf.2 ht]
end
end sound

end Optyx.Py
