/-
  Optyx.Lemmas.GradVec — list-level calculus used by the vector rules of the differentiator:
  families of functions with pointwise derivatives (`HD`), derivatives of sums, weighted sums,
  dot products, norms, and the *values* of the Python accumulator loops (left folds through the
  simplifiers).
-/
import Optyx.Lemmas.Simplify
import Optyx.Lemmas.Deriv
import Optyx.Lemmas.Regular
import Optyx.Py.Grad

namespace Optyx
open NumAlg Optyx.Generated Optyx.Py

/-- `fs[i]` has derivative `ds[i]` at `a`, for every `i` (and the lists have equal length). -/
def HD (a : ℝ) (fs : List (ℝ → ℝ)) (ds : List ℝ) : Prop :=
  List.Forall₂ (fun f d => HasDerivAt f d a) fs ds

def at_ (fs : List (ℝ → ℝ)) (t : ℝ) : List ℝ := fs.map (· t)

@[simp] theorem at_nil (t : ℝ) : at_ [] t = [] := rfl
@[simp] theorem at_cons (f : ℝ → ℝ) (fs) (t : ℝ) : at_ (f :: fs) t = f t :: at_ fs t := rfl

theorem HD.length {a fs ds} (h : HD a fs ds) : fs.length = ds.length := List.Forall₂.length_eq h

theorem HD.sum {a fs ds} (h : HD a fs ds) :
    HasDerivAt (fun t => NumAlg.sum (at_ fs t)) (NumAlg.sum ds) a := by
  induction h with
  | nil => simpa using hasDerivAt_const a (0:ℝ)
  | cons hf _ ih => simpa using hf.fun_add ih

theorem HD.wsum {a fs ds} (h : HD a fs ds) (cs : List Rat) :
    HasDerivAt (fun t => NumAlg.wsum cs (at_ fs t)) (NumAlg.wsum cs ds) a := by
  induction h generalizing cs with
  | nil => simpa using hasDerivAt_const a (0:ℝ)
  | cons hf _ ih =>
    cases cs with
    | nil => simpa using hasDerivAt_const a (0:ℝ)
    | cons c cs => simpa using (hf.const_mul (c:ℝ)).fun_add (ih cs)

/-- derivative value of a dot product: Σ (f_i·e_i + g_i·d_i) -/
def dotD : List ℝ → List ℝ → List ℝ → List ℝ → ℝ
  | f :: fv, g :: gv, d :: ds, e :: es => (f * e + g * d) + dotD fv gv ds es
  | _, _, _, _ => 0

theorem HD.dotp {a fs ds gs es} (h1 : HD a fs ds) (h2 : HD a gs es) :
    HasDerivAt (fun t => NumAlg.dotp (at_ fs t) (at_ gs t))
      (dotD (at_ fs a) (at_ gs a) ds es) a := by
  induction h1 generalizing gs es with
  | nil => simpa [dotD] using hasDerivAt_const a (0:ℝ)
  | cons hf _ ih =>
    cases h2 with
    | nil => simpa [dotD] using hasDerivAt_const a (0:ℝ)
    | cons hg h2' =>
      refine ((hf.fun_mul hg).fun_add (ih h2')).congr_deriv ?_
      simp [dotD]; ring

/-- Σ |f_i| -/
theorem HD.l1 {a fs ds} (h : HD a fs ds) (hne : ∀ v ∈ at_ fs a, v ≠ 0) :
    HasDerivAt (fun t => NumAlg.sum ((at_ fs t).map (unop .abs)))
      (NumAlg.sum ((List.zip (at_ fs a) ds).map fun p => p.1 / |p.1| * p.2)) a := by
  induction h with
  | nil => simpa using hasDerivAt_const a (0:ℝ)
  | @cons f d fs ds hf _ ih =>
    have hfa : f a ≠ 0 := hne (f a) (by simp)
    have h1 : HasDerivAt (fun t => |f t|) (f a / |f a| * d) a :=
      (Deriv.d_abs hfa).comp a hf
    simpa using h1.fun_add (ih (fun v hv => hne v (by simp [hv])))

/-! ### values of the accumulator loops (left folds through the simplifiers) -/

section values
variable (ρ : String → ℝ) (σ : Nat → ℝ)

local notation "⟪" e "⟫" => denote ρ σ e

theorem denote_foldl_sAdd (dv : List Expr) (acc : Expr) :
    ⟪dv.foldl (fun acc d => sAdd acc d) acc⟫ = ⟪acc⟫ + NumAlg.sum (dv.map (denote ρ σ)) := by
  induction dv generalizing acc with
  | nil => simp
  | cons d t ih => simp [ih, add_assoc]

theorem denote_exprSumRule (dv : List Expr) :
    ⟪exprSumRule dv⟫ = NumAlg.sum (dv.map (denote ρ σ)) := by
  simp [exprSumRule, denote_foldl_sAdd]

theorem denote_foldl_lin (cd : List (Rat × Expr)) (acc : Expr) :
    ⟪cd.foldl (fun acc (cd : Rat × Expr) => sAdd acc (sMul (Expr.c cd.1) cd.2)) acc⟫
      = ⟪acc⟫ + NumAlg.wsum (cd.map (·.1)) (cd.map fun p => ⟪p.2⟫) := by
  induction cd generalizing acc with
  | nil => simp
  | cons d t ih => simp [ih, add_assoc]

theorem wsum_zip (cs : List Rat) (xs : List Expr) :
    NumAlg.wsum ((cs.zip xs).map (·.1)) ((cs.zip xs).map fun p => ⟪p.2⟫)
      = NumAlg.wsum cs (xs.map (denote ρ σ)) := by
  induction cs generalizing xs with
  | nil => simp
  | cons c cs ih => cases xs with
    | nil => simp
    | cons x xs => simp [ih]

theorem denote_linCombRule_exprs (wrt : Var) (cs : List Rat) (es : ExprList) (dv : List Expr) :
    ⟪linCombRule wrt cs (.exprs es) dv⟫ = NumAlg.wsum cs (dv.map (denote ρ σ)) := by
  simp [linCombRule, denote_foldl_lin, wsum_zip]

theorem denote_foldl_dot (l : List ((Expr × Expr) × (Expr × Expr))) (acc : Expr) :
    ⟪l.foldl (fun acc (p : (Expr × Expr) × (Expr × Expr)) =>
        sAdd acc (sAdd (sMul p.1.1 p.2.2) (sMul p.1.2 p.2.1))) acc⟫
      = ⟪acc⟫ + NumAlg.sum (l.map fun p => ⟪p.1.1⟫ * ⟪p.2.2⟫ + ⟪p.1.2⟫ * ⟪p.2.1⟫) := by
  induction l generalizing acc with
  | nil => simp
  | cons d t ih => simp [ih, add_assoc]

theorem dotD_zip (le re dl dr : List Expr) :
    NumAlg.sum (((le.zip re).zip (dl.zip dr)).map fun p => ⟪p.1.1⟫ * ⟪p.2.2⟫ + ⟪p.1.2⟫ * ⟪p.2.1⟫)
      = dotD (le.map (denote ρ σ)) (re.map (denote ρ σ)) (dl.map (denote ρ σ)) (dr.map (denote ρ σ)) := by
  induction le generalizing re dl dr with
  | nil => simp [dotD]
  | cons a le ih =>
    cases re with
    | nil => simp [dotD]
    | cons b re =>
      cases dl with
      | nil => simp [dotD]
      | cons c dl =>
        cases dr with
        | nil => simp [dotD]
        | cons d dr => simp [dotD, ih]

theorem denote_foldl_scaled (g : Expr → Expr) (l : List (Expr × Expr)) (acc : Expr) :
    ⟪l.foldl (fun acc (p : Expr × Expr) => sAdd acc (sMul (g p.1) p.2)) acc⟫
      = ⟪acc⟫ + NumAlg.sum (l.map fun p => ⟪g p.1⟫ * ⟪p.2⟫) := by
  induction l generalizing acc with
  | nil => simp
  | cons d t ih => simp [ih, add_assoc]

end values

end Optyx
