/-
  Optyx.Lemmas.JacCompile — the compiled derivative closures evaluated over ℝ:
  every entry a closure of `compileGradient` / `compileJacobian` produces is the value, at the point
  `x` read through the declared order `V`, of the symbolic entry it was compiled from.

  Over ℝ nothing is non-finite, so `_sanitize_derivatives` is the identity here (`DerivAlg ℝ`):
  these are the statements "before sanitising"; what sanitising does is C19.
-/
import Optyx.Lemmas.JacRow

namespace Optyx.Py.Jac
open Optyx Optyx.Py Optyx.Generated NumAlg

/-- ℝ as a `DerivAlg`: `np.sign`, everything is finite, `nan_to_num` is the identity -/
noncomputable instance : DerivAlg ℝ where
  sign x := if 0 < x then 1 else if x < 0 then -1 else 0
  isFinite _ := true
  nanToNum x := x

@[simp] theorem sanitize_real (arr : List ℝ) : sanitize arr = arr := by
  simp [sanitize, DerivAlg.isFinite]

@[simp] theorem sanitize2_real (m : List (List ℝ)) : sanitize2 m = m := by
  simp [sanitize2, DerivAlg.isFinite]

theorem sign_real_eq (a : ℝ) : (DerivAlg.sign a : ℝ) = a / |a| := by
  show (if 0 < a then (1:ℝ) else if a < 0 then -1 else 0) = a / |a|
  by_cases h : 0 < a
  · simp [h, abs_of_pos h, ne_of_gt h]
  · by_cases h2 : a < 0
    · have : a ≠ 0 := ne_of_lt h2
      simp [h, h2, abs_of_neg h2, this]
    · have : a = 0 := le_antisymm (not_lt.mp h) (not_lt.mp h2)
      simp [this]

variable (σ : Nat → ℝ)

/-! ### the point read through the declared order -/

theorem envOf_self {V : List Var} (hnd : (names V).Nodup) (x : List ℝ) {j : Nat} (hj : j < V.length) :
    envOf V x V[j].name = x.getD j 0 := by
  unfold envOf
  rw [nameIdx_nodup hnd hj]
  rfl

theorem envOf_of_name {V : List Var} (hnd : (names V).Nodup) (x : List ℝ) {j : Nat} (hj : j < V.length)
    {n : String} (h : n = V[j].name) : envOf V x n = x.getD j 0 := by
  subst h; exact envOf_self hnd x hj

/-! ### vectorised first-derivative closures -/

/-- value of one entry of `VectorPowerSum.jacobian_row` -/
theorem denote_powRowEntry (ρ : String → ℝ) (k : Rat) (w : Var) :
    denote ρ σ (powRowEntry k w) = powBody k (ρ w.name) := by
  unfold powRowEntry powBody
  by_cases h1 : k = 1
  · subst h1; simp
  · by_cases h2 : k = 2
    · subst h2
      simp [denote]
      norm_num
    · simp [h1, h2, denote]

theorem denote_unSumJacRow_body (ρ : String → ℝ) (op : VOp) (w : Var) :
    denote ρ σ (unSumJacRow op (.var w)) = vecUnBody op (ρ w.name) := by
  cases op <;> simp [unSumJacRow, vecUnBody, denote, VOp.toUn]
  case sqrt => rw [div_eq_mul_inv, mul_comm]
  case abs => exact (sign_real_eq _).symm

/-- what `denote` makes of the gradient of a `VectorPowerSum` at the point -/
theorem grad_powSum_at {V : List Var} (hnd : (names V).Nodup) (x : List ℝ) (v : VVar) (k : Rat)
    {j : Nat} (hj : j < V.length) :
    denote (envOf V x) σ (grad V[j] (.powSum v k)) =
      if hasName V[j].name v.vars then powBody k (x.getD j 0) else 0 := by
  rw [← powSum_entry]
  by_cases h : hasName V[j].name v.vars = true
  · simp only [h, ite_true]
    rw [denote_powRowEntry, envOf_self hnd x hj]
  · have h' : hasName V[j].name v.vars = false := by simpa using h
    simp [h']

theorem grad_unSum_at {V : List Var} (hnd : (names V).Nodup) (x : List ℝ) (v : VVar) (op : VOp)
    {j : Nat} (hj : j < V.length) :
    denote (envOf V x) σ (grad V[j] (.unSum v op)) =
      if hasName V[j].name v.vars then vecUnBody op (x.getD j 0) else 0 := by
  rw [← unSum_entry]
  by_cases h : hasName V[j].name v.vars = true
  · simp only [h, ite_true]
    rw [denote_unSumJacRow_body, envOf_self hnd x hj]
  · have h' : hasName V[j].name v.vars = false := by simpa using h
    simp [h']

/-- `is_full`: the vector's variables are the declared variables, position by position -/
theorem isFull_hasName {V vs : List Var} {idx : List Nat} (h : List.Forall₂ (IdxRel V) vs idx)
    (hf : isFull idx V.length = true) {j : Nat} (hj : j < V.length) : hasName V[j].name vs = true := by
  unfold isFull at hf
  simp only [Bool.and_eq_true, beq_iff_eq] at hf
  obtain ⟨hlen, hidx⟩ := hf
  have hvl : vs.length = V.length := by rw [h.length_eq, hlen]
  have hr : idx = List.range' 0 idx.length := by
    rw [hlen, ← List.range_eq_range']; exact hidx
  obtain ⟨_, hn⟩ := forall₂_range_names h hr j (by omega)
  rw [hasName_iff]
  simp only [names, List.mem_map]
  exact ⟨vs[j]'(by omega), List.getElem_mem _, by simpa using hn.symm⟩

theorem getElem?_map_getD (x : List ℝ) (f : ℝ → ℝ) {j : Nat} (hj : j < x.length) :
    (x.map f)[j]? = some (f (x.getD j 0)) := by
  simp [hj, List.getD_eq_getElem?_getD]

theorem compilePowerGradient_entries {V : List Var} (hnd : (names V).Nodup) (x : List ℝ)
    (hx : x.length = V.length) (v : VVar) (k : Rat) {clo : GradClo}
    (h : compilePowerGradient v k V = .ok clo) {j : Nat} (hj : j < V.length) :
    (clo.run x σ)[j]? = some (denote (envOf V x) σ (grad V[j] (.powSum v k))) := by
  unfold compilePowerGradient at h
  cases hi : indicesOf V v.vars with
  | none => simp [hi] at h
  | some idx =>
    have hrel := indicesOf_forall₂ hi
    simp only [hi] at h
    rw [grad_powSum_at σ hnd x v k hj]
    by_cases hf : isFull idx V.length = true
    · have hn := isFull_hasName hrel hf hj
      simp only [hf, ite_true] at h
      simp only [hn, ite_true]
      by_cases h1 : k = 1
      · subst h1
        simp only [beq_self_eq_true, ite_true, Except.ok.injEq] at h
        subst h
        simp [GradClo.run, hj, powBody]
      · by_cases h2 : k = 2
        · subst h2
          have : ((2:Rat) == 1) = false := by decide
          simp only [this, Bool.false_eq_true, ite_false, beq_self_eq_true, ite_true, Except.ok.injEq] at h
          subst h
          simp only [GradClo.run]
          rw [getElem?_map_getD x _ (by omega)]
          simp [powBody]
          norm_num
        · have e1 : (k == 1) = false := by simpa using h1
          have e2 : (k == 2) = false := by simpa using h2
          simp only [e1, e2, Bool.false_eq_true, ite_false, Except.ok.injEq] at h
          subst h
          simp only [GradClo.run, sanitize_real]
          rw [getElem?_map_getD x _ (by omega)]
    · have hf' : isFull idx V.length = false := by simpa using hf
      simp only [hf', Bool.false_eq_true, ite_false, Except.ok.injEq] at h
      subst h
      simp only [GradClo.run, sanitize_real]
      rw [scatter_gather hnd x (powBody k) hrel (zeros V.length) (by simp [zeros]) j hj,
        zeros_getElem? _ _ hj]
      by_cases hn : hasName V[j].name v.vars = true <;> simp [hn]

theorem compileUnaryGradient_entries {V : List Var} (hnd : (names V).Nodup) (x : List ℝ)
    (hx : x.length = V.length) (v : VVar) (op : VOp) {clo : GradClo}
    (h : compileUnaryGradient v op V = .ok clo) {j : Nat} (hj : j < V.length) :
    (clo.run x σ)[j]? = some (denote (envOf V x) σ (grad V[j] (.unSum v op))) := by
  unfold compileUnaryGradient at h
  cases hi : indicesOf V v.vars with
  | none => simp [hi] at h
  | some idx =>
    have hrel := indicesOf_forall₂ hi
    simp only [hi] at h
    rw [grad_unSum_at σ hnd x v op hj]
    by_cases hf : isFull idx V.length = true
    · have hn := isFull_hasName hrel hf hj
      simp only [hf, ite_true, Except.ok.injEq] at h
      subst h
      simp only [hn, ite_true, GradClo.run, sanitize_real, ite_self]
      rw [getElem?_map_getD x _ (by omega)]
    · have hf' : isFull idx V.length = false := by simpa using hf
      simp only [hf', Bool.false_eq_true, ite_false, Except.ok.injEq] at h
      subst h
      simp only [GradClo.run, sanitize_real, ite_self]
      rw [scatter_gather hnd x (vecUnBody op) hrel (zeros V.length) (by simp [zeros]) j hj,
        zeros_getElem? _ _ hj]
      by_cases hn : hasName V[j].name v.vars = true <;> simp [hn]

/-- `compile_gradient`: entry `j` of the returned array is the value of `gradient(e, V[j])` at the point -/
theorem compileGradient_entries' {V : List Var} (hnd : (names V).Nodup) (x : List ℝ)
    (hx : x.length = V.length) (e : Expr) {clo : GradClo}
    (h : compileGradient e V = .ok clo) {j : Nat} (hj : j < V.length) :
    (clo.run x σ)[j]? = some (denote (envOf V x) σ (grad V[j] e)) := by
  unfold compileGradient at h
  split at h
  · exact compilePowerGradient_entries σ hnd x hx _ _ h hj
  · exact compileUnaryGradient_entries σ hnd x hx _ _ h hj
  · dsimp only at h
    split at h
    · simp only [Except.ok.injEq] at h
      subst h
      simp [GradClo.run, hj]
    · cases h

/-! ### `compile_jacobian` -/

theorem allConst_row_some : ∀ {r : List Expr} {a : List Cst}, allConst.row r = some a → r = a.map Expr.const
  | [], a, h => by simp [allConst.row] at h; subst h; rfl
  | .const c :: u, a, h => by
    simp only [allConst.row, Option.map_eq_some_iff] at h
    obtain ⟨b, hb, rfl⟩ := h
    rw [allConst_row_some hb]; rfl
  | .var _ :: _, _, h | .param _ :: _, _, h | .bin _ _ _ :: _, _, h | .un _ _ :: _, _, h
  | .linComb _ _ :: _, _, h | .vecSum _ :: _, _, h | .exprSum _ :: _, _, h | .dot _ _ :: _, _, h
  | .l2 _ :: _, _, h | .l1 _ :: _, _, h | .quad _ _ :: _, _, h | .powSum _ _ :: _, _, h
  | .unSum _ _ :: _, _, h | .matSumV _ :: _, _, h | .matSumE _ :: _, _, h | .frob _ :: _, _, h => by
    simp [allConst.row] at h

theorem allConst_some : ∀ {J : List (List Expr)} {M : List (List Cst)}, allConst J = some M →
    J = M.map fun r => r.map Expr.const
  | [], M, h => by simp [allConst] at h; subst h; rfl
  | r :: t, M, h => by
    unfold allConst at h
    cases h1 : allConst.row r with
    | none => simp [h1] at h
    | some a =>
      cases h2 : allConst t with
      | none => simp [h1, h2] at h
      | some b =>
        simp [h1, h2] at h
        subst h
        rw [allConst_row_some h1, allConst_some h2]; rfl

theorem scaledLoop_some {c : Cst} : ∀ (l : List (Expr × Var)) (s : Option Cst),
    scaledLoop s l = some (some c) → (∀ s', s = some s' → s' = c) ∧ ∀ p ∈ l, scaledEntry p.1 p.2 = some c
  | [], s, h => by
    simp only [scaledLoop, Option.some.injEq] at h
    subst h
    exact ⟨fun s' hs => (Option.some.inj hs).symm, by simp⟩
  | (e, var) :: t, s, h => by
    unfold scaledLoop at h
    cases he : scaledEntry e var with
    | none => simp [he] at h
    | some c' =>
      simp only [he] at h
      cases s with
      | none =>
        obtain ⟨h1, h2⟩ := scaledLoop_some t (some c') h
        have : c' = c := h1 c' rfl
        subst this
        refine ⟨(by intro s' hs; cases hs), ?_⟩
        intro p hp
        simp only [List.mem_cons] at hp
        rcases hp with hp | hp
        · subst hp; exact he
        · exact h2 p hp
      | some s0 =>
        by_cases hne : (s0 != c') = true
        · simp [hne] at h
        · have heq : s0 = c' := by simpa using hne
          subst heq
          simp only [bne_self_eq_false, Bool.false_eq_true, ite_false] at h
          obtain ⟨h1, h2⟩ := scaledLoop_some t (some s0) h
          have : s0 = c := h1 s0 rfl
          subst this
          refine ⟨fun s' hs => (Option.some.inj hs).symm, ?_⟩
          intro p hp
          simp only [List.mem_cons] at hp
          rcases hp with hp | hp
          · subst hp; exact he
          · exact h2 p hp

theorem scaledEntry_denote {ρ : String → ℝ} {e : Expr} {var : Var} {c : Cst}
    (h : scaledEntry e var = some c) : denote ρ σ e = (cst c : ℝ) * ρ var.name := by
  unfold scaledEntry at h
  split at h
  · rename_i c' w
    by_cases hw : w = var
    · subst hw; simp at h; subst h; simp [denote]
    · simp [hw] at h
  · rename_i w c'
    by_cases hw : w = var
    · subst hw; simp at h; subst h; simp [denote, mul_comm]
    · simp [hw] at h
  · cases h

theorem scaledPattern_some {row : List Expr} {V : List Var} {c : Cst} (h : scaledPattern row V = some c) :
    row.length = V.length ∧ ∀ j (hr : j < row.length) (hv : j < V.length), scaledEntry row[j] V[j] = some c := by
  unfold scaledPattern at h
  by_cases hl : row.length = V.length
  · simp only [hl, bne_self_eq_false, Bool.false_eq_true, ite_false] at h
    cases hs : scaledLoop none (row.zip V) with
    | none => simp [hs] at h
    | some o =>
      cases o with
      | none => simp [hs] at h
      | some c' =>
        simp only [hs, Option.some.injEq] at h
        subst h
        obtain ⟨_, h2⟩ := scaledLoop_some (row.zip V) none hs
        refine ⟨hl, fun j hr hv => ?_⟩
        have : (row[j], V[j]) ∈ row.zip V := by
          rw [List.mem_iff_getElem]
          exact ⟨j, by simp; omega, by simp⟩
        exact h2 _ this
  · have : (row.length != V.length) = true := by simpa using hl
    simp [this] at h

theorem entry?_singleton {α : Type} (r : List α) (i j : Nat) :
    entry? [r] i j = if i = 0 then r[j]? else none := by
  unfold entry?
  cases i <;> simp

theorem entry?_computeJacobian (ρ : String → ℝ) {es : List Expr} {V : List Var}
    (hwf : ∀ e ∈ es, WF e) {i j : Nat} (hi : i < es.length) (hj : j < V.length) :
    ∃ e', entry? (computeJacobian es V) i j = some e' ∧
      denote ρ σ e' = denote ρ σ (grad V[j] es[i]) := by
  have hrow := jacobianRow_ok ρ σ V es[i] (hwf _ (List.getElem_mem _))
  obtain ⟨hr, hd⟩ := hrow.get ρ σ j hj
  refine ⟨(jacobianRow V es[i])[j], ?_, hd⟩
  unfold entry? computeJacobian
  simp [hi, hr]

/-- `compile_jacobian`: entry `(i, j)` of the returned matrix is the value of `gradient(es[i], V[j])`
    at the point, whichever of the five closures was selected -/
theorem compileJacobian_entries' {V : List Var} (hnd : (names V).Nodup) (x : List ℝ)
    (hx : x.length = V.length) (es : List Expr) (hwf : ∀ e ∈ es, WF e) {clo : JacClo}
    (h : compileJacobian es V = .ok clo) {i j : Nat} (hi : i < es.length) (hj : j < V.length) :
    entry? (clo.run x σ) i j = some (denote (envOf V x) σ (grad V[j] es[i])) := by
  obtain ⟨e', he', hd⟩ := entry?_computeJacobian σ (envOf V x) hwf hi hj
  unfold compileJacobian at h
  split at h
  · -- fast path 0, power
    rename_i v k
    cases hc : compilePowerGradient v k V with
    | error err => simp [hc, Except.map] at h
    | ok g =>
      simp only [hc, Except.map, Except.ok.injEq] at h
      subst h
      have hi0 : i = 0 := by simpa using hi
      subst hi0
      simp only [JacClo.run, entry?_singleton, ite_true, List.getElem_cons_zero]
      exact compilePowerGradient_entries σ hnd x hx v k hc hj
  · -- fast path 0, unary
    rename_i v op
    cases hc : compileUnaryGradient v op V with
    | error err => simp [hc, Except.map] at h
    | ok g =>
      simp only [hc, Except.map, Except.ok.injEq] at h
      subst h
      have hi0 : i = 0 := by simpa using hi
      subst hi0
      simp only [JacClo.run, entry?_singleton, ite_true, List.getElem_cons_zero]
      exact compileUnaryGradient_entries σ hnd x hx v op hc hj
  · dsimp only at h
    split at h
    · -- fast path 1: constant matrix
      rename_i M hM
      simp only [Except.ok.injEq] at h
      subst h
      have hJ := allConst_some hM
      rw [hJ, entry?_map_map] at he'
      simp only [JacClo.run]
      rw [entry?_map_map]
      cases hm : entry? M i j with
      | none => simp [hm] at he'
      | some c =>
        simp only [hm, Option.map_some, Option.some.injEq] at he' ⊢
        subst he'
        rw [← hd]; rfl
    · split at h
      · -- fast path 2: scaled variables
        rename_i c hpat
        simp only [Except.ok.injEq] at h
        subst h
        split at hpat
        · rename_i row hJ
          obtain ⟨hlen, hent⟩ := scaledPattern_some hpat
          have hes : es.length = 1 := by
            have := congrArg List.length hJ
            simpa [computeJacobian] using this
          have hi0 : i = 0 := by omega
          subst hi0
          rw [hJ, entry?_singleton] at he'
          simp only [ite_true] at he'
          have hjr : j < row.length := by omega
          rw [List.getElem?_eq_getElem hjr, Option.some.injEq] at he'
          subst he'
          simp only [JacClo.run, entry?_singleton, ite_true]
          rw [getElem?_map_getD x _ (by omega), ← hd, scaledEntry_denote σ (hent j hjr hj),
            envOf_self hnd x hj]
          rfl
        · cases hpat
      · split at h
        · -- general path
          simp only [Except.ok.injEq] at h
          subst h
          simp only [JacClo.run, sanitize2_real]
          rw [entry?_map_map, he', Option.map_some, hd]
        · cases h

end Optyx.Py.Jac
