/-
  Optyx.Lemmas.GradMain — the mutual structural induction gluing the node lemmas:
  derivative of every expression (`grad_D`), of every vector operand element-wise (`gradVec_D`),
  of every expression list (`gradList_D`).  `Props/C02.lean` states the property theorem from it.
-/
import Optyx.Lemmas.Quad

namespace Optyx
open Optyx.Generated Optyx.Py NumAlg

section
variable (ρ : String → ℝ) (σ : Nat → ℝ) (wrt : Var)

theorem regular_bin {op : BinOp} {l r : Expr} (h : Regular ρ σ (.bin op l r)) :
    Regular ρ σ l ∧ Regular ρ σ r := by
  cases op
  · exact h
  · exact h
  · exact h
  · exact ⟨h.1, h.2.1⟩
  · exact ⟨h.1, h.2.1⟩

mutual
theorem grad_D : (e : Expr) → WF e → Regular ρ σ e →
    HasDerivAt (F ρ σ wrt.name e) (denote ρ σ (grad wrt e)) (ρ wrt.name)
  | .const c, _, _ => by simpa [grad] using const_case ρ σ wrt.name c
  | .param p, _, _ => by simpa [grad] using param_case ρ σ wrt.name p
  | .var v, _, _ => by simpa [grad] using var_case ρ σ wrt.name v
  | .bin op l r, hwf, hreg => by
    have hl := grad_D l hwf.1 (regular_bin ρ σ hreg).1
    have hr := grad_D r hwf.2 (regular_bin ρ σ hreg).2
    simpa [grad] using bin_case ρ σ wrt.name op l r _ _ hl hr hreg
  | .un op a, hwf, hreg => by
    have ha := grad_D a hwf hreg.1
    simpa [grad] using un_case ρ σ wrt.name op a _ ha hreg
  | .linComb cs v, hwf, hreg => by
    simpa [grad] using linComb_case ρ σ wrt cs v (gradVec_D v hwf.1 hreg) hwf.1
  | .vecSum v, hwf, _ => by simpa [grad] using vecSum_case ρ σ wrt v hwf
  | .exprSum es, hwf, hreg => by
    simpa [grad] using exprSum_case ρ σ wrt es (gradList_D es hwf hreg)
  | .dot l r, hwf, hreg => by
    simpa [grad] using dot_case ρ σ wrt l r (gradVec_D l hwf.1 hreg.1) (gradVec_D r hwf.2.1 hreg.2) hwf
  | .l2 v, hwf, hreg => by
    simpa [grad] using l2_case ρ σ wrt v (gradVec_D v hwf hreg.1) hwf hreg.2
  | .l1 v, hwf, hreg => by
    simpa [grad] using l1_case ρ σ wrt v (gradVec_D v hwf hreg.1) hwf hreg.2
  | .quad v q, hwf, hreg => by
    simpa [grad] using quad_case ρ σ wrt v q (gradVec_D v hwf.1 hreg) hwf
  | .powSum v k, hwf, hreg => by simpa [grad] using powSum_case ρ σ wrt v k hwf hreg
  | .unSum v op, hwf, hreg => by simpa [grad] using unSum_case ρ σ wrt v op hwf hreg
  | .matSumV m, _, _ => by simpa [grad] using matSumV_case ρ σ wrt m
  | .matSumE es, hwf, hreg => by
    simpa [grad] using matSumE_case ρ σ wrt es (gradList_D es hwf hreg)
  | .frob m, _, hreg => by simpa [grad] using frob_case ρ σ wrt m hreg
theorem gradVec_D : (v : Vec) → WFVec v → RegularVec ρ σ v →
    HD (ρ wrt.name) (FVec ρ σ wrt.name v) ((gradVec wrt v).map (denote ρ σ))
  | .vars vv, _, _ => by
    rw [map_denote_gradVec_vars]; exact hd_vars ρ wrt.name vv.vars
  | .exprs es, hwf, hreg => by
    simpa [gradVec, FVec] using gradList_D es hwf hreg
theorem gradList_D : (es : ExprList) → WFList es → RegularList ρ σ es →
    HD (ρ wrt.name) (FList ρ σ wrt.name es) ((gradList wrt es).map (denote ρ σ))
  | .nil, _, _ => by
    show List.Forall₂ _ _ _
    simp only [gradList, FList, List.map_nil]; exact List.Forall₂.nil
  | .cons e t, hwf, hreg => by
    show List.Forall₂ _ _ _
    simp only [gradList, FList, List.map_cons]
    exact List.Forall₂.cons (grad_D e hwf.1 hreg.1) (gradList_D t hwf.2 hreg.2)
end

end


end Optyx
