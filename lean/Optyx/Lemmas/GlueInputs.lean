/-
  Optyx.Lemmas.GlueInputs — helper lemmas for `Props/C09b.scipy_inputs_faithful`:
  what `_build_solver_cache` returns, entry by entry, in terms of the compiler models.
-/
import Optyx.Py.ScipyInputs
import Optyx.Lemmas.GlueBridge
import Optyx.Props.Glue
import Optyx.Props.C02

namespace Optyx.Py.Glue
open Optyx Optyx.Py Optyx.Py.Jac Optyx.Py.Api Optyx.Generated NumAlg

/-- sign SciPy's objective carries relative to the user's -/
noncomputable def sgnOf : ObjSense → ℝ
  | .maximize => -1
  | .minimize => 1

/-- sign a constraint function carries relative to `c.expr = lhs − rhs` -/
noncomputable def conSgn : Sense → ℝ
  | .le => -1
  | _ => 1

theorem solverObjective_max (obj : Expr) : solverObjective .maximize obj = .un .neg obj := by
  have h := Optyx.Props.Glue.glue_sources.2.2.2.2.2.1
  simp [solverObjective, h]

theorem denote_solverObjective (ρ : String → ℝ) (σ : Nat → ℝ) (s : ObjSense) (obj : Expr) :
    denote ρ σ (solverObjective s obj) = sgnOf s * denote ρ σ obj := by
  cases s
  · simp [solverObjective, sgnOf]
  · rw [solverObjective_max]; simp [denote, sgnOf]

theorem wf_solverObjective (s : ObjSense) (obj : Expr) (h : WF obj) : WF (solverObjective s obj) := by
  cases s
  · simpa [solverObjective] using h
  · rw [solverObjective_max]; simpa [WF] using h

theorem regular_solverObjective (ρ : String → ℝ) (σ : Nat → ℝ) (s : ObjSense) (obj : Expr)
    (h : Regular ρ σ obj) : Regular ρ σ (solverObjective s obj) := by
  cases s
  · simpa [solverObjective] using h
  · rw [solverObjective_max]; simpa [Regular, unReg] using h

theorem getVars_solverObjective (s : ObjSense) (obj : Expr) :
    getVars (solverObjective s obj) = getVars obj := by
  cases s
  · simp [solverObjective]
  · rw [solverObjective_max]; simp [getVars]

theorem scalarFrom_ok {thr : Nat} {V : List Var} {e : Expr} {c : Clo}
    (h : scalarFrom .compileExpression thr V e = .ok c) : compileExpression thr V e = .ok c := by
  simp only [scalarFrom] at h
  cases hc : compileExpression thr V e with
  | ok c' => rw [hc] at h; cases h; rfl
  | error err => rw [hc] at h; cases h

theorem rowFrom_ok {V : List Var} {e : Expr} {c : JacClo}
    (h : rowFrom .compileJacobian1 V e = .ok c) : compileJacobian [e] V = .ok c := by
  simp only [rowFrom] at h
  cases hc : compileJacobian [e] V with
  | ok c' => rw [hc] at h; cases h; rfl
  | error err => rw [hc] at h; cases h

/-- `buildCons` keeps the order and the senses, and every entry holds the two compiled callables
    of its own expression -/
theorem buildCons_spec (thr : Nat) (V : List Var) :
    ∀ (cs : List (Sense × Expr)) (ds : List ConDict), buildCons thr V cs = .ok ds →
      ds.length = cs.length ∧
      ∀ k (hk : k < cs.length), ∃ d, ds[k]? = some d ∧ d.sense = cs[k].1 ∧
        compileExpression thr V cs[k].2 = .ok d.fn ∧ compileJacobian [cs[k].2] V = .ok d.jac
  | [], ds, h => by
    simp [buildCons] at h; subst h; simp
  | (s, e) :: t, ds, h => by
    unfold buildCons at h
    have hsrc := Optyx.Props.Glue.glue_sources
    rw [hsrc.2.2.1, hsrc.2.2.2.1] at h
    split at h
    · cases h
    · rename_i f hf
      split at h
      · cases h
      · rename_i j hj
        split at h
        · cases h
        · rename_i ds' hds
          cases h
          obtain ⟨hl, hall⟩ := buildCons_spec thr V t ds' hds
          refine ⟨by simp [hl], fun k hk => ?_⟩
          cases k with
          | zero => exact ⟨⟨s, f, j⟩, by simp, rfl, scalarFrom_ok hf, rowFrom_ok hj⟩
          | succ k =>
            have hk' : k < t.length := by simpa using hk
            obtain ⟨d, hd, hs, hf', hj'⟩ := hall k hk'
            exact ⟨d, by simpa using hd, by simpa using hs, by simpa using hf', by simpa using hj'⟩

theorem buildSolverCache_spec {thr : Nat} {P : Problem} {V : List Var} {obj : Expr} {cache : Cache}
    (hobj : P.objective = some obj) (h : buildSolverCache thr P V = .ok cache) :
    compileExpression thr V (solverObjective P.sense obj) = .ok cache.objFn ∧
    compileJacobian [solverObjective P.sense obj] V = .ok cache.gradFn ∧
    buildCons thr V P.constraints = .ok cache.cons := by
  unfold buildSolverCache at h
  rw [hobj] at h
  have hsrc := Optyx.Props.Glue.glue_sources
  simp only [hsrc.1, hsrc.2.1] at h
  split at h
  · cases h
  · rename_i f hf
    split at h
    · cases h
    · rename_i g hg
      split at h
      · cases h
      · rename_i ds hds
        cases h
        exact ⟨scalarFrom_ok hf, rowFrom_ok hg, hds⟩

/-- `M.flatten()[j]` of a matrix whose first row has an entry `j` -/
theorem flatten_getElem?_of_entry {α : Type} {M : List (List α)} {j : Nat} {v : α}
    (h : entry? M 0 j = some v) : M.flatten[j]? = some v := by
  cases M with
  | nil => simp [entry?] at h
  | cons r rest =>
    simp only [entry?, List.getElem?_cons_zero, Option.bind_some] at h
    have hj : j < r.length := by
      by_contra hc
      rw [List.getElem?_eq_none (by omega)] at h
      cases h
    simp [List.flatten_cons, List.getElem?_append_left hj, h]

end Optyx.Py.Glue
