/-
  Optyx.Lemmas.Smooth — at a regular point the meaning of an expression is a C² function of
  any smooth parametrisation of the environment.

  `env : X → String → ℝ` is a family of environments over a real normed space `X` whose every
  coordinate is C² at `x0`.  Then `Regular (env x0) σ e → ContDiffAt ℝ 2 (fun x => ⟦e⟧(env x) σ) x0`
  (mutual induction over `Expr` / `Vec` / `ExprList`), and regularity itself is an open condition
  in `x` (`regular_openX`).  Instantiated with the two-variable slice `X = ℝ × ℝ` this gives
  Schwarz' theorem for the symbolic Hessian (`Lemmas/Schwarz.lean`).
-/
import Optyx.Lemmas.Regular
import Mathlib.Analysis.Calculus.ContDiff.Operations
import Mathlib.Analysis.Calculus.ContDiff.Basic

namespace Optyx
open NumAlg Filter Topology

variable {X : Type*} [NormedAddCommGroup X] [NormedSpace ℝ X]

/-- the values of a list of functions at a point -/
def atX (fs : List (X → ℝ)) (x : X) : List ℝ := fs.map (· x)

@[simp] theorem atX_nil (x : X) : atX ([] : List (X → ℝ)) x = [] := rfl
@[simp] theorem atX_cons (f : X → ℝ) (fs) (x : X) : atX (f :: fs) x = f x :: atX fs x := rfl

/-- every function of the list is C² at `x0` -/
def CDL (x0 : X) (fs : List (X → ℝ)) : Prop := ∀ f ∈ fs, ContDiffAt ℝ 2 f x0

theorem CDL.nil (x0 : X) : CDL x0 [] := fun _ h => by simp at h

theorem CDL.cons {x0 : X} {f : X → ℝ} {fs} (hf : ContDiffAt ℝ 2 f x0) (h : CDL x0 fs) : CDL x0 (f :: fs) := by
  intro g hg
  simp only [List.mem_cons] at hg
  rcases hg with rfl | hg
  · exact hf
  · exact h g hg

theorem CDL.head {x0 : X} {f : X → ℝ} {fs} (h : CDL x0 (f :: fs)) : ContDiffAt ℝ 2 f x0 := h f (by simp)
theorem CDL.tail {x0 : X} {f : X → ℝ} {fs} (h : CDL x0 (f :: fs)) : CDL x0 fs := fun g hg => h g (by simp [hg])

theorem CDL.sum {x0 : X} {fs : List (X → ℝ)} (h : CDL x0 fs) :
    ContDiffAt ℝ 2 (fun x => NumAlg.sum (atX fs x)) x0 := by
  induction fs with
  | nil => simpa using (contDiffAt_const : ContDiffAt ℝ 2 (fun _ : X => (0:ℝ)) x0)
  | cons f fs ih => simpa using h.head.add (ih h.tail)

theorem CDL.wsum {x0 : X} {fs : List (X → ℝ)} (h : CDL x0 fs) (cs : List Rat) :
    ContDiffAt ℝ 2 (fun x => NumAlg.wsum cs (atX fs x)) x0 := by
  induction fs generalizing cs with
  | nil => simpa using (contDiffAt_const : ContDiffAt ℝ 2 (fun _ : X => (0:ℝ)) x0)
  | cons f fs ih =>
    cases cs with
    | nil => simpa using (contDiffAt_const : ContDiffAt ℝ 2 (fun _ : X => (0:ℝ)) x0)
    | cons c cs => simpa using (contDiffAt_const.mul h.head).add (ih h.tail cs)

theorem CDL.dotp {x0 : X} {fs gs : List (X → ℝ)} (h1 : CDL x0 fs) (h2 : CDL x0 gs) :
    ContDiffAt ℝ 2 (fun x => NumAlg.dotp (atX fs x) (atX gs x)) x0 := by
  induction fs generalizing gs with
  | nil => simpa using (contDiffAt_const : ContDiffAt ℝ 2 (fun _ : X => (0:ℝ)) x0)
  | cons f fs ih =>
    cases gs with
    | nil => simpa using (contDiffAt_const : ContDiffAt ℝ 2 (fun _ : X => (0:ℝ)) x0)
    | cons g gs => simpa using (h1.head.mul h2.head).add (ih h1.tail h2.tail)

theorem CDL.quad {x0 : X} {fs : List (X → ℝ)} (h : CDL x0 fs) (q : List (List Rat)) :
    ContDiffAt ℝ 2 (fun x => NumAlg.quadForm q (atX fs x)) x0 := by
  have hrows : CDL x0 (q.map fun row => fun x => NumAlg.wsum row (atX fs x)) := by
    intro g hg
    simp only [List.mem_map] at hg
    obtain ⟨row, _, rfl⟩ := hg
    exact h.wsum row
  have := h.dotp hrows
  refine this.congr_of_eventuallyEq (Filter.Eventually.of_forall fun x => ?_)
  simp [NumAlg.quadForm, atX, List.map_map, Function.comp_def]

theorem comp_smooth {x0 : X} {g : ℝ → ℝ} {f : X → ℝ} (hg : ContDiffAt ℝ 2 g (f x0))
    (hf : ContDiffAt ℝ 2 f x0) : ContDiffAt ℝ 2 (fun x => g (f x)) x0 := hg.comp x0 hf

/-- `Σ g (f_i x)` for a scalar function `g` that is C² at every `f_i x0` -/
theorem CDL.sumMap {x0 : X} {fs : List (X → ℝ)} (h : CDL x0 fs) (g : ℝ → ℝ)
    (hg : ∀ v ∈ atX fs x0, ContDiffAt ℝ 2 g v) :
    ContDiffAt ℝ 2 (fun x => NumAlg.sum ((atX fs x).map g)) x0 := by
  induction fs with
  | nil => simpa using (contDiffAt_const : ContDiffAt ℝ 2 (fun _ : X => (0:ℝ)) x0)
  | cons f fs ih =>
    have h1 : ContDiffAt ℝ 2 (fun x => g (f x)) x0 := comp_smooth (hg (f x0) (by simp)) h.head
    simpa using h1.add (ih h.tail (fun v hv => hg v (by simp [hv])))

/-! ### scalar functions -/

theorem smooth_tanh (a : ℝ) : ContDiffAt ℝ 2 Real.tanh a := by
  have h : Real.tanh = fun x => Real.sinh x / Real.cosh x := by
    funext x; exact Real.tanh_eq_sinh_div_cosh x
  rw [h]
  exact Real.contDiff_sinh.contDiffAt.div Real.contDiff_cosh.contDiffAt (Real.cosh_pos a).ne'

theorem smooth_logb (b a : ℝ) (ha : a ≠ 0) : ContDiffAt ℝ 2 (Real.logb b) a := by
  have h : Real.logb b = fun x => Real.log x / Real.log b := by
    funext x; rfl
  rw [h]
  exact (Real.contDiffAt_log.mpr ha).div_const _

theorem smooth_artanh (a : ℝ) (h1 : -1 < a) (h2 : a < 1) : ContDiffAt ℝ 2 Real.artanh a := by
  have hq : 0 < (1 + a) / (1 - a) := div_pos (by linarith) (by linarith)
  have hdiv : ContDiffAt ℝ 2 (fun x : ℝ => (1 + x) / (1 - x)) a :=
    (contDiffAt_const.add contDiffAt_id).div (contDiffAt_const.sub contDiffAt_id) (by linarith)
  have hsq : ContDiffAt ℝ 2 (fun x : ℝ => Real.sqrt ((1 + x) / (1 - x))) a :=
    (Real.contDiffAt_sqrt hq.ne').comp a hdiv
  have hne : Real.sqrt ((1 + a) / (1 - a)) ≠ 0 := (Real.sqrt_pos.mpr hq).ne'
  exact (Real.contDiffAt_log.mpr hne).comp a hsq

/-- every elementary function of the language is C² where `unReg` holds -/
theorem unop_smooth (op : UnOp) (a : ℝ) (h : unReg op a) : ContDiffAt ℝ 2 (fun v : ℝ => unop op v) a := by
  cases op <;> simp only [unReg] at h
  · exact contDiffAt_id.neg
  · exact contDiffAt_abs h
  · exact Real.contDiff_sin.contDiffAt
  · exact Real.contDiff_cos.contDiffAt
  · exact Real.contDiffAt_tan.mpr h
  · exact Real.contDiff_exp.contDiffAt
  · exact Real.contDiffAt_log.mpr h.ne'
  · exact smooth_logb 2 a h.ne'
  · exact smooth_logb 10 a h.ne'
  · exact Real.contDiffAt_sqrt h.ne'
  · exact smooth_tanh a
  · exact Real.contDiff_sinh.contDiffAt
  · exact Real.contDiff_cosh.contDiffAt
  · exact Real.contDiffAt_arcsin (by linarith [h.1]) (by linarith [h.2])
  · exact Real.contDiffAt_arccos (by linarith [h.1]) (by linarith [h.2])
  · exact Real.contDiff_arctan.contDiffAt
  · exact Real.contDiff_arsinh.contDiffAt
  · exact Real.contDiffAt_arcosh (Set.mem_Ioi.mpr h)
  · exact smooth_artanh a h.1 h.2

/-- `b ↦ b ^ k` for a literal exponent is C² where the side condition of `Regular` holds -/
theorem rpow_lit_smooth (k : Rat) (b : ℝ) (h : k = 0 ∨ k = 1 ∨ powReg k b) :
    ContDiffAt ℝ 2 (fun v : ℝ => v ^ (k : ℝ)) b := by
  rcases h with h | h | h
  · subst h
    have : (fun v : ℝ => v ^ (((0:ℚ)):ℝ)) = fun _ => (1:ℝ) := by funext v; simp
    rw [this]; exact contDiffAt_const
  · subst h
    have : (fun v : ℝ => v ^ (((1:ℚ)):ℝ)) = id := by funext v; simp
    rw [this]; exact contDiffAt_id
  · by_cases h1 : k = 1
    · subst h1
      have : (fun v : ℝ => v ^ (((1:ℚ)):ℝ)) = id := by funext v; simp
      rw [this]; exact contDiffAt_id
    by_cases hd : k.den = 1
    · rcases h.1 hd with hb | hk
      · exact Real.contDiffAt_rpow_const_of_ne hb
      · -- an integer exponent ≥ 1 that is not 1 is ≥ 2
        have hki : ((k.num : ℤ) : ℚ) = k := Rat.den_eq_one_iff k |>.mp hd
        have hnum1 : (1:ℤ) ≤ k.num := by
          have : (1:ℚ) ≤ ((k.num : ℤ) : ℚ) := by rw [hki]; exact hk
          exact_mod_cast this
        have hne : k.num ≠ 1 := by
          intro h'; apply h1; rw [← hki, h']; norm_num
        have h2 : (2:ℤ) ≤ k.num := by omega
        have h2q : (2:ℚ) ≤ k := by rw [← hki]; exact_mod_cast h2
        have h2r : ((2:ℕ):ℝ) ≤ (k:ℝ) := by exact_mod_cast h2q
        have := Real.contDiffAt_rpow_const (x := b) (n := 2) (Or.inr h2r)
        exact_mod_cast this
    · exact Real.contDiffAt_rpow_const_of_ne (h.2 hd).ne'

/-! ### the meaning of an expression along a smooth family of environments -/

section family
variable (env : X → String → ℝ) (σ : Nat → ℝ) (x0 : X)

/-- coordinate functions of a list of variables -/
def varFnsX (vs : List Var) : List (X → ℝ) := vs.map fun v => fun x => env x v.name

theorem valsOf_env (vs : List Var) (x : X) : valsOf (env x) vs = atX (varFnsX env vs) x := by
  simp [valsOf, varFnsX, atX, List.map_map, Function.comp_def]

noncomputable def GListX : ExprList → List (X → ℝ)
  | .nil => []
  | .cons e t => (fun x => denote (env x) σ e) :: GListX t

noncomputable def GVecX : Vec → List (X → ℝ)
  | .vars v => varFnsX env v.vars
  | .exprs es => GListX env σ es

theorem denoteList_env : (es : ExprList) → (x : X) → denoteList (env x) σ es = atX (GListX env σ es) x
  | .nil, x => by simp [denoteList, GListX]
  | .cons e t, x => by simp [denoteList, GListX, denoteList_env t x]

theorem denoteVec_env (v : Vec) (x : X) : denoteVec (env x) σ v = atX (GVecX env σ v) x := by
  cases v with
  | vars vv => simp [denoteVec, GVecX, valsOf_env]
  | exprs es => simp [denoteVec, GVecX, denoteList_env]

variable (hc : ∀ name, ContDiffAt ℝ 2 (fun x => env x name) x0)
include hc

theorem varFnsX_smooth (vs : List Var) : CDL x0 (varFnsX env vs) := by
  intro f hf
  simp only [varFnsX, List.mem_map] at hf
  obtain ⟨v, _, rfl⟩ := hf
  exact hc v.name

mutual
theorem smooth : (e : Expr) → Regular (env x0) σ e → ContDiffAt ℝ 2 (fun x => denote (env x) σ e) x0
  | .const _, _ => by simpa [denote] using (contDiffAt_const : ContDiffAt ℝ 2 (fun _ : X => _) x0)
  | .param _, _ => by simpa [denote] using (contDiffAt_const : ContDiffAt ℝ 2 (fun _ : X => _) x0)
  | .var v, _ => by simpa [denote] using hc v.name
  | .bin op l r, hreg => by
    cases op with
    | add =>
      have hF : (fun x => denote (env x) σ (.bin .add l r)) = fun x => denote (env x) σ l + denote (env x) σ r := by
        funext x; simp [denote]
      rw [hF]; exact (smooth l hreg.1).add (smooth r hreg.2)
    | sub =>
      have hF : (fun x => denote (env x) σ (.bin .sub l r)) = fun x => denote (env x) σ l - denote (env x) σ r := by
        funext x; simp [denote]
      rw [hF]; exact (smooth l hreg.1).sub (smooth r hreg.2)
    | mul =>
      have hF : (fun x => denote (env x) σ (.bin .mul l r)) = fun x => denote (env x) σ l * denote (env x) σ r := by
        funext x; simp [denote]
      rw [hF]; exact (smooth l hreg.1).mul (smooth r hreg.2)
    | div =>
      have hF : (fun x => denote (env x) σ (.bin .div l r)) = fun x => denote (env x) σ l / denote (env x) σ r := by
        funext x; simp [denote]
      rw [hF]; exact (smooth l hreg.1).div (smooth r hreg.2.1) hreg.2.2
    | pow =>
      have hl := smooth l hreg.1
      have hr := smooth r hreg.2.1
      have hF : (fun x => denote (env x) σ (.bin .pow l r)) = fun x => denote (env x) σ l ^ denote (env x) σ r := by
        funext x; simp [denote]
      rw [hF]
      have key : (∃ k, r = .const (.rat k) ∧ (k = 0 ∨ k = 1 ∨ powReg k (denote (env x0) σ l))) ∨
          0 < denote (env x0) σ l := by
        have h3 := hreg.2.2
        cases r with
        | const c =>
          cases c with
          | rat k => exact Or.inl ⟨k, rfl, h3⟩
          | ln2 => exact Or.inr h3
          | ln10 => exact Or.inr h3
        | _ => exact Or.inr h3
      rcases key with ⟨k, rfl, hk⟩ | hpos
      · have hE : (fun x => denote (env x) σ l ^ denote (env x) σ (.const (.rat k)))
            = fun x => (fun v : ℝ => v ^ (k:ℝ)) (denote (env x) σ l) := by
          funext x; simp [denote]
        rw [hE]
        exact comp_smooth (f := fun x => denote (env x) σ l) (g := fun v : ℝ => v ^ (k:ℝ)) (rpow_lit_smooth k _ hk) hl
      · exact hl.rpow hr hpos.ne'
  | .un op a, hreg => by
    have hF : (fun x => denote (env x) σ (.un op a)) = fun x => (fun v : ℝ => unop op v) (denote (env x) σ a) := by
      funext x; simp [denote]
    rw [hF]
    exact comp_smooth (f := fun x => denote (env x) σ a) (g := fun v : ℝ => unop op v) (unop_smooth op _ hreg.2) (smooth a hreg.1)
  | .linComb cs v, hreg => by
    have hF : (fun x => denote (env x) σ (.linComb cs v)) = fun x => NumAlg.wsum cs (atX (GVecX env σ v) x) := by
      funext x; simp [denote, denoteVec_env]
    rw [hF]; exact (smoothVec v hreg).wsum cs
  | .vecSum v, _ => by
    have hF : (fun x => denote (env x) σ (.vecSum v)) = fun x => NumAlg.sum (atX (varFnsX env v.vars) x) := by
      funext x; simp [denote, valsOf_env]
    rw [hF]; exact (varFnsX_smooth env x0 hc v.vars).sum
  | .exprSum es, hreg => by
    have hF : (fun x => denote (env x) σ (.exprSum es)) = fun x => NumAlg.sum (atX (GListX env σ es) x) := by
      funext x; simp [denote, denoteList_env]
    rw [hF]; exact (smoothList es hreg).sum
  | .dot l r, hreg => by
    have hF : (fun x => denote (env x) σ (.dot l r))
        = fun x => NumAlg.dotp (atX (GVecX env σ l) x) (atX (GVecX env σ r) x) := by
      funext x; simp [denote, denoteVec_env]
    rw [hF]; exact (smoothVec l hreg.1).dotp (smoothVec r hreg.2)
  | .l2 v, hreg => by
    have hd := (smoothVec v hreg.1).dotp (smoothVec v hreg.1)
    have hpos : 0 < NumAlg.dotp (atX (GVecX env σ v) x0) (atX (GVecX env σ v) x0) := by
      rw [← denoteVec_env]; exact hreg.2
    have hF : (fun x => denote (env x) σ (.l2 v))
        = fun x => Real.sqrt (NumAlg.dotp (atX (GVecX env σ v) x) (atX (GVecX env σ v) x)) := by
      funext x; simp [denote, denoteVec_env]
    rw [hF]; exact comp_smooth (Real.contDiffAt_sqrt hpos.ne') hd
  | .l1 v, hreg => by
    have hne : ∀ a ∈ atX (GVecX env σ v) x0, ContDiffAt ℝ 2 (fun t : ℝ => unop .abs t) a := by
      intro a ha
      rw [← denoteVec_env] at ha
      exact unop_smooth .abs a (hreg.2 a ha)
    have hF : (fun x => denote (env x) σ (.l1 v))
        = fun x => NumAlg.sum ((atX (GVecX env σ v) x).map (fun t : ℝ => unop .abs t)) := by
      funext x; simp only [denote, denoteVec_env]
    rw [hF]; exact (smoothVec v hreg.1).sumMap (fun t => unop .abs t) hne
  | .quad v q, hreg => by
    have hF : (fun x => denote (env x) σ (.quad v q)) = fun x => NumAlg.quadForm q (atX (GVecX env σ v) x) := by
      funext x; simp [denote, denoteVec_env]
    rw [hF]; exact (smoothVec v hreg).quad q
  | .powSum v k, hreg => by
    have hv := varFnsX_smooth env x0 hc v.vars
    have hg : ∀ a ∈ atX (varFnsX env v.vars) x0, ContDiffAt ℝ 2 (fun t : ℝ => t ^ (k:ℝ)) a := by
      intro a ha
      rw [← valsOf_env] at ha
      simp only [valsOf, List.mem_map] at ha
      obtain ⟨y, hy, rfl⟩ := ha
      apply rpow_lit_smooth
      rcases hreg with h | h | h
      · exact Or.inr (Or.inl h)
      · -- k = 2: integer ≥ 1
        subst h
        exact Or.inr (Or.inr ⟨fun _ => Or.inr (by norm_num), fun hd => absurd (by norm_num) hd⟩)
      · exact Or.inr (Or.inr (h y hy))
    have hF : (fun x => denote (env x) σ (.powSum v k))
        = fun x => NumAlg.sum ((atX (varFnsX env v.vars) x).map (fun t : ℝ => t ^ (k:ℝ))) := by
      funext x; simp [denote, valsOf_env]
    rw [hF]; exact hv.sumMap (fun t => t ^ (k:ℝ)) hg
  | .unSum v op, hreg => by
    have hv := varFnsX_smooth env x0 hc v.vars
    have hg : ∀ a ∈ atX (varFnsX env v.vars) x0, ContDiffAt ℝ 2 (fun t : ℝ => unop op.toUn t) a := by
      intro a ha
      rw [← valsOf_env] at ha
      simp only [valsOf, List.mem_map] at ha
      obtain ⟨y, hy, rfl⟩ := ha
      exact unop_smooth op.toUn _ (hreg y hy)
    have hF : (fun x => denote (env x) σ (.unSum v op))
        = fun x => NumAlg.sum ((atX (varFnsX env v.vars) x).map (fun t : ℝ => unop op.toUn t)) := by
      funext x; simp [denote, valsOf_env]
    rw [hF]; exact hv.sumMap (fun t => unop op.toUn t) hg
  | .matSumV m, _ => by
    have hF : (fun x => denote (env x) σ (.matSumV m)) = fun x => NumAlg.sum (atX (varFnsX env m.flat) x) := by
      funext x; simp [denote, valsOf_env]
    rw [hF]; exact (varFnsX_smooth env x0 hc m.flat).sum
  | .matSumE es, hreg => by
    have hF : (fun x => denote (env x) σ (.matSumE es)) = fun x => NumAlg.sum (atX (GListX env σ es) x) := by
      funext x; simp [denote, denoteList_env]
    rw [hF]; exact (smoothList es hreg).sum
  | .frob m, hreg => by
    have hv := varFnsX_smooth env x0 hc m.flat
    have hd := hv.dotp hv
    have hpos : 0 < NumAlg.dotp (atX (varFnsX env m.flat) x0) (atX (varFnsX env m.flat) x0) := by
      rw [← valsOf_env]; exact hreg
    have hF : (fun x => denote (env x) σ (.frob m))
        = fun x => Real.sqrt (NumAlg.dotp (atX (varFnsX env m.flat) x) (atX (varFnsX env m.flat) x)) := by
      funext x; simp [denote, valsOf_env]
    rw [hF]; exact comp_smooth (Real.contDiffAt_sqrt hpos.ne') hd
theorem smoothVec : (v : Vec) → RegularVec (env x0) σ v → CDL x0 (GVecX env σ v)
  | .vars vv, _ => varFnsX_smooth env x0 hc vv.vars
  | .exprs es, hreg => smoothList es hreg
theorem smoothList : (es : ExprList) → RegularList (env x0) σ es → CDL x0 (GListX env σ es)
  | .nil, _ => CDL.nil x0
  | .cons e t, hreg => CDL.cons (smooth e hreg.1) (smoothList t hreg.2)
end

end family

end Optyx
