/-
  Optyx.Lemmas.Quad — the bilinear-form identity behind gradient_quadratic_form:
  d(xᵀQx) = ((Q + Qᵀ) x)ᵀ dx, over lists with `getD` indexing (as the model computes it).
-/
import Optyx.Lemmas.GradNodesVec
import Mathlib.Algebra.BigOperators.Ring.Finset

namespace Optyx
open NumAlg Optyx.Py
open Finset

theorem dotp_eq_sum (a b : List ℝ) (n : Nat) (h : min a.length b.length ≤ n) :
    NumAlg.dotp a b = ∑ i ∈ range n, a.getD i 0 * b.getD i 0 := by
  induction a generalizing b n with
  | nil => simp
  | cons x a ih =>
    cases b with
    | nil => simp
    | cons y b =>
      cases n with
      | zero => simp at h
      | succ n =>
        rw [sum_range_succ']
        simp only [List.length_cons] at h
        have h' : min a.length b.length ≤ n := by omega
        simp [ih b n h', add_comm]

theorem getD_map_cast (cs : List Rat) (j : Nat) :
    (cs.map fun c => (c:ℝ)).getD j 0 = ((cs.getD j 0 : Rat) : ℝ) := by
  induction cs generalizing j with
  | nil => simp
  | cons c cs ih => cases j with
    | zero => simp
    | succ j => simpa using ih j

theorem wsum_eq_sum (cs : List Rat) (xs : List ℝ) (n : Nat) (h : min cs.length xs.length ≤ n) :
    NumAlg.wsum cs xs = ∑ j ∈ range n, ((cs.getD j 0 : Rat) : ℝ) * xs.getD j 0 := by
  rw [wsum_eq_dotp, dotp_eq_sum _ _ n (by simpa using h)]
  apply sum_congr rfl
  intro j _
  rw [getD_map_cast]

theorem getD_map_wsum (q : List (List Rat)) (xs : List ℝ) (i : Nat) :
    (q.map fun row => NumAlg.wsum row xs).getD i 0 = NumAlg.wsum (q.getD i []) xs := by
  induction q generalizing i with
  | nil => simp
  | cons r q ih => cases i with
    | zero => simp
    | succ i => simpa using ih i

/-- entry (i, j) of the coefficient matrix, 0 outside -/
def qent (q : List (List Rat)) (i j : Nat) : ℝ := (((q.getD i []).getD j 0 : Rat) : ℝ)

theorem qsym_getD (q : List (List Rat)) (i j : Nat) (hi : i < q.length) (hj : j < q.length) :
    qent (qsym q) i j = qent q i j + qent q j i := by
  unfold qent qsym
  have h1 : ((List.range q.length).map fun i => (List.range q.length).map fun j =>
      ((q.getD i []).getD j 0) + ((q.getD j []).getD i 0)).getD i [] =
      (List.range q.length).map fun j => ((q.getD i []).getD j 0) + ((q.getD j []).getD i 0) := by
    simp [List.getD_eq_getElem?_getD, hi]
  rw [h1]
  simp [List.getD_eq_getElem?_getD, hj]

theorem qsym_length (q : List (List Rat)) : (qsym q).length = q.length := by simp [qsym]

theorem qsym_row_length (q : List (List Rat)) (i : Nat) : ((qsym q).getD i []).length ≤ q.length := by
  unfold qsym
  by_cases hi : i < q.length
  · simp [List.getD_eq_getElem?_getD, hi]
  · simp [List.getD_eq_getElem?_getD, hi]

/-- xᵀQ d + (Qx)ᵀ d = ((Q+Qᵀ)x)ᵀ d -/
theorem quad_deriv_eq (q : List (List Rat)) (xs ds : List ℝ)
    (hx : xs.length = q.length) (hd : ds.length = q.length)
    (hrow : ∀ row ∈ q, row.length = q.length) :
    NumAlg.dotp xs (q.map fun row => NumAlg.wsum row ds)
      + NumAlg.dotp (q.map fun row => NumAlg.wsum row xs) ds
      = NumAlg.dotp ((qsym q).map fun row => NumAlg.wsum row xs) ds := by
  set n := q.length with hn
  have hrowlen : ∀ i, (q.getD i []).length ≤ n := by
    intro i
    by_cases hi : i < q.length
    · have : q.getD i [] ∈ q := by
        simp [List.getD_eq_getElem?_getD, List.getElem?_eq_getElem hi]
      rw [hrow _ this]
    · simp [List.getD_eq_getElem?_getD, hi]
  rw [dotp_eq_sum _ _ n (by simp [hx]), dotp_eq_sum _ _ n (by simp [hd]),
    dotp_eq_sum _ _ n (by simp [hd])]
  simp only [getD_map_wsum]
  have e1 : ∀ i, NumAlg.wsum (q.getD i []) ds = ∑ j ∈ range n, qent q i j * ds.getD j 0 := fun i =>
    wsum_eq_sum _ _ n (le_trans (min_le_left _ _) (hrowlen i))
  have e2 : ∀ i, NumAlg.wsum (q.getD i []) xs = ∑ j ∈ range n, qent q i j * xs.getD j 0 := fun i =>
    wsum_eq_sum _ _ n (le_trans (min_le_left _ _) (hrowlen i))
  have e3 : ∀ i, NumAlg.wsum ((qsym q).getD i []) xs
      = ∑ j ∈ range n, qent (qsym q) i j * xs.getD j 0 := fun i =>
    wsum_eq_sum _ _ n (le_trans (min_le_left _ _) (qsym_row_length q i))
  simp only [e1, e2, e3]
  have e4 : ∑ i ∈ range n, (∑ j ∈ range n, qent (qsym q) i j * xs.getD j 0) * ds.getD i 0
      = ∑ i ∈ range n, (∑ j ∈ range n, (qent q i j + qent q j i) * xs.getD j 0) * ds.getD i 0 := by
    apply sum_congr rfl; intro i hi
    congr 1
    apply sum_congr rfl; intro j hj
    rw [qsym_getD q i j (by simpa [hn] using hi) (by simpa [hn] using hj)]
  rw [e4]
  simp only [mul_sum, sum_mul, add_mul]
  rw [sum_comm]
  rw [← sum_add_distrib]
  apply sum_congr rfl; intro i _
  rw [sum_add_distrib, add_comm]
  congr 1
  · apply sum_congr rfl; intro j _; ring

section quadnode
open Optyx.Generated
variable (ρ : String → ℝ) (σ : Nat → ℝ) (wrt : Var)

local notation "⟪" e "⟫" => denote ρ σ e

theorem denoteList_length : (es : ExprList) → (denoteList ρ σ es).length = es.length
  | .nil => by simp [denoteList, ExprList.length]
  | .cons e t => by simp [denoteList, ExprList.length, denoteList_length t]

theorem denoteVec_length (v : Vec) : (denoteVec ρ σ v).length = v.len := by
  cases v with
  | vars vv => simp [denoteVec, valsOf, Vec.len]
  | exprs es => simp [denoteVec, Vec.len, denoteList_length]

theorem denote_quadInner_aux (l : List (Rat × Expr)) (acc : Expr) :
    ⟪l.foldl (fun acc (p : Rat × Expr) => if p.1 != 0 then sAdd acc (sMul (Expr.c p.1) p.2) else acc) acc⟫
      = ⟪acc⟫ + NumAlg.wsum (l.map (·.1)) (l.map fun p => ⟪p.2⟫) := by
  induction l generalizing acc with
  | nil => simp
  | cons p t ih =>
    simp only [List.foldl_cons, List.map_cons, wsum_cons]
    rw [ih]
    by_cases hp : p.1 = 0
    · simp [hp]
    · have : (p.1 != 0) = true := by simpa using hp
      simp only [this, ite_true, denote_sAdd, denote_sMul, denote_c]
      ring

theorem denote_quadInner (row : List Rat) (elems : List Expr) :
    ⟪quadInner row elems⟫ = NumAlg.wsum row (elems.map (denote ρ σ)) := by
  unfold quadInner
  rw [denote_quadInner_aux, wsum_zip]; simp

theorem denote_foldl_quad (elems : List Expr) (l : List (List Rat × Expr)) (acc : Expr) :
    ⟪l.foldl (fun acc (p : List Rat × Expr) => sAdd acc (sMul (quadInner p.1 elems) p.2)) acc⟫
      = ⟪acc⟫ + NumAlg.dotp (l.map fun p => NumAlg.wsum p.1 (elems.map (denote ρ σ))) (l.map fun p => ⟪p.2⟫) := by
  induction l generalizing acc with
  | nil => simp
  | cons p t ih => simp [ih, denote_quadInner, add_assoc]

theorem dotp_zip_map (f : List Rat → ℝ) (qs : List (List Rat)) (dv : List Expr) :
    NumAlg.dotp ((qs.zip dv).map fun p => f p.1) ((qs.zip dv).map fun p => ⟪p.2⟫)
      = NumAlg.dotp (qs.map f) (dv.map (denote ρ σ)) := by
  induction qs generalizing dv with
  | nil => simp
  | cons r qs ih => cases dv with
    | nil => simp
    | cons d dv => simp [ih]

theorem hd_rows {a : ℝ} {fs : List (ℝ → ℝ)} {ds : List ℝ} (h : HD a fs ds) (q : List (List Rat)) :
    HD a (q.map fun row t => NumAlg.wsum row (at_ fs t)) (q.map fun row => NumAlg.wsum row ds) := by
  induction q with
  | nil => exact List.Forall₂.nil
  | cons r q ih => exact List.Forall₂.cons (h.wsum r) ih

theorem quad_case (v : Vec) (q : List (List Rat))
    (hv : HD (ρ wrt.name) (FVec ρ σ wrt.name v) ((gradVec wrt v).map (denote ρ σ)))
    (hwf : WF (.quad v q)) :
    HasDerivAt (F ρ σ wrt.name (.quad v q)) ⟪quadRule wrt v q (gradVec wrt v)⟫ (ρ wrt.name) := by
  obtain ⟨hwv, hql, hrows⟩ := hwf
  have hF : F ρ σ wrt.name (.quad v q) = fun t =>
      NumAlg.dotp (at_ (FVec ρ σ wrt.name v) t)
        (at_ (q.map fun row t => NumAlg.wsum row (at_ (FVec ρ σ wrt.name v) t)) t) := by
    funext t
    simp only [F, denote, quadForm, ← at_FVec]
    simp [at_, List.map_map, Function.comp_def]
  rw [hF]
  refine (hv.dotp (hd_rows hv q)).congr_deriv ?_
  have hxs : (denoteVec ρ σ v).length = q.length := by rw [denoteVec_length, hql]
  have hds : ((gradVec wrt v).map (denote ρ σ)).length = q.length := by
    rw [← hv.length, ← hxs, ← at_FVec_self ρ σ wrt.name v]; simp [at_]
  have hat : at_ (q.map fun row t => NumAlg.wsum row (at_ (FVec ρ σ wrt.name v) t)) (ρ wrt.name)
      = q.map fun row => NumAlg.wsum row (denoteVec ρ σ v) := by
    simp [at_, List.map_map, Function.comp_def, ← at_FVec_self ρ σ wrt.name v]
  rw [hat, at_FVec_self,
    dotD_eq _ _ _ _ (by simp [hxs]) (by rw [hxs, hds]) (by simp),
    quad_deriv_eq q _ _ hxs hds (by intro row hr; rw [hrows row hr, hql])]
  cases v with
  | exprs es =>
    simp only [quadRule]
    rw [denote_foldl_quad, dotp_zip_map ρ σ (fun r => NumAlg.wsum r (es.toList.map (denote ρ σ))),
      toList_denote]
    simp [denoteVec]
  | vars vv =>
    rw [map_denote_gradVec_vars, dotp_ind hwv]
    simp only [quadRule]
    cases findName wrt.name vv.vars with
    | none => simp
    | some i =>
      simp only
      rw [getD_map_wsum]; simp [denote]

end quadnode

end Optyx
