/-
  Optyx.Lemmas.GradVars — facts about vectors of plain variables: the coordinate functions
  t ↦ ρ[x ↦ t](yᵢ), their derivatives (indicator lists) and how the rules' first-match
  look-ups (`findName`, `hasName`, `countName`) compute sums against indicator lists.
-/
import Optyx.Lemmas.GradVec

namespace Optyx
open NumAlg Optyx.Generated Optyx.Py

def upd (ρ : String → ℝ) (x : String) (t : ℝ) : String → ℝ := Function.update ρ x t

@[simp] theorem upd_self (ρ : String → ℝ) (x : String) : upd ρ x (ρ x) = ρ := by
  simp [upd]

theorem upd_apply (ρ : String → ℝ) (x : String) (t : ℝ) (y : String) :
    upd ρ x t y = if y = x then t else ρ y := by
  simp [upd, Function.update_apply]

def ind (x : String) (vs : List Var) : List ℝ := vs.map fun y => if y.name = x then 1 else 0

def varFns (ρ : String → ℝ) (x : String) (vs : List Var) : List (ℝ → ℝ) :=
  vs.map fun y t => upd ρ x t y.name

theorem hasDerivAt_coord (ρ : String → ℝ) (x y : String) :
    HasDerivAt (fun t => upd ρ x t y) (if y = x then 1 else 0) (ρ x) := by
  by_cases h : y = x
  · subst h; simpa [upd] using hasDerivAt_id' (ρ y)
  · simpa [upd, h, Function.update_of_ne h] using hasDerivAt_const (ρ x) (ρ y)

theorem hd_vars (ρ : String → ℝ) (x : String) (vs : List Var) :
    HD (ρ x) (varFns ρ x vs) (ind x vs) := by
  induction vs with
  | nil => exact List.Forall₂.nil
  | cons y t ih => exact List.Forall₂.cons (hasDerivAt_coord ρ x y.name) ih

theorem at_varFns (ρ : String → ℝ) (x : String) (vs : List Var) (t : ℝ) :
    at_ (varFns ρ x vs) t = valsOf (upd ρ x t) vs := by
  simp [at_, varFns, valsOf]

theorem ind_of_not_mem {x : String} {vs : List Var} (h : x ∉ names vs) :
    ind x vs = List.replicate vs.length (0:ℝ) := by
  induction vs with
  | nil => rfl
  | cons y t ih =>
    simp only [names, List.map_cons, List.mem_cons, not_or] at h
    have hy : y.name ≠ x := fun e => h.1 e.symm
    have := ih h.2
    simp only [ind, List.map_cons, hy, ite_false, List.length_cons, List.replicate_succ] at this ⊢
    rw [this]

@[simp] theorem dotp_zeros (vals : List ℝ) (n : Nat) :
    NumAlg.dotp vals (List.replicate n (0:ℝ)) = 0 := by
  induction n generalizing vals with
  | zero => simp
  | succ n ih => cases vals <;> simp [List.replicate_succ, ih]

@[simp] theorem wsum_zeros (cs : List Rat) (n : Nat) :
    NumAlg.wsum cs (List.replicate n (0:ℝ)) = 0 := by
  induction n generalizing cs with
  | zero => simp
  | succ n ih => cases cs <;> simp [List.replicate_succ, ih]

@[simp] theorem sum_zeros (n : Nat) : NumAlg.sum (List.replicate n (0:ℝ)) = 0 := by
  induction n with
  | zero => simp
  | succ n ih => simp [List.replicate_succ, ih]

theorem findName_eq_none {x : String} {vs : List Var} : findName x vs = none ↔ x ∉ names vs := by
  induction vs with
  | nil => simp [findName, names]
  | cons y t ih =>
    unfold findName
    by_cases h : y.name = x
    · simp [h, names]
    · have h' : ¬ (x = y.name) := fun e => h e.symm
      simp [h, h', names] at ih ⊢
      exact ih

theorem hasName_iff {x : String} {vs : List Var} : hasName x vs = true ↔ x ∈ names vs := by
  induction vs with
  | nil => simp [hasName, names]
  | cons y t ih =>
    simp only [hasName, names, List.any_cons, Bool.or_eq_true, beq_iff_eq, List.map_cons,
      List.mem_cons] at ih ⊢
    rw [ih]; constructor
    · rintro (h | h); exacts [Or.inl h.symm, Or.inr h]
    · rintro (h | h); exacts [Or.inl h.symm, Or.inr h]

/-- Σ valsᵢ·[yᵢ = x] picks the value at the first (only) match -/
theorem dotp_ind {x : String} {vs : List Var} (hnd : (names vs).Nodup) (vals : List ℝ) :
    NumAlg.dotp vals (ind x vs) =
      match findName x vs with
      | some i => vals.getD i 0
      | none => 0 := by
  induction vs generalizing vals with
  | nil => simp [ind, findName]
  | cons y t ih =>
    simp only [names, List.map_cons, List.nodup_cons] at hnd
    cases vals with
    | nil =>
      simp only [dotp_nil_left]
      cases findName x (y :: t) <;> simp
    | cons v vals =>
      unfold findName
      by_cases h : y.name = x
      · have hx : x ∉ names t := by
          have := hnd.1; simpa [names, ← h] using this
        have hz := ind_of_not_mem hx
        simp only [ind, List.map_cons, h, ite_true, dotp_cons] at hz ⊢
        simp [hz]
      · have := ih hnd.2 vals
        simp only [ind, List.map_cons, h, ite_false, dotp_cons, beq_iff_eq] at this ⊢
        rw [this]
        cases findName x t <;> simp

theorem wsum_eq_dotp (cs : List Rat) (xs : List ℝ) :
    NumAlg.wsum cs xs = NumAlg.dotp (cs.map fun c => (c:ℝ)) xs := by
  induction cs generalizing xs with
  | nil => simp
  | cons c cs ih => cases xs <;> simp [ih]

theorem wsum_ind {x : String} {vs : List Var} (hnd : (names vs).Nodup) (cs : List Rat) :
    NumAlg.wsum cs (ind x vs) =
      match findName x vs with
      | some i => ((cs.getD i 0 : Rat) : ℝ)
      | none => 0 := by
  rw [wsum_eq_dotp, dotp_ind hnd]
  cases findName x vs with
  | none => rfl
  | some i =>
    simp only
    induction cs generalizing i with
    | nil => simp
    | cons c cs ih => cases i with
      | zero => simp
      | succ i => simpa using ih i

theorem sum_ind {x : String} {vs : List Var} (hnd : (names vs).Nodup) :
    NumAlg.sum (ind x vs) = if hasName x vs then 1 else 0 := by
  induction vs with
  | nil => simp [ind, hasName]
  | cons y t ih =>
    simp only [names, List.map_cons, List.nodup_cons] at hnd
    by_cases h : y.name = x
    · have hx : x ∉ names t := by
        have := hnd.1; simpa [names, ← h] using this
      have hz := ind_of_not_mem hx
      simp only [ind, List.map_cons, h, ite_true, sum_cons] at hz ⊢
      simp [hz, hasName, h]
    · have := ih hnd.2
      simp only [ind, List.map_cons, h, ite_false, sum_cons] at this ⊢
      simp [this, hasName, h]

theorem valsOf_getD_findName {ρ : String → ℝ} {x : String} {vs : List Var} {i : Nat}
    (h : findName x vs = some i) : (valsOf ρ vs).getD i 0 = ρ x := by
  induction vs generalizing i with
  | nil => simp [findName] at h
  | cons y t ih =>
    unfold findName at h
    by_cases hy : y.name = x
    · simp [hy] at h; subst h; simp [valsOf, hy]
    · simp only [hy, beq_iff_eq, ite_false, Option.map_eq_some_iff] at h
      obtain ⟨j, hj, rfl⟩ := h
      simpa [valsOf] using ih hj

theorem dotD_eq (f g d e : List ℝ) (h1 : f.length = g.length) (h2 : f.length = d.length)
    (h3 : g.length = e.length) : dotD f g d e = NumAlg.dotp f e + NumAlg.dotp g d := by
  induction f generalizing g d e with
  | nil =>
    cases g <;> cases d <;> cases e <;> simp_all [dotD]
  | cons a f ih =>
    cases g with
    | nil => simp at h1
    | cons b g =>
      cases d with
      | nil => simp at h2
      | cons c d =>
        cases e with
        | nil => simp at h3
        | cons k e =>
          simp only [List.length_cons, Nat.add_right_cancel_iff] at h1 h2 h3
          simp [dotD, ih g d e h1 h2 h3]; ring

end Optyx
