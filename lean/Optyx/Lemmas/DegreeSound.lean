/-
  Optyx.Lemmas.DegreeSound — `Py.degree e = some d` ⇒ ⟦e⟧ is a polynomial of total degree ≤ d
  (Mathlib `MvPolynomial String ℝ`), by mutual structural recursion over Expr / Vec / ExprList.
-/
import Optyx.Lemmas.Real
import Optyx.Py.Degree
import Mathlib.Algebra.MvPolynomial.Degrees
import Mathlib.Algebra.MvPolynomial.CommRing
import Mathlib.Algebra.MvPolynomial.Eval

namespace Optyx
open MvPolynomial NumAlg Optyx.Py

abbrev Poly := MvPolynomial String ℝ

/-- "no division by the literal constant 0" (computable, so examples can `decide` it) -/
def isZeroConst : Expr → Bool
  | .const (.rat q) => q == 0
  | _ => false

mutual
def noConstDivZero : Expr → Bool
  | .bin op l r => (!(op == .div && isZeroConst r)) && noConstDivZero l && noConstDivZero r
  | .un _ a => noConstDivZero a
  | .linComb _ v => noConstDivZeroVec v
  | .l2 v => noConstDivZeroVec v
  | .l1 v => noConstDivZeroVec v
  | .quad v _ => noConstDivZeroVec v
  | .dot l r => noConstDivZeroVec l && noConstDivZeroVec r
  | .exprSum es => noConstDivZeroList es
  | .matSumE es => noConstDivZeroList es
  | .const _ => true
  | .var _ => true
  | .param _ => true
  | .vecSum _ => true
  | .powSum _ _ => true
  | .unSum _ _ => true
  | .matSumV _ => true
  | .frob _ => true
def noConstDivZeroVec : Vec → Bool
  | .vars _ => true
  | .exprs es => noConstDivZeroList es
def noConstDivZeroList : ExprList → Bool
  | .nil => true
  | .cons e t => noConstDivZero e && noConstDivZeroList t
end

/-- the expression nowhere divides by the literal `Constant(0)`: there ℝ's `x / 0 = 0` and
    NumPy's `inf`/`nan` differ, so the denotation over ℝ says nothing about the program -/
def NoConstDivZero (e : Expr) : Prop := noConstDivZero e = true

/-- `f` is (for every parameter store) a polynomial function of total degree ≤ d -/
def PolyLE (f : (String → ℝ) → (Nat → ℝ) → ℝ) (d : ℕ) : Prop :=
  ∃ p : Poly, p.totalDegree ≤ d ∧ ∀ ρ σ, f ρ σ = eval ρ p

def PolyLEList (f : (String → ℝ) → (Nat → ℝ) → List ℝ) (d : ℕ) : Prop :=
  ∃ ps : List Poly, (∀ p ∈ ps, p.totalDegree ≤ d) ∧ ∀ ρ σ, f ρ σ = ps.map (eval ρ)

theorem PolyLE.mono {f d d'} (h : PolyLE f d) (hd : d ≤ d') : PolyLE f d' := by
  obtain ⟨p, hp, he⟩ := h; exact ⟨p, hp.trans hd, he⟩

theorem PolyLEList.mono {f d d'} (h : PolyLEList f d) (hd : d ≤ d') : PolyLEList f d' := by
  obtain ⟨ps, hp, he⟩ := h; exact ⟨ps, fun p hm => (hp p hm).trans hd, he⟩

/-! ### polynomial counterparts of the list operations of `NumAlg` -/

noncomputable def pwsum : List Rat → List Poly → Poly
  | c :: cs, p :: ps => C (c : ℝ) * p + pwsum cs ps
  | _, _ => 0

noncomputable def pdotp : List Poly → List Poly → Poly
  | p :: ps, q :: qs => p * q + pdotp ps qs
  | _, _ => 0

theorem eval_pwsum (ρ : String → ℝ) : ∀ (cs : List Rat) (ps : List Poly),
    eval ρ (pwsum cs ps) = NumAlg.wsum cs (ps.map (eval ρ))
  | [], ps => by simp [pwsum]
  | _ :: _, [] => by simp [pwsum]
  | c :: cs, p :: ps => by simp [pwsum, eval_pwsum ρ cs ps]

theorem eval_pdotp (ρ : String → ℝ) : ∀ (ps qs : List Poly),
    eval ρ (pdotp ps qs) = NumAlg.dotp (ps.map (eval ρ)) (qs.map (eval ρ))
  | [], qs => by simp [pdotp]
  | _ :: _, [] => by simp [pdotp]
  | p :: ps, q :: qs => by simp [pdotp, eval_pdotp ρ ps qs]

theorem eval_listSum (ρ : String → ℝ) : ∀ (ps : List Poly),
    eval ρ ps.sum = NumAlg.sum (ps.map (eval ρ))
  | [] => by simp
  | p :: ps => by simp [eval_listSum ρ ps]

theorem totalDegree_pwsum {d : ℕ} : ∀ (cs : List Rat) (ps : List Poly),
    (∀ p ∈ ps, p.totalDegree ≤ d) → (pwsum cs ps).totalDegree ≤ d
  | [], ps, _ => by simp [pwsum]
  | _ :: _, [], _ => by simp [pwsum]
  | c :: cs, p :: ps, h => by
    simp only [pwsum]
    refine (totalDegree_add _ _).trans (max_le ?_ ?_)
    · refine (totalDegree_mul _ _).trans ?_
      simpa using h p (by simp)
    · exact totalDegree_pwsum cs ps (fun q hq => h q (by simp [hq]))

theorem totalDegree_pdotp {a b : ℕ} : ∀ (ps qs : List Poly),
    (∀ p ∈ ps, p.totalDegree ≤ a) → (∀ q ∈ qs, q.totalDegree ≤ b) →
    (pdotp ps qs).totalDegree ≤ a + b
  | [], qs, _, _ => by simp [pdotp]
  | _ :: _, [], _, _ => by simp [pdotp]
  | p :: ps, q :: qs, hp, hq => by
    simp only [pdotp]
    refine (totalDegree_add _ _).trans (max_le ?_ ?_)
    · exact (totalDegree_mul _ _).trans (Nat.add_le_add (hp p (by simp)) (hq q (by simp)))
    · exact totalDegree_pdotp ps qs (fun r hr => hp r (by simp [hr])) (fun r hr => hq r (by simp [hr]))

theorem totalDegree_listSum {d : ℕ} : ∀ (ps : List Poly),
    (∀ p ∈ ps, p.totalDegree ≤ d) → ps.sum.totalDegree ≤ d
  | [], _ => by simp
  | p :: ps, h => by
    simp only [List.sum_cons]
    exact (totalDegree_add _ _).trans
      (max_le (h p (by simp)) (totalDegree_listSum ps (fun q hq => h q (by simp [hq]))))

/-! ### closure properties -/

theorem PolyLE.wsum {f d} (cs : List Rat) (h : PolyLEList f d) :
    PolyLE (fun ρ σ => NumAlg.wsum cs (f ρ σ)) d := by
  obtain ⟨ps, hp, he⟩ := h
  exact ⟨pwsum cs ps, totalDegree_pwsum cs ps hp, fun ρ σ => by simp only [he, eval_pwsum]⟩

theorem PolyLE.sum {f d} (h : PolyLEList f d) : PolyLE (fun ρ σ => NumAlg.sum (f ρ σ)) d := by
  obtain ⟨ps, hp, he⟩ := h
  exact ⟨ps.sum, totalDegree_listSum ps hp, fun ρ σ => by simp only [he, eval_listSum]⟩

theorem PolyLE.dotp {f g a b} (hf : PolyLEList f a) (hg : PolyLEList g b) :
    PolyLE (fun ρ σ => NumAlg.dotp (f ρ σ) (g ρ σ)) (a + b) := by
  obtain ⟨ps, hp, he⟩ := hf
  obtain ⟨qs, hq, hge⟩ := hg
  exact ⟨pdotp ps qs, totalDegree_pdotp ps qs hp hq, fun ρ σ => by simp only [he, hge, eval_pdotp]⟩

theorem PolyLE.quadForm {f a} (q : List (List Rat)) (hf : PolyLEList f a) :
    PolyLE (fun ρ σ => NumAlg.quadForm q (f ρ σ)) (a + a) := by
  obtain ⟨ps, hp, he⟩ := hf
  refine ⟨pdotp ps (q.map fun row => pwsum row ps), totalDegree_pdotp _ _ hp ?_, fun ρ σ => ?_⟩
  · intro r hr
    obtain ⟨row, _, rfl⟩ := List.mem_map.mp hr
    exact totalDegree_pwsum row ps hp
  · simp only [he, eval_pdotp, NumAlg.quadForm, List.map_map]
    congr 1
    apply List.map_congr_left
    intro row _
    simp [eval_pwsum]

/-- the values of a list of variables: the polynomials `X name` -/
theorem PolyLEList.vals (vs : List Var) : PolyLEList (fun ρ _ => valsOf ρ vs) 1 := by
  refine ⟨vs.map fun v => X v.name, ?_, fun ρ σ => ?_⟩
  · intro p hp
    obtain ⟨v, _, rfl⟩ := List.mem_map.mp hp
    simp
  · simp [valsOf, List.map_map, Function.comp_def]

theorem PolyLEList.nil : PolyLEList (fun _ _ => []) 0 :=
  ⟨[], by simp, by simp⟩

theorem PolyLEList.cons {f g d} (hf : PolyLE f d) (hg : PolyLEList g d) :
    PolyLEList (fun ρ σ => f ρ σ :: g ρ σ) d := by
  obtain ⟨p, hp, he⟩ := hf
  obtain ⟨ps, hps, hes⟩ := hg
  refine ⟨p :: ps, ?_, fun ρ σ => by simp [he, hes]⟩
  intro q hq
  rcases List.mem_cons.mp hq with rfl | hq
  · exact hp
  · exact hps q hq

/-- elementwise natural power -/
theorem PolyLEList.powVals (vs : List Var) (n : ℕ) :
    PolyLEList (fun ρ _ => (valsOf ρ vs).map fun x => x ^ n) n := by
  refine ⟨vs.map fun v => (X v.name) ^ n, ?_, fun ρ σ => ?_⟩
  · intro p hp
    obtain ⟨v, _, rfl⟩ := List.mem_map.mp hp
    refine (totalDegree_pow _ _).trans ?_
    simp
  · simp [valsOf, List.map_map, Function.comp_def]

/-! ### the exponent tests -/

theorem ratNat_cast {q : Rat} {n : ℕ} (h : ratNat q = some n) : (q : ℝ) = (n : ℝ) := by
  unfold ratNat at h
  split at h
  · rename_i hc
    simp only [Bool.and_eq_true, beq_iff_eq, decide_eq_true_eq] at hc
    obtain ⟨hden, hnum⟩ := hc
    have hn : n = q.num.toNat := by simpa using h.symm
    have h1 : ((q.num : ℚ)) = q := Rat.coe_int_num_of_den_eq_one hden
    have h2 : ((q.num.toNat : ℤ)) = q.num := Int.toNat_of_nonneg hnum
    rw [hn, ← h1]
    have : ((q.num : ℚ) : ℝ) = ((q.num : ℤ) : ℝ) := by norm_cast
    rw [this]
    exact_mod_cast congrArg (fun z : ℤ => (z : ℝ)) h2.symm
  · simp at h

theorem expNat_eq {r : Expr} {n : ℕ} (h : expNat r = some n) :
    ∃ q, r = .const (.rat q) ∧ ratNat q = some n := by
  unfold expNat at h
  split at h
  · rename_i q; exact ⟨q, rfl, h⟩
  · simp at h

theorem isConstNode_eq {r : Expr} (h : isConstNode r = true) : ∃ c, r = .const c := by
  unfold isConstNode at h
  split at h
  · rename_i c; exact ⟨c, rfl⟩
  · simp at h

/-! ### soundness of `Py.degree` -/

mutual
theorem degree_poly : (e : Expr) → ∀ d, degree e = some d → PolyLE (fun ρ σ => denote ρ σ e) d
  | .const c, d, h => by
    simp only [degree, Option.some.injEq] at h; subst h
    exact ⟨C (cst c), by simp, fun ρ σ => by simp [denote]⟩
  | .var v, d, h => by
    simp only [degree, Option.some.injEq] at h; subst h
    exact ⟨X v.name, by simp, fun ρ σ => by simp [denote]⟩
  | .param _, d, h => by simp [degree] at h
  | .linComb cs v, d, h => by
    simp only [degree] at h
    have := PolyLE.wsum cs (vecDegree_poly v d h)
    simpa only [denote] using this
  | .vecSum v, d, h => by
    simp only [degree, Option.some.injEq] at h; subst h
    have := PolyLE.sum (PolyLEList.vals v.vars)
    simpa only [denote] using this
  | .exprSum _, d, h => by simp [degree] at h
  | .dot l r, d, h => by
    simp only [degree] at h
    split at h
    · simp at h
    · rename_i a ha
      split at h
      · simp at h
      · rename_i b hb
        simp only [Option.some.injEq] at h; subst h
        have := PolyLE.mono (PolyLE.dotp (vecDegree_poly l a ha) (vecDegree_poly r b hb)) (le_max_right 2 (a + b))
        simpa only [denote] using this
  | .l2 _, d, h => by simp [degree] at h
  | .l1 _, d, h => by simp [degree] at h
  | .quad v q, d, h => by
    simp only [degree] at h
    split at h
    · simp at h
    · rename_i a ha
      simp only [Option.some.injEq] at h; subst h
      have hle : a + a ≤ max 2 (2 * a) := by rw [← two_mul]; exact le_max_right 2 (2 * a)
      have := PolyLE.mono (PolyLE.quadForm q (vecDegree_poly v a ha)) hle
      simpa only [denote] using this
  | .powSum v k, d, h => by
    simp only [degree] at h
    have hk := ratNat_cast h
    have := PolyLE.sum (PolyLEList.powVals v.vars d)
    obtain ⟨p, hp, he⟩ := this
    refine ⟨p, hp, fun ρ σ => ?_⟩
    rw [← he ρ σ]
    simp only [denote, pow_real, ofRat_real, hk, Real.rpow_natCast]
  | .unSum _ _, d, h => by simp [degree] at h
  | .matSumV _, d, h => by simp [degree] at h
  | .matSumE _, d, h => by simp [degree] at h
  | .frob _, d, h => by simp [degree] at h
  | .un op a, d, h => by
    cases op <;> simp only [degree] at h <;> try (simp at h)
    obtain ⟨p, hp, he⟩ := degree_poly a d h
    exact ⟨-p, by simpa using hp, fun ρ σ => by simp [denote, he]⟩
  | .bin .add l r, d, h => by
    simp only [degree] at h
    split at h
    · simp at h
    · rename_i a ha
      split at h
      · simp at h
      · rename_i b hb
        simp only [Option.some.injEq] at h; subst h
        obtain ⟨p, hp, hpe⟩ := degree_poly l a ha
        obtain ⟨q, hq, hqe⟩ := degree_poly r b hb
        exact ⟨p + q, (totalDegree_add p q).trans (max_le_max hp hq),
          fun ρ σ => by simp [denote, hpe, hqe]⟩
  | .bin .sub l r, d, h => by
    simp only [degree] at h
    split at h
    · simp at h
    · rename_i a ha
      split at h
      · simp at h
      · rename_i b hb
        simp only [Option.some.injEq] at h; subst h
        obtain ⟨p, hp, hpe⟩ := degree_poly l a ha
        obtain ⟨q, hq, hqe⟩ := degree_poly r b hb
        exact ⟨p - q, (totalDegree_sub p q).trans (max_le_max hp hq),
          fun ρ σ => by simp [denote, hpe, hqe]⟩
  | .bin .mul l r, d, h => by
    simp only [degree] at h
    split at h
    · simp at h
    · rename_i a ha
      split at h
      · simp at h
      · rename_i b hb
        split at h
        · simp at h
        · simp only [Option.some.injEq] at h; subst h
          obtain ⟨p, hp, hpe⟩ := degree_poly l a ha
          obtain ⟨q, hq, hqe⟩ := degree_poly r b hb
          exact ⟨p * q, (totalDegree_mul p q).trans (Nat.add_le_add hp hq),
            fun ρ σ => by simp [denote, hpe, hqe]⟩
  | .bin .div l r, d, h => by
    simp only [degree] at h
    split at h
    · rename_i hc
      obtain ⟨c, rfl⟩ := isConstNode_eq hc
      obtain ⟨p, hp, hpe⟩ := degree_poly l d h
      refine ⟨p * C ((cst c : ℝ)⁻¹), (totalDegree_mul _ _).trans (by simpa using hp), fun ρ σ => ?_⟩
      simp [denote, hpe, div_eq_mul_inv]
    · simp at h
  | .bin .pow l r, d, h => by
    simp only [degree] at h
    split at h
    · simp at h
    · rename_i n hn
      split at h
      · simp at h
      · rename_i a ha
        simp only [Option.some.injEq] at h; subst h
        obtain ⟨q, rfl, hq⟩ := expNat_eq hn
        have hk := ratNat_cast hq
        obtain ⟨p, hp, hpe⟩ := degree_poly l a ha
        refine ⟨p ^ n, (totalDegree_pow p n).trans ?_, fun ρ σ => ?_⟩
        · rw [Nat.mul_comm]; exact Nat.mul_le_mul_right n hp
        · simp only [denote, binop_pow, cst_rat, hk, Real.rpow_natCast, hpe, map_pow]
theorem vecDegree_poly : (v : Vec) → ∀ a, vecDegree v = some a →
    PolyLEList (fun ρ σ => denoteVec ρ σ v) a
  | .vars vv, a, h => by
    simp only [vecDegree, Option.some.injEq] at h; subst h
    simpa only [denoteVec] using PolyLEList.vals vv.vars
  | .exprs es, a, h => by
    simp only [vecDegree] at h
    simpa only [denoteVec] using (maxDegList_poly es 0 a h).2
theorem maxDegList_poly : (es : ExprList) → ∀ acc a, maxDegList es acc = some a →
    acc ≤ a ∧ PolyLEList (fun ρ σ => denoteList ρ σ es) a
  | .nil, acc, a, h => by
    simp only [maxDegList, Option.some.injEq] at h; subst h
    exact ⟨le_refl _, by simpa only [denoteList] using PolyLEList.mono PolyLEList.nil (Nat.zero_le _)⟩
  | .cons e t, acc, a, h => by
    simp only [maxDegList] at h
    split at h
    · simp at h
    · rename_i d hd
      obtain ⟨hle, ht⟩ := maxDegList_poly t (max acc d) a h
      refine ⟨(le_max_left acc d).trans hle, ?_⟩
      have he := PolyLE.mono (degree_poly e d hd) ((le_max_right acc d).trans hle)
      simpa only [denoteList] using PolyLEList.cons he ht
end

end Optyx
