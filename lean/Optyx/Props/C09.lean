/-
  C09 — nonlinear solves are a transparent wrapper over SciPy.

  What optyx adds around `scipy.optimize.minimize` is (a) the *inputs*: objective / gradient /
  Hessian callables (negated for maximise), constraint dictionaries, bounds, the starting point,
  the method chosen by `auto`; (b) the post-processing of the result (C06/C07).  The theorems
  here cover the decision logic of (a): the starting point lies inside the declared bounds, the
  automatic method choice, the dispatch of `Problem.solve`, which optional arguments are handed
  over for which method (from the regenerated method sets), and the sign handling of maximise.
  That the callables themselves compute ⟦e⟧, ∇⟦e⟧, ∇²⟦e⟧ in the declared variable order is
  C01 / C03 / C17; that constraint dictionaries mean the relation written is C10.
  Convergence behaviour of SciPy is *not* provable here (trusted / tested by the differential in
  harness/props/c09.py): the property is therefore claimed as proof of the argument construction
  plus a validated differential, i.e. partial in that sense.
-/
import Optyx.Py.ScipyArgs
import Optyx.Lemmas.Simplify
import Optyx.Py.Grad

namespace Optyx.Props.C09
open Optyx Optyx.Py Optyx.Generated

open Optyx.Generated in
private theorem le_pyMax_left (a b : Rat) : a ≤ pyMax a b := by
  unfold pyMax; split
  · exact Rat.le_of_lt ‹_›
  · exact Rat.le_refl

open Optyx.Generated in
private theorem le_pyMin {a b c : Rat} (h1 : c ≤ a) (h2 : c ≤ b) : c ≤ pyMin a b := by
  unfold pyMin; split <;> assumption

open Optyx.Generated in
private theorem pyMin_le_right (a b : Rat) : pyMin a b ≤ b := by
  unfold pyMin; split
  · exact Rat.le_refl
  · exact Rat.not_lt.mp ‹_›

open Optyx.Generated in
private theorem initEps_nonneg : (0:ℚ) ≤ initEps := by unfold initEps; norm_num

/-- the starting point of every coordinate lies within the declared bounds (whenever they are
    consistent, `lb ≤ ub`) — SciPy never receives an `x0` outside `bounds`.  About the start rule
    regenerated from `_compute_initial_point` on every run. -/
theorem initialCoord_in_bounds (lb ub : Option Rat) (h : ∀ l u, lb = some l → ub = some u → l ≤ u) :
    (∀ l, lb = some l → l ≤ initialCoord lb ub) ∧ (∀ u, ub = some u → initialCoord lb ub ≤ u) := by
  cases lb with
  | none =>
    cases ub with
    | none => simp
    | some u =>
      refine ⟨by simp, ?_⟩
      intro u' hu; cases hu
      show Optyx.Generated.initUpper u ≤ u
      unfold Optyx.Generated.initUpper
      have : (0:ℚ) ≤ 1 := by norm_num
      linarith
  | some l =>
    cases ub with
    | none =>
      refine ⟨?_, by simp⟩
      intro l' hl; cases hl
      show l ≤ Optyx.Generated.initLower l
      unfold Optyx.Generated.initLower
      have := initEps_nonneg
      linarith
    | some u =>
      have hlu : l ≤ u := h l u rfl rfl
      constructor
      · intro l' hl; cases hl
        show l ≤ Optyx.Generated.initBoth l u
        unfold Optyx.Generated.initBoth
        apply le_pyMin
        · have h1 := le_pyMax_left Optyx.Generated.initEps (Optyx.Generated.initFrac * (u - l))
          have := initEps_nonneg
          linarith
        · linarith
      · intro u' hu; cases hu
        show Optyx.Generated.initBoth l u ≤ u
        unfold Optyx.Generated.initBoth
        have := pyMin_le_right (l + Optyx.Generated.pyMax Optyx.Generated.initEps (Optyx.Generated.initFrac * (u - l))) ((l + u) / 2)
        linarith

theorem initialPoint_in_bounds (bounds : List (Option Rat × Option Rat))
    (h : ∀ b ∈ bounds, ∀ l u, b.1 = some l → b.2 = some u → l ≤ u) :
    List.Forall₂ (fun (b : Option Rat × Option Rat) x =>
        (∀ l, b.1 = some l → l ≤ x) ∧ (∀ u, b.2 = some u → x ≤ u)) bounds (initialPoint bounds) := by
  induction bounds with
  | nil => exact List.Forall₂.nil
  | cons b t ih =>
    refine List.Forall₂.cons (initialCoord_in_bounds b.1 b.2 (h b (by simp))) (ih ?_)
    intro b' hb'; exact h b' (by simp [hb'])

/-- `auto` never picks L-BFGS-B (which ignores the `constraints` argument) for a constrained problem,
    and picks it for every unconstrained one -/
theorem autoSelect_lbfgsb_iff (od : Option Nat) (cds : List (Option Nat)) :
    autoSelect od cds = "L-BFGS-B" ↔ cds = [] := by
  unfold autoSelect
  cases cds with
  | nil => simp
  | cons d t =>
    simp only [List.isEmpty_cons, Bool.false_eq_true, ite_false]
    split_ifs <;> simp

/-- with constraints: trust-constr exactly when some degree is `None` (non-polynomial) or > 2 -/
theorem autoSelect_trust_iff (od : Option Nat) (cds : List (Option Nat)) (h : cds ≠ []) :
    autoSelect od cds = "trust-constr" ↔ (needsRobust od = true ∨ ∃ d ∈ cds, needsRobust d = true) := by
  unfold autoSelect
  have : cds.isEmpty = false := by cases cds <;> simp_all
  simp only [this, Bool.false_eq_true, ite_false]
  by_cases h1 : needsRobust od = true
  · simp [h1]
  · simp only [h1, ite_false, false_or, Bool.false_eq_true]
    by_cases h2 : cds.any needsRobust = true
    · simp only [h2, ite_true, true_iff]
      simpa [List.any_eq_true] using h2
    · simp only [h2, ite_false]
      constructor
      · intro hc; exact absurd hc (by decide)
      · rintro ⟨d, hd, hr⟩
        exact absurd (List.any_eq_true.mpr ⟨d, hd, hr⟩) h2

/-- dispatch of `Problem.solve`: the LP path is taken exactly for `auto` on a linear problem and
    for the four explicit LP method names -/
theorem route_lp_iff (m : String) (lin : Bool) (od : Option Nat) (cds : List (Option Nat)) :
    (∃ mm, route m lin od cds = .lp mm) ↔
      ((m = "auto" ∧ lin = true) ∨ m = "linprog" ∨ m = "highs" ∨ m = "highs-ds" ∨ m = "highs-ipm") := by
  unfold route
  by_cases h1 : m = "auto"
  · subst h1; cases lin <;> simp
  · by_cases h2 : m = "linprog"
    · subst h2; simp
    · by_cases h3 : m = "highs" ∨ m = "highs-ds" ∨ m = "highs-ipm"
      · rcases h3 with h | h | h <;> subst h <;> simp
      · simp only [not_or] at h3
        simp [h1, h2, h3.1, h3.2.1, h3.2.2]

/-- which optional arguments each documented method receives — read off the *regenerated*
    HESSIAN / DERIVATIVE_FREE / BOUNDS method sets of `solve_scipy` (n bounds, k constraints > 0) -/
theorem gate_table :
    gate "SLSQP" true 1 1 = ⟨true, false, true, true⟩ ∧
    gate "trust-constr" true 1 1 = ⟨true, true, true, true⟩ ∧
    gate "trust-constr" false 1 1 = ⟨true, false, true, true⟩ ∧
    gate "L-BFGS-B" true 1 0 = ⟨true, false, true, false⟩ ∧
    gate "BFGS" true 1 0 = ⟨true, false, false, false⟩ ∧
    gate "Nelder-Mead" true 1 0 = ⟨false, false, true, false⟩ ∧
    gate "Newton-CG" true 1 0 = ⟨true, true, false, false⟩ := by decide

section
variable (ρ : String → ℝ) (σ : Nat → ℝ)

/-- maximise: the objective handed to SciPy is `-obj` (a `neg` node); its value, and the value of
    its symbolic gradient, are the negations — so SciPy minimises exactly −f with exact −∇f -/
theorem maximize_sign (obj : Expr) (wrt : Var) :
    denote ρ σ (.un .neg obj) = - denote ρ σ obj ∧
    denote ρ σ (Py.grad wrt (.un .neg obj)) = - denote ρ σ (Py.grad wrt obj) := by
  constructor
  · simp [denote]
  · simp [Py.grad, unaryRule]

end

/-- non-vacuity of `initialPoint_in_bounds`: consistent bounds exist and the start is strictly interior:
    for `0 ≤ x ≤ 10` it is 1 % of the range (the double `0.01` times 10), next to a lone lower bound it is the bound
    plus the double `1e-4`, next to a lone upper bound it is one below, and 0 when unbounded -/
example : initialPoint [(some 0, some 10), (some 1, none), (none, some 3), (none, none)]
    = [10 * initFrac, 1 + initEps, 2, 0] ∧ (0:ℚ) < 10 * initFrac ∧ 10 * initFrac < 10 := by
  refine ⟨?_, by unfold initFrac; norm_num, by unfold initFrac; norm_num⟩
  simp only [initialPoint, initialCoord, List.map_cons, List.map_nil, initBoth, initLower, initUpper, initFree,
    pyMax, pyMin, initEps, initFrac]
  norm_num

end Optyx.Props.C09
