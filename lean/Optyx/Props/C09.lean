/-
  C09 — nonlinear solves are a transparent wrapper over SciPy.

  What optyx adds around `scipy.optimize.minimize` is (a) the *inputs*: objective / gradient /
  Hessian callables (negated for maximise), constraint dictionaries, bounds, the starting point,
  the method chosen by `auto`; (b) the post-processing of the result (C06/C07).  The theorems
  here cover the decision logic of (a): the starting point lies inside the declared bounds, the
  automatic method choice, the dispatch of `Problem.solve`, which optional arguments are handed
  over for which method (from the regenerated method sets), and the sign handling of maximise.
  That the callables themselves compute ⟦e⟧, ∇⟦e⟧, ∇²⟦e⟧ in the declared variable order is
  C01 / C03 / C17; that constraint dictionaries mean the relation written is C10.
  Convergence behaviour of SciPy is *not* provable here (trusted / tested by the differential in
  harness/props/c09.py): the property is therefore claimed as proof of the argument construction
  plus a validated differential, i.e. partial in that sense.
-/
import Optyx.Py.ScipyArgs
import Optyx.Lemmas.Simplify
import Optyx.Py.Grad

namespace Optyx.Props.C09
open Optyx Optyx.Py Optyx.Generated

private theorem rmin_le_left (a b : Rat) : rmin a b ≤ a := by
  unfold rmin; split
  · exact Rat.le_refl
  · rename_i h; exact Rat.le_of_lt (Rat.not_le.mp h)

private theorem rmin_le_right (a b : Rat) : rmin a b ≤ b := by
  unfold rmin; split
  · assumption
  · exact Rat.le_refl

private theorem le_rmin {a b c : Rat} (h1 : c ≤ a) (h2 : c ≤ b) : c ≤ rmin a b := by
  unfold rmin; split <;> assumption

private theorem le_rmax_left (a b : Rat) : a ≤ rmax a b := by
  unfold rmax; split
  · assumption
  · exact Rat.le_refl

/-- the starting point of every coordinate lies within the declared bounds (whenever they are
    consistent, `lb ≤ ub`) — SciPy never receives an `x0` outside `bounds` -/
theorem initialCoord_in_bounds (lb ub : Option Rat) (h : ∀ l u, lb = some l → ub = some u → l ≤ u) :
    (∀ l, lb = some l → l ≤ initialCoord lb ub) ∧ (∀ u, ub = some u → initialCoord lb ub ≤ u) := by
  cases lb with
  | none =>
    cases ub with
    | none => simp
    | some u =>
      refine ⟨by simp, ?_⟩
      intro u' hu; cases hu
      show u - 1 ≤ u
      have : (0:ℚ) ≤ 1 := by norm_num
      linarith
  | some l =>
    cases ub with
    | none =>
      refine ⟨?_, by simp⟩
      intro l' hl; cases hl
      show l ≤ l + interiorEps
      have : (0:ℚ) ≤ interiorEps := by unfold interiorEps; norm_num
      linarith
    | some u =>
      have hlu : l ≤ u := h l u rfl rfl
      constructor
      · intro l' hl; cases hl
        show l ≤ rmin (l + rmax interiorEps (interiorFrac * (u - l))) ((l + u) / 2)
        apply le_rmin
        · have h1 : interiorEps ≤ rmax interiorEps (interiorFrac * (u - l)) := le_rmax_left _ _
          have : (0:ℚ) ≤ interiorEps := by unfold interiorEps; norm_num
          linarith
        · linarith
      · intro u' hu; cases hu
        show rmin (l + rmax interiorEps (interiorFrac * (u - l))) ((l + u) / 2) ≤ u
        have := rmin_le_right (l + rmax interiorEps (interiorFrac * (u - l))) ((l + u) / 2)
        linarith

theorem initialPoint_in_bounds (bounds : List (Option Rat × Option Rat))
    (h : ∀ b ∈ bounds, ∀ l u, b.1 = some l → b.2 = some u → l ≤ u) :
    List.Forall₂ (fun (b : Option Rat × Option Rat) x =>
        (∀ l, b.1 = some l → l ≤ x) ∧ (∀ u, b.2 = some u → x ≤ u)) bounds (initialPoint bounds) := by
  induction bounds with
  | nil => exact List.Forall₂.nil
  | cons b t ih =>
    refine List.Forall₂.cons (initialCoord_in_bounds b.1 b.2 (h b (by simp))) (ih ?_)
    intro b' hb'; exact h b' (by simp [hb'])

/-- `auto` never picks L-BFGS-B (which ignores the `constraints` argument) for a constrained problem,
    and picks it for every unconstrained one -/
theorem autoSelect_lbfgsb_iff (od : Option Nat) (cds : List (Option Nat)) :
    autoSelect od cds = "L-BFGS-B" ↔ cds = [] := by
  unfold autoSelect
  cases cds with
  | nil => simp
  | cons d t =>
    simp only [List.isEmpty_cons, Bool.false_eq_true, ite_false]
    split_ifs <;> simp

/-- with constraints: trust-constr exactly when some degree is `None` (non-polynomial) or > 2 -/
theorem autoSelect_trust_iff (od : Option Nat) (cds : List (Option Nat)) (h : cds ≠ []) :
    autoSelect od cds = "trust-constr" ↔ (needsRobust od = true ∨ ∃ d ∈ cds, needsRobust d = true) := by
  unfold autoSelect
  have : cds.isEmpty = false := by cases cds <;> simp_all
  simp only [this, Bool.false_eq_true, ite_false]
  by_cases h1 : needsRobust od = true
  · simp [h1]
  · simp only [h1, ite_false, false_or, Bool.false_eq_true]
    by_cases h2 : cds.any needsRobust = true
    · simp only [h2, ite_true, true_iff]
      simpa [List.any_eq_true] using h2
    · simp only [h2, ite_false]
      constructor
      · intro hc; exact absurd hc (by decide)
      · rintro ⟨d, hd, hr⟩
        exact absurd (List.any_eq_true.mpr ⟨d, hd, hr⟩) h2

/-- dispatch of `Problem.solve`: the LP path is taken exactly for `auto` on a linear problem and
    for the four explicit LP method names -/
theorem route_lp_iff (m : String) (lin : Bool) (od : Option Nat) (cds : List (Option Nat)) :
    (∃ mm, route m lin od cds = .lp mm) ↔
      ((m = "auto" ∧ lin = true) ∨ m = "linprog" ∨ m = "highs" ∨ m = "highs-ds" ∨ m = "highs-ipm") := by
  unfold route
  by_cases h1 : m = "auto"
  · subst h1; cases lin <;> simp
  · by_cases h2 : m = "linprog"
    · subst h2; simp
    · by_cases h3 : m = "highs" ∨ m = "highs-ds" ∨ m = "highs-ipm"
      · rcases h3 with h | h | h <;> subst h <;> simp
      · simp only [not_or] at h3
        simp [h1, h2, h3.1, h3.2.1, h3.2.2]

/-- which optional arguments each documented method receives — read off the *regenerated*
    HESSIAN / DERIVATIVE_FREE / BOUNDS method sets of `solve_scipy` (n bounds, k constraints > 0) -/
theorem gate_table :
    gate "SLSQP" true 1 1 = ⟨true, false, true, true⟩ ∧
    gate "trust-constr" true 1 1 = ⟨true, true, true, true⟩ ∧
    gate "trust-constr" false 1 1 = ⟨true, false, true, true⟩ ∧
    gate "L-BFGS-B" true 1 0 = ⟨true, false, true, false⟩ ∧
    gate "BFGS" true 1 0 = ⟨true, false, false, false⟩ ∧
    gate "Nelder-Mead" true 1 0 = ⟨false, false, true, false⟩ ∧
    gate "Newton-CG" true 1 0 = ⟨true, true, false, false⟩ := by decide

section
variable (ρ : String → ℝ) (σ : Nat → ℝ)

/-- maximise: the objective handed to SciPy is `-obj` (a `neg` node); its value, and the value of
    its symbolic gradient, are the negations — so SciPy minimises exactly −f with exact −∇f -/
theorem maximize_sign (obj : Expr) (wrt : Var) :
    denote ρ σ (.un .neg obj) = - denote ρ σ obj ∧
    denote ρ σ (Py.grad wrt (.un .neg obj)) = - denote ρ σ (Py.grad wrt obj) := by
  constructor
  · simp [denote]
  · simp [Py.grad, unaryRule]

end

/-- non-vacuity of `initialPoint_in_bounds`: consistent bounds exist and the result is interior -/
example : initialPoint [(some 0, some 10), (some 1, none), (none, some 3), (none, none)]
    = [1/10, 10001/10000, 2, 0] := by
  simp only [initialPoint, initialCoord, rmin, rmax, interiorEps, interiorFrac, List.map_cons, List.map_nil]
  norm_num

end Optyx.Props.C09
