/-
  Optyx.Props.LPFastTie — the O(1) shortcuts of the LP coefficient extraction in the model (`Py.coversAll`, `Py.fastBinop`,
  `Py.extractAll`: the functions `C05.shortcuts_eq_general` reduces to the general walker) are the functions translated
  statement by statement from `_vector_is_aligned`, `_try_extract_fast_binop` and `extract_all_linear_coefficients` on every
  run (`Generated/LPFast.lean`, harness/py2lean_lpfast.py).
-/
import Optyx.Py.Coeffs
import Optyx.Generated.LPFast

namespace Optyx.Props.LPFastTie
open Optyx Optyx.Py Optyx.Generated

/-- `_vector_is_aligned` -/
theorem coversAll_eq (V : List String) (vv : VVar) :
    coversAll V vv = .ok (if vv.vars.length == V.length then some (alignedFrom V vv.vars 0) else none) := by
  unfold coversAll; split <;> rfl

theorem aligned_iff (V : List String) (vv : VVar) :
    (coversAll V vv = .ok (some true)) ↔ vectorIsAlignedG V vv = true := by
  unfold coversAll vectorIsAlignedG
  by_cases h : vv.vars.length = V.length
  · simp [h]
  · simp [h]

theorem cov_and {β : Type} (p : Prop) [Decidable p] (a : Bool) (c : Prop) [Decidable c] (X Y : Except Err β) :
    (match (if p then Except.ok (some a) else Except.ok none : Except Err (Option Bool)) with
      | .error e => .error e
      | .ok v => if v = some true ∧ c then X else Y) = if (p ∧ a = true) ∧ c then X else Y := by
  by_cases hp : p <;> cases a <;> by_cases hc : c <;> simp [hp, hc]

theorem cov_one {β : Type} (p : Prop) [Decidable p] (a : Bool) (X Y : Except Err β) :
    (match (if p then Except.ok (some a) else Except.ok none : Except Err (Option Bool)) with
      | .error e => .error e
      | .ok v => if v = some true then X else Y) = if p ∧ a = true then X else Y := by
  by_cases hp : p <;> cases a <;> simp [hp]

/-- the shared pattern: bind the alignment test, then branch on it (and on a second condition) -/
theorem cov_bind {β : Type} (V : List String) (vv : VVar) (c : Bool) (X Y : Except Err β) :
    (coversAll V vv >>= fun t => if (t == some true && c) = true then X else Y)
      = if (vectorIsAlignedG V vv && c) = true then X else Y := by
  unfold coversAll vectorIsAlignedG
  by_cases h : vv.vars.length = V.length
  · cases ha : alignedFrom V vv.vars 0 <;> cases c <;> simp [h, ha, bind, Except.bind]
  · cases c <;> simp [h, bind, Except.bind]

theorem cov_bind1 {β : Type} (V : List String) (vv : VVar) (X Y : Except Err β) :
    (coversAll V vv >>= fun t => if (t == some true) = true then X else Y)
      = if vectorIsAlignedG V vv = true then X else Y := by
  have := cov_bind V vv true X Y
  simpa using this

/-- `_try_extract_fast_binop` -/
theorem fastBinop_eq (V : List String) (op : BinOp) (l r : Expr) :
    fastBinop V op l r = fastBinopG V op l r := by
  unfold fastBinop fastBinopG
  cases op <;> cases l <;> cases r <;>
    simp only [cov_bind, cov_bind1, pure, Except.pure, beq_self_eq_true, Bool.or_true, Bool.true_or, if_true,
      Bool.or_false, Bool.false_or, if_false, reduceCtorEq, BEq.rfl] <;>
    (try rfl) <;> (try (simp [cov_bind, cov_bind1])) <;> (try (split <;> simp_all)) <;> (try rfl)

/-- `extract_all_linear_coefficients`: linearity gate, the two whole-node shortcuts, the BinaryOp shortcut, the general walker -/
theorem extractAll_eq (e : Expr) (V : List String) :
    extractAll e V = extractAllG (fun e => coeffsGeneral e V) e V := by
  unfold extractAll extractAllG
  by_cases hl : isLinear e
  · simp only [hl, Bool.not_true, Bool.false_eq_true, if_false]
    cases e <;> (try rfl)
    case vecSum vv => simp only [cov_bind1, pure, Except.pure]
    case linComb cs v =>
      cases v with
      | vars vv => simp only [cov_bind1, pure, Except.pure]
      | exprs es => rfl
    case bin op l r => simp only [fastBinop_eq]; rfl
  · simp [hl]

/-- `extract_linear_coefficient(expr, var)` -/
theorem extractLinearCoefficient_eq (e : Expr) (x : String) :
    extractLinearCoefficient e x = extractLinearCoefficientG isLinear (coeffOne x) constTerm e := by
  unfold extractLinearCoefficient extractLinearCoefficientG
  cases isLinear e <;> rfl

/-- `extract_constant_term(expr)` -/
theorem extractConstantTerm_eq (e : Expr) :
    extractConstantTerm e = extractConstantTermG isLinear (coeffOne "") constTerm e := by
  unfold extractConstantTerm extractConstantTermG
  cases isLinear e <;> rfl

end Optyx.Props.LPFastTie
