/-
  C14 — independent models do not interfere through process-wide caches.

  `Py.LRU.lookupOrCompute` models `functools.lru_cache`: an association list probed with the key
  equality `keyEq` (Python `__eq__`), with an *arbitrary* replacement policy.  The generic theorem
  needs one fact per cache, `respects`: keys that compare equal have equivalent fresh values.
  Key equality of optyx keys (`exprKeyEq`): `Variable` and `Parameter` by name, every other node by
  identity — identity is modelled by any test `ident` that implies equality of the trees including
  object ids (so the theorems hold for every equality at least as fine, `is` in particular).
-/
import Optyx.Lemmas.StateLRU
import Optyx.Lemmas.StateGrad

namespace Optyx.Props.C14
open Optyx Optyx.Py Optyx.Py.LRU Optyx.Py.State NumAlg

/-! ### the generic theorem -/

/-- one look-up: for any key equality, any computed function `f`, any sound policy (insert / evict /
    reorder arbitrarily), any admissibility predicate `P` on keys: if the cache is valid, the value
    handed out for an admissible key is equivalent to the freshly computed one and the cache stays
    valid — provided equal admissible keys have equivalent fresh values (`respects`) -/
theorem cache_transparent {K V : Type} (keyEq : K → K → Bool) (pol : Policy K V) (hpol : pol.Sound)
    (P : K → Prop) (f : K → V) (R : V → V → Prop) (hrefl : ∀ k, P k → R (f k) (f k))
    (respects : ∀ k k', P k → P k' → keyEq k k' = true → R (f k) (f k'))
    (c : List (K × V)) (hc : Valid keyEq P f R c) (k : K) (hk : P k) :
    R (lookupOrCompute keyEq pol f c k).1 (f k) ∧ Valid keyEq P f R (lookupOrCompute keyEq pol f c k).2 :=
  lookup_valid keyEq pol hpol P f R hrefl respects c hc k hk

/-- every history of requests, from the empty cache: each value handed out is equivalent to the
    fresh one — however many entries have passed through (eviction only removes entries) -/
theorem cache_transparent_run {K V : Type} (keyEq : K → K → Bool) (pol : Policy K V) (hpol : pol.Sound)
    (P : K → Prop) (f : K → V) (R : V → V → Prop) (hrefl : ∀ k, P k → R (f k) (f k))
    (respects : ∀ k k', P k → P k' → keyEq k k' = true → R (f k) (f k'))
    (ks : List K) (hks : ∀ k ∈ ks, P k) :
    AllRel R (runRequests keyEq pol f [] ks).1 (ks.map f) :=
  (run_valid keyEq pol hpol P f R hrefl respects ks [] (valid_nil keyEq P f R) hks).1

/-- CPython's LRU replacement is a sound policy, for every capacity -/
theorem lru_policy_sound {K V : Type} (keyEq : K → K → Bool) (cap : Nat) :
    (lru keyEq cap : Policy K V).Sound :=
  lru_sound keyEq cap

/-! ### key equality of optyx expressions -/

/-- `Expression.__eq__`: by name for Variable and Parameter, identity (`ident`) otherwise -/
def exprKeyEq (ident : Expr → Expr → Bool) : Expr → Expr → Bool
  | .var a, .var b => a.name == b.name
  | .param a, .param b => a.name == b.name
  | a, b => ident a b

theorem exprKeyEq_cases (ident : Expr → Expr → Bool) (hident : ∀ a b, ident a b = true → a = b)
    (a b : Expr) (h : exprKeyEq ident a b = true) :
    (∃ u v, a = .var u ∧ b = .var v ∧ u.name = v.name) ∨
    (∃ p q, a = .param p ∧ b = .param q ∧ p.name = q.name) ∨ a = b := by
  cases a with
  | var u =>
    cases b with
    | var v => exact Or.inl ⟨u, v, rfl, rfl, by simpa [exprKeyEq] using h⟩
    | _ => exact Or.inr (Or.inr (hident _ _ (by simpa [exprKeyEq] using h)))
  | param p =>
    cases b with
    | param q => exact Or.inr (Or.inl ⟨p, q, rfl, rfl, by simpa [exprKeyEq] using h⟩)
    | _ => exact Or.inr (Or.inr (hident _ _ (by simpa [exprKeyEq] using h)))
  | _ => exact Or.inr (Or.inr (hident _ _ (by simpa [exprKeyEq] using h)))

/-! ### instance 1: the degree cache, key `(id(expr), expr)` -/

/-- keys are formed as `(id(x), x)`: with `heap` the object store, an admissible key satisfies
    `heap k.1 = k.2`; equal ids then mean the same object, so *any* function of the expression
    respects the key equality -/
theorem respects_degree {β : Type} (heap : Nat → Expr) (ident : Expr → Expr → Bool) (g : Expr → β)
    (k k' : Nat × Expr) (hk : heap k.1 = k.2) (hk' : heap k'.1 = k'.2)
    (h : (k.1 == k'.1 && exprKeyEq ident k.2 k'.2) = true) : g k.2 = g k'.2 := by
  have hid : k.1 = k'.1 := by
    have := (Bool.and_eq_true _ _).mp h
    simpa using this.1
  rw [← hk, ← hk', hid]

/-! ### instance 2: the gradient cache, key `(expr, wrt)` -/

mutual
theorem expReg_param (ρ : String → ℝ) (σ : Nat → ℝ) : (e : Expr) → ExpReg ρ σ Expr.param e
  | .const _ | .var _ | .param _ | .vecSum _ | .powSum _ _ | .unSum _ _ | .matSumV _ | .frob _ => by simp [ExpReg]
  | .bin op l r => by
    simp only [ExpReg]
    refine ⟨?_, expReg_param ρ σ l, expReg_param ρ σ r⟩
    unfold powOk
    split
    · intro ⟨q, hq⟩; cases hq
    · trivial
  | .un _ a => by simp only [ExpReg]; exact expReg_param ρ σ a
  | .linComb _ v | .l2 v | .l1 v | .quad v _ => by simp only [ExpReg]; exact expRegVec_param ρ σ v
  | .exprSum es | .matSumE es => by simp only [ExpReg]; exact expRegList_param ρ σ es
  | .dot l r => by simp only [ExpReg]; exact ⟨expRegVec_param ρ σ l, expRegVec_param ρ σ r⟩
theorem expRegVec_param (ρ : String → ℝ) (σ : Nat → ℝ) : (v : Vec) → ExpRegVec ρ σ Expr.param v
  | .vars _ => by simp [ExpRegVec]
  | .exprs es => by simp only [ExpRegVec]; exact expRegList_param ρ σ es
theorem expRegList_param (ρ : String → ℝ) (σ : Nat → ℝ) : (es : ExprList) → ExpRegList ρ σ Expr.param es
  | .nil => by simp [ExpRegList]
  | .cons e t => by simp only [ExpRegList]; exact ⟨expReg_param ρ σ e, expRegList_param ρ σ t⟩
end

/-- two gradient trees are equivalent when they mean the same under every environment and store -/
def SameMeaning (a b : Expr) : Prop := ∀ (ρ : String → ℝ) (σ : Nat → ℝ), denote ρ σ a = denote ρ σ b

/-- name-equal Variables have equivalent derivatives (`gradient` reads only `.name`; the trees can
    differ in *which* same-named Variable object a rule returned), name-equal bare leaves have the
    same derivative, identical nodes the same tree -/
theorem respects_gradient (ident : Expr → Expr → Bool) (hident : ∀ a b, ident a b = true → a = b)
    (k k' : Expr × Var) (h : (exprKeyEq ident k.1 k'.1 && k.2.name == k'.2.name) = true) :
    SameMeaning (grad k.2 k.1) (grad k'.2 k'.1) := by
  obtain ⟨e, w⟩ := k
  obtain ⟨e', w'⟩ := k'
  have h' := (Bool.and_eq_true _ _).mp h
  have hw : w'.name = w.name := (by simpa using h'.2 : w.name = w'.name).symm
  intro ρ σ
  rcases exprKeyEq_cases ident hident e e' h'.1 with ⟨u, v, rfl, rfl, huv⟩ | ⟨p, q, rfl, rfl, _⟩ | rfl
  · simp [grad, huv, hw]
  · simp [grad]
  · have H : LeafMap ρ σ σ Expr.param := ⟨fun p => rfl, fun p => Or.inl ⟨p, rfl⟩⟩
    have := grad_mapPar (w := w) (w' := w') H hw e (expReg_param ρ σ e)
    rwa [mapPar_param] at this

/-! ### instance 3: the compile cache, key `(expr, names, indices)` -/

/-- `x[var_indices[name]]` -/
def envOf {α : Type} [NumAlg α] (names : List String) (x : List α) : String → α :=
  fun n => x.getD (names.idxOf n) NumAlg.zero

/-- the compiled closure: a function of the argument array and of the *store at call time*
    (parameter leaves read `p.value` when called) -/
def compiled {α : Type} [NumAlg α] (k : Expr × List String) : List α → (Nat → α) → α :=
  fun x σ => denote (envOf k.2 x) σ k.1

/-- the bypass of `compile_expression`: a bare Parameter is never looked up in the cache -/
def NotBareParam (k : Expr × List String) : Prop := ∀ p, k.1 ≠ .param p

/-- with the bypass, equal keys have the same compiled closure: name-equal Variables read the same
    index, identical nodes are the same tree (parameters *inside* it are the same objects) -/
theorem respects_compile {α : Type} [NumAlg α] (ident : Expr → Expr → Bool)
    (hident : ∀ a b, ident a b = true → a = b) (k k' : Expr × List String)
    (hk : NotBareParam k) (_hk' : NotBareParam k')
    (h : (exprKeyEq ident k.1 k'.1 && k.2 == k'.2) = true) :
    (compiled k : List α → (Nat → α) → α) = compiled k' := by
  obtain ⟨e, ns⟩ := k
  obtain ⟨e', ns'⟩ := k'
  have h' := (Bool.and_eq_true _ _).mp h
  have hns : ns = ns' := by simpa using h'.2
  subst hns
  rcases exprKeyEq_cases ident hident e e' h'.1 with ⟨u, v, rfl, rfl, huv⟩ | ⟨p, q, rfl, rfl, _⟩ | rfl
  · funext x σ; simp [compiled, denote, huv]
  · exact absurd rfl (hk p)
  · rfl

/-- *without* the bypass `respects` fails (finding F13): two Parameters named "p" are equal keys,
    but their closures read different objects -/
theorem compile_cache_param_collision :
    ∃ (k k' : Expr × List String), (∀ ident, (exprKeyEq ident k.1 k'.1 && k.2 == k'.2) = true) ∧
      (compiled k : List ℝ → (Nat → ℝ) → ℝ) ≠ compiled k' := by
  refine ⟨(.param ⟨"p", 1⟩, []), (.param ⟨"p", 2⟩, []), fun _ => by simp [exprKeyEq], ?_⟩
  intro h
  have := congrFun (congrFun h []) (fun o => (o : ℝ))
  simp [compiled, denote] at this

/-! ### the two caches, end to end -/

/-- `_gradient_cached` behind any sound replacement policy: every gradient handed out, in any
    history of requests (other models' requests included), means what the fresh gradient means -/
theorem gradient_cached_transparent (ident : Expr → Expr → Bool) (hident : ∀ a b, ident a b = true → a = b)
    (pol : Policy (Expr × Var) Expr) (hpol : pol.Sound) (ks : List (Expr × Var)) :
    AllRel SameMeaning
      (runRequests (fun k k' => exprKeyEq ident k.1 k'.1 && k.2.name == k'.2.name) pol
        (fun k => grad k.2 k.1) [] ks).1
      (ks.map fun k => grad k.2 k.1) :=
  cache_transparent_run _ pol hpol (fun _ => True) _ SameMeaning (fun _ _ _ _ => rfl)
    (fun k k' _ _ h => respects_gradient ident hident k k' h) ks (fun _ _ => trivial)

/-- `_compile_cached` behind any sound replacement policy, given the bypass: every closure handed
    out is the freshly compiled one -/
theorem compile_cached_transparent {α : Type} [NumAlg α] (ident : Expr → Expr → Bool)
    (hident : ∀ a b, ident a b = true → a = b)
    (pol : Policy (Expr × List String) (List α → (Nat → α) → α)) (hpol : pol.Sound)
    (ks : List (Expr × List String)) (hks : ∀ k ∈ ks, NotBareParam k) :
    AllRel (· = ·)
      (runRequests (fun k k' => exprKeyEq ident k.1 k'.1 && k.2 == k'.2) pol compiled [] ks).1
      (ks.map compiled) :=
  cache_transparent_run _ pol hpol NotBareParam _ (· = ·) (fun _ _ => rfl)
    (fun k k' hk hk' h => respects_compile ident hident k k' hk hk' h) ks hks

/-! ### non-vacuity -/

/-- the hypotheses are satisfiable and the statement has content: two *different* Variable objects
    named "x" (different ids) are equal keys, the cached entry of the first is handed out for the
    second — and the theorem says that is harmless -/
example :
    let keyEq : Expr × Var → Expr × Var → Bool := fun k k' => exprKeyEq (fun _ _ => false) k.1 k'.1 && k.2.name == k'.2.name
    (runRequests keyEq (lru keyEq 4) (fun k => grad k.2 k.1) []
      [(.var ⟨"x", 1⟩, ⟨"x", 1⟩), (.var ⟨"x", 2⟩, ⟨"x", 3⟩)]).2.length = 1 := by
  decide

/-- `Valid` can fail: an entry computed for another same-named Parameter is not valid for the
    compile cache without the bypass -/
example : ¬ Valid (fun k k' => exprKeyEq (fun _ _ => false) k.1 k'.1 && k.2 == k'.2) (fun _ => True)
    (compiled : Expr × List String → List ℝ → (Nat → ℝ) → ℝ) (· = ·)
    [((.param ⟨"p", 1⟩, []), compiled (.param ⟨"p", 1⟩, []))] := by
  intro h
  have := (h _ List.mem_cons_self).2 (.param ⟨"p", 2⟩, []) trivial (by simp [exprKeyEq])
  have := congrFun (congrFun this []) (fun o => (o : ℝ))
  simp [compiled, denote] at this

end Optyx.Props.C14
