/-
  Optyx.Props.HookTie — C20's "the process-global warning hook is as it was" stated **directly about the shape of the
  try / except / finally of `solve_scipy` as translated from the source on every run** (`Generated/HookShape.lean`,
  harness/py2lean_post.gen_hook_shape): which statements capture, install and restore `warnings.showwarning`, in which part of
  the statement.  A tiny semantics of that fragment (sequential statements; a solver call that returns, raises an `Exception`
  or raises a BaseException-only class; `except <class>`; `return` inside a handler; `finally`) gives
  `hook_restored_of_source_shape`: whatever the solver call does, the hook after `solve_scipy` is the hook that was installed
  when THIS call started — it is captured in this activation (not once per Problem), and restored on every exit path.
-/
import Optyx.Generated.HookShape

namespace Optyx.Props.HookTie
open Optyx.Generated

/-- the hook, and the local in which this activation saved the caller's hook -/
structure HSt where
  hook : Nat
  saved : Option Nat
  deriving DecidableEq, Repr

/-- what the solver call does -/
inductive Outcome | returns | raisesException | raisesBaseOnly
  deriving DecidableEq, Repr

inductive Flow | running | raised (baseOnly : Bool) | returned
  deriving DecidableEq, Repr

/-- one statement; restoring a hook that this activation never captured yields a hook that is NOT the caller's -/
def exec (installId : Nat) (o : Outcome) (s : HSt) : HStmtG → HSt × Flow
  | .capture => ({ s with saved := some s.hook }, .running)
  | .install => ({ s with hook := installId }, .running)
  | .restore => ({ s with hook := s.saved.getD (s.hook + 1) }, .running)
  | .solverCall => (s, match o with
      | .returns => .running | .raisesException => .raised false | .raisesBaseOnly => .raised true)
  | .returnFailed => (s, .returned)
  | .other => (s, .running)

def runBlock (installId : Nat) (o : Outcome) : HSt → List HStmtG → HSt × Flow
  | s, [] => (s, .running)
  | s, st :: rest =>
    match exec installId o s st with
    | (s', .running) => runBlock installId o s' rest
    | r => r

/-- `except <cls>` catches: `Exception` everything but BaseException-only classes, `BaseException` everything -/
def catches (cls : String) (baseOnly : Bool) : Bool :=
  cls == "BaseException" || (cls == "Exception" && !baseOnly)

/-- a `try: B  except …: H  finally: F` statement -/
def runTryWith (tryB : List HStmtG) (handlers : List (String × List HStmtG)) (finalB : List HStmtG)
    (installId : Nat) (o : Outcome) (s : HSt) : HSt × Flow :=
  let r := runBlock installId o s tryB
  let r := match r with
    | (s1, .raised b) =>
      (match handlers.find? (fun (h : String × List HStmtG) => catches h.1 b) with
       | some h => runBlock installId o s1 h.2
       | none => (s1, .raised b))
    | other => other
  -- `finally` runs on every path; an exception or return in flight continues afterwards
  let f := runBlock installId o r.1 finalB
  (f.1, match f.2 with | .running => r.2 | fl => fl)

def runTry (installId : Nat) (o : Outcome) (s : HSt) : HSt × Flow :=
  runTryWith hookTryG hookHandlersG hookFinallyG installId o s

/-- the hook discipline of one call of `solve_scipy` started with hook `h0` -/
def hookAfter (installId h0 : Nat) (o : Outcome) : Nat :=
  let pre := runBlock installId o ⟨h0, none⟩ hookPreG
  (runTry installId o pre.1).1.hook

/-- `with increased_recursion_limit(n): <body>` started with limit `l0`; `o` = what the body does -/
def limitAfter (n l0 : Nat) (o : Outcome) : Nat :=
  let pre := runBlock n o ⟨l0, none⟩ limitPreG
  (runTryWith limitTryG limitHandlersG limitFinallyG n o pre.1).1.hook

/-- **every exit path of `solve_scipy` leaves `warnings.showwarning` as this call found it** -/
theorem hook_restored_of_source_shape (installId h0 : Nat) (o : Outcome) : hookAfter installId h0 o = h0 := by
  cases o <;> simp [hookAfter, runTry, runBlock, exec, hookPreG, hookTryG, hookHandlersG, hookFinallyG, catches, runTryWith]

/-- while the solver runs, optyx's handler is installed (the warning filter of the property is active) -/
theorem hook_installed_during_call (installId h0 : Nat) :
    (runBlock installId .returns (runBlock installId .returns ⟨h0, none⟩ hookPreG).1
      (hookTryG.takeWhile (· != .solverCall))).1.hook = installId := rfl

/-- a BaseException-only class (KeyboardInterrupt) is not swallowed, an `Exception` becomes FAILED -/
theorem flow_of_source_shape (installId h0 : Nat) :
    (runTry installId .raisesBaseOnly (runBlock installId .raisesBaseOnly ⟨h0, none⟩ hookPreG).1).2 = .raised true
    ∧ (runTry installId .raisesException (runBlock installId .raisesException ⟨h0, none⟩ hookPreG).1).2 = .returned
    ∧ (runTry installId .returns (runBlock installId .returns ⟨h0, none⟩ hookPreG).1).2 = .running := by
  simp [runTry, runTryWith, runBlock, exec, hookPreG, hookTryG, hookHandlersG, hookFinallyG, catches]

/-- **`increased_recursion_limit` restores the interpreter's recursion limit on every exit path of its block** (normal exit,
    an `Exception`, a BaseException-only class such as KeyboardInterrupt), and the block runs under the requested limit -/
theorem limit_restored_of_source_shape (n l0 : Nat) (o : Outcome) : limitAfter n l0 o = l0 := by
  cases o <;> simp [limitAfter, runTryWith, runBlock, exec, limitPreG, limitTryG, limitHandlersG, limitFinallyG, catches]

theorem limit_raised_inside_block (n l0 : Nat) :
    (runBlock n .returns (runBlock n .returns ⟨l0, none⟩ limitPreG).1 (limitTryG.takeWhile (· != .solverCall))).1.hook = n := rfl

/-- these two functions are the ONLY places of the package that write interpreter-wide state (recursion limit, warning hook,
    warning filters, NumPy error state, excepthook): a new site anywhere in `src/optyx` changes this list -/
theorem globalStateSites_spec :
    globalStateSitesG = ["core/autodiff.py:increased_recursion_limit:sys.setrecursionlimit",
      "solvers/scipy_solver.py:solve_scipy:warnings.showwarning ="] := by decide

/-- the semantics is not vacuous: a shape that restores a hook captured elsewhere (`saved = none` in this activation) fails -/
example : (runBlock 7 .returns ⟨3, none⟩ [.install, .solverCall, .restore]).1.hook ≠ 3 := by decide

end Optyx.Props.HookTie
