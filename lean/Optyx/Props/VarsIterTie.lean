/-
  Optyx.Props.VarsIterTie — the machine step `Py.vstep` of the model of `_get_variables_iterative` (the function
  `C15 / C16`'s `varsIter` theorems are about) does, for a node not seen before, exactly what the loop body translated from the
  source on every run says (`Generated/VarsIter.lean`, harness/py2lean_varsiter.py): add the node, nothing, the node's own
  `get_variables()` (directly or through the fall-back), or push the children in the source's push order.
-/
import Optyx.Py.Vars
import Optyx.Generated.VarsIter

namespace Optyx.Props.VarsIterTie
open Optyx Optyx.Py Optyx.Generated

/-- what an action contributes to `variables` -/
def contrib (e : Expr) : VIterActG → List Var
  | .addSelf => (match e with | .var v => [v] | _ => [])
  | .skip => []
  | .update => getVars e
  | .fallback => getVars e
  | .push _ => []

/-- what an action pushes (in push order) -/
def pushes : VIterActG → List Expr
  | .push cs => cs
  | _ => []

/-- leaves of the skeleton: the loop body's contribution is the translated action's -/
theorem atomVars_eq (a : Atom) : atomVars a = contrib a.toExpr (varsIterVisitG a.toExpr) := by
  cases a <;> rfl

/-- a leaf never pushes -/
theorem atom_pushes (a : Atom) : pushes (varsIterVisitG a.toExpr) = [] := by
  cases a <;> rfl

/-- an already seen node is dropped: `if node_id in seen: continue` -/
theorem vstep_seen (node : ITree) (rest : List ITree) (seen : List Nat) (vars : List Var)
    (h : node.id ∈ seen) : vstep ⟨node :: rest, seen, vars⟩ = ⟨rest, seen, vars⟩ := by
  simp [vstep, h]

/-- a fresh node: marked seen; the variables grow by the action's contribution; the stack receives the action's pushes (the last
    pushed is on top) — with the action read off the translated loop body -/
theorem vstep_fresh (node : ITree) (rest : List ITree) (seen : List Nat) (vars : List Var)
    (h : node.id ∉ seen) :
    let act := varsIterVisitG node.erase
    let s' := vstep ⟨node :: rest, seen, vars⟩
    s'.seen = node.id :: seen ∧ s'.vars = vars ++ contrib node.erase act ∧
    (s'.stack.map ITree.erase) = (pushes act).reverse ++ rest.map ITree.erase := by
  cases node with
  | leaf i a =>
    simp only [ITree.id] at h
    simp [vstep, ITree.id, h, ITree.erase, atomVars_eq, atom_pushes]
  | un i op a =>
    simp only [ITree.id] at h
    simp [vstep, ITree.id, h, ITree.erase, varsIterVisitG, contrib, pushes]
  | bin i op l r =>
    simp only [ITree.id] at h
    simp [vstep, ITree.id, h, ITree.erase, varsIterVisitG, contrib, pushes]

/-- the empty stack ends the loop -/
theorem vstep_done (seen : List Nat) (vars : List Var) : vstep ⟨[], seen, vars⟩ = ⟨[], seen, vars⟩ := rfl

/-- `_get_variables_iterative(expr)` starts from `stack = [expr]`, `seen = set()`, `variables = set()` and returns `variables`
    when the stack is empty (the frame the translator checks) -/
theorem varsIter_frame (fuel : Nat) (t : ITree) :
    varsIter fuel t = (match (vrun fuel ⟨[t], [], []⟩).stack with | [] => some (vrun fuel ⟨[t], [], []⟩).vars | _ => none) := rfl

example : varsIterFrameG.length = 8 := by decide

end Optyx.Props.VarsIterTie
