/-
  Optyx.Props.LPTie — the three recursive extractors of the LP route, hand-modelled in `Py/Coeffs.lean`
  (`constTerm`, `coeffOne x`, `walk V`), satisfy — and are the only functions that satisfy — the equations that
  harness/py2lean.py reads off the *current* bodies of `_extract_constant_impl`, `_extract_coefficient_impl`
  and `_extract_all_coefficients_impl` (analysis.py) on every run (`Generated.constStepG`, `coeffStepG`,
  `walkStepG`: every branch in the source's order, the evaluation order of the effects — `float(c.value)`,
  division, integer power, recursive calls — the in-place accumulation into `result`).
-/
import Optyx.Py.Coeffs
import Optyx.Py.LPSupport
import Optyx.Generated.LPStep

namespace Optyx.Props.LPTie
open Optyx Optyx.Py Optyx.Generated

/-! ### the models satisfy the source's equations -/

theorem constLc_eq : (es : ExprList) → (cs : List Rat) → (acc : Rat) →
    constLc es cs acc = lcLoop constTerm es.toList cs acc
  | .nil, _, _ => by simp [constLc, lcLoop, ExprList.toList]
  | .cons e t, cs, acc => by
    cases cs with
    | nil => simp [constLc, lcLoop, ExprList.toList]
    | cons c cs' =>
      simp only [constLc, lcLoop, ExprList.toList]
      cases constTerm e with
      | error err => rfl
      | ok k => exact constLc_eq t cs' _

theorem coeffLc_eq (x : String) : (es : ExprList) → (cs : List Rat) → (acc : Rat) →
    coeffLc x es cs acc = lcLoop (coeffOne x) es.toList cs acc
  | .nil, _, _ => by simp [coeffLc, lcLoop, ExprList.toList]
  | .cons e t, cs, acc => by
    cases cs with
    | nil => simp [coeffLc, lcLoop, ExprList.toList]
    | cons c cs' =>
      simp only [coeffLc, lcLoop, ExprList.toList]
      cases coeffOne x e with
      | error err => rfl
      | ok k => exact coeffLc_eq x t cs' _

theorem walkLc_eq (V : List String) : (es : ExprList) → (cs r : List Rat) → (m : Rat) →
    walkLc V es cs r m = walkLcLoop (walk V) es.toList cs r m
  | .nil, _, _, _ => by simp [walkLc, walkLcLoop, ExprList.toList]
  | .cons e t, cs, r, m => by
    cases cs with
    | nil => simp [walkLc, walkLcLoop, ExprList.toList]
    | cons c cs' =>
      simp only [walkLc, walkLcLoop, ExprList.toList]
      cases walk V e r (c * m) with
      | error err => rfl
      | ok r1 => exact walkLc_eq V t cs' r1 m

theorem constTerm_step (e : Expr) : constTerm e = constStepG constTerm e := by
  cases e with
  | bin op l r =>
    cases op <;> simp only [constTerm, constStepG] <;>
      (try (cases l <;> cases r <;> simp [bind, Except.bind, pure, Except.pure] <;>
              (try (split <;> simp_all)) <;> (try (split <;> rfl))))
    all_goals (try rfl)
  | un op a => cases op <;> simp [constTerm, constStepG, bind, Except.bind, pure, Except.pure]
  | linComb cs v => cases v <;> simp [constTerm, constStepG, constLc_eq, pure, Except.pure]
  | const c => simp only [constTerm, constStepG, bind, Except.bind, pure, Except.pure] <;> (try (cases cstRat c <;> rfl))
  | _ => simp [constTerm, constStepG, pure, Except.pure]

theorem coeffOne_step (x : String) (e : Expr) :
    coeffOne x e = coeffStepG x constTerm (coeffOne x) e := by
  cases e with
  | bin op l r =>
    cases op <;> simp only [coeffOne, coeffStepG] <;>
      (try (cases l <;> cases r <;> simp [bind, Except.bind, pure, Except.pure] <;>
              (try (split <;> simp_all)) <;> (try (split <;> rfl))))
    all_goals (try rfl)
  | un op a => cases op <;> simp [coeffOne, coeffStepG, bind, Except.bind, pure, Except.pure]
  | linComb cs v => cases v <;> simp [coeffOne, coeffStepG, coeffLc_eq]
  | powSum v k => simp only [coeffOne, coeffStepG, pure, Except.pure]; split <;> simp_all
  | vecSum v => simp only [coeffOne, coeffStepG, pure, Except.pure]; split <;> simp_all
  | _ => simp [coeffOne, coeffStepG, pure, Except.pure]

theorem walk_step (V : List String) (e : Expr) (r : List Rat) (m : Rat) :
    walk V e r m = walkStepG V constTerm (walk V) e r m := by
  cases e with
  | bin op l rr =>
    cases op <;> simp only [walk, walkStepG] <;>
      (try (cases l <;> cases rr <;> simp [bind, Except.bind, pure, Except.pure] <;>
              (try (split <;> simp_all)) <;> (try (split <;> rfl))))
    all_goals (try rfl)
  | un op a => cases op <;> simp [walk, walkStepG, bind, Except.bind, pure, Except.pure]
  | linComb cs v => cases v <;> simp [walk, walkStepG, walkLc_eq, bind, Except.bind, pure, Except.pure] <;> (split <;> rfl)
  | powSum v k => simp only [walk, walkStepG, pure, Except.pure, bind, Except.bind]; split <;> simp_all
  | _ => simp [walk, walkStepG, pure, Except.pure, bind, Except.bind]

/-! ### uniqueness -/

section
variable (K : Expr → Except Err Rat) (hK : ∀ e, K e = constStepG K e)
include hK

mutual
theorem const_unique : (e : Expr) → K e = constTerm e
  | .bin op l r => by
    rw [hK, constTerm_step]; simp only [constStepG]; rw [const_unique l, const_unique r]
  | .un op a => by
    rw [hK, constTerm_step]; simp only [constStepG]; rw [const_unique a]
  | .linComb cs v => by
    rw [hK, constTerm_step]; simp only [constStepG]
    cases v with
    | vars vv => rfl
    | exprs es => simp only []; exact constLoop_unique es cs 0
  | .const c => by rw [hK, constTerm_step]; rfl
  | .var x => by rw [hK, constTerm_step]; rfl
  | .param p => by rw [hK, constTerm_step]; rfl
  | .vecSum v => by rw [hK, constTerm_step]; rfl
  | .exprSum es => by rw [hK, constTerm_step]; rfl
  | .dot l r => by rw [hK, constTerm_step]; rfl
  | .l2 v => by rw [hK, constTerm_step]; rfl
  | .l1 v => by rw [hK, constTerm_step]; rfl
  | .quad v q => by rw [hK, constTerm_step]; rfl
  | .powSum v k => by rw [hK, constTerm_step]; rfl
  | .unSum v op => by rw [hK, constTerm_step]; rfl
  | .matSumV m => by rw [hK, constTerm_step]; rfl
  | .matSumE es => by rw [hK, constTerm_step]; rfl
  | .frob m => by rw [hK, constTerm_step]; rfl
theorem constLoop_unique : (es : ExprList) → (cs : List Rat) → (acc : Rat) →
    lcLoop K es.toList cs acc = lcLoop constTerm es.toList cs acc
  | .nil, _, _ => by simp [lcLoop, ExprList.toList]
  | .cons e t, cs, acc => by
    cases cs with
    | nil => simp [lcLoop, ExprList.toList]
    | cons c cs' =>
      simp only [lcLoop, ExprList.toList]
      rw [const_unique e]
      cases constTerm e with
      | error err => rfl
      | ok k => exact constLoop_unique t cs' _
end

theorem K_eq : K = constTerm := funext (const_unique K hK)

section
variable (x : String) (C : Expr → Except Err Rat) (hC : ∀ e, C e = coeffStepG x K C e)
include hC

mutual
theorem coeff_unique : (e : Expr) → C e = coeffOne x e
  | .bin op l r => by
    rw [hC, coeffOne_step, K_eq K hK]; simp only [coeffStepG]; rw [coeff_unique l, coeff_unique r]
  | .un op a => by
    rw [hC, coeffOne_step, K_eq K hK]; simp only [coeffStepG]; rw [coeff_unique a]
  | .linComb cs v => by
    rw [hC, coeffOne_step, K_eq K hK]; simp only [coeffStepG]
    cases v with
    | vars vv => rfl
    | exprs es => simp only []; exact coeffLoop_unique es cs 0
  | .const c => by rw [hC, coeffOne_step, K_eq K hK]; rfl
  | .var x => by rw [hC, coeffOne_step, K_eq K hK]; rfl
  | .param p => by rw [hC, coeffOne_step, K_eq K hK]; rfl
  | .vecSum v => by rw [hC, coeffOne_step, K_eq K hK]; rfl
  | .exprSum es => by rw [hC, coeffOne_step, K_eq K hK]; rfl
  | .dot l r => by rw [hC, coeffOne_step, K_eq K hK]; rfl
  | .l2 v => by rw [hC, coeffOne_step, K_eq K hK]; rfl
  | .l1 v => by rw [hC, coeffOne_step, K_eq K hK]; rfl
  | .quad v q => by rw [hC, coeffOne_step, K_eq K hK]; rfl
  | .powSum v k => by rw [hC, coeffOne_step, K_eq K hK]; rfl
  | .unSum v op => by rw [hC, coeffOne_step, K_eq K hK]; rfl
  | .matSumV m => by rw [hC, coeffOne_step, K_eq K hK]; rfl
  | .matSumE es => by rw [hC, coeffOne_step, K_eq K hK]; rfl
  | .frob m => by rw [hC, coeffOne_step, K_eq K hK]; rfl
theorem coeffLoop_unique : (es : ExprList) → (cs : List Rat) → (acc : Rat) →
    lcLoop C es.toList cs acc = lcLoop (coeffOne x) es.toList cs acc
  | .nil, _, _ => by simp [lcLoop, ExprList.toList]
  | .cons e t, cs, acc => by
    cases cs with
    | nil => simp [lcLoop, ExprList.toList]
    | cons c cs' =>
      simp only [lcLoop, ExprList.toList]
      rw [coeff_unique e]
      cases coeffOne x e with
      | error err => rfl
      | ok k => exact coeffLoop_unique t cs' _
end
end

section
variable (V : List String) (W : Expr → List Rat → Rat → Except Err (List Rat))
  (hW : ∀ e r m, W e r m = walkStepG V K W e r m)
include hW

mutual
theorem walk_unique : (e : Expr) → (r : List Rat) → (m : Rat) → W e r m = walk V e r m
  | .bin op l rr, r, m => by
    rw [hW, walk_step, K_eq K hK]; simp only [walkStepG]
    have hl : W l = walk V l := funext fun r => funext fun m => walk_unique l r m
    have hr : W rr = walk V rr := funext fun r => funext fun m => walk_unique rr r m
    rw [hl, hr]
  | .un op a, r, m => by
    rw [hW, walk_step, K_eq K hK]; simp only [walkStepG]
    have ha : W a = walk V a := funext fun r => funext fun m => walk_unique a r m
    rw [ha]
  | .linComb cs v, r, m => by
    rw [hW, walk_step, K_eq K hK]; simp only [walkStepG]
    cases v with
    | vars vv => rfl
    | exprs es => simp only []; rw [walkLoop_unique es cs r m]
  | .const c, r, m => by rw [hW, walk_step, K_eq K hK]; rfl
  | .var x, r, m => by rw [hW, walk_step, K_eq K hK]; rfl
  | .param p, r, m => by rw [hW, walk_step, K_eq K hK]; rfl
  | .vecSum v, r, m => by rw [hW, walk_step, K_eq K hK]; rfl
  | .exprSum es, r, m => by rw [hW, walk_step, K_eq K hK]; rfl
  | .dot l rr, r, m => by rw [hW, walk_step, K_eq K hK]; rfl
  | .l2 v, r, m => by rw [hW, walk_step, K_eq K hK]; rfl
  | .l1 v, r, m => by rw [hW, walk_step, K_eq K hK]; rfl
  | .quad v q, r, m => by rw [hW, walk_step, K_eq K hK]; rfl
  | .powSum v k, r, m => by rw [hW, walk_step, K_eq K hK]; rfl
  | .unSum v op, r, m => by rw [hW, walk_step, K_eq K hK]; rfl
  | .matSumV mv, r, m => by rw [hW, walk_step, K_eq K hK]; rfl
  | .matSumE es, r, m => by rw [hW, walk_step, K_eq K hK]; rfl
  | .frob mv, r, m => by rw [hW, walk_step, K_eq K hK]; rfl
theorem walkLoop_unique : (es : ExprList) → (cs r : List Rat) → (m : Rat) →
    walkLcLoop W es.toList cs r m = walkLcLoop (walk V) es.toList cs r m
  | .nil, _, _, _ => by simp [walkLcLoop, ExprList.toList]
  | .cons e t, cs, r, m => by
    cases cs with
    | nil => simp [walkLcLoop, ExprList.toList]
    | cons c cs' =>
      simp only [walkLcLoop, ExprList.toList]
      rw [walk_unique e r (c * m)]
      cases walk V e r (c * m) with
      | error err => rfl
      | ok r1 => exact walkLoop_unique t cs' r1 m
end
end

end

end Optyx.Props.LPTie
