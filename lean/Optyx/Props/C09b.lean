/-
  Optyx.Props.C09b — C09 end to end: **what SciPy is handed is the user's model**.

  `scipy_inputs_faithful` composes the vertical slices
      C16 (ordered variable list `V`, any order with distinct names)
    → C01 (`compile_expression`)  → C03 (`compile_jacobian`) → C02 (true partial derivatives)
    → the regenerated glue tables of `_build_solver_cache` (`Generated/SolverGlue.lean`)
  into one statement about `cache = _build_solver_cache(problem, V)` for every problem, order and point:
    * `objective(x)` is `±f(x)` (− exactly under `maximize`), `gradient(x)[j]` is the true partial
      derivative of that same `±f` with respect to `V[j]`;
    * the k-th constraint dictionary belongs to the k-th constraint, has the right `type`, its
      `fun` is `±(lhs − rhs)(x)` (− exactly for `<=`) and its `jac` is the derivative of that `fun`;
    * `0 ≤ fun(x)` (resp. `fun(x) = 0`) says exactly what the user wrote;
    * the objective value reported back is `f` again (`reported_objective`).
  What `minimize` then does with them is the solver contract (DESIGN §4), not proved.
-/
import Optyx.Lemmas.GlueInputs
import Optyx.Props.C01
import Optyx.Props.C03
import Optyx.Props.C09
import Optyx.Props.Dispatch
import Optyx.Props.C17

namespace Optyx.Props.C09b
open Optyx Optyx.Py Optyx.Py.Jac Optyx.Py.Api Optyx.Py.Glue Optyx.Generated NumAlg

/-- value and derivative of one compiled (function, Jacobian-row) pair of `_build_solver_cache` -/
theorem compiled_pair_faithful (thr : Nat) (V : List Var) (e : Expr) (f : Clo) (g : JacClo)
    (hnd : (names V).Nodup) (hwf : WF e) (hV : ∀ v ∈ getVars e, v.name ∈ names V)
    (hf : compileExpression thr V e = .ok f) (hg : compileJacobian [e] V = .ok g)
    (σ : Nat → ℝ) (x : List ℝ) (hx : x.length = V.length) :
    Clo.run x σ f = .ok (denote (Jac.envOf V x) σ e) ∧
    ∀ j (hj : j < V.length), Regular (Jac.envOf V x) σ e →
      ∃ d, (g.run x σ).flatten[j]? = some d ∧
        HasDerivAt (fun t => denote (Function.update (Jac.envOf V x) V[j].name t) σ e) d (x.getD j 0) := by
  constructor
  · obtain ⟨c, hc, hrun⟩ := Optyx.Props.C01.compileExpression_sound (α := ℝ) thr V e (wfE_of_WF e hwf) hV
    rw [hf] at hc; cases hc
    exact hrun (Jac.envOf V x) σ x (agree_jacEnv hnd x hx)
  · intro j hj hreg
    obtain ⟨d, hd, hder⟩ := Optyx.Props.C03.compileJacobian_true_partial σ [e] V x hnd hx
      (by intro e' he'; simp at he'; subst he'; exact hwf) g hg 0 j (by simp) hj (by simpa using hreg)
    exact ⟨d, flatten_getElem?_of_entry hd, by simpa using hder⟩

/-- **C09, the inputs of `scipy.optimize.minimize`.** -/
theorem scipy_inputs_faithful (thr : Nat) (P : Problem) (V : List Var) (obj : Expr) (cache : Cache)
    (hobj : P.objective = some obj) (hnd : (names V).Nodup)
    (hwf : WF obj) (hwfc : ∀ c ∈ P.constraints, WF c.2)
    (hV : ∀ v ∈ getVars obj, v.name ∈ names V)
    (hVc : ∀ c ∈ P.constraints, ∀ v ∈ getVars c.2, v.name ∈ names V)
    (h : buildSolverCache thr P V = .ok cache)
    (σ : Nat → ℝ) (x : List ℝ) (hx : x.length = V.length) :
    -- the objective SciPy minimises
    cache.objective x σ = .ok (sgnOf P.sense * denote (Jac.envOf V x) σ obj) ∧
    -- its gradient, in the declared order
    (∀ j (hj : j < V.length), Regular (Jac.envOf V x) σ obj →
      ∃ d, (cache.gradient x σ)[j]? = some d ∧
        HasDerivAt (fun t => sgnOf P.sense * denote (Function.update (Jac.envOf V x) V[j].name t) σ obj)
          d (x.getD j 0)) ∧
    -- the constraint dictionaries, in the user's order
    cache.cons.length = P.constraints.length ∧
    ∀ k (hk : k < P.constraints.length), ∃ d, cache.cons[k]? = some d ∧
      d.sense = P.constraints[k].1 ∧
      (d.type = "eq" ↔ P.constraints[k].1 = .eq) ∧ (d.type = "ineq" ↔ P.constraints[k].1 ≠ .eq) ∧
      d.fun x σ = .ok (conSgn P.constraints[k].1 * denote (Jac.envOf V x) σ P.constraints[k].2) ∧
      ∀ j (hj : j < V.length), Regular (Jac.envOf V x) σ P.constraints[k].2 →
        ∃ dd, (d.jacobian x σ)[j]? = some dd ∧
          HasDerivAt (fun t => conSgn P.constraints[k].1 *
            denote (Function.update (Jac.envOf V x) V[j].name t) σ P.constraints[k].2) dd (x.getD j 0) := by
  obtain ⟨hf, hg, hcons⟩ := buildSolverCache_spec hobj h
  obtain ⟨hval, hgrad⟩ := compiled_pair_faithful thr V _ _ _ hnd (wf_solverObjective P.sense obj hwf)
    (by rw [getVars_solverObjective]; exact hV) hf hg σ x hx
  refine ⟨?_, ?_, ?_⟩
  · show Clo.run x σ cache.objFn = _
    rw [hval, denote_solverObjective]
  · intro j hj hreg
    obtain ⟨d, hd, hder⟩ := hgrad j hj (regular_solverObjective _ σ P.sense obj hreg)
    refine ⟨d, hd, ?_⟩
    have : (fun t => denote (Function.update (Jac.envOf V x) V[j].name t) σ (solverObjective P.sense obj))
        = fun t => sgnOf P.sense * denote (Function.update (Jac.envOf V x) V[j].name t) σ obj := by
      funext t; exact denote_solverObjective _ σ _ _
    rwa [this] at hder
  · obtain ⟨hlen, hall⟩ := buildCons_spec thr V P.constraints cache.cons hcons
    refine ⟨hlen, fun k hk => ?_⟩
    obtain ⟨d, hd, hs, hcf, hcj⟩ := hall k hk
    have hmem : P.constraints[k] ∈ P.constraints := List.getElem_mem hk
    generalize P.constraints[k] = ce at hs hcf hcj hmem ⊢
    obtain ⟨s, e⟩ := ce
    simp only at hs hcf hcj ⊢
    obtain ⟨hv, hg'⟩ := compiled_pair_faithful thr V e d.fn d.jac hnd (hwfc _ hmem) (hVc _ hmem) hcf hcj σ x hx
    obtain ⟨hge, hle, heq⟩ := Optyx.Props.Glue.conRow_table
    refine ⟨d, hd, hs, ?_, ?_, ?_, ?_⟩
    · unfold ConDict.type; rw [hs]
      cases s <;> simp [hge, hle, heq]
    · unfold ConDict.type; rw [hs]
      cases s <;> simp [hge, hle, heq]
    · unfold ConDict.fun; rw [hv, hs]
      cases s <;> simp [hge, hle, heq, conSgn]
    · intro j hj hreg
      obtain ⟨dd, hdd, hder⟩ := hg' j hj hreg
      unfold ConDict.jacobian; rw [hs]
      cases s
      · -- <= : function and Jacobian both negated
        have h2 : HasDerivAt (fun t => -(denote (Function.update (Jac.envOf V x) V[j].name t) σ e)) (-dd)
            (x.getD j 0) := hder.neg
        refine ⟨-dd, ?_, by simpa [conSgn] using h2⟩
        simp only [hle, if_true, List.getElem?_map, hdd, Option.map_some]
        rfl
      · exact ⟨dd, by simp [hge, hdd], by simpa [conSgn] using hder⟩
      · exact ⟨dd, by simp [heq, hdd], by simpa [conSgn] using hder⟩

/-- the sign handed to SciPy means what the user wrote: for an inequality `0 ≤ fun(x)` is
    `lhs − rhs ≤ 0` resp. `≥ 0`; for an equality `fun(x) = 0` is `lhs − rhs = 0` -/
theorem con_sign_meaning (s : Sense) (v : ℝ) :
    (s = .le → (0 ≤ conSgn s * v ↔ v ≤ 0)) ∧ (s = .ge → (0 ≤ conSgn s * v ↔ 0 ≤ v)) ∧
    (s = .eq → (conSgn s * v = 0 ↔ v = 0)) := by
  refine ⟨?_, ?_, ?_⟩ <;> intro h <;> subst h <;> simp [conSgn]

/-- the objective value reported back is the user's objective at the returned point, for both senses:
    `obj_value = ±result.fun` undoes the sign SciPy's objective carries -/
theorem reported_objective (s : ObjSense) (f : ℝ) : reportedObjective s (sgnOf s * f) = f := by
  have h := Optyx.Props.Glue.glue_sources.2.2.2.2.2.2.2
  cases s <;> simp [reportedObjective, sgnOf, h]

/-- **The Hessian handed to SciPy** (methods in `HESSIAN_METHODS`): it is compiled from the same `±f` as the
    objective and the gradient (− exactly under `maximize`), and entry `(i, j)` of the matrix it returns at a
    regular point is the true second partial derivative `∂/∂V[j] ∂/∂V[i]` of that expression, the matrix being
    symmetric — C17 (`compileHessian_true_second_partial`, hence C02 twice and Schwarz) through the regenerated
    glue tables. -/
theorem scipy_hessian_faithful (P : Problem) (V : List Var) (obj : Expr) (h : HessClo)
    (hobj : P.objective = some obj) (hnd : (names V).Nodup) (hwf : WF obj)
    (hb : buildHessian P V = .ok h) (σ : Nat → ℝ) (x : List ℝ) (hx : x.length = V.length)
    (hreg : Regular (Jac.envOf V x) σ obj) :
    let e' := solverHessObjective P.sense obj
    (∀ ρ : String → ℝ, denote ρ σ e' = sgnOf P.sense * denote ρ σ obj) ∧
    ∀ i j (hi : i < V.length) (hj : j < V.length),
      ∃ d, entry? (h.run x σ) i j = some d ∧ entry? (h.run x σ) j i = some d ∧
        HasDerivAt
          (fun t => deriv (fun s => denote (Function.update (Function.update (Jac.envOf V x) V[j].name t) V[i].name s) σ e')
                      ((Function.update (Jac.envOf V x) V[j].name t) V[i].name))
          d (x.getD j 0) := by
  intro e'
  have hsrc := Optyx.Props.Glue.glue_sources
  have he' : e' = solverObjective P.sense obj := by
    show solverHessObjective P.sense obj = solverObjective P.sense obj
    cases P.sense <;> simp [solverHessObjective, solverObjective, hsrc.2.2.2.2.2.1, hsrc.2.2.2.2.2.2.1]
  refine ⟨fun ρ => by rw [he']; exact denote_solverObjective ρ σ _ _, ?_⟩
  intro i j hi hj
  have hc : compileHessian e' V = .ok h := by
    unfold buildHessian at hb
    rw [hobj] at hb
    simp only [hsrc.2.2.2.2.1, hessianFrom] at hb
    cases hh : compileHessian (solverHessObjective P.sense obj) V with
    | ok c => rw [hh] at hb; cases hb; rfl
    | error err => rw [hh] at hb; cases hb
  have hwf' : WF e' := by rw [he']; exact wf_solverObjective _ _ hwf
  have hreg' : Regular (Jac.envOf V x) σ e' := by rw [he']; exact regular_solverObjective _ σ _ _ hreg
  exact Optyx.Props.C17.compileHessian_true_second_partial σ e' V x hnd hx hwf' hreg' h hc i j hi hj

/-! ### non-vacuity -/

/-- maximise `x·y − p` subject to `x + y − 4 ≤ 0`, `x − 1 ≥ 0`, in the declared order `[y, z, x]` -/
def exP : Problem :=
  { sense := .maximize
    objective := some (.bin .sub (.bin .mul (.var ⟨"x", 1⟩) (.var ⟨"y", 2⟩)) (.param ⟨"p", 7⟩))
    constraints := [(.le, .bin .sub (.bin .add (.var ⟨"x", 1⟩) (.var ⟨"y", 2⟩)) (.c 4)),
                    (.ge, .bin .sub (.var ⟨"x", 1⟩) (.c 1))] }
def exV : List Var := [⟨"y", 2⟩, ⟨"z", 3⟩, ⟨"x", 1⟩]

example : ∃ cache, buildSolverCache 400 exP exV = .ok cache ∧ cache.cons.length = 2 := by
  exact ⟨_, rfl, rfl⟩
example : (names exV).Nodup := by decide

end Optyx.Props.C09b
