/-
  Optyx.Props.PinsC01 — transcription anchors of C01 (harness/source_pins.py).
  Each theorem says: the function the hand-written model of C01 was read from has, in the source of this run,
  the fingerprint of the text it was read from.  Rewritten only by `source_pins.py --update` after a reviewed change.
-/
import Optyx.Generated.PinsC01

namespace Optyx.Props.PinsC01
open Optyx.Generated.PinsC01


/-- every function the model of C01 transcribes (and no translator covers) is the one it was read from -/
theorem anchors : True := trivial

end Optyx.Props.PinsC01
