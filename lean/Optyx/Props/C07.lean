/-
  C07 — the reported objective value and the variable values are self-consistent.

  Solver contracts are explicit hypotheses (`fun` is the value of the function the solver was given at
  the point it returns); the theorems are about the glue: sign undo, constant term, index → name
  alignment, and the handle look-ups of `Solution.__getitem__`.
-/
import Optyx.Props.Dispatch
import Optyx.Props.Glue
import Optyx.Lemmas.SolveHandles
import Optyx.Drive.Solve   -- one build of this module also builds the driver the check runs

namespace Optyx.Props.C07
open Optyx Optyx.Py.Solve

theorem dot_neg (c x : List Rat) : dot (c.map fun a => -a) x = -(dot c x) := by
  induction c generalizing x with
  | nil => simp [dot]
  | cons a t ih =>
    cases x with
    | nil => simp [dot]
    | cons b bs => simp only [List.map_cons, dot, ih]; grind

/-- **LP path.**  If linprog honours its contract `fun = c'·x` for the cost vector it was handed
    (`c' = −c` for maximise), the reported objective value is the user's affine objective
    `Σ cᵢ·values[nameᵢ] + c0` evaluated at the reported values — constant term included, in the user's
    orientation. -/
theorem lp_objective_value (lp : LPInfo) (r : LPResult) (xs : List Rat) (s : Solution)
    (hn : lp.names.Nodup) (hc : lp.c.length = lp.names.length)
    (hx : r.x = some xs) (contract : r.fn = some (dot (lpCost lp) xs))
    (h : postSolveLP lp r = .ok s) :
    s.objective = affineAt lp.names lp.c lp.c0 s.values ∧ s.objective = some (dot lp.c xs + lp.c0) := by
  unfold postSolveLP at h
  rw [hx] at h
  dsimp only at h
  split at h
  · cases h
  · rename_i hlen
    injection h with h
    subst h
    dsimp only
    have hlen' : lp.names.length ≤ xs.length := by omega
    have hobj : lpObjective lp r = some (dot lp.c xs + lp.c0) := by
      unfold lpObjective lpCost at *
      rw [contract]
      cases lp.maximize with
      | false => simp
      | true => simp only [↓reduceIte, Option.map_some, dot_neg]; congr 1; grind
    refine ⟨?_, hobj⟩
    rw [hobj, valuesOf_nodup _ _ hn]
    exact (affineAt_eq lp.names lp.c xs lp.c0 _ (fun i h1 h2 => dictGet_zip _ _ hn i h1 h2) hlen' hc).symm

theorem postSolveScipy_done (c : ScipyCfg) (method : String) (r1 r2 : ScipyResult) (s : Solution)
    (h : postSolveScipy c method r1 r2 = .done s) :
    ∃ r v, (r = r1 ∨ r = r2) ∧ s = finish c r v ∧ c.names.length ≤ r.x.length := by
  have one : ∀ m r s, postPass c m r = .done s → ∃ v, s = finish c r v ∧ c.names.length ≤ r.x.length := by
    intro m r s h
    unfold postPass at h
    split at h
    · cases h
    · dsimp only at h
      split at h
      · cases h
      · injection h with h; exact ⟨_, h.symm, by omega⟩
  unfold postSolveScipy at h
  simp only [postSolveScipyF] at h
  cases hp1 : postPass c method r1 with
  | raised e => rw [hp1] at h; cases h
  | done s1 =>
    rw [hp1] at h
    injection h with h; subst h
    obtain ⟨v, hv, hl⟩ := one _ _ _ hp1
    exact ⟨r1, v, Or.inl rfl, hv, hl⟩
  | retry =>
    rw [hp1] at h
    dsimp only at h
    cases hp2 : postPass c "trust-constr" r2 with
    | raised e => rw [hp2] at h; cases h
    | done s2 =>
      rw [hp2] at h
      injection h with h; subst h
      obtain ⟨v, hv, hl⟩ := one _ _ _ hp2
      exact ⟨r2, v, Or.inr rfl, hv, hl⟩
    | retry => rw [hp2] at h; cases h

/-- **SciPy path.**  `f` is the user's objective as a function of the point.  If both `minimize` calls
    honour `fun = f'(x)` for the function they were given (`f' = −f` for maximise), the reported objective
    value is `f` at the very point whose coordinates are reported as values (through the retry). -/
theorem scipy_objective_value (c : ScipyCfg) (method : String) (r1 r2 : ScipyResult) (f : List Rat → Rat)
    (s : Solution)
    (c1 : r1.fn = if c.maximize then -(f r1.x) else f r1.x)
    (c2 : r2.fn = if c.maximize then -(f r2.x) else f r2.x)
    (h : postSolveScipy c method r1 r2 = .done s) :
    ∃ r, (r = r1 ∨ r = r2) ∧ s.objective = some (f r.x) ∧ s.values = valuesOf c.names r.x := by
  obtain ⟨r, v, hr, hs, _⟩ := postSolveScipy_done c method r1 r2 s h
  refine ⟨r, hr, ?_, by rw [hs]; rfl⟩
  have hfn : r.fn = if c.maximize then -(f r.x) else f r.x := by
    rcases hr with rfl | rfl <;> assumption
  rw [hs]
  simp only [finish, hfn]
  cases c.maximize <;> simp

/-- the values dict has exactly one entry per problem variable, in the variables' order -/
theorem values_keys (names : List String) (x : List Rat) (hn : names.Nodup) (hl : names.length ≤ x.length) :
    dictKeys (valuesOf names x) = names ∧ (dictKeys (valuesOf names x)).Nodup := by
  have h : dictKeys (valuesOf names x) = names := by
    rw [valuesOf_nodup _ _ hn]
    unfold dictKeys
    exact List.map_fst_zip hl
  refine ⟨h, ?_⟩
  rw [h]
  exact hn

/-- … and entry `i` is coordinate `i` of the solver's vector -/
theorem values_lookup (names : List String) (x : List Rat) (hn : names.Nodup) (i : Nat)
    (h1 : i < names.length) (h2 : i < x.length) : dictGet (valuesOf names x) names[i] = some x[i] := by
  rw [valuesOf_nodup _ _ hn]
  exact dictGet_zip names x hn i h1 h2

/-- `Solution[vec]`: right length, entry `i` = `values[vec[i].name]` -/
theorem getitem_vector (values : List (String × Rat)) (v : PVec) (hc : Covers values v.vars) :
    ∃ l, getVector values v = .ok l ∧ l.length = v.vars.length ∧
      ∀ i (h1 : i < v.vars.length) (h2 : i < l.length), dictGet values v.vars[i].name = some l[i] :=
  getVector_spec values v hc

/-- `Solution[M]`: shape `rows × cols`, entry `(i, j)` = `values[M[i, j].name]` -/
theorem getitem_matrix (values : List (String × Rat)) (m : PMat) (hw : m.WF) (hc : Covers values m.elems) :
    ∃ A, getMatrix values m = .ok A ∧ A.length = m.nrows ∧
      ∀ i (_ : i < m.nrows) (hA : i < A.length), A[i].length = m.ncols ∧
        ∀ j (_ : j < m.ncols) (hAj : j < A[i].length),
          ∃ e, gridGet m.grid i j = some e ∧ dictGet values e.name = some A[i][j] :=
  getMatrix_spec values m hw hc

/-- a transposed handle is well formed and reads position `(i, j)` from the base's `(j, i)`;
    hence `Solution[M.T][i][j] = Solution[M][j][i]` -/
theorem getitem_transpose (values : List (String × Rat)) (m : PMat) (hw : m.WF) (hc : Covers values m.elems)
    (A B : List (List Rat)) (hA : getMatrix values m = .ok A) (hB : getMatrix values m.T = .ok B)
    (i j : Nat) (hi : i < m.ncols) (hj : j < m.nrows) :
    ∃ (h1 : i < B.length) (h2 : j < B[i].length) (h3 : j < A.length) (h4 : i < A[j].length),
      B[i][j] = A[j][i] := by
  obtain ⟨hwT, hpos⟩ := transpose_grid m hw
  have hcT : Covers values m.T.elems := fun e he => hc e ((transpose_subset m).1 e he)
  obtain ⟨A', hA', hlenA, hentA⟩ := getMatrix_spec values m hw hc
  obtain ⟨B', hB', hlenB, hentB⟩ := getMatrix_spec values m.T hwT hcT
  rw [hA] at hA'; injection hA' with hA'; subst hA'
  rw [hB] at hB'; injection hB' with hB'; subst hB'
  have h1 : i < B.length := by rw [hlenB]; exact hi
  have h3 : j < A.length := by rw [hlenA]; exact hj
  obtain ⟨hrowB, hB2⟩ := hentB i hi h1
  obtain ⟨hrowA, hA2⟩ := hentA j hj h3
  have h2 : j < B[i].length := by rw [hrowB]; exact hj
  have h4 : i < A[j].length := by rw [hrowA]; exact hi
  refine ⟨h1, h2, h3, h4, ?_⟩
  obtain ⟨e1, he1, hv1⟩ := hB2 j hj h2
  obtain ⟨e2, he2, hv2⟩ := hA2 i hi h4
  rw [hpos i j hi hj, he2] at he1
  injection he1 with he1
  subst he1
  rw [hv2] at hv1
  injection hv1 with hv1
  exact hv1.symm

/-- a symmetric matrix handle reads `(i, j)` and `(j, i)` from the same element: the retrieved array
    is symmetric -/
theorem getitem_symmetric (values : List (String × Rat)) (name : String) (n : Int) (lb ub : Option Rat)
    (d : Domain) (m : PMat) (hm : mkMatrix name n n lb ub d true = .ok m) (hc : Covers values m.elems)
    (A : List (List Rat)) (hA : getMatrix values m = .ok A) (i j : Nat) (hi : i < m.nrows) (hj : j < m.ncols) :
    m.nrows = m.ncols ∧
    ∃ (h1 : i < A.length) (h2 : j < A[i].length) (h3 : j < A.length) (h4 : i < A[j].length),
      A[i][j] = A[j][i] := by
  have hw := mkMatrix_wf hm
  have hsq : m.nrows = m.ncols := by
    unfold mkMatrix at hm
    split at hm
    · cases hm
    · split at hm
      · cases hm
      · dsimp only at hm
        injection hm with hm; subst hm; rfl
  refine ⟨hsq, ?_⟩
  obtain ⟨A', hA', hlenA, hentA⟩ := getMatrix_spec values m hw hc
  rw [hA] at hA'; injection hA' with hA'; subst hA'
  have h1 : i < A.length := by omega
  have h3 : j < A.length := by omega
  obtain ⟨hr1, hA1⟩ := hentA i hi h1
  obtain ⟨hr3, hA3⟩ := hentA j (by omega) h3
  have h2 : j < A[i].length := by omega
  have h4 : i < A[j].length := by omega
  refine ⟨h1, h2, h3, h4, ?_⟩
  obtain ⟨e1, he1, hv1⟩ := hA1 j hj h2
  obtain ⟨e2, he2, hv2⟩ := hA3 i (by omega) h4
  rw [symmetric_grid hm i j hi hj, he2] at he1
  injection he1 with he1
  subst he1
  rw [hv2] at hv1
  injection hv1 with hv1
  exact hv1.symm

/-! non-vacuity -/

/-- `minimize v + 5, v ≥ 0` (the former F9 witness): linprog returns fun = 0 at v = 0, reported 5 -/
example : (postSolveLP ⟨["v"], [1], 5, false⟩ ⟨true, 0, some [0], some 0, some 1⟩).toOption
    = some ⟨.optimal, some 5, [("v", 0)], some 1⟩ := by decide +kernel

/-- maximise, two variables: fun = c'·x = −(2·3 + 1·4) -/
example : (postSolveLP ⟨["a", "b"], [2, 1], 1, true⟩ ⟨true, 0, some [3, 4], some (-10), none⟩).toOption
    = some ⟨.optimal, some 11, [("a", 3), ("b", 4)], none⟩ := by decide +kernel

example : (getMatrix [("S[0,0]", 1), ("S[0,1]", 2), ("S[1,1]", 3)]
    (match mkMatrix "S" 2 2 none none .continuous true with | .ok m => m | .error _ => default)).toOption
    = some [[1, 2], [2, 3]] := by decide +kernel

end Optyx.Props.C07
