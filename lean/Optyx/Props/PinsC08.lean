/-
  Optyx.Props.PinsC08 — transcription anchors of C08 (harness/source_pins.py).
  Each theorem says: the function the hand-written model of C08 was read from has, in the source of this run,
  the fingerprint of the text it was read from.  Rewritten only by `source_pins.py --update` after a reviewed change.
-/
import Optyx.Generated.PinsC08

namespace Optyx.Props.PinsC08
open Optyx.Generated

/-- `solve_lp` (solvers/lp_solver.py) -/
theorem pin_lp_solver_solve_lp_anchor : pin_lp_solver_solve_lp = "244fed8ae6b2b560" := rfl

/-- every function the model of C08 transcribes (and no translator covers) is the one it was read from -/
theorem anchors : pin_lp_solver_solve_lp = "244fed8ae6b2b560" :=
  pin_lp_solver_solve_lp_anchor

end Optyx.Props.PinsC08
