/-
  C04 — degree / linearity classification never under-reports.

  Property theorems only; the proofs are in `Lemmas/DegreeSound.lean` (polynomial semantics,
  Mathlib `MvPolynomial String ℝ`) and `Lemmas/DegreeIter.lean` (explicit-stack machine).
  `Py.degree` models `_compute_degree_impl`, `Py.degreeIter` `_compute_degree_iterative`,
  `Py.computeDegree T` `compute_degree` under `_RECURSION_THRESHOLD = T`, `Py.readMany` successive
  reads of the cached property `Expression.degree`, `denote` is the meaning over ℝ
  (`pow = Real.rpow`).
-/
import Optyx.Lemmas.DegreeSound
import Optyx.Lemmas.DegreeIter
import Optyx.Drive.Analysis
import Optyx.Props.DegreeTie

namespace Optyx.Props.C04
open Optyx Optyx.Py MvPolynomial

/-- Whenever the classifier reports degree `d`, the expression denotes (for every parameter
    store) a polynomial of total degree ≤ `d` in its variables.
    `NoConstDivZero` is not needed by the proof (ℝ totalises `x / 0` to the polynomial `0`); it is
    part of the statement because at a division by the literal `Constant(0)` the ℝ-denotation
    does not describe what NumPy computes (`inf`/`nan`). -/
theorem degree_sound (e : Expr) (d : ℕ) (_hz : NoConstDivZero e) (h : Py.degree e = some d) :
    ∃ p : MvPolynomial String ℝ, p.totalDegree ≤ d ∧
      ∀ (ρ : String → ℝ) (σ : Nat → ℝ), denote ρ σ e = eval ρ p :=
  degree_poly e d h

example : NoConstDivZero (.bin .add (.bin .mul (Expr.c 3) (.bin .pow (.var ⟨"x", 1⟩) (Expr.c 2))) (.var ⟨"y", 2⟩))
    ∧ Py.degree (.bin .add (.bin .mul (Expr.c 3) (.bin .pow (.var ⟨"x", 1⟩) (Expr.c 2))) (.var ⟨"y", 2⟩)) = some 2 := by
  constructor
  · simp [NoConstDivZero, noConstDivZero, isZeroConst, Expr.c]
  · simp [Py.degree, expNat, ratNat, Expr.c]

/-- `is_linear(e)` ⇒ ⟦e⟧ is a polynomial of total degree ≤ 1, i.e. affine in the variables. -/
theorem isLinear_affine (e : Expr) (hz : NoConstDivZero e) (h : Py.isLinear e = true) :
    ∃ p : MvPolynomial String ℝ, p.totalDegree ≤ 1 ∧
      ∀ (ρ : String → ℝ) (σ : Nat → ℝ), denote ρ σ e = eval ρ p := by
  unfold Py.isLinear at h
  split at h
  · rename_i d hd
    obtain ⟨p, hp, he⟩ := degree_sound e d hz hd
    exact ⟨p, hp.trans (by simpa using h), he⟩
  · simp at h

/-- `is_quadratic(e)` ⇒ ⟦e⟧ is a polynomial of total degree ≤ 2. -/
theorem isQuadratic_deg2 (e : Expr) (hz : NoConstDivZero e) (h : Py.isQuadratic e = true) :
    ∃ p : MvPolynomial String ℝ, p.totalDegree ≤ 2 ∧
      ∀ (ρ : String → ℝ) (σ : Nat → ℝ), denote ρ σ e = eval ρ p := by
  unfold Py.isQuadratic at h
  split at h
  · rename_i d hd
    obtain ⟨p, hp, he⟩ := degree_sound e d hz hd
    exact ⟨p, hp.trans (by simpa using h), he⟩
  · simp at h

/-- "whichever traversal": the explicit-stack traversal returns exactly what the recursive one
    returns (never pops an empty result stack, needs at most `3 · size e` loop iterations). -/
theorem degreeIter_eq (e : Expr) (fuel : Nat) (h : 3 * e.size ≤ fuel) :
    Py.degreeIter fuel e = .ok (Py.degree e) :=
  degreeIter_eq_of_le e fuel h

/-- "whatever its tree depth": the switch threshold of `compute_degree` has no influence on the result. -/
theorem computeDegree_threshold_irrelevant (T : Nat) (e : Expr) :
    Py.computeDegree T e = .ok (Py.degree e) := by
  unfold Py.computeDegree
  split
  · exact degreeIter_eq e _ (Nat.le_refl _)
  · rfl

theorem readDegree_cached (T : Nat) (e : Expr) :
    Py.readDegree T e (.int (encodeDeg (Py.degree e))) = .ok (Py.degree e, .int (encodeDeg (Py.degree e))) := by
  cases h : Py.degree e with
  | none => simp [Py.readDegree, encodeDeg]
  | some d =>
    have : ((d : Int) == -1) = false := by
      simp only [beq_eq_false_iff_ne, ne_eq]; omega
    simp [Py.readDegree, encodeDeg, this]

theorem readMany_cached (T : Nat) (e : Expr) (k : Nat) :
    Py.readMany T e k (.int (encodeDeg (Py.degree e))) = .ok (List.replicate k (Py.degree e)) := by
  induction k with
  | zero => rfl
  | succ k ih => simp [Py.readMany, readDegree_cached, ih, List.replicate_succ]

/-- the cached property: starting from the slot state of a fresh object (attribute missing, or
    `None` as `Variable.__init__` leaves it), every read — the first, which computes and stores the
    `-1`-encoded result, and all later ones, which decode the slot — returns `Py.degree e`,
    under every threshold. -/
theorem degree_property_cache (T : Nat) (e : Expr) (s : Slot) (hs : s = .unset ∨ s = .pyNone) (k : Nat) :
    Py.readMany T e k s = .ok (List.replicate k (Py.degree e)) := by
  cases k with
  | zero => rfl
  | succ k =>
    have h1 : Py.readDegree T e s = .ok (Py.degree e, .int (encodeDeg (Py.degree e))) := by
      rcases hs with rfl | rfl <;> simp [Py.readDegree, computeDegree_threshold_irrelevant]
    simp [Py.readMany, h1, readMany_cached, List.replicate_succ]

/-- The same soundness statement for **whatever function the current source defines**: `f` is any
    function satisfying the equations harness/py2lean.py reads off the bodies of `_compute_degree_impl` and
    `_vector_degree` on this run (`Generated.degreeStepG`, `Generated.vectorDegreeG`; recursive calls are
    calls of `f`).  By `DegreeTie.step_unique` there is exactly one such function, the model `Py.degree`. -/
theorem degree_sound_of_source_equations (f : Expr → Deg)
    (hf : ∀ e, f e = Generated.degreeStepG f (Generated.vectorDegreeG f) e)
    (e : Expr) (d : ℕ) (hz : NoConstDivZero e) (h : f e = some d) :
    ∃ p : MvPolynomial String ℝ, p.totalDegree ≤ d ∧
      ∀ (ρ : String → ℝ) (σ : Nat → ℝ), denote ρ σ e = eval ρ p := by
  rw [DegreeTie.step_unique f hf e] at h
  exact degree_sound e d hz h

/-- the hypothesis of `degree_sound_of_source_equations` is satisfiable: `Py.degree` solves the equations -/
theorem source_equations_solvable :
    ∀ e, Py.degree e = Generated.degreeStepG Py.degree (Generated.vectorDegreeG Py.degree) e := fun e => by
  rw [DegreeTie.degree_step e]; congr 1; funext v; exact DegreeTie.vecDegree_step v

end Optyx.Props.C04
