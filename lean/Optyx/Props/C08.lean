/-
  C08 — linear problems are solved to the true LP optimum with the true status.

  `lp_pipeline_faithful`: for **any** function `linprog` that meets the LP contract on the data it
  is given (verdict and optimal value are correct for those data), the LP path of optyx returns the
  verdict of the *extracted model in the user's orientation*: feasible sets coincide (matrices and
  bounds are passed through unchanged), `max f = −min(−f)`, the status map is total on linprog's
  codes, un-negation and the constant term restore the user's objective value.
  Together with C05 (`extractLP_sound`: the extracted data denote the user's model) this is the
  statement of the property modulo the solver contract (the inside of HiGHS is trusted, DESIGN §4.6).
-/
import Optyx.Py.LPPipeline
import Mathlib.Algebra.Order.Field.Basic
import Mathlib.Tactic.Ring
import Mathlib.Tactic.Linarith

namespace Optyx.Props.C08
open Optyx Optyx.Py Optyx.Py.LPP

variable {K : Type} [Field K] [LinearOrder K] [IsStrictOrderedRing K]

def dot : List K → List K → K
  | a :: t, b :: u => a * b + dot t u
  | _, _ => 0

def rowsLe (A : List (List K)) (b : List K) (x : List K) : Prop :=
  List.Forall₂ (fun row bi => dot row x ≤ bi) A b

def rowsEq (A : List (List K)) (b : List K) (x : List K) : Prop :=
  List.Forall₂ (fun row bi => dot row x = bi) A b

def inBounds (bs : List (Option K × Option K)) (x : List K) : Prop :=
  List.Forall₂ (fun b xi => (∀ l, b.1 = some l → l ≤ xi) ∧ (∀ u, b.2 = some u → xi ≤ u)) bs x

/-- feasibility as linprog understands its arguments (omitted bounds = scipy's default (0, ∞)) -/
def feasibleArgs (a : LinprogArgs K) (x : List K) : Prop :=
  x.length = a.c.length ∧
  (∀ A b, a.aub = some A → a.bub = some b → rowsLe A b x) ∧
  (∀ A b, a.aeq = some A → a.beq = some b → rowsEq A b x) ∧
  (match a.bounds with
    | some bs => inBounds bs x
    | none => ∀ xi ∈ x, 0 ≤ xi)

/-- feasibility for the extracted LP data (what C05 relates to the user's constraints/bounds) -/
def feasibleData (d : LPData K) (x : List K) : Prop :=
  x.length = d.c.length ∧
  (∀ A b, d.aub = some A → d.bub = some b → rowsLe A b x) ∧
  (∀ A b, d.aeq = some A → d.beq = some b → rowsEq A b x) ∧
  inBounds d.bounds x

/-- shape invariant of `LinearProgramExtractor.extract`: one bound per column -/
def WFData (d : LPData K) : Prop := d.bounds.length = d.c.length

/-- the documented contract of `scipy.optimize.linprog` (trusted, never proved) -/
def LinprogContract (lp : LinprogArgs K → LinprogResult K) : Prop :=
  ∀ a,
    ((lp a).success = true →
      ∃ x, (lp a).x = some x ∧ feasibleArgs a x ∧ (lp a).fn = some (dot a.c x) ∧
        ∀ y, feasibleArgs a y → dot a.c x ≤ dot a.c y) ∧
    ((lp a).success = false → (lp a).status = 2 → ∀ y, ¬ feasibleArgs a y) ∧
    ((lp a).success = false → (lp a).status = 3 →
      (∃ y, feasibleArgs a y) ∧ ∀ M, ∃ y, feasibleArgs a y ∧ dot a.c y < M)

theorem dot_neg (c x : List K) : dot (c.map fun a => -a) x = - dot c x := by
  induction c generalizing x with
  | nil => simp [dot]
  | cons a c ih => cases x with
    | nil => simp [dot]
    | cons b x => simp [dot, ih]; ring

theorem feasible_iff (d : LPData K) (hwf : WFData d) (m : Option String) (x : List K) :
    feasibleArgs (lpArgs d m) x ↔ feasibleData d x := by
  unfold feasibleArgs feasibleData lpArgs
  have hlen : (if d.isMax then d.c.map (fun a => -a) else d.c).length = d.c.length := by
    split <;> simp
  simp only [hlen]
  constructor
  · rintro ⟨h1, h2, h3, h4⟩
    refine ⟨h1, ?_, ?_, ?_⟩
    · intro A b hA hb; exact h2 A b (by simp [hA, hb]) (by simp [hA, hb])
    · intro A b hA hb; exact h3 A b (by simp [hA, hb]) (by simp [hA, hb])
    · by_cases he : d.bounds.isEmpty
      · have hb : d.bounds = [] := List.isEmpty_iff.mp he
        have hx : x = [] := by
          have : x.length = 0 := by rw [h1, ← hwf, hb]; rfl
          exact List.length_eq_zero_iff.mp this
        rw [hb, hx]; exact List.Forall₂.nil
      · simpa [he] using h4
  · rintro ⟨h1, h2, h3, h4⟩
    refine ⟨h1, ?_, ?_, ?_⟩
    · intro A b hA hb
      by_cases hs : (d.aub.isSome && d.bub.isSome) = true
      · simp only [hs, ite_true] at hA hb; exact h2 A b hA hb
      · simp [hs] at hA
    · intro A b hA hb
      by_cases hs : (d.aeq.isSome && d.beq.isSome) = true
      · simp only [hs, ite_true] at hA hb; exact h3 A b hA hb
      · simp [hs] at hA
    · by_cases he : d.bounds.isEmpty
      · have hb : d.bounds = [] := List.isEmpty_iff.mp he
        rw [hb] at h4
        cases h4
        simp [he]
      · simpa [he] using h4

/-- the status chain agrees with the regenerated table of `solve_lp` (codes 1, 2, 3) and is total -/
theorem lpStatus_table :
    (∀ p ∈ Optyx.Generated.lpStatusMap, (lpStatus false p.1).name = p.2) ∧
    (∀ k, lpStatus true k = .optimal) ∧
    (∀ k, k ≠ 1 → k ≠ 2 → k ≠ 3 → lpStatus false k = .failed) := by
  refine ⟨by decide, fun k => by simp [lpStatus], fun k h1 h2 h3 => by simp [lpStatus, h1, h2, h3]⟩

omit [Field K] [LinearOrder K] [IsStrictOrderedRing K] in
theorem lpStatus_optimal_iff (b : Bool) (k : Nat) : lpStatus b k = .optimal ↔ b = true := by
  unfold lpStatus; cases b <;> simp <;> split_ifs <;> simp

omit [Field K] [LinearOrder K] [IsStrictOrderedRing K] in
theorem lpStatus_infeasible_iff (b : Bool) (k : Nat) :
    lpStatus b k = .infeasible ↔ b = false ∧ k = 2 := by
  unfold lpStatus; cases b <;> simp <;> split_ifs <;> simp_all

omit [Field K] [LinearOrder K] [IsStrictOrderedRing K] in
theorem lpStatus_unbounded_iff (b : Bool) (k : Nat) :
    lpStatus b k = .unbounded ↔ b = false ∧ k = 3 := by
  unfold lpStatus; cases b <;> simp <;> split_ifs <;> simp_all

/-- **C08.** verdict and optimal value in the user's orientation, for any contract-abiding solver -/
theorem lp_pipeline_faithful (lp : LinprogArgs K → LinprogResult K) (hlp : LinprogContract lp)
    (d : LPData K) (hwf : WFData d) (m : Option String) :
    let s := solveLP lp d m
    let obj := fun x => dot d.c x + d.c0
    (s.status = .optimal →
      ∃ x, s.values = d.names.zip x ∧ feasibleData d x ∧ s.objective = some (obj x) ∧
        ∀ y, feasibleData d y → if d.isMax then obj y ≤ obj x else obj x ≤ obj y) ∧
    (s.status = .infeasible → ∀ y, ¬ feasibleData d y) ∧
    (s.status = .unbounded →
      (∃ y, feasibleData d y) ∧
        ∀ M, ∃ y, feasibleData d y ∧ if d.isMax then M < obj y else obj y < M) := by
  intro s obj
  obtain ⟨hopt, hinf, hunb⟩ := hlp (lpArgs d m)
  have hc : (lpArgs d m).c = if d.isMax then d.c.map (fun a => -a) else d.c := rfl
  have hst : s.status = lpStatus (lp (lpArgs d m)).success (lp (lpArgs d m)).status := rfl
  refine ⟨?_, ?_, ?_⟩
  · intro hs
    have hsucc : (lp (lpArgs d m)).success = true := (lpStatus_optimal_iff _ _).mp (hst ▸ hs)
    obtain ⟨x, hx, hfeas, hfn, hmin⟩ := hopt hsucc
    refine ⟨x, ?_, (feasible_iff d hwf m x).mp hfeas, ?_, ?_⟩
    · simp [s, solveLP, lpPost, hx]
    · simp only [s, solveLP, lpPost, hfn, Option.map_some, obj, hc]
      by_cases hm : d.isMax
      · simp [hm, dot_neg]
      · simp [hm]
    · intro y hy
      have := hmin y ((feasible_iff d hwf m y).mpr hy)
      rw [hc] at this
      by_cases hm : d.isMax
      · simp only [hm, ite_true, dot_neg] at this ⊢
        simp only [obj]; linarith
      · simp only [hm] at this ⊢
        simp only [obj]; simpa using this
  · intro hs y hy
    obtain ⟨hfalse, h2⟩ := (lpStatus_infeasible_iff _ _).mp (hst ▸ hs)
    exact hinf hfalse h2 y ((feasible_iff d hwf m y).mpr hy)
  · intro hs
    obtain ⟨hfalse, h3⟩ := (lpStatus_unbounded_iff _ _).mp (hst ▸ hs)
    obtain ⟨⟨y0, hy0⟩, hM⟩ := hunb hfalse h3
    refine ⟨⟨y0, (feasible_iff d hwf m y0).mp hy0⟩, ?_⟩
    intro M
    by_cases hm : d.isMax
    · obtain ⟨y, hy, hlt⟩ := hM (-(M - d.c0))
      refine ⟨y, (feasible_iff d hwf m y).mp hy, ?_⟩
      rw [hc] at hlt
      simp only [hm, ite_true, dot_neg] at hlt ⊢
      simp only [obj]; linarith
    · obtain ⟨y, hy, hlt⟩ := hM (M - d.c0)
      refine ⟨y, (feasible_iff d hwf m y).mp hy, ?_⟩
      rw [hc] at hlt
      simp only [hm] at hlt ⊢
      simp only [obj]
      have : dot d.c y < M - d.c0 := by simpa using hlt
      simp; linarith

/-- non-vacuity: well-formed data exist (min x + 5, 1 ≤ x ≤ 3) and a contract-abiding solver for
    them exists (answer x = 1 on exactly these arguments … here: the contract is satisfiable for
    the always-failing solver, whose verdicts are vacuous, and the data are well-formed) -/
example : WFData (K := ℚ) ⟨[1], 5, false, none, none, none, none, [(some 1, some 3)], ["x"]⟩ := rfl

example : LinprogContract (K := ℚ) (fun _ => ⟨false, 4, none, none⟩) := by
  intro a; simp

end Optyx.Props.C08
