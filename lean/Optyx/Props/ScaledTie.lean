/-
  Optyx.Props.ScaledTie — the model of `_is_scaled_variable_pattern` (`Py.scaledEntry`, `scaledLoop`, `scaledPattern`: the test
  behind the `scaled_variable_jacobian` closure of `compile_jacobian`) is the loop body and accumulator translated from the source
  on every run (`Generated/ScaledPattern.lean`, harness/py2lean_scaled.py).
-/
import Optyx.Py.Jacobian
import Optyx.Generated.ScaledPattern

namespace Optyx.Props.ScaledTie
open Optyx Optyx.Py Optyx.Generated

/-- the entry test: `Constant(c) * var` or `var * Constant(c)`, `var` being the declared object -/
theorem scaledEntry_eq (e : Expr) (var : Var) : scaledEntry e var = scaledEntryG e var := by
  unfold scaledEntry scaledEntryG
  cases e with
  | bin op l r =>
    cases op <;> (try rfl)
    cases l <;> cases r <;> (try rfl) <;> (simp only []; split <;> rfl)
  | _ => rfl

/-- one iteration of the loop: entry test, then the accumulator update, each as translated -/
theorem scaledLoop_step (scale : Option Cst) (e : Expr) (var : Var) (t : List (Expr × Var)) :
    scaledLoop scale ((e, var) :: t) =
      (match scaledEntryG e var with
       | none => none
       | some c => match scaledAccG scale c with
                   | none => none
                   | some s' => scaledLoop s' t) := by
  rw [← scaledEntry_eq]
  simp only [scaledLoop]
  cases scaledEntry e var with
  | none => rfl
  | some c =>
    cases scale with
    | none => rfl
    | some s =>
      simp only [scaledAccG]
      by_cases h : (s != c) = true <;> simp [h]

theorem scaledLoop_nil (scale : Option Cst) : scaledLoop scale [] = some scale := rfl

/-- the frame: length guard; `scale = None`; the result is the common scale, and `None` when the row is empty -/
theorem scaledPattern_frame (row : List Expr) (V : List Var) :
    scaledPattern row V = (if row.length != V.length then none
                           else match scaledLoop none (row.zip V) with | some (some c) => some c | _ => none) := rfl

/-- the scale is read from the CONSTANT operand and only when the other operand is the declared variable itself -/
example (c : Cst) (v w : Var) (h : (w == v) = false) :
    scaledEntryG (.bin .mul (.const c) (.var v)) v = some c ∧ scaledEntryG (.bin .mul (.var v) (.const c)) v = some c ∧
    scaledEntryG (.bin .mul (.const c) (.var w)) v = none := by
  simp [scaledEntryG, h]

end Optyx.Props.ScaledTie
