/-
  C17 — symbolic and compiled Hessians are the (symmetric) second derivatives; the diagonal
  shortcuts for vectorised sums agree with the general path.

  Model: `Py.computeHessian`, `Py.compileHessian` (`Optyx/Py/Jacobian.lean`): fast paths for
  VectorPowerSum (k = 1, 2, general × full / sparse indices) and VectorUnarySum (sin, cos, exp, log ×
  full / sparse), general path = upper triangle compiled + mirrored.
  Statements over ℝ are "before sanitising" (`_sanitize_derivatives` is the identity on finite values, C19).
-/
import Optyx.Lemmas.JacHess
import Optyx.Props.C02
import Optyx.Drive.Jac
import Optyx.Lemmas.HessSecond
import Optyx.Props.Closures
import Optyx.Lemmas.HessFull

namespace Optyx.Props.C17
open Optyx Optyx.Py Optyx.Py.Jac NumAlg

/-- **`compute_hessian`** (definitional): entry `(i, j)` is `gradient(gradient(e, V[i]), V[j])`. -/
theorem hess_entries (e : Expr) (V : List Var) (i j : Nat) (hi : i < V.length) (hj : j < V.length) :
    entry? (computeHessian e V) i j = some (grad V[j] (grad V[i] e)) :=
  entry?_computeHessian e V hi hj

/-- **`compile_hessian`, general path** (`hessian_fn`): the closure holds `compute_hessian(e, V)`; the
    matrix it returns at `x` has, at `(i, j)` with `i ≤ j`, the value of `H[i][j]` at the point, and at
    `(i, j)` with `i > j` the value of `H[j][i]` (mirrored upper triangle). -/
theorem compileHessian_general_entries (σ : Nat → ℝ) (e : Expr) (V V' : List Var) (H : List (List Expr))
    (x : List ℝ) (h : compileHessian e V = .ok (.general V' H))
    (i j : Nat) (hi : i < V.length) (hj : j < V.length) :
    V' = V ∧ H = computeHessian e V ∧
    entry? ((HessClo.general V' H).run x σ) i j =
      some (if i ≤ j then denote (envOf V x) σ (hessEntry e V[i] V[j])
            else denote (envOf V x) σ (hessEntry e V[j] V[i])) := by
  obtain ⟨hV, hH⟩ := compileHessian_general_inv h
  subst hV; subst hH
  exact ⟨rfl, rfl, general_run_entry σ e V' x hi hj⟩

/-- **`H = Hᵀ`** for the matrix returned by *every* closure `compile_hessian` can return, in every
    number algebra (so also for IEEE doubles, NaN/Inf included, and after sanitising). -/
theorem compileHessian_symm {α : Type} [NumAlg α] [DerivAlg α] (e : Expr) (V : List Var) (clo : HessClo)
    (_h : compileHessian e V = .ok clo) (x : List α) (σ : Nat → α) (i j : Nat) :
    entry? (clo.run x σ) i j = entry? (clo.run x σ) j i :=
  hessClo_symm clo x σ i j

/-- **The diagonal fast paths agree with the general path.**  For `e` a VectorPowerSum or a
    VectorUnarySum with a fast path (sin, cos, exp, log), whatever closure `compile_hessian` selects
    (`hess_power_k1/k2/general/sparse`, `hess_<op>`, `hess_<op>_sparse`), the matrix it returns equals,
    entry by entry, the matrix the general closure (`hessian_fn` over `compute_hessian(e, V)`) returns:
    both are `⟦gradient(gradient(e, V[i]), V[j])⟧` at the point, for any order / superset `V`. -/
theorem hessFast_eq_general (σ : Nat → ℝ) (e : Expr) (V : List Var) (x : List ℝ)
    (hnd : (names V).Nodup) (hx : x.length = V.length)
    (hfast : (∃ v k, e = .powSum v k) ∨ (∃ v op, e = .unSum v op ∧ hessFastOp op = true))
    (clo : HessClo) (h : compileHessian e V = .ok clo)
    (i j : Nat) (hi : i < V.length) (hj : j < V.length) :
    entry? (clo.run x σ) i j = some (denote (envOf V x) σ (hessEntry e V[i] V[j])) ∧
    entry? (clo.run x σ) i j = entry? ((HessClo.general V (computeHessian e V)).run x σ) i j := by
  have hij := hessFast_entries σ hnd x hx e hfast h hi hj
  refine ⟨hij, ?_⟩
  rw [general_run_entry σ e V x hi hj]
  by_cases hle : i ≤ j
  · simpa [hle] using hij
  · have hji := hessFast_entries σ hnd x hx e hfast h hj hi
    rw [hessClo_symm clo x σ i j, hji]
    simp [hle]

/-
  Full statement aimed at (C17, "the true second partial derivative"):

    theorem hess_second_partial (e) (vi vj : Var) (ρ σ) (hwf : WF e) (hreg : Regular ρ σ e) :
      HasDerivAt (fun t => deriv (fun s => ⟦e⟧ (ρ[vj ↦ t][vi ↦ s]) σ) (ρ[vj ↦ t] vi))
                 (⟦hessEntry e vi vj⟧ ρ σ) (ρ vj)

  It needs three facts that are not available in the shared lemma files today:
    (a) `grad_wf      : WF e → WF (Py.grad v e)`
    (b) `grad_regular : Regular ρ σ e → Regular ρ σ (Py.grad v e)`
    (c) `regular_open : Regular ρ σ e → ∀ᶠ t in 𝓝 (ρ v), Regular (ρ[v ↦ t]) σ e`
        (prototype: notes/prototypes/regular_open_along_lines.lean)
  The theorem below is the statement with exactly (a), (b), (c) as hypotheses, proved from the C02
  theorem used twice.  Equality of the *mirrored* lower triangle with the true mixed partial is
  Schwarz' theorem (`ContDiffAt.isSymmSndFDerivAt`), not proved here (tested numerically by c17.py).
-/
theorem hess_second_partial_partial (e : Expr) (vi vj : Var) (ρ : String → ℝ) (σ : Nat → ℝ)
    (hwf : WF e)
    (hwf' : WF (grad vi e))                                          -- (a)
    (hreg' : Regular ρ σ (grad vi e))                                -- (b)
    (hopen : ∀ᶠ t in nhds (ρ vj.name), Regular (Function.update ρ vj.name t) σ e) :   -- (c)
    HasDerivAt
      (fun t => deriv (fun s => denote (Function.update (Function.update ρ vj.name t) vi.name s) σ e)
                  ((Function.update ρ vj.name t) vi.name))
      (denote ρ σ (hessEntry e vi vj)) (ρ vj.name) := by
  have h2 := Optyx.Props.C02.grad_hasDerivAt (grad vi e) vj ρ σ hwf' hreg'
  refine h2.congr_of_eventuallyEq ?_
  filter_upwards [hopen] with t ht
  exact (Optyx.Props.C02.grad_hasDerivAt e vi (Function.update ρ vj.name t) σ hwf ht).deriv

/-- **C17, true second partial derivative.**  At every regular point of a well-formed expression the
    symbolic Hessian entry `gradient(gradient(e, vi), vj)` is the iterated partial derivative
    ∂/∂vj (∂⟦e⟧/∂vi): C02 twice, with `grad_wf`, `grad_regular` (a regular point of `e` is a regular
    point of its derivative) and `regular_open` (regularity is open along coordinate lines), so no
    hypothesis beyond `WF e` and `Regular ρ σ e` remains.  (That the mirrored lower triangle equals the
    derivative taken in the other order is Schwarz' theorem: `hess_symmetric` below.) -/
theorem hess_second_partial (e : Expr) (vi vj : Var) (ρ : String → ℝ) (σ : Nat → ℝ)
    (hwf : WF e) (hreg : Regular ρ σ e) :
    HasDerivAt
      (fun t => deriv (fun s => denote (Function.update (Function.update ρ vj.name t) vi.name s) σ e)
                  ((Function.update ρ vj.name t) vi.name))
      (denote ρ σ (hessEntry e vi vj)) (ρ vj.name) :=
  Optyx.hessEntry_second_partial e vi vj ρ σ hwf hreg

/-- **Schwarz for the symbolic Hessian**: at a regular point the two orders of differentiation have
    the same value, `⟦gradient(gradient(e, va), vb)⟧ = ⟦gradient(gradient(e, vb), va)⟧` (variables with
    different names).  Proved from: the meaning of `e` on the two-variable slice is C² at regular points
    (`Lemmas/Smooth`, induction over all 17 node kinds), regularity is open (`Lemmas/SmoothOpen`), the C02
    theorem at every nearby point, and Mathlib's `ContDiffAt.isSymmSndFDerivAt`. -/
theorem hess_symmetric (e : Expr) (va vb : Var) (hab : va.name ≠ vb.name) (ρ : String → ℝ) (σ : Nat → ℝ)
    (hwf : WF e) (hreg : Regular ρ σ e) :
    denote ρ σ (hessEntry e va vb) = denote ρ σ (hessEntry e vb va) :=
  Optyx.hessEntry_symm e va vb hab ρ σ hwf hreg

/-- **Every entry of every compiled Hessian, in its own order.**  Whatever closure `compile_hessian`
    returns (six diagonal fast paths or `hessian_fn`, whose lower triangle is *mirrored* from the upper
    one), entry `(i, j)` of the matrix at a regular point `x` is the value of
    `gradient(gradient(e, V[i]), V[j])` — also for `i > j`, by `hess_symmetric` — for any order /
    superset `V` with distinct names. -/
theorem compileHessian_entries (σ : Nat → ℝ) (e : Expr) (V : List Var) (x : List ℝ)
    (hnd : (names V).Nodup) (hx : x.length = V.length) (hwf : WF e) (hreg : Regular (envOf V x) σ e)
    (clo : HessClo) (h : compileHessian e V = .ok clo) (i j : Nat) (hi : i < V.length) (hj : j < V.length) :
    entry? (clo.run x σ) i j = some (denote (envOf V x) σ (hessEntry e V[i] V[j])) :=
  compileHessian_entries_all σ hnd x hx e hwf hreg h hi hj

/-- **C17, full statement**: entry `(i, j)` of the compiled Hessian at a regular point is the true
    second partial derivative `∂/∂V[j] (∂⟦e⟧/∂V[i])`, and the matrix is symmetric — both triangles,
    every closure kind, any declared order. -/
theorem compileHessian_true_second_partial (σ : Nat → ℝ) (e : Expr) (V : List Var) (x : List ℝ)
    (hnd : (names V).Nodup) (hx : x.length = V.length) (hwf : WF e) (hreg : Regular (envOf V x) σ e)
    (clo : HessClo) (h : compileHessian e V = .ok clo) (i j : Nat) (hi : i < V.length) (hj : j < V.length) :
    ∃ d, entry? (clo.run x σ) i j = some d ∧ entry? (clo.run x σ) j i = some d ∧
      HasDerivAt
        (fun t => deriv (fun s => denote (Function.update (Function.update (envOf V x) V[j].name t) V[i].name s) σ e)
                    ((Function.update (envOf V x) V[j].name t) V[i].name))
        d (x.getD j 0) := by
  refine ⟨_, compileHessian_entries σ e V x hnd hx hwf hreg clo h i j hi hj, ?_, ?_⟩
  · rw [← compileHessian_symm e V clo h x σ i j]
    exact compileHessian_entries σ e V x hnd hx hwf hreg clo h i j hi hj
  · have := hess_second_partial e V[i] V[j] (envOf V x) σ hwf hreg
    rwa [envOf_self hnd x hj] at this

/-! ### non-vacuity -/

private def x0 : Var := ⟨"x[0]", 1⟩
private def x1 : Var := ⟨"x[1]", 2⟩
private def x2 : Var := ⟨"x[2]", 3⟩
private def a : Var := ⟨"a", 4⟩
private def vx : VVar := ⟨"x", 10, [x0, x1, x2]⟩

example : (compileHessian (.powSum vx 3) [x0, x1, x2]).toOption.map HessClo.name
    = some "hess_power_general" := by decide
example : (compileHessian (.unSum vx .log) [x2, a, x0, x1]).toOption.map HessClo.name
    = some "hess_log_sparse" := by decide
example : (compileHessian (.bin .mul (.var x0) (.var x1)) [x1, x0]).toOption.map HessClo.name
    = some "hessian_fn" := by decide
example : (names [x2, a, x0, x1]).Nodup := by decide
/-- hypotheses (a)–(c) are satisfiable: `e = x0 * x1`, `vi = x0`, `vj = x1` -/
example : WF (grad x0 (.bin .mul (.var x0) (.var x1))) ∧
    Regular (fun _ => (1:ℝ)) (fun _ => 0) (grad x0 (.bin .mul (.var x0) (.var x1))) := by
  constructor <;> simp [grad, Optyx.Generated.binaryRule, Optyx.Generated.sAdd, Optyx.Generated.sMul,
    Optyx.Generated.isZero, Optyx.Generated.isOne, Expr.c, x0, x1, WF, Regular]

end Optyx.Props.C17
