/-
  Optyx.Props.PinsC13 — transcription anchors of C13 (harness/source_pins.py).
  Each theorem says: the function the hand-written model of C13 was read from has, in the source of this run,
  the fingerprint of the text it was read from.  Rewritten only by `source_pins.py --update` after a reviewed change.
-/
import Optyx.Generated.PinsC13

namespace Optyx.Props.PinsC13
open Optyx.Generated.PinsC13

/-- `Problem._validate_expression` (problem.py) -/
theorem pin_problem_Problem_validate_expression_anchor : pin_problem_Problem_validate_expression = "c1cde4a100b85f9c" := rfl
/-- `Problem._validate_constraint` (problem.py) -/
theorem pin_problem_Problem_validate_constraint_anchor : pin_problem_Problem_validate_constraint = "86c81ec384d8e567" := rfl
/-- `Problem._only_simple_bounds` (problem.py) -/
theorem pin_problem_Problem_only_simple_bounds_anchor : pin_problem_Problem_only_simple_bounds = "db45e87281100d80" := rfl
/-- `Problem._has_equality_constraints` (problem.py) -/
theorem pin_problem_Problem_has_equality_constraints_anchor : pin_problem_Problem_has_equality_constraints = "56258a35419a78c5" := rfl
/-- `Problem.summary` (problem.py) -/
theorem pin_problem_Problem_summary_anchor : pin_problem_Problem_summary = "bbcdac853c42d5a8" := rfl
/-- `Problem.solve` (problem.py) -/
theorem pin_problem_Problem_solve_anchor : pin_problem_Problem_solve = "f4e2acd2b640d4bc" := rfl
/-- `solve_scipy` (solvers/scipy_solver.py) -/
theorem pin_scipy_solver_solve_scipy_anchor : pin_scipy_solver_solve_scipy = "e7c69a3a73fa09d9" := rfl
/-- `solve_lp` (solvers/lp_solver.py) -/
theorem pin_lp_solver_solve_lp_anchor : pin_lp_solver_solve_lp = "244fed8ae6b2b560" := rfl

/-- every function the model of C13 transcribes (and no translator covers) is the one it was read from -/
theorem anchors : pin_problem_Problem_validate_expression = "c1cde4a100b85f9c" ∧ pin_problem_Problem_validate_constraint = "86c81ec384d8e567" ∧ pin_problem_Problem_only_simple_bounds = "db45e87281100d80" ∧ pin_problem_Problem_has_equality_constraints = "56258a35419a78c5" ∧ pin_problem_Problem_summary = "bbcdac853c42d5a8" ∧ pin_problem_Problem_solve = "f4e2acd2b640d4bc" ∧ pin_scipy_solver_solve_scipy = "e7c69a3a73fa09d9" ∧ pin_lp_solver_solve_lp = "244fed8ae6b2b560" :=
  ⟨pin_problem_Problem_validate_expression_anchor, pin_problem_Problem_validate_constraint_anchor, pin_problem_Problem_only_simple_bounds_anchor, pin_problem_Problem_has_equality_constraints_anchor, pin_problem_Problem_summary_anchor, pin_problem_Problem_solve_anchor, pin_scipy_solver_solve_scipy_anchor, pin_lp_solver_solve_lp_anchor⟩

end Optyx.Props.PinsC13
