/-
  Optyx.Props.VarsTie — the loop body of `_try_get_single_vector_source` (problem.py), the shortcut test of
  `Problem.variables`, as the model has it (`Py.Api.svsVisit`, one call per popped node) is the function translated from
  the source on every run (`Generated/SvsStep.lean`, harness/py2lean_state.gen_svs): which node kinds end the search,
  which contribute a candidate vector (compared by *object identity*), what is pushed and in which order.
-/
import Optyx.Py.ProblemVars
import Optyx.Generated.SvsStep

namespace Optyx.Props.VarsTie
open Optyx Optyx.Py.Api Optyx.Generated

theorem svsVisit_eq (found : Option VVar) (e : Expr) : svsVisit found e = svsVisitG found e := by
  cases e <;> (try rfl)
  case linComb cs v => cases v <;> cases found <;> simp [svsVisit, svsVisitG, svsCandidate]
  case vecSum v => cases found <;> simp [svsVisit, svsVisitG, svsCandidate]
  case powSum v k => cases found <;> simp [svsVisit, svsVisitG, svsCandidate]
  case unSum v op => cases found <;> simp [svsVisit, svsVisitG, svsCandidate]
  case dot l r =>
    cases l <;> cases r <;> cases found <;> simp [svsVisit, svsVisitG, svsCandidate]

/-- initial stack, initial `found_source`, and the read-out after the loop -/
theorem svsFrame_text :
    svsFrameG = ["stack: list[Expression] = [expr]", "found_source: VectorVariable | None = None", "return found_source"] := by
  decide

/-- consequently the whole search is determined by the translated loop body -/
theorem svsRun_eq (fuel : Nat) (stack : List Expr) (found : Option VVar) :
    svsRun fuel stack found =
      (match fuel, stack with
       | _, [] => .finished found
       | 0, _ :: _ => .outOfFuel
       | k + 1, cur :: rest =>
         match svsVisitG found cur with
         | none => .notSingle
         | some (found', pushed) => svsRun k (pushed.reverse ++ rest) found') := by
  cases fuel with
  | zero => cases stack <;> simp [svsRun]
  | succ k =>
    cases stack with
    | nil => simp [svsRun]
    | cons cur rest =>
      simp only [svsRun, svsVisit_eq]
      cases svsVisitG found cur with
      | none => rfl
      | some p => rfl

/-- the shortcut test of `Problem.variables` in the model is the translated one -/
theorem shortcutSource_eq (obj : Option Expr) (cons : List Expr) :
    shortcutSource obj cons = shortcutG singleVectorSource obj cons := by
  unfold shortcutSource shortcutG
  cases obj with
  | none => rfl
  | some o =>
    simp only
    cases singleVectorSource o with
    | none => rfl
    | some src =>
      simp only
      have h : ∀ c, (match singleVectorSource c with
                      | some s => s.oid == src.oid
                      | none => false)
           = !((singleVectorSource c).isNone ||
                (match singleVectorSource c with | some s => s.oid != src.oid | none => true)) := by
        intro c
        cases singleVectorSource c with
        | none => rfl
        | some s => cases hs : (s.oid == src.oid) <;> simp [bne, hs]
      congr 1
      congr 1
      apply List.all_congr rfl
      intro c
      exact h c

/-- the general path of `Problem.variables`: the union over objective and constraints through `get_all_variables`,
    sorted by `_natural_sort_key`, stored in the memo slot and returned -/
theorem generalPath_text :
    generalPathG = ["all_vars: set[Variable] = set()",
      "if self._objective is not None: all_vars.update(get_all_variables(self._objective))",
      "for constraint in self._constraints: all_vars.update(get_all_variables(constraint.expr))",
      "self._variables = sorted(all_vars, key=_natural_sort_key)", "return self._variables"] := by decide

end Optyx.Props.VarsTie
