/-
  Optyx.Props.VarsTie — the loop body of `_try_get_single_vector_source` (problem.py), the shortcut test of
  `Problem.variables`, as the model has it (`Py.Api.svsVisit`, one call per popped node) is the function translated from
  the source on every run (`Generated/SvsStep.lean`, harness/py2lean_state.gen_svs): which node kinds end the search,
  which contribute a candidate vector (compared by *object identity*), what is pushed and in which order.
-/
import Optyx.Py.ProblemVars
import Optyx.Generated.SvsStep

namespace Optyx.Props.VarsTie
open Optyx Optyx.Py.Api Optyx.Generated

theorem svsVisit_eq (found : Option VVar) (e : Expr) : svsVisit found e = svsVisitG found e := by
  cases e <;> (try rfl)
  case linComb cs v => cases v <;> cases found <;> simp [svsVisit, svsVisitG, svsCandidate]
  case vecSum v => cases found <;> simp [svsVisit, svsVisitG, svsCandidate]
  case powSum v k => cases found <;> simp [svsVisit, svsVisitG, svsCandidate]
  case unSum v op => cases found <;> simp [svsVisit, svsVisitG, svsCandidate]
  case dot l r =>
    cases l <;> cases r <;> cases found <;> simp [svsVisit, svsVisitG, svsCandidate]

/-- initial stack, initial `found_source`, and the read-out after the loop -/
theorem svsFrame_text :
    svsFrameG = ["stack: list[Expression] = [expr]", "found_source: VectorVariable | None = None", "return found_source"] := by
  decide

/-- consequently the whole search is determined by the translated loop body -/
theorem svsRun_eq (fuel : Nat) (stack : List Expr) (found : Option VVar) :
    svsRun fuel stack found =
      (match fuel, stack with
       | _, [] => .finished found
       | 0, _ :: _ => .outOfFuel
       | k + 1, cur :: rest =>
         match svsVisitG found cur with
         | none => .notSingle
         | some (found', pushed) => svsRun k (pushed.reverse ++ rest) found') := by
  cases fuel with
  | zero => cases stack <;> simp [svsRun]
  | succ k =>
    cases stack with
    | nil => simp [svsRun]
    | cons cur rest =>
      simp only [svsRun, svsVisit_eq]
      cases svsVisitG found cur with
      | none => rfl
      | some p => rfl

end Optyx.Props.VarsTie
