/-
  Optyx.Props.GradIterTie — the machine step of the explicit-stack differentiator in the model (`Py.gstep`, the function
  `C15.gradIter_eq` is about) makes exactly the control decisions translated from the loop body of `_gradient_iterative`
  on every run (`Generated/GradIterCtl.lean`, harness/py2lean_graditer.py): when a BinaryOp / UnaryOp node is computed from
  `results[...]` (raising KeyError for an absent child) and when it is re-pushed with phase 1 followed by exactly its missing
  children, right before left.  The per-operator rules are `Generated.binaryRuleIter / unaryRuleIter` (C02.rulesIter_eq).
-/
import Optyx.Py.GradIter
import Optyx.Generated.GradIterCtl

namespace Optyx.Props.GradIterTie
open Optyx Optyx.Py Optyx.Generated

/-- a stack entry named by the translated control (`node:phase`) -/
def decodeBin (t l r : ITree) : String → Option (ITree × Nat)
  | "self:1" => some (t, 1)
  | "left:0" => some (l, 0)
  | "right:0" => some (r, 0)
  | _ => none

def decodeUn (t a : ITree) : String → Option (ITree × Nat)
  | "self:1" => some (t, 1)
  | "operand:0" => some (a, 0)
  | _ => none

/-- `stack.append` in the given order: the last pushed entry is the new top (list head) -/
def pushAll (rest : List (ITree × Nat)) (es : List (ITree × Nat)) : List (ITree × Nat) :=
  es.foldl (fun stk e => e :: stk) rest

/-- BinaryOp nodes -/
theorem gstep_bin (wrt : Var) (res : GRes) (rest : List (ITree × Nat)) (i : Nat) (op : BinOp) (l r : ITree) (ph : Nat)
    (hnew : (glook res i).isSome = false) :
    gstep wrt ⟨(.bin i op l r, ph) :: rest, res⟩ =
      (match gradIterBinCtlG ph (glook res l.id).isSome (glook res r.id).isSome with
       | .compute => do
           let dl ← gget res l.id
           let dr ← gget res r.id
           pure ⟨rest, (i, binaryRuleIter op l.erase r.erase dl dr (Expr.bin op l.erase r.erase)) :: res⟩
       | .push es => .ok ⟨pushAll rest (es.filterMap (decodeBin (.bin i op l r) l r)), res⟩) := by
  have hid : (ITree.bin i op l r).id = i := rfl
  unfold gstep
  simp only [hid, hnew, Bool.false_eq_true, if_false]
  unfold gradIterBinCtlG gget
  by_cases hp : ph = 0
  · subst hp
    cases hl : glook res l.id <;> cases hr : glook res r.id <;>
      simp [pushAll, decodeBin, bind, Except.bind, pure, Except.pure]
  · have : (ph == 0) = false := by simpa using hp
    simp [this]

/-- UnaryOp nodes -/
theorem gstep_un (wrt : Var) (res : GRes) (rest : List (ITree × Nat)) (i : Nat) (op : UnOp) (a : ITree) (ph : Nat)
    (hnew : (glook res i).isSome = false) :
    gstep wrt ⟨(.un i op a, ph) :: rest, res⟩ =
      (match gradIterUnCtlG ph (glook res a.id).isSome with
       | .compute => do
           let d ← gget res a.id
           pure ⟨rest, (i, unaryRuleIter op a.erase d (Expr.un op a.erase)) :: res⟩
       | .push es => .ok ⟨pushAll rest (es.filterMap (decodeUn (.un i op a) a)), res⟩) := by
  have hid : (ITree.un i op a).id = i := rfl
  unfold gstep
  simp only [hid, hnew, Bool.false_eq_true, if_false]
  unfold gradIterUnCtlG gget
  by_cases hp : ph = 0
  · subst hp
    cases ha : glook res a.id <;> simp [pushAll, decodeUn, bind, Except.bind, pure, Except.pure]
  · have : (ph == 0) = false := by simpa using hp
    simp [this]

/-- a node whose id is already a key of `results` is skipped -/
theorem gstep_seen (wrt : Var) (res : GRes) (rest : List (ITree × Nat)) (t : ITree) (ph : Nat)
    (h : (glook res t.id).isSome = true) : gstep wrt ⟨(t, ph) :: rest, res⟩ = .ok ⟨rest, res⟩ := by
  unfold gstep
  simp [h]

/-- the order of the tests of the loop body and what the leaf branches store (`atomGrad` of the model) -/
theorem gradIterOrder_text :
    gradIterOrderG = [("seen", "continue"), ("rule", "apply_gradient_rule(current, wrt)"), ("Constant", "Constant(0.0)"),
      ("Parameter", "Constant(0.0)"), ("Var", "Constant(1.0) if current.name == wrt.name else Constant(0.0)"),
      ("BinaryOp", "control + binaryRuleIter"), ("UnaryOp", "control + unaryRuleIter"), ("else", "raise")] := by decide

theorem gradIterFrame_text :
    gradIterFrameG = ["if has_gradient_rule(expr): return apply_gradient_rule(expr, wrt)",
      "stack: list[tuple[Expression, int, list[Expression]]] = [(expr, 0, [])]", "results: dict[int, Expression] = {}",
      "return results.get(id(expr), Constant(0.0))"] := by decide

end Optyx.Props.GradIterTie
