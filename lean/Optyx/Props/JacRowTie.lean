/-
  Optyx.Props.JacRowTie — `Py.jacRow` (the per-node Jacobian-row shortcut `compute_jacobian` tries before falling back to
  `gradient`) is the function harness/py2lean.py translates from the *current* `jacobian_row` methods of every node class:
  `BinaryOp.jacobian_row` (`Generated.binJacRow`, as before) and — whole bodies, with their dict / set look-ups by
  `Variable.__hash__/__eq__` = name — those of VectorSum, VectorExpressionSum, DotProduct, LinearCombination,
  VectorPowerSum, VectorUnarySum (vectors.py), MatrixSum, QuadraticForm (matrices.py); every other class inherits
  `Expression.jacobian_row`, checked to be `return None`.
-/
import Optyx.Py.Jacobian
import Optyx.Generated.JacRowVec

namespace Optyx.Props.JacRowTie
open Optyx Optyx.Py Optyx.Py.Jac Optyx.Generated

theorem dotRow_eq (V : List Var) (l r : VVar) : some (dotRow V l r) = dotRowG V (.vars l) (.vars r) := by
  simp only [dotRow, dotRowG]
  split
  · rfl
  · congr 1
    apply List.map_congr_left
    intro x _
    cases dictGet x.name (l.vars.zip r.vars) <;> cases dictGet x.name (r.vars.zip l.vars) <;> simp

/-- `e.jacobian_row(V)` as the source has it now -/
theorem jacRow_step (V : List Var) (e : Expr) : jacRow V e = jacRowStepG V (jacRow V) e := by
  cases e with
  | bin op l r => simp [jacRow, jacRowStepG]
  | linComb cs v => cases v <;> simp [jacRow, jacRowStepG, linCombRowG]
  | vecSum v => simp [jacRow, jacRowStepG, vecSumRowG]
  | dot l r =>
    cases l <;> cases r <;> simp only [jacRow, jacRowStepG] <;> (try (simp [dotRowG]; done))
    exact dotRow_eq V _ _
  | quad v q =>
    cases v with
    | exprs es => simp [jacRow, jacRowStepG, quadRowG]
    | vars vv =>
      simp only [jacRow, jacRowStepG, quadRowG]
      congr 1
      apply List.map_congr_left
      intro x _
      cases dictGet x.name vv.vars.zipIdx <;> simp
  | powSum v k => simp [jacRow, jacRowStepG, powSumRowG, powRowEntry]
  | unSum v op => simp [jacRow, jacRowStepG, unSumRowG]
  | matSumV m => simp [jacRow, jacRowStepG, matSumVRowG, Expr.c]
  | matSumE es => simp [jacRow, jacRowStepG, matSumERowG]
  | exprSum es => simp [jacRow, jacRowStepG, exprSumRowG]
  | _ => simp [jacRow, jacRowStepG]

/-- uniqueness: the only recursion of `jacobian_row` is `BinaryOp`'s call on its operands -/
theorem step_unique (V : List Var) (f : Expr → Option (List Expr)) (hf : ∀ e, f e = jacRowStepG V f e) :
    (e : Expr) → f e = jacRow V e
  | .bin op l r => by
    rw [hf, jacRow_step]; simp only [jacRowStepG]; rw [step_unique V f hf l, step_unique V f hf r]
  | .const c => by rw [hf, jacRow_step]; rfl
  | .var x => by rw [hf, jacRow_step]; rfl
  | .param p => by rw [hf, jacRow_step]; rfl
  | .un op a => by rw [hf, jacRow_step]; rfl
  | .linComb cs v => by rw [hf, jacRow_step]; rfl
  | .vecSum v => by rw [hf, jacRow_step]; rfl
  | .exprSum es => by rw [hf, jacRow_step]; rfl
  | .dot l r => by rw [hf, jacRow_step]; rfl
  | .l2 v => by rw [hf, jacRow_step]; rfl
  | .l1 v => by rw [hf, jacRow_step]; rfl
  | .quad v q => by rw [hf, jacRow_step]; rfl
  | .powSum v k => by rw [hf, jacRow_step]; rfl
  | .unSum v op => by rw [hf, jacRow_step]; rfl
  | .matSumV m => by rw [hf, jacRow_step]; rfl
  | .matSumE es => by rw [hf, jacRow_step]; rfl
  | .frob m => by rw [hf, jacRow_step]; rfl

end Optyx.Props.JacRowTie
