/-
  C05 — the extracted LP is the model the user wrote.

  Property theorems only; proofs are in `Lemmas/CoeffsBasic.lean`, `Lemmas/CoeffsSound.lean`,
  `Lemmas/CoeffsLP.lean`.  The executable model (`Py.extractAll`, `Py.extractConstantTerm`,
  `Py.coeffsGeneral`, `Py.extractLP`, over exact rationals, exceptions as `Except Err`) is
  `Py/Coeffs.lean`; meanings are over ℝ (`NumAlg ℝ`); `wsum cs xs = Σ_i cs[i] · xs[i]`, and
  `V.map ρ` is the point `x` with `x[i] = ρ (V[i])`.

  Hypotheses (what each one excludes is stated in the builder's report):
  * `V.Nodup`            — no two problem variables share a name (`Problem.variables` is a sorted *set*);
  * `VarsIn V e`         — every variable of `e` is a problem variable (else the walker drops it);
  * `shortcutInv V e`    — a vector operand that passes the shortcut tests `len == n` and
                            `first index == 0` lists exactly the problem variables in order
                            (`vecInv_of_monotone`: true for every strictly monotone view), and a
                            `LinearCombination` has as many coefficients as elements (its constructor
                            raises otherwise);
  * success of the extraction (`= .ok …`): `NonLinearError`, `ZeroDivisionError` (`x / Constant(0)`),
    `NoObjectiveError` are modelled as `.error`, so `NoConstDivZero` is not needed separately.
-/
import Optyx.Props.Glue
import Optyx.Lemmas.CoeffsLP
import Optyx.Lemmas.CoeffsTotal
import Optyx.Drive.Analysis
import Optyx.Props.LPTie

namespace Optyx.Props.C05
open Optyx Optyx.Py NumAlg

/-- the coefficient row and the constant extracted from a linear expression reproduce it:
    ⟦e⟧ ρ = Σ_i cs[i] · ρ(V[i]) + k  at every point (and the row has one entry per variable). -/
theorem coeffs_sound (e : Expr) (V : List String) (cs : List Rat) (k : Rat)
    (hn : V.Nodup) (hv : VarsIn V e) (hinv : shortcutInv V e = true)
    (h : Py.extractAll e V = .ok cs) (hk : Py.extractConstantTerm e = .ok k) :
    cs.length = V.length ∧
      ∀ (ρ : String → ℝ) (σ : Nat → ℝ), denote ρ σ e = wsum cs (V.map ρ) + (k : ℝ) :=
  extractAll_sound hn ⟨hv, hinv⟩ h hk

/-- the same for the general walker alone (`_extract_all_coefficients_impl` from a zero array):
    needs neither distinct names nor the shortcut invariant. -/
theorem walker_sound (e : Expr) (V : List String) (cs : List Rat) (k : Rat)
    (hlin : Py.isLinear e = true) (hv : VarsIn V e)
    (h : Py.coeffsGeneral e V = .ok cs) (hk : Py.constTerm e = .ok k) :
    cs.length = V.length ∧
      ∀ (ρ : String → ℝ) (σ : Nat → ℝ), denote ρ σ e = wsum cs (V.map ρ) + (k : ℝ) :=
  coeffsGeneral_sound hlin hv h hk

/-- `walker_sound` for **whatever functions the current source defines**: `K` and `W` are any functions satisfying
    the equations harness/py2lean.py reads off the bodies of `_extract_constant_impl` and
    `_extract_all_coefficients_impl` on this run (`Generated.constStepG`, `Generated.walkStepG`; recursive calls are
    calls of `K` / `W`, the in-place `result[idx] += …` is the threaded list).  By `LPTie.const_unique` /
    `LPTie.walk_unique` these are `Py.constTerm` and `Py.walk V`. -/
theorem walker_sound_of_source_equations (V : List String)
    (K : Expr → Except Py.Err Rat) (hK : ∀ e, K e = Generated.constStepG K e)
    (W : Expr → List Rat → Rat → Except Py.Err (List Rat))
    (hW : ∀ e r m, W e r m = Generated.walkStepG V K W e r m)
    (e : Expr) (cs : List Rat) (k : Rat)
    (hlin : Py.isLinear e = true) (hv : VarsIn V e)
    (h : W e (List.replicate V.length 0) 1 = .ok cs) (hk : K e = .ok k) :
    cs.length = V.length ∧
      ∀ (ρ : String → ℝ) (σ : Nat → ℝ), denote ρ σ e = wsum cs (V.map ρ) + (k : ℝ) := by
  rw [LPTie.walk_unique K hK V W hW] at h
  rw [LPTie.const_unique K hK] at hk
  exact walker_sound e V cs k hlin hv h hk

/-- the hypotheses are satisfiable: the models solve the equations -/
theorem lp_source_equations_solvable (V : List String) :
    (∀ e, Py.constTerm e = Generated.constStepG Py.constTerm e) ∧
    (∀ x e, Py.coeffOne x e = Generated.coeffStepG x Py.constTerm (Py.coeffOne x) e) ∧
    (∀ e r m, Py.walk V e r m = Generated.walkStepG V Py.constTerm (Py.walk V) e r m) :=
  ⟨LPTie.constTerm_step, LPTie.coeffOne_step, LPTie.walk_step V⟩

-- non-vacuity: −(2·x + (y[0] + y[1]) − 3/2) over V = [x, y[0], y[1]] (general walker), and the
-- VectorSum shortcut of `_try_extract_fast_binop` firing on V = [y[0], y[1]]
example :
    let y : VVar := ⟨"y", 2, [⟨"y[0]", 3⟩, ⟨"y[1]", 4⟩]⟩
    let e : Expr := .un .neg (.bin .sub (.bin .add (.bin .mul (Expr.c 2) (.var ⟨"x", 1⟩)) (.vecSum y)) (Expr.c (3/2)))
    let V := ["x", "y[0]", "y[1]"]
    V.Nodup ∧ VarsIn V e ∧ shortcutInv V e = true ∧
      Py.extractAll e V = .ok [-2, -1, -1] ∧ Py.extractConstantTerm e = .ok (3/2) := by
  intro y e V
  refine ⟨by decide, by unfold VarsIn; decide, by decide, ?_, ?_⟩
  · simp [e, V, y, extractAll, isLinear, degree, coeffsGeneral, walk, Expr.c, cstRat, bind, Except.bind,
      addName, varIndex, varIndexFrom, addAt, walkVars]
  · simp [e, extractConstantTerm, isLinear, degree, constTerm, Expr.c, cstRat, bind, Except.bind, pure,
      Except.pure]

example :
    let y : VVar := ⟨"y", 2, [⟨"y[0]", 3⟩, ⟨"y[1]", 4⟩]⟩
    let e : Expr := .bin .sub (.vecSum y) (Expr.c 3)
    let V := ["y[0]", "y[1]"]
    V.Nodup ∧ shortcutInv V e = true ∧ Py.fastBinop V .sub (.vecSum y) (Expr.c 3) = .ok (some [1, 1]) ∧
      Py.extractAll e V = .ok [1, 1] := by
  refine ⟨by decide, by decide, by decide, by decide⟩

-- non-vacuity with `VectorPowerSum` nodes: (y ** 1).sum() − (y ** 0).sum() = y[0] + y[1] − 2
example :
    let y : VVar := ⟨"y", 2, [⟨"y[0]", 3⟩, ⟨"y[1]", 4⟩]⟩
    let e : Expr := .bin .sub (.powSum y 1) (.powSum y 0)
    let V := ["y[0]", "y[1]"]
    V.Nodup ∧ VarsIn V e ∧ shortcutInv V e = true ∧
      Py.extractAll e V = .ok [1, 1] ∧ Py.extractConstantTerm e = .ok (-2) := by
  intro y e V
  have hf : Py.fastBinop V .sub (.powSum y 1) (.powSum y 0) = .ok none := by
    unfold Py.fastBinop; simp [pure, Except.pure]
  refine ⟨by decide, by unfold VarsIn; decide, by decide, ?_, ?_⟩
  · simp [e, V, y, extractAll, hf, isLinear, degree, ratNat, coeffsGeneral, walk, bind, Except.bind,
      addName, varIndex, varIndexFrom, addAt, walkVars]
  · simp [e, y, extractConstantTerm, isLinear, degree, ratNat, constTerm, bind, Except.bind, pure, Except.pure]

/-- the statement in "for every well-formed linear expression" form: the extraction does not raise
    (`extractWF`: rational constants, **no division by the literal `Constant(0)`** — there Python
    raises `ZeroDivisionError`, `Py.extractAll = .error .zeroDiv` —, coefficient arrays as long as
    their vectors, non-empty vector variables) and what it returns reproduces the expression. -/
theorem coeffs_sound_total (e : Expr) (V : List String)
    (hlin : Py.isLinear e = true) (hn : V.Nodup) (hv : VarsIn V e) (hw : extractWF e = true)
    (hinv : shortcutInv V e = true) :
    ∃ cs k, Py.extractAll e V = .ok cs ∧ Py.extractConstantTerm e = .ok k ∧ cs.length = V.length ∧
      ∀ (ρ : String → ℝ) (σ : Nat → ℝ), denote ρ σ e = wsum cs (V.map ρ) + (k : ℝ) := by
  obtain ⟨cs, hcs⟩ := extractAll_total V hlin hw
  obtain ⟨k, hk⟩ := extractConstantTerm_total hlin hw
  obtain ⟨h1, h2⟩ := coeffs_sound e V cs k hn hv hinv hcs hk
  exact ⟨cs, k, hcs, hk, h1, h2⟩

/-- a linear problem whose expressions are well formed is always extracted (no exception) -/
theorem extractLP_total (p : LPProblem) (obj : Expr) (ho : p.objective = some obj)
    (hobj : Py.isLinear obj = true ∧ extractWF obj = true)
    (hcons : ∀ c ∈ p.constraints, Py.isLinear c.1 = true ∧ extractWF c.1 = true) :
    ∃ lp, Py.extractLP p = .ok lp :=
  Optyx.extractLP_total p obj ho hobj hcons

/-- `x / Constant(0)`: never a silent LP row — the coefficient extraction raises
    `ZeroDivisionError` (`multiplier / float(0)`), whatever the numerator and the variable order. -/
theorem div_zero_raises (l : Expr) (V : List String)
    (hlin : Py.isLinear (.bin .div l (.const (.rat 0))) = true) :
    Py.extractAll (.bin .div l (.const (.rat 0))) V = .error .zeroDiv := by
  have hf : Py.fastBinop V .div l (.const (.rat 0)) = .ok none := by
    unfold Py.fastBinop
    simp [pure, Except.pure]
  simp [Py.extractAll, hlin, hf, Py.coeffsGeneral, Py.walk, Py.cstRat, Py.ratDiv, bind, Except.bind]

/-- each O(1) shortcut of `extract_all_linear_coefficients` (VectorSum, LinearCombination, and the
    four `BinaryOp` forms of `_try_extract_fast_binop`) returns exactly what the general walker
    returns, provided the invariant the code only half-checks holds (`shortcutInv`). -/
theorem shortcuts_eq_general (e : Expr) (V : List String) (cs : List Rat)
    (hn : V.Nodup) (hinv : shortcutInv V e = true) (h : Py.extractAll e V = .ok cs) :
    Py.coeffsGeneral e V = .ok cs :=
  (extractAll_eq_general hn hinv h).2

/-- the size condition of a `LinearCombination` over a `VectorVariable` (what its constructor checks) -/
def lcSizes : Expr → Bool
  | .linComb cs (.vars vv) => cs.length == vv.vars.length
  | _ => true

/-- … at the positions where the shortcuts look -/
def shortcutSizes : Expr → Bool
  | .bin _ l r => lcSizes l && lcSizes r
  | e => lcSizes e

/-- **After the repair F35** (`_vector_is_aligned` checks every position, not only the first) the invariant the
    shortcuts rely on is nothing but the size check of the constructors: the vector part holds for EVERY vector.
    Before the repair it was a genuine hypothesis that only monotone views satisfied (`names_eq_of_sorted` below); a row
    of `diag_matrix(x)` violated it and `c @ D[1,:]` was extracted with permuted columns — the hypothesis the proof had
    forced was a real defect (found by a seeding sub-agent exploring C05). -/
theorem shortcutInv_iff_sizes (V : List String) (e : Expr) : shortcutInv V e = shortcutSizes e := by
  have hn : ∀ e : Expr, nodeInv V e = lcSizes e := by
    intro e
    cases e with
    | linComb cs v => cases v <;> simp [nodeInv, lcSizes, vecInv_always]
    | vecSum vv => simp [nodeInv, lcSizes, vecInv_always]
    | _ => simp [nodeInv, lcSizes]
  cases e <;> simp [shortcutInv, shortcutSizes, hn]

/-- (historical, about the pre-repair guard) the missing half of the shortcut test, proved instead of checked: a vector operand whose
    element names are strictly increasing or strictly decreasing in the order that strictly sorts
    the problem variables (every slice, row, column, diagonal of the public API), all of them
    problem variables, satisfies the invariant — if it has `n` elements and its first element is
    the first problem variable then it *is* the variable list. -/
theorem names_eq_of_sorted {lt : String → String → Prop}
    (hirr : ∀ a, ¬ lt a a) (hasym : ∀ a b, lt a b → lt b a → False)
    {V : List String} (hV : V.Pairwise lt) {vv : VVar}
    (hsub : ∀ x ∈ vv.vars.map (·.name), x ∈ V)
    (hmono : (vv.vars.map (·.name)).Pairwise lt ∨ (vv.vars.map (·.name)).Pairwise (fun a b => lt b a)) :
    vecInv V vv = true :=
  vecInv_of_monotone hirr hasym hV hsub hmono

/-- `LinearProgramExtractor().extract(P) = lp` ⇒ `lp` is the model the user wrote:
    * `lp.variables[i]` names column `i` (`= P.variables` names), `lp.bounds[i]` are the declared bounds,
      `lp.sense` is the problem's sense;
    * `c · x + c0 = ⟦objective⟧` at every point;
    * the rows of `A_ub` / `b_ub` are, in order, the `<=` and `>=` constraints, with
      `row · x − rhs = ⟦expr⟧` for `<=` and `= −⟦expr⟧` for `>=` (negated into `<=` form);
    * the rows of `A_eq` / `b_eq` are, in order, the `==` constraints, with `row · x − rhs = ⟦expr⟧`;
    * every row has one entry per variable. -/
theorem extractLP_sound (p : LPProblem) (lp : LPData) (hn : p.names.Nodup)
    (hobj : ∀ obj, p.objective = some obj → ExprOK p.names obj)
    (hcons : ∀ c ∈ p.constraints, ExprOK p.names c.1)
    (h : Py.extractLP p = .ok lp) :
    lp.variables = p.names ∧
    lp.bounds = p.vars.map (fun v => (v.lb, v.ub)) ∧
    lp.maximize = p.maximize ∧
    (∃ obj, p.objective = some obj ∧ lp.c.length = p.names.length ∧
      ∀ (ρ : String → ℝ) (σ : Nat → ℝ), wsum lp.c (p.names.map ρ) + (lp.c0 : ℝ) = denote ρ σ obj) ∧
    lp.aub.length = lp.bub.length ∧
    List.Forall₂ (RowOK p.names) (lp.aub.zip lp.bub) (p.constraints.filter fun c => !isEq c.2) ∧
    lp.aeq.length = lp.beq.length ∧
    List.Forall₂ (RowOK p.names) (lp.aeq.zip lp.beq) (p.constraints.filter fun c => isEq c.2) := by
  have s := extractLP_spec p lp hn hobj hcons h
  exact ⟨s.names, s.bounds, s.sense, s.objective, s.ubLen, s.ub, s.eqLen, s.eq⟩

-- non-vacuity: maximize −(−x − 1) = x + 1  s.t.  −(3 − x) <= 0,  −(1 − y) >= 0,  −(5 − (x + y)) == 0,
-- x ∈ [0, ∞), y ∈ (−∞, 7/2]
example :
    let x : Expr := .var ⟨"x", 1⟩
    let y : Expr := .var ⟨"y", 2⟩
    let p : LPProblem := ⟨some (.un .neg (.bin .sub (.un .neg x) (Expr.c 1))), true,
      [(.un .neg (.bin .sub (Expr.c 3) x), .le), (.un .neg (.bin .sub (Expr.c 1) y), .ge),
       (.un .neg (.bin .sub (Expr.c 5) (.bin .add x y)), .eq)],
      [⟨"x", some 0, none⟩, ⟨"y", none, some (7/2)⟩]⟩
    p.names.Nodup ∧ (∀ obj, p.objective = some obj → ExprOK p.names obj) ∧
      (∀ c ∈ p.constraints, ExprOK p.names c.1) ∧
      Py.extractLP p = .ok ⟨[1, 0], true, [[1, 0], [0, -1]], [3, -1], [[1, 1]], [5],
        [(some 0, none), (none, some (7/2))], ["x", "y"], 1⟩ := by
  intro x y p
  refine ⟨by decide, ?_, ?_, ?_⟩
  · intro obj ho
    have : obj = .un .neg (.bin .sub (.un .neg x) (Expr.c 1)) := by simpa [p] using ho.symm
    subst this
    exact ⟨by decide, by decide⟩
  · intro c hc
    simp only [p, List.mem_cons, List.not_mem_nil, or_false] at hc
    rcases hc with rfl | rfl | rfl <;> exact ⟨by decide, by decide⟩
  · simp [p, x, y, extractLP, extractObjective, extractConstraints, constraintLoop, extractBounds, LPProblem.names,
      extractAll, extractConstantTerm, isLinear, degree, coeffsGeneral, walk, constTerm, Expr.c, cstRat, bind,
      Except.bind, pure, Except.pure, addName, varIndex, varIndexFrom, addAt]

-- non-vacuity of `names_eq_of_sorted`: the reversed view x[::-1] of a two-element vector under the
-- order "x[0]" < "x[1]" is strictly decreasing; the invariant holds (the shortcut does not fire)
example :
    let lt : String → String → Prop := fun a b => a = "x[0]" ∧ b = "x[1]"
    let vv : VVar := ⟨"x[0:2]", 5, [⟨"x[1]", 2⟩, ⟨"x[0]", 1⟩]⟩
    (∀ a, ¬ lt a a) ∧ (∀ a b, lt a b → lt b a → False) ∧ ["x[0]", "x[1]"].Pairwise lt ∧
      (∀ x ∈ vv.vars.map (·.name), x ∈ ["x[0]", "x[1]"]) ∧
      (vv.vars.map (·.name)).Pairwise (fun a b => lt b a) := by
  intro lt vv
  refine ⟨?_, ?_, ?_, ?_, ?_⟩
  · rintro a ⟨h1, h2⟩; rw [h1] at h2; exact absurd h2 (by decide)
  · rintro a b ⟨h1, h2⟩ ⟨h3, h4⟩; rw [h1] at h4; exact absurd h4 (by decide)
  · simp [lt]
  · simp [vv]
  · simp [vv, lt]

end Optyx.Props.C05
