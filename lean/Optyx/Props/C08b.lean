/-
  C08 (user level) — composition of C05 and C08: for ANY contract-abiding `linprog`, the verdict
  and the optimal value optyx's LP path reports are those of the model THE USER WROTE (declared
  bounds, every constraint with its sense, the objective with its constant, in the user's
  orientation) — not merely of the extracted matrices.
-/
import Optyx.Props.Glue
import Optyx.Lemmas.LPEndToEnd

namespace Optyx.Props.C08
open Optyx Optyx.Py Optyx.LPE

theorem lp_end_to_end (linprog : LPP.LinprogArgs ℝ → LPP.LinprogResult ℝ) (hlp : LinprogContract linprog)
    (p : LPProblem) (lp : Py.LPData) (hn : p.names.Nodup)
    (hobj : ∀ obj, p.objective = some obj → ExprOK p.names obj)
    (hcons : ∀ c ∈ p.constraints, ExprOK p.names c.1)
    (h : Py.extractLP p = .ok lp) (σ : Nat → ℝ) (m : Option String) :
    let s := LPP.solveLP linprog (toLPP lp) m
    ∃ obj, p.objective = some obj ∧
      let f := fun x => denote (envOf p.names x) σ obj
      (s.status = .optimal →
        ∃ x, s.values = p.names.zip x ∧ userFeasible p σ x ∧ s.objective = some (f x) ∧
          ∀ y, userFeasible p σ y → if p.maximize then f y ≤ f x else f x ≤ f y) ∧
      (s.status = .infeasible → ∀ y, ¬ userFeasible p σ y) ∧
      (s.status = .unbounded →
        (∃ y, userFeasible p σ y) ∧
          ∀ M, ∃ y, userFeasible p σ y ∧ if p.maximize then M < f y else f y < M) := by
  intro s
  obtain ⟨hnames, hbounds, hmax, ⟨obj, ho, hclen, hoval⟩, hubl, hub, heql, heq⟩ :=
    Optyx.Props.C05.extractLP_sound p lp hn hobj hcons h
  refine ⟨obj, ho, ?_⟩
  intro f
  have hwf : WFData (toLPP lp) := by
    show (toLPP lp).bounds.length = (toLPP lp).c.length
    simp [toLPP, castBounds, castVec, hbounds, hclen, LPProblem.names]
  have hfeas : ∀ x, feasibleData (toLPP lp) x ↔ userFeasible p σ x :=
    fun x => feasible_iff_user p lp σ x hn hbounds hclen hubl hub heql heq
  have hval : ∀ x, userFeasible p σ x → dot (toLPP lp).c x + (toLPP lp).c0 = f x :=
    fun x hx => objective_eq_user p lp obj σ x hn hx.1 hoval
  have hmaxd : (toLPP lp).isMax = p.maximize := by simp [toLPP, hmax]
  have hnm : (toLPP lp).names = p.names := by simp [toLPP, hnames]
  obtain ⟨h1, h2, h3⟩ := lp_pipeline_faithful linprog hlp (toLPP lp) hwf m
  refine ⟨?_, ?_, ?_⟩
  · intro hs
    obtain ⟨x, hv, hfx, hobjv, hopt⟩ := h1 hs
    have hux := (hfeas x).mp hfx
    refine ⟨x, by rw [← hnm]; exact hv, hux, ?_, ?_⟩
    · have := hval x hux
      simp only at hobjv
      rw [← this]; exact hobjv
    · intro y hy
      have := hopt y ((hfeas y).mpr hy)
      simp only [hmaxd, hval x hux, hval y hy] at this
      exact this
  · intro hs y hy
    exact h2 hs y ((hfeas y).mpr hy)
  · intro hs
    obtain ⟨⟨y0, hy0⟩, hM⟩ := h3 hs
    refine ⟨⟨y0, (hfeas y0).mp hy0⟩, ?_⟩
    intro M
    obtain ⟨y, hy, hlt⟩ := hM M
    have huy := (hfeas y).mp hy
    refine ⟨y, huy, ?_⟩
    simp only [hmaxd, hval y huy] at hlt
    exact hlt

end Optyx.Props.C08
