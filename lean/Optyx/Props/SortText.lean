/-
  Optyx.Props.SortText — how variable names are ordered, as text regenerated from the source on every run
  (`Generated/SortGlue.lean`): the number-splitting regular expression (both copies), every statement of the package
  that assigns or reads a variable's `_sort_key` (with the headers of the statements enclosing it), the body of
  `_natural_sort_key`, and the `sorted(...)` calls of `Problem.variables`.  `Py.sortKey` / `Py.problemVariables`
  (C16: `sortKey_total_order`, `problemVariables_spec`) are readings of exactly this text; a new way of producing a sort
  key (a fast path, a parameter, a cache) changes it.
-/
import Optyx.Generated.SortGlue

namespace Optyx.Props.SortText
open Optyx.Generated

theorem sortKey_text :
    sortSplitPatterns = [("core/expressions.py", "re.compile('(\\\\d+)')"), ("problem.py", "re.compile('(\\\\d+)')")] ∧
    sortKeySites = [("core/expressions.py", "class Variable(Expression):", "__slots__ = ('name', 'lb', 'ub', 'domain', '_sort_key')"), ("core/expressions.py", "class Variable(Expression): > def __init__(self, name: str, lb: float | None=None, ub: float | None=None, domain: Literal['continuous', 'integer', 'binary']='continuous') -> None:", "self._sort_key = tuple((int(p) if p.isdigit() else p for p in parts))"), ("problem.py", "def _natural_sort_key(var: Variable) -> tuple: > if hasattr(var, '_sort_key'):", "return (var._sort_key, name)"), ("problem.py", "class Problem: > @property > if self._objective is not None: > if source_vector is not None: > if all_same:", "self._variables = sorted(source_vector._variables, key=_natural_sort_key)"), ("problem.py", "class Problem: > @property", "self._variables = sorted(all_vars, key=_natural_sort_key)")] ∧
    naturalSortKeyBody = ["name = var.name", "if hasattr(var, '_sort_key'): return (var._sort_key, name)", "parts = _NUMBER_SPLIT_RE.split(name)", "return (tuple((int(p) if p.isdigit() else p for p in parts)), name)"] ∧
    problemSortedCalls = ["sorted(all_vars, key=_natural_sort_key)", "sorted(source_vector._variables, key=_natural_sort_key)"] :=
  ⟨rfl, rfl, rfl, rfl⟩

end Optyx.Props.SortText
