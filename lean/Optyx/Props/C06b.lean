/-
  C06 (user level, LP path) — corollary of the C05 ∘ C08 composition: for ANY contract-abiding
  `linprog`, a solve through the LP path that reports OPTIMAL returns values under which the model
  THE USER WROTE is feasible: the values are keyed by the problem's variables in order, every
  declared bound holds, and every constraint `lhs ⋈ rhs` holds with its own sense — not merely the
  extracted rows.  (The SciPy/NLP path is `Props/C06.scipy_optimal_feasible`: there feasibility is
  *checked by optyx itself* on the returned point, so no solver contract is needed.)
-/
import Optyx.Props.C06
import Optyx.Props.C08b

namespace Optyx.Props.C06
open Optyx Optyx.Py Optyx.LPE

theorem lp_optimal_user_feasible (linprog : LPP.LinprogArgs ℝ → LPP.LinprogResult ℝ)
    (hlp : Optyx.Props.C08.LinprogContract linprog)
    (p : LPProblem) (lp : Py.LPData) (hn : p.names.Nodup)
    (hobj : ∀ obj, p.objective = some obj → ExprOK p.names obj)
    (hcons : ∀ c ∈ p.constraints, ExprOK p.names c.1)
    (h : Py.extractLP p = .ok lp) (σ : Nat → ℝ) (m : Option String)
    (hopt : (LPP.solveLP linprog (toLPP lp) m).status = .optimal) :
    ∃ x, (LPP.solveLP linprog (toLPP lp) m).values = p.names.zip x ∧ userFeasible p σ x := by
  obtain ⟨obj, _, h1, _, _⟩ := Optyx.Props.C08.lp_end_to_end linprog hlp p lp hn hobj hcons h σ m
  obtain ⟨x, hv, hf, _, _⟩ := h1 hopt
  exact ⟨x, hv, hf⟩

end Optyx.Props.C06
