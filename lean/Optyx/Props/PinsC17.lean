/-
  Optyx.Props.PinsC17 — transcription anchors of C17 (harness/source_pins.py).
  Each theorem says: the function the hand-written model of C17 was read from has, in the source of this run,
  the fingerprint of the text it was read from.  Rewritten only by `source_pins.py --update` after a reviewed change.
-/
import Optyx.Generated.PinsC17

namespace Optyx.Props.PinsC17
open Optyx.Generated.PinsC17

/-- `compile_hessian` (core/autodiff.py) -/
theorem pin_autodiff_compile_hessian_anchor : pin_autodiff_compile_hessian = "50982ad58c3902f9" := rfl

/-- every function the model of C17 transcribes (and no translator covers) is the one it was read from -/
theorem anchors : pin_autodiff_compile_hessian = "50982ad58c3902f9" :=
  pin_autodiff_compile_hessian_anchor

end Optyx.Props.PinsC17
