/-
  C06 — a solution reported OPTIMAL is feasible.

  The theorems quantify over *every* result record the solvers can return (arbitrary `success`,
  message class, point, objective value) — "every way SciPy can terminate" — every method string, and go
  through the SLSQP→trust-constr retry.  `ConOk` / `BndOk` (Lemmas/Solve.lean) say "within the tolerance
  the code states": atol + rtol·max(1, |value|) with atol = tol or 1e-6, rtol = 1e-6.
-/
import Optyx.Props.Dispatch
import Optyx.Lemmas.Solve
import Optyx.Drive.Solve   -- one build of this module also builds the driver the check runs

namespace Optyx.Props.C06
open Optyx Optyx.Py.Solve

/-- one call of `solve_scipy`: a Solution with status OPTIMAL comes from a point that passed both loops -/
theorem pass_optimal_feasible (c : ScipyCfg) (method : String) (r : ScipyResult) (s : Solution)
    (h : postPass c method r = .done s) (hopt : s.status = .optimal) :
    s.values = valuesOf c.names r.x ∧ c.names.length ≤ r.x.length ∧
    (∀ u ∈ c.cons, ConOk c.atol c.rtol u r.x) ∧
    (∀ i (hi : i < c.bnds.length) (hx : i < r.x.length), BndOk c.atol c.rtol c.bnds[i] r.x[i]) := by
  unfold postPass at h
  split at h
  · cases h
  · rename_i hlen
    dsimp only at h
    split at h
    · cases h
    · injection h with h
      subst h
      obtain ⟨hacc, hv⟩ := statusOf_optimal hopt
      simp only [violatedAt, hacc, Bool.true_and, Bool.or_eq_false_iff, List.any_eq_false] at hv
      refine ⟨rfl, by omega, ?_, ?_⟩
      · intro u hu
        apply conOk_of_not_violated
        have := hv.1 (toScipy u) (by simp only [ScipyCfg.scons]; exact List.mem_map_of_mem hu)
        simpa using this
      · intro i hi hx
        refine zip_index c.bnds r.x (fun b xi => BndOk c.atol c.rtol b xi) ?_ i hi hx
        intro p hp
        apply bndOk_of_not_violated
        have := hv.2 p hp
        simpa using this

/-- **C06, SciPy path.**  Whatever the two `minimize` calls return and whatever the method: if
    `solve_scipy` ends with status OPTIMAL, the reported values are those of a returned point at which
    every constraint and every finite bound holds within the stated tolerance. -/
theorem scipy_optimal_feasible (c : ScipyCfg) (method : String) (r1 r2 : ScipyResult) (s : Solution)
    (h : postSolveScipy c method r1 r2 = .done s) (hopt : s.status = .optimal) :
    ∃ r, (r = r1 ∨ r = r2) ∧ s.values = valuesOf c.names r.x ∧ c.names.length ≤ r.x.length ∧
      (∀ u ∈ c.cons, ConOk c.atol c.rtol u r.x) ∧
      (∀ i (hi : i < c.bnds.length) (hx : i < r.x.length), BndOk c.atol c.rtol c.bnds[i] r.x[i]) := by
  unfold postSolveScipy at h
  simp only [postSolveScipyF] at h
  cases hp1 : postPass c method r1 with
  | raised e => rw [hp1] at h; cases h
  | done s1 =>
    rw [hp1] at h
    injection h with h; subst h
    exact ⟨r1, Or.inl rfl, pass_optimal_feasible c method r1 _ hp1 hopt⟩
  | retry =>
    rw [hp1] at h
    dsimp only at h
    cases hp2 : postPass c "trust-constr" r2 with
    | raised e => rw [hp2] at h; cases h
    | done s2 =>
      rw [hp2] at h
      injection h with h; subst h
      exact ⟨r2, Or.inr rfl, pass_optimal_feasible c _ r2 _ hp2 hopt⟩
    | retry => rw [hp2] at h; cases h

/-- the same in the vocabulary of `Constraint.violation` (for a non-negative tolerance) -/
theorem scipy_optimal_violation (c : ScipyCfg) (method : String) (r1 r2 : ScipyResult) (s : Solution)
    (htol : 0 ≤ c.atol) (h : postSolveScipy c method r1 r2 = .done s) (hopt : s.status = .optimal) :
    ∃ r, (r = r1 ∨ r = r2) ∧ s.values = valuesOf c.names r.x ∧
      ∀ u ∈ c.cons, violation u r.x ≤ scaledTol c.atol c.rtol (u.g r.x) := by
  obtain ⟨r, hr, hv, _, hc, _⟩ := scipy_optimal_feasible c method r1 r2 s h hopt
  exact ⟨r, hr, hv, fun u hu => violation_le_of_conOk _ _ htol (by unfold ScipyCfg.rtol; decide +kernel) u r.x (hc u hu)⟩

/-- the retry happens at most once: the recursive call uses "trust-constr", which never retries, so
    the Python recursion has depth ≤ 1 and the fuel of the model is irrelevant -/
theorem retry_depth (c : ScipyCfg) (method : String) (r1 r2 : ScipyResult) (k : Nat) :
    postSolveScipyF (k + 2) c method r1 r2 = postSolveScipy c method r1 r2 ∧
    (∀ r, postPass c "trust-constr" r ≠ .retry) := by
  have hno : ∀ r, postPass c "trust-constr" r ≠ .retry := by
    intro r
    unfold postPass
    split
    · simp
    · have : ("trust-constr" == "SLSQP") = false := by decide
      simp [this]
  refine ⟨?_, hno⟩
  unfold postSolveScipy
  simp only [postSolveScipyF]
  cases postPass c method r1 with
  | raised e => rfl
  | done s => rfl
  | retry =>
    dsimp only
    cases h2 : postPass c "trust-constr" r2 with
    | raised e => rfl
    | done s => rfl
    | retry => exact absurd h2 (hno r2)

/-- **C06, LP path (glue).**  OPTIMAL is reported only when linprog itself reported success: no status
    code of the (regenerated) table maps to OPTIMAL. -/
theorem lp_optimal_success (lp : LPInfo) (r : LPResult) (s : Solution)
    (h : postSolveLP lp r = .ok s) (hopt : s.status = .optimal) : r.success = true := by
  have hst : s.status = lpStatus r := by
    unfold postSolveLP at h
    split at h
    · injection h with h; subst h; rfl
    · split at h
      · cases h
      · injection h with h; subst h; rfl
  exact lpStatus_optimal (hst ▸ hopt)

/-- **C06, LP path with linprog's contract as an explicit hypothesis**: if `success` implies that the
    returned point exists and is feasible (for any notion `Feas` of feasibility of the extracted data —
    its transfer to the user's constraints is C05), an OPTIMAL solution carries such a point. -/
theorem lp_optimal_feasible (lp : LPInfo) (r : LPResult) (s : Solution) (Feas : List Rat → Prop)
    (contract : r.success = true → ∃ xs, r.x = some xs ∧ Feas xs)
    (h : postSolveLP lp r = .ok s) (hopt : s.status = .optimal) :
    ∃ xs, r.x = some xs ∧ Feas xs ∧ s.values = valuesOf lp.names xs := by
  obtain ⟨xs, hx, hf⟩ := contract (lp_optimal_success lp r s h hopt)
  refine ⟨xs, hx, hf, ?_⟩
  unfold postSolveLP at h
  rw [hx] at h
  dsimp only at h
  split at h
  · cases h
  · injection h with h; subst h; rfl

/-- **C06 through `Problem.solve`** (fault-free run from a valid cache state, any method incl. "auto"):
    OPTIMAL on the NLP route ⇒ feasible within tolerance at a returned point; on the LP route ⇒ linprog
    reported success. -/
theorem solve_optimal_feasible (w : World) (hw : w.fault = none) (p : Problem) (o : Opts) (s0 : PState)
    (hinv : Inv p.isLinear s0) (sol : Solution) (h : (solve w p o s0).1 = .ok sol) (hopt : sol.status = .optimal) :
    (∃ m, route o.method p.isLinear p.objDeg (p.cons.map (·.deg)) = .scipy m ∧
      ∃ r, (r = w.r1 ∨ r = w.r2) ∧ sol.values = valuesOf (p.cfg o).names r.x ∧
        (∀ u ∈ (p.cfg o).cons, ConOk (p.cfg o).atol (p.cfg o).rtol u r.x) ∧
        (∀ i (hi : i < (p.cfg o).bnds.length) (hx : i < r.x.length),
          BndOk (p.cfg o).atol (p.cfg o).rtol (p.cfg o).bnds[i] r.x[i]))
    ∨ (∃ m, route o.method p.isLinear p.objDeg (p.cons.map (·.deg)) = .lp m ∧ w.lr.success = true) := by
  rw [(solve_det w hw p o s0 hinv).1] at h
  unfold solvePure at h
  split at h
  · cases h
  · cases hr : route o.method p.isLinear p.objDeg (p.cons.map (·.deg)) with
    | lp m =>
      right
      refine ⟨m, rfl, ?_⟩
      rw [hr] at h
      obtain hps := lpPure_ok w p m o.strict sol h
      exact lp_optimal_success _ _ _ hps hopt
    | scipy m =>
      left
      refine ⟨m, rfl, ?_⟩
      rw [hr] at h
      rcases scipyPure_ok w p o m sol h with hf | hps
      · subst hf; cases hopt
      · obtain ⟨r, hr', hv, _, hc, hb⟩ := scipy_optimal_feasible _ _ _ _ _ hps hopt
        exact ⟨r, hr', hv, hc, hb⟩

/-! non-vacuity: the hypotheses are satisfiable by concrete, non-trivial data -/

/-- a retry that ends OPTIMAL at the second point (w ≥ 1 violated at 0, satisfied at 1) -/
example :
    let c : ScipyCfg := { names := ["w"], bnds := [⟨none, none⟩], cons := [⟨.ge, fun x => x.headD 0 - 1⟩],
                           maximize := false, tol := none }
    let r1 : ScipyResult := ⟨true, ⟨false, false, false⟩, [0], 0, some 3⟩
    let r2 : ScipyResult := ⟨true, ⟨false, false, false⟩, [1], 1, some 5⟩
    postSolveScipy c "SLSQP" r1 r2 = .done ⟨.optimal, some 1, [("w", 1)], some 5⟩ := by
  decide +kernel

/-- the former F8 witness: success = false with "positive directional derivative" at an infeasible point
    is INFEASIBLE after the retry, not OPTIMAL -/
example :
    let c : ScipyCfg := { names := ["w"], bnds := [⟨none, none⟩],
                           cons := [⟨.ge, fun x => x.headD 0 - 1⟩, ⟨.le, fun x => x.headD 0⟩],
                           maximize := false, tol := none }
    let r : ScipyResult := ⟨false, ⟨false, false, true⟩, [0], 0, some 3⟩
    postSolveScipy c "SLSQP" r r = .done ⟨.infeasible, some 0, [("w", 0)], some 3⟩ := by
  decide +kernel

example : (postSolveLP ⟨["x"], [1], 5, false⟩ ⟨true, 0, some [2], some 2, some 1⟩).toOption
    = some ⟨.optimal, some 7, [("x", 2)], some 1⟩ := by decide +kernel

end Optyx.Props.C06
