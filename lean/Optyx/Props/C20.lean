/-
  C20 — a failed or interrupted solve leaves the process and the problem intact.

  A solve is a sequence of steps each of which may raise (`fire`); the world `w` carries one injected
  fault (pass, step, Exception-subclass or BaseException-only).  `s.fired` is a ghost flag: the fault has
  been raised.  All theorems are for *every* world (any fault, any solver answers), every problem,
  every option set, from every state.
-/
import Optyx.Props.Dispatch
import Optyx.Lemmas.Solve
import Optyx.Drive.Solve   -- one build of this module also builds the driver the check runs

namespace Optyx.Props.C20
open Optyx Optyx.Py.Solve

/-- `warnings.showwarning` after the call is the object it was before — on every exit path (normal
    return, FAILED return, propagation of any exception class, at any step, in the retry as well) -/
theorem hook_restored (w : World) (p : Problem) (o : Opts) (s : PState) :
    (solve w p o s).2.hook = s.hook :=
  Preserves.solve w p o (hookRel_good _) s

/-- the recursion limit is never touched by a solve (`increased_recursion_limit` is a user-side helper;
    no step of the model writes `reclimit`) -/
theorem reclimit_unchanged (w : World) (p : Problem) (o : Opts) (s : PState) :
    (solve w p o s).2.reclimit = s.reclimit :=
  Preserves.solve w p o (reclimitRel_good _) s

/-- **what the caller sees once the fault has fired**: an `Exception` raised inside `minimize` /
    `linprog` yields the FAILED solution; an `Exception` inside the LP extraction surfaces as SolverError;
    everything else (any BaseException-only class anywhere, any exception at any other step) propagates
    unchanged. -/
theorem outcome_spec (w : World) (p : Problem) (o : Opts) (s : PState)
    (h0 : s.fired = false) (hf : (solve w p o s).2.fired = true) :
    ∃ f, w.fault = some f ∧
      (((solve w p o s).1 = .exc (.injected f.baseOnly) ∧
          ¬ (f.baseOnly = false ∧ (f.step = .minimize ∨ f.step = .linprog ∨ f.step = .extract)))
       ∨ ((solve w p o s).1 = .exc .solverError ∧ f.step = .extract ∧ f.baseOnly = false)
       ∨ ((solve w p o s).1 = .ok failedSolution ∧ (f.step = .minimize ∨ f.step = .linprog) ∧ f.baseOnly = false)) := by
  obtain ⟨f, hfo, hout⟩ := FiredSpec.solve w p o s h0 hf
  refine ⟨f, hfo, ?_⟩
  rcases hout with h | h | ⟨a, ha, hc, h⟩
  · exact Or.inl h
  · exact Or.inr (Or.inl h)
  · subst hc; exact Or.inr (Or.inr ⟨ha, h⟩)

/-- in particular: an `Exception` raised inside the solver call never escapes `solve` -/
theorem exception_in_solver_gives_failed (w : World) (p : Problem) (o : Opts) (s : PState) (f : Fault)
    (hw : w.fault = some f) (hb : f.baseOnly = false) (hst : f.step = .minimize ∨ f.step = .linprog)
    (h0 : s.fired = false) (hf : (solve w p o s).2.fired = true) :
    (solve w p o s).1 = .ok failedSolution := by
  obtain ⟨f', hf', hout⟩ := outcome_spec w p o s h0 hf
  rw [hw] at hf'
  injection hf' with hf'
  subst hf'
  rcases hout with ⟨_, hn⟩ | ⟨_, he, _⟩ | ⟨hr, _⟩
  · exact absurd ⟨hb, hst.elim Or.inl (fun h => Or.inr (Or.inl h))⟩ hn
  · rcases hst with h | h <;> rw [h] at he <;> cases he
  · exact hr

/-- … and a BaseException-only class (KeyboardInterrupt) is never swallowed -/
theorem base_exception_propagates (w : World) (p : Problem) (o : Opts) (s : PState) (f : Fault)
    (hw : w.fault = some f) (hb : f.baseOnly = true)
    (h0 : s.fired = false) (hf : (solve w p o s).2.fired = true) :
    (solve w p o s).1 = .exc (.injected true) := by
  obtain ⟨f', hf', hout⟩ := outcome_spec w p o s h0 hf
  rw [hw] at hf'
  injection hf' with hf'
  subst hf'
  rcases hout with ⟨hr, _⟩ | ⟨_, _, he⟩ | ⟨_, _, he⟩
  · rw [hb] at hr; exact hr
  · rw [hb] at he; cases he
  · rw [hb] at he; cases he

/-- the problem's caches stay valid whatever happens: `_solver_cache` is `None` or a completely built
    dict (it is assigned only after `_build_solver_cache` returned; `hess_fn` is added only after
    `compile_hessian` returned), and `_is_linear_cache`, when set, holds the true verdict -/
theorem fault_preserves_cache_validity (w : World) (p : Problem) (o : Opts) (s : PState)
    (h : Inv p.isLinear s) : Inv p.isLinear (solve w p o s).2 :=
  ⟨Preserves.solve w p o (validRel_good _) s h.1, Preserves.solve w p o (linRel_good _) s h.2⟩

/-- **the next solve is as if the failed attempt had never happened**: after any solve `w` (faulted or
    not, with any options `o`), a fault-free solve `w'` of the same problem returns the same result and
    emits the same events as it would have from the original state. -/
theorem next_solve_unaffected (w w' : World) (hw' : w'.fault = none) (p : Problem) (o o' : Opts) (s : PState)
    (h : Inv p.isLinear s) :
    (solve w' p o' (solve w p o s).2).1 = (solve w' p o' s).1 ∧
    ∃ evs, (solve w' p o' (solve w p o s).2).2.trace = (solve w p o s).2.trace ++ evs ∧
           (solve w' p o' s).2.trace = s.trace ++ evs := by
  have h1 := solve_det w' hw' p o' _ (fault_preserves_cache_validity w p o s h)
  have h2 := solve_det w' hw' p o' s h
  exact ⟨h1.1.trans h2.1.symm, _, h1.2.1, h2.2.1⟩

/-! non-vacuity: concrete faults -/

private def demoP : Problem :=
  { hasObjective := true, maximize := false, objLinear := false, objDeg := some 2,
    cons := [⟨.ge, false, some 2, fun x => x.headD 0 - 1⟩], vars := [⟨"w", none, none, .continuous⟩], c := [0], c0 := 0 }
private def demoR : ScipyResult := ⟨true, ⟨false, false, false⟩, [1], 1, some 4⟩
private def demoW (f : Option Fault) : World := ⟨demoR, demoR, ⟨true, 0, some [1], some 1, none⟩, f⟩

/-- ValueError inside `minimize`: FAILED solution, hook restored, cache complete -/
example :
    let out := solve (demoW (some ⟨0, .minimize, false⟩)) demoP { method := "SLSQP" } (PState.init 7 1000)
    out.1 = .ok failedSolution ∧ out.2.hook = 7 ∧ out.2.fired = true ∧ out.2.solverCache = some builtKeys := by
  decide +kernel

/-- KeyboardInterrupt inside `minimize`: propagates, hook restored -/
example :
    let out := solve (demoW (some ⟨0, .minimize, true⟩)) demoP { method := "SLSQP" } (PState.init 7 1000)
    out.1 = .exc (.injected true) ∧ out.2.hook = 7 := by
  decide +kernel

/-- a fault while the constraint Jacobian is compiled: propagates, `_solver_cache` still `None` -/
example :
    let out := solve (demoW (some ⟨0, .buildJac 0, false⟩)) demoP { method := "SLSQP" } (PState.init 7 1000)
    out.1 = .exc (.injected false) ∧ out.2.solverCache = none ∧ out.2.trace = [] := by
  decide +kernel

end Optyx.Props.C20
