/-
  Optyx.Props.PinsC16 — transcription anchors of C16 (harness/source_pins.py).
  Each theorem says: the function the hand-written model of C16 was read from has, in the source of this run,
  the fingerprint of the text it was read from.  Rewritten only by `source_pins.py --update` after a reviewed change.
-/
import Optyx.Generated.PinsC16

namespace Optyx.Props.PinsC16
open Optyx.Generated.PinsC16

/-- `Problem.summary` (problem.py) -/
theorem pin_problem_Problem_summary_anchor : pin_problem_Problem_summary = "bbcdac853c42d5a8" := rfl

/-- every function the model of C16 transcribes (and no translator covers) is the one it was read from -/
theorem anchors : pin_problem_Problem_summary = "bbcdac853c42d5a8" :=
  pin_problem_Problem_summary_anchor

end Optyx.Props.PinsC16
