/-
  Optyx.Props.BuildTie — the hand-written recursive closure compiler `Py.compile` / `Py.compileVec` is the unique solution
  of the equations that harness/py2lean_build.py reads off the *current* source of `_build_evaluator` /
  `_build_vector_evaluator` on every run (`Generated.buildStepG`, `buildVecStepG`: the class chain, the index look-ups
  in statement order, the recursive calls, and for every `return lambda …` the closure the lambda's body text denotes).
-/
import Optyx.Py.Compile
import Optyx.Py.BuildSupport
import Optyx.Generated.BuildStep

namespace Optyx.Props.BuildTie
open Optyx Optyx.Py Optyx.Generated

/-! ### the model satisfies the source's equations -/

theorem mapRec_compile (idx : String → Option Nat) : (es : ExprList) → mapRec (compile idx) es = compileList idx es
  | .nil => by simp [mapRec, compileList]
  | .cons e t => by simp only [mapRec, compileList, mapRec_compile idx t]

theorem mapRecVars_compile (idx : String → Option Nat) : (vs : List Var) → mapRecVars (compile idx) vs = compileVars idx vs
  | [] => by simp [mapRecVars, compileVars]
  | v :: t => by
    simp only [mapRecVars, compileVars, mapRecVars_compile idx t, compile]
    cases lookupIdx idx v <;> rfl

theorem compileVec_step (idx : String → Option Nat) (v : Vec) :
    compileVec idx v = buildVecStepG idx (compile idx) v := by
  cases v with
  | vars w => simp only [compileVec, buildVecStepG]
  | exprs es => simp only [compileVec, buildVecStepG, mapRec_compile]

theorem compile_step (idx : String → Option Nat) (e : Expr) :
    compile idx e = buildStepG idx (compile idx) (compileVec idx) e := by
  cases e with
  | const c => rfl
  | var x => rfl
  | param p => rfl
  | bin op l r =>
    simp only [compile, buildStepG]
    cases compile idx l <;> cases compile idx r <;> cases op <;> rfl
  | un op a => rfl
  | linComb cs v =>
    cases v with
    | vars w =>
      simp only [compile, buildStepG, compileVec]
      cases lookupIdxs idx w.vars <;> rfl
    | exprs es =>
      simp only [compile, buildStepG, compileVec, mapRec_compile]
      cases compileList idx es <;> rfl
  | vecSum v => rfl
  | exprSum es => simp only [compile, buildStepG, mapRec_compile]
  | dot l r => rfl
  | l2 v => rfl
  | l1 v => rfl
  | quad v q => rfl
  | powSum v k => rfl
  | unSum v op => rfl
  | matSumV m => simp only [compile, buildStepG, mapRecVars_compile]
  | matSumE es => simp only [compile, buildStepG, mapRec_compile]
  | frob m => simp only [compile, buildStepG, mapRecVars_compile]

/-! ### and it is the only solution -/

section
variable (idx : String → Option Nat) (f : Expr → Except CErr Clo) (fv : Vec → Except CErr VClo)
  (hf : ∀ e, f e = buildStepG idx f fv e) (hv : ∀ v, fv v = buildVecStepG idx f v)
include hf hv

theorem mapRecVars_unique : (vs : List Var) → mapRecVars f vs = compileVars idx vs
  | [] => by simp [mapRecVars, compileVars]
  | v :: t => by
    simp only [mapRecVars, compileVars, mapRecVars_unique t]
    rw [hf]
    simp only [buildStepG]
    cases lookupIdx idx v <;> rfl

mutual
theorem step_unique : (e : Expr) → f e = compile idx e
  | .const c => by rw [hf, compile_step]; rfl
  | .var x => by rw [hf, compile_step]; rfl
  | .param p => by rw [hf, compile_step]; rfl
  | .bin op l r => by
    rw [hf, compile_step]; simp only [buildStepG]; rw [step_unique l, step_unique r]
  | .un op a => by
    rw [hf, compile_step]; simp only [buildStepG]; rw [step_unique a]
  | .linComb cs v => by
    rw [hf, compile_step]
    cases v with
    | vars w => rfl
    | exprs es => simp only [buildStepG]; rw [list_unique es, mapRec_compile]
  | .vecSum v => by rw [hf, compile_step]; rfl
  | .exprSum es => by
    rw [hf, compile_step]; simp only [buildStepG]; rw [list_unique es, mapRec_compile]
  | .dot l r => by
    rw [hf, compile_step]; simp only [buildStepG]; rw [vec_unique l, vec_unique r]
  | .l2 v => by
    rw [hf, compile_step]; simp only [buildStepG]; rw [vec_unique v]
  | .l1 v => by
    rw [hf, compile_step]; simp only [buildStepG]; rw [vec_unique v]
  | .quad v q => by
    rw [hf, compile_step]; simp only [buildStepG]; rw [vec_unique v]
  | .powSum v k => by rw [hf, compile_step]; rfl
  | .unSum v op => by rw [hf, compile_step]; rfl
  | .matSumV m => by
    rw [hf, compile_step]; simp only [buildStepG]
    rw [mapRecVars_unique idx f fv hf hv m.flat, mapRecVars_compile]
  | .matSumE es => by
    rw [hf, compile_step]; simp only [buildStepG]; rw [list_unique es, mapRec_compile]
  | .frob m => by
    rw [hf, compile_step]; simp only [buildStepG]
    rw [mapRecVars_unique idx f fv hf hv m.flat, mapRecVars_compile]
theorem vec_unique : (v : Vec) → fv v = compileVec idx v
  | .vars w => by rw [hv, compileVec_step]; rfl
  | .exprs es => by
    rw [hv, compileVec_step]; simp only [buildVecStepG]; rw [list_unique es, mapRec_compile]
theorem list_unique : (es : ExprList) → mapRec f es = compileList idx es
  | .nil => by simp [mapRec, compileList]
  | .cons e t => by
    simp only [mapRec, compileList]
    rw [step_unique e, list_unique t]
end

end

/-! ### the explicit-stack builder: one loop iteration -/

theorem elemIter_eq (idx : String → Option Nat) (e : Expr) : elemIter idx e = elemIterG idx (compile idx) e := by
  cases e <;> rfl

theorem elemsIter_eq (idx : String → Option Nat) : (es : ExprList) →
    elemsIter idx es = mapRec (elemIterG idx (compile idx)) es
  | .nil => by simp [elemsIter, mapRec]
  | .cons e t => by simp only [elemsIter, mapRec, elemIter_eq, elemsIter_eq idx t]

/-- one iteration of `while stack:` of `_build_evaluator_iterative` in the model is the translated loop body -/
theorem cstep_eq (idx : String → Option Nat) (s : CSt) :
    cstep idx s =
      (match s.stack with
       | [] => .ok s
       | (node, phase) :: rest => buildIterStepG idx (compile idx) (compileVec idx) node phase rest s.res) := by
  unfold cstep
  cases hs : s.stack with
  | nil => rfl
  | cons top rest =>
    obtain ⟨node, phase⟩ := top
    simp only []
    cases node with
    | const c => rfl
    | var v => simp only [buildIterStepG, CSt.push]; cases lookupIdx idx v <;> rfl
    | param p => rfl
    | bin op l r =>
      simp only [buildIterStepG]
      split
      · rfl
      · cases s.res with
        | nil => rfl
        | cons f1 rs =>
          cases rs with
          | nil => rfl
          | cons f3 rs4 => cases op <;> rfl
    | un op a =>
      simp only [buildIterStepG]
      split
      · rfl
      · cases s.res <;> rfl
    | linComb cs v =>
      cases v with
      | vars w => simp only [buildIterStepG, CSt.push]; cases lookupIdxs idx w.vars <;> rfl
      | exprs es =>
        simp only [buildIterStepG, CSt.push, elemsIter_eq]
        cases mapRec (elemIterG idx (compile idx)) es <;> rfl
    | vecSum v => simp only [buildIterStepG, CSt.push]; cases lookupIdxs idx v.vars <;> rfl
    | exprSum es =>
      simp only [buildIterStepG, CSt.push, elemsIter_eq]
      cases mapRec (elemIterG idx (compile idx)) es <;> rfl
    | dot l r =>
      simp only [buildIterStepG, CSt.push]
      cases compileVec idx l <;> cases compileVec idx r <;> rfl
    | l2 v => simp only [buildIterStepG, CSt.push]; cases compileVec idx v <;> rfl
    | l1 v => simp only [buildIterStepG, CSt.push]; cases compileVec idx v <;> rfl
    | quad v q => simp only [buildIterStepG, CSt.push]; cases compileVec idx v <;> rfl
    | powSum v k => simp only [buildIterStepG, CSt.push]; cases compile idx (.powSum v k) <;> rfl
    | unSum v op => simp only [buildIterStepG, CSt.push]; cases compile idx (.unSum v op) <;> rfl
    | matSumV m => simp only [buildIterStepG, CSt.push]; cases compile idx (.matSumV m) <;> rfl
    | matSumE es => simp only [buildIterStepG, CSt.push]; cases compile idx (.matSumE es) <;> rfl
    | frob m => simp only [buildIterStepG, CSt.push]; cases compile idx (.frob m) <;> rfl

/-- initial stacks, the empty-result guard and the read-out -/
theorem buildIterFrame_text :
    buildIterFrameG = ["stack: list[tuple[Any, int, list]] = [(expr, 0, [])]", "result_stack: list[Callable] = []",
      "if not result_stack: raise InvalidExpressionError", "return result_stack[-1]"] := by decide

/-- the equations have a solution (non-vacuity of every `…_of_source_equations` statement about the compiler) -/
theorem source_equations_solvable (idx : String → Option Nat) :
    ∃ (f : Expr → Except CErr Clo) (fv : Vec → Except CErr VClo),
      (∀ e, f e = buildStepG idx f fv e) ∧ (∀ v, fv v = buildVecStepG idx f v) :=
  ⟨compile idx, compileVec idx, compile_step idx, compileVec_step idx⟩

end Optyx.Props.BuildTie
