/-
  Optyx.Props.Glue — the regenerated solver-glue tables (`Generated/SolverGlue.lean`, translated
  from `_build_solver_cache` / `solve_scipy` on every run) agree with the hand-written models that
  the C09 / C10 / C07 theorems are about.  A change of a sign, of the compiler that builds a
  callable, or of a keyword of the `minimize` call breaks one of these.
-/
import Optyx.Py.ScipyInputs
import Optyx.Generated.ApiGlue
import Optyx.Generated.LPGlue

namespace Optyx.Props.Glue
open Optyx Optyx.Py Optyx.Py.Api Optyx.Py.Glue Optyx.Generated NumAlg

/-- which compiler builds which cached callable, and where `maximize` flips a sign -/
theorem glue_sources :
    glueObjFn = .compileExpression ∧ glueGradFn = .compileJacobian1 ∧
    glueConFn = .compileExpression ∧ glueConJac = .compileJacobian1 ∧
    glueHessFn = .compileHessian ∧
    glueNegateOnMaximize = true ∧ glueHessNegateOnMaximize = true ∧ glueObjValueNegatedBack = true := by
  decide

/-- the wrappers and the keywords of the one `minimize` call of `solve_scipy` (the model of the
    optional arguments is `Py.ScipyArgs.gate`, its method sets are `Generated.*Methods`) -/
theorem glue_call_site :
    glueObjectiveWrapper = "float(obj_fn(x))" ∧ glueGradientWrapper = "grad_fn(x).flatten()" ∧
    glueUseGradient = "method not in DERIVATIVE_FREE_METHODS" ∧
    glueMinimizeKw = [("fun", "objective"), ("x0", "x0"), ("method", "method"),
      ("jac", "gradient if use_gradient else None"), ("hess", "hess_fn if hess_fn is not None else None"),
      ("bounds", "bounds if bounds and method in BOUNDS_METHODS else None"),
      ("constraints", "scipy_constraints if scipy_constraints else ()"), ("tol", "tol"),
      ("options", "options if options else None"), ("**", "kwargs")] ∧
    glueSolutionKw = [("objective_value", "obj_value"), ("status", "status"),
      ("values", "{v.name: float(result.x[i]) for i, v in enumerate(variables)}")] := by
  decide

/-- the row of the regenerated sense chain, per sense -/
theorem conRow_table :
    conRow .ge = ⟨">=", "ineq", false, false⟩ ∧
    conRow .le = ⟨"<=", "ineq", true, true⟩ ∧
    conRow .eq = ⟨"else", "eq", false, false⟩ := by
  decide

/-- **the hand-written constraint dictionary of C10 is the regenerated one**: for every sense,
    type, function and Jacobian of `Api.scipyConstraint` are what the table row says -/
theorem scipyConstraint_agrees {X α : Type} [NumAlg α] (s : Sense) (f : X → α) (J : X → List α) (x : X) :
    ((scipyConstraint s f J).type = ScipyType.eq ↔ (conRow s).type = "eq") ∧
    ((scipyConstraint s f J).type = ScipyType.ineq ↔ (conRow s).type = "ineq") ∧
    (scipyConstraint s f J).fn x = (if (conRow s).funNeg then neg (f x) else f x) ∧
    (scipyConstraint s f J).jac x = (if (conRow s).jacNeg then (J x).map neg else J x) := by
  obtain ⟨hge, hle, heq⟩ := conRow_table
  cases s
  · rw [hle]; simp [scipyConstraint]
  · rw [hge]; simp [scipyConstraint]
  · rw [heq]; simp [scipyConstraint]

/-- `_make_constraint` normalises `lhs ⋈ rhs` to `(lhs - rhs) ⋈ 0` with exactly these operand conversions — the
    shape `Api.mkConstraint` (C10) models: a Python number becomes `Constant(rhs)`, an Expression is subtracted as
    it is, anything else goes through `float(rhs)` *before* any arithmetic -/
theorem makeConstraint_shape :
    glueMakeConstraint = [("python-number", "rhs = Constant(rhs)"), ("expression", "expr = lhs - rhs"),
      ("other", "expr = lhs - Constant(float(rhs))"), ("return", "Constraint(expr=expr, sense=sense)")] := by
  decide

/-- `solve_lp`: the text of the statements that assemble the arguments of `linprog` and turn `result.fun` /
    `result.x` into the reported objective and values — the text the models `Py.LPP.lpArgs` / `lpPost` (C08)
    and `Py.Solve.postSolveLP` (C06/C07) are readings of: the cost vector is negated *out of place* under
    `max`, rows are passed iff present, bounds iff non-empty, the objective is un-negated and `c0` added -/
theorem lpGlue_text :
    lpGlueArgs = ["c = lp_data.c", "if lp_data.sense == 'max': c = -c",
      "linprog_kwargs: dict[str, Any] = {'c': c, 'method': method}",
      "if lp_data.A_ub is not None and lp_data.b_ub is not None: linprog_kwargs['A_ub'] = lp_data.A_ub linprog_kwargs['b_ub'] = lp_data.b_ub",
      "if lp_data.A_eq is not None and lp_data.b_eq is not None: linprog_kwargs['A_eq'] = lp_data.A_eq linprog_kwargs['b_eq'] = lp_data.b_eq",
      "if lp_data.bounds: linprog_kwargs['bounds'] = lp_data.bounds", "linprog_kwargs.update(kwargs)"] ∧
    lpGlueObjective = ["objective_value = float(result.fun)",
      "if lp_data.sense == 'max': objective_value = -objective_value", "objective_value += lp_data.c0"] ∧
    lpGlueValues = ["for i, var_name in enumerate(lp_data.variables): values[var_name] = float(result.x[i])"] :=
  ⟨rfl, rfl, rfl⟩

/-- `LinearProgramExtractor.extract_constraints`: one constraint `expr ⋈ 0` becomes the row of coefficients of
    `expr` with right-hand side `−constant(expr)`; `==` rows go to (A_eq, b_eq), `<=` rows to (A_ub, b_ub) unchanged,
    `>=` rows to (A_ub, b_ub) with row and right-hand side negated — the table `Py.constraintLoop` (C05) and
    `LPE.feasible_iff_user` (C08) are readings of -/
theorem lpRows_table :
    lpRowCases = [⟨"==", "eq", false, false⟩, ⟨"<=", "ub", false, false⟩, ⟨">=", "ub", true, true⟩] ∧
    lpRhsIsNegatedConstant = true := by
  decide

/-- the rest of `LinearProgramExtractor`, statement by statement: `extract_objective` (after its two guards:
    no objective → NoObjectiveError, non-linear → NonLinearError), the frame of `extract_constraints` around the row
    loop, `extract_bounds` (the declared `(lb, ub)` of every variable, untouched, in the order of `variables`) and the
    assembly of `LPData` in `extract` — the text `Py.extractObjective`, `Py.extractConstraints`, `Py.extractBounds`
    and `Py.extractLP` (C05) are readings of -/
theorem lpExtract_text :
    lpExtractObjective = ["variables = problem.variables", "n = len(variables)",
      "var_index = {var.name: i for i, var in enumerate(variables)}",
      "c = extract_all_linear_coefficients(problem.objective, var_index, n)",
      "sense = 'min' if problem.sense == 'minimize' else 'max'", "return (c, sense, variables)"] ∧
    lpExtractConstraintsFrame = ["n = len(variables)", "ub_rows: list[NDArray[np.floating]] = []",
      "ub_rhs: list[float] = []", "eq_rows: list[NDArray[np.floating]] = []", "eq_rhs: list[float] = []",
      "var_index = {var.name: i for i, var in enumerate(variables)}",
      "A_ub = np.array(ub_rows, dtype=np.float64) if ub_rows else None",
      "b_ub = np.array(ub_rhs, dtype=np.float64) if ub_rhs else None",
      "A_eq = np.array(eq_rows, dtype=np.float64) if eq_rows else None",
      "b_eq = np.array(eq_rhs, dtype=np.float64) if eq_rhs else None", "return (A_ub, b_ub, A_eq, b_eq)"] ∧
    lpExtractBounds = ["bounds: list[tuple[float | None, float | None]] = []",
      "for var in variables: lb = var.lb if var.lb is not None else None ub = var.ub if var.ub is not None else None bounds.append((lb, ub))",
      "return bounds"] ∧
    lpExtract = ["c, sense, variables = self.extract_objective(problem)",
      "A_ub, b_ub, A_eq, b_eq = self.extract_constraints(problem, variables)",
      "bounds = self.extract_bounds(variables)", "c=c", "sense=sense", "A_ub=A_ub", "b_ub=b_ub", "A_eq=A_eq",
      "b_eq=b_eq", "bounds=bounds", "variables=[v.name for v in variables]",
      "c0=extract_constant_term(problem.objective)"] :=
  ⟨rfl, rfl, rfl, rfl⟩

end Optyx.Props.Glue
