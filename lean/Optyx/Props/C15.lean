/-
  C15 — results do not depend on the depth or association of the expression tree.
  Only the property theorems (+ non-vacuity examples); proofs in Lemmas/Iter*.lean.

  * the explicit-stack algorithms return exactly what the recursive ones return, for *all*
    trees (gradient: for all DAGs with consistent identities), hence for every switch threshold;
  * the meaning of a sum / product is independent of its parenthesisation (over ℝ), a term-by-term
    `-` / `/` accumulation means `t0 - Σ tᵢ` / `t0 / Π tᵢ`, the vectorised build means `Σ tᵢ`;
  * the left-spine depth estimate is exact on term-by-term accumulations.
  "No RecursionError within the supported depth" is a statement about CPython's stack: it is
  measured by harness/props/c15.py, not proved (partial).
  The compile-side refinement (`compileIter_eq`, `compile_threshold_irrelevant`) is in Props/C01.lean;
  the degree traversal belongs to C04.
-/
import Optyx.Lemmas.IterGrad
import Optyx.Lemmas.IterLabel
import Optyx.Lemmas.IterVars
import Optyx.Lemmas.IterAssoc
import Optyx.Props.C01

namespace Optyx.Props.C15
open Optyx Optyx.Py NumAlg

/-- `_gradient_iterative` (explicit stack, id-keyed memo, "already computed" short cuts) returns
    the tree the recursive differentiator returns, on every expression DAG whose identities
    are consistent, within `2·nodes` loop iterations; no KeyError, no fall-through. -/
theorem gradIter_eq (wrt : Var) (t : ITree) (hc : Consistent t) (fuel : Nat)
    (hf : fuel ≥ 2 * t.nodes) : gradIter fuel wrt t = .ok (grad wrt t.erase) :=
  gradIter_eq_grad wrt t hc fuel hf

/-- …in particular on every expression seen as a tree (each position its own object) -/
theorem gradIter_tree (wrt : Var) (e : Expr) :
    gradIter (2 * skel e) wrt (label 0 e) = .ok (grad wrt e) := by
  have := gradIter_eq wrt (label 0 e) (label_consistent 0 e) (2 * skel e)
    (by rw [label_nodes])
  rwa [label_erase] at this

/-- `gradient(expr, wrt)` does not depend on the switch threshold (nor on the 500 cap of the
    depth estimate): registered rule, explicit stack and recursion all give `Py.grad`. -/
theorem gradient_threshold_irrelevant (thr : Nat) (wrt : Var) (e : Expr) :
    gradient thr wrt e = .ok (grad wrt e) := by
  unfold gradient
  split
  · rfl
  · split
    · exact gradIter_tree wrt e
    · rfl

/-- `_get_variables_iterative` (stack + `seen` ids) collects exactly the variables of the
    recursive `get_variables()` — as sets — on every tree with pairwise distinct identities,
    within `nodes` loop iterations. -/
theorem varsIter_eq (t : ITree) (hnd : t.ids.Nodup) (fuel : Nat) (hf : fuel ≥ t.nodes) :
    ∃ vs, varsIter fuel t = some vs ∧ ∀ v, v ∈ vs ↔ v ∈ getVars t.erase :=
  ⟨varsT t, varsIter_spec t hnd fuel hf, mem_varsT t⟩

/-- `get_all_variables(expr)` is the same set for every switch threshold -/
theorem getAllVariables_threshold_irrelevant (thr : Nat) (e : Expr) :
    ∃ vs, getAllVariables thr e = some vs ∧ ∀ v, v ∈ vs ↔ v ∈ getVars e := by
  unfold getAllVariables
  split
  · exact ⟨_, rfl, fun _ => Iff.rfl⟩
  · obtain ⟨vs, h1, h2⟩ := varsIter_eq (label 0 e) (label_nodup 0 e) (skel e)
      (by rw [label_nodes])
    rw [label_erase] at h2
    exact ⟨vs, h1, h2⟩

/-- the compiled closure does not depend on the threshold either (C01), restated here -/
theorem compile_threshold_irrelevant (thr thr' : Nat) (V : List Var) (e : Expr) :
    compileExpression thr V e = compileExpression thr' V e := by
  rw [C01.compile_threshold_irrelevant, C01.compile_threshold_irrelevant]

/-- the depth estimates of core/expressions.py and core/compiler.py are the same function -/
theorem depthE_eq (e : Expr) : depthE e = depthC e := depthE_eq_depthC e

/-- any two parenthesisations of one term list with `+` have the same meaning: `Σ ⟦tᵢ⟧`
    (left-deep = right-deep = balanced) -/
theorem denote_assoc_add (ρ : String → ℝ) (σ : Nat → ℝ) {ts : List Expr} {e e' : Expr}
    (h : Paren .add ts e) (h' : Paren .add ts e') :
    denote ρ σ e = denote ρ σ e' ∧ denote ρ σ e = (ts.map (denote ρ σ)).sum :=
  ⟨by rw [paren_add ρ σ h, paren_add ρ σ h'], paren_add ρ σ h⟩

/-- the same for `*`: `Π ⟦tᵢ⟧` -/
theorem denote_assoc_mul (ρ : String → ℝ) (σ : Nat → ℝ) {ts : List Expr} {e e' : Expr}
    (h : Paren .mul ts e) (h' : Paren .mul ts e') :
    denote ρ σ e = denote ρ σ e' ∧ denote ρ σ e = (ts.map (denote ρ σ)).prod :=
  ⟨by rw [paren_mul ρ σ h, paren_mul ρ σ h'], paren_mul ρ σ h⟩

/-- the term-by-term accumulation is one of the parenthesisations, and the vectorised build
    `VectorExpression(ts).sum()` has the same meaning -/
theorem denote_leftDeep_add_eq_vectorised (ρ : String → ℝ) (σ : Nat → ℝ) (t0 : Expr) (ts : List Expr) :
    denote ρ σ (leftDeep .add t0 ts) = denote ρ σ (.exprSum (ExprList.ofList (t0 :: ts))) := by
  rw [paren_add ρ σ (leftDeep_paren .add t0 ts), exprSum_ofList]

/-- `((t0 - t1) - t2) - …` means `t0 - Σ tᵢ`;  `((t0 / t1) / t2) / …` means `t0 / Π tᵢ` -/
theorem denote_leftDeep_sub_div (ρ : String → ℝ) (σ : Nat → ℝ) (t0 : Expr) (ts : List Expr) :
    denote ρ σ (leftDeep .sub t0 ts) = denote ρ σ t0 - (ts.map (denote ρ σ)).sum ∧
    denote ρ σ (leftDeep .div t0 ts) = denote ρ σ t0 / (ts.map (denote ρ σ)).prod :=
  ⟨leftDeep_sub ρ σ t0 ts, leftDeep_div ρ σ t0 ts⟩

/-- On a term-by-term accumulation the left-spine estimate is the true spine length, and the
    recursion depth through BinaryOp/UnaryOp nodes exceeds it by at most the height of the
    terms: below the threshold the recursive algorithms nest at most `thr + h` levels. -/
theorem leftDeep_depth (op : BinOp) (t0 : Expr) (ts : List Expr) (h : Nat)
    (h0 : heightBU t0 ≤ h) (hts : ∀ t ∈ ts, heightBU t ≤ h) :
    depthC (leftDeep op t0 ts) = ts.length + depthC t0 ∧
    heightBU (leftDeep op t0 ts) ≤ ts.length + h :=
  ⟨depthC_leftDeep op t0 ts, heightBU_leftDeep_le op t0 ts h h0 hts⟩

/-! ### non-vacuity -/

/-- a DAG with real sharing: `(x * x) + sin(x * x)` where both `x * x` are one object (id 2)
    and all `x` are one object (id 3) -/
def exT : ITree :=
  .bin 1 .add (.bin 2 .mul (.leaf 3 (.var ⟨"x", 3⟩)) (.leaf 3 (.var ⟨"x", 3⟩)))
    (.un 4 .sin (.bin 2 .mul (.leaf 3 (.var ⟨"x", 3⟩)) (.leaf 3 (.var ⟨"x", 3⟩))))

example : Consistent exT := by
  intro s₁ h₁ s₂ h₂ hid
  simp only [exT, ITree.subs, List.mem_cons, List.mem_append, List.not_mem_nil, or_false, or_assoc] at h₁ h₂
  rcases h₁ with rfl | rfl | rfl | rfl | rfl | rfl | rfl | rfl <;>
    rcases h₂ with rfl | rfl | rfl | rfl | rfl | rfl | rfl | rfl <;>
      first | rfl | (simp [ITree.id] at hid)

example : (label 0 (.bin .sub (.var ⟨"x", 1⟩) (.un .sin (.var ⟨"y", 2⟩)))).ids.Nodup := by decide

example : Paren .add [Expr.c 1, Expr.c 2, Expr.c 3] (.bin .add (Expr.c 1) (.bin .add (Expr.c 2) (Expr.c 3))) :=
  .node (l₁ := [Expr.c 1]) (.single _) (.node (l₁ := [Expr.c 2]) (l₂ := [Expr.c 3]) (.single _) (.single _))

end Optyx.Props.C15
