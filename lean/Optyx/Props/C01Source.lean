/-
  Optyx.Props.C01Source — compiler correctness (C01) for **whatever function the source's equations define**:
  `compile_sound_of_source_equations` quantifies over every pair `(f, fv)` that satisfies the equations translated from the
  whole bodies of `_build_evaluator` / `_build_vector_evaluator` on this run (`Generated.buildStepG`, `buildVecStepG`);
  `BuildTie.step_unique` shows `Py.compile` is the only such function, `BuildTie.source_equations_solvable` that one exists.
  The hand-written `Py.compile` is thereby removed from the trusted reading of the recursive compiler: what is trusted is the
  translator (class → constructor map, the table of lambda shapes and `Clo.run`, which gives each shape its meaning).
-/
import Optyx.Props.C01
import Optyx.Props.BuildTie
import Optyx.Props.EvalTie

namespace Optyx.Props.C01
open Optyx Optyx.Py Optyx.Generated NumAlg

variable {α : Type} [NumAlg α]

/-- **C01 for every solution of the source's equations**: compilation succeeds for any ordered variable list covering the
    variables of `e`, and the closure returns `⟦e⟧` at every point listing an environment in the order of `V`, with the
    parameter store of the moment of the call. -/
theorem compile_sound_of_source_equations [AddLaws α] (V : List Var)
    (f : Expr → Except CErr Clo) (fv : Vec → Except CErr VClo)
    (hf : ∀ e, f e = buildStepG (idxOf V) f fv e) (hv : ∀ v, fv v = buildVecStepG (idxOf V) f v)
    (e : Expr) (hwf : wfE e = true) (hV : ∀ v ∈ getVars e, v.name ∈ V.map (·.name)) :
    ∃ c, f e = .ok c ∧
      ∀ (ρ : String → α) (σ : Nat → α) (x : List α), Agree ρ V x →
        Clo.run x σ c = .ok (denote ρ σ e) := by
  rw [BuildTie.step_unique (idxOf V) f fv hf hv e]
  exact compile_sound V e hwf hV

/-- the same for the vector evaluator's results, through `compile_sound` of the elements — stated for `Py.compileVec`'s
    unique counterpart -/
theorem compileVec_of_source_equations (V : List Var)
    (f : Expr → Except CErr Clo) (fv : Vec → Except CErr VClo)
    (hf : ∀ e, f e = buildStepG (idxOf V) f fv e) (hv : ∀ v, fv v = buildVecStepG (idxOf V) f v) (v : Vec) :
    fv v = compileVec (idxOf V) v :=
  BuildTie.vec_unique (idxOf V) f fv hf hv v

/-- **tree evaluation = mathematical value, for every solution of the source's equations**: whatever function satisfies the
    equations translated from the `evaluate` methods of all seventeen expression classes on this run returns `⟦e⟧ ρ σ` whenever
    `values` holds the environment's value of every variable of `e` (parameters contribute the store of that moment) -/
theorem evaluate_eq_denote_of_source_equations [AddLaws α] (values : String → Option α) (ρ : String → α) (σ : Nat → α)
    (f : Expr → Except CErr α) (hf : ∀ e, f e = evalStepG values σ f e)
    (e : Expr) (hwf : wfE e = true) (h : ∀ v ∈ getVars e, values v.name = some (ρ v.name)) :
    f e = .ok (denote ρ σ e) := by
  rw [EvalTie.step_unique values σ f hf e]
  exact evaluate_eq_denote values ρ σ e hwf h

/-- compiled value = tree value = ⟦e⟧, with BOTH sides given by the source's equations -/
theorem compile_eq_evaluate_of_source_equations [AddLaws α] (V : List Var)
    (fc : Expr → Except CErr Clo) (fv : Vec → Except CErr VClo)
    (hc : ∀ e, fc e = buildStepG (idxOf V) fc fv e) (hv : ∀ v, fv v = buildVecStepG (idxOf V) fc v)
    (e : Expr) (hwf : wfE e = true) (hV : ∀ v ∈ getVars e, v.name ∈ V.map (·.name))
    (ρ : String → α) (σ : Nat → α) (x : List α) (hx : Agree ρ V x)
    (values : String → Option α) (hval : ∀ v ∈ getVars e, values v.name = some (ρ v.name))
    (fe : Expr → Except CErr α) (he : ∀ e, fe e = evalStepG values σ fe e) :
    ∃ c, fc e = .ok c ∧ Clo.run x σ c = fe e := by
  obtain ⟨c, hc1, hc2⟩ := compile_sound_of_source_equations (α := α) V fc fv hc hv e hwf hV
  refine ⟨c, hc1, ?_⟩
  rw [hc2 ρ σ x hx, evaluate_eq_denote_of_source_equations values ρ σ fe he e hwf hval]

end Optyx.Props.C01
