/-
  Optyx.Props.PinsC07 — transcription anchors of C07 (harness/source_pins.py).
  Each theorem says: the function the hand-written model of C07 was read from has, in the source of this run,
  the fingerprint of the text it was read from.  Rewritten only by `source_pins.py --update` after a reviewed change.
-/
import Optyx.Generated.PinsC07

namespace Optyx.Props.PinsC07
open Optyx.Generated

/-- `Solution` (solution.py) -/
theorem pin_solution_Solution_anchor : pin_solution_Solution = "f2951bc3f76c80c1" := rfl

/-- every function the model of C07 transcribes (and no translator covers) is the one it was read from -/
theorem anchors : pin_solution_Solution = "f2951bc3f76c80c1" :=
  pin_solution_Solution_anchor

end Optyx.Props.PinsC07
