/-
  C03 — solver-facing gradients and Jacobians are correct in the declared variable order; the
  specialised shortcuts return what the general path returns.

  Model: `Optyx/Py/Jacobian.lean` (every `jacobian_row`, `compute_jacobian`, `_is_scaled_variable_pattern`,
  `compile_jacobian` with its five closures, `compile_gradient` with its vectorised closures).
  All statements are *relative to `Py.grad`* (the model of `optyx.gradient`): the C02 theorem
  (`Props/C02.lean`) turns `⟦Py.grad v e⟧` into the true partial derivative at regular points.
  Entries are stated over ℝ, i.e. before `_sanitize_derivatives` (which is the identity on finite
  values — C19).  `WF` (`Lemmas/Regular.lean`) is what the public API constructs: vectors with pairwise
  distinct element names, equal sizes, equal object id ⇒ same elements.
-/
import Optyx.Lemmas.JacCompile
import Optyx.Props.C02
import Optyx.Drive.Jac
import Optyx.Props.Closures
import Optyx.Props.JacRowTie

namespace Optyx.Props.C03
open Optyx Optyx.Py Optyx.Py.Jac NumAlg

/-- **Every `jacobian_row` is sound.**  Whenever one of the eight implementations (BinaryOp wrappers
    `f ± c`, `c + f`, `c * f`, `f * c`; VectorSum; DotProduct — same object, distinct or *overlapping*
    vectors; LinearCombination; VectorPowerSum; VectorUnarySum; MatrixSum — repeated entries of a
    symmetric matrix counted; QuadraticForm) returns a row for the declared variables `V` (any order,
    any superset, other objects with the same names), the row has one entry per variable and entry `j`
    denotes, in every environment, the same number as `gradient(e, V[j])`. -/
theorem jacRow_sound (ρ : String → ℝ) (σ : Nat → ℝ) (V : List Var) (e : Expr) (hwf : WF e)
    (row : List Expr) (h : jacRow V e = some row) :
    row.length = V.length ∧
    ∀ j (hj : j < V.length) (hr : j < row.length), denote ρ σ row[j] = denote ρ σ (grad V[j] e) := by
  have hok := jacRow_ok ρ σ V e hwf row h
  refine ⟨hok.length, fun j hj hr => ?_⟩
  obtain ⟨_, hd⟩ := hok.get ρ σ j hj
  exact hd

/-- `jacRow_sound` for **whatever function the current source defines**: `J` is any function satisfying the equations
    harness/py2lean.py reads off the `jacobian_row` methods of all node classes on this run (`Generated.jacRowStepG`:
    `BinaryOp`'s method calls `J` on its operands, the eight vector / matrix methods are translated whole, every other class
    inherits `return None`).  By `JacRowTie.step_unique` the only such function is the model `Py.jacRow V`. -/
theorem jacRow_sound_of_source_equations (V : List Var) (J : Expr → Option (List Expr))
    (hJ : ∀ e, J e = Generated.jacRowStepG V J e)
    (ρ : String → ℝ) (σ : Nat → ℝ) (e : Expr) (hwf : WF e) (row : List Expr) (h : J e = some row) :
    row.length = V.length ∧
    ∀ j (hj : j < V.length) (hr : j < row.length), denote ρ σ row[j] = denote ρ σ (grad V[j] e) := by
  rw [JacRowTie.step_unique V J hJ e] at h
  exact jacRow_sound ρ σ V e hwf row h

/-- the length part alone (what `compile_jacobian` relies on when it indexes `J[i][j]`) -/
theorem jacRow_length (V : List Var) (e : Expr) (hwf : WF e) (row : List Expr)
    (h : jacRow V e = some row) : row.length = V.length :=
  (jacRow_sound (fun _ => 0) (fun _ => 0) V e hwf row h).1

/-- the two per-operator tables of the vectorised unary sums (both regenerated from the source:
    `VectorUnarySum.jacobian_row` and `gradient_vector_unary_sum`) build the same expression for every
    operator — the row shortcut and the gradient rule cannot drift apart unnoticed. -/
theorem unaryTables_agree : ∀ (op : VOp) (x : Expr),
    Optyx.Generated.unSumJacRow op x = Optyx.Generated.unSumDeriv op x := by
  intro op x; cases op <;> rfl

/-- **`compute_jacobian`**: entry `(i, j)` exists and denotes the same number as `gradient(es[i], V[j])`,
    whether row `i` came from `jacobian_row` or from the element-wise fall-back. -/
theorem computeJacobian_entries (ρ : String → ℝ) (σ : Nat → ℝ) (es : List Expr) (V : List Var)
    (hwf : ∀ e ∈ es, WF e) (i j : Nat) (hi : i < es.length) (hj : j < V.length) :
    ∃ e', entry? (computeJacobian es V) i j = some e' ∧
      denote ρ σ e' = denote ρ σ (grad V[j] es[i]) :=
  entry?_computeJacobian σ ρ hwf hi hj

/-- **`compile_jacobian`**: whichever closure is selected — `power_jacobian_fn` / `unary_jacobian_fn`
    (vectorised, full or sparse indices), `constant_jacobian_fn`, `scaled_variable_jacobian_fn`,
    `jacobian_fn` — entry `(i, j)` of the matrix it returns at `x` is the value of `gradient(es[i], V[j])`
    at the point that assigns `x[j]` to `V[j]`, parameters read at call time (`σ`). -/
theorem compileJacobian_entries (σ : Nat → ℝ) (es : List Expr) (V : List Var) (x : List ℝ)
    (hnd : (names V).Nodup) (hx : x.length = V.length) (hwf : ∀ e ∈ es, WF e)
    (clo : JacClo) (h : compileJacobian es V = .ok clo)
    (i j : Nat) (hi : i < es.length) (hj : j < V.length) :
    entry? (clo.run x σ) i j = some (denote (envOf V x) σ (grad V[j] es[i])) :=
  compileJacobian_entries' σ hnd x hx es hwf h hi hj

/-- **Fast path 1 never freezes a Parameter**: the constant closure is only selected when every
    symbolic entry is a literal `Constant` (a `Parameter` is not one), and what it returns does not
    depend on the parameter store. -/
theorem compileJacobian_constant_no_param (es : List Expr) (V : List Var) (M : List (List Cst))
    (h : compileJacobian es V = .ok (.constant M)) :
    computeJacobian es V = M.map (fun r => r.map Expr.const) ∧
    ∀ (x : List ℝ) (σ σ' : Nat → ℝ), (JacClo.constant M).run x σ = (JacClo.constant M).run x σ' := by
  refine ⟨?_, fun x σ σ' => rfl⟩
  unfold compileJacobian at h
  split at h
  · rename_i v k
    cases hc : compilePowerGradient v k V <;> simp [hc, Except.map] at h
  · rename_i v op
    cases hc : compileUnaryGradient v op V <;> simp [hc, Except.map] at h
  · dsimp only at h
    split at h
    · rename_i M' hM
      simp only [Except.ok.injEq, JacClo.constant.injEq] at h
      subst h
      exact allConst_some hM
    · split at h
      · simp at h
      · split at h <;> simp at h

/-- **`compile_gradient` / `CompiledExpression.gradient`**: entry `j` of the returned array (vectorised
    power k = 1, 2, general; sparse; the ten unary closures full and sparse; `symbolic_gradient`) is the
    value of `gradient(e, V[j])` at the point. -/
theorem compileGradient_entries (σ : Nat → ℝ) (e : Expr) (V : List Var) (x : List ℝ)
    (hnd : (names V).Nodup) (hx : x.length = V.length)
    (clo : GradClo) (h : compileGradient e V = .ok clo) (j : Nat) (hj : j < V.length) :
    (clo.run x σ)[j]? = some (denote (envOf V x) σ (grad V[j] e)) :=
  compileGradient_entries' σ hnd x hx e h hj

/-- **With C02: the compiled Jacobian is the matrix of true partial derivatives.**  At every point `x`
    that is regular for `es[i]`, entry `(i, j)` of what `compile_jacobian(es, V)` returns is the derivative
    of `t ↦ ⟦es[i]⟧(x with x[j] := t)` at `x[j]` — for every closure kind, every order / superset `V`. -/
theorem compileJacobian_true_partial (σ : Nat → ℝ) (es : List Expr) (V : List Var) (x : List ℝ)
    (hnd : (names V).Nodup) (hx : x.length = V.length) (hwf : ∀ e ∈ es, WF e)
    (clo : JacClo) (h : compileJacobian es V = .ok clo)
    (i j : Nat) (hi : i < es.length) (hj : j < V.length) (hreg : Regular (envOf V x) σ es[i]) :
    ∃ d, entry? (clo.run x σ) i j = some d ∧
      HasDerivAt (fun t => denote (Function.update (envOf V x) V[j].name t) σ es[i]) d (x.getD j 0) := by
  refine ⟨_, compileJacobian_entries σ es V x hnd hx hwf clo h i j hi hj, ?_⟩
  have hd := Optyx.Props.C02.grad_hasDerivAt es[i] V[j] (envOf V x) σ (hwf _ (List.getElem_mem _)) hreg
  rwa [envOf_self hnd x hj] at hd

/-- likewise for `compile_gradient` / `CompiledExpression.gradient` -/
theorem compileGradient_true_partial (σ : Nat → ℝ) (e : Expr) (V : List Var) (x : List ℝ)
    (hnd : (names V).Nodup) (hx : x.length = V.length) (hwf : WF e)
    (clo : GradClo) (h : compileGradient e V = .ok clo) (j : Nat) (hj : j < V.length)
    (hreg : Regular (envOf V x) σ e) :
    ∃ d, (clo.run x σ)[j]? = some d ∧
      HasDerivAt (fun t => denote (Function.update (envOf V x) V[j].name t) σ e) d (x.getD j 0) := by
  refine ⟨_, compileGradient_entries σ e V x hnd hx clo h j hj, ?_⟩
  have hd := Optyx.Props.C02.grad_hasDerivAt e V[j] (envOf V x) σ hwf hreg
  rwa [envOf_self hnd x hj] at hd

/-! ### non-vacuity: concrete inputs satisfying the hypotheses -/

private def x0 : Var := ⟨"x[0]", 1⟩
private def x1 : Var := ⟨"x[1]", 2⟩
private def x2 : Var := ⟨"x[2]", 3⟩
private def vx : VVar := ⟨"x", 10, [x0, x1, x2]⟩
private def lo : VVar := ⟨"x[0:2]", 11, [x0, x1]⟩
private def hi : VVar := ⟨"x[1:3]", 12, [x1, x2]⟩

/-- the overlapping-slices product of finding F4 is well-formed, has a row, and is scaled by a wrapper -/
example : WF (.bin .mul (Expr.c 2) (.dot (.vars lo) (.vars hi))) := by
  simp [WF, WFVec, WFVVar, names, Vec.len, Expr.c, lo, hi, x0, x1, x2]

example : jacRow [x2, x0, x1] (.dot (.vars lo) (.vars hi)) =
    some [.var x1, .var x1, .bin .add (.var x2) (.var x0)] := by rfl

example : (compileJacobian [.dot (.vars vx) (.vars vx)] [x0, x1, x2]).toOption.map JacClo.name
    = some "scaled_variable_jacobian_fn" := by decide

example : (compileJacobian [.vecSum vx, .linComb [1, 2, 3] (.vars vx)] [x2, x0]).toOption
    = some (.constant [[.rat 1, .rat 1], [.rat 3, .rat 1]]) := by rfl

example : (compileGradient (.powSum lo 3) [x0, x1, x2]).toOption.map GradClo.name
    = some "grad_power_sparse" := by decide

example : (names [x2, x0, x1]).Nodup := by decide

end Optyx.Props.C03
