/-
  C01 — compiled callables compute the same function as the expression tree, and both equal
  the mathematical value.  Only the property theorems (+ non-vacuity examples) live here;
  the inductions are in Lemmas/CompileSound.lean, Lemmas/IterCompile.lean.

  Reading guide.  `α` is any number algebra (`NumAlg`): ℝ, or IEEE doubles as an algebra.
  `AddLaws α` (associativity of `+`, `0` neutral) is the one algebraic fact the proofs need: the
  code adds with Python's left-to-right `sum` in some places and with NumPy reductions in
  others.  It holds in ℝ (`compile_sound_real`) and fails for doubles, where the difference is
  rounding (tested tolerance).  `wfE e` = the size checks the constructors perform.
  `Agree ρ V x` = "the point `x` lists the values of the environment `ρ` in the order of `V`".
-/
import Optyx.Lemmas.CompileSound
import Optyx.Lemmas.IterCompile
import Optyx.Lemmas.CompileReal
import Optyx.Drive.Compile

namespace Optyx.Props.C01
open Optyx Optyx.Py NumAlg

variable {α : Type} [NumAlg α]

/-- Tree evaluation returns the mathematical value: whenever `values` holds the environment's
    value for every variable occurring in `e`, `e.evaluate(values)` succeeds (no
    MissingValueError) with `⟦e⟧ ρ σ`; parameters contribute the store `σ` of that moment. -/
theorem evaluate_eq_denote [AddLaws α] (values : String → Option α) (ρ : String → α) (σ : Nat → α)
    (e : Expr) (hwf : wfE e = true) (h : ∀ v ∈ getVars e, values v.name = some (ρ v.name)) :
    evaluate values σ e = .ok (denote ρ σ e) :=
  evaluate_denote values ρ σ e hwf h

/-- "Every expression kind the API can construct can be compiled": for any ordered list `V`
    that mentions every variable of `e` (any order, any superset, duplicates allowed), the
    builder returns a closure — for every node kind, by both builders, at every threshold. -/
theorem compile_total (V : List Var) (e : Expr) (hV : ∀ v ∈ getVars e, v.name ∈ V.map (·.name)) :
    (∃ c, compile (idxOf V) e = .ok c) ∧
    (∀ fuel, fuel ≥ 2 * e.size → ∃ c, compileIter fuel (idxOf V) e = .ok c) ∧
    (∀ thr, ∃ c, compileExpression thr V e = .ok c) := by
  have h1 : ∃ c, compile (idxOf V) e = .ok c :=
    compile_total' (idxOf V) e (fun v hv => idxOf_isSome V v.name (hV v hv))
  refine ⟨h1, ?_, ?_⟩
  · intro fuel hf
    rw [compileIter_eq_compile _ _ _ hf]; exact h1
  · intro thr
    obtain ⟨c, hc⟩ := h1
    refine ⟨c, ?_⟩
    cases e <;>
      simp only [compileExpression, compileSwitch] <;>
      first
        | exact hc
        | (split <;> first | exact hc | (rw [compileIter_eq_compile _ _ _ (Nat.le_refl _)]; exact hc))

/-- The compiled closure computes the meaning: for any ordered `V ⊇ vars e` the builder
    succeeds, and the closure called on *any* point `x` that lists an environment `ρ` in the
    order of `V`, with *any* parameter store `σ` at call time, returns `⟦e⟧ ρ σ`
    (`compile` never sees `σ`: parameters contribute their value at call time). -/
theorem compile_sound [AddLaws α] (V : List Var) (e : Expr) (hwf : wfE e = true)
    (hV : ∀ v ∈ getVars e, v.name ∈ V.map (·.name)) :
    ∃ c, compile (idxOf V) e = .ok c ∧
      ∀ (ρ : String → α) (σ : Nat → α) (x : List α), Agree ρ V x →
        Clo.run x σ c = .ok (denote ρ σ e) := by
  obtain ⟨c, hc⟩ := compile_total' (idxOf V) e (fun v hv => idxOf_isSome V v.name (hV v hv))
  exact ⟨c, hc, fun ρ σ x hx => compile_run (idxOf_sound V) hx σ e c hwf hc⟩

/-- `Agree` is satisfiable exactly as the API intends: with pairwise distinct names every point
    of the right length lists the environment `envOf V x` (`V[i] ↦ x[i]`) in the order of `V`. -/
theorem envOf_get (V : List Var) (x : List α) (hnd : (V.map (·.name)).Nodup)
    (hlen : x.length = V.length) : Agree (envOf V x) V x :=
  agree_envOf V x hnd hlen

/-- compiled value = tree evaluation on the dict `{V[i].name: x[i]}` (both are defined and equal) -/
theorem compile_eq_evaluate [AddLaws α] (V : List Var) (e : Expr) (hwf : wfE e = true)
    (hV : ∀ v ∈ getVars e, v.name ∈ V.map (·.name)) (hnd : (V.map (·.name)).Nodup) :
    ∃ c, compile (idxOf V) e = .ok c ∧
      ∀ (σ : Nat → α) (x : List α), x.length = V.length →
        Clo.run x σ c = evaluate (dictOf V x) σ e ∧ Clo.run x σ c = .ok (denote (envOf V x) σ e) := by
  obtain ⟨c, hc, hrun⟩ := compile_sound (α := α) V e hwf hV
  refine ⟨c, hc, fun σ x hlen => ?_⟩
  have hx := agree_envOf V x hnd hlen
  have h1 := hrun (envOf V x) σ x hx
  have h2 := evaluate_denote (dictOf V x) (envOf V x) σ e hwf
    (fun v hv => dictOf_agree hx (hV v hv))
  exact ⟨by rw [h1, h2], h1⟩

/-- The explicit-stack builder returns exactly the closure (or exactly the error) of the
    recursive builder — operand order of `-`, `/`, `**` included — once the loop may run
    `2·size e` iterations. -/
theorem compileIter_eq (idx : String → Option Nat) (e : Expr) (fuel : Nat) (h : fuel ≥ 2 * e.size) :
    compileIter fuel idx e = compile idx e :=
  compileIter_eq_compile idx e fuel h

/-- The answer does not depend on which internal path produced the callable: for every
    switch threshold `compile_expression` returns the closure of the recursive builder
    (Parameter bypass included). -/
theorem compile_threshold_irrelevant (thr : Nat) (V : List Var) (e : Expr) :
    compileExpression thr V e = compile (idxOf V) e := by
  cases e <;>
    simp only [compileExpression, compileSwitch] <;>
    first
      | rfl
      | (split <;> first | rfl | exact compileIter_eq_compile _ _ _ (Nat.le_refl _))

/-- `compile_expression(e, V)(x)` = `⟦e⟧`, at every threshold. -/
theorem compileExpression_sound [AddLaws α] (thr : Nat) (V : List Var) (e : Expr) (hwf : wfE e = true)
    (hV : ∀ v ∈ getVars e, v.name ∈ V.map (·.name)) :
    ∃ c, compileExpression thr V e = .ok c ∧
      ∀ (ρ : String → α) (σ : Nat → α) (x : List α), Agree ρ V x →
        Clo.run x σ c = .ok (denote ρ σ e) := by
  rw [compile_threshold_irrelevant]
  exact compile_sound V e hwf hV

/-- `compile_to_dict_function(e, V)(values)` = `⟦e⟧ ρ σ` when `values` holds `ρ` on `V`. -/
theorem dictFn_sound [AddLaws α] (thr : Nat) (V : List Var) (e : Expr) (hwf : wfE e = true)
    (hV : ∀ v ∈ getVars e, v.name ∈ V.map (·.name)) :
    ∃ c, compileExpression thr V e = .ok c ∧
      ∀ (values : String → Option α) (ρ : String → α) (σ : Nat → α),
        (∀ v ∈ V, values v.name = some (ρ v.name)) → dictFn c V values σ = .ok (denote ρ σ e) := by
  obtain ⟨c, hc, hrun⟩ := compileExpression_sound (α := α) thr V e hwf hV
  refine ⟨c, hc, fun values ρ σ hval => ?_⟩
  simp [dictFn, dictArgs_ok values ρ V hval, hrun ρ σ _ (agree_valsOf ρ V)]

/-- `CompiledExpression(e, V).value(x)` = `⟦e⟧`. -/
theorem compiledValue_sound [AddLaws α] (thr : Nat) (V : List Var) (e : Expr) (hwf : wfE e = true)
    (hV : ∀ v ∈ getVars e, v.name ∈ V.map (·.name)) :
    ∃ c, compileExpression thr V e = .ok c ∧
      ∀ (ρ : String → α) (σ : Nat → α) (x : List α), Agree ρ V x →
        compiledValue c x σ = .ok (denote ρ σ e) :=
  compileExpression_sound thr V e hwf hV

/-- Over the real numbers no algebraic side condition is left: compiled = evaluate = meaning,
    for every threshold, any permutation / superset `V` with distinct names, every point. -/
theorem compile_sound_real (thr : Nat) (V : List Var) (e : Expr) (hwf : wfE e = true)
    (hV : ∀ v ∈ getVars e, v.name ∈ V.map (·.name)) (hnd : (V.map (·.name)).Nodup) :
    ∃ c, compileExpression thr V e = .ok c ∧
      ∀ (σ : Nat → ℝ) (x : List ℝ), x.length = V.length →
        Clo.run x σ c = .ok (denote (envOf V x) σ e) ∧
        evaluate (dictOf V x) σ e = .ok (denote (envOf V x) σ e) := by
  rw [compile_threshold_irrelevant]
  obtain ⟨c, hc, h⟩ := compile_eq_evaluate (α := ℝ) V e hwf hV hnd
  exact ⟨c, hc, fun σ x hlen => ⟨(h σ x hlen).2, by rw [← (h σ x hlen).1]; exact (h σ x hlen).2⟩⟩

/-! ### non-vacuity: the hypotheses are satisfiable on a non-trivial input -/

/-- `x - y ** 2 + p·‖(x, 2)‖` compiled for `V = [y, z, x]` (a permuted strict superset) -/
def exE : Expr :=
  .bin .add (.bin .sub (.var ⟨"x", 1⟩) (.bin .pow (.var ⟨"y", 2⟩) (.c 2)))
    (.bin .mul (.param ⟨"p", 7⟩) (.l2 (.exprs (.cons (.var ⟨"x", 1⟩) (.cons (.c 2) .nil)))))
def exV : List Var := [⟨"y", 2⟩, ⟨"z", 3⟩, ⟨"x", 1⟩]

example : wfE exE = true := by decide
example : ∀ v ∈ getVars exE, v.name ∈ exV.map (·.name) := by
  simp [exE, exV, getVars, getVarsVec, getVarsList, Expr.c]
example : (exV.map (·.name)).Nodup := by decide
example : ∃ c, compile (idxOf exV) exE = .ok c := ⟨_, rfl⟩
example (x : List ℝ) (h : x.length = 3) : Agree (envOf exV x) exV x :=
  envOf_get exV x (by decide) (by simpa [exV] using h)
example : 2 * exE.size ≥ 2 * exE.size := Nat.le_refl _

end Optyx.Props.C01
