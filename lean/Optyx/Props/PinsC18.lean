/-
  Optyx.Props.PinsC18 — transcription anchors of C18 (harness/source_pins.py).
  Each theorem says: the function the hand-written model of C18 was read from has, in the source of this run,
  the fingerprint of the text it was read from.  Rewritten only by `source_pins.py --update` after a reviewed change.
-/
import Optyx.Generated.PinsC18

namespace Optyx.Props.PinsC18
open Optyx.Generated.PinsC18

/-- `Problem.solve` (problem.py) -/
theorem pin_problem_Problem_solve_anchor : pin_problem_Problem_solve = "f4e2acd2b640d4bc" := rfl
/-- `solve_lp` (solvers/lp_solver.py) -/
theorem pin_lp_solver_solve_lp_anchor : pin_lp_solver_solve_lp = "244fed8ae6b2b560" := rfl
/-- `solve_scipy` (solvers/scipy_solver.py) -/
theorem pin_scipy_solver_solve_scipy_anchor : pin_scipy_solver_solve_scipy = "e7c69a3a73fa09d9" := rfl

/-- every function the model of C18 transcribes (and no translator covers) is the one it was read from -/
theorem anchors : pin_problem_Problem_solve = "f4e2acd2b640d4bc" ∧ pin_lp_solver_solve_lp = "244fed8ae6b2b560" ∧ pin_scipy_solver_solve_scipy = "e7c69a3a73fa09d9" :=
  ⟨pin_problem_Problem_solve_anchor, pin_lp_solver_solve_lp_anchor, pin_scipy_solver_solve_scipy_anchor⟩

end Optyx.Props.PinsC18
