/-
  Optyx.Props.SpineTie — the three left-spine depth estimates of the model (`Py.depthC` for the closure compiler, `Py.depthE`
  for variable collection, `Py.spineBU` / `depthG` for the differentiator) are the unfoldings of the per-node steps translated
  from the three `_estimate_tree_depth` functions on every run (`Generated/Spine.lean`, harness/py2lean_spine.py), and the
  switches `compileSwitch`, `getAllVariables`, `gradient` compare them with the threshold as the source does.
-/
import Optyx.Py.Compile
import Optyx.Py.Vars
import Optyx.Py.GradIter
import Optyx.Generated.Spine

namespace Optyx.Props.SpineTie
open Optyx Optyx.Py Optyx.Generated

theorem depthC_step (e : Expr) :
    depthC e = (match compilerSpineG e with | .stop => 0 | .into c => depthC c + 1 | .intoVector => 1) := by
  cases e <;> rfl

theorem depthE_step (e : Expr) :
    depthE e = (match expressionsSpineG e with | .stop => 0 | .into c => depthE c + 1 | .intoVector => 1) := by
  cases e <;> rfl

theorem spineBU_step (e : Expr) :
    spineBU e = (match autodiffSpineG e with | .stop => 0 | .into c => spineBU c + 1 | .intoVector => 1) := by
  cases e <;> rfl

/-- the differentiator's estimate is cut at `max_check` (default 500) and uses the left-spine mode by default -/
theorem depthG_eq (e : Expr) : depthG e = min (spineBU e) autodiffMaxCheckG := rfl

theorem autodiff_default_mode : autodiffFullTraversalDefaultG = false := rfl

/-- `_compile_cached` -/
theorem compileSwitch_eq (thr : Nat) (idx : String → Option Nat) (e : Expr) :
    compileSwitch thr idx e = (if compileUsesIterativeG (depthC e) thr = true then compileIter (2 * e.size) idx e
                               else compile idx e) := by
  unfold compileSwitch compileUsesIterativeG
  by_cases h : depthC e ≥ thr <;> simp [h]

/-- `get_all_variables` -/
theorem getAllVariables_eq (thr : Nat) (e : Expr) :
    getAllVariables thr e = (if varsUsesRecursiveG (depthE e) thr = true then some (getVars e)
                             else varsIter (skel e) (label 0 e)) := by
  unfold getAllVariables varsUsesRecursiveG
  by_cases h : depthE e < thr <;> simp [h]

end Optyx.Props.SpineTie
