/-
  C13 — editing a model invalidates everything derived from the old model.

  `Py.State.step` is the executable model of `Problem` (four caches) and of the two solver front
  ends; `CacheInv` (Lemmas/State.lean) says that every populated cache — `_variables`, `_solver_cache`
  including a lazily added `hess_fn`, `_lp_cache`, `_is_linear_cache` — was computed from the
  current (objective, sense, constraints).  Bounds are not part of `CacheInv`: the model (like the
  repaired code) *re-reads* them at every solve, which is what `solve_bounds_current` states.
-/
import Optyx.Props.Glue
import Optyx.Lemmas.State

namespace Optyx.Props.C13
open Optyx.Py.State

variable {E : Type}

/-- a new `Problem()` satisfies the invariant -/
theorem inv_init (bnd : Nat → Bnd) : CacheInv (init bnd : PState E) := by
  simp [CacheInv, init]

/-- every operation — minimize, maximize, subject_to(c), subject_to([c…]), a raising subject_to,
    v.lb / v.ub assignment, solve(any method, any back-end answer), .variables, .n_variables,
    get_bounds — preserves the invariant -/
theorem inv_step (ctx : Ctx E) (s : PState E) (op : Op E) (h : CacheInv s) : CacheInv (step ctx s op).1 :=
  (step_spec ctx h op).2.1

/-- … hence it holds after every history -/
theorem inv_run (ctx : Ctx E) (bnd : Nat → Bnd) (ops : List (Op E)) : CacheInv (run ctx (init bnd) ops).1 :=
  run_inv ctx ops (inv_init bnd)

/-- under the invariant an observation (raised error, variable list, bounds, every input of every
    back-end call of a solve) depends on the current model and bounds only — not on which caches
    happen to be populated -/
theorem obs_eq_of_inv (ctx : Ctx E) (s t : PState E) (op : Op E) (hs : CacheInv s) (ht : CacheInv t)
    (hm : s.model = t.model) (hb : s.bnd = t.bnd) : (step ctx s op).2 = (step ctx t op).2 := by
  rw [(step_spec ctx hs op).1, (step_spec ctx ht op).1, hm, hb]

/-- after any history, each solve (and each read) observes exactly what a fresh `Problem`
    constructed directly with the current objective, sense, constraints and bounds observes -/
theorem solve_eq_fresh (ctx : Ctx E) (bnd : Nat → Bnd) (ops : List (Op E)) (op : Op E) :
    let s := (run ctx (init bnd) ops).1
    (step ctx s op).2 = (step ctx (fresh s.model s.bnd) op).2 :=
  obs_eq_of_inv ctx _ _ op (inv_run ctx bnd ops) (inv_fresh _ _) rfl rfl

/-- the bounds handed to a back end are the bounds the variables have *now*: every `minimize`
    call of a solve carries `cur = current bounds of the current variables` (also used for `x0`),
    every `linprog` call carries them as `bounds` -/
theorem solve_bounds_current (ctx : Ctx E) (bnd : Nat → Bnd) (ops : List (Op E)) (method : String) (viol : Bool) :
    let s := (run ctx (init bnd) ops).1
    ∀ calls, (step ctx s (.solve method viol)).2 = .solved calls → ∀ c ∈ calls,
      (∀ m d vs bs, c = .linprog m d vs bs → d = s.model ∧ bs = (s.model.vars ctx).map s.bnd) ∧
      (∀ m f h vs cur p, c = .minimize m f h vs cur p →
        f = s.model ∧ cur = (s.model.vars ctx).map s.bnd ∧ (∀ hm, h = some hm → hm = s.model)) := by
  intro s calls hcalls c hc
  have hinv : CacheInv s := inv_run ctx bnd ops
  rw [(step_spec ctx hinv _).1] at hcalls
  simp only [specObs, specSolve] at hcalls
  have lp : ∀ meth, specLP ctx s.model s.bnd meth = .solved calls →
      (∀ m d vs bs, c = .linprog m d vs bs → d = s.model ∧ bs = (s.model.vars ctx).map s.bnd) ∧
      (∀ m f h vs cur p, c = .minimize m f h vs cur p →
        f = s.model ∧ cur = (s.model.vars ctx).map s.bnd ∧ (∀ hm, h = some hm → hm = s.model)) := by
    intro meth hlp
    unfold specLP at hlp
    split at hlp
    · cases hlp
    · injection hlp with hl
      subst hl
      simp only [List.mem_singleton] at hc
      subst hc
      constructor
      · intro m d vs bs heq; injection heq with _ h2 _ h4; exact ⟨h2.symm, h4.symm⟩
      · intro m f h vs cur p heq; cases heq
  have sp : ∀ meth, specScipy ctx s.model s.bnd meth viol = .solved calls →
      (∀ m d vs bs, c = .linprog m d vs bs → d = s.model ∧ bs = (s.model.vars ctx).map s.bnd) ∧
      (∀ m f h vs cur p, c = .minimize m f h vs cur p →
        f = s.model ∧ cur = (s.model.vars ctx).map s.bnd ∧ (∀ hm, h = some hm → hm = s.model)) := by
    intro meth hsp
    unfold specScipy at hsp
    have key : ∀ mm, c = specCall ctx s.model s.bnd mm →
        (∀ m d vs bs, c = .linprog m d vs bs → d = s.model ∧ bs = (s.model.vars ctx).map s.bnd) ∧
        (∀ m f h vs cur p, c = .minimize m f h vs cur p →
          f = s.model ∧ cur = (s.model.vars ctx).map s.bnd ∧ (∀ hm, h = some hm → hm = s.model)) := by
      intro mm hcm
      subst hcm
      constructor
      · intro m d vs bs heq; cases heq
      · intro m f h vs cur p heq
        unfold specCall at heq
        injection heq with _ h2 h3 _ h5 _
        refine ⟨h2.symm, h5.symm, ?_⟩
        intro hm hh
        rw [← h3] at hh
        split at hh
        · injection hh with hh; exact hh.symm
        · cases hh
    split at hsp
    · cases hsp
    · split at hsp
      · injection hsp with hl
        subst hl
        simp only [List.mem_cons, List.not_mem_nil, or_false] at hc
        rcases hc with hc | hc
        · exact key _ hc
        · exact key _ hc
      · injection hsp with hl
        subst hl
        simp only [List.mem_singleton] at hc
        exact key _ hc
  split at hcalls
  · cases hcalls
  · split at hcalls
    · split at hcalls
      · exact lp _ hcalls
      · exact sp _ hcalls
    · split at hcalls
      · exact lp _ hcalls
      · split at hcalls
        · exact lp _ hcalls
        · exact sp _ hcalls

/-! ### the two repaired defects, as counterexamples on the pre-repair models -/

/-- F12 (pre-repair `solve_scipy`: bounds taken from `cache["bounds"]`): after `v0.lb := 1` the
    back end still receives the bounds stored when the cache was built — a fresh problem does not -/
theorem f12_breaks_solve_eq_fresh :
    ∃ (s : PState Nat) (vs : List Nat), CacheInv s ∧
      (scipyOnceF12 s vs "SLSQP").2 ≠ (scipyOnceF12 (fresh s.model s.bnd) vs "SLSQP").2 := by
  let m : Model Nat := ⟨some 1, .minimize, []⟩
  let b0 : Nat → Bnd := fun _ => (some 0, none)
  let s0 : PState Nat := (scipyOnceF12 (fresh m b0) [0] "SLSQP").1
  refine ⟨{ s0 with bnd := setLbF s0.bnd 0 (some 1) }, [0], ?_, ?_⟩
  · simp [CacheInv, s0, scipyOnceF12, fresh, m]
  · decide

/-- F22 (pre-repair `subject_to([valid, invalid])`: the valid prefix was appended, then the
    exception skipped `_invalidate_caches()`): the invariant is lost -/
theorem half_applied_subject_to_breaks_inv :
    ∃ (s : PState Nat) (cs : List (Con Nat)), CacheInv s ∧ ¬ CacheInv (subjectToHalfApplied s cs).1 := by
  refine ⟨{ fresh ⟨some 1, .minimize, []⟩ (fun _ => (none, none)) with variables := some ⟨some 1, .minimize, []⟩ },
    [⟨2, .ge⟩], ?_, ?_⟩
  · simp [CacheInv, fresh]
  · simp [CacheInv, fresh, subjectToHalfApplied]

/-! ### non-vacuity -/

/-- the invariant is not trivially true: a populated cache of another model violates it, and a
    history that populates all four caches reaches a state where it holds non-trivially -/
example : ¬ CacheInv ({ fresh ⟨some 1, .minimize, []⟩ (fun _ => (none, none)) with
    lpCache := some ⟨⟨some 2, .minimize, []⟩, []⟩ } : PState Nat) := by
  simp [CacheInv, fresh]

example :
    let ctx : Ctx Nat := { deg := fun t => if t = 1 then some 1 else some 2, vars := fun _ => [0, 1] }
    let s := (run ctx (init fun _ => (some 0, none))
      [.minimize 1, .solve "auto" false, .solve "trust-constr" false, .setLb 0 (some 1)]).1
    s.variables.isSome ∧ s.lpCache.isSome ∧ s.isLinear.isSome ∧
      (s.solverCache.map fun sc => sc.hess.isSome) = some true := by
  decide

end Optyx.Props.C13
