/-
  Optyx.Props.Dispatch — the two hand-written models of `Problem._auto_select_method` and of the dispatch of
  `Problem.solve` (`Py.autoSelect` / `Py.route` of C09 and `Py.Solve.autoSelect` / `Py.Solve.route` of C06 / C07 /
  C18 / C20) are, extensionally, the functions translated statement by statement from the source on every run
  (`Generated/Dispatch.lean`).  A changed threshold, method name or branch order in the source breaks these.
-/
import Optyx.Py.ScipyArgs
import Optyx.Py.Solve
import Optyx.Generated.Dispatch

namespace Optyx.Props.Dispatch
open Optyx Optyx.Generated

theorem needsRobust_eq (d : Option Nat) : Py.needsRobust d = degreeAbove 2 d := by
  cases d <;> simp [Py.needsRobust, degreeAbove]

theorem autoSelect_eq_generated (od : Option Nat) (cds : List (Option Nat)) :
    Py.autoSelect od cds = autoSelectG od cds := by
  have hf : Py.needsRobust = degreeAbove 2 := funext needsRobust_eq
  unfold Py.autoSelect autoSelectG
  rw [hf]

theorem solve_autoSelect_eq_generated (od : Option Nat) (cds : List (Option Nat)) :
    Py.Solve.autoSelect od cds = autoSelectG od cds := rfl

/-- `_auto_select_method` only ever returns one of three NLP method names -/
theorem autoSelectG_range (od : Option Nat) (cds : List (Option Nat)) :
    autoSelectG od cds = "L-BFGS-B" ∨ autoSelectG od cds = "trust-constr" ∨ autoSelectG od cds = "SLSQP" := by
  unfold autoSelectG
  split
  · exact Or.inl rfl
  · split
    · exact Or.inr (Or.inl rfl)
    · split
      · exact Or.inr (Or.inl rfl)
      · exact Or.inr (Or.inr rfl)

def toG : Py.Route → RouteG
  | .lp m => .lp m
  | .nlp m => .nlp m

def solveToG : Py.Solve.Route → RouteG
  | .lp m => .lp m
  | .scipy m => .nlp m

theorem route_eq_generated (m : String) (lin : Bool) (od : Option Nat) (cds : List (Option Nat)) :
    toG (Py.route m lin od cds) = routeG m lin od cds := by
  unfold Py.route routeG
  rw [autoSelect_eq_generated]
  by_cases h1 : m = "auto"
  · subst h1
    cases lin
    · rcases autoSelectG_range od cds with h | h | h <;> simp [h, toG] <;> decide
    · simp [toG]
  · by_cases h2 : m = "linprog"
    · subst h2; simp [toG]
    · by_cases h3 : m = "highs" ∨ m = "highs-ds" ∨ m = "highs-ipm"
      · rcases h3 with h | h | h <;> subst h <;> simp [toG]
      · simp only [not_or] at h3
        simp [h1, h2, h3.1, h3.2.1, h3.2.2, toG]

theorem solve_route_eq_generated (m : String) (lin : Bool) (od : Option Nat) (cds : List (Option Nat)) :
    solveToG (Py.Solve.route m lin od cds) = routeG m lin od cds := by
  unfold Py.Solve.route routeG
  rw [solve_autoSelect_eq_generated]
  by_cases h1 : m = "auto"
  · subst h1
    cases lin
    · rcases autoSelectG_range od cds with h | h | h <;> simp [h, solveToG] <;> decide
    · simp [solveToG]
  · by_cases h2 : m = "linprog"
    · subst h2; simp [solveToG]
    · by_cases h3 : m = "highs" ∨ m = "highs-ds" ∨ m = "highs-ipm"
      · rcases h3 with h | h | h <;> subst h <;> simp [solveToG]
      · simp only [not_or] at h3
        simp [h1, h2, h3.1, h3.2.1, h3.2.2, solveToG]

end Optyx.Props.Dispatch
