/-
  Optyx.Props.CompileEntryTie — the entry points of the closure compiler in the model (`Py.compileExpression`, `Py.dictFn`,
  `Py.compiledValue`, the `.param` case of `Clo.run`) are the functions translated from `compile_expression`,
  `compile_to_dict_function`, `CompiledExpression` and `_param_value` on every run (`Generated/CompileEntry.lean`,
  harness/py2lean_entry.py).
-/
import Optyx.Py.Compile
import Optyx.Generated.CompileEntry

namespace Optyx.Props.CompileEntryTie
open Optyx Optyx.Py Optyx.Generated NumAlg

/-- `compile_expression`: a bare Parameter is built directly (never through the cache), everything else goes through
    `_compile_cached` with the index of THIS variable list -/
theorem compileExpression_eq (thr : Nat) (V : List Var) (e : Expr) :
    compileExpression thr V e = compileExpressionG (fun idx e => compile idx e) (fun idx e => compileSwitch thr idx e) V e := by
  cases e <;> rfl

theorem dictArgs_eq {α : Type} (values : String → Option α) (V : List Var) :
    dictArgs values V = (V.map (·.name)).mapM
      (fun name => match values name with | some a => pure a | none => .error (CErr.keyError name)) := by
  induction V with
  | nil => rfl
  | cons v t ih =>
    simp only [dictArgs, List.map_cons, List.mapM_cons, ih]
    cases values v.name <;> rfl

/-- `compile_to_dict_function`'s `dict_fn` -/
theorem dictFn_eq {α : Type} [NumAlg α] (c : Clo) (V : List Var) (values : String → Option α) (σ : Nat → α) :
    dictFn c V values σ = dictFnG CErr.keyError (fun x => Clo.run x σ c) V values := by
  simp only [dictFn, dictFnG, dictArgs_eq]
  rfl

/-- a compiled Parameter leaf reads the CURRENT value: `_param_value(param)` at call time -/
theorem param_run {α : Type} [NumAlg α] (x : List α) (σ : Nat → α) (p : Par) : Clo.run x σ (.param p) = .ok (paramValueG σ p) := by
  simp [Clo.run, paramValueG]

/-- `CompiledExpression`: `value(x)` is the compiled value function of `compile_expression(expr, variables)` on `x` -/
theorem compiledExpression_value (thr : Nat) (V : List Var) (e : Expr) (g : List Var → Expr → Unit) :
    (compiledExpressionG (compileExpression thr) g V e).value = compileExpression thr V e ∧
    (compiledExpressionG (compileExpression thr) g V e).nVariables = V.length ∧
    (compiledExpressionG (compileExpression thr) g V e).variableNames = V.map (·.name) := ⟨rfl, rfl, rfl⟩

end Optyx.Props.CompileEntryTie
