/-
  Optyx.Props.DegreeEntryTie — the entry points of the degree classification in the model (`Py.computeDegree`, `isLinear`,
  `isQuadratic`, the `_degree` slot logic `readDegree` / `encodeDeg`) are the functions translated from `compute_degree`,
  `is_linear`, `is_quadratic` (analysis.py) and `Expression.degree` (core/expressions.py) on every run
  (`Generated/DegreeEntry.lean`, harness/py2lean_degentry.py).
-/
import Optyx.Py.Degree
import Optyx.Generated.DegreeEntry

namespace Optyx.Props.DegreeEntryTie
open Optyx Optyx.Py Optyx.Generated

theorem isLinear_eq (e : Expr) : isLinear e = isLinearG (degree e) := by
  unfold isLinear isLinearG; cases degree e <;> simp

theorem isLinearMethod_eq (e : Expr) : isLinear e = isLinearMethodG (degree e) := by
  unfold isLinear isLinearMethodG; cases degree e <;> simp

theorem isQuadratic_eq (e : Expr) : isQuadratic e = isQuadraticG (degree e) := by
  unfold isQuadratic isQuadraticG; cases degree e <;> simp

/-- the depth switch of `compute_degree` -/
theorem computeDegree_eq (T : Nat) (e : Expr) :
    computeDegree T e = (if degreeUsesIterativeG (estimateDepth e) T = true then degreeIter (3 * e.size) e
                         else .ok (degree e)) := by
  unfold computeDegree degreeUsesIterativeG
  by_cases h : T ≤ estimateDepth e <;> simp [h]

/-- the sentinel: what is stored, and what a stored int reads back as -/
theorem encodeDeg_eq (r : Deg) : encodeDeg r = degreeSlotWriteG r := by
  cases r <;> rfl

theorem readDegree_int (T : Nat) (e : Expr) (v : Int) :
    readDegree T e (.int v) = .ok (degreeSlotReadG v, .int v) := rfl

/-- a stored result reads back as itself (also `None`, through the `-1` sentinel; degrees are never negative) -/
theorem slot_roundtrip (r : Deg) : degreeSlotReadG (degreeSlotWriteG r) = r := by
  cases r with
  | none => rfl
  | some d =>
    unfold degreeSlotReadG degreeSlotWriteG
    have : ¬ ((d : Int) = -1) := by omega
    simp [this]

end Optyx.Props.DegreeEntryTie
