/-
  Optyx.Props.PinsC04 — transcription anchors of C04 (harness/source_pins.py).
  Each theorem says: the function the hand-written model of C04 was read from has, in the source of this run,
  the fingerprint of the text it was read from.  Rewritten only by `source_pins.py --update` after a reviewed change.
-/
import Optyx.Generated.PinsC04

namespace Optyx.Props.PinsC04
open Optyx.Generated.PinsC04

/-- `compute_degree` (analysis.py) -/
theorem pin_analysis_compute_degree_anchor : pin_analysis_compute_degree = "e9c75ebb425434aa" := rfl
/-- `_estimate_tree_depth` (analysis.py) -/
theorem pin_analysis_estimate_tree_depth_anchor : pin_analysis_estimate_tree_depth = "2165600c9d813bf0" := rfl
/-- `_compute_degree_cached` (analysis.py) -/
theorem pin_analysis_compute_degree_cached_anchor : pin_analysis_compute_degree_cached = "9580292bbe7c42a5" := rfl
/-- `is_linear` (analysis.py) -/
theorem pin_analysis_is_linear_anchor : pin_analysis_is_linear = "368707ab5315f57a" := rfl
/-- `is_quadratic` (analysis.py) -/
theorem pin_analysis_is_quadratic_anchor : pin_analysis_is_quadratic = "997693866754063e" := rfl
/-- `Expression.degree` (core/expressions.py) -/
theorem pin_expressions_Expression_degree_anchor : pin_expressions_Expression_degree = "7b56f3245c66a648" := rfl

/-- every function the model of C04 transcribes (and no translator covers) is the one it was read from -/
theorem anchors : pin_analysis_compute_degree = "e9c75ebb425434aa" ∧ pin_analysis_estimate_tree_depth = "2165600c9d813bf0" ∧ pin_analysis_compute_degree_cached = "9580292bbe7c42a5" ∧ pin_analysis_is_linear = "368707ab5315f57a" ∧ pin_analysis_is_quadratic = "997693866754063e" ∧ pin_expressions_Expression_degree = "7b56f3245c66a648" :=
  ⟨pin_analysis_compute_degree_anchor, pin_analysis_estimate_tree_depth_anchor, pin_analysis_compute_degree_cached_anchor, pin_analysis_is_linear_anchor, pin_analysis_is_quadratic_anchor, pin_expressions_Expression_degree_anchor⟩

end Optyx.Props.PinsC04
