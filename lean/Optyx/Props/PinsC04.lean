/-
  Optyx.Props.PinsC04 — transcription anchors of C04 (harness/source_pins.py).
  Each theorem says: the function the hand-written model of C04 was read from has, in the source of this run,
  the fingerprint of the text it was read from.  Rewritten only by `source_pins.py --update` after a reviewed change.
-/
import Optyx.Generated.PinsC04

namespace Optyx.Props.PinsC04
open Optyx.Generated.PinsC04

/-- `_estimate_tree_depth` (analysis.py) -/
theorem pin_analysis_estimate_tree_depth_anchor : pin_analysis_estimate_tree_depth = "2165600c9d813bf0" := rfl

/-- every function the model of C04 transcribes (and no translator covers) is the one it was read from -/
theorem anchors : pin_analysis_estimate_tree_depth = "2165600c9d813bf0" :=
  pin_analysis_estimate_tree_depth_anchor

end Optyx.Props.PinsC04
