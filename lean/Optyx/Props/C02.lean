/-
  C02 — the symbolic gradient is the true partial derivative.

  `Py.grad` is the model of `optyx.core.autodiff.gradient`; its scalar rule templates and the six
  simplifiers are `Optyx.Generated.*`, regenerated from the Python source before every build, so
  the theorems below are re-checked by the kernel against the rules the source contains now.
  Only property theorems live here; helper lemmas are in `Optyx/Lemmas/Grad*.lean`, `Quad.lean`.
-/
import Optyx.Lemmas.Quad

namespace Optyx.Props.C02
open Optyx Optyx.Generated Optyx.Py NumAlg

/-- the explicit-stack differentiator uses the same rule templates as the recursive one
    (both regenerated from the source): "whichever traversal computed the answer". -/
theorem rulesIter_eq :
    (∀ op l r dl dr s, binaryRuleIter op l r dl dr s = binaryRule op l r dl dr s) ∧
    (∀ op a da s, unaryRuleIter op a da s = unaryRule op a da s) := by
  constructor
  · intro op l r dl dr s; cases op <;> rfl
  · intro op a da s; cases op <;> rfl

section
variable (ρ : String → ℝ) (σ : Nat → ℝ) (wrt : Var)

private theorem regular_bin {op : BinOp} {l r : Expr} (h : Regular ρ σ (.bin op l r)) :
    Regular ρ σ l ∧ Regular ρ σ r := by
  cases op
  · exact h
  · exact h
  · exact h
  · exact ⟨h.1, h.2.1⟩
  · exact ⟨h.1, h.2.1⟩

mutual
private theorem grad_D : (e : Expr) → WF e → Regular ρ σ e →
    HasDerivAt (F ρ σ wrt.name e) (denote ρ σ (grad wrt e)) (ρ wrt.name)
  | .const c, _, _ => by simpa [grad] using const_case ρ σ wrt.name c
  | .param p, _, _ => by simpa [grad] using param_case ρ σ wrt.name p
  | .var v, _, _ => by simpa [grad] using var_case ρ σ wrt.name v
  | .bin op l r, hwf, hreg => by
    have hl := grad_D l hwf.1 (regular_bin ρ σ hreg).1
    have hr := grad_D r hwf.2 (regular_bin ρ σ hreg).2
    simpa [grad] using bin_case ρ σ wrt.name op l r _ _ hl hr hreg
  | .un op a, hwf, hreg => by
    have ha := grad_D a hwf hreg.1
    simpa [grad] using un_case ρ σ wrt.name op a _ ha hreg
  | .linComb cs v, hwf, hreg => by
    simpa [grad] using linComb_case ρ σ wrt cs v (gradVec_D v hwf.1 hreg) hwf.1
  | .vecSum v, hwf, _ => by simpa [grad] using vecSum_case ρ σ wrt v hwf
  | .exprSum es, hwf, hreg => by
    simpa [grad] using exprSum_case ρ σ wrt es (gradList_D es hwf hreg)
  | .dot l r, hwf, hreg => by
    simpa [grad] using dot_case ρ σ wrt l r (gradVec_D l hwf.1 hreg.1) (gradVec_D r hwf.2.1 hreg.2) hwf
  | .l2 v, hwf, hreg => by
    simpa [grad] using l2_case ρ σ wrt v (gradVec_D v hwf hreg.1) hwf hreg.2
  | .l1 v, hwf, hreg => by
    simpa [grad] using l1_case ρ σ wrt v (gradVec_D v hwf hreg.1) hwf hreg.2
  | .quad v q, hwf, hreg => by
    simpa [grad] using quad_case ρ σ wrt v q (gradVec_D v hwf.1 hreg) hwf
  | .powSum v k, hwf, hreg => by simpa [grad] using powSum_case ρ σ wrt v k hwf hreg
  | .unSum v op, hwf, hreg => by simpa [grad] using unSum_case ρ σ wrt v op hwf hreg
  | .matSumV m, _, _ => by simpa [grad] using matSumV_case ρ σ wrt m
  | .matSumE es, hwf, hreg => by
    simpa [grad] using matSumE_case ρ σ wrt es (gradList_D es hwf hreg)
  | .frob m, _, hreg => by simpa [grad] using frob_case ρ σ wrt m hreg
private theorem gradVec_D : (v : Vec) → WFVec v → RegularVec ρ σ v →
    HD (ρ wrt.name) (FVec ρ σ wrt.name v) ((gradVec wrt v).map (denote ρ σ))
  | .vars vv, _, _ => by
    rw [map_denote_gradVec_vars]; exact hd_vars ρ wrt.name vv.vars
  | .exprs es, hwf, hreg => by
    simpa [gradVec, FVec] using gradList_D es hwf hreg
private theorem gradList_D : (es : ExprList) → WFList es → RegularList ρ σ es →
    HD (ρ wrt.name) (FList ρ σ wrt.name es) ((gradList wrt es).map (denote ρ σ))
  | .nil, _, _ => by
    show List.Forall₂ _ _ _
    simp only [gradList, FList, List.map_nil]; exact List.Forall₂.nil
  | .cons e t, hwf, hreg => by
    show List.Forall₂ _ _ _
    simp only [gradList, FList, List.map_cons]
    exact List.Forall₂.cons (grad_D e hwf.1 hreg.1) (gradList_D t hwf.2 hreg.2)
end

end

/-- **C02.**  For every expression `e` built by the API (`WF e`), every variable `wrt`
    (occurring or not), every valuation `ρ`, every parameter store `σ` and every regular point:
    the expression returned by symbolic differentiation evaluates to the true partial derivative
    of `⟦e⟧` with respect to `wrt` at `ρ` — for every operator, every elementary function, every
    vector and matrix reduction, all compositions, through all simplifications around 0 and 1. -/
theorem grad_hasDerivAt (e : Expr) (wrt : Var) (ρ : String → ℝ) (σ : Nat → ℝ)
    (hwf : WF e) (hreg : Regular ρ σ e) :
    HasDerivAt (fun t => denote (Function.update ρ wrt.name t) σ e)
      (denote ρ σ (Py.grad wrt e)) (ρ wrt.name) :=
  grad_D ρ σ wrt e hwf hreg

/-- non-vacuity: a concrete non-trivial expression and point satisfy the hypotheses
    (`sin(x·y) / y + ‖(x, y)‖` at x = 1, y = 2). -/
example :
    let x : Var := ⟨"x", 1⟩
    let y : Var := ⟨"y", 2⟩
    let e : Expr := .bin .add (.bin .div (.un .sin (.bin .mul (.var x) (.var y))) (.var y))
      (.l2 (.vars ⟨"v", 3, [x, y]⟩))
    let ρ : String → ℝ := fun n => if n = "x" then 1 else 2
    WF e ∧ Regular ρ (fun _ => 0) e := by
  refine ⟨?_, ?_⟩
  · simp [WF, WFVec, WFVVar, names]
  · simp [Regular, RegularVec, unReg, denote, denoteVec, valsOf]
    norm_num

end Optyx.Props.C02
