/-
  C02 — the symbolic gradient is the true partial derivative.

  `Py.grad` is the model of `optyx.core.autodiff.gradient`; its scalar rule templates and the six
  simplifiers are `Optyx.Generated.*`, regenerated from the Python source before every build, so
  the theorems below are re-checked by the kernel against the rules the source contains now.
  Only property theorems live here; helper lemmas are in `Optyx/Lemmas/Grad*.lean`, `Quad.lean`.
-/
import Optyx.Lemmas.GradMain
import Optyx.Lemmas.Occurs
import Optyx.Props.GradTie

namespace Optyx.Props.C02
open Optyx Optyx.Generated Optyx.Py NumAlg

/-- the explicit-stack differentiator uses the same rule templates as the recursive one
    (both regenerated from the source): "whichever traversal computed the answer". -/
theorem rulesIter_eq :
    (∀ op l r dl dr s, binaryRuleIter op l r dl dr s = binaryRule op l r dl dr s) ∧
    (∀ op a da s, unaryRuleIter op a da s = unaryRule op a da s) := by
  constructor
  · intro op l r dl dr s; cases op <;> rfl
  · intro op a da s; cases op <;> rfl

/-- **C02.**  For every expression `e` built by the API (`WF e`), every variable `wrt`
    (occurring or not), every valuation `ρ`, every parameter store `σ` and every regular point:
    the expression returned by symbolic differentiation evaluates to the true partial derivative
    of `⟦e⟧` with respect to `wrt` at `ρ` — for every operator, every elementary function, every
    vector and matrix reduction, all compositions, through all simplifications around 0 and 1. -/
theorem grad_hasDerivAt (e : Expr) (wrt : Var) (ρ : String → ℝ) (σ : Nat → ℝ)
    (hwf : WF e) (hreg : Regular ρ σ e) :
    HasDerivAt (fun t => denote (Function.update ρ wrt.name t) σ e)
      (denote ρ σ (Py.grad wrt e)) (ρ wrt.name) :=
  grad_D ρ σ wrt e hwf hreg

/-- **C02 for whatever function the current source defines.**  `g` is any function satisfying the equations
    that harness/py2lean.py reads off the source on this run (`Generated.gradStepG`: the dispatch of
    `gradient` / `_gradient_cached`, the BinaryOp / UnaryOp rule templates, and the whole bodies of the twelve
    registered vector rules; every recursive call is a call of `g`).  By `GradTie.step_unique` there is exactly
    one such function — the model `Py.grad wrt` — so the hand-written model is not part of the trusted reading
    of the differentiator; only the translator is. -/
theorem grad_hasDerivAt_of_source_equations (wrt : Var) (g : Expr → Expr)
    (hg : ∀ e, g e = Generated.gradStepG wrt g e)
    (e : Expr) (ρ : String → ℝ) (σ : Nat → ℝ) (hwf : WF e) (hreg : Regular ρ σ e) :
    HasDerivAt (fun t => denote (Function.update ρ wrt.name t) σ e)
      (denote ρ σ (g e)) (ρ wrt.name) := by
  rw [GradTie.step_unique wrt g hg e]
  exact grad_hasDerivAt e wrt ρ σ hwf hreg

/-- the hypothesis of `grad_hasDerivAt_of_source_equations` is satisfiable: `Py.grad wrt` solves the equations -/
theorem source_equations_solvable (wrt : Var) :
    ∀ e, Py.grad wrt e = Generated.gradStepG wrt (Py.grad wrt) e := GradTie.grad_step wrt

section
variable (wrt : Var)

mutual
private theorem grad_Z : (e : Expr) → occurs wrt.name e = false → grad wrt e = Expr.c 0
  | .const _, _ => rfl
  | .param _, _ => rfl
  | .var v, h => by
    simp only [occurs] at h
    simp [grad, h]
  | .bin op l r, h => by
    simp only [occurs, Bool.or_eq_false_iff] at h
    simp only [grad, grad_Z l h.1, grad_Z r h.2, binaryRule_zero]
  | .un op a, h => by
    simp only [occurs] at h
    simp only [grad, grad_Z a h, unaryRule_zero]
  | .linComb cs v, h => by
    simp only [occurs] at h
    simp only [grad]; exact linCombRule_zero wrt cs v _ h (gradVec_Z v h)
  | .vecSum v, h => by simp only [occurs] at h; simp only [grad]; exact vecSumRule_zero wrt v h
  | .exprSum es, h => by
    simp only [occurs] at h
    simp only [grad]; exact exprSumRule_zero _ (gradList_Z es h)
  | .dot l r, h => by
    simp only [occurs, Bool.or_eq_false_iff] at h
    simp only [grad]; exact dotRule_zero wrt l r _ _ h.1 h.2 (gradVec_Z l h.1) (gradVec_Z r h.2)
  | .l2 v, h => by
    simp only [occurs] at h
    simp only [grad]; exact l2Rule_zero wrt v _ _ h (gradVec_Z v h)
  | .l1 v, h => by
    simp only [occurs] at h
    simp only [grad]; exact l1Rule_zero wrt v _ h (gradVec_Z v h)
  | .quad v q, h => by
    simp only [occurs] at h
    simp only [grad]; exact quadRule_zero wrt v q _ h (gradVec_Z v h)
  | .powSum v k, h => by simp only [occurs] at h; simp only [grad]; exact powSumRule_zero wrt v k h
  | .unSum v op, h => by simp only [occurs] at h; simp only [grad]; exact unSumRule_zero wrt v op h
  | .matSumV m, h => by simp only [occurs] at h; simp only [grad]; exact matSumVRule_zero wrt m h
  | .matSumE es, h => by
    simp only [occurs] at h
    simp only [grad]; exact exprSumRule_zero _ (gradList_Z es h)
  | .frob m, h => by simp only [occurs] at h; simp only [grad]; exact frobRule_zero wrt m _ h
private theorem gradVec_Z : (v : Vec) → occursVec wrt.name v = false → allZ (gradVec wrt v)
  | .vars vv, h => by
    simp only [occursVec] at h
    intro d hd
    simp only [gradVec, List.mem_map] at hd
    obtain ⟨y, hy, rfl⟩ := hd
    have : (y.name == wrt.name) = false := by
      have := List.any_eq_false.mp h y hy
      simpa using this
    simp [this]
  | .exprs es, h => by
    simp only [occursVec] at h
    simpa [gradVec] using gradList_Z es h
private theorem gradList_Z : (es : ExprList) → occursList wrt.name es = false → allZ (gradList wrt es)
  | .nil, _ => by intro d hd; simp [gradList] at hd
  | .cons e t, h => by
    simp only [occursList, Bool.or_eq_false_iff] at h
    intro d hd
    simp only [gradList, List.mem_cons] at hd
    rcases hd with rfl | hd
    · exact grad_Z e h.1
    · exact gradList_Z t h.2 d hd
end

end

/-- **C02, absent variables.**  If `wrt` does not occur syntactically in `e`, symbolic
    differentiation returns the *literal* `Constant(0.0)` (structural equality, not merely a
    vanishing value) — for every node kind and through every simplifier. -/
theorem grad_absent (e : Expr) (wrt : Var) (h : occurs wrt.name e = false) :
    Py.grad wrt e = Expr.c 0 :=
  grad_Z wrt e h

example : occurs "z" (.bin .mul (.var ⟨"x", 1⟩) (.un .sin (.var ⟨"y", 2⟩))) = false := by decide

/-- non-vacuity: a concrete non-trivial expression and point satisfy the hypotheses
    (`sin(x·y) / y + ‖(x, y)‖` at x = 1, y = 2). -/
example :
    let x : Var := ⟨"x", 1⟩
    let y : Var := ⟨"y", 2⟩
    let e : Expr := .bin .add (.bin .div (.un .sin (.bin .mul (.var x) (.var y))) (.var y))
      (.l2 (.vars ⟨"v", 3, [x, y]⟩))
    let ρ : String → ℝ := fun n => if n = "x" then 1 else 2
    WF e ∧ Regular ρ (fun _ => 0) e := by
  refine ⟨?_, ?_⟩
  · simp [WF, WFVec, WFVVar, names]
  · simp [Regular, RegularVec, unReg, denote, denoteVec, valsOf]
    norm_num

end Optyx.Props.C02
