/- C02 property theorems (work in progress: analytic theorem added below when finished) -/
import Optyx.Py.Grad

namespace Optyx.Props.C02
open Optyx Optyx.Generated

/-- the explicit-stack differentiator uses the same rule templates as the recursive one
    (both regenerated from the source): "whichever traversal computed the answer". -/
theorem rulesIter_eq :
    (∀ op l r dl dr s, binaryRuleIter op l r dl dr s = binaryRule op l r dl dr s) ∧
    (∀ op a da s, unaryRuleIter op a da s = unaryRule op a da s) := by
  constructor
  · intro op l r dl dr s; cases op <;> rfl
  · intro op a da s; cases op <;> rfl

end Optyx.Props.C02
