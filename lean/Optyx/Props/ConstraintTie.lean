/-
  Optyx.Props.ConstraintTie — `Constraint.violation` / `is_satisfied` of the models (`Py.Api.violationOf`, generic in
  the number algebra, used by C10; `Py.Solve.violation`, used by C06 "OPTIMAL ⇒ every violation within tolerance") are the
  functions translated from constraints.py on every run (`Generated/ConstraintFns.lean`, harness/py2lean_post.py).
-/
import Optyx.Py.Constraint
import Optyx.Py.Solve
import Optyx.Lemmas.Real
import Optyx.Generated.ConstraintFns
import Mathlib.Tactic.Push
import Mathlib.Tactic.NormNum

namespace Optyx.Props.ConstraintTie
open Optyx Optyx.Generated Optyx.Py.Post

/-- `Constraint.sense` of the solver-side model -/
def senseStr : Py.Solve.Sense → String
  | .le => "<=" | .ge => ">=" | .eq => "=="

/-- C06 / C07 side: the violation the feasibility theorems speak about -/
theorem solve_violation_eq (c : Py.Solve.UCon) (x : List Rat) :
    Py.Solve.violation c x = violationG (senseStr c.sense) (c.g x) := by
  unfold Py.Solve.violation violationG senseStr
  cases c.sense <;> simp [Py.Solve.maxQ, Py.Solve.absQ, postMax, postAbs] <;> rfl

/-- the senses a `Constraint` can carry are exactly the three of the models -/
theorem senses_eq : constraintSensesG = [Py.Api.Sense.le, .ge, .eq].map Py.Api.Sense.show := by decide

theorem senses_solve_eq : constraintSensesG = [Py.Solve.Sense.le, .ge, .eq].map senseStr := by decide

/-- C10 side, over ℝ at rational points: `violationOf` is the translated function -/
theorem api_violation_eq (s : Py.Api.Sense) (q : ℚ) :
    Py.Api.violationOf s ((q : ℝ)) = ((violationG s.show q : ℚ) : ℝ) := by
  unfold Py.Api.violationOf Py.Api.pyMax0 violationG Py.Api.Sense.show postMax postAbs
  cases s
  · simp only [zero_real]
    by_cases h : (0 : ℚ) < q
    · have h' : (0 : ℝ) < (q : ℝ) := by exact_mod_cast h
      simp [h, h']
    · have h' : ¬ (0 : ℝ) < (q : ℝ) := by exact_mod_cast h
      simp [h, h']
  · simp only [zero_real]
    show (if (0 : ℝ) < -(q : ℝ) then -(q : ℝ) else 0) = _
    by_cases h : (0 : ℚ) < -q
    · have h' : (0 : ℝ) < -(q : ℝ) := by exact_mod_cast h
      simp [h, h']
    · have h' : ¬ (0 : ℝ) < -(q : ℝ) := by exact_mod_cast h
      simp [h, h']
  · show |(q : ℝ)| = _
    by_cases h : q < 0
    · have h' : (q : ℝ) < 0 := by exact_mod_cast h
      simp [h, abs_of_neg h']
    · have h' : (0 : ℝ) ≤ (q : ℝ) := by exact_mod_cast (not_lt.mp h)
      simp [h, abs_of_nonneg h']

/-- `is_satisfied` -/
theorem isSatisfied_eq (v tol : ℚ) : isSatisfiedG v tol = decide (v ≤ tol) := rfl

/-- default tolerance of `is_satisfied`: the double 1e-8 -/
theorem isSatisfied_default : isSatisfiedDefaultTolG = (3022314549036573 : Rat) / 302231454903657293676544 := rfl

theorem evaluate_text :
    constraintEvaluateTextG
      = "result = self.expr.evaluate(point); if isinstance(result, np.ndarray):\n    return float(result.item()); return float(result)" := by
  decide

/-- `Constraint.get_variables()` is the collector of the normalised expression (`Py.getVars` of `c.expr`) -/
theorem getVariables_text : constraintGetVariablesTextG = "return self.expr.get_variables()" := by decide

end Optyx.Props.ConstraintTie
