/-
  C18 — integrality is never relaxed silently.

  `p.D` = the non-continuous variables of the problem (`nonContinuous p.vars`).  The first theorem holds
  for *every* world (any solver answers, any injected fault); the other two are about fault-free solves
  (through `solve_det` they are statements about the monadic model from every valid cache state).
-/
import Optyx.Props.Dispatch
import Optyx.Lemmas.SolveGuard
import Optyx.Lemmas.SolveHandles
import Optyx.Drive.Solve   -- one build of this module also builds the driver the check runs

namespace Optyx.Props.C18
open Optyx Optyx.Py.Solve

/-- **strict ⇒ raises before any solver call**, on every route of `Problem.solve` (auto→LP, auto→NLP,
    linprog, highs*, NLP methods), from every state, whatever the solvers would answer: the call ends in an
    exception and *no event at all* (no warning, no `minimize`, no `linprog`) has happened.  In a fault-free
    solve the exception is `IntegerVariableError` listing exactly `D` — or `NonLinearError` when an LP
    method is forced on a nonlinear problem (raised even earlier). -/
theorem integrality_guard_strict (w : World) (p : Problem) (o : Opts) (s : PState)
    (hs : o.strict = true) (hD : p.D ≠ []) :
    (∃ e, (solve w p o s).1 = .exc e) ∧ (solve w p o s).2.trace = s.trace ∧
    (w.fault = none → Inv p.isLinear s → p.hasObjective = true →
      (∃ solver, (solve w p o s).1 = .exc (.integerVariable solver (p.D.map (·.name))))
      ∨ ((solve w p o s).1 = .exc .nonLinear ∧
          ∃ m, route o.method p.isLinear p.objDeg (p.cons.map (·.deg)) = .lp m ∧ p.isLinear = false)) := by
  obtain ⟨e, he, ht⟩ := solve_blocked w p o hs hD s
  refine ⟨⟨e, he⟩, ht, ?_⟩
  intro hw hinv ho
  rw [(solve_det w hw p o s hinv).1]
  unfold solvePure
  simp only [ho, Bool.not_true, Bool.false_eq_true, ↓reduceIte]
  cases hr : route o.method p.isLinear p.objDeg (p.cons.map (·.deg)) with
  | lp m =>
    dsimp only
    unfold lpPure
    simp only [ho, Bool.not_true, Bool.false_eq_true, ↓reduceIte, hs]
    by_cases hol : p.objLinear = true
    · by_cases hcl : p.cons.all (·.linear) = true
      · left
        simp only [hol, hcl, Bool.not_true, Bool.false_eq_true, ↓reduceIte]
        rw [guardPure_strict _ _ hD]
        exact ⟨"linprog", rfl⟩
      · right
        simp only [hol, hcl, Bool.not_true, Bool.false_eq_true, ↓reduceIte]
        refine ⟨by simp, m, rfl, ?_⟩
        simp only [Problem.isLinear, Bool.and_eq_false_iff]
        right; simpa using hcl
    · right
      simp only [hol, Bool.not_false, ↓reduceIte]
      refine ⟨trivial, m, rfl, ?_⟩
      simp only [Problem.isLinear, Bool.and_eq_false_iff]
      left; right; simpa using hol
  | scipy m =>
    left
    dsimp only
    unfold scipyPure
    simp only [scipyPureF, passPure, vars_nonempty_of_D hD, Bool.false_eq_true, ↓reduceIte, hs]
    rw [guardPure_strict _ _ hD]
    exact ⟨"SciPy", rfl⟩

/-- **non-strict ⇒ a warning naming exactly `D` precedes every solver call** (also the retry's), and no
    exception of the guard: the events of the solve are `Guarded` by the names of `D`. -/
theorem integrality_guard_warns (w : World) (hw : w.fault = none) (p : Problem) (o : Opts) (s : PState)
    (hinv : Inv p.isLinear s) (hs : o.strict = false) (hD : p.D ≠ []) :
    ∃ evs, (solve w p o s).2.trace = s.trace ++ evs ∧ Guarded (p.D.map (·.name)) evs ∧
      (∀ solver ns, (solve w p o s).1 ≠ .exc (.integerVariable solver ns)) := by
  refine ⟨(solvePure w p o).2, (solve_det w hw p o s hinv).2.1, ?_, ?_⟩
  rotate_left
  · intro solver ns h
    rw [(solve_det w hw p o s hinv).1] at h
    have := solvePure_exc w p o hs _ h
    cases this
  unfold solvePure
  split
  · trivial
  · cases route o.method p.isLinear p.objDeg (p.cons.map (·.deg)) with
    | lp m =>
      dsimp only
      rcases lpPure_events w p m o.strict _ (hs ▸ guardPure_relaxed "linprog" p.vars hD) with h | h <;> rw [h]
      · trivial
      · exact ⟨rfl, rfl, trivial⟩
    | scipy m =>
      dsimp only
      rcases scipyPure_events w p o m _ (vars_nonempty_of_D hD) (hs ▸ guardPure_relaxed "SciPy" p.vars hD)
        with h | h | h <;> rw [h]
      · exact ⟨rfl, rfl, trivial⟩
      · exact ⟨rfl, rfl, rfl, rfl, rfl, rfl, trivial⟩
      · exact ⟨rfl, rfl, rfl, rfl, rfl, rfl, rfl, rfl, trivial⟩

/-- **frame: the relaxation is what is solved.**  With `strict = False`, solving `p` gives exactly the result
    of solving `p.relax` (every domain set to "continuous", bounds untouched), and the solver calls see
    exactly the same arguments: the two event lists differ only by the relaxation warnings.  (No model
    function other than the guard reads `domain`.) -/
theorem integrality_guard_frame (w : World) (p : Problem) (o : Opts) (hs : o.strict = false) :
    (solvePure w p.relax o).1 = (solvePure w p o).1 ∧
    (solvePure w p.relax o).2 = (solvePure w p o).2.filter notWarn := by
  unfold solvePure
  have h1 : p.relax.hasObjective = p.hasObjective := rfl
  have h2 : p.relax.objDeg = p.objDeg := rfl
  have h3 : p.relax.cons = p.cons := rfl
  rw [h1, h2, h3, relax_isLinear]
  split
  · exact ⟨rfl, rfl⟩
  · cases route o.method p.isLinear p.objDeg (p.cons.map (·.deg)) with
    | lp m =>
      dsimp only
      rw [hs, lpPure_relax]
      exact ⟨rfl, rfl⟩
    | scipy m =>
      dsimp only
      unfold scipyPure
      rw [scipyPureF_relax w p o hs]
      exact ⟨rfl, rfl⟩

/-- **binary ⇒ bounds [0, 1] on every construction route.**  `VecOK` / `MatOK`: every element of the
    handle carries the handle's domain and, if that is binary, `lb = 0 ∧ ub = 1`.  The declarations
    establish it and every view / derived handle preserves it. -/
theorem binary_bounds :
    (∀ n lb ub d, ElemOK (mkVariable n lb ub d) ∧ (mkVariable n lb ub d).domain = d) ∧
    (∀ name size lb ub d v, mkVector name size lb ub d = .ok v → VecOK v ∧ v.domain = d) ∧
    (∀ name r c lb ub d sym m, mkMatrix name r c lb ub d sym = .ok m → MatOK m ∧ m.domain = d) ∧
    (∀ v k v', VecOK v → v.slice k = .ok v' → VecOK v') ∧
    (∀ v i e, VecOK v → v.get i = .ok e → ElemOK e ∧ e.domain = v.domain) ∧
    (∀ m, MatOK m → MatOK m.T) ∧
    (∀ m i j e, MatOK m → m.get i j = .ok e → ElemOK e ∧ e.domain = m.domain) ∧
    (∀ m i cs v, MatOK m → m.row i cs = .ok v → VecOK v) ∧
    (∀ m rs j v, MatOK m → m.col rs j = .ok v → VecOK v) ∧
    (∀ m rs cs m', MatOK m → m.sub rs cs = .ok m' → MatOK m') ∧
    (∀ m v, MatOK m → m.diagonal = .ok v → VecOK v) ∧
    (∀ v lb ub, VecOK v → MatOK (diagMatrix v lb ub)) ∧
    (∀ v, VecOK v → v.domain = .binary → ∀ e ∈ v.vars, e.lb = some 0 ∧ e.ub = some 1) ∧
    (∀ m, MatOK m → m.domain = .binary → ∀ e ∈ m.elems, e.lb = some 0 ∧ e.ub = some 1) := by
  refine ⟨mkVariable_ok, fun _ _ _ _ _ _ h => mkVector_ok h, fun _ _ _ _ _ _ _ _ h => mkMatrix_ok h,
    ?_, ?_, ?_, ?_, ?_, ?_, ?_, ?_, fun v lb ub hv => diagMatrix_ok hv lb ub, ?_, ?_⟩
  · intro v k v' hv h
    obtain ⟨hs, hd, _, _⟩ := slice_subset h
    exact hv.of_subset hs hd
  · intro v i e hv h
    exact hv e (vget_mem h)
  · intro m hm
    exact hm.of_subset (transpose_subset m).1 (transpose_subset m).2
  · intro m i j e hm h
    exact hm e (mget_mem h)
  · intro m i cs v hm h e he
    obtain ⟨hs, hd⟩ := row_subset h
    rw [hd]; exact hm e (hs e he)
  · intro m rs j v hm h e he
    obtain ⟨hs, hd⟩ := col_subset h
    rw [hd]; exact hm e (hs e he)
  · intro m rs cs m' hm h
    obtain ⟨hs, hd⟩ := sub_subset h
    exact hm.of_subset hs hd
  · intro m v hm h e he
    obtain ⟨hs, hd⟩ := diagonal_subset h
    rw [hd]; exact hm e (hs e he)
  · intro v hv hb e he
    obtain ⟨h1, h2⟩ := hv e he
    exact h1 (h2.trans hb)
  · intro m hm hb e he
    obtain ⟨h1, h2⟩ := hm e he
    exact h1 (h2.trans hb)

/-- **views share the elements of their base**: every element of a slice / row / column / sub-matrix /
    transpose / diagonal is an element of the handle it was taken from (no route re-creates variables
    without `__init__`); the diagonal of `diag_matrix(v)` consists of `v`'s own elements, all other
    entries are fresh variables declared with `v`'s domain. -/
theorem views_share_elements :
    (∀ v k v', PVec.slice v k = .ok v' → ∀ e ∈ v'.vars, e ∈ v.vars) ∧
    (∀ v i e, PVec.get v i = .ok e → e ∈ v.vars) ∧
    (∀ m : PMat, ∀ e ∈ m.T.elems, e ∈ m.elems) ∧
    (∀ m i j e, PMat.get m i j = .ok e → e ∈ m.elems) ∧
    (∀ m i cs v, PMat.row m i cs = .ok v → ∀ e ∈ v.vars, e ∈ m.elems) ∧
    (∀ m rs j v, PMat.col m rs j = .ok v → ∀ e ∈ v.vars, e ∈ m.elems) ∧
    (∀ m rs cs m', PMat.sub m rs cs = .ok m' → ∀ e ∈ m'.elems, e ∈ m.elems) ∧
    (∀ m v, PMat.diagonal m = .ok v → ∀ e ∈ v.vars, e ∈ m.elems) ∧
    (∀ v lb ub, ∀ e ∈ (diagMatrix v lb ub).elems,
        e ∈ v.vars ∨ ∃ n, e = mkVariable n (some 0) (some 0) v.domain) :=
  ⟨fun _ _ _ h => (slice_subset h).1, fun _ _ _ h => vget_mem h, fun m => (transpose_subset m).1,
   fun _ _ _ _ h => mget_mem h, fun _ _ _ _ h => (row_subset h).1, fun _ _ _ _ h => (col_subset h).1,
   fun _ _ _ _ h => (sub_subset h).1, fun _ _ h => (diagonal_subset h).1,
   fun v lb ub => (diagMatrix_elems v lb ub).1⟩

/-! non-vacuity -/

/-- a binary vector, sliced: the elements have bounds [0, 1] whatever was passed -/
example : ((mkVector "b" 3 (some 5) none .binary).toOption.bind
    (fun v => (v.slice ⟨some 1, none, none⟩).toOption)).map (·.vars)
    = some [⟨"b[1]", some 0, some 1, .binary⟩, ⟨"b[2]", some 0, some 1, .binary⟩] := by decide +kernel

/-- strict solve of a problem with one integer variable: IntegerVariableError, no event -/
example :
    let p : Problem := { hasObjective := true, maximize := false, objLinear := false, objDeg := some 2, cons := [],
                         vars := [⟨"k", some 0, some 5, .integer⟩], c := [0], c0 := 0 }
    let w : World := ⟨⟨true, ⟨false, false, false⟩, [1], 1, none⟩, ⟨true, ⟨false, false, false⟩, [1], 1, none⟩,
                      ⟨true, 0, some [1], some 1, none⟩, none⟩
    (solve w p { method := "auto", strict := true } (PState.init 7 1000)).1
      = .exc (.integerVariable "SciPy" ["k"]) ∧
    (solve w p { method := "auto", strict := true } (PState.init 7 1000)).2.trace = [] := by
  decide +kernel

end Optyx.Props.C18
