/-
  Optyx.Props.OperatorsTie — what the operator overloads of `Expression` build, read off the source on every run
  (`Generated/Operators.lean`, harness/py2lean_ops.py): each arithmetic operator builds exactly one `BinaryOp` / `UnaryOp`
  node over `self` and the (wrapped) other operand, in the operand order Python's reflected-operator protocol implies;
  nothing is rewritten, folded or re-associated at construction time.  The comparison methods all go through
  `_make_constraint(self, sense, other)` (whose shape is `Glue.makeConstraint_shape`).
-/
import Optyx.Syntax
import Optyx.Generated.Operators

namespace Optyx.Props.OperatorsTie
open Optyx Optyx.Generated

def binOf : String → Option BinOp
  | "+" => some .add | "-" => some .sub | "*" => some .mul | "/" => some .div | "**" => some .pow
  | _ => none

/-- the node a table row builds from `self` and the other operand (already wrapped by `_ensure_expr`) -/
def applyRow (r : OpRowG) (self other : Expr) : Option Expr :=
  if r.node == "BinaryOp" then
    (binOf r.op).map fun o => if r.selfLeft then .bin o self other else .bin o other self
  else if r.node == "UnaryOp" then
    (if r.op == "neg" then some (.un .neg self) else none)
  else if r.node == "self" then some self
  else none

/-- `self.<method>(other)` according to the source -/
def build (method : String) (self other : Expr) : Option Expr :=
  (exprOperatorsG.find? (fun r => r.method == method)).bind fun r => applyRow r self other

/-- `a ⋄ b` builds `BinaryOp(a, b, ⋄)`; `c ⋄ a` with a non-Expression `c` on the left reaches `a.__r⋄__(c)` and builds
    `BinaryOp(c, a, ⋄)` — the operand order of `-`, `/` and `**` is preserved; `-a` is `UnaryOp(a, "neg")`; `+a` is `a` -/
theorem operators_spec (a b : Expr) :
    build "__add__" a b = some (.bin .add a b) ∧ build "__radd__" a b = some (.bin .add b a)
    ∧ build "__sub__" a b = some (.bin .sub a b) ∧ build "__rsub__" a b = some (.bin .sub b a)
    ∧ build "__mul__" a b = some (.bin .mul a b) ∧ build "__rmul__" a b = some (.bin .mul b a)
    ∧ build "__truediv__" a b = some (.bin .div a b) ∧ build "__rtruediv__" a b = some (.bin .div b a)
    ∧ build "__pow__" a b = some (.bin .pow a b) ∧ build "__rpow__" a b = some (.bin .pow b a)
    ∧ build "__neg__" a b = some (.un .neg a) ∧ build "__pos__" a b = some a := by
  refine ⟨?_, ?_, ?_, ?_, ?_, ?_, ?_, ?_, ?_, ?_, ?_, ?_⟩ <;> rfl

theorem comparisons_spec : exprComparisonsG = [("__le__", "<="), ("__ge__", ">="), ("eq", "==")] := by decide

theorem ensureExpr_text :
    ensureExprTextG = "if isinstance(value, Expression): return value; return Constant(value)" := by decide

end Optyx.Props.OperatorsTie
