/-
  Optyx.Props.ParamTie — the scalar `Parameter` class as the model uses it: a parameter is a slot `σ p.oid` of the store; `set`
  overwrites that slot with the converted new value (or raises and changes nothing), every read (`value`, `evaluate`, a compiled
  leaf) returns the slot.  The decision function of `Parameter.set` and the reading methods are translated from
  core/parameters.py on every run (`Generated/ParamClass.lean`, harness/py2lean_param.py); this file proves their specification.
-/
import Optyx.Py.Compile
import Optyx.Generated.ParamClass

namespace Optyx.Props.ParamTie
open Optyx Optyx.Py Optyx.Generated NumAlg

/-- `set` raises exactly when both values are arrays of different shapes, or a scalar parameter is given an array of positive
    dimension; a 0-d array is accepted for a scalar and a scalar for an array -/
theorem paramSet_raises_iff (curArr newArr : Bool) (curShape newShape : List Nat) :
    paramSetG curArr newArr curShape newShape = none ↔
      (curArr = true ∧ newArr = true ∧ curShape ≠ newShape) ∨ (curArr = false ∧ newArr = true ∧ newShape.length > 0) := by
  unfold paramSetG
  cases curArr <;> cases newArr <;> by_cases h : curShape = newShape <;> by_cases h2 : newShape.length > 0 <;> simp [h, h2]

/-- whenever `set` does not raise it ends with `self._value = _as_parameter_value(value)`: the slot receives the CONVERTED NEW
    value — not a cached view, not the old value, on every path -/
theorem paramSet_stores_converted (curArr newArr : Bool) (curShape newShape : List Nat) (src : String)
    (h : paramSetG curArr newArr curShape newShape = some src) : src = "_as_parameter_value(value)" := by
  unfold paramSetG at h
  repeat' split at h
  all_goals first | (injection h with h; exact h.symm) | (exact absurd h (by simp))

/-- scalar → scalar updates (the documented re-solve use) never raise -/
theorem scalar_set_stores (s t : List Nat) : paramSetG false false s t = some "_as_parameter_value(value)" := by
  simp [paramSetG]

/-- the readers return the slot `set` writes -/
theorem reads_slot :
    paramReadsG.lookup "value" = some ["return self._value"] ∧ paramReadsG.lookup "evaluate" = some ["return self._value"] ∧
    paramReadsG.lookup "get_variables" = some ["return set()"] := by
  refine ⟨rfl, rfl, rfl⟩

/-- conversion: Python numbers become Python floats; integer / bool / unsigned / narrow-float arrays are promoted to float64;
    float64 (and complex / object) arrays are stored as they are -/
theorem asParameterValue_spec :
    asParameterValueG true 'f' 8 = .pyFloat ∧ asParameterValueG false 'i' 8 = .astypeFloat64 ∧
    asParameterValueG false 'u' 1 = .astypeFloat64 ∧ asParameterValueG false 'b' 1 = .astypeFloat64 ∧
    asParameterValueG false 'f' 4 = .astypeFloat64 ∧ asParameterValueG false 'f' 2 = .astypeFloat64 ∧
    asParameterValueG false 'f' 8 = .asArray := by decide

/-- the store semantics of a successful `set`: the compiled leaf of THAT parameter reads the new value at its next call, every
    other parameter's leaf is unaffected (closures read the store at call time: `CompileEntryTie.param_run`) -/
def setSlot {α : Type} (σ : Nat → α) (i : Nat) (v : α) : Nat → α := fun j => if j = i then v else σ j

theorem read_after_set {α : Type} [NumAlg α] (x : List α) (σ : Nat → α) (p q : Par) (v : α) :
    Clo.run x (setSlot σ p.oid v) (.param q) = .ok (if q.oid = p.oid then v else σ q.oid) := by
  by_cases h : q.oid = p.oid <;> simp [Clo.run, setSlot, h]

end Optyx.Props.ParamTie
