/-
  Optyx.Props.ParamTie — the scalar `Parameter` class as the model uses it: a parameter is a slot `σ p.oid` of the store; `set`
  overwrites that slot with the converted new value (or raises and changes nothing), every read (`value`, `evaluate`, a compiled
  leaf) returns the slot.  The decision function of `Parameter.set` and the reading methods are translated from
  core/parameters.py on every run (`Generated/ParamClass.lean`, harness/py2lean_param.py); this file proves their specification.
-/
import Optyx.Py.Compile
import Optyx.Generated.ParamClass

namespace Optyx.Props.ParamTie
open Optyx Optyx.Py Optyx.Generated NumAlg

/-- `set` raises exactly when both values are arrays of different shapes, or a scalar parameter is given an array of positive
    dimension; a 0-d array is accepted for a scalar and a scalar for an array -/
theorem paramSet_raises_iff (curArr newArr : Bool) (curShape newShape : List Nat) :
    paramSetG curArr newArr curShape newShape = none ↔
      (curArr = true ∧ newArr = true ∧ curShape ≠ newShape) ∨ (curArr = false ∧ newArr = true ∧ newShape.length > 0) := by
  unfold paramSetG
  cases curArr <;> cases newArr <;> by_cases h : curShape = newShape <;> by_cases h2 : newShape.length > 0 <;> simp [h, h2]

/-- whenever `set` does not raise it ends with `self._value = _as_parameter_value(value)`: the slot receives the CONVERTED NEW
    value — not a cached view, not the old value, on every path -/
theorem paramSet_stores_converted (curArr newArr : Bool) (curShape newShape : List Nat) (src : String)
    (h : paramSetG curArr newArr curShape newShape = some src) : src = "_as_parameter_value(value)" := by
  unfold paramSetG at h
  repeat' split at h
  all_goals first | (injection h with h; exact h.symm) | (exact absurd h (by simp))

/-- scalar → scalar updates (the documented re-solve use) never raise -/
theorem scalar_set_stores (s t : List Nat) : paramSetG false false s t = some "_as_parameter_value(value)" := by
  simp [paramSetG]

/-- the readers return the slot `set` writes -/
theorem reads_slot :
    paramReadsG.lookup "value" = some ["return self._value"] ∧ paramReadsG.lookup "evaluate" = some ["return self._value"] ∧
    paramReadsG.lookup "get_variables" = some ["return set()"] := by
  refine ⟨rfl, rfl, rfl⟩

/-- conversion: Python numbers become Python floats; integer / bool / unsigned / narrow-float arrays are promoted to float64;
    float64 (and complex / object) arrays are stored as they are -/
theorem asParameterValue_spec :
    asParameterValueG true 'f' 8 = .pyFloat ∧ asParameterValueG false 'i' 8 = .astypeFloat64 ∧
    asParameterValueG false 'u' 1 = .astypeFloat64 ∧ asParameterValueG false 'b' 1 = .astypeFloat64 ∧
    asParameterValueG false 'f' 4 = .astypeFloat64 ∧ asParameterValueG false 'f' 2 = .astypeFloat64 ∧
    asParameterValueG false 'f' 8 = .asArray := by decide

/-- the store semantics of a successful `set`: the compiled leaf of THAT parameter reads the new value at its next call, every
    other parameter's leaf is unaffected (closures read the store at call time: `CompileEntryTie.param_run`) -/
def setSlot {α : Type} (σ : Nat → α) (i : Nat) (v : α) : Nat → α := fun j => if j = i then v else σ j

theorem read_after_set {α : Type} [NumAlg α] (x : List α) (σ : Nat → α) (p q : Par) (v : α) :
    Clo.run x (setSlot σ p.oid v) (.param q) = .ok (if q.oid = p.oid then v else σ q.oid) := by
  by_cases h : q.oid = p.oid <;> simp [Clo.run, setSlot, h]

/-! ### `VectorParameter.set`: the loop `for i, param in enumerate(self._parameters): param.set(val_array[i])` -/

/-- the store after the loop: element `i` (slot `oids[i]`) receives `vals[i]`, in order -/
def vecSet {α : Type} (σ : Nat → α) : List Nat → List α → Nat → α
  | i :: is, v :: vs => vecSet (setSlot σ i v) is vs
  | _, _ => σ

theorem vecSet_other {α : Type} (σ : Nat → α) (is : List Nat) (vs : List α) (j : Nat) (h : j ∉ is) :
    vecSet σ is vs j = σ j := by
  induction is generalizing σ vs with
  | nil => cases vs <;> rfl
  | cons i is ih =>
    cases vs with
    | nil => rfl
    | cons v vs =>
      simp only [vecSet]
      rw [ih _ _ (fun hm => h (List.mem_cons_of_mem _ hm))]
      have : j ≠ i := fun e => h (e ▸ List.mem_cons_self)
      simp [setSlot, this]

/-- after a bulk `set` of a vector parameter whose elements are distinct objects, element `k` reads `vals[k]` — whatever was set
    element-wise before (the store `σ` is arbitrary): bulk updates are not shadowed by earlier element updates -/
theorem read_after_vecSet {α : Type} (σ : Nat → α) (is : List Nat) (vs : List α) (hd : is.Nodup) (hl : is.length = vs.length)
    (k : Nat) (hk : k < is.length) :
    vecSet σ is vs (is[k]) = vs[k]'(hl ▸ hk) := by
  induction is generalizing σ vs k with
  | nil => cases hk
  | cons i is ih =>
    cases vs with
    | nil => simp at hl
    | cons v vs =>
      have hd' := List.nodup_cons.mp hd
      cases k with
      | zero =>
        simp only [vecSet, List.getElem_cons_zero]
        rw [vecSet_other _ _ _ _ hd'.1]; simp [setSlot]
      | succ k =>
        simp only [vecSet, List.getElem_cons_succ]
        exact ih _ _ hd'.2 (by simpa using hl) k (by simpa using hk)

/-- and an element-wise `set` after a bulk one changes that element only -/
theorem elem_after_vecSet {α : Type} (σ : Nat → α) (is : List Nat) (vs : List α) (i : Nat) (v : α) (j : Nat) :
    setSlot (vecSet σ is vs) i v j = if j = i then v else vecSet σ is vs j := rfl

/-- the guard of `VectorParameter.set` precedes the loop: a wrong shape changes nothing; the right shape updates all `size`
    elements -/
theorem vectorParamSet_spec (size : Nat) (shape : List Nat) :
    (vectorParamSetG size shape = none ↔ shape ≠ [size]) ∧ (shape = [size] → vectorParamSetG size shape = some size) := by
  unfold vectorParamSetG
  by_cases h : shape = [size] <;> simp [h]

/-- `MatrixParameter.set`: rejected exactly for a wrong shape or an asymmetric matrix on a symmetric parameter; otherwise the slot
    receives a private float64 copy of the NEW array -/
theorem matrixParamSet_spec (shapeOk sym isSym : Bool) :
    (matrixParamSetG shapeOk sym isSym = none ↔ (shapeOk = false ∨ (sym = true ∧ isSym = false))) ∧
    (∀ src, matrixParamSetG shapeOk sym isSym = some src → src = "np.asarray(values, dtype=np.float64).copy()") := by
  cases shapeOk <;> cases sym <;> cases isSym <;> simp [matrixParamSetG]

end Optyx.Props.ParamTie
