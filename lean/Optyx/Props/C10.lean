/-
  C10 — constraints mean the relation the user wrote, also inside the solver.

  Model: `Optyx.Py.Api` (`Py/Constraint.lean`): `_make_constraint`, `Constraint.evaluate / violation /
  is_satisfied`, `_vector_constraint`, `_matrix_constraint`, the CPython / NumPy dispatch of
  `a <= b`, `a >= b`, `a.eq(b)` (`compare`), the SciPy dicts of `_build_solver_cache`.
  Structural statements hold for every number algebra; order statements are over ℝ.
  Only property theorems live here; helper lemmas are in `Optyx/Lemmas/ApiConstraint.lean`.
-/
import Optyx.Props.Glue
import Optyx.Lemmas.ApiConstraint
import Optyx.Drive.Api

namespace Optyx.Props.C10
open Optyx Optyx.Py.Api NumAlg

/-- `(lhs ⋈ rhs).expr` denotes `⟦lhs⟧ − val rhs`, with the sense as written, for every accepted
    right-hand-side kind (Python number, NumPy scalar, 0-d array, Expression); any number algebra. -/
theorem mkConstraint_denote {α : Type} [NumAlg α] (lhs : Expr) (s : Sense) (rhs : Operand)
    (c : Constraint) (h : mkConstraint lhs s rhs = .ok c) :
    ∃ r, rhsExpr rhs = some r ∧ c.sense = s ∧
      ∀ (ρ : String → α) (σ : Nat → α),
        c.evaluate ρ σ = NumAlg.sub (denote ρ σ lhs) (denote ρ σ r) := by
  obtain ⟨r, hr⟩ := (mkConstraint_ok_iff lhs s rhs).mp ⟨c, h⟩
  rw [mkConstraint_of_rhsExpr hr] at h
  cases h
  exact ⟨r, hr, rfl, fun _ _ => rfl⟩

example : ∃ c, mkConstraint (.var ⟨"x", 1⟩) .le (.pyNum 3) = .ok c := ⟨_, rfl⟩

/-- a right-hand side is rejected exactly when it has no scalar value: lists, arrays of ndim ≥ 1 and
    optyx containers raise `TypeError` (from `float()`); an array-valued Elementwise node is outside the
    expression syntax (finding F24) -/
theorem mkConstraint_error_iff (lhs : Expr) (s : Sense) (rhs : Operand) :
    ((∃ c, mkConstraint lhs s rhs = .ok c) ↔ ∃ r, rhsExpr rhs = some r) ∧
    (rhsExpr rhs = none →
      mkConstraint lhs s rhs = .error .typeError ∨ mkConstraint lhs s rhs = .error .outsideModel) := by
  refine ⟨mkConstraint_ok_iff lhs s rhs, ?_⟩
  intro h
  cases rhs <;> simp [rhsExpr] at h <;> simp [mkConstraint]

section Real
variable (ρ : String → ℝ) (σ : Nat → ℝ)

/-- `violation` is the amount by which the written relation fails -/
theorem violation_spec (lhs : Expr) (s : Sense) (rhs : Operand) (c : Constraint) (r : Expr)
    (h : mkConstraint lhs s rhs = .ok c) (hr : rhsExpr rhs = some r) :
    c.violation ρ σ =
      match s with
      | .le => max 0 (denote ρ σ lhs - denote ρ σ r)
      | .ge => max 0 (denote ρ σ r - denote ρ σ lhs)
      | .eq => |denote ρ σ lhs - denote ρ σ r| := by
  rw [mkConstraint_of_rhsExpr hr] at h
  cases h
  cases s
  · show violationOf .le _ = _; rw [violationOf_le]; rfl
  · show violationOf .ge _ = _; rw [violationOf_ge]
    show max 0 (-(denote ρ σ lhs - denote ρ σ r)) = _; rw [neg_sub]
  · rfl

example : (subC .le (.var ⟨"x", 1⟩) (Expr.c 3)).violation (fun _ => (5 : ℝ)) (fun _ => 0) = 2 := by
  show violationOf .le _ = _
  rw [violationOf_le]
  show max (0 : ℝ) (5 - ((3 : ℚ) : ℝ)) = 2
  norm_num

theorem violation_nonneg (c : Constraint) : 0 ≤ c.violation ρ σ := violationOf_nonneg _ _

/-- `is_satisfied(point, tol)` for a non-negative tolerance: the relation holds up to `tol` -/
theorem satisfied_iff (lhs : Expr) (s : Sense) (rhs : Operand) (c : Constraint) (r : Expr)
    (h : mkConstraint lhs s rhs = .ok c) (hr : rhsExpr rhs = some r) (tol : ℝ) (ht : 0 ≤ tol) :
    c.isSatisfied ρ σ tol = true ↔
      match s with
      | .le => denote ρ σ lhs - denote ρ σ r ≤ tol
      | .ge => denote ρ σ r - denote ρ σ lhs ≤ tol
      | .eq => |denote ρ σ lhs - denote ρ σ r| ≤ tol := by
  have hc : c = subC s lhs r := by
    rw [mkConstraint_of_rhsExpr hr] at h; exact (Except.ok.inj h).symm
  subst hc
  simp only [Constraint.isSatisfied, decide_eq_true_eq]
  show violationOf s (denote ρ σ lhs - denote ρ σ r) ≤ tol ↔ _
  rw [violationOf_le_tol_iff _ _ _ ht]
  cases s
  · exact Iff.rfl
  · show -(denote ρ σ lhs - denote ρ σ r) ≤ tol ↔ _; rw [neg_sub]
  · exact Iff.rfl

/-- with tolerance 0: satisfied exactly when the stated relation holds between the operand values -/
theorem satisfied_zero_tol_iff (lhs : Expr) (s : Sense) (rhs : Operand) (c : Constraint) (r : Expr)
    (h : mkConstraint lhs s rhs = .ok c) (hr : rhsExpr rhs = some r) :
    c.isSatisfied ρ σ 0 = true ↔
      match s with
      | .le => denote ρ σ lhs ≤ denote ρ σ r
      | .ge => denote ρ σ r ≤ denote ρ σ lhs
      | .eq => denote ρ σ lhs = denote ρ σ r := by
  rw [satisfied_iff ρ σ lhs s rhs c r h hr 0 le_rfl]
  cases s
  · exact sub_nonpos
  · exact sub_nonpos
  · simp [sub_eq_zero]

/-- the inequality dict handed to SciPy is feasible (`fun(x) ≥ 0`) exactly where the relation holds -/
theorem scipy_ineq_nonneg_iff (lhs : Expr) (s : Sense) (rhs : Operand) (c : Constraint) (r : Expr)
    (h : mkConstraint lhs s rhs = .ok c) (hr : rhsExpr rhs = some r) (hs : s ≠ .eq)
    (J : (String → ℝ) → List ℝ) :
    (scipyConstraint c.sense (fun ρ => c.evaluate ρ σ) J).type = .ineq ∧
    (0 ≤ (scipyConstraint c.sense (fun ρ => c.evaluate ρ σ) J).fn ρ ↔
      match s with
      | .le => denote ρ σ lhs ≤ denote ρ σ r
      | .ge => denote ρ σ r ≤ denote ρ σ lhs
      | .eq => True) := by
  rw [mkConstraint_of_rhsExpr hr] at h
  cases h
  cases s
  · refine ⟨rfl, ?_⟩
    show 0 ≤ -(denote ρ σ lhs - denote ρ σ r) ↔ _
    rw [neg_sub]; exact sub_nonneg
  · refine ⟨rfl, ?_⟩
    show 0 ≤ denote ρ σ lhs - denote ρ σ r ↔ _
    exact sub_nonneg
  · exact absurd rfl hs

/-- the equality dict is feasible (`fun(x) = 0`) exactly where both sides are equal -/
theorem scipy_eq_zero_iff (lhs : Expr) (rhs : Operand) (c : Constraint) (r : Expr)
    (h : mkConstraint lhs .eq rhs = .ok c) (hr : rhsExpr rhs = some r)
    (J : (String → ℝ) → List ℝ) :
    (scipyConstraint c.sense (fun ρ => c.evaluate ρ σ) J).type = .eq ∧
    ((scipyConstraint c.sense (fun ρ => c.evaluate ρ σ) J).fn ρ = 0 ↔
      denote ρ σ lhs = denote ρ σ r) := by
  rw [mkConstraint_of_rhsExpr hr] at h
  cases h
  refine ⟨rfl, ?_⟩
  show denote ρ σ lhs - denote ρ σ r = 0 ↔ _
  exact sub_eq_zero

end Real

/-- the sign flip of `<=` is applied to both `fun` and `jac`, and to nothing else -/
theorem scipy_sign_consistent {X : Type} (s : Sense) (f : X → ℝ) (J : X → List ℝ) :
    ∃ sign : ℝ, (sign = -1 ↔ s = .le) ∧ (sign = 1 ↔ s ≠ .le) ∧
      ∀ x, (scipyConstraint s f J).fn x = sign * f x ∧
           (scipyConstraint s f J).jac x = (J x).map (sign * ·) := by
  cases s
  · refine ⟨-1, by simp, by norm_num, fun x => ⟨?_, ?_⟩⟩
    · show -(f x) = -1 * f x; ring
    · show (J x).map NumAlg.neg = _
      congr 1; funext a; show -a = -1 * a; ring
  · refine ⟨1, ⟨fun h => by norm_num at h, fun h => by cases h⟩, ⟨fun _ => by decide, fun _ => rfl⟩, fun x => ⟨?_, ?_⟩⟩
    · show f x = 1 * f x; ring
    · show J x = _; simp
  · refine ⟨1, ⟨fun h => by norm_num at h, fun h => by cases h⟩, ⟨fun _ => by decide, fun _ => rfl⟩, fun x => ⟨?_, ?_⟩⟩
    · show f x = 1 * f x; ring
    · show J x = _; simp

/-- if the compiled Jacobian row `J` is the gradient of the compiled function `f` (property C03),
    then the `jac` of the dict is the gradient of its `fun`, coordinate by coordinate -/
theorem scipy_jac_is_deriv {n : Nat} (s : Sense) (f : (Fin n → ℝ) → ℝ) (J : (Fin n → ℝ) → List ℝ)
    (x : Fin n → ℝ) (i : Fin n)
    (hJ : HasDerivAt (fun t => f (Function.update x i t)) ((J x).getD i 0) (x i)) :
    HasDerivAt (fun t => (scipyConstraint s f J).fn (Function.update x i t))
      (((scipyConstraint s f J).jac x).getD i 0) (x i) := by
  cases s
  · show HasDerivAt (fun t => -(f (Function.update x i t))) (((J x).map NumAlg.neg).getD i 0) (x i)
    have : ((J x).map (NumAlg.neg : ℝ → ℝ)).getD i 0 = -((J x).getD i 0) := by
      simp only [List.getD_eq_getElem?_getD, List.getElem?_map]
      cases (J x)[(i : Nat)]? <;> simp [neg_real]
    rw [this]
    exact hJ.neg
  · exact hJ
  · exact hJ

/-- `_vector_constraint`: one constraint per element; the `i`-th one is `left[i] − right[i] ⋈ 0`
    where `right` is broadcast (scalar) or matched element by element (vector / 1-d array / list) -/
theorem vectorConstraint_elementwise (left : VecLike) (right : Operand) (s : Sense) (cs : List Constraint)
    (h : vectorConstraint left right s = .ok cs) :
    ∃ rs, vecRhsSpec left.elems.length right = some rs ∧ rs.length = left.elems.length ∧
      cs.length = left.elems.length ∧
      ∀ i (hi : i < cs.length), ∃ a b, left.elems[i]? = some a ∧ rs[i]? = some b ∧
        (cs[i]).sense = s ∧
        ∀ {α : Type} [NumAlg α] (ρ : String → α) (σ : Nat → α),
          (cs[i]).evaluate ρ σ = NumAlg.sub (denote ρ σ a) (denote ρ σ b) := by
  obtain ⟨rs, hrs, hcs⟩ := vectorConstraint_spec left right s cs h
  have hlen := vecRhsSpec_length hrs
  subst hcs
  refine ⟨rs, hrs, hlen, by simp [hlen], fun i hi => ?_⟩
  obtain ⟨a, b, ha, hb, hc⟩ := zipWith_subC_getElem s left.elems rs i hi
  exact ⟨a, b, ha, hb, by rw [hc]; rfl, fun ρ σ => by rw [hc]; rfl⟩

example : ∃ cs, vectorConstraint (.vvar ⟨"v", 3, [⟨"v[0]", 1⟩, ⟨"v[1]", 2⟩]⟩) (.arr1 [1, 2]) .ge = .ok cs ∧
    cs.length = 2 := ⟨_, rfl, rfl⟩

/-- `_matrix_constraint`: one constraint per entry (row-major) of rectangular operands -/
theorem matrixConstraint_elementwise (left : MatLike) (right : Operand) (s : Sense) (cs : List Constraint)
    (h : matrixConstraint left right s = .ok cs) :
    ∃ rs, matRhsSpec left.elems right = some rs ∧
      cs.length = min left.elems.flatten.length rs.length ∧
      ∀ i (hi : i < cs.length), ∃ a b, left.elems.flatten[i]? = some a ∧ rs[i]? = some b ∧
        (cs[i]).sense = s ∧
        ∀ {α : Type} [NumAlg α] (ρ : String → α) (σ : Nat → α),
          (cs[i]).evaluate ρ σ = NumAlg.sub (denote ρ σ a) (denote ρ σ b) := by
  obtain ⟨rs, hrs, hcs⟩ := matrixConstraint_spec left right s cs h
  subst hcs
  refine ⟨rs, hrs, by simp, fun i hi => ?_⟩
  obtain ⟨a, b, ha, hb, hc⟩ := zipWith_subC_getElem s left.elems.flatten rs i hi
  exact ⟨a, b, ha, hb, by rw [hc]; rfl, fun ρ σ => by rw [hc]; rfl⟩

/-- operands of different shapes are rejected (never truncated): a vector-like right operand of a
    different length, a matrix-like right operand of a different shape -/
theorem shape_mismatch_raises (s : Sense) :
    (∀ (left : VecLike) (right : Operand) (m : Nat),
      (right.isVecObj = true ∨ (∃ xs, right = .arr1 xs) ∨ (∃ xs, right = .list1 xs)) →
      right.len? = some m → m ≠ left.elems.length →
      vectorConstraint left right s = .error .dimensionMismatch) ∧
    (∀ (left : MatLike) (right : Operand),
      (match right with
        | .arr2 r => gridShape r ≠ gridShape left.elems
        | .mexpr r => gridShape r ≠ gridShape left.elems
        | .mvar w => (w.nrows, w.ncols) ≠ gridShape left.elems
        | .arr0 _ | .arr1 _ | .arrN _ _ => True
        | _ => False) →
      matrixConstraint left right s = .error .dimensionMismatch) := by
  constructor
  · intro left right m hk hm hne
    rcases hk with hk | ⟨xs, rfl⟩ | ⟨xs, rfl⟩
    · cases right <;> simp [Operand.isVecObj] at hk <;>
        simp [Operand.len?] at hm <;> subst hm <;> simp [vectorConstraint, hne]
    · simp [Operand.len?] at hm; subst hm; simp [vectorConstraint, hne]
    · simp [Operand.len?] at hm; subst hm; simp [vectorConstraint, hne]
  · intro left right h
    cases right <;> simp at h <;> simp [matrixConstraint, h]

example : vectorConstraint (.vvar ⟨"v", 3, [⟨"v[0]", 1⟩, ⟨"v[1]", 2⟩]⟩) (.arr1 [1, 2, 3]) .le
    = .error .dimensionMismatch := rfl

/-- the finite dispatch table: whenever a constraint builder runs, it runs on the left operand with the
    sense as written, or on the right operand with the mirrored sense — and both mean `left ⋈ right` -/
theorem reflected_dispatch (l r : OKind) (rel : Rel) (recvLeft : Bool) (s : Sense)
    (h : dispatch l r rel = .call recvLeft s) :
    ((recvLeft = true → s = rel.sense) ∧ (recvLeft = false → s = rel.flipped)) ∧
    ∀ a b : ℝ, (rel.sense.holds (a - b) ↔ rel.holds a b) ∧ (rel.flipped.holds (b - a) ↔ rel.holds a b) :=
  ⟨dispatch_sense l r rel recvLeft s h, fun a b => ⟨holds_direct rel a b, holds_flipped rel a b⟩⟩

example : dispatch .python .vecVar .le = .call false .ge := rfl
example : dispatch .ndarray .exprNode .le = .numpyElementwise := rfl   -- finding F21

/-- whatever the operand kinds: every constraint that `left ⋈ right` produces relates the `i`-th
    element of `left` to the `i`-th element of `right` (scalars broadcast) by the relation as written -/
theorem compare_meaning (l r : Operand) (lNp rNp : Bool) (rel : Rel) (ρ : String → ℝ) (σ : Nat → ℝ) :
    (∀ c, Py.Api.compare l r lNp rNp rel = .single c →
      ∃ a b, l.elemAt 0 = some a ∧ r.elemAt 0 = some b ∧
        (c.sense.holds (c.evaluate ρ σ) ↔ rel.holds (denote ρ σ a) (denote ρ σ b))) ∧
    (∀ cs, Py.Api.compare l r lNp rNp rel = .many cs → ∀ i (hi : i < cs.length),
      ∃ a b, l.elemAt i = some a ∧ r.elemAt i = some b ∧
        ((cs[i]).sense.holds ((cs[i]).evaluate ρ σ) ↔ rel.holds (denote ρ σ a) (denote ρ σ b))) := by
  unfold Py.Api.compare
  cases hd : dispatch (l.kind lNp) (r.kind rNp) rel with
  | call recvLeft s =>
    obtain ⟨h1, h2⟩ := dispatch_sense _ _ _ _ _ hd
    cases recvLeft
    · have hs := h2 rfl
      subst hs
      obtain ⟨b1, b2⟩ := build_meaning r l rel.flipped
      constructor
      · intro c hc
        obtain ⟨a, b, ha, hb, hcab⟩ := b1 c hc
        subst hcab
        exact ⟨b, a, hb, ha, holds_flipped rel _ _⟩
      · intro cs hcs i hi
        obtain ⟨a, b, ha, hb, hcab⟩ := b2 cs hcs i hi
        rw [hcab]
        exact ⟨b, a, hb, ha, holds_flipped rel _ _⟩
    · have hs := h1 rfl
      subst hs
      obtain ⟨b1, b2⟩ := build_meaning l r rel.sense
      constructor
      · intro c hc
        obtain ⟨a, b, ha, hb, hcab⟩ := b1 c hc
        subst hcab
        exact ⟨a, b, ha, hb, holds_direct rel _ _⟩
      · intro cs hcs i hi
        obtain ⟨a, b, ha, hb, hcab⟩ := b2 cs hcs i hi
        rw [hcab]
        exact ⟨a, b, ha, hb, holds_direct rel _ _⟩
  | numpyElementwise => exact ⟨fun c h => (by cases h), fun cs h => (by cases h)⟩
  | typeError => exact ⟨fun c h => (by cases h), fun cs h => (by cases h)⟩
  | attributeError => exact ⟨fun c h => (by cases h), fun cs h => (by cases h)⟩

example : ∃ cs, Py.Api.compare (.arr1 [1, 2]) (.vvar ⟨"v", 3, [⟨"v[0]", 1⟩, ⟨"v[1]", 2⟩]⟩) false false .le = .many cs ∧
    cs.length = 2 := ⟨_, rfl, rfl⟩

end Optyx.Props.C10
