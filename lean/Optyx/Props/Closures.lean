/-
  Tie between the hand-written closure bodies of the vectorised derivative paths
  (`Py/Jacobian.lean`: `vecUnBody`, `vecUnSanitized`, `hessUnBody`, `hessUnSanitized`, `hessFastOp`)
  and the tables REGENERATED from the Python source (`Generated/Closures.lean`, produced by
  harness/gen_tables.py from `_compile_vectorized_unary_gradient` and the VectorUnarySum fast
  paths of `compile_hessian`, full and sparse variants separately).  A changed sign, a dropped
  `_sanitize_derivatives`, a full/sparse discrepancy or a new/removed fast path in the source
  changes the generated file and this theorem stops checking (C03, C17 and C19 all depend on it).
-/
import Optyx.Py.Jacobian
import Optyx.Generated.Closures

namespace Optyx.Props.Closures
open Optyx Optyx.Py Optyx.Generated

theorem closureTables_agree :
    (∀ {α : Type} [NumAlg α] [DerivAlg α] (op : VOp) (x : α),
      vecUnBody op x = vecUnBodyFull op x ∧ vecUnBody op x = vecUnBodySparse op x) ∧
    (∀ op : VOp, vecUnSanitized op = vecUnSanFull op ∧ vecUnSanitized op = vecUnSanSparse op) ∧
    (∀ op : VOp, hessFastOp op = decide (op ∈ hessUnOps)) ∧
    (∀ {α : Type} [NumAlg α] [DerivAlg α] (op : VOp) (x : α), hessFastOp op = true →
      hessUnBody op x = hessUnBodyFull op x ∧ hessUnBody op x = hessUnBodySparse op x) ∧
    (∀ op : VOp, hessFastOp op = true →
      hessUnSanitized op = hessUnSanFull op ∧ hessUnSanitized op = hessUnSanSparse op) ∧
    (∀ op : VOp, op ∈ vecUnOps) := by
  refine ⟨?_, ?_, ?_, ?_, ?_, ?_⟩
  · intro α _ _ op x; cases op <;> exact ⟨rfl, rfl⟩
  · intro op; cases op <;> exact ⟨rfl, rfl⟩
  · intro op; cases op <;> decide
  · intro α _ _ op x h; cases op <;> first | exact ⟨rfl, rfl⟩ | (simp [hessFastOp] at h)
  · intro op h; cases op <;> first | exact ⟨rfl, rfl⟩ | (simp [hessFastOp] at h)
  · intro op; cases op <;> decide

/-- the replacement values of `_sanitize_derivatives` (regenerated from its one `np.nan_to_num` call; any other
    shape of the function — a clip, a mask, a second call — is rejected by the translator) are the ones the model
    `Py.DerivAlg.nanToNum` / `SV.nanToNum` uses: NaN ↦ 0, +∞ ↦ `_LARGE_GRADIENT`, −∞ ↦ −`_LARGE_GRADIENT` -/
theorem sanitizeShape_agrees :
    sanitizeNan = 0 ∧ sanitizePosInf = Py.largeGradient ∧ sanitizeNegInf = -Py.largeGradient := by
  refine ⟨rfl, rfl, rfl⟩

end Optyx.Props.Closures
