/-
  Optyx.Props.PinsC14 — transcription anchors of C14 (harness/source_pins.py).
  Each theorem says: the function the hand-written model of C14 was read from has, in the source of this run,
  the fingerprint of the text it was read from.  Rewritten only by `source_pins.py --update` after a reviewed change.
-/
import Optyx.Generated.PinsC14

namespace Optyx.Props.PinsC14
open Optyx.Generated.PinsC14

/-- `Problem._validate_expression` (problem.py) -/
theorem pin_problem_Problem_validate_expression_anchor : pin_problem_Problem_validate_expression = "c1cde4a100b85f9c" := rfl
/-- `Problem._validate_constraint` (problem.py) -/
theorem pin_problem_Problem_validate_constraint_anchor : pin_problem_Problem_validate_constraint = "86c81ec384d8e567" := rfl
/-- `Problem._only_simple_bounds` (problem.py) -/
theorem pin_problem_Problem_only_simple_bounds_anchor : pin_problem_Problem_only_simple_bounds = "db45e87281100d80" := rfl
/-- `Problem._has_equality_constraints` (problem.py) -/
theorem pin_problem_Problem_has_equality_constraints_anchor : pin_problem_Problem_has_equality_constraints = "56258a35419a78c5" := rfl
/-- `Problem.summary` (problem.py) -/
theorem pin_problem_Problem_summary_anchor : pin_problem_Problem_summary = "bbcdac853c42d5a8" := rfl
/-- `_make_constraint` (constraints.py) -/
theorem pin_constraints_make_constraint_anchor : pin_constraints_make_constraint = "f94a0d73e3549836" := rfl
/-- `compile_gradient` (core/compiler.py) -/
theorem pin_compiler_compile_gradient_anchor : pin_compiler_compile_gradient = "19d1f93c3bdc18f8" := rfl
/-- `_compile_vectorized_power_gradient` (core/compiler.py) -/
theorem pin_compiler_compile_vectorized_power_gradient_anchor : pin_compiler_compile_vectorized_power_gradient = "abe0e8d8d48a69e7" := rfl
/-- `_compile_vectorized_unary_gradient` (core/compiler.py) -/
theorem pin_compiler_compile_vectorized_unary_gradient_anchor : pin_compiler_compile_vectorized_unary_gradient = "6e886c928b66b5e2" := rfl
/-- `compile_jacobian` (core/autodiff.py) -/
theorem pin_autodiff_compile_jacobian_anchor : pin_autodiff_compile_jacobian = "40a13139a06a856b" := rfl
/-- `compile_hessian` (core/autodiff.py) -/
theorem pin_autodiff_compile_hessian_anchor : pin_autodiff_compile_hessian = "50982ad58c3902f9" := rfl
/-- `_estimate_tree_depth` (analysis.py) -/
theorem pin_analysis_estimate_tree_depth_anchor : pin_analysis_estimate_tree_depth = "2165600c9d813bf0" := rfl

/-- every function the model of C14 transcribes (and no translator covers) is the one it was read from -/
theorem anchors : pin_problem_Problem_validate_expression = "c1cde4a100b85f9c" ∧ pin_problem_Problem_validate_constraint = "86c81ec384d8e567" ∧ pin_problem_Problem_only_simple_bounds = "db45e87281100d80" ∧ pin_problem_Problem_has_equality_constraints = "56258a35419a78c5" ∧ pin_problem_Problem_summary = "bbcdac853c42d5a8" ∧ pin_constraints_make_constraint = "f94a0d73e3549836" ∧ pin_compiler_compile_gradient = "19d1f93c3bdc18f8" ∧ pin_compiler_compile_vectorized_power_gradient = "abe0e8d8d48a69e7" ∧ pin_compiler_compile_vectorized_unary_gradient = "6e886c928b66b5e2" ∧ pin_autodiff_compile_jacobian = "40a13139a06a856b" ∧ pin_autodiff_compile_hessian = "50982ad58c3902f9" ∧ pin_analysis_estimate_tree_depth = "2165600c9d813bf0" :=
  ⟨pin_problem_Problem_validate_expression_anchor, pin_problem_Problem_validate_constraint_anchor, pin_problem_Problem_only_simple_bounds_anchor, pin_problem_Problem_has_equality_constraints_anchor, pin_problem_Problem_summary_anchor, pin_constraints_make_constraint_anchor, pin_compiler_compile_gradient_anchor, pin_compiler_compile_vectorized_power_gradient_anchor, pin_compiler_compile_vectorized_unary_gradient_anchor, pin_autodiff_compile_jacobian_anchor, pin_autodiff_compile_hessian_anchor, pin_analysis_estimate_tree_depth_anchor⟩

end Optyx.Props.PinsC14
