/-
  Optyx.Props.EvalTie — the hand-written tree evaluator `Py.evaluate` is the unique solution of the equations that
  harness/py2lean_eval.py reads off the *current* source of the `evaluate` methods of all seventeen expression classes on every
  run (`Generated.evalStepG`: element loops, helper iterators, the NumPy expression that combines the element values).
-/
import Optyx.Py.Eval
import Optyx.Py.EvalSupport
import Optyx.Generated.EvalStep

namespace Optyx.Props.EvalTie
open Optyx Optyx.Py Optyx.Generated NumAlg

variable {α : Type} [NumAlg α]

theorem evalVarsRec_evaluate (values : String → Option α) (σ : Nat → α) :
    (vs : List Var) → evalVarsRec (evaluate values σ) vs = evalVars values vs
  | [] => rfl
  | v :: t => by simp only [evalVarsRec, evalVars, evaluate, evalVarsRec_evaluate values σ t]

theorem evalListRec_evaluate (values : String → Option α) (σ : Nat → α) :
    (es : ExprList) → evalListRec (evaluate values σ) es = evaluateList values σ es
  | .nil => rfl
  | .cons e t => by simp only [evalListRec, evaluateList, evalListRec_evaluate values σ t]

theorem evalVecRec_evaluate (values : String → Option α) (σ : Nat → α) (v : Vec) :
    evalVecRec (evaluate values σ) v = evaluateVec values σ v := by
  cases v with
  | vars w => simp only [evalVecRec, evaluateVec, evalVarsRec_evaluate]
  | exprs es => simp only [evalVecRec, evaluateVec, evalListRec_evaluate]

/-- `e.evaluate(values)` as the source has it now -/
theorem evaluate_step (values : String → Option α) (σ : Nat → α) (e : Expr) :
    evaluate values σ e = evalStepG values σ (evaluate values σ) e := by
  cases e <;>
    simp only [evaluate, evalStepG, evalVarsRec_evaluate, evalListRec_evaluate, evalVecRec_evaluate] <;>
    (try rfl)
  case quad v q => cases v <;> simp only [evaluateVec] <;> rfl

/-! ### and it is the only solution -/

section
variable (values : String → Option α) (σ : Nat → α) (f : Expr → Except CErr α)
  (hf : ∀ e, f e = evalStepG values σ f e)
include hf

theorem vars_unique : (vs : List Var) → evalVarsRec f vs = evalVars values vs
  | [] => rfl
  | v :: t => by
    simp only [evalVarsRec, evalVars, vars_unique t]
    rw [hf]; rfl

mutual
theorem step_unique : (e : Expr) → f e = evaluate values σ e
  | .const c => by rw [hf, evaluate_step]; rfl
  | .var x => by rw [hf, evaluate_step]; rfl
  | .param p => by rw [hf, evaluate_step]; rfl
  | .bin op l r => by
    rw [hf, evaluate_step]; simp only [evalStepG]; rw [step_unique l, step_unique r]
  | .un op a => by
    rw [hf, evaluate_step]; simp only [evalStepG]; rw [step_unique a]
  | .linComb cs v => by
    rw [hf, evaluate_step]; simp only [evalStepG]; rw [vec_unique v, evalVecRec_evaluate]
  | .vecSum v => by
    rw [hf, evaluate_step]; simp only [evalStepG]
    rw [vars_unique values σ f hf v.vars, evalVarsRec_evaluate]
  | .exprSum es => by
    rw [hf, evaluate_step]; simp only [evalStepG]; rw [list_unique es, evalListRec_evaluate]
  | .dot l r => by
    rw [hf, evaluate_step]; simp only [evalStepG]
    rw [vec_unique l, vec_unique r, evalVecRec_evaluate, evalVecRec_evaluate]
  | .l2 v => by
    rw [hf, evaluate_step]; simp only [evalStepG]; rw [vec_unique v, evalVecRec_evaluate]
  | .l1 v => by
    rw [hf, evaluate_step]; simp only [evalStepG]; rw [vec_unique v, evalVecRec_evaluate]
  | .quad v q => by
    rw [hf, evaluate_step]
    cases v with
    | vars w =>
      simp only [evalStepG]
      rw [vars_unique values σ f hf w.vars, evalVarsRec_evaluate]
    | exprs es =>
      simp only [evalStepG]; rw [list_unique es, evalListRec_evaluate]
  | .powSum v k => by
    rw [hf, evaluate_step]; simp only [evalStepG]
    rw [vars_unique values σ f hf v.vars, evalVarsRec_evaluate]
  | .unSum v op => by
    rw [hf, evaluate_step]; simp only [evalStepG]
    rw [vars_unique values σ f hf v.vars, evalVarsRec_evaluate]
  | .matSumV m => by
    rw [hf, evaluate_step]; simp only [evalStepG]
    rw [vars_unique values σ f hf m.flat, evalVarsRec_evaluate]
  | .matSumE es => by
    rw [hf, evaluate_step]; simp only [evalStepG]; rw [list_unique es, evalListRec_evaluate]
  | .frob m => by
    rw [hf, evaluate_step]; simp only [evalStepG]
    rw [vars_unique values σ f hf m.flat, evalVarsRec_evaluate]
theorem vec_unique : (v : Vec) → evalVecRec f v = evaluateVec values σ v
  | .vars w => by simp only [evalVecRec, evaluateVec]; exact vars_unique values σ f hf w.vars
  | .exprs es => by simp only [evalVecRec, evaluateVec]; exact list_unique es
theorem list_unique : (es : ExprList) → evalListRec f es = evaluateList values σ es
  | .nil => rfl
  | .cons e t => by
    simp only [evalListRec, evaluateList]
    rw [step_unique e, list_unique t]
end

end

theorem source_equations_solvable (values : String → Option α) (σ : Nat → α) :
    ∃ f : Expr → Except CErr α, ∀ e, f e = evalStepG values σ f e :=
  ⟨evaluate values σ, evaluate_step values σ⟩

end Optyx.Props.EvalTie
